#!/bin/bash
# usage: confirm_mutant.sh <worktree> <seed-id> <property>
# confirms (a) suite passes with the change, (b) demo fails with it, (c) demo passes without it;
# then stores patch.diff, demo.rs, notes.md and meta.json under /verif/seeded/<seed-id>/
wt=$1; id=$2; prop=$3
export CARGO_TARGET_DIR=$wt/target CARGO_NET_OFFLINE=true
cd $wt || exit 2
out=/verif/seeded/$id; mkdir -p $out
git diff -- src > $out/patch.diff
cp mutant_out/demo.rs $out/demo.rs; cp mutant_out/notes.md $out/notes.md 2>/dev/null
suite=$(cargo test --workspace --no-fail-fast --offline 2>&1 | grep -E "^test result" | awk '{p+=$4; f+=$6} END {print p" passed "f" failed"}')
cp mutant_out/demo.rs tests/mutant_demo.rs
with=$(cargo test --offline --test mutant_demo 2>&1 | grep -E "^test result" | head -1)
git diff -- src > /tmp/confirm_$id.diff
git checkout -- src
without=$(cargo test --offline --test mutant_demo 2>&1 | grep -E "^test result" | head -1)
git apply /tmp/confirm_$id.diff; rm -f /tmp/confirm_$id.diff
rm -f tests/mutant_demo.rs
python3 - "$out" "$id" "$prop" "$suite" "$with" "$without" <<'PY'
import json,sys
out,id_,prop,suite,w,wo=sys.argv[1:7]
json.dump({"id":id_,"property":prop,"suite_with_change":suite,"demo_with_change":w.strip(),"demo_without_change":wo.strip(),
 "confirmed": ("0 failed" in suite) and ("0 failed" not in w) and ("0 failed" in wo),
 "needs":"see notes.md","ran":"cargo test --workspace --no-fail-fast --offline (with change); cargo test --offline --test mutant_demo with and without the src change"},
 open(out+"/meta.json","w"),indent=1)
print(open(out+"/meta.json").read())
PY
