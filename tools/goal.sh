#!/bin/bash
# usage: goal.sh <file.v relative to coq/> <line>  — show goals just before <line>
f=$1; n=$2
cd /verif/coq
d=$(dirname $f); b=$(basename $f .v)
head -n $((n-1)) $f > $d/Dbg_$b.v
echo "Show. Admitted." >> $d/Dbg_$b.v
timeout 120 coqc -Q . FR $d/Dbg_$b.v 2>&1 | grep -v "^WARNING" | tail -${3:-40}
rm -f $d/Dbg_$b.* $d/.Dbg_$b.*
