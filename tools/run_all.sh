#!/bin/bash
# run every claimed check (quick) on the current tree and validate the evidence files
cd /verif
props=$(python3 -c "import json; print(' '.join(c['property_id'] for c in json.load(open('MANIFEST.json'))['checks']))")
for p in $props; do
  s=$(date +%s); out=$(./check $p --quick 2>&1 | grep -E "VIOLATION|Traceback" | head -2); rc=$?
  e=$(( $(date +%s) - s ))
  python3-vt - "$p" "$e" "$out" <<'PY'
import json,sys,jsonschema
p,e,out=sys.argv[1:4]
ev=json.load(open('/verif/evidence/%s.json'%p))
jsonschema.validate(ev, json.load(open('/root/.vp/EVIDENCE.schema.json')))
c=ev['coverage']
ok = c['obligations']==c['discharged'] and ev['violations']==0 and not out
print("%s %ss obligations=%d discharged=%d evals=%d nontrivial=%d %s %s" % (p,e,c['obligations'],c['discharged'],c['evaluations'],c['distinct_nontrivial'],"OK" if ok else "PROBLEM",out))
PY
done
