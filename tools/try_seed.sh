#!/bin/bash
# usage: try_seed.sh <seed-id> <prop> [<prop>...] — apply a seeded change to /repo, run the quick
# checks of the given properties, undo the change. Prints one line per check.
id=$1; shift
cd /repo && git diff --quiet || { echo "/repo is dirty"; exit 2; }
rm -rf /tmp/evidence_keep && cp -r /verif/evidence /tmp/evidence_keep
git -C /repo apply /verif/seeded/$id/patch.diff || { echo "patch does not apply"; exit 2; }
for p in "$@"; do
  out=$(cd /verif && timeout 1200 ./check $p --quick 2>&1 | grep -E "VIOLATION|Traceback|Error" | head -3 | tr '\n' ' ')
  echo "$id $p => ${out:-PASS(no alarm)}"
  echo "$p => ${out:-PASS(no alarm)}" >> /verif/seeded/$id/detection.txt
done
git -C /repo checkout -- .
rm -rf /verif/evidence && mv /tmp/evidence_keep /verif/evidence
