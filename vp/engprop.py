"""Generic runner for the engine properties: Coq obligations + T2/T3 ties + the reference
differential, known-finding handling, witness search and evidence."""
import json
from . import core, gen, engine
from .core import hexs

CLASSES = {
    "conditional_under_atomic_cut": engine.cls_condleak,
    "keepout_inside_lookbehind": engine.cls_keepout_lb,
}


# minimized failures of earlier seeded changes that every engine property runs first
COMMON_CORPUS = ["(?=)a{1,2}?b", "(?=)(a){0,2}?$", "\\ba{1,2}?b", "(?:x|(?!a))?a", "(?>(?:(a)|b(?!x))+)c|\\w+",
                 # constructs the coverage measurement of the quick tier showed were never EXECUTED by the VM
                 # (always delegated): line anchors, word-start / word-end assertions, control escapes
                 "(?m)(?=)^a", "(?m:a$)(?=)", "(?m)(?<=^a)b", "(?m)(?:(?=)$\\n?)+", "(?=)\\<a", "a\\>(?=)", "(?<=\\<a)b", "(?=)\\n\\<", "(?s)(?=).a", "(?=)a\\tb", "(?i)(?=)(a)\\1"]
# case-insensitive non-ASCII literals in VM context; class text with escaped class metacharacters
COMMON_CORPUS += ["(?i)é*x", "(?i)(?=)é*x", "(?i)(?:é|bb)(?=)", "(é)(?=)(?i)é?", "(?i)\\x{e9}+?(?=)", "(?<=[a\\-c])b", "([a\\-c])\\1", "([g\\H])\\1", "(?<=[_\\H])b",
                  "(?:(a)|.)(?(1)x|y)", "(?:(?:(a)|(.))(?(1)x|y)|(..))", "(a)(?(2))", "(?(1))", "(?<=(?!\\s)(.)\\b)x"]
# an assertion between two hard neighbours is compiled to Insn::Assertion and executed by the VM itself
COMMON_CORPUS += [pre + "(a*)\\n?" + a + "\\1" for pre in ("", "(?m)") for a in ("^", "$", "\\b", "\\B", "\\<", "\\>", "\\A", "\\z")]


def seed_inputs(prop):
    """corpus/seed_inputs.json: the minimized failing inputs the checks found for earlier seeded
    changes of this property - run first, with their texts, whatever the random streams do"""
    import os
    p = os.path.join(core.ROOT, "corpus", "seed_inputs.json")
    if not os.path.exists(p):
        return []
    return [x for x in json.load(open(p)).get(prop, []) if isinstance(x.get("pattern"), str)]


def known_for(prop):
    return [f for f in core.load_known()["findings"] if prop in f["properties"]]


def classify(prop, info):
    for f in known_for(prop):
        pred = CLASSES.get(f["class"])
        if pred and pred(info):
            return f
    return None


def gen_patterns(tier, seed, cfg):
    r = core.rng(seed, cfg["prop"])
    pats = list(cfg.get("corpus", [])) + [p for p in COMMON_CORPUS if p not in cfg.get("corpus", [])]
    pats += [x["pattern"] for x in seed_inputs(cfg["prop"]) if x["pattern"] not in pats]
    ncorp = len(pats)
    if cfg.get("products", True):
        pp = gen.product_patterns()
        if tier == "quick":
            r2 = core.rng(seed, cfg["prop"] + "/prod")
            pp = r2.sample(pp, min(len(pp), cfg.get("quick_products", 220)))
        pats += pp
    n = cfg["n_quick"] if tier == "quick" else cfg["n_thorough"]
    feats = cfg["feats"]
    seen = set(pats)
    tries = 0
    while len(pats) < ncorp + (len(pats) - ncorp) and False:
        pass
    target = len(pats) + n
    while len(pats) < target and tries < n * 20:
        tries += 1
        f = feats[tries % len(feats)]
        depth = r.choice(cfg.get("depths", [2, 3, 3, 4]))
        p, _ = gen.random_pattern(r, depth, f)
        if p not in seen and len(p) < 60:
            seen.add(p)
            pats.append(p)
    return pats, ncorp


def text_set(tier, seed, cfg):
    r = core.rng(seed, cfg["prop"] + "/texts")
    alpha = cfg.get("alpha", gen.ALPHA)
    base = gen.texts(cfg.get("exh_len_quick", 2) if tier == "quick" else cfg.get("exh_len_thorough", 3), alpha)
    extra = ["aab", "abab", "aabb", "éa-", "ab\nab", "aaaa", "cabc", "aaa", "abc", "aéb", "a-b", "bca", "ababab", "aaaaaa",
             # more repetitions than any bounded quantifier of the grammar admits, then a continuation
             "aaab", "aaaab", "abbb", "aaabc", "baaab", "a\tb", "a\nA", "aA", "\ta\r\n"]
    extra += cfg.get("extra_texts", [])
    rnd = [gen.random_text(r, 6, alpha) for _ in range(20 if tier == "quick" else 150)]
    return base, extra + rnd


ALWAYS = ["aaab", "aaa", "a\nab", "ab a", "Éx", "b-", "¿x", "a𝄞b"]      # more repetitions than {1,2} / {0,2} admit, with and without a continuation


def pick_texts(info, base, extra, r, k_base, k_extra):
    return r.sample(base, min(len(base), k_base)) + r.sample(extra, min(len(extra), k_extra)) + ALWAYS


def run(cfg, tier, seed, replay=None):
    prop = cfg["prop"]
    res = core.Result(prop, tier, seed)
    obligations, closed, log = core.coq_property(prop, cfg["theorems"])
    proof_ok = True
    for name, ok in obligations:
        proof_ok &= res.oblige(name, ok)
    core.build_ocaml()
    core.build_harness()
    r = core.rng(seed, prop + "/pick")
    if replay and replay.get("pattern") is not None:
        pats, ncorp = [replay["pattern"]], 1
        base, extra = [replay.get("text", "")], []
    else:
        pats, ncorp = gen_patterns(tier, seed, cfg)
        base, extra = text_set(tier, seed, cfg)
    kb = cfg.get("k_base_quick", 12) if tier == "quick" else cfg.get("k_base_thorough", 60)
    ke = cfg.get("k_extra_quick", 6) if tier == "quick" else cfg.get("k_extra_thorough", 40)
    infos = engine.prog_info(pats)
    seed_texts = {}
    for x in seed_inputs(prop):
        if isinstance(x.get("text"), str):
            seed_texts.setdefault(x["pattern"], []).append(x["text"])
    tmap = {}
    for info in infos:
        tmap[info["pattern"]] = (pick_texts(info, base, extra, r, kb, ke) + cfg.get("pattern_texts", {}).get(info["pattern"], []) + seed_texts.get(info["pattern"], [])) if not replay else base
    texts_for = lambda info: tmap[info["pattern"]]
    compiled = [i for i in infos if engine.ngroups_of(i) is not None]
    ctx = {"cfg": cfg, "tier": tier, "seed": seed, "res": res, "infos": infos, "texts_for": texts_for,
           "compiled": compiled, "replay": replay, "violations": [], "known_hits": {}, "evals": 0, "nontrivial": 0,
           "tie_fail": []}
    tiers = tuple(cfg.get("tiers", ("t2", "run", "sem"))) + (() if cfg.get("no_t1") else ("t1",))
    notes = {"patterns": len(pats), "compiled": len(compiled),
             "fancy": sum(1 for i in infos if i["impl"].get("new", "").startswith("fancy")),
             "wrap": sum(1 for i in infos if i["impl"].get("new", "").startswith("wrap")),
             "rejected": len(pats) - len(compiled)}
    # share of the VM-compiled patterns that lie inside the end-to-end theorem (Model/Scope.v in_scope,
    # shown sound in Proofs/ScopeProofs.v); the rest is decided by the differential tiers only
    fancy_m = [i for i in infos if i.get("model") and i["model"].get("new", "").startswith("fancy")]
    notes["vm_compiled_patterns_inside_end_to_end_theorem"] = {
        "inside_stage1_deterministic_delegates": sum(1 for i in fancy_m if i["model"].get("scope") == "1"),
        "inside_stage3_every_program": sum(1 for i in fancy_m if i["model"].get("scope3") == "1"),
        "inside_api_layer_theorems_no_keepout_under_lookbehind": sum(1 for i in fancy_m if i["model"].get("scope4") == "1"),
        "of": len(fancy_m)}
    # ---- T1: the model analyses the tree and the back-reference set the REAL parser produced; the parser
    # model must produce the same ones (a parser change that drops a back-reference from the set, or
    # spells a class differently, is otherwise invisible to T2/T3)
    if "t1" in tiers and not replay:
        from . import t1
        bad1, _, _ = t1.compare(pats)
        ok = res.oblige("tie:T1 parse tree, back-reference set, names, error kind and position, parser model = real parser on %d patterns" % len(pats), not bad1)
        if not ok:
            ctx["tie_fail"].append(dict(bad1[0], tier="T1"))
    # ---- T2
    if "t2" in tiers:
        bad = [i for i in infos if i["t2_ok"] is False]
        ok = res.oblige("tie:T2 analysis facts and program listing, model = implementation on %d patterns" % sum(1 for i in infos if i["t2_ok"] is not None), not bad)
        if not ok:
            ctx["tie_fail"].append({"tier": "T2", "pattern": bad[0]["pattern"], "impl": bad[0]["raw"][:1500], "model": bad[0].get("model_raw", "")[:1500]})
    # ---- T3 run
    if "run" in tiers:
        n, mism, kinds, fuel = engine.run_tie(infos, texts_for, limits=cfg.get("limits", ("-",)), flags=cfg.get("flags", ("0",)))
        ok = res.oblige("tie:T3 vm::run result and exact statistics (instructions, backtracks, peak depth), model = implementation on %d runs" % n, not mism)
        notes["run_outcomes"] = kinds
        notes["model_out_of_fuel"] = fuel
        ctx["evals"] += n
        if not ok:
            ctx["tie_fail"].append(dict(mism[0], tier="T3-run"))
    # ---- reference differential
    if "sem" in tiers:
        n, mism, nmatch, skipped = engine.sem_differential(infos, texts_for)
        ctx["evals"] += n
        ctx["nontrivial"] += nmatch
        notes["reference_differential"] = {"evaluations": n, "matches": nmatch, "patterns_skipped_F1_class": skipped}
        unknown = []
        byp = {i["pattern"]: i for i in infos}
        for m in mism:
            f = classify(prop, byp[m["pattern"]])
            if f:
                ctx["known_hits"].setdefault(f["id"], []).append(m)
            else:
                unknown.append(m)
        sem_is_property = cfg.get("sem_is_property", True)
        if not sem_is_property and unknown:
            # this property only uses the reference differential to LOOK for a failing input; a
            # disagreement on a pattern inside a class recorded as a known finding of ANOTHER
            # property (e.g. a conditional under an atomic cut, F-condleak) is that property's
            # finding, not a failure of this one
            allf = core.load_known()["findings"]
            def foreign(m):
                return any(CLASSES.get(f["class"]) and CLASSES[f["class"]](byp[m["pattern"]]) for f in allf)
            other = [m for m in unknown if foreign(m)]
            unknown = [m for m in unknown if not foreign(m)]
            notes["reference_differential"]["disagreements_inside_known_classes_of_other_properties"] = len(other)
        okd = res.oblige("%s: public API (captures_from_pos at every boundary offset) = reference semantics Sem on %d evaluations" % ("property" if sem_is_property else "search", n), not unknown)
        if unknown:
            unknown.sort(key=lambda m: (len(m["pattern"]), len(m["text"])))
            ctx["violations"].append(dict(unknown[0], kind="input", check="impl vs reference semantics"))
    # ---- property-specific part
    for fn in cfg.get("extras", []):
        fn(ctx)
    # ---- known findings whose witnesses still reproduce
    for f in known_for(prop):
        w = f.get("witness", {})
        hits = ctx["known_hits"].get(f["id"])
        if hits:
            res.known_finding("%s class=%s e.g. pattern=%r text=%r (%d disagreeing cases in the class this run)" % (f["id"], f["class"], hits[0]["pattern"], hits[0]["text"], len(hits)))
    res.cov.update(evaluations=ctx["evals"], distinct_nontrivial=ctx["nontrivial"],
                   rule=cfg.get("rule", "patterns = corpus + context x filler products + seeded random trees of the property's grammar; texts over {a,b,c,e-acute,newline,-} exhaustive to a length bound plus fixed and seeded random longer ones; every char-boundary start offset; non-trivial = the search reports a match; distinct by (pattern,text,offset)"),
                   samples=[{"pattern": p} for p in (pats[:2] + pats[ncorp:ncorp + 2] + pats[-2:])], exhaustive=False)
    res.notes.update(notes, theorem_assumptions=closed)
    res.assumptions = cfg.get("assumptions", [])
    broken = [n for n, ok in res.obligations if not ok]
    if ctx["violations"]:
        for v in ctx["violations"][:3]:
            res.violation(dict(v, broken=broken))
    elif broken:
        res.violation({"kind": "obligation" if not proof_ok else "tie", "broken": broken,
                       "first_disagreement": ctx["tie_fail"][:2],
                       "note": "no input was found on which the property itself fails; the named theorem/tier no longer checks",
                       "coq_log_tail": log[-1500:] if not proof_ok else ""}, no_input=True)
    return res.finish(cfg.get("checker_cmd", "make -C coq Properties/%s.vo && coqc -Q coq FR coq/Properties/%s.v ; ocaml/frmodel {prog,run,sem,api} vs harness/target/release/frh {prog,run,api}" % (prop, prop)))
