"""C03 — independence from the VM/automata split: theorems of Properties/C03.v + the property
evaluated on the real crate: P vs inject(P) (every single site, random multi-site)."""
from . import core, gen, engine, engprop
from .core import hexs

THEOREMS = ["C03_inject_sem", "C03_inject_search", "C03_to_str_total", "C03_vm_split_independent"]
BASES = ["(a|ab)(c|bcd)(d*)", "(?:(a)|b)*", "(a)\\1", "(?<=a)b", "a+?b", "(?>a|ab)c", "(?=(a|ab))\\1c", "(|a)*", "(?:a|b)*c", "x*", "(a)|b", "\\ba", "(?:ab|a)b", "(?:(a)|b){2}", "(a*)*b", "(?<!a)b|c", "^a$", "[ab]+c", "a{1,2}?b", "(a){0,2}?$", "(?:a|b){1,2}?c", "a{2,3}?b", "a{1}?b", "(a+){1}?b",
         # case-insensitive non-ASCII literals
         "(?:a{2})?b", "(?:a{2})??", "(?:a{2})??a", "(b)|(?:a{2})?", "(?:a{1,2})?b", "(?:a+)??b", "a(?:b|$)", "(a|\\z)b?", "a$", "(?m)a(?:b|$)",
         "(?i)é*x", "(?i)(?:é|bb)", "(é)(?i)é?", "(?i)\\x{e9}+?", "(?i)é+É"]


def L(c):
    return ("lit", c)


A, B, C = L("a"), L("b"), L("c")
STAR = lambda t: ("rep", t, 0, None, True, False)
PLUS = lambda t: ("rep", t, 1, None, True, False)
TREE_BASES = [
    STAR(("ncg", ("alt", [("grp", A, None), B]))),
    ("cat", [("alt", [("cat", [A, B]), A]), B]),
    ("cat", [("grp", ("alt", [A, ("cat", [A, B])]), None), ("grp", ("alt", [C, ("cat", [B, C])]), None)]),
    ("atomic", ("rep", PLUS(A), 2, 2, True, False)),
    ("atomic", ("rep", ("cat", [PLUS(A), ("rep", B, 0, 1, True, False)]), 2, 3, True, False)),
    ("cat", [("grp", PLUS(A), None), ("bref", 1)]),
    ("cat", [("look", "<=", A), B]),
    ("cat", [("look", "<=", ("alt", [("cat", [A, B]), ("cat", [B, C])])), C]),
    ("rep", ("alt", [("grp", A, None), ("grp", B, None)]), 1, None, True, False),
    ("cat", [("rep", ("alt", [A, ("cat", [A, B])]), 2, 2, True, False), C]),
    ("alt", [("cat", [A, STAR(B)]), ("cat", [A, B, C])]),
    ("rep", ("grp", ("alt", [("cat", [A, B]), A]), None), 1, 2, False, False),
    ("cat", [("atomic", ("alt", [A, ("cat", [A, B])])), C]),
    ("cat", [("look", "=", ("grp", PLUS(A), None)), ("bref", 1), B]),
    # an EASY alternation in the middle of a hard concat whose arm must backtrack internally
    # (a greedy repeat that gives back, a nested alternation whose first choice is wrong)
    ("cat", [("ncg", ("alt", [STAR(A), B])), A]),
    ("cat", [("ncg", ("alt", [("cat", [L("x"), ("grp", ("alt", [A, ("cat", [A, B])]), None)]), L("y")])), C]),
    ("cat", [("ncg", ("alt", [("rep", A, 0, 1, True, False), B])), A, B]),
]


def run(tier, seed, replay=None):
    res = core.Result("C03", tier, seed)
    obligations, closed, log = core.coq_property("C03", THEOREMS)
    proof_ok = all([res.oblige(n, ok) for n, ok in obligations])
    core.build_ocaml()
    core.build_harness()
    r = core.rng(seed, "C03")
    feats = [gen.Feats(), gen.Feats(refs_closed=True, look=True, atomic=True), gen.Feats(fancy=False), gen.Feats(nullable_star=True)]
    pairs = []
    if replay and "pattern" in replay:
        pairs = [(replay["pattern"], replay["injected"])]
    else:
        nbase = 250 if tier == "quick" else 2500
        trees = list(TREE_BASES)
        k = 0
        while len(trees) < nbase:
            k += 1
            p, t = gen.random_pattern(r, r.choice([1, 2, 2, 3]), feats[k % len(feats)])
            if len(p) < 40:
                trees.append(t)
        for t in trees:
            base = gen.show(t, 0)
            sites = gen.inject_sites(t)
            if tier == "quick" and len(sites) > 10 and t not in TREE_BASES:
                sites = r.sample(sites, 10)
            for s in sites:
                pairs.append((base, gen.show(s, 0)))
            for _ in range(2):
                pairs.append((base, gen.show(gen.inject_random(r, t), 0)))
        for b in BASES:
            for pos in range(len(b) + 1):
                pass
        # string-level bases: (?=) in front and at the end (always a valid site)
        for b in BASES:
            pairs.append((b, "(?=)" + (b if "|" not in b or b.startswith("(") else "(?:" + b + ")")))
            pairs.append((b, (b if "|" not in b or b.startswith("(") else "(?:" + b + ")") + "(?=)"))
    pats = sorted(set([p for p, _ in pairs] + [q for _, q in pairs]))
    infos = engine.prog_info(pats)
    byp = {i["pattern"]: i for i in infos}
    texts = gen.texts(2) + ["aab", "abab", "abc", "abcd", "abcdd", "aaa", "ab", "bab", "éa-", "cab", "aaab", "aaaab", "abbc", "b", "bc", "xabc", "xac", "yc", "Éx", "É", "éÉ", "ÉÉx", "a\nb", "c\n", "a\n"]
    if tier == "thorough":
        texts = gen.texts(3) + texts
    t2bad = [i for i in infos if i["t2_ok"] is False]
    res.oblige("tie:T2 which blocks are delegated (program listings with delegate pattern strings and group ranges), model = implementation on %d patterns" % len(pats), not t2bad)
    # the property on the real crate
    lines, meta = [], []
    for p in pats:
        if engine.ngroups_of(byp[p]) is None:
            continue
        for t in texts:
            probes = " ".join("caps:%d" % b for b in gen.boundaries(t))
            lines.append("%s\t%s\t-\t0\t%s" % (hexs(p), hexs(t), probes))
            meta.append((p, t))
    out = dict(zip(meta, core.run_impl("api", lines)))
    bad, known, n, differ_split = [], [], 0, 0
    for base, injd in pairs:
        ib, ii = byp[base], byp[injd]
        if engine.ngroups_of(ib) is None or engine.ngroups_of(ii) is None:
            continue
        if ib["impl"].get("prog") != ii["impl"].get("prog") or ib["impl"].get("new", "")[:4] != ii["impl"].get("new", "")[:4]:
            differ_split += 1
        f1 = (ib["model"] or {}).get("f1") == "1" or (ii["model"] or {}).get("f1") == "1"
        for t in texts:
            a, b = out[(base, t)].split("\t")[1:], out[(injd, t)].split("\t")[1:]
            n += len(a)
            if a != b:
                rec = {"kind": "input", "pattern": base, "injected": injd, "text": t, "impl": b, "reference": a, "check": "captures_from_pos(P) = captures_from_pos(inject(P)) at every offset"}
                kf = engprop.classify("C03", ib) or engprop.classify("C03", ii)
                if f1:
                    known.append(("F1", rec))
                elif kf:
                    known.append((kf["id"], rec))
                else:
                    bad.append(rec)
    res.oblige("property: every search of P and of inject(P) agrees on span and all groups (%d pairs, %d change the VM/automata split, %d offset evaluations)" % (len(pairs), differ_split, n), not bad)
    for fid in sorted(set(k for k, _ in known)):
        ex = [r_ for k, r_ in known if k == fid]
        res.known_finding("%s e.g. P=%r inject(P)=%r text=%r (%d disagreeing pairs in the class this run)" % (fid, ex[0]["pattern"], ex[0]["injected"], ex[0]["text"], len(ex)))
    res.cov.update(evaluations=n, distinct_nontrivial=differ_split,
                   rule="pairs (P, inject(P)): seeded random base trees x every single injection site (sampled in quick) + random multi-site injections + fixed bases; texts over {a,b,c,e-acute,newline,-} up to length 2 (3 in thorough) plus fixed longer ones; every boundary offset; non-trivial = the injection changes the compiled program / the Wrap-vs-VM decision",
                   samples=[{"P": p, "inject(P)": q} for p, q in pairs[:3] + pairs[-2:]], exhaustive=False)
    res.notes.update(pairs=len(pairs), pairs_changing_the_split=differ_split, theorem_assumptions=closed)
    res.assumptions = ["unbounded repeats over nullable bodies in delegated blocks are the known finding F1", "arrow (A) (delegation soundness, Sem vs the compiler's SemD) is not proved yet: the VM half of C03 rests on the T2/T3 ties and this differential"]
    broken = [n_ for n_, ok in res.obligations if not ok]
    if bad:
        bad.sort(key=lambda m: (len(m["pattern"]), len(m["text"])))
        res.violation(dict(bad[0], broken=broken))
    elif broken:
        res.violation({"kind": "obligation" if not proof_ok else "tie", "broken": broken,
                       "first_disagreement": [{"pattern": t2bad[0]["pattern"], "impl": t2bad[0]["raw"][:800], "model": t2bad[0].get("model_raw", "")[:800]}] if t2bad else [],
                       "coq_log_tail": log[-1500:] if not proof_ok else ""}, no_input=True)
    return res.finish("make -C coq Properties/C03.vo && coqc -Q coq FR coq/Properties/C03.v ; harness/target/release/frh api on P and inject(P)")
