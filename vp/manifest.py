"""Regenerates MANIFEST.json from the table below (kept in one place so it never goes stale)."""
import json, os, sys

ROOT = os.path.dirname(os.path.dirname(os.path.abspath(__file__)))

CLAIMED = {
    "C20": dict(
        text="Machine-checked refinement (Coq, Qed, closed under the global context): every operation of the copy-on-write backtracking state of vm.rs (push/pop/save/get, the auxiliary stack stored inside the save vector, backtrack_count/backtrack_cut) simulates the whole-state-copy reference machine, for every reachable state and every history of any length, any number of slots and values (C20_refines_op, C20_all_histories). The model is hand-written; its tie to the code is a correspondence check through the StateProbe hook that compares the ENTIRE concrete state (saves, stack, oldsave, nsave) after every operation.",
        note="Trusted: Coq kernel; extraction (ExtrOcamlBasic) + ocaml/driver.ml; harness + StateProbe hook; the stable-filter reading of backtrack_cut's swap loop (validated by the full-state comparison on every run). Program-level half (FailNegativeLookAround stops at its own branch) is covered by the VM properties, not here.",
        technique="Coq refinement proof (abstraction function + per-operation simulation, induction over histories) + differential correspondence of the extracted model against the hooked implementation",
        design="7/C20, 6.1"),
}

PENDING_REASON = "check not built yet in this revision (see DESIGN.md section 12 build order); not claimed until its theorem and correspondence check exist"


def build():
    props = [json.loads(l) for l in open(os.path.join(ROOT, "properties.jsonl"))]
    checks, na = [], []
    for p in props:
        pid = p["id"]
        if pid in CLAIMED:
            c = CLAIMED[pid]
            checks.append({
                "property_id": pid,
                "quick_cmd": "./check %s --quick" % pid,
                "thorough_cmd": "./check %s --thorough" % pid,
                "evidence_file": "evidence/%s.json" % pid,
                "replay_cmd_template": "./check %s --replay {path}" % pid,
                "engine": "coq+correspondence",
                "level_claimed": {"category": "proof", "text": c["text"], "design_ref": "DESIGN.md " + c["design"]},
                "level_note": c["note"],
                "technique": c["technique"],
            })
        else:
            na.append({"property_id": pid, "reason": PENDING_REASON})
    man = {
        "version": 1,
        "setup_cmd": "./check --setup",
        "hooks": {
            "guard": "fancy_regex_verif",
            "enable": "harness/.cargo/config.toml passes --cfg fancy_regex_verif to rustc (RUSTFLAGS) when building /repo as a path dependency",
            "baseline_off_cmd": "cd /repo && cargo test --workspace --no-fail-fast --offline",
            "source_commits": ["a4e46b9"],
            "add_only": True,
        },
        "engines": [{
            "name": "coq+correspondence", "path": "check",
            "serves_properties": sorted(CLAIMED),
            "kind_free_text": "Coq 8.16.1 development under coq/ (model, proofs, pinned property theorems), extracted to OCaml (ocaml/), compared with the real crate through the Rust harness (harness/) by the Python orchestrator (vp/)",
        }],
        "checks": checks,
        "notes": "See DESIGN.md. Known findings: known_findings.json.",
        "not_applicable": na,
    }
    json.dump(man, open(os.path.join(ROOT, "MANIFEST.json"), "w"), indent=1)


if __name__ == "__main__":
    build()
