"""Regenerates MANIFEST.json from the table below (kept in one place so it never goes stale)."""
import json, os, sys

ROOT = os.path.dirname(os.path.dirname(os.path.abspath(__file__)))

CLAIMED = {
    "C20": dict(
        text="Machine-checked refinement (Coq, Qed, closed under the global context): every operation of the copy-on-write backtracking state of vm.rs (push/pop/save/get, the auxiliary stack stored inside the save vector, backtrack_count/backtrack_cut) simulates the whole-state-copy reference machine, for every reachable state and every history of any length, any number of slots and values (C20_refines_op, C20_all_histories). The model is hand-written; its tie to the code is a correspondence check through the StateProbe hook that compares the ENTIRE concrete state (saves, stack, oldsave, nsave) after every operation.",
        note="Trusted: Coq kernel; extraction (ExtrOcamlBasic) + ocaml/driver.ml; harness + StateProbe hook; the stable-filter reading of backtrack_cut's swap loop (validated by the full-state comparison on every run). Program-level half (FailNegativeLookAround stops at its own branch) is covered by the VM properties, not here.",
        technique="Coq refinement proof (abstraction function + per-operation simulation, induction over histories) + differential correspondence of the extracted model against the hooked implementation",
        design="7/C20, 6.1"),
}

API_NOTE = "Trusted: Coq kernel; extraction + driver; harness. The theorems are over ANY search function satisfying SearchOK (match at or after the start offset, inside the text, start <= end, on character boundaries); that the compiled search satisfies SearchOK is C05's invariant and is validated by the correspondence check, not proved here. Known finding F-keepout-lb (\\K inside a look-behind breaks SearchOK) is reported as KNOWN-FINDING."

CLAIMED.update({
    "C07": dict(
        text="Machine-checked (Coq, closed): for EVERY VM program, text, offset and amount of fuel, a run with backtrack limit L returns BacktrackLimitExceeded or exactly the unlimited run (result and statistics), returns the unlimited answer whenever that run needs at most L backtracks, reports the limit only if it needs more, and the branch stack never exceeds max_stack (C07_limit_prefix/enough/fires_only_if, C07_stack_bound). Tie: the model VM must reproduce the real vm::run result AND its exact instruction/backtrack/peak-depth counts (run-stats hook) for limits {0,1,2,3,5,10,100,10^6}; the property is also evaluated on the real code at the exact threshold read through the hook.",
        note="Partial: the bound on the number of VM steps in terms of limit, pattern and text is NOT proved (only the limit/answer relation and the stack bound are theorems); 'no limit error on tiny explorations' is validated on the generated space. Trusted: Coq kernel, extraction, harness + stats hook, regex-automata oracle inside Delegate.",
        technique="Coq lock-step induction over the interpreter loop (all programs) + differential correspondence of exact run statistics",
        design="7/C07"),
    "C08": dict(
        text="Machine-checked (Coq, closed) over any SearchOK search: every sequence find_iter yields, for any number of next() calls, has strictly increasing starts, never overlaps, never starts before the previous end, consists of valid spans, has at most |text|+2 items (termination, incl. the iterator's self-recursion never running out of fuel), and nothing follows an Err item (C08_sorted, C08_terminates, C08_step, C08_fused_after_err). Ties: the API model must reproduce the real find_iter (and every other API call) under backtrack limits -,0,1,2,3,5, and the real find_iter is compared with the reference iteration over the reference semantics Sem.",
        note=API_NOTE, technique="Coq induction over iterator calls (abstract search with SearchOK) + differential correspondence + reference iteration over extracted Sem", design="7/C08"),
    "C09": dict(
        text="Machine-checked (Coq, closed): the separately written CaptureMatches::next is the same function as Matches::next, so captures_iter yields exactly what find_iter yields (C09_next_agree, C09_iters_agree); get(0) is the find span (C09_get0). is_match/find/captures are one search call in the model. Tie + property evaluated on the real crate: all seven entry points, every boundary offset, limits -,0..5.",
        note="Trusted as for C08. For RegexImpl::Wrap the three regex-automata entry points (is_match, search, captures) are one function in the model (oracle assumption, exercised on every run).",
        technique="Coq equality proof of the two iterator models + differential correspondence", design="7/C09"),
    "C10": dict(
        text="Machine-checked (Coq, closed) over any SearchOK search: the iterator's complete match sequence exists; split yields exactly the pieces between consecutive matches for every prefix of next() calls (C10_split_pieces), one more piece than matches (C10_count), interleaving rebuilds the text (C10_rebuild), no slice can panic (C10_split_safe), and splitn k is nothing for 0 and otherwise the first k-1 pieces plus the untouched remainder, again for every prefix of calls (C10_splitn).",
        note=API_NOTE, technique="Coq induction over the match sequence / iterator calls + differential correspondence", design="7/C10"),
    "C11": dict(
        text="Machine-checked (Coq, closed) over any SearchOK search: try_replacen equals the documented splice of the complete match sequence (Borrowed iff no match; first n matches replaced, all if n = 0; every other byte unchanged; an Err item met is returned as Err) (C11_replacen), the captures_iter path and the find_iter path compute the same function (C11_paths_agree), and no slice can panic (C11_no_panic). Tie: replacers {template with/without $, NoExpand, constant closure, identity closure} x limits 0..3 x backtrack limits.",
        note=API_NOTE, technique="Coq induction over the replace loop + differential correspondence", design="7/C11"),
})

CLAIMED.update({
    "C12": dict(
        text="Machine-checked (Coq, closed): for EVERY valid UTF-8 string s and every captures, expanding Expander::escape(s) yields s, for the default ($) and the Python (\\) expander (C12_escape_roundtrip_*); escape borrows iff nothing needed escaping (C12_escape_borrow); Expander::check accepts a template only if every reference step names an existing group (C12_check_sound). The clause 'expansion follows the documented $-syntax' is decided by correspondence: the hand-written Expand model (a port of Expander::exec, parse_id, parse_decimal) must agree with the real expander through all four writer entry points, Captures::expand and check on every template up to a fixed length over the property's alphabet plus '-' and 'n', for capture sets with named, numbered and unmatched groups.",
        note="Trusted: Coq kernel, extraction, harness. is_alphanumeric is modelled on the harness alphabet. No separate theorem states the documented tokenisation (the model itself is the formal reading of the documentation and is tied to the code by the exhaustive short-template comparison).",
        technique="Coq induction over the character list of the escaped string + exhaustive differential correspondence on short templates", design="7/C12"),
})

CLAIMED.update({
    "C16": dict(
        text="Machine-checked (Coq, closed): captures_len is 1 + the number of capturing groups on both the delegated and the VM path (C16_len), the analysis numbers groups in pre-order (C16_group_range), Captures::get returns None beyond len and len of the truncated save vector is the group count (C16_get_oob, C16_len_truncated). The accessor consistency (iter = get(i), name(n) = get(index), get(0) is Some, capture_names at the parser's indices) is evaluated on the real crate for every generated pattern/text/offset and tied to the API model.",
        note="Trusted: Coq kernel, extraction, harness. Group NAMES come from the real parser (the parser is not modelled yet), so the name->index part is validated, not proved. For the delegated path the group count of regex-automata equals the model's count by the oracle assumption (checked on every run).",
        technique="Coq lemmas on the analysis functions + differential correspondence of all accessors", design="7/C16"),
})

PENDING_REASON = "check not built yet in this revision (see DESIGN.md section 12 build order); not claimed until its theorem and correspondence check exist"


def build():
    props = [json.loads(l) for l in open(os.path.join(ROOT, "properties.jsonl"))]
    checks, na = [], []
    for p in props:
        pid = p["id"]
        if pid in CLAIMED:
            c = CLAIMED[pid]
            checks.append({
                "property_id": pid,
                "quick_cmd": "./check %s --quick" % pid,
                "thorough_cmd": "./check %s --thorough" % pid,
                "evidence_file": "evidence/%s.json" % pid,
                "replay_cmd_template": "./check %s --replay {path}" % pid,
                "engine": "coq+correspondence",
                "level_claimed": {"category": "proof", "text": c["text"], "design_ref": "DESIGN.md " + c["design"]},
                "level_note": c["note"],
                "technique": c["technique"],
            })
        else:
            na.append({"property_id": pid, "reason": PENDING_REASON})
    man = {
        "version": 1,
        "setup_cmd": "./check --setup",
        "hooks": {
            "guard": "fancy_regex_verif",
            "enable": "harness/.cargo/config.toml passes --cfg fancy_regex_verif to rustc (RUSTFLAGS) when building /repo as a path dependency",
            "baseline_off_cmd": "cd /repo && cargo test --workspace --no-fail-fast --offline",
            "source_commits": ["a4e46b9"],
            "add_only": True,
        },
        "engines": [{
            "name": "coq+correspondence", "path": "check",
            "serves_properties": sorted(CLAIMED),
            "kind_free_text": "Coq 8.16.1 development under coq/ (model, proofs, pinned property theorems), extracted to OCaml (ocaml/), compared with the real crate through the Rust harness (harness/) by the Python orchestrator (vp/)",
        }],
        "checks": checks,
        "notes": "See DESIGN.md. Known findings: known_findings.json.",
        "not_applicable": na,
    }
    json.dump(man, open(os.path.join(ROOT, "MANIFEST.json"), "w"), indent=1)


if __name__ == "__main__":
    build()
