"""Regenerates MANIFEST.json from the table below (kept in one place so it never goes stale)."""
import json, os, sys

ROOT = os.path.dirname(os.path.dirname(os.path.abspath(__file__)))

CLAIMED = {
    "C20": dict(
        text="Machine-checked refinement (Coq, Qed, closed under the global context): every operation of the copy-on-write backtracking state of vm.rs (push/pop/save/get, the auxiliary stack stored inside the save vector, backtrack_count/backtrack_cut) simulates the whole-state-copy reference machine, for every reachable state and every history of any length, any number of slots and values (C20_refines_op, C20_all_histories). The model is hand-written; its tie to the code is a correspondence check through the StateProbe hook that compares the ENTIRE concrete state (saves, stack, oldsave, nsave) after every operation.",
        note="Trusted: Coq kernel; extraction (ExtrOcamlBasic) + ocaml/driver.ml; harness + StateProbe hook; the stable-filter reading of backtrack_cut's swap loop (validated by the full-state comparison on every run). Program-level half (FailNegativeLookAround stops at its own branch) is covered by the VM properties, not here.",
        technique="Coq refinement proof (abstraction function + per-operation simulation, induction over histories) + differential correspondence of the extracted model against the hooked implementation",
        design="7/C20, 6.1"),
}

API_NOTE = "Trusted: Coq kernel; extraction + driver; harness. The theorems are over ANY search function satisfying SearchOK (match at or after the start offset, inside the text, start <= end, on character boundaries); that the compiled search satisfies SearchOK is C05's invariant and is validated by the correspondence check, not proved here. Known finding F-keepout-lb (\\K inside a look-behind breaks SearchOK) is reported as KNOWN-FINDING."

CLAIMED.update({
    "C07": dict(
        text="Machine-checked (Coq, closed): for EVERY VM program, text, offset and amount of fuel, a run with backtrack limit L returns BacktrackLimitExceeded or exactly the unlimited run (result and statistics), returns the unlimited answer whenever that run needs at most L backtracks, reports the limit only if it needs more, and the branch stack never exceeds max_stack (C07_limit_prefix/enough/fires_only_if, C07_stack_bound). Tie: the model VM must reproduce the real vm::run result AND its exact instruction/backtrack/peak-depth counts (run-stats hook) for limits {0,1,2,3,5,10,100,10^6}; the property is also evaluated on the real code at the exact threshold read through the hook.",
        note="Partial: the bound on the number of VM steps in terms of limit, pattern and text is NOT proved (only the limit/answer relation and the stack bound are theorems); 'no limit error on tiny explorations' is validated on the generated space. Trusted: Coq kernel, extraction, harness + stats hook, regex-automata oracle inside Delegate.",
        technique="Coq lock-step induction over the interpreter loop (all programs) + differential correspondence of exact run statistics",
        design="7/C07"),
    "C08": dict(
        text="Machine-checked (Coq, closed) over any SearchOK search: every sequence find_iter yields, for any number of next() calls, has strictly increasing starts, never overlaps, never starts before the previous end, consists of valid spans, has at most |text|+2 items (termination, incl. the iterator's self-recursion never running out of fuel), and nothing follows an Err item (C08_sorted, C08_terminates, C08_step, C08_fused_after_err). Ties: the API model must reproduce the real find_iter (and every other API call) under backtrack limits -,0,1,2,3,5, and the real find_iter is compared with the reference iteration over the reference semantics Sem.",
        note=API_NOTE, technique="Coq induction over iterator calls (abstract search with SearchOK) + differential correspondence + reference iteration over extracted Sem", design="7/C08"),
    "C09": dict(
        text="Machine-checked (Coq, closed): the separately written CaptureMatches::next is the same function as Matches::next, so captures_iter yields exactly what find_iter yields (C09_next_agree, C09_iters_agree); get(0) is the find span (C09_get0). is_match/find/captures are one search call in the model. Tie + property evaluated on the real crate: all seven entry points, every boundary offset, limits -,0..5.",
        note="Trusted as for C08. For RegexImpl::Wrap the three regex-automata entry points (is_match, search, captures) are one function in the model (oracle assumption, exercised on every run).",
        technique="Coq equality proof of the two iterator models + differential correspondence", design="7/C09"),
    "C10": dict(
        text="Machine-checked (Coq, closed) over any SearchOK search: the iterator's complete match sequence exists; split yields exactly the pieces between consecutive matches for every prefix of next() calls (C10_split_pieces), one more piece than matches (C10_count), interleaving rebuilds the text (C10_rebuild), no slice can panic (C10_split_safe), and splitn k is nothing for 0 and otherwise the first k-1 pieces plus the untouched remainder, again for every prefix of calls (C10_splitn).",
        note=API_NOTE, technique="Coq induction over the match sequence / iterator calls + differential correspondence", design="7/C10"),
    "C11": dict(
        text="Machine-checked (Coq, closed) over any SearchOK search: try_replacen equals the documented splice of the complete match sequence (Borrowed iff no match; first n matches replaced, all if n = 0; every other byte unchanged; an Err item met is returned as Err) (C11_replacen), the captures_iter path and the find_iter path compute the same function (C11_paths_agree), and no slice can panic (C11_no_panic). Tie: replacers {template with/without $, NoExpand, constant closure, identity closure} x limits 0..3 x backtrack limits.",
        note=API_NOTE, technique="Coq induction over the replace loop + differential correspondence", design="7/C11"),
})

CLAIMED.update({
    "C12": dict(
        text="Machine-checked (Coq, closed): for EVERY valid UTF-8 string s and every captures, expanding Expander::escape(s) yields s, for the default ($) and the Python (\\) expander (C12_escape_roundtrip_*); escape borrows iff nothing needed escaping (C12_escape_borrow); Expander::check accepts a template only if every reference step names an existing group (C12_check_sound). The clause 'expansion follows the documented $-syntax' is decided by correspondence: the hand-written Expand model (a port of Expander::exec, parse_id, parse_decimal) must agree with the real expander through all four writer entry points, Captures::expand and check on every template up to a fixed length over the property's alphabet plus '-' and 'n', for capture sets with named, numbered and unmatched groups.",
        note="Trusted: Coq kernel, extraction, harness. is_alphanumeric is modelled on the harness alphabet. No separate theorem states the documented tokenisation (the model itself is the formal reading of the documentation and is tied to the code by the exhaustive short-template comparison).",
        technique="Coq induction over the character list of the escaped string + exhaustive differential correspondence on short templates", design="7/C12"),
})

CLAIMED.update({
    "C16": dict(
        text="Machine-checked (Coq, closed): captures_len is 1 + the number of capturing groups on both the delegated and the VM path (C16_len), the analysis numbers groups in pre-order (C16_group_range), Captures::get returns None beyond len and len of the truncated save vector is the group count (C16_get_oob, C16_len_truncated). The accessor consistency (iter = get(i), name(n) = get(index), get(0) is Some, capture_names at the parser's indices) is evaluated on the real crate for every generated pattern/text/offset and tied to the API model.",
        note="Trusted: Coq kernel, extraction, harness. Group NAMES come from the real parser (the parser is not modelled yet), so the name->index part is validated, not proved. For the delegated path the group count of regex-automata equals the model's count by the oracle assumption (checked on every run).",
        technique="Coq lemmas on the analysis functions + differential correspondence of all accessors", design="7/C16"),
})

CLAIMED.update({
    "C13": dict(
        text="Machine-checked (Coq, closed): for EVERY sub-expression e (all constructs, any nesting), on any valid UTF-8 text shorter than 2^64 bytes, every result of the reference semantics from a state on character boundaries is again on boundaries (offset and all capture slots), lies n characters further with min_size(e) <= n, and n = min_size(e) whenever e is judged constant-size (C13_sizes_sound: the analysis facts are sound, counting characters not bytes, saturating arithmetic included); GoBack(n) steps back exactly n characters and fails, never reads before the text start, iff fewer than n precede (C13_goback_chars); equal character counts from one offset give one offset (C13_exact). Ties: T2 (the model analysis equals the REAL per-node facts read through the hook, and the compiler's LookBehindNotConst decisions equal the model's), and the real facts are compared with the actual match lengths of every sub-expression enumerated with the extracted reference semantics.",
        note="Proved at the level of the reference semantics Sem and of the GoBack instruction; that the compiled look-behind (GoBack; body; Restore) equals Sem's 'body matches the text ending here' is part of the compiler-correctness induction (not yet proved) and is covered by the reference differential on look-behind patterns over multi-byte texts. The look-behind gate (compile error iff some alternative is not constant-size) is tied by T2, not proved. Hypotheses: literal nodes are one character, class nodes have size 1 (parser invariant; the trees come from the real parser).",
        technique="Coq structural induction over Expr (nested lists, repeats by fuel/count induction) against the list-monad reference semantics + structural (T2) tie through the analysis hook + enumeration of match lengths with extracted Sem", design="7/C13"),
    "C03": dict(
        text="Machine-checked (Coq, closed): inserting (?=) before or after any sub-expression, at any depth and any number of sites (relation inj, including insertion between the elements of a concatenation), preserves group numbering and the denotation of the reference semantics for every fuel, group offset and state, hence the search result and every capture group (C03_inject_sem, C03_inject_search); an expression the analysis judges easy never reaches to_str's panic arm (C03_to_str_total). Since P and inject(P) are compiled with different VM/automata splits but have the same reference meaning, any disagreement between them on the real crate is a violation: the check compares captures_from_pos of P and inject(P) at every offset for every single injection site of generated and hand-picked base trees plus random multi-site injections, and ties the set of delegated blocks (T2).",
        note="The VM half (every split the compiler chooses is sound w.r.t. Sem: arrows A and B of DESIGN.md) is NOT proved yet; it is covered by the P-vs-inject(P) differential, the T2/T3 ties and C01/C02's reference differential. Known finding F1 (nullable unbounded repeats handed to regex-automata). inj excludes wrapping the Alt body of a look-behind (such a pattern no longer compiles) and requires an injection into a look-behind body to keep its constant-size flag (it always does for parser-produced trees: (?=) has size 0).",
        technique="Coq induction over a custom nested induction principle for the injection relation + metamorphic differential on the real crate", design="7/C03"),
    "C05": dict(
        text="PARTIAL. Machine-checked (Coq, closed): at the level of the reference semantics every offset and capture slot of every result of every expression stays on a character boundary within the text (C05_reference_offsets_valid); over any SearchOK search the iterators yield only valid, ordered spans and split / try_replacen never take an out-of-order, out-of-range or off-boundary slice (C05_iter_spans_valid, C05_split_no_panic, C05_replace_no_panic); the branch stack is bounded (C07_stack_bound); for compiled programs whose Delegate instructions hand over deterministic capture-free blocks (patterns with no conditional under an atomic cut: the scope of the C01 end-to-end theorem) the VM never reaches one of its panic sites, whatever the stack bound, backtrack limit and budget, and every capture slot it reports is unset or a character boundary inside the text (C05_vm_never_panics, C05_vm_offsets_valid); and for EVERY compiled program, whatever blocks it delegates, of a pattern without a conditional under an atomic cut, the same two facts hold (C05_vm_never_panics_any_program, C05_vm_offsets_valid_any_program: the stage-2 compiler-correctness theorem against the atomized tree, in which the Delegate instruction on any easy block - alternation, repetition, capture groups - is shown to do what the reference semantics' first result does, by parametricity of the semantics in the capture vector). NOT proved: patterns with a conditional under a cut (F-condleak), and SearchOK's 'start at or after the search offset' — validated by running every public entry point of the real crate under catch_unwind on the unrestricted grammar over texts mixing 1-4 byte characters, with the model VM (all panic sites explicit outcomes) tied exactly (result and statistics).",
        note="Known finding F-keepout-lb (\\K inside a look-behind moves the start before the search start: overlapping matches, split/replace panic) is reported as KNOWN-FINDING. Trusted: Coq kernel, extraction, harness with catch_unwind.",
        technique="Coq invariant over the reference semantics + API-layer safety over SearchOK + differential correspondence under catch_unwind", design="7/C05"),
})

PARSER_NOTE = "The parser model (coq/Model/Parse.v, a line-by-line port of parse.rs with explicit Panic/Fuel outcomes) is tied to the real parser by T1 on every run: tree, backrefs, named groups, error kind AND position must agree on the generated stream."
CLAIMED.update({
    "C04": dict(
        text="PARTIAL. The regex crate is a dependency and is not modelled. Machine-checked (Coq, closed): fancy-regex's API layer implements the documented iteration / split / replacement behaviour over any SearchOK search (C04_iter_spec, C04_split_spec, C04_replace_spec = the C08/C10/C11 theorems). The agreement with the regex crate itself is decided differentially: every public search API of fancy_regex::Regex against regex::Regex on generated common-syntax patterns (classes, anchors, word boundaries, groups, named groups, flags, greedy/lazy quantifiers), splitn limits 0..3, replacen limits 0..3 x six replacers.",
        note="Known finding F1: a word boundary forces the VM to interpret a nullable unbounded repeat whose empty-iteration rule differs from the regex crate's. Not provable here: that regex-syntax gives to_str(parse p) the meaning of p.",
        technique="Coq API-layer theorems + differential testing against the regex crate (the comparison target cannot be modelled)", design="7/C04"),
    "C06": dict(
        text="PARTIAL. Machine-checked (Coq, closed): every size the analysis computes is at most usize::MAX whatever numerals the pattern contains, i.e. the saturating arithmetic cannot overflow (C06_sizes_bounded); to_str never reaches its panic arm on expressions the analysis judges easy (C06_to_str_total); the parser model runs on fuel linear in the pattern length (C06_fuel_is_linear). " + PARSER_NOTE + " The property is evaluated on the real Regex::new under catch_unwind with overflow checks ON and a 3 GB address-space limit over a malformed-pattern stream (all 1- and 2-sequences of ~95 syntax fragments incl. huge numbers and multi-byte characters, random longer ones, mutations of valid patterns): no panic/crash, error positions within the pattern.",
        note="NOT proved: that no panic arm of the parser is reachable and that the linear fuel suffices for every string (validated by T1: the model reports Panic/Fuel as outcomes and must agree with the real parser), time/memory proportionality, native stack depth, regex-automata's own limits (runtime behaviour).",
        technique="Coq lemmas on the analysis arithmetic and printer + differential correspondence of a parser model + fault-injection-style stream under resource limits", design="7/C06"),
    "C14": dict(
        text="REFUTED on the unchanged tree for the builder options other than backtrack_limit (three known findings, reported as KNOWN-FINDING with witnesses: F-builder-casei, F-builder-casei-inner, F-builder-limits); any other disagreement is a VIOLATION. Machine-checked (Coq, closed): the backtrack limit acts uniformly on every program (C14_limit_is_uniform = C07) and on the parser model the inline flag (?i) reaches exactly its documented scope (C14_casei_spelling_on_model, by computation). The property is evaluated on the real crate: RegexBuilder::case_insensitive(true) on P against the pattern (?i)P on mixed-case patterns x texts over {a,A,b,B}, and the delegate size limits (alone and combined) on big/small plain/fancy patterns.",
        note="The builder options are not inputs of the hand-written model because the code does not use them on the VM path; the findings are keyed by class (VM-compiled pattern / inner (?-i:) in a delegated pattern / size limits on VM delegates).",
        technique="Coq theorems on the limit and the parser model + metamorphic differential on the real crate with known-finding classes", design="7/C14, 8"),
    "C17": dict(
        text="PARTIAL. Machine-checked (Coq, closed): escape borrows iff no special byte (C17_escape_borrow); removing one backslash before each quoted byte of push_quoted(s) gives back s, for every byte string (C17_quoted_shape); is_special — regenerated from the source on every run — covers every byte the fancy parser dispatches on (C17_specials_cover_parser, by computation). " + PARSER_NOTE + " Evaluated on the real crate: for all strings up to length 2 over the meta-characters plus letters, digits, whitespace, 2-4 byte characters and regex-syntax's extra meta characters (and random longer ones): escape output and borrow flag equal the model's, parse(escape(s)) is the chain of one-character literals of s, Regex::new(escape(s)).find(t) equals str::find, and escape(s) embedded in plain and fancy hosts compiles.",
        note="NOT proved: parse(escape(s)) = literals(s) as a theorem over the parser model (established by T1 + enumeration); that regex-syntax accepts the quoting (dependency).",
        technique="Coq induction on the quoted string + finite computation over the regenerated special-character table + exhaustive short-string enumeration", design="7/C17"),
    "C18": dict(
        text="PARTIAL. Machine-checked (Coq, closed): in the API model a search is a function of (regex, text, offset, flags, limits) that returns the regex unchanged (C18_pure), so in any history of calls on one regex, from any number of clients in any interleaving, call k returns what that call returns alone (C18_history_free). The translator scans the non-test, non-hook source for interior mutability (none allowed). Runtime part (data races, deadlock, regex-automata's cache pool) cannot be exhibited by a Gallina model: 2..16 threads on one shared Regex and on clones, each result compared with the single-threaded answer before and after.",
        note="Partial by nature: thread interleavings and the dependency's Pool are covered only by the concurrent runs.",
        technique="Coq purity / history-freedom of the API model + source scan + concurrent differential runs", design="7/C18"),
    "C19": dict(
        text="PARTIAL. Machine-checked on the parser model (Coq, closed): the escape table (\\h \\H \\e \\A \\z, hex and unicode forms, control escapes) parses to the trees of its expansions (C19_escape_table, by computation over the whole finite table), every two-digit \\xHH equals \\x{HH} (C19_hex_forms, all 256), possessive quantifiers equal atomic groups for the whole quantifier family on a fixed atom (C19_possessive_is_atomic), and a (?#...) comment body of ANY length is skipped (C19_comment_skipped, by induction). " + PARSER_NOTE + " The unbounded families are evaluated on the real crate: random trees printed in the base spelling and in each applicable respelling (free-spacing with whitespace and # comments at token boundaries incl. before quantifiers and inside braces, (?#) comments, named / Python-named / relative backrefs, scoped vs inline flags, escape forms, possessive vs atomic): same tree through the real parser and identical search results.",
        note="NOT proved: parse(print_k e) = e for the unbounded respelling families (printer round-trips over the parser model).",
        technique="Coq computation over finite spelling families + induction for comment skipping + parser-model correspondence + metamorphic differential", design="7/C19"),
})


E2E_SCOPE = "Scope of the end-to-end theorem (stage 1 of the compiler-correctness proof): compiled programs in which every Delegate instruction hands over a DETERMINISTIC capture-free block - a concatenation of character classes, case-insensitive literals, any-char, assertions and literals (the class next to a hard construct, the class inside a look-around, the \\Z helper); in hard context the compiler lowers everything else to VM instructions, and runs of plain literals become one Lit. Programs that delegate a block containing alternation, repetition or capture groups are outside the theorem and patterns in which no conditional sits inside the body of an atomic group, of a look-around or in the condition position of another conditional (the statement is false there: known finding F-condleak; conditionals everywhere else - in loops, groups, alternations, branches of other conditionals - are covered, by an auxiliary-stack relation that tolerates the entry the lowering leaks on the false path); look-behinds over alternations of different lengths are covered (compiled as an alternation / sequence of look-behinds, which is also how the reference semantics reads them). That half of 'regardless of which sub-expressions are handed to the automata engine' is decided by the differential tiers (reference differential of the real crate against the extracted reference semantics, T2 program listing, T3 exact run statistics), not by a theorem."
CLAIMED.update({
    "C01": dict(
        text="PARTIAL (see scope). Machine-checked (Coq, Qed, closed under the global context), for EVERY pattern in scope, every valid UTF-8 text < 2^64 bytes, every boundary start offset, every stack bound, backtrack limit and step budget: the model of vm::run (copy-on-write state of vm.rs, bounded stack, limit) executed on the model of compile.rs's output for (?s:.)*?(RE) reports Match only with exactly the capture vector (hence span) of the reference search - the first result, in priority order, of the list-monad reference semantics - reports NoMatch only if the reference has no result, never reaches a panic site, and otherwise returns StackOverflow / BacktrackLimitExceeded (C01_vm_follows_reference). It is assembled from: compiler correctness for every construct by structural induction (seg_all: the code of ANY sub-expression arrives at its exit exactly as often, in the same order, with the same offsets and capture slots as the reference semantics lists results, keeps the auxiliary stack and foreign slots, then fails back; loops by induction on fuel/count using the C13 size soundness for progress), the bounded interpreter following the unbounded small-step machine (RunCorrect), the C20 state refinement lifted to whole runs (run_sim), and - for Delegate instructions - the theorem that the continuation-passing semantics the Delegate oracle and the checks evaluate is the list semantics read by 'first accepted result' for every construct (semk_sem, C01_reference_forms_agree). The hypotheses have an executable form (in_scope, shown sound: C01_in_scope) that every run evaluates on every generated pattern; the evidence reports the share of VM-compiled patterns inside the theorem (about 70% of the quick tier's). For EVERY compiled program (any Delegate instruction) the VM is proved equal to the reference search over the ATOMIZED tree - each delegated block made atomic - (C01_vm_implements_atomized: seg_allD, step_delegate, param, visit_okdeleg2), which leaves a purely semantic gap (making those blocks atomic does not change the first result: arrow A). Ties: T2 (model compiler output = real compiler output incl. delegate pattern strings, analysis facts through the hook), T3 (model VM = real vm::run result and exact statistics), and the real search API against the extracted reference semantics on the generated pattern x text x offset space. " + E2E_SCOPE,
        note="Trusted: Coq kernel; extraction (ExtrOcamlBasic) + ocaml/driver.ml; Rust harness and hooks; oracle data for character classes on the harness alphabet; regex-automata as the oracle inside Delegate (leftmost-first on delegated blocks). Known finding F1 (nullable unbounded repeat inside a delegated block) is reported as KNOWN-FINDING.",
        technique="Coq structural induction over Expr with a generator judgement over a small-step machine (compiler correctness), fuel/count induction for the five repeat lowerings, lock-step lemmas bounded/unbounded and L0/L1, + differential correspondence (T2/T3) and reference differential of the real crate",
        design="7/C01, 6"),
    "C02": dict(
        text="PARTIAL (same scope as C01). Machine-checked (Coq, closed): whenever the model VM reports a match for a compiled pattern in scope, every capture slot it reports - every group, start and end - equals the slot of the reference semantics' first result: last iteration that entered the group, unset for groups that never participated, spans set inside look-arounds retained, nothing left from abandoned alternatives, restored exactly on backtracking (C02_groups_follow_reference, a corollary of the C01 chain whose induction carries the whole capture vector and a frame condition on all other slots). Group numbering in pre-order is C16_group_range. Ties as for C01; the check compares ALL groups of every match of the real crate with the extracted reference semantics. " + E2E_SCOPE,
        note="Trusted as for C01. Delegated blocks copy inner slots into outer group slots (vm.rs Delegate): covered by T3 + reference differential, not by the stage-1 theorem.",
        technique="Coq compiler-correctness induction carrying the capture vector and slot frames + differential correspondence + reference differential on all groups",
        design="7/C02, 6"),
})

CLAIMED.update({
    "C15": dict(
        text="PARTIAL, and REFUTED at full strength on the unchanged tree (known finding F-condleak, reported as KNOWN-FINDING; any disagreement outside its class is a VIOLATION). Machine-checked (Coq, closed): the reference semantics of (?(cond)yes|no) and (?(N)) is the documented behaviour - condition tried once, yes continues from its first result without ever falling back to no, otherwise no from the original state (C15_reference_conditional, C15_reference_group_exists); BOTH forms are inside the end-to-end theorem wherever the conditional is not under an atomic cut (not inside an atomic-group body, a look-around body or the condition position of another conditional): in loops, groups, alternations, concatenations and the branches of other conditionals the model VM - every stack bound, backtrack limit and budget - reports exactly the reference result with all captures, and (?(N)) alone is covered everywhere (C15_conditional_follows_reference, with non-vacuity examples: a two-branch conditional inside a loop, a group condition inside an atomic group); under a cut the statement is refuted on the faithful model by computation: the lowering leaves BeginAtomic's count on the auxiliary stack on the false path (C15_nested_conditional_refuted; the same witness is replayed on the real crate). The property is evaluated on the real crate: the C01 grammar extended with both conditional forms at every nesting position against the extracted reference semantics, ties T2/T3 on the same patterns. " + E2E_SCOPE,
        note="The proof carries an auxiliary-stack relation auxrel lk: exact (lk = false) for everything under a cut, 'as before plus leaked entries' (lk = true) elsewhere; seg_cond proves the lowering BeginAtomic; Split; cond; EndAtomic; yes; Jmp; no against the reference under lk = true. Parsing of the conditional forms is tied by T1.",
        technique="Coq compiler-correctness induction with a leak-tolerant auxiliary-stack relation + refutation witness by vm_compute + reference differential on the real crate with a known-finding class",
        design="7/C15, 6.5, 8"),
})

PENDING_REASON = "check not built yet in this revision (see DESIGN.md section 12 build order); not claimed until its theorem and correspondence check exist"


def build():
    props = [json.loads(l) for l in open(os.path.join(ROOT, "properties.jsonl"))]
    checks, na = [], []
    for p in props:
        pid = p["id"]
        if pid in CLAIMED:
            c = CLAIMED[pid]
            checks.append({
                "property_id": pid,
                "quick_cmd": "./check %s --quick" % pid,
                "thorough_cmd": "./check %s --thorough" % pid,
                "evidence_file": "evidence/%s.json" % pid,
                "replay_cmd_template": "./check %s --replay {path}" % pid,
                "engine": "coq+correspondence",
                "level_claimed": {"category": "proof", "text": c["text"], "design_ref": "DESIGN.md " + c["design"]},
                "level_note": c["note"],
                "technique": c["technique"],
            })
        else:
            na.append({"property_id": pid, "reason": PENDING_REASON})
    man = {
        "version": 1,
        "setup_cmd": "./check --setup",
        "hooks": {
            "guard": "fancy_regex_verif",
            "enable": "harness/.cargo/config.toml passes --cfg fancy_regex_verif to rustc (RUSTFLAGS) when building /repo as a path dependency",
            "baseline_off_cmd": "cd /repo && cargo test --workspace --no-fail-fast --offline",
            "source_commits": ["a4e46b9"],
            "add_only": True,
        },
        "engines": [{
            "name": "coq+correspondence", "path": "check",
            "serves_properties": sorted(CLAIMED),
            "kind_free_text": "Coq 8.16.1 development under coq/ (model, proofs, pinned property theorems), extracted to OCaml (ocaml/), compared with the real crate through the Rust harness (harness/) by the Python orchestrator (vp/)",
        }],
        "checks": checks,
        "notes": "See DESIGN.md. Known findings: known_findings.json.",
        "not_applicable": na,
    }
    json.dump(man, open(os.path.join(ROOT, "MANIFEST.json"), "w"), indent=1)


if __name__ == "__main__":
    build()
