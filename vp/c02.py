"""C02 — capture groups vs the reference winning path (all groups of every match)."""
from . import engprop, gen

F = [gen.Feats(refs_closed=True), gen.Feats(refs_closed=True, named=True), gen.Feats(refs_closed=True, look=True, atomic=True), gen.Feats(refs_closed=True, cond=True)]
CFG = {
    "prop": "C02", "theorems": ["C02_groups_follow_reference", "C02_groups_follow_reference_all"], "feats": F, "n_quick": 500, "n_thorough": 12000,
    "tiers": ("t2", "run", "sem"), "k_base_quick": 14, "k_extra_quick": 8, "k_base_thorough": 80, "k_extra_thorough": 40,
    "corpus": ["(?:(?:(a)|b)(?=))*", "(?:(?>(a)|b)){2}", "(?:(?:(a)|b)(?!x))+", "(?:(?=(a)|b).)+", "(?:(?:(a)|(b))(?!x))+",
               "(?:(?>(?:(a)(?=.))*)c|a*d)", "(?>(?:(a)(?=.))*)b", "(?<=(a)|(c?a))\\2b", "(?<=(a)|(ca))(?:\\2)?b", "(a)|(b)", "((a)|b)*",
               "(x)?(?(1)(a)|(b))", "(x)?(?(1)(a)|(b))\\2", "(?<x>x)?(?(<x>)(?<t>a)|(?<f>b))", "(?(a)(a)|(b))(?(2)x|y)",
               "(?:(?<=(a)|(\\w))(?(1)x|y)|y)", "(?<=(a)|(\\w))(?(1)x|y)", "(?<=(a)|(.))\\2", "(?<=(a)|(b))c\\1?",
               "(?=(?:(a)|a)(?=b))a(?(1)x|b)", "(?<=(?:(a)|.)(?!x))c(?(1)z|y)", "(?=(?:(a)|(.))(?=))\\2",
               "(?>(a)?b)+", "(?:(?=(?:(a)|.)).)+", "(?:(?:(a)|(b))(?!x))+",
               # a slot written several times inside a VM-compiled atomic body that is then abandoned as a whole
               "(?>(?:(a)|b(?!x))+)c|\\w+", "(?>(?:(a)(?!x)|b)+)c|\\w+", "(?>(?:(a)(?=.)|(b)(?=.))+)c|.+", "(?:(?>(?:(a)|b(?!x))+)c|\\w)+", "(?>(?:(a)\\b?|b(?!x)){2,3})c|\\w+",
               "(?=(?:(a)|b(?!x))+c)|\\w+", "(?>(?:(a)|(b)(?!x))+)\\2c|\\w+", "(?>(a)b|a(b))\\2|abb", "(?>(a)(?=b)|a(b))\\2|abb", "(?>(?:(a)b|a(b)))(?(2)b|c)|abc", "(?=(a))\\1", "(?!(a))b", "((a)*?)b"],
    "extra_texts": ["cacab", "acab", "caab", "abab-", "abab", "ababc", "abb", "abbb", "baba-", "xa", "xaa", "ay", "ayax", "acy", "ab", "abb"],
    "assumptions": ["patterns refer only to groups closed earlier (the property's quantifier)"],
}


def run(tier, seed, replay=None):
    return engprop.run(CFG, tier, seed, replay)
