from . import miscprops


def run(tier, seed, replay=None):
    return miscprops.run_c19(tier, seed, replay)
