from . import miscprops


def run(tier, seed, replay=None):
    return miscprops.run_c18(tier, seed, replay)
