from . import miscprops


def run(tier, seed, replay=None):
    return miscprops.run_c14(tier, seed, replay)
