"""Shared ties between the real crate and the model for the engine properties
(C01,C02,C03,C05,C07,C13,C15,...): T2 structure (analysis facts + program listing),
T3 behaviour (vm::run result + statistics, public API) and the reference differential
(real API vs extracted Sem)."""
from . import core
from .core import hexs


def fields(line):
    d = {}
    for f in line.split("\t"):
        if "=" in f:
            k, v = f.split("=", 1)
            d[k] = v
    return d


def prog_info(patterns):
    """per pattern: what the real parser/analysis/compiler produce and what the model produces
    from the same parse tree; returns list of dicts with keys impl, model, t2_ok"""
    impl = core.run_impl("prog", [hexs(p) for p in patterns])
    infos = []
    mlines, midx = [], []
    for i, (p, l) in enumerate(zip(patterns, impl)):
        d = fields(l)
        info = {"pattern": p, "impl": d, "raw": l, "model": None, "t2_ok": None}
        if "tree" in d:
            midx.append(i)
            mlines.append("%s\t%s" % (d["tree"], d["bs"]))
        infos.append(info)
    mout = core.run_model("prog", mlines)
    for i, l in zip(midx, mout):
        info = infos[i]
        m = fields(l)
        info["model"] = m
        info["model_raw"] = l
        d = info["impl"]
        if d.get("new", "").startswith("err:Compile:InnerError"):
            info["t2_ok"] = None          # regex-automata refused a delegate: oracle, not modelled
            continue
        ok = d.get("new") == m.get("new")
        if "facts" in d or "facts" in m:
            ok &= d.get("facts") == m.get("facts")
        if "prog" in d or "prog" in m:
            ok &= d.get("prog") == m.get("prog") and d.get("nsaves") == m.get("nsaves")
        info["t2_ok"] = ok
    return infos


def caps_of_sem(s, ngroups):
    """'M:1,3,M,M' -> '1-3,-'"""
    if s == "N":
        return "none"
    v = s[2:].split(",")
    out = []
    for g in range(ngroups):
        a, b = v[2 * g], v[2 * g + 1]
        out.append("-" if a == "M" else "%s-%s" % (a, b))
    return ",".join(out)


def ngroups_of(info):
    new = info["impl"].get("new", "")
    if new.startswith("wrap:") or new.startswith("fancy:"):
        return int(new.split(":")[1])
    return None


def sem_differential(infos, texts_for, flags="0"):
    """real captures_from_pos at every boundary offset vs the reference semantics.
    texts_for(info) -> list of texts.  Returns (n_evals, mismatches, n_match, skipped_f1)"""
    from .gen import boundaries
    ilines, mlines, meta = [], [], []
    skipped = 0
    for info in infos:
        ng = ngroups_of(info)
        if ng is None or info["model"] is None:
            continue
        if info["model"].get("f1") == "1":
            skipped += 1
            continue
        for t in texts_for(info):
            bs = boundaries(t)
            probes = " ".join("caps:%d" % b for b in bs)
            ilines.append("%s\t%s\t-\t0\t%s" % (hexs(info["pattern"]), hexs(t), probes))
            mlines.append("%s\t%s\t%s\t%s\t%s" % (info["impl"]["tree"], info["impl"]["bs"], hexs(t),
                                                   ",".join(map(str, bs)), flags))
            meta.append((info, t, bs, ng))
    iout = core.run_impl("api", ilines)
    mout = core.run_model("sem", mlines)
    mism, n, nmatch = [], 0, 0
    for (info, t, bs, ng), a, b in zip(meta, iout, mout):
        av = a.split("\t")[1:]
        bv = b.split(";")
        if len(av) != len(bs) or len(bv) != len(bs):
            mism.append({"pattern": info["pattern"], "text": t, "pos": None, "impl": a, "reference": b})
            continue
        for p, x, y in zip(bs, av, bv):
            n += 1
            ys = caps_of_sem(y, ng) if not y.startswith("DRIVER") else y
            if x != "none":
                nmatch += 1
            if x != ys:
                mism.append({"pattern": info["pattern"], "text": t, "pos": p, "impl": x, "reference": ys})
    return n, mism, nmatch, skipped


def run_tie(infos, texts_for, limits=("-",), flags=("0",)):
    """vm::run (through the hook) vs the model VM: result and exact statistics"""
    from .gen import boundaries
    ilines, mlines, meta = [], [], []
    for info in infos:
        if not info["impl"].get("new", "").startswith("fancy:") or info["model"] is None:
            continue
        for t in texts_for(info):
            for p in boundaries(t):
                for lim in limits:
                    for fl in flags:
                        ilines.append("%s\t%s\t%d\t%s\t%s" % (hexs(info["pattern"]), hexs(t), p, fl, lim))
                        mlines.append("%s\t%s\t%s\t%d\t%s\t%s" % (info["impl"]["tree"], info["impl"]["bs"], hexs(t), p, fl, lim))
                        meta.append((info, t, p, lim, fl))
    iout = core.run_impl("run", ilines)
    mout = core.run_model("run", mlines)
    mism, fuel = [], 0
    kinds = {}
    for (info, t, p, lim, fl), a, b in zip(meta, iout, mout):
        k = fields(a).get("res", a).split(":")[0]
        kinds[k] = kinds.get(k, 0) + 1
        if "res=FUEL" in b:
            fuel += 1
            continue
        if info["model"].get("f1") == "1" and a != b:
            kinds["f1_skipped"] = kinds.get("f1_skipped", 0) + 1
            continue
        if a != b:
            mism.append({"pattern": info["pattern"], "text": t, "pos": p, "limit": lim, "flags": fl, "impl": a, "model": b})
    return len(meta), mism, kinds, fuel


def api_tie(infos, texts_for, probes_for, limit="-"):
    """public API on the real crate vs the API model over the model regex"""
    ilines, mlines, meta = [], [], []
    for info in infos:
        if ngroups_of(info) is None or info["model"] is None:
            continue
        for t in texts_for(info):
            pr = probes_for(info, t)
            ilines.append("%s\t%s\t%s\t0\t%s" % (hexs(info["pattern"]), hexs(t), limit, pr))
            mlines.append("%s\t%s\t%s\t%s\t%s\t%s" % (info["impl"]["tree"], info["impl"]["bs"], info["impl"]["names"], hexs(t), limit, pr))
            meta.append((info, t, pr))
    iout = core.run_impl("api", ilines)
    mout = core.run_model("api", mlines)
    mism = []
    n = 0
    for (info, t, pr), a, b in zip(meta, iout, mout):
        av, bv = a.split("\t"), b.split("\t")
        names = pr.split(" ")
        for k, (x, y) in enumerate(zip(av[1:], bv[1:])):
            n += 1
            if x != y and x.endswith("RUNAWAY"):
                # a runaway iterator (e.g. \K inside a look-behind yields the same match for ever):
                # the harness cuts the real sequence after |text|+5 items, the model prints a fixed
                # number of items; they agree if the model's sequence starts with the real items
                xi = x.split(";")[:-1]
                if y.split(";")[:len(xi)] == xi and len(y.split(";")) >= len(xi):
                    continue
            if x != y and "FUEL" not in y:
                if info["model"].get("f1") == "1":
                    continue
                mism.append({"pattern": info["pattern"], "text": t, "probe": names[k] if k < len(names) else "?", "impl": x, "model": y})
        if len(av) != len(bv):
            mism.append({"pattern": info["pattern"], "text": t, "probe": "*", "impl": a, "model": b})
    return n, mism, list(zip(meta, iout))


# ---------------------------------------------------------------- tree tokens and classes

def parse_tokens(s):
    toks = s.split(" ")
    pos = [0]

    def go():
        tk = toks[pos[0]]
        pos[0] += 1
        c = tk[0]
        if c in "CO" and tk not in ("CG",):
            n = int(tk[1:])
            return (c, [go() for _ in range(n)])
        if tk == "G" or tk == "T":
            return (tk, [go()])
        if c == "K" and tk != "KO":
            return (tk, [go()])
        if c == "R":
            return (tk, [go()])
        if tk == "Q":
            return ("Q", [go(), go(), go()])
        return (tk, [])
    return go()


def walk(t, anc=()):
    yield t, anc
    for ch in t[1]:
        yield from walk(ch, anc + (t[0],))


def cls_condleak(info):
    """a general or backref conditional that sits under an atomic cut (atomic group, look-around,
    or another conditional)"""
    tr = info["impl"].get("tree")
    if not tr:
        return False
    for node, anc in walk(parse_tokens(tr)):
        if node[0] == "Q" and any(a == "T" or a == "Q" or (a[0] == "K" and a != "KO") for a in anc):
            return True
    return False


def cls_keepout_lb(info):
    tr = info["impl"].get("tree")
    if not tr:
        return False
    for node, anc in walk(parse_tokens(tr)):
        if node[0] == "KO" and any(a in ("K2", "K3") for a in anc):
            return True
    return False


def has_token(info, pred):
    tr = info["impl"].get("tree")
    return bool(tr) and any(pred(tk) for tk in tr.split(" "))
