"""Translator: reads /repo/src/*.rs and regenerates coq/Generated/Consts.v (constants, tables and
variant lists the Coq model and its theorems depend on).  If an expected source pattern is not
found the translator raises: that is a broken tie, never papered over."""
import os, re


class TieError(Exception):
    pass


def _need(m, what):
    if not m:
        raise TieError("translator: cannot find %s in the source" % what)
    return m


def _num(s):
    s = s.replace("_", "")
    return int(s, 16) if s.startswith("0x") else int(s)


def _strip_tests(src):
    i = src.find("#[cfg(test)]\nmod tests")
    return src if i < 0 else src[:i]


def _enum_variants(src, name):
    m = _need(re.search(r"pub enum %s \{(.*?)\n\}" % name, src, re.S), "enum " + name)
    body = re.sub(r"//.*", "", m.group(1))
    body = re.sub(r"#\[.*?\]", "", body)
    # remove nested braces/parens content
    depth, out = 0, []
    for ch in body:
        if ch in "{(":
            depth += 1
        elif ch in "})":
            depth -= 1
        elif depth == 0:
            out.append(ch)
    return [v.strip() for v in "".join(out).split(",") if v.strip()]


def _coq_str_list(l):
    return "[" + "; ".join('"%s"' % x for x in l) + "]"


def _coq_nat_list(l):
    return "[" + "; ".join(str(x) for x in l) + "]"


def extract(repo):
    rd = lambda f: _strip_tests(open(os.path.join(repo, "src", f)).read())
    vm, lib, parse, analyze, compile_ = rd("vm.rs"), rd("lib.rs"), rd("parse.rs"), rd("analyze.rs"), rd("compile.rs")
    c = {}
    c["MAX_STACK"] = _num(_need(re.search(r"const MAX_STACK: usize = ([0-9_x]+);", vm), "MAX_STACK").group(1))
    c["OPTION_SKIPPED_EMPTY_MATCH_BIT"] = _num(_need(re.search(r"const OPTION_SKIPPED_EMPTY_MATCH: u32 = 1 << (\d+);", vm), "OPTION_SKIPPED_EMPTY_MATCH").group(1))
    c["MAX_RECURSION"] = _num(_need(re.search(r"const MAX_RECURSION: usize = ([0-9_x]+);", lib), "MAX_RECURSION").group(1))
    c["DEFAULT_BACKTRACK_LIMIT"] = _num(_need(re.search(r"backtrack_limit: ([0-9_]+),", lib), "default backtrack_limit").group(1))
    # the body of is_special, whichever way the set is spelled (match arms, matches!(..), a slice): every
    # character literal in it up to the function's closing brace, minus those of an explicit `=> false` arm
    m = _need(re.search(r"fn is_special\(c: char\) -> bool \{(.*?)\n\}", lib, re.S), "is_special")
    body = re.sub(r"[^\n]*=>\s*false[^\n]*", "", m.group(1))
    specials = re.findall(r"'(\\\\|\\'|[^'])'", body)
    if not specials:
        raise TieError("translator: no character literal in is_special")
    c["SPECIAL_CHARS"] = [ord(x[-1]) for x in specials]
    m = _need(re.search(r"fn codepoint_len\(b: u8\) -> usize \{\s*match b \{\s*b if b < (0x[0-9a-f]+) => 1,\s*b if b < (0x[0-9a-f]+) => 2,\s*b if b < (0x[0-9a-f]+) => 3,\s*_ => 4,", lib), "codepoint_len")
    c["CP_LEN_THRESHOLDS"] = [_num(m.group(i)) for i in (1, 2, 3)]
    _need(re.search(r"if \(bytes\[ix\] as i8\) >= -0x40", lib), "prev_codepoint_ix continuation-byte test")
    flags = {}
    for name in ("CASEI", "MULTI", "DOTNL", "SWAP_GREED", "IGNORE_SPACE", "UNICODE"):
        m = _need(re.search(r"const FLAG_%s: u32 = 1(?: << (\d+))?;" % name, parse), "FLAG_" + name)
        flags[name] = int(m.group(1) or 0)
    c["FLAGS"] = flags
    m = _need(re.search(r"flags: (FLAG_[A-Z_]+(?: \| FLAG_[A-Z_]+)*),", parse), "parser initial flags")
    c["INITIAL_FLAGS"] = [f.strip()[5:] for f in m.group(1).split("|")]
    # single-letter escapes of parse_escape's final arm: b'a' => "\x07", ...
    esc = re.findall(r"b'(.)' => \"(\\x[0-9a-f]{2}|\\n|\\r|\\t| )\",", parse)
    if len(esc) < 8:
        raise TieError("translator: escape table of parse_escape not found")
    tab = []
    for letter, val in esc:
        if val.startswith("\\x"):
            code = int(val[2:], 16)
        else:
            code = {"\\n": 10, "\\r": 13, "\\t": 9, " ": 32}[val]
        tab.append((ord(letter), code))
    c["ESCAPE_TABLE"] = tab
    c["INSN_VARIANTS"] = _enum_variants(vm, "Insn")
    c["EXPR_VARIANTS"] = _enum_variants(lib, "Expr")
    c["ASSERTION_VARIANTS"] = _enum_variants(lib, "Assertion")
    c["LOOKAROUND_VARIANTS"] = _enum_variants(lib, "LookAround")
    m = _need(re.search(r"fn is_hard\(&self\) -> bool \{.*?matches!\(\s*self,(.*?)\)\s*\}", lib, re.S), "Assertion::is_hard")
    hard = re.sub(r"//.*", "", m.group(1))
    c["HARD_ASSERTIONS"] = [x.strip() for x in hard.split("|") if x.strip()]
    m = _need(re.search(r"if group < (self\.re\.len\(\) / 2) \{", parse), "numbered backref guard")
    c["BACKREF_GUARD"] = m.group(1)
    # the \G test and the backtrack-limit test of vm::run
    m = _need(re.search(r"Insn::ContinueFromPreviousMatchEnd => \{\s*if (ix (?:>|!=) pos) \|\| option_flags & OPTION_SKIPPED_EMPTY_MATCH != 0", vm), "\\G test")
    c["CONT_TEST"] = m.group(1)
    m = _need(re.search(r"if backtrack_count (>=?) options\.backtrack_limit", vm), "backtrack limit test")
    c["LIMIT_TEST"] = m.group(1)
    # interior mutability scan for C18 (non-test code)
    mut = []
    for fn, src in (("vm.rs", vm), ("lib.rs", lib), ("parse.rs", parse), ("analyze.rs", analyze), ("compile.rs", compile_)):
        for ln, line in enumerate(src.split("\n"), 1):
            if re.search(r"\b(Cell|RefCell|Mutex|RwLock|Atomic(?:Bool|Ptr|Usize|Isize|[UI]\d+)|static mut|thread_local|OnceCell|OnceLock|UnsafeCell)\b", line):
                # the hook module and cfg(test)-only statics are guarded
                mut.append((fn, ln, line.strip()))
    c["MUTABILITY_SITES"] = mut
    return c


def render(c):
    L = []
    L.append("(* Consts.v — GENERATED by vp/gen_consts.py from /repo/src on every run. Do not edit. *)")
    L.append("From Coq Require Import List NArith String.")
    L.append("Import ListNotations.")
    L.append("Open Scope string_scope.")
    L.append("Definition MAX_STACK : N := %d%%N." % c["MAX_STACK"])
    L.append("Definition MAX_RECURSION : nat := %d." % c["MAX_RECURSION"])
    L.append("Definition DEFAULT_BACKTRACK_LIMIT : N := %d%%N." % c["DEFAULT_BACKTRACK_LIMIT"])
    L.append("Definition OPTION_SKIPPED_EMPTY_MATCH_BIT : nat := %d." % c["OPTION_SKIPPED_EMPTY_MATCH_BIT"])
    L.append("Definition SPECIAL_CHARS : list nat := %s." % _coq_nat_list(c["SPECIAL_CHARS"]))
    L.append("Definition CP_LEN_T1 : nat := %d." % c["CP_LEN_THRESHOLDS"][0])
    L.append("Definition CP_LEN_T2 : nat := %d." % c["CP_LEN_THRESHOLDS"][1])
    L.append("Definition CP_LEN_T3 : nat := %d." % c["CP_LEN_THRESHOLDS"][2])
    for k, v in c["FLAGS"].items():
        L.append("Definition FLAG_%s_BIT : nat := %d." % (k, v))
    L.append("Definition INITIAL_FLAGS : list string := %s." % _coq_str_list(c["INITIAL_FLAGS"]))
    L.append("Definition ESCAPE_TABLE : list (nat * nat) := [%s]." % "; ".join("(%d, %d)" % p for p in c["ESCAPE_TABLE"]))
    L.append("Definition INSN_VARIANTS : list string := %s." % _coq_str_list(c["INSN_VARIANTS"]))
    L.append("Definition EXPR_VARIANTS : list string := %s." % _coq_str_list(c["EXPR_VARIANTS"]))
    L.append("Definition ASSERTION_VARIANTS : list string := %s." % _coq_str_list(c["ASSERTION_VARIANTS"]))
    L.append("Definition LOOKAROUND_VARIANTS : list string := %s." % _coq_str_list(c["LOOKAROUND_VARIANTS"]))
    L.append("Definition HARD_ASSERTIONS : list string := %s." % _coq_str_list(c["HARD_ASSERTIONS"]))
    L.append('Definition BACKREF_GUARD : string := "%s".' % c["BACKREF_GUARD"])
    L.append('Definition CONT_TEST : string := "%s".' % c["CONT_TEST"])
    L.append('Definition LIMIT_TEST : string := "%s".' % c["LIMIT_TEST"])
    return "\n".join(L) + "\n"


def generate(repo, dst):
    c = extract(repo)
    text = render(c)
    os.makedirs(os.path.dirname(dst), exist_ok=True)
    if not os.path.exists(dst) or open(dst).read() != text:
        open(dst, "w").write(text)
    return c


if __name__ == "__main__":
    import sys, json
    print(json.dumps(extract(sys.argv[1] if len(sys.argv) > 1 else "/repo"), indent=1))
