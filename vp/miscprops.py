"""C04, C14, C17, C18, C19: differential / metamorphic checks on the real crate plus the ties they need."""
import re
import itertools
from . import core, gen, engine, engprop, t1, apiprops
from .core import hexs


def t1_extra(ctx):
    res, infos = ctx["res"], ctx["infos"]
    pats = [i["pattern"] for i in infos]
    bad, kinds, _ = t1.compare(pats)
    ok = res.oblige("tie:T1 parse tree / backrefs / named-group indices / error kind and position, parser model = real parser on %d patterns" % len(pats), not bad)
    if not ok:
        ctx["tie_fail"].append(dict(bad[0], tier="T1"))


# ---------------------------------------------------------------- C04
PROBES4 = "is_match find:0 caps:0 find_iter caps_iter split splitn:0 splitn:1 splitn:2 splitn:3 meta " + " ".join(
    "replacen:%d:%s:%s" % (l, k, hexs(a)) for l in (0, 1, 2, 3) for k, a in [("T", "x"), ("N", "$1"), ("C", "y"), ("I", ""), ("T", "[$0]"), ("T", "$1-${n1}$$")])


def _strip_unset(c):
    while c.endswith(",-"):
        c = c[:-2]
    return c


def run_c04(tier, seed, replay=None):
    res = core.Result("C04", tier, seed)
    obligations, closed, log = core.coq_property("C04", ["C04_iter_spec", "C04_split_spec", "C04_replace_spec"])
    proof_ok = all([res.oblige(n, ok) for n, ok in obligations])
    core.build_ocaml()
    core.build_harness()
    r = core.rng(seed, "C04")
    feats = [gen.Feats(fancy=False, named=True, flags=True), gen.Feats(fancy=False, wordb=True), gen.Feats(fancy=False, nullable_star=True, named=True)]
    pats, trees = [], {}
    corpus = ["(?:ab|a)\\B", "(?:Mr\\.|Mr)\\b", "(\\b(?:ab|a))b", "\\b", "\\B", "a*", "(a)|b", "(?i)a\\b", "\\ba*?\\b", "(?m)^\\b", "x*\\b", "(?:(\\b))*", "(?<n1>a)\\b|b", "(a){0}b", "(a){0}(b)", "a(?:(b)|c){0}",
              # a quantified group whose whole content is another quantifier (what to_str must keep wrapped)
              "(?:a{2})?b", "(?:a{2})??a", "(a)(?:b{1})?c", "(?i:a{2})?b", "(?:é{2})?-", "(?:a{1,2})?b", "(?:a*)?b", "(?:a+)??b", "(?:a{2})*b", "(?:a?){2}b", "(?:(?:a{2})?b)+",
              # line anchors and word boundaries the VM has to execute itself
              "(?m)\\ba(?:$|b)", "(?m)\\w+?$\\b", "(?m)a*$\\B", "(?m)(?:^|a)\\bb", "(?m)\\b(?:a|^)b", "\\ba(?:$|b)", "(?s)\\b.(?:$|b)"]
    if replay and "pattern" in replay:
        pats = [replay["pattern"]]
    else:
        pats = list(corpus)
        n = 500 if tier == "quick" else 8000
        k = 0
        while len(pats) < n + len(corpus):
            k += 1
            p, t = gen.random_pattern(r, r.choice([2, 3, 3]), feats[k % 3])
            if p not in trees and len(p) < 50:
                trees[p] = t
                pats.append(p)
    texts = gen.texts(2, ["a", "b", "-", "é"]) + ["ab", "ab a", "a-b", "aab", "ba b", "Mr. S", "aé b", "", "abab", "b-", "a\nb", "ab\nb", "\na", "b", "ac", "aaa", "éé-", "-"]
    if tier == "thorough":
        texts += gen.texts(3, ["a", "b", "-"])
    lines = ["%s\t%s\t-\t0\t%s" % (hexs(p), hexs(t), PROBES4) for p in pats for t in texts]
    fa = core.run_impl("api", lines)
    rx = core.run_impl("rx", lines)
    infos = {i["pattern"]: i for i in engine.prog_info(pats)}
    bad, known, n, fancy_n = [], [], 0, 0
    names = PROBES4.split(" ")
    k = 0
    for p in pats:
        for t in texts:
            a, b = fa[k].split("\t"), rx[k].split("\t")
            k += 1
            if a[0].startswith("new=err") or b[0].startswith("new=err"):
                continue          # not in the common syntax (one of the two crates rejects it)
            if a[0] == "new=fancy":
                fancy_n += 1
            for nm, x, y in zip(names, a[1:], b[1:]):
                if nm == "meta":
                    continue      # captures_len / capture_names are C16's subject, not in C04's list; the regex crate drops a trailing group under {0}
                n += 1
                if nm.startswith("caps"):
                    # a trailing group that did not participate reads as None through get(i) whether the
                    # engine keeps the group (fancy-regex: captures_len = 1 + groups, C16) or drops it
                    # (the regex crate drops a trailing group under a {0} repetition)
                    x = ";".join(_strip_unset(c) for c in x.split(";"))
                    y = ";".join(_strip_unset(c) for c in y.split(";"))
                if x != y:
                    rec = {"kind": "input", "pattern": p, "text": t, "probe": nm, "impl": x, "reference": y, "check": "fancy_regex = regex crate on the common syntax"}
                    tr = trees.get(p)
                    info = infos.get(p)
                    f1 = a[0] == "new=fancy" and (("*" in p or "+" in p or ",}" in p)) and _nullable_star_str(tr, p)
                    if f1:
                        known.append(rec)
                    else:
                        bad.append(rec)
    res.oblige("property: every public search API of fancy_regex equals regex::Regex on %d probe results (%d on patterns the VM interprets because of a word boundary)" % (n, fancy_n), not bad)
    if known:
        res.known_finding("F1 class=nullable unbounded repeat interpreted by the VM (word boundary in the pattern) e.g. pattern=%r text=%r (%d disagreeing probe results this run)" % (known[0]["pattern"], known[0]["text"], len(known)))
    res.cov.update(evaluations=n, distinct_nontrivial=fancy_n,
                   rule="common-syntax patterns (classes, anchors, \\b/\\B, groups, named groups, flags, greedy/lazy quantifiers; no fancy feature) x texts over {a,b,-,e-acute}; all APIs incl. splitn limits 0..3 and replacen limits 0..3 x six replacers; non-trivial = the pattern is interpreted by the VM (contains a word boundary)",
                   samples=[{"pattern": p} for p in pats[:2] + pats[-2:]], exhaustive=False)
    res.notes.update(theorem_assumptions=closed)
    res.assumptions = ["PARTIAL: that regex-syntax gives the printed pattern the meaning of the parsed tree is a property of the dependency (validated, not proved); the theorems are the API-layer specifications (C08,C10,C11) which are also the regex crate's documented behaviour"]
    broken = [x for x, ok in res.obligations if not ok]
    if bad:
        bad.sort(key=lambda m: (len(m["pattern"]), len(m["text"])))
        res.violation(dict(bad[0], broken=broken))
    elif broken:
        res.violation({"kind": "obligation", "broken": broken, "coq_log_tail": log[-1500:]}, no_input=True)
    return res.finish("coqc Properties/C04.v ; harness/target/release/frh api vs frh rx")


def _nullable_star_str(tr, p):
    if tr is None:
        return "(\\b)" in p or "x*\\b" in p or "(?:(" in p
    def rec(t):
        if t[0] == "rep" and t[3] is None and gen.nullable(t[1]):
            return True
        return any(rec(x) for x in (t[1] if t[0] in ("cat", "alt") else [y for y in t[1:] if isinstance(y, tuple)]))
    return rec(tr)


# ---------------------------------------------------------------- C17
SPEC = list("\\.+*?()|[]{}^$#")
A17 = SPEC + ["a", "b", "1", "-", " ", "\n", "é", "€", "𝄞", "&", "~", "/", ":", ",", "<", ">", "'", "=", "!",
                # every other ASCII whitespace / control class and the remaining punctuation: none of them is special
                "\t", "\r", "\x0b", "\x0c", "\x00", "\x1b", "\x7f", "_", "@", '"', "%", "`", ";"]
HOSTS = ["%s", "(?x)%s", "(?x:%s)(?=)", "(?<=%s)", "x%s", "%sy", "(?=%s)", "(?<!q)%s", "(a)?%s\\1?", "(?>%s)z", "(?:%s){2}", "[ab]%s"]
# hosts in which the embedded escape(s) must still find exactly str::find(s): alone, and under the
# free-spacing flag (plain and VM-compiled), where an unescaped '#' would open a comment
FIND_HOSTS = ("%s", "(?x)%s", "(?x:%s)(?=)", "(?<=%s)")


def run_c17(tier, seed, replay=None):
    res = core.Result("C17", tier, seed)
    obligations, closed, log = core.coq_property("C17", ["C17_escape_borrow", "C17_quoted_shape", "C17_specials_cover_parser", "C17_parse_escape", "C17_lits_match", "C17_escape_is_find", "C17_embedded", "C17_escape_opaque_to_free_spacing"])
    proof_ok = all([res.oblige(n, ok) for n, ok in obligations])
    core.build_ocaml()
    core.build_harness()
    r = core.rng(seed, "C17")
    if replay and "string" in replay:
        strs = [replay["string"]]
    else:
        strs = [""] + ["".join(x) for k in (1, 2) for x in itertools.product(A17, repeat=k)]
        strs += ["".join(r.choice(A17) for _ in range(3)) for _ in range(4000 if tier == "quick" else 60000)]
        strs += ["".join(r.choice(A17) for _ in range(r.randint(4, 9))) for _ in range(1500 if tier == "quick" else 40000)]
        strs = list(dict.fromkeys(strs))
    io = core.run_impl("escape", [hexs(s) for s in strs])
    mo = core.run_model("escape", [hexs(s) for s in strs])
    tie_bad, viol = [], []
    esc = {}
    for s, a, b in zip(strs, io, mo):
        fa, fb = engine.fields(a), engine.fields(b)
        if fa.get("esc") != fb.get("esc"):
            tie_bad.append({"string": s, "impl": a, "model": b})
        e_hex, borrowed = fa["esc"].split(":")
        esc[s] = core.unhex(e_hex).decode("utf-8")
        special = any(c in s for c in SPEC)
        if (borrowed == "1") != (not special):
            viol.append({"kind": "input", "string": s, "impl": a, "reference": "borrowed iff no special character", "check": "escape borrows its input iff nothing needed escaping"})
        # parse(escape s) must be the chain of one-character literals of s
        want = " ".join("L%s:0" % hexs(c) for c in s)
        n = len(s)
        want = "E" if n == 0 else (want if n == 1 else "C%d %s" % (n, want))
        if fa.get("tree") != want:
            viol.append({"kind": "input", "string": s, "impl": fa.get("tree"), "reference": want, "check": "parse(escape(s)) is the literal chain of s"})
    res.oblige("tie:T3 escape output and borrow flag, model = implementation on %d strings" % len(strs), not tie_bad)
    # T1 on the escaped strings
    bad_t1, _, _ = t1.compare([esc[s] for s in strs[:20000]])
    res.oblige("tie:T1 parser model = real parser on %d escaped strings" % min(len(strs), 20000), not bad_t1)
    # behaviour: find == str::find, plain and embedded
    texts = ["", "a", "xay", "a|b", "xa yb a|b", "<a> <b> <a|b>", "a.b", "axb a.b", "(a)", "é€", "a b#c", "aa", "a{2}", "\\a", "^$", "a\x0cb", "ab", "\ta\x0b"]
    lines, meta = [], []
    sub = strs if tier == "thorough" else strs[:1 + len(A17) + len(A17) ** 2] + strs[-400:]
    for s in sub:
        if not s:
            continue
        tx = texts + [s, "x" + s + "y", s + s, "q" + s]
        for h in (HOSTS if tier == "thorough" or len(s) <= 2 else HOSTS[:7]):
            pat = h % esc[s]
            for t in tx:
                lines.append("%s\t%s\t-\t0\tfind:0" % (hexs(pat), hexs(t)))
                meta.append((s, h, t))
    out = core.run_impl("api", lines)
    nfind = 0
    for (s, h, t), o in zip(meta, out):
        v = o.split("\t")
        if v[0].startswith("new=err") or len(v) < 2:
            viol.append({"kind": "input", "string": s, "host": h, "impl": o, "reference": "compiles", "check": "Regex::new(host(escape(s))) compiles"})
            continue
        if h not in FIND_HOSTS:
            continue
        if h.startswith("(?x") and any(c in " \t\n\r\x0b\x0c" for c in s):
            continue      # free-spacing hosts: escape does not (and is not documented to) protect whitespace
        nfind += 1
        tb, sb = t.encode(), s.encode()
        k = tb.find(sb)
        want = "none" if k < 0 else "%d-%d" % (k, k + len(sb))
        if h == "(?<=%s)" and k >= 0:       # the look-behind host finds the END of the first occurrence
            want = "%d-%d" % (k + len(sb), k + len(sb))
        if v[1] != want:
            viol.append({"kind": "input", "string": s, "text": t, "host": h, "impl": v[1], "reference": want, "check": "Regex::new(host(escape(s))).find(t) = t.find(s), host = the bare pattern, a free-spacing group, or a look-behind (which finds the end of the first occurrence)"})
    # embedded hosts: compare with the same host around a literal built by hand (one literal per char)
    res.oblige("property: escape(s) compiles (plain and embedded in fancy hosts), parses to the literal chain of s, finds exactly str::find(s) (%d searches), borrows iff nothing to escape" % nfind, not viol)
    res.cov.update(evaluations=len(strs) + len(lines), distinct_nontrivial=sum(1 for s in strs if any(c in s for c in SPEC)),
                   rule="strings = all strings up to length 2 over the 15 meta-characters plus letters, digit, '-', space, newline, 2/3/4-byte characters and punctuation that regex-syntax treats specially, seeded random strings of length 3..9; each alone and embedded in plain and fancy hosts; non-trivial = contains a meta-character",
                   samples=[{"string": s} for s in ((strs[3], strs[40], strs[-1]) if len(strs) > 40 else strs[:3])], exhaustive=False)
    res.notes.update(theorem_assumptions=closed)
    res.assumptions = ["PARTIAL: that parse(escape(s)) is the literal chain is established on the parser model by T1 + the enumeration, not yet by a theorem; that regex-syntax accepts push_quoted's output for delegated literals is a property of the dependency (validated)"]
    broken = [x for x, ok in res.obligations if not ok]
    if viol:
        viol.sort(key=lambda v: len(v["string"]))
        res.violation(dict(viol[0], broken=broken))
    elif broken:
        res.violation({"kind": "obligation" if not proof_ok else "tie", "broken": broken, "first_disagreement": (tie_bad + bad_t1)[:1], "coq_log_tail": log[-1500:] if not proof_ok else ""}, no_input=True)
    return res.finish("coqc Properties/C17.v ; ocaml/frmodel escape vs harness/target/release/frh escape ; frh api")


# ---------------------------------------------------------------- C14
def run_c14(tier, seed, replay=None):
    res = core.Result("C14", tier, seed)
    obligations, closed, log = core.coq_property("C14", ["C14_limit_is_uniform", "C14_casei_spelling_on_model"])
    proof_ok = all([res.oblige(n, ok) for n, ok in obligations])
    core.build_ocaml()
    core.build_harness()
    r = core.rng(seed, "C14")
    feats = [gen.Feats(casei_alpha=True, multibyte=False), gen.Feats(casei_alpha=True, fancy=False, multibyte=False), gen.Feats(casei_alpha=True, flags=True, multibyte=False)]
    corpus = ["(?<=a)b", "a(?-i:b)", "[ab]\\b", "(a)\\1", "(?-i:a)b", "a", "[a-b]+", "(?i)a", "\\w(?=B)", "(?=a)\\w{50}\\d{50}", "\\w{50}\\d{50}",
              # {0} repetitions: plain patterns unless a capture group sits under them
              "a{0}b", "(?:a|b{0})B", "a{0}[ab]{2}", "(?:ab){0,0}a", "b{0}?a", "(a){0}b"]
    if replay and "pattern" in replay:
        pats = [replay["pattern"]]
    else:
        pats = list(corpus)
        k = 0
        while len(pats) < (400 if tier == "quick" else 6000):
            k += 1
            p, _ = gen.random_pattern(r, r.choice([1, 2, 3]), feats[k % 3])
            if p not in pats and len(p) < 40:
                pats.append(p)
    texts = gen.texts(3 if tier == "quick" else 4, ["a", "A", "b", "B"]) + ["aB", "AB", "Ab", "ab", "aAbB", "BAba"]
    if tier == "quick":
        texts = texts[:60] + texts[-6:]
    l1, l2, meta = [], [], []
    for p in pats:
        for t in texts:
            l1.append("%s\t%s\t1\t-\t-\t-" % (hexs(p), hexs(t)))
            l2.append("%s\t%s\t0\t-\t-\t-" % (hexs("(?i)" + p), hexs(t)))
            meta.append((p, t))
    o1 = core.run_impl("opts", l1)
    o2 = core.run_impl("opts", l2)
    bad, known = [], []
    n = 0
    # which patterns are VM-compiled is decided by the MODEL's analysis of the parsed tree (and tied to
    # the real decision: T2), never by asking the implementation under test: a change that sends a
    # plain pattern to the VM - where F-builder-casei applies - must not excuse itself
    infos = {i["pattern"]: i for i in engine.prog_info(pats)}
    t2bad = [i for i in infos.values() if i["t2_ok"] is False]
    res.oblige("tie:T2 which patterns are VM-compiled (analysis facts, program listing), model = implementation on %d patterns" % len(infos), not t2bad)
    model_fancy = lambda p: ((infos[p]["model"] or {}).get("new", "")).startswith("fancy")
    for (p, t), a, b in zip(meta, o1, o2):
        fa, fb = engine.fields(a), engine.fields(b)
        if not fa.get("build", "").startswith("ok") or not fb.get("build", "").startswith("ok"):
            if fa.get("build", "")[:3] != fb.get("build", "")[:3]:
                bad.append({"kind": "input", "pattern": p, "text": t, "impl": a, "reference": b, "check": "builder casei(P) builds iff (?i)P builds"})
            continue
        n += 1
        if fa.get("caps") != fb.get("caps"):
            rec = {"kind": "input", "pattern": p, "text": t, "impl": "RegexBuilder::case_insensitive(true): " + fa.get("caps", "?"), "reference": "(?i)P: " + fb.get("caps", "?"), "check": "case_insensitive(true) on P = the pattern (?i)P"}
            import re as _re
            if fa["build"].endswith("fancy") and model_fancy(p):
                known.append(rec)
            elif _re.search(r"\(\?[a-zA-Z]*-[a-zA-Z]*i", p):
                known.append(dict(rec, finding="F-builder-casei-inner"))
            else:
                bad.append(rec)
    # size limits: a tiny delegate_size_limit must be honoured by plain patterns and (documented) by each delegated piece of fancy ones
    l3 = []
    lim_pats = [("\\w{50}\\d{50}", "plain"), ("(?=a)\\w{50}\\d{50}", "fancy"), ("a", "plain"), ("(?=a)a", "fancy"), ("[ab]{40}\\w{40}", "plain"), ("(a)\\1\\w{60}\\d{60}", "fancy")]
    for p, _ in lim_pats:
        for sl, dl in (("100", "-"), ("-", "-"), ("100", "1000000"), ("10000000", "-")):
            l3.append("%s\t%s\t0\t-\t%s\t%s" % (hexs(p), hexs("a"), sl, dl))
    o3 = core.run_impl("opts", l3)
    k = 0
    for p, kind in lim_pats:
        outs = o3[k:k + 4]
        k += 4
        big = len(p) > 8
        tiny_err = ["err:Compile:InnerError" in o for o in outs]
        want = [big, False, big, False]
        if tiny_err != want:
            rec = {"kind": "input", "pattern": p, "impl": outs, "reference": "size-limit error exactly for the tiny limit on the big pattern: %s" % want, "check": "delegate_size_limit applies (also together with delegate_dfa_size_limit)"}
            if kind == "fancy" and tiny_err == [False] * 4:
                known.append(dict(rec, finding="F-builder-limits"))
            else:
                bad.append(rec)
    # backtrack_limit reaches every entry point of a VM-compiled pattern alike: is_match, find and captures start the
    # same search, so with one limit they fail together or succeed together
    lpats = ["(a|b|ab)*(?=B)", "(a+a+)+(?=B)", "(?:a|ab)*(?=c)\\b", "(?i)(a|b|ab)*(?=c)", "(\\w+)\\1(?=B)", "(?<=a)(a|aa)*b"] + [p for p in pats if "(?" in p or "\\1" in p][:60 if tier == "quick" else 600]
    ltexts = ["abababab", "aaaaaaaa", "aBAbabABab", "aaaab", "abab"]
    l4, m4 = [], []
    for p in lpats:
        for t in ltexts:
            for lim in ("1", "3", "10", "50"):
                l4.append("%s\t%s\t%s\t0\tis_match find:0 caps:0" % (hexs(p), hexs(t), lim))
                m4.append((p, t, lim))
    o4 = core.run_impl("api", l4)
    nl = 0
    for (p, t, lim), line in zip(m4, o4):
        v = line.split("\t")
        if len(v) != 4 or not v[0].startswith("new=fancy"):
            continue
        nl += 1
        errs = [x.startswith("ERR:") for x in v[1:]]
        if len(set(errs)) != 1:
            bad.append({"kind": "input", "pattern": p, "text": t, "limit": lim, "impl": v[1:], "reference": "is_match, find and captures report the backtrack limit together", "check": "backtrack_limit reaches every entry point"})
    res.oblige("property: builder options on the real crate — case_insensitive(true) on P = (?i)P (%d searches); delegate size limits honoured; backtrack_limit reaches is_match / find / captures alike (%d limited searches)" % (n, nl), not bad)
    kc = [x for x in known if "finding" not in x]
    kl = [x for x in known if x.get("finding") == "F-builder-limits"]
    ki = [x for x in known if x.get("finding") == "F-builder-casei-inner"]
    if ki:
        res.known_finding("F-builder-casei-inner class=an inner (?-i:..) group of a wholly delegated pattern is overridden by the builder option e.g. pattern=%r text=%r (%d disagreeing searches this run)" % (ki[0]["pattern"], ki[0]["text"], len(ki)))
    if kc:
        res.known_finding("F-builder-casei class=the pattern is VM-compiled (fancy features): the builder option does not reach the parser e.g. pattern=%r text=%r (%d disagreeing searches this run)" % (kc[0]["pattern"], kc[0]["text"], len(kc)))
    if kl:
        res.known_finding("F-builder-limits class=delegate size limits are not applied to the delegates of a VM-compiled pattern e.g. pattern=%r (%d cases this run)" % (kl[0]["pattern"], len(kl)))
    res.cov.update(evaluations=len(meta) + len(l3), distinct_nontrivial=len(kc) + sum(1 for (p, t), a in zip(meta, o1) if "fancy" in a),
                   rule="mixed-case patterns of the C01 grammar x texts over {a,A,b,B}; builder case_insensitive(true) vs the inline (?i) spelling; size-limit combinations on big/small plain/fancy patterns; non-trivial = the pattern is VM-compiled",
                   samples=[{"pattern": p} for p in pats[:3] + pats[-2:]], exhaustive=False)
    res.notes.update(theorem_assumptions=closed)
    res.assumptions = ["the builder options are not inputs of the hand-written model (the code ignores them on the VM path: known findings); the theorems state what the model can: the backtrack limit acts uniformly (C07) and (?i) scoping on the parser model"]
    broken = [x for x, ok in res.obligations if not ok]
    if bad:
        bad.sort(key=lambda m: len(m["pattern"]))
        res.violation(dict(bad[0], broken=broken))
    elif broken:
        res.violation({"kind": "obligation", "broken": broken, "coq_log_tail": log[-1500:]}, no_input=True)
    return res.finish("coqc Properties/C14.v ; harness/target/release/frh opts")


# ---------------------------------------------------------------- C18
THREAD_PATS = ["(a+)+b", "(\\w+)\\s\\1", "(?<=a)b+", "a*b", "(?>a|ab)c|abc", "\\b\\w+\\b", "(a)|(b)", "(?=(\\w))\\1+", "[ab]+c", "(?:(?=a)a*){2}"]
THREAD_TEXTS = ["", "ab", "aaab", "hello hello", "abc abc", "aab aab b", "xaby", "aaaaaaaaaaaaaaaaaaaac", "bbbabbb", "a b a b"]


def run_c18(tier, seed, replay=None):
    res = core.Result("C18", tier, seed)
    obligations, closed, log = core.coq_property("C18", ["C18_pure", "C18_history_free"])
    proof_ok = all([res.oblige(n, ok) for n, ok in obligations])
    core.build_ocaml()
    core.build_harness()
    from . import gen_consts
    c = gen_consts.extract(core.REPO)
    # interior mutability in non-test, non-hook code
    src = {}
    sites = []
    for fn, ln, line in c["MUTABILITY_SITES"]:
        if fn not in src:
            src[fn] = open("%s/src/%s" % (core.REPO, fn)).read().split("\n")
        # inside the guarded hook module or a cfg(test) item?
        lines = src[fn]
        guarded = False
        for back in range(ln - 1, max(0, ln - 120), -1):
            l = lines[back - 1] if back >= 1 else ""
            if "cfg(fancy_regex_verif)" in l or "cfg(all(test" in l or "cfg(test)" in l:
                guarded = True
                break
            if l.startswith("}") and back < ln - 1:
                break
        if not guarded:
            sites.append("%s:%d: %s" % (fn, ln, line))
    res.oblige("scan: no interior mutability (Cell/RefCell/Mutex/RwLock/Atomic*/static mut/thread_local) in non-test, non-hook source", not sites)
    r = core.rng(seed, "C18")
    lines = []
    rounds = 40 if tier == "quick" else 600
    for p in THREAD_PATS:
        for nt in ((2, 16) if tier == "quick" else (2, 4, 8, 16)):
            for shared in ("1", "0"):
                tx = r.sample(THREAD_TEXTS, len(THREAD_TEXTS))
                lines.append("%d\t%s\t%d\t%s\t%s" % (nt, shared, rounds, hexs(p), "\t".join(hexs(t) for t in tx)))
    # builder-configured regexes (case_insensitive, raised delegate size limit, backtrack limit): clones and
    # the shared reference must give what the configured regex gives single-threaded
    for p, o in (("h(el+)o|[a-b]+c", "i"), ("(?P<w>[a-c]+)-", "i"), ("\\w{300}|a", "s"), ("(?:a|b|ab)*(?=c)", "l"), ("(a)\\1|B", "i")):
        for shared in ("1", "0"):
            tx = r.sample(THREAD_TEXTS, len(THREAD_TEXTS)) + ["say HELLO", "ABc", "aB-", "abababababab"]
            lines.append("%d\t%s%s\t%d\t%s\t%s" % (4, shared, o, rounds, hexs(p), "\t".join(hexs(t) for t in tx)))
    out = core.run_impl("threads", lines, shards=2)
    bad = [{"kind": "input", "line": l, "impl": o} for l, o in zip(lines, out) if not o.startswith("ok")]
    # the single-threaded answers equal the model's
    infos = engine.prog_info(THREAD_PATS)
    n, mism, _, _ = engine.sem_differential(infos, lambda i: THREAD_TEXTS)
    res.oblige("property: %d concurrent runs (2..16 threads, shared reference and clones, %d rounds each) return exactly the single-threaded results; histories leave no trace" % (len(lines), rounds), not bad)
    res.oblige("search: the single-threaded results equal the reference semantics on %d evaluations" % n, not mism)
    res.cov.update(evaluations=len(lines) * rounds, distinct_nontrivial=len(lines),
                   rule="10 delegated and VM patterns x 10 texts, executed from 2..16 threads on one shared Regex and on clones for a fixed number of rounds, results compared with the single-threaded answers computed before and after; non-trivial = a (pattern, thread count, sharing mode) configuration",
                   samples=[lines[0][:120]], exhaustive=False)
    res.notes.update(theorem_assumptions=closed, mutability_sites=sites)
    res.assumptions = ["PARTIAL: data races, deadlock and the behaviour of regex-automata's cache pool are runtime behaviour no Gallina model exhibits; they are covered only by the concurrent runs. The theorems state purity and history-freedom of the API model; the source scan checks that Regex has no interior mutability of its own"]
    broken = [x for x, ok in res.obligations if not ok]
    if bad or mism:
        res.violation(dict((bad or mism)[0], broken=broken) if bad else dict(mism[0], kind="input", broken=broken))
    elif broken:
        res.violation({"kind": "obligation", "broken": broken, "sites": sites, "coq_log_tail": log[-1000:]}, no_input=True)
    return res.finish("coqc Properties/C18.v ; harness/target/release/frh threads")


# ---------------------------------------------------------------- C19
class Respell:
    """prints a generator tree in an alternative, documented-equivalent spelling"""

    def __init__(self, r, mode):
        self.r, self.mode = r, mode
        self.count = 0          # groups opened so far (print order)
        self.multi = False      # inside a (?m:..) scope: ^ and $ are line anchors, not \A / \z

    def ws(self):
        if self.mode != "x":
            return ""
        return self.r.choice(["", " ", "  ", "\n", " # c\n ", " # c1\n  # c2\n ", "(?#c)", "\t"])

    def show(self, t, ctx=0):
        k = t[0]
        m = self.mode
        if k == "lit":
            c = t[1]
            if m == "esc" and c == "a" and self.r.random() < 0.5:
                return self.r.choice(["\\x61", "\\x{61}", "\\u0061", "\\U00000061", "\\x{0061}"])
            if m == "esc" and c == "é" and self.r.random() < 0.5:
                return self.r.choice(["\\xe9", "\\x{E9}", "\\u00E9", "\\x{00e9}"])
            if m == "esc" and len(c) == 1 and c in "\\.+*?()|[]{}^$#" and self.r.random() < 0.6:
                return self.r.choice(["\\x%02x", "\\x{%x}", "\\u%04X", "\\U%08x", "\\x{%04X}"]) % ord(c)
            return ("\\" + c) if c in "\\.+*?()|[]{}^$# " or (m == "x" and c in " #\n") else c
        if k == "any":
            return "."
        if k == "cls":
            return t[1]
        if k == "assert":
            if m == "esc" and t[1] == "^" and not self.multi:
                return "\\A"
            if m == "esc" and t[1] == "$" and not self.multi:
                return "\\z"
            return t[1]
        if k == "empty":
            return "" if ctx == 0 else "(?:)"
        if k == "K":
            return "\\K"
        if k == "G":
            return "\\G"
        if k == "bref":
            g = t[1]
            if m == "named":
                return "\\k<n%d>" % g
            if m == "pnamed":
                return "(?P=n%d)" % g
            if m in ("rel", "relmix"):
                return "\\k<-%d>" % (self.count - g + 1)
            return "\\%d" % g if ctx != 1 else "(?:\\%d)" % g
        if k == "condg0":
            return "(?(<n%d>))" % t[1] if m in ("named", "pnamed") else "(?(%d))" % t[1]
        if k == "cat":
            s = self.ws().join(self.show(x, 1) for x in t[1])
            return s if ctx <= 1 else "(?:" + s + ")"
        if k == "alt":
            s = (self.ws() + "|" + self.ws()).join(self.show(x, 0) for x in t[1])
            return s if ctx == 0 else "(?:" + s + ")"
        if k == "grp":
            self.count += 1
            g = self.count
            if m == "named" or (m == "relmix" and g % 2 == 1):
                return "(?<n%d>%s%s)" % (g, self.ws(), self.show(t[1], 0))
            if m == "pnamed":
                return "(?P<n%d>%s%s)" % (g, self.ws(), self.show(t[1], 0))
            return "(" + self.ws() + self.show(t[1], 0) + self.ws() + ")"
        if k == "ncg":
            return "(?:" + self.show(t[1], 0) + ")"
        if k == "atomic":
            return "(?>" + self.show(t[1], 0) + ")"
        if k == "look":
            return "(?" + t[1] + self.show(t[2], 0) + ")"
        if k == "flag":
            on, _, off = t[1].partition("-")
            saved = self.multi
            if "m" in on:
                self.multi = True
            if "m" in off:
                self.multi = False
            body = self.show(t[2], 0)
            self.multi = saved
            if m == "flag":
                return "(?:(?" + t[1] + ")" + body + ")"
            return "(?" + t[1] + ":" + body + ")"
        if k == "rep":
            if t[1][0] == "rep" or t[1][0] in ("K", "G", "condg0"):
                body = "(?:" + self.show(t[1], 0) + ")"
            else:
                body = self.show(t[1], 2)
            lo, hi = t[2], t[3]
            w = self.ws
            if (lo, hi) == (0, None):
                q = "*"
            elif (lo, hi) == (1, None):
                q = "+"
            elif (lo, hi) == (0, 1):
                q = "?"
            elif hi is None:
                q = "{%s%d%s,%s}" % (w(), lo, w(), w())
            elif lo == hi:
                q = "{%s%d%s}" % (w(), lo, w())
            else:
                q = "{%s%d%s,%s%d%s}" % (w(), lo, w(), w(), hi, w())
            core_ = body + w() + q + ("" if t[4] else w() + "?")
            if t[5]:
                return "(?>" + core_ + ")" if m == "poss" else core_ + "+"
            return core_
        if k == "condg":
            ref = "<n%d>" % t[1] if m in ("named", "pnamed") else "%d" % t[1]
            return "(?(%s)%s|%s)" % (ref, self.show(t[2], 1 if t[2][0] == "alt" else 0), self.show(t[3], 0))
        if k == "cond":
            return "(?(%s)%s|%s)" % (self.show(t[1], 0), self.show(t[2], 1 if t[2][0] == "alt" else 0), self.show(t[3], 0))
        if k == "nbref":
            return "\\k<%s>" % t[1]
        raise ValueError(k)


def canon_casei(tree):
    """the case-insensitivity bit of a literal without cased characters carries no meaning
    (`(?i)\\.` sets it to 0, `(?i)\\x2e` to 1; both match exactly '.'): compare trees modulo it"""
    def fix(m):
        try:
            v = bytes.fromhex(m.group(1)).decode("utf-8")
        except Exception:
            return m.group(0)
        return "L%s:0" % m.group(1) if v.lower() == v.upper() else m.group(0)
    return re.sub(r"L([0-9a-f]+):([01])", fix, tree)


def has(t, kinds):
    if t[0] in kinds:
        return True
    ch = t[1] if t[0] in ("cat", "alt") else [x for x in t[1:] if isinstance(x, tuple)]
    return any(has(x, kinds) for x in ch)


def run_c19(tier, seed, replay=None):
    res = core.Result("C19", tier, seed)
    obligations, closed, log = core.coq_property("C19", ["C19_escape_table", "C19_hex_forms", "C19_possessive_is_atomic", "C19_possessive_is_atomic_swap_greed", "C19_comment_skipped", "C19_whitespace_skipped", "C19_whitespace_kept", "C19_line_comment_skipped", "C19_line_comment_to_end", "C19_first_newline"])
    proof_ok = all([res.oblige(n, ok) for n, ok in obligations])
    core.build_ocaml()
    core.build_harness()
    r = core.rng(seed, "C19")
    pairs = []
    if replay and "pattern" in replay:
        pairs = [(replay["pattern"], replay["respelled"], replay.get("family", "?"))]
    else:
        fixed = [("(?x) \\d   # digits\n     +   # one or more\n", "\\d+", "x"), ("(?x)\n  # c1\n  # c2\n  a", "a", "x"), ("(?x) foo | # first\n # second\n bar", "foo|bar", "x"),
                 ("(?x) a{2, # at least two\n      3  # at most three\n   }", "a{2,3}", "x"), ("a(?#comment)b", "ab", "x"), ("\\h", "[0-9A-Fa-f]", "esc"), ("\\H", "[^0-9A-Fa-f]", "esc"),
                 ("\\e", "\\x1B", "esc"), ("\\Aa\\z", "^a$", "esc"), ("(?>a*)", "a*+", "poss"), ("(?>a{2,3}?)b", "a{2,3}?+b", "poss"), ("(a)(b)\\k<-2>", "(a)(b)\\1", "rel"),
                 ("(?<x>a)\\k<x>", "(a)\\1", "named"), ("(?P<x>a)(?P=x)", "(a)\\1", "pnamed"), ("(?i:a)b", "(?:(?i)a)b", "flag"), ("(?x: a b )", "ab", "x"), ("(?x)a b # tail", "ab", "x"), ("(?x)a* # ?", "a*", "x"), ("(?x) (a) \\1 # [", "(a)\\1", "x"),
                 ("(?<x>a)(b)\\k<-1>", "(a)(b)\\2", "rel"), ("(a)(?<y>b)(c)\\k<-1>", "(a)(b)(c)\\3", "rel"), ("(?<x>a)(b)?(?(<-1>)c|d)", "(a)(b)?(?(2)c|d)", "rel"),
                 # possessive vs atomic under the swap-greed flag
                 ("(?U)(?>a*)", "(?U)a*+", "poss"), ("(?U)(?>a+)b", "(?U)a++b", "poss"), ("(?U:(?>a*))b", "(?U:a*+)b", "poss"), ("(?U)(?>a*?)", "(?U)a*?+", "poss"), ("(?U)x(?>\\d+)", "(?U)x\\d++", "poss"),
                 # an escaped metacharacter and its hex / unicode escape, with and without (?i)
                 ("a\\$", "a\\x24", "esc"), ("(?i)a\\$", "(?i)a\\x24", "esc"), ("(?i)\\.", "(?i)\\x2e", "esc"), ("(?i)a\\|b", "(?i)a\\x{7c}b", "esc"), ("(?i:\\*)a", "(?i:\\u002A)a", "esc"),
                 ("(?i)(a)\\1\\|b", "(?i)(a)\\1\\x7cb", "esc"), ("(?i)\\(a\\)", "(?i)\\x28a\\x29", "esc"), ("(?i)\\[", "(?i)\\U0000005b", "esc"), ("(?i)\\\\", "(?i)\\x5c", "esc")]
        pairs += fixed
        fs = gen.Feats(refs_closed=True, flags=True, multibyte=True, classes=True, cond=True)
        fs_meta = gen.Feats(refs_closed=True, flags=True, multibyte=True, classes=False, cond=False, meta_lits=True, keepout=False, wordb=False)
        n = 500 if tier == "quick" else 8000
        k = 0
        while k < n:
            k += 1
            _, t = gen.random_pattern(r, r.choice([2, 3, 3, 4]), fs if k % 4 else fs_meta)
            base = gen.show(t, 0)
            if len(base) > 50:
                continue
            modes = ["x", "esc"]
            if has(t, ("grp",)) and not has(t, ("nbref",)):
                modes += ["named", "pnamed"]
                if has(t, ("bref",)):
                    modes += ["rel"]
                    # mixed named / unnamed groups: a numbered condition would be rejected (NamedBackrefOnly), so
                    # only trees whose references are all back-references take this spelling
                    if not has(t, ("condg", "condg0")):
                        modes += ["relmix"]
            if has(t, ("flag",)):
                modes += ["flag"]
            if has(t, ("rep",)):
                modes += ["poss"]
            for m in modes:
                rs = Respell(r, m)
                alt = rs.show(t, 0)
                if m == "x":
                    # a line comment may also run to the very end of the pattern, with no newline after it
                    alt = "(?x)" + rs.ws() + alt + rs.ws() + r.choice(["", "", " # tail", "#", " # (", "\t# ?"])
                if m in ("named", "pnamed") and has(t, ("bref", "condg", "condg0")) is False and m != "named":
                    pass
                pairs.append((base, alt, m))
    pats = sorted(set([a for a, _, _ in pairs] + [b for _, b, _ in pairs]))
    infos = {i["pattern"]: i for i in engine.prog_info(pats)}
    bad_t1, _, _ = t1.compare(pats)
    res.oblige("tie:T1 parser model = real parser on %d spellings" % len(pats), not bad_t1)
    texts = gen.texts(2) + ["aab", "abab", "abc", "aé", "éa-", "a1", "AbA", "foo", "bar", "77", "aaa",
                            "a$", "$", ".", "a|b", "|", "*a", "(a)", "[", "\\", "aa|B", "a.b", "+", "?", "{", "^a", "#"]
    lines, meta = [], []
    for p in pats:
        if engine.ngroups_of(infos[p]) is None:
            continue
        for t in texts:
            lines.append("%s\t%s\t-\t0\tcaps:0 find_iter" % (hexs(p), hexs(t)))
            meta.append((p, t))
    out = dict(zip(meta, core.run_impl("api", lines)))
    viol, n, ntree = [], 0, 0
    for a, b, fam in pairs:
        ia, ib = infos[a]["impl"], infos[b]["impl"]
        if ("tree" in ia) != ("tree" in ib):
            viol.append({"kind": "input", "pattern": a, "respelled": b, "family": fam, "impl": ib.get("new"), "reference": ia.get("new"), "check": "both spellings parse (or both are rejected)"})
            continue
        if "tree" not in ia:
            continue
        ntree += 1
        # where the tree is defined to be the same: everything except named-group metadata
        if canon_casei(ia["tree"]) != canon_casei(ib["tree"]) or ia["bs"] != ib["bs"]:
            viol.append({"kind": "input", "pattern": a, "respelled": b, "family": fam, "impl": ib["tree"], "reference": ia["tree"], "check": "documented-equivalent spellings parse to the same tree"})
            continue
        if engine.ngroups_of(infos[a]) is None or engine.ngroups_of(infos[b]) is None:
            continue
        for t in texts:
            n += 1
            if out[(a, t)].split("\t")[1:] != out[(b, t)].split("\t")[1:]:
                viol.append({"kind": "input", "pattern": a, "respelled": b, "family": fam, "text": t, "impl": out[(b, t)], "reference": out[(a, t)], "check": "equivalent spellings give identical search results"})
                break
    res.oblige("property: %d spelling pairs (free-spacing, comments, named/Python-named/relative backrefs, scoped vs inline flags, escape forms, possessive vs atomic) parse to the same tree and behave identically (%d searches)" % (ntree, n), not viol)
    fams = {}
    for _, _, f in pairs:
        fams[f] = fams.get(f, 0) + 1
    res.cov.update(evaluations=n + len(pats), distinct_nontrivial=ntree,
                   rule="seeded random trees of the C01 grammar (plus flags, conditionals) printed in the base spelling and in each applicable respelling family, plus fixed pairs; tree equality through the real parser, behaviour through captures and find_iter on texts over {a,b,c,e-acute,newline,-} and fixed ones; non-trivial = a pair whose both spellings parse",
                   samples=[{"base": a, "respelled": b, "family": f} for a, b, f in pairs[:3] + pairs[-3:]], exhaustive=False)
    res.notes.update(families=fams, theorem_assumptions=closed)
    res.assumptions = ["PARTIAL: the unbounded respelling families (whitespace insertion at any token boundary, renaming of groups) are decided by T1 + the tree-equality differential; the theorems cover the finite escape table, all two-digit hex forms, the quantifier family of possessive-vs-atomic on a fixed atom, and comment skipping of unbounded length"]
    broken = [x for x, ok in res.obligations if not ok]
    if viol:
        viol.sort(key=lambda v: len(v["respelled"]))
        res.violation(dict(viol[0], broken=broken))
    elif broken:
        res.violation({"kind": "obligation" if not proof_ok else "tie", "broken": broken, "first_disagreement": bad_t1[:1], "coq_log_tail": log[-1500:] if not proof_ok else ""}, no_input=True)
    return res.finish("coqc Properties/C19.v ; ocaml/frmodel parse vs harness/target/release/frh prog ; frh api")
