from . import engprop, apiprops
CFG = apiprops.cfg("C10", ["C10_matches_exist", "C10_split_pieces", "C10_count", "C10_rebuild", "C10_split_safe", "C10_splitn", "C10_vm_split_pieces", "C10_vm_rebuild", "C10_vm_splitn", "C10_vm_split_total"],
                   [apiprops.api_extra("C10")])


def run(tier, seed, replay=None):
    return engprop.run(CFG, tier, seed, replay)
