"""C06 — compiling any string returns Ok or Err: theorems of Properties/C06.v + T1 (parser
model = real parser, incl. error kind and position) + Regex::new under catch_unwind with
overflow checks on and an address-space limit, on a malformed-pattern stream."""
import itertools, os, subprocess
from . import core, engine, gen, t1
from .core import hexs

THEOREMS = ["C06_sizes_bounded", "C06_to_str_total", "C06_fuel_is_linear", "C06_parse_never_panics", "C06_parse_tree_wellformed", "C06_error_position", "C06_parse_total", "C06_analysis_never_panics"]
VOCAB = ["a", "é", "€", "𝄞", "\\", "(", ")", "[", "]", "{", "}", "|", "*", "+", "?", ".", "^", "$", "#", "-", ",", ":", "<", ">", "=", "!", "'", " ", "\n",
         "0", "1", "9", "18446744073709551615", "99999999999999999999", "9223372036854775808",
         "(?", "(?:", "(?=", "(?!", "(?<=", "(?<!", "(?>", "(?<n>", "(?P<n>", "(?<", "(?P<", "(?<>", "(?P<1>", "(?(1)|)", "(?(a)|)", "(?i:a", "(?P=", "(?P>", "(?P=n)", "(?P>n)", "(?(", "(?(1)", "(?#", "(?#c)", "(?#)", " #x", "{(?#c)", "(?i(?#c)", "(?x ", "(?x#", "(?i)", "(?x)", "(?-", "(?i:", "(?u", "(?-u)",
         "\\1", "\\k<n>", "\\k<-1>", "\\k<", "\\k'n'", "\\g<1>", "\\g", "\\x", "\\x{", "\\x{41}", "\\x{110000}", "\\x{100000000}", "\\u00e9", "\\U0001F600", "\\p{L}", "\\p{", "\\pL", "\\b", "\\b{", "\\B", "\\B{", "\\<", "\\>", "\\n", "\\t", "\\K", "\\G", "\\Z", "\\h", "\\e", "\\q", "\\é",
         "{2}", "{2,3}", "{,3}", "{2,", "{ 2 }", "a{18446744073709551615}", "[a-z]", "[^", "[]", "[[:alpha:]]", "[\\d]", "[a&&b]"]


def stream(tier, seed):
    r = core.rng(seed, "C06")
    out = list(VOCAB)
    out += [a + b for a in VOCAB for b in VOCAB]
    n3 = 12000 if tier == "quick" else 200000
    out += ["".join(r.choice(VOCAB) for _ in range(3)) for _ in range(n3)]
    out += ["".join(r.choice(VOCAB) for _ in range(r.randint(4, 9))) for _ in range(6000 if tier == "quick" else 300000)]
    f = gen.Feats(cond=True, contg=True, named=True, flags=True, refs_closed=False, nullable_star=True)
    valid = [gen.random_pattern(r, 3, f)[0] for _ in range(1500 if tier == "quick" else 20000)]
    for p in valid:
        out.append(p)
        if p:
            i = r.randrange(len(p))
            out.append(p[:i] + p[i + 1:])
            out.append(p[:i] + r.choice(VOCAB) + p[i:])
    # nesting far beyond the limit, for every kind of group: rejected at depth 64, long before the native stack matters
    out += [o * 20000 + "a" + ")" * 20000 for o in ("(", "(?:", "(?i:", "(?(a)", "(?=", "(?>", "(?<n>")]
    out += ["(" * 70 + "a" + ")" * 70, "(?:" * 66 + "a" + ")" * 66, "(a)\\k<99999999999>", "(?:ab){18446744073709551615}", "(?#\\", "(c)a{9223372036854775808}b{9223372036854775808}\\1",
            "(?((?:ab){18446744073709551615})c|d)", "a{2,1}", "(a)\\g<1>", "(?<n>a)\\g<n>", "(?<n>a)(?P>n)", "(a)\\g1", "\\x{100000000}", "\\U{FFFFFFFFF}", "(?x)\n  # c1\n  # c2\n  a"]
    return list(dict.fromkeys(out))


def run_new_limited(lines):
    """Regex::new under an address-space limit so that a giant allocation is an observable crash"""
    wrapper = "ulimit -v 3000000; exec %s new" % core.FRH
    out = []
    chunk = 4000
    chunks = [lines[i:i + chunk] for i in range(0, len(lines), chunk)]
    from concurrent.futures import ThreadPoolExecutor

    def one(c):
        p = subprocess.run(["bash", "-c", wrapper], input="\n".join(c) + "\n", stdout=subprocess.PIPE, stderr=subprocess.PIPE, text=True, timeout=3000)
        o = p.stdout.split("\n")
        if o and o[-1] == "":
            o.pop()
        while len(o) < len(c):
            # the process died on line len(o): record and continue after it
            o.append("CRASH rc=%s" % p.returncode)
            rest = c[len(o):]
            if not rest:
                break
            p = subprocess.run(["bash", "-c", wrapper], input="\n".join(rest) + "\n", stdout=subprocess.PIPE, stderr=subprocess.PIPE, text=True, timeout=3000)
            o2 = p.stdout.split("\n")
            if o2 and o2[-1] == "":
                o2.pop()
            o += o2
        return o[:len(c)]
    with ThreadPoolExecutor(max_workers=core.NPROC) as ex:
        for o in ex.map(one, chunks):
            out += o
    return out


def run(tier, seed, replay=None):
    res = core.Result("C06", tier, seed)
    obligations, closed, log = core.coq_property("C06", THEOREMS)
    proof_ok = all([res.oblige(n, ok) for n, ok in obligations])
    core.build_ocaml()
    core.build_harness()
    pats = [replay["pattern"]] if replay and "pattern" in replay else stream(tier, seed)
    bad_t1, kinds, _ = t1.compare(pats)
    tie_ok = res.oblige("tie:T1 parse tree / backrefs / named groups / error kind and position, parser model = real parser on %d strings" % len(pats), not bad_t1)
    out = run_new_limited([hexs(p) for p in pats])
    viol = []
    okinds = {}
    for p, o in zip(pats, out):
        k = o.split(":")[0] + (":" + o.split(":")[1] if o.startswith("err") else "")
        okinds[k] = okinds.get(k, 0) + 1
        if o.startswith("PANIC") or o.startswith("CRASH") or "DISPLAY_PANIC" in o:
            viol.append({"kind": "input", "pattern": p, "impl": o, "reference": "Ok or Err", "check": "Regex::new returns normally (overflow checks on, 3 GB address-space limit)"})
        elif o.startswith("err:Parse:"):
            f = o.split(":")
            pos, ln = int(f[3]), len(p.encode("utf-8"))
            if pos > ln:
                viol.append({"kind": "input", "pattern": p, "impl": o, "reference": "position <= %d" % ln, "check": "parse-error position is at most the pattern length"})
    res.oblige("property: Regex::new returns Ok or Err (no panic, overflow, crash) and error positions are within the pattern, on %d strings" % len(pats), not viol)
    nerr = sum(v for k, v in okinds.items() if k.startswith("err"))
    res.cov.update(evaluations=len(pats), distinct_nontrivial=nerr,
                   rule="strings = vocabulary of ~95 syntax fragments (multi-byte characters, unbalanced delimiters, huge numbers, every escape family) taken 1 and 2 at a time exhaustively, seeded random sequences of 3..9 fragments, seeded valid patterns and their single deletions/insertions, fixed extreme patterns; non-trivial = Regex::new returns an error; distinct by string",
                   samples=[{"pattern": p} for p in (pats[40], pats[len(VOCAB) + 900], pats[-14], pats[-3])], exhaustive=False)
    res.notes.update(parse_outcomes=kinds, new_outcomes=okinds, theorem_assumptions=closed)
    res.assumptions = ["PARTIAL: time/memory proportional to the pattern, native stack depth and regex-automata's own limits are runtime behaviour (validated with an address-space limit and overflow checks); parser totality (no panic arm reachable, linear fuel suffices) is validated by T1 on the malformed stream, not proved"]
    broken = [n for n, ok in res.obligations if not ok]
    if viol:
        viol.sort(key=lambda v: len(v["pattern"]))
        res.violation(dict(viol[0], broken=broken))
    elif broken:
        first = bad_t1[:1]
        res.violation({"kind": "obligation" if not proof_ok else "tie", "broken": broken, "first_disagreement": first, "coq_log_tail": log[-1500:] if not proof_ok else ""}, no_input=True)
    return res.finish("make -C coq Properties/C06.vo && coqc -Q coq FR coq/Properties/C06.v ; ocaml/frmodel parse vs harness/target/release/frh prog ; frh new under ulimit -v")
