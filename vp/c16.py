from . import engprop, apiprops, gen
CFG = apiprops.cfg("C16", ["C16_len", "C16_group_range", "C16_get_oob", "C16_len_truncated"], [apiprops.api_extra("C16", limits=("-",))],
                   feats=[gen.Feats(named=True, cond=True, contg=True), gen.Feats(named=True, fancy=False), gen.Feats(named=True, nullable_star=True)],
                   corpus=["(?<a>x)(?P<b>y)(z)", "(?<n>a)|(?<m>b)", "(a)(?=(?<q>b))", "((a)|(?<x>b))*", "(?<a>(?<b>(?<c>x)))", "(x)(?(1)(?<y>a)|(b))"])


def run(tier, seed, replay=None):
    return engprop.run(CFG, tier, seed, replay)
