from . import engprop, apiprops, gen, t1


def names_tie(ctx):
    """T1 on C16's patterns: the real parser's tree, back-reference set and NAME -> index table
    against the parser model (the accessor checks compare the crate with its own parser)"""
    res = ctx["res"]
    pats = [i["pattern"] for i in ctx["infos"]]
    bad, kinds, _ = t1.compare(pats)
    ok = res.oblige("tie:T1 parser (tree, back-reference set, name -> index table) model = implementation on %d patterns" % len(pats), not bad)
    if not ok:
        ctx["tie_fail"].append(dict(bad[0], tier="T1"))
        b = bad[0]
        if "names=" in b["impl"] and b["impl"].split("names=")[0] == b["model"].split("names=")[0]:
            ctx["violations"].append({"kind": "input", "pattern": b["pattern"], "check": "each name at its group's index (pre-order number of the named group)",
                                      "impl": b["impl"].split("names=")[1], "reference": b["model"].split("names=")[1]})


CFG = apiprops.cfg("C16", ["C16_len", "C16_group_range", "C16_get_oob", "C16_len_truncated", "C16_parser_group_count", "C16_names_in_range", "C16_len_from_pattern"], [apiprops.api_extra("C16", limits=("-",)), names_tie],
                   feats=[gen.Feats(named=True, cond=True, contg=True), gen.Feats(named=True, fancy=False), gen.Feats(named=True, nullable_star=True)],
                   corpus=["(?<a>x)(?P<b>y)(z)", "(?<n>a)|(?<m>b)", "(a)(?=(?<q>b))", "((a)|(?<x>b))*", "(?<a>(?<b>(?<c>x)))", "(x)(?(1)(?<y>a)|(b))", "(?P<outer>a(b))", "(?P<o>(?P<i>a)(b))(?=c)", "(?<o>a(?P<i>b(c)))\\k<i>",
                           # groups under a {0} repeat still count (and keep their names)
                           "(a){0}b", "(?<n>a){0}b", "(a){0}(b)", "a(?:(b)|c){0}", "(?<x>a)(?<y>b){0}", "(?=a)(a)(b){0}"])


def run(tier, seed, replay=None):
    return engprop.run(CFG, tier, seed, replay)
