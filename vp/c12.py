"""C12 — template expansion: theorems of Properties/C12.v + correspondence of the Expand model
with the real Expander on all short templates, both expanders, four writer entry points."""
import itertools
from . import core, engine
from .core import hexs

THEOREMS = ["C12_escape_roundtrip_default", "C12_escape_roundtrip_python", "C12_escape_borrow", "C12_check_sound", "C12_verbatim", "C12_no_reference_identity", "C12_doubled", "C12_braced", "C12_bare_longest", "C12_python_named", "C12_python_number", "C12_python_stray", "C12_default_stray", "C12_named_number", "C12_number_in_range", "C12_number_absent", "C12_check_complete"]
SYMS = ["$", "{", "}", "\\", "g", "<", ">", "0", "1", "9", "x", "_", "é", " ", "-", "n"]
SETUPS = [
    ("(?<x>a)(b)?(?<_9>c)?(?<n>é)", "acé"),
    ("(a)(é)(b)?", "aé"),
    ("(?<x1>a)|(?<g>b)", "b"),
    ("a", "a"),
    ("(?<n1>a)(?<n>b)(c)?(d)?(e)?(f)?(g)?(h)?(i)?(j)", "abj"),
]


def templates(tier, seed):
    r = core.rng(seed, "C12")
    out = ["", "$", "$$", "${x}", "$x", "$1", "${1}a", "$1a", "\\g<x>", "\\1", "\\\\", "${", "${}", "$é", "${-1}", "\\g<-1>", "$-1", "${x", "$x}", "$10", "\\10", "$9", "${_9}", "$_9 ", "$$$", "a$", "$ x", "${n}é", "$né", "\\g<n>é", "$18446744073709551616", "$18446744073709551615", "${18446744073709551616}", "$01", "${01}", "\\18446744073709551616", "\\18446744073709551615x", "\\g<18446744073709551616>", "\\g<01>", "\\01", "\\1é", "\\q", "\\gx", "\\g<x", "$é1",
           # runs of the substitution character before a reference
           "$$$1", "$$$$", "$$${x}", "$$$$$1", "$$$x", "a$$$$b", "\\\\\\1", "\\\\\\\\", "\\\\\\g<x>"]
    n = 3 if tier == "quick" else 5
    for k in range(1, n + 1):
        if k <= (3 if tier == "quick" else 4):
            out += ["".join(x) for x in itertools.product(SYMS, repeat=k)]
        else:
            out += ["".join(r.choice(SYMS) for _ in range(k)) for _ in range(200000)]
    out += ["".join(r.choice(SYMS) for _ in range(r.randint(4, 12))) for _ in range(3000 if tier == "quick" else 100000)]
    return list(dict.fromkeys(out))


def run(tier, seed, replay=None):
    res = core.Result("C12", tier, seed)
    obligations, closed, log = core.coq_property("C12", THEOREMS)
    proof_ok = all([res.oblige(n, ok) for n, ok in obligations])
    core.build_ocaml()
    core.build_harness()
    tps = [replay["template"]] if replay and "template" in replay else templates(tier, seed)
    ilines, meta = [], []
    for kind in ("d", "p"):
        for si, (pat, text) in enumerate(SETUPS):
            if tier == "quick" and si >= 3 and not replay:
                sub = tps[::7]
            else:
                sub = tps
            for t in sub:
                ilines.append("%s\t%s\t%s\t%s" % (kind, hexs(t), hexs(pat), hexs(text)))
                meta.append((kind, t, pat, text))
    iout = core.run_impl("expand", ilines)
    mlines = []
    for (kind, t, pat, text), o in zip(meta, iout):
        f = engine.fields(o)
        mlines.append("%s\t%s\t%s\t%s\t%s\t%s" % (kind, hexs(t), hexs(text), f.get("saves", "M,M"), f.get("names", "-"), f.get("caplen", "1")))
    mout = core.run_model("expand", mlines)
    bad, viol = [], []
    kinds = {}
    nontriv = set()
    for (kind, t, pat, text), a, b in zip(meta, iout, mout):
        fa, fb = engine.fields(a), engine.fields(b)
        k = fa.get("check", "?")
        kinds[k] = kinds.get(k, 0) + 1
        if fa.get("exp") != hexs(t):
            nontriv.add((kind, t))
        if (fa.get("exp"), fa.get("check"), fa.get("esc")) != (fb.get("exp"), fb.get("check"), fb.get("esc")):
            bad.append({"expander": kind, "template": t, "pattern": pat, "text": text, "impl": a, "model": b})
        # the property's own clauses, on the real expander alone
        esc = fa.get("esc", "::").split(":")
        if "WRITERS_DIFFER" in a or "PANIC" in a:
            viol.append({"kind": "input", "expander": kind, "template": t, "pattern": pat, "text": text, "impl": a, "check": "the writer entry points agree and do not panic"})
        elif len(esc) == 3 and esc[2] != "1":
            viol.append({"kind": "input", "expander": kind, "template": t, "pattern": pat, "text": text, "impl": a, "check": "expansion(escape(s)) = s"})
        elif len(esc) == 3 and (esc[1] == "1") != (("$" if kind == "d" else "\\") not in t):
            viol.append({"kind": "input", "expander": kind, "template": t, "impl": a, "check": "escape borrows iff nothing to escape"})
    tie_ok = res.oblige("tie:T3 expansion (4 writer entry points + Captures::expand), check and escape round-trip, model = implementation on %d (expander, template, captures) cases" % len(meta), not bad)
    res.oblige("property: escape round-trip / borrow flag / writers agree, on the real expander", not viol)
    res.cov.update(evaluations=len(meta), distinct_nontrivial=len(nontriv),
                   rule="templates = corpus + all strings up to a fixed length over {$,{,},\\,g,<,>,0,1,9,x,_,e-acute,space,-,n} + seeded random longer ones; x both expanders x capture setups with named, numbered and unmatched groups; non-trivial = the expansion differs from the template; distinct by (expander, template)",
                   samples=[{"expander": m[0], "template": m[1], "pattern": m[2]} for m in (meta[0], meta[len(meta) // 2], meta[-1])],
                   exhaustive=False)
    res.notes.update(check_outcomes=kinds, theorem_assumptions=closed, templates=len(tps))
    res.assumptions = ["is_alphanumeric is modelled on the harness alphabet (ASCII, e-acute, Cyrillic zhe)", "the clause 'the step sequence follows the documented $-syntax' is established by the correspondence with the real expander plus the escape/check theorems, not by a separate theorem"]
    broken = [n for n, ok in res.obligations if not ok]
    if viol:
        viol.sort(key=lambda v: len(v["template"]))
        res.violation(dict(viol[0], broken=broken))
    elif bad:
        # a disagreement between the model (= documented behaviour) and the code: the model's
        # answer is the documented one, so the shortest disagreeing template is the failing input
        bad.sort(key=lambda v: len(v["template"]))
        res.violation(dict(bad[0], kind="input", broken=broken, check="expansion/check follows the documented syntax (model of the documentation)"))
    elif broken:
        res.violation({"kind": "obligation", "broken": broken, "coq_log_tail": log[-1500:]}, no_input=True)
    return res.finish("make -C coq Properties/C12.vo && coqc -Q coq FR coq/Properties/C12.v ; ocaml/frmodel expand vs harness/target/release/frh expand")
