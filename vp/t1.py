"""T1 tier: the real parser (Expr::parse_tree through the harness) vs the parser model."""
import re
from . import core, engine


def norm(line):
    d = engine.fields(line)
    if "tree" in d:
        tree = re.sub(r"(D[0-9a-f-]+:[0-9M]+:[01]):(?:c[0-9.]*|e)", r"\1:c", d["tree"])
        return "tree=%s bs=%s names=%s" % (tree, d["bs"], d["names"])
    new = d.get("new", "")
    if "Parse:" in new or "NamedBackrefOnly" in new:
        return "new=" + new
    return line


def compare(patterns):
    hx = [core.hexs(p) for p in patterns]
    impl = core.run_impl("prog", hx)
    model = core.run_model("parse", hx)
    bad, kinds = [], {}
    for p, a, b in zip(patterns, impl, model):
        na, nb = norm(a), norm(b)
        k = "tree" if na.startswith("tree=") else (na.split(":")[2] if na.count(":") > 1 else na[:20])
        kinds[k] = kinds.get(k, 0) + 1
        if na != nb:
            bad.append({"pattern": p, "impl": na[:600], "model": nb[:600]})
    return bad, kinds, impl
