from . import engprop, apiprops
CFG = apiprops.cfg("C09", ["C09_next_agree", "C09_iters_agree", "C09_get0"], [apiprops.api_extra("C09")])


def run(tier, seed, replay=None):
    return engprop.run(CFG, tier, seed, replay)
