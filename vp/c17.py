from . import miscprops


def run(tier, seed, replay=None):
    return miscprops.run_c17(tier, seed, replay)
