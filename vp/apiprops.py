"""C08-C11, C16 (API layer): ties of the API model to the real crate and the properties
evaluated directly on the real crate's outputs."""
from . import core, gen, engine, engprop
from .core import hexs

TEMPLATES = [("T", "x"), ("N", "x"), ("C", "x"), ("I", ""), ("T", "[$0]"), ("T", "$1-"), ("T", "${1}$$"), ("T", "<$n1>"), ("T", ""), ("N", "$1"), ("T", "$$$1"), ("T", "$$$$")]


def probes_for(info, t, splitn=(0, 1, 2, 3, 5), limits=(0, 1, 2, 3)):
    bs = gen.boundaries(t)
    p = ["is_match", "meta", "find_iter", "caps_iter", "split"]
    p += ["find:%d" % b for b in bs] + ["caps:%d" % b for b in bs]
    p += ["splitn:%d" % k for k in splitn]
    for lim in limits:
        for kind, arg in TEMPLATES:
            p.append("replacen:%d:%s:%s" % (lim, kind, hexs(arg)))
    return " ".join(p)


def parse_items(s):
    """'0-1;2-2;ERR:..' -> list of ('ok',a,b) / ('err',kind) ; '-' -> []"""
    if s == "-":
        return []
    out = []
    for x in s.split(";"):
        if x.startswith("ERR") or x in ("PANIC", "RUNAWAY") or x.startswith("AFTER_ERR") or x == "FUEL":
            out.append(("err", x))
        else:
            y = x.split(",")[0]
            a, b = y.split("-")
            out.append(("ok", int(a), int(b), x))
    return out


def next_utf8(tb, i):
    if i >= len(tb):
        return i + 1
    b = tb[i]
    return i + (1 if b < 0x80 else 2 if b < 0xE0 else 3 if b < 0xF0 else 4)


def ref_iteration(tb, sem0, sem1, bs):
    """the sentence of C08 over the reference search: sem0/sem1 map offset -> (a,b) or None"""
    out = []
    last_end, last_match = 0, None
    guard = 0
    while last_end <= len(tb) and guard < len(tb) + 5:
        guard += 1
        skipped = last_match is not None and last_end > last_match
        m = (sem1 if skipped else sem0).get(last_end, "missing")
        if m == "missing":
            return None
        if m is None:
            break
        a, b = m
        if a == b:
            last_end = next_utf8(tb, b)
            if last_match == b:
                continue
        else:
            last_end = b
        last_match = b
        out.append((a, b))
    return out


def check_sequence(items, tlen):
    """strictly increasing, non-overlapping, never before the previous end, Err last"""
    prev = None
    for k, it in enumerate(items):
        if it[0] == "err":
            if k != len(items) - 1 or not it[1].startswith("ERR:Runtime"):
                return "item after Err / bad item: %s" % (it[1],)
            continue
        a, b = it[1], it[2]
        if not (0 <= a <= b <= tlen):
            return "span out of range %d-%d" % (a, b)
        if prev is not None:
            if a < prev[1]:
                return "starts before previous end"
            if a <= prev[0]:
                return "not strictly increasing"
        prev = (a, b)
    return None


def pieces_between(items, tlen):
    out, ns = [], 0
    for it in items:
        if it[0] == "err":
            return out + [it[1]] + ["%d-%d" % (ns, tlen)]
        out.append("%d-%d" % (ns, it[1]))
        ns = it[2]
    return out + ["%d-%d" % (ns, tlen)]


def eval_api_properties(prop, ctx, records, limit):
    """records: list of ((info, text, probes), impl_output_line)"""
    bad = []
    n = 0
    for (info, t, pr), line in records:
        tb = t.encode("utf-8")
        names = pr.split(" ")
        vals = line.split("\t")[1:]
        if len(vals) != len(names):
            bad.append({"kind": "input", "pattern": info["pattern"], "text": t, "check": "harness line", "impl": line[:300]})
            continue
        d = dict(zip(names, vals))
        wr = [(k, v) for k, v in d.items() if "!WRAPPER" in v]
        if wr:
            # the harness found a convenience entry point (find, captures, replace*, from_str, Index,
            # a Replacer impl, an iterator accessor) that disagrees with the entry point it wraps
            if prop in ("C09", "C10", "C11", "C16", "C05", "C08"):
                bad.append({"kind": "input", "pattern": info["pattern"], "text": t, "limit": limit, "check": "wrapper entry point = the entry point it wraps: " + wr[0][1].split("!WRAPPER:")[1],
                            "impl": wr[0][1], "reference": "probe " + wr[0][0] + " without the marker"})
            continue
        fi = parse_items(d["find_iter"])
        ci = parse_items(d["caps_iter"])
        tlen = len(tb)
        n += 1
        kf = engprop.classify(prop, info)

        def report(check, impl, ref):
            rec = {"kind": "input", "pattern": info["pattern"], "text": t, "limit": limit, "check": check, "impl": impl, "reference": ref}
            if kf:
                ctx["known_hits"].setdefault(kf["id"], []).append(rec)
            else:
                bad.append(rec)
        if prop in ("C05", "C08"):
            e = check_sequence(fi, tlen)
            if e:
                report("find_iter order/fusedness: " + e, d["find_iter"], "strictly increasing, non-overlapping, Err last")
            if any(v == "PANIC" or "RUNAWAY" in v for v in vals):
                report("no panic / termination", [k for k, v in d.items() if v == "PANIC" or "RUNAWAY" in v][:3], "a value or Err")
        if prop == "C09":
            f0, c0 = d.get("find:0"), d.get("caps:0")
            im = d["is_match"]
            if not im.startswith("ERR") and not f0.startswith("ERR") and not c0.startswith("ERR"):
                if (im == "1") != (f0 != "none") or (f0 != "none") != (c0 != "none"):
                    report("is_match <=> find <=> captures", [im, f0, c0], "all agree")
            for b in gen.boundaries(t):
                f, c = d["find:%d" % b], d["caps:%d" % b]
                if f.startswith("ERR") or c.startswith("ERR"):
                    continue
                if (f == "none") != (c == "none") or (f != "none" and c.split(",")[0] != f):
                    report("captures_from_pos(t,%d).get(0) = find_from_pos(t,%d)" % (b, b), [f, c], "equal")
            if [x[1:3] if x[0] == "ok" else x for x in fi] != [x[1:3] if x[0] == "ok" else x for x in ci]:
                report("captures_iter spans = find_iter spans", d["caps_iter"], d["find_iter"])
        if prop == "C16" and "=" not in d["meta"]:
            report("captures_len / capture_names return normally", d["meta"], "a value")
        elif prop == "C16":
            m = dict(x.split("=", 1) for x in d["meta"].split(";"))
            ng = sum(1 for tk in info["impl"]["tree"].split(" ") if tk == "G")
            if int(m["len"]) != ng + 1 or int(m["n"]) != ng + 1:
                report("captures_len / capture_names count = 1 + groups", d["meta"], str(ng + 1))
            if m["names"] != info["impl"]["names"]:
                report("capture_names at the parser's group indices", m["names"], info["impl"]["names"])
            for k, v in d.items():
                if "INCONSISTENT" in v:
                    report("Captures accessors (len/iter/get/name/get(0)/oob)", v, "consistent")
                if k.startswith("caps:") and v not in ("none",) and not v.startswith("ERR") and "INCONS" not in v and len(v.split(",")) != ng + 1:
                    report("Captures::len = captures_len", v, str(ng + 1))
        if prop == "C10":
            want = pieces_between(fi, tlen)
            got = [] if d["split"] == "-" else d["split"].split(";")
            if got != want:
                report("split = pieces between find_iter matches", d["split"], ";".join(want))
            if all(x[0] == "ok" for x in fi):
                for k in (0, 1, 2, 3, 5):
                    g = d.get("splitn:%d" % k)
                    if g is None:
                        continue
                    g = [] if g == "-" else g.split(";")
                    if k == 0:
                        w = []
                    else:
                        w = want[:k - 1]
                        if len(want) > k - 1:
                            st = int(want[k - 1].split("-")[0])
                            w = w + ["%d-%d" % (st, tlen)]
                    if g != w:
                        report("splitn(%d)" % k, ";".join(g), ";".join(w))
        if prop == "C11":
            for name in names:
                if not name.startswith("replacen:"):
                    continue
                _, lim, kind, arg = name.split(":")
                lim = int(lim)
                got = d[name]
                seq = ci if (kind in ("C", "I") or (kind == "T" and b"$" in core.unhex(arg))) else fi
                # constant replacers only: the spliced text is computable here
                if kind in ("N", "C") or (kind == "T" and b"$" not in core.unhex(arg)):
                    repb = core.unhex(arg)
                    exp = expected_replace(tb, seq, lim, lambda it: repb)
                elif kind == "I":
                    exp = expected_replace(tb, seq, lim, lambda it: tb[it[1]:it[2]])
                else:
                    continue
                if got != exp:
                    report("try_replacen(limit=%d, %s)" % (lim, kind), got, exp)
            # template without '$' == NoExpand == closure
            for lim in (0, 1, 2, 3):
                a = d.get("replacen:%d:T:%s" % (lim, hexs("x")))
                b = d.get("replacen:%d:N:%s" % (lim, hexs("x")))
                c = d.get("replacen:%d:C:%s" % (lim, hexs("x")))
                if a is not None and not (a == b == c):
                    report("template without $ == NoExpand == closure (limit %d)" % lim, [a, b, c], "identical")
    return n, bad


def expected_replace(tb, seq, lim, repf):
    if not seq:
        return "B"
    out, last = b"", 0
    for i, it in enumerate(seq):
        if it[0] == "err":
            return it[1]
        if lim > 0 and i >= lim:
            break
        if it[1] < last:
            return "PANIC"
        out += tb[last:it[1]] + repf(it)
        last = it[2]
    out += tb[last:]
    return "O:" + (out.hex() or "-")


def api_extra(prop, limits=("-", "0", "1", "2", "3", "5")):
    def fn(ctx):
        res, infos, texts_for = ctx["res"], ctx["infos"], ctx["texts_for"]
        total, allbad, tie_bad = 0, [], []
        for lim in limits:
            n, mism, records = engine.api_tie(infos, texts_for, lambda i, t: probes_for(i, t), limit=lim)
            total += n
            tie_bad += [dict(m, limit=lim) for m in mism]
            k, bad = eval_api_properties(prop, ctx, records, lim)
            allbad += bad
            ctx["nontrivial"] += sum(1 for _, line in records if ";" in line)
        ctx["evals"] += total
        ok = res.oblige("tie:T3 public API (is_match, find, captures, find_iter, captures_iter, split, splitn, replacen x replacers) under backtrack limits %s, model = implementation on %d probe results" % (",".join(limits), total), not tie_bad)
        if not ok:
            ctx["tie_fail"].append(dict(tie_bad[0], tier="T3-api"))
        res.oblige("property: %s evaluated on the real crate's outputs" % prop, not allbad)
        if allbad:
            allbad.sort(key=lambda m: (len(m["pattern"]), len(m["text"])))
            ctx["violations"].append(allbad[0])
    return fn


def c08_reference(ctx):
    """find_iter vs the reference iteration over Sem (skipped-empty-match flag included)"""
    res, infos, texts_for = ctx["res"], ctx["infos"], ctx["texts_for"]
    ilines, m0, m1, meta = [], [], [], []
    for info in infos:
        if engine.ngroups_of(info) is None or info["model"] is None or info["model"].get("f1") == "1":
            continue
        for t in texts_for(info):
            bs = gen.boundaries(t)
            ilines.append("%s\t%s\t-\t0\tfind_iter" % (hexs(info["pattern"]), hexs(t)))
            for fl, dst in (("0", m0), ("1", m1)):
                dst.append("%s\t%s\t%s\t%s\t%s" % (info["impl"]["tree"], info["impl"]["bs"], hexs(t), ",".join(map(str, bs)), fl))
            meta.append((info, t, bs))
    io = core.run_impl("api", ilines)
    o0 = core.run_model("sem", m0)
    o1 = core.run_model("sem", m1)
    bad = []
    for (info, t, bs), a, x0, x1 in zip(meta, io, o0, o1):
        def tomap(x):
            d = {}
            for p, s in zip(bs, x.split(";")):
                if s == "N":
                    d[p] = None
                else:
                    v = s[2:].split(",")
                    d[p] = (int(v[0]), int(v[1]))
            return d
        try:
            ref = ref_iteration(t.encode("utf-8"), tomap(x0), tomap(x1), bs)
        except Exception:
            ref = None
        got = a.split("\t")[1] if "\t" in a else a
        items = parse_items(got) if not got.startswith("new=") else None
        if ref is None or items is None:
            continue
        g = [(i[1], i[2]) for i in items if i[0] == "ok"]
        if g != ref or any(i[0] == "err" for i in items):
            rec = {"kind": "input", "pattern": info["pattern"], "text": t, "check": "find_iter = reference iteration over Sem", "impl": got, "reference": ";".join("%d-%d" % x for x in ref)}
            kf = engprop.classify("C08", info)
            if kf:
                ctx["known_hits"].setdefault(kf["id"], []).append(rec)
            else:
                bad.append(rec)
    ctx["evals"] += len(meta)
    res.oblige("property: find_iter = successive reference (Sem) matches with the documented stepping, %d texts" % len(meta), not bad)
    if bad:
        bad.sort(key=lambda m: (len(m["pattern"]), len(m["text"])))
        ctx["violations"].append(bad[0])


FE = [gen.Feats(contg=True), gen.Feats(contg=True, cond=True, named=True), gen.Feats(nullable_star=True, contg=True)]


def cfg(prop, theorems, extras, **kw):
    c = {"prop": prop, "theorems": theorems, "feats": FE, "n_quick": 150, "n_thorough": 3000,
         "tiers": ("t2",), "k_base_quick": 8, "k_extra_quick": 5, "k_base_thorough": 40, "k_extra_thorough": 25,
         "extras": extras, "quick_products": 120,
         "corpus": ["\\G\\d*", "a|(?<=\\Ka)b", "a(?=b\\Kc)", "\\w(?=\\w\\K)", "(?=a\\K)ab", "a\\Kb|b", "a*", "(?<=a)|b", "\\b", "(?:a|b)*?", "(?=a)", "$", "(x+x+)+(?=y)|$", "", "^", "(?!x)", "é*", "\\d*(?=é)"],
         "extra_texts": ["12 34", "", "é", "aé", "xxy xxxx", "a,é", "éé", "aaa", "ab", "abc", "héé x", "aab"],
         "alpha": ["a", "b", "é", "-", "1"],
         "assumptions": ["the API theorems are over any search function satisfying SearchOK; for VM-compiled patterns inside the end-to-end theorem with no \\K under a look-behind the compiled search is PROVED to satisfy it at every character boundary, and the iterators are proved to search from boundaries only (Proofs/ApiVm.v, KeepOut.v: the *_vm_* theorems); for wholly-easy patterns the search is regex-automata's (oracle)"]}
    c.update(kw)
    return c
