import importlib, json, os, sys, time, traceback
from . import core


def setup():
    t0 = time.time()
    core.gen_consts()
    rc, out, _ = core.sh("coq_makefile -f _CoqProject -o Makefile", cwd=core.COQ)
    rc, out, dt = core.coq_make(clean=True, timeout=5400)
    if rc != 0:
        print(out[-3000:])
        print("SETUP: coq build failed")
        return 2
    core.build_ocaml()
    core.build_harness()
    print("SETUP ok in %.0fs" % (time.time() - t0))
    return 0


def main(argv):
    if len(argv) >= 1 and argv[0] == "--setup":
        return setup()
    if len(argv) < 2:
        print("usage: ./check --setup | ./check Cnn --quick|--thorough|--replay <file>")
        return 2
    prop, mode = argv[0], argv[1]
    seed = int(os.environ.get("VERIF_SEED", "1"))
    tier = "thorough" if mode == "--thorough" else "quick"
    tier = os.environ.get("VERIF_TIER", tier) if mode not in ("--quick", "--thorough") else tier
    replay = None
    if mode == "--replay":
        replay = json.load(open(argv[2]))
        tier = "quick"
    mod = importlib.import_module("vp." + prop.lower())
    try:
        try:
            core.gen_consts()
        except Exception as e:
            from .gen_consts import TieError
            if not isinstance(e, TieError) or not os.path.exists(os.path.join(core.COQ, "Generated", "Consts.v")):
                raise
            # the translator cannot read a constant / table in its expected shape: the model keeps the
            # constants of the last successful translation, the obligation stays undischarged, and the
            # ties and the reference search below look for a concrete input on which the property fails
            core.PRE_BROKEN.append("tie:translator " + str(e))
        return mod.run(tier, seed, replay=replay)
    except core.BuildError as e:
        # a broken build of the machinery or of /repo with hooks: the property is not shown
        res = core.Result(prop, tier, seed)
        res.oblige("build:" + e.what, False)
        res.cov.update(evaluations=1, distinct_nontrivial=0, rule="build failed before any case ran", samples=[e.what])
        res.violation({"kind": "build", "broken": [e.what], "log_tail": e.log[-3000:]}, no_input=True)
        return res.finish("n/a")
    except core.ImplHang as e:
        # the model (which runs on fuel) answers this input, the real crate does not return
        res = core.Result(prop, tier, seed)
        res.oblige("implementation returns on every generated input (no answer within %.0fs)" % core.STALL_S, False)
        f = e.line.split("\t")
        dec = []
        for x in f[:2]:
            try:
                dec.append(core.unhex(x).decode("utf-8"))
            except Exception:
                dec.append(x)
        res.cov.update(evaluations=1, distinct_nontrivial=1, rule="the run was cut at the first input on which the implementation did not return", samples=[e.line[:300]])
        res.violation({"kind": "input", "check": "the implementation returns (the model answers this input within its fuel)", "mode": e.mode,
                       "pattern": dec[0] if dec else "", "text": dec[1] if len(dec) > 1 else "", "harness_line": e.line,
                       "how": "printf '%s\\n' '<harness_line>' | harness/target/release/frh " + e.mode}, no_input=False)
        return res.finish("n/a")
    except Exception as e:
        from .gen_consts import TieError
        if isinstance(e, TieError):
            res = core.Result(prop, tier, seed)
            res.oblige("tie:translator " + str(e), False)
            res.cov.update(evaluations=1, distinct_nontrivial=0, rule="translator failed", samples=[str(e)])
            res.violation({"kind": "tie", "broken": [str(e)]}, no_input=True)
            return res.finish("n/a")
        traceback.print_exc()
        return 3


if __name__ == "__main__":
    sys.exit(main(sys.argv[1:]))
