"""C15 — conditionals."""
from . import engprop, gen

F = [gen.Feats(cond=True), gen.Feats(cond=True, named=True), gen.Feats(cond=True, look=False, atomic=False), gen.Feats(cond=True, refs_closed=False)]
CFG = {
    "prop": "C15", "theorems": ["C15_reference_conditional", "C15_conditional_follows_reference", "C15_conditional_follows_reference_all", "C15_nested_conditional_refuted"], "feats": F, "n_quick": 600, "n_thorough": 12000, "products": False,
    "tiers": ("t2", "run", "sem"), "k_base_quick": 14, "k_extra_quick": 8, "k_base_thorough": 80, "k_extra_thorough": 40,
    "corpus": ["(?((?(b)a))b|a)", "^(\\()?a+(?(1)\\))$", "^(?(a)ab)\\w+$", "^(?(a+)ab)$", "^(?:(x)y(?(1)z))+$", "^(a)(?(1)b)c$", "^(?>(x)(?(1)y))z$",
               "(a)?(?(1)b|c)", "(?(1)a|b)", "(a)(?(1))", "(?<n>a)?(?(<n>)b|c)", "(?:(a)|b)(?(1)c|d)", "((?(2)a|b)(c)?)*", "(?(?=a)ab|c)", "(?(?!a)b|a)c",
               # a condition on the group it sits inside, across iterations of a repeat
               "(x)?(?(1)|b)", "^(?(a)|b)$", "(?<n>x)?(?(<n>)|b)c", "(x)?(?(1)|b|c)", "(?:(x)?(?(1)|b))+c", "(?((?(a)|b))c|d)", "^(x)?(?(1)a*|b)a$", "^(x)?(?(1)c|a|ab)c$", "^(?(x)a*|b)a$",
               "(?:x((?(1)a|b)))+", "((?(1)a|b))+", "(x(?(1)a|b))+", "(?:(a)|b(?(1)c|d))+", "(?:x((?(1)a|b))y?)*", "(?:(x)|((?(2)a|b)))+", "((?(1)x|a))*?b", "(a|(?(1)b|c)x)+"],
    "extra_texts": ["(a", "(a)", "ab", "ac", "abc", "bc", "cb", "aab", "xyzxy", "xyz", "5x", "b", "bc", "xb", "xaa", "xaac", "xaxa", "xbxa", "xaxb", "xbxaxa", "bdc", "aab", "baxb"],
    "alpha": ["a", "b", "c", "x", "-"],
}


def run(tier, seed, replay=None):
    return engprop.run(CFG, tier, seed, replay)
