"""Shared machinery of the checks: building the Coq development, the extracted OCaml model and
the Rust harness; running both sides on the same cases; evidence, replays, known findings."""
import hashlib, json, os, random, re, subprocess, sys, time, shutil
from concurrent.futures import ThreadPoolExecutor

ROOT = os.path.dirname(os.path.dirname(os.path.abspath(__file__)))
REPO = os.environ.get("VERIF_REPO", "/repo")
COQ = os.path.join(ROOT, "coq")
OCAML = os.path.join(ROOT, "ocaml")
HARNESS = os.path.join(ROOT, "harness")
BUILD = os.path.join(ROOT, "_build")          # untracked scratch: logs, case files
FRH = os.path.join(HARNESS, "target", "release", "frh")
FRMODEL = os.path.join(OCAML, "frmodel")
NPROC = min(16, os.cpu_count() or 4)

ENV = dict(os.environ, CARGO_NET_OFFLINE="true")
ENV.pop("RUSTFLAGS", None)

FORBIDDEN = re.compile(
    r"\b(Admitted|admit|Axiom|Axioms|Parameter|Parameters|Conjecture|Conjectures|Hypothesis|Hypotheses|Variable|Variables|Unset\s+Guard|bypass_check|type-in-type|impredicative-set|Admit\s+Obligations)\b")

TRUSTED_BASE = [
    "Coq 8.16.1 kernel (coqc); vm_compute in Examples and *_refuted witnesses; no native_compute",
    "axioms: none (every property theorem prints 'Closed under the global context')",
    "extraction: ExtrOcamlBasic only (bool/option/list/prod/unit/sumbool); nat, N, positive stay inductive; OCaml 4.13.1; hand-written ocaml/driver.ml",
    "translator vp/gen_consts.py (regex-level reading of /repo/src/*.rs into coq/Generated/Consts.v)",
    "Rust harness /verif/harness (catch_unwind, hooks behind --cfg fancy_regex_verif) and the Python differ vp/",
    "modelled, not verified: regex-automata / regex-syntax (oracle), Unicode tables on the harness alphabet, Vec/String as lists, allocation and native stack",
]


def sh(cmd, cwd=None, timeout=3600, env=None, input=None):
    t0 = time.time()
    p = subprocess.run(cmd, cwd=cwd, shell=isinstance(cmd, str), stdout=subprocess.PIPE,
                       stderr=subprocess.STDOUT, timeout=timeout, env=env or ENV,
                       input=input, text=True)
    return p.returncode, p.stdout, time.time() - t0


class BuildError(Exception):
    def __init__(self, what, log):
        super().__init__(what)
        self.what, self.log = what, log


# ---------------------------------------------------------------- Coq

def coq_sources():
    out = []
    for d, _, fs in os.walk(COQ):
        for f in fs:
            if f.endswith(".v") and not f.startswith("Dbg_"):
                out.append(os.path.join(d, f))
    return sorted(out)


def strip_comments(src):
    res, depth, i, n = [], 0, 0, len(src)
    while i < n:
        if src.startswith("(*", i):
            depth += 1; i += 2
        elif src.startswith("*)", i) and depth > 0:
            depth -= 1; i += 2
        else:
            if depth == 0:
                res.append(src[i])
            i += 1
    return "".join(res)


def forbidden_scan():
    """No Admitted/admit/Axiom/Parameter/... anywhere in the development (comments stripped).
    Section-local Variable/Hypothesis/Context inside Section..End are allowed."""
    bad = []
    for f in coq_sources():
        if os.path.basename(os.path.dirname(f)) == "Generated" and False:
            continue
        src = strip_comments(open(f).read())
        depth = 0
        for ln, line in enumerate(src.split("\n"), 1):
            if re.match(r"\s*Section\b", line):
                depth += 1
            if re.match(r"\s*End\b", line) and depth > 0:
                depth -= 1
            for m in FORBIDDEN.finditer(line):
                w = m.group(1)
                if depth > 0 and re.match(r"(Variable|Variables|Hypothesis|Hypotheses)$", w):
                    continue
                bad.append("%s:%d: %s" % (os.path.relpath(f, ROOT), ln, line.strip()))
    return bad


def gen_consts():
    from . import gen_consts as g
    return g.generate(REPO, os.path.join(COQ, "Generated", "Consts.v"))


def coq_make(targets=None, clean=False, timeout=3000):
    os.makedirs(BUILD, exist_ok=True)
    if clean or not os.path.exists(os.path.join(COQ, "Makefile")):
        rc, out, _ = sh("coq_makefile -f _CoqProject -o Makefile", cwd=COQ)
        if rc != 0:
            raise BuildError("coq_makefile", out)
    if clean:
        sh("make clean", cwd=COQ)
    tg = " ".join(targets) if targets else ""
    rc, out, dt = sh("timeout %d make -j%d %s" % (timeout, NPROC, tg), cwd=COQ, timeout=timeout + 60)
    open(os.path.join(BUILD, "coq_make.log"), "w").write(out)
    return rc, out, dt


def coq_property(prop, theorems):
    """Re-check the pinned theorems of Properties/<prop>.v: builds its dependencies, recompiles the
    property file itself (capturing Check / Print Assumptions output) and returns
    (obligations, discharged, details, log)."""
    obligations = []
    if not os.path.exists(os.path.join(COQ, "Properties", prop + ".v")):
        rc, out, _ = coq_make(["Extract.vo"])
        return [("build:coq model (no property file yet for %s)" % prop, rc == 0)], {}, out
    rc, out, _ = coq_make(["Properties/%s.vo" % prop])
    dep_ok = (rc == 0)
    obligations.append(("build:Properties/%s.vo and everything it depends on" % prop, dep_ok))
    log = out
    closed = {}
    if dep_ok:
        rc2, out2, _ = sh("timeout 900 coqc -Q . FR Properties/%s.v" % prop, cwd=COQ, timeout=1000)
        log += out2
        ok2 = (rc2 == 0)
        # Print Assumptions output, in order
        blocks = re.findall(r"(Closed under the global context|Axioms:\n(?:.+\n?)+?)(?=\n\S|\Z)", out2)
        n_pa = len(re.findall(r"^\s*Print Assumptions\s+(\w+)", open(os.path.join(COQ, "Properties", prop + ".v")).read(), re.M))
        names = re.findall(r"^\s*Print Assumptions\s+(\w+)", open(os.path.join(COQ, "Properties", prop + ".v")).read(), re.M)
        n_closed = out2.count("Closed under the global context")
        has_axioms = "Axioms:" in out2
        for t in theorems:
            obligations.append(("theorem:%s re-checked by coqc (statement pinned by Check)" % t, ok2 and t in names))
        obligations.append(("assumptions: %d Print Assumptions, all 'Closed under the global context'" % n_pa,
                            ok2 and n_closed == n_pa and not has_axioms and n_pa >= len(theorems)))
        closed = {"print_assumptions": names, "closed": n_closed, "axioms_reported": has_axioms}
    bad = forbidden_scan()
    obligations.append(("scan: no Admitted/admit/Axiom/Parameter/Conjecture/Unset Guard/bypass_check in coq/", not bad))
    if bad:
        log += "\nFORBIDDEN:\n" + "\n".join(bad)
    return obligations, closed, log


# ---------------------------------------------------------------- OCaml model

STALE_MODEL = [False]


def build_ocaml():
    """(re)build the extracted model.  If the Coq development no longer builds (a broken proof
    obligation or translator tie) but a model binary from the last good build exists, that
    binary is used for the witness search: the obligation failure is reported separately."""
    rc, out, _ = coq_make(["Extract.vo"])
    if rc != 0:
        if os.path.exists(FRMODEL):
            STALE_MODEL[0] = True
            return
        raise BuildError("coq extraction", out)
    changed = False
    for f in ("model.ml", "model.mli"):
        src, dst = os.path.join(COQ, f), os.path.join(OCAML, f)
        if not os.path.exists(src):
            # Extract.vo was up to date from a previous build but its outputs were removed
            os.remove(os.path.join(COQ, "Extract.vo"))
            rc, out, _ = coq_make(["Extract.vo"])
            if rc != 0 or not os.path.exists(src):
                raise BuildError("coq extraction", out)
        if not os.path.exists(dst) or open(src).read() != open(dst).read():
            shutil.copy(src, dst); changed = True
    drv = os.path.join(OCAML, "driver.ml")
    if changed or not os.path.exists(FRMODEL) or os.path.getmtime(drv) > os.path.getmtime(FRMODEL):
        rc, out, _ = sh("ocamlfind ocamlopt -O2 -w -a -package str -linkpkg model.mli model.ml driver.ml -o frmodel",
                        cwd=OCAML, timeout=900)
        if rc != 0:
            raise BuildError("ocaml build", out)


# ---------------------------------------------------------------- Rust harness

def build_harness():
    lock_src, lock_dst = os.path.join(REPO, "Cargo.lock"), os.path.join(HARNESS, "Cargo.lock")
    if os.path.exists(lock_src) and not os.path.exists(lock_dst):
        shutil.copy(lock_src, lock_dst)
    rc, out, _ = sh("cargo build --release --offline", cwd=HARNESS, timeout=1800)
    open(os.path.join(BUILD, "cargo_build.log"), "w").write(out)
    if rc != 0:
        raise BuildError("harness build (cargo build --release --offline, --cfg fancy_regex_verif)", out)


class ImplHang(Exception):
    """the real implementation produced no output for STALL_S seconds on one input line"""

    def __init__(self, mode, line):
        Exception.__init__(self, "implementation does not return: frh %s <<< %s" % (mode, line[:200]))
        self.mode, self.line = mode, line


STALL_S = float(os.environ.get("VERIF_STALL_S", "150"))


def _run_lines_watch(exe, mode, lines, extra_args=()):
    """run the harness on the lines with a watchdog: the harness answers line by line (Rust's
    stdout is line-buffered), so a line that gets no answer for STALL_S seconds is a hang of the
    implementation on that input - raised as ImplHang, never waited out"""
    import threading
    res = []
    while len(res) < len(lines):
        rest = lines[len(res):]
        p = subprocess.Popen([exe, mode, *extra_args], stdin=subprocess.PIPE, stdout=subprocess.PIPE,
                             stderr=subprocess.PIPE, text=True, env=ENV)
        got, last = [], [time.time()]

        def feed():
            try:
                p.stdin.write("\n".join(rest) + "\n")
                p.stdin.close()
            except Exception:
                pass

        def read():
            for l in p.stdout:
                got.append(l.rstrip("\n"))
                last[0] = time.time()

        errbuf = []
        te = threading.Thread(target=lambda: errbuf.append(p.stderr.read()), daemon=True)
        tf, tr = threading.Thread(target=feed, daemon=True), threading.Thread(target=read, daemon=True)
        tf.start(); tr.start(); te.start()
        hung = False
        while tr.is_alive():
            tr.join(0.5)
            if tr.is_alive() and time.time() - last[0] > STALL_S:
                hung = True
                p.kill()
                break
        p.wait()
        tr.join(5)
        res.extend(got[:len(rest)])
        if hung:
            raise ImplHang(mode, rest[len(got)] if len(got) < len(rest) else rest[-1])
        if len(got) < len(rest):
            te.join(2)
            err = (errbuf[0] if errbuf else "").strip()[-200:].replace("\n", " ")
            res.append("CRASH rc=%s %s" % (p.returncode, err))
    return res


def _run_lines(exe, mode, lines, timeout, extra_args=()):
    if not lines:
        return []
    if exe == FRH:
        d = os.environ.get("VERIF_DUMP_LINES")      # development aid: keep the inputs fed to the real crate (coverage measurement)
        if d:
            import threading
            os.makedirs(d, exist_ok=True)
            with open(os.path.join(d, "%s.%d.%d.txt" % (mode, os.getpid(), threading.get_ident())), "a") as fh:
                fh.write("\n".join(lines) + "\n")
        return _run_lines_watch(exe, mode, lines, extra_args)
    p = subprocess.run([exe, mode, *extra_args], input="\n".join(lines) + "\n", stdout=subprocess.PIPE,
                       stderr=subprocess.PIPE, text=True, timeout=timeout, env=ENV)
    out = p.stdout.split("\n")
    if out and out[-1] == "":
        out.pop()
    if len(out) != len(lines):
        # a crash (abort/stack overflow) of the process: find the first line that kills it
        res = list(out)
        res.append("CRASH rc=%s %s" % (p.returncode, p.stderr.strip()[-200:].replace("\n", " ")))
        rest = lines[len(res):]
        res.extend(_run_lines(exe, mode, rest, timeout, extra_args))
        return res
    return out


def run_sharded(exe, mode, lines, timeout=1800, shards=None, extra_args=()):
    shards = shards or NPROC
    if len(lines) < 64:
        return _run_lines(exe, mode, lines, timeout, extra_args)
    k = min(shards, max(1, len(lines) // 32))
    size = (len(lines) + k - 1) // k
    chunks = [lines[i:i + size] for i in range(0, len(lines), size)]
    with ThreadPoolExecutor(max_workers=k) as ex:
        outs = list(ex.map(lambda c: _run_lines(exe, mode, c, timeout, extra_args), chunks))
    return [x for o in outs for x in o]


def run_impl(mode, lines, **kw):
    return run_sharded(FRH, mode, lines, **kw)


def run_model(mode, lines, **kw):
    return run_sharded(FRMODEL, mode, lines, **kw)


# ---------------------------------------------------------------- findings, replays, evidence

def load_known():
    p = os.path.join(ROOT, "known_findings.json")
    if not os.path.exists(p):
        return {"findings": [], "fixed": []}
    return json.load(open(p))


def write_replay(prop, payload):
    os.makedirs(os.path.join(ROOT, "replays"), exist_ok=True)
    blob = json.dumps(payload, sort_keys=True, indent=1, ensure_ascii=False)
    h = hashlib.sha1(blob.encode()).hexdigest()[:12]
    path = os.path.join(ROOT, "replays", "%s-%s.json" % (prop, h))
    open(path, "w").write(blob + "\n")
    return path


# obligations that failed before the property's own run started (the translator could not read a
# constant or table out of the source): every Result starts with them, undischarged
PRE_BROKEN = []


class Result:
    """Collected outcome of one check run."""

    def __init__(self, prop, tier, seed):
        self.prop, self.tier, self.seed = prop, tier, seed
        self.t0 = time.time()
        self.obligations = [(n, False) for n in PRE_BROKEN]          # (name, ok)
        self.violations = []           # (replay_path, no_input_found)
        self.known = []                # strings
        self.cov = {"evaluations": 0, "distinct_nontrivial": 0, "rule": "", "samples": []}
        self.assumptions = []
        self.notes = {}

    def oblige(self, name, ok):
        self.obligations.append((name, bool(ok)))
        return bool(ok)

    def violation(self, payload, no_input=False):
        payload = dict(payload, property=self.prop, seed=self.seed, tier=self.tier)
        path = write_replay(self.prop, payload)
        self.violations.append((path, no_input))

    def known_finding(self, text):
        if text not in self.known:
            self.known.append(text)

    def finish(self, checker_cmd):
        ev = {
            "property_id": self.prop, "tier": self.tier, "seed": self.seed, "level": "proof",
            "coverage": dict(self.cov,
                             obligations=len(self.obligations),
                             discharged=sum(1 for _, ok in self.obligations if ok),
                             checker_cmd=checker_cmd,
                             trusted_base=TRUSTED_BASE,
                             obligation_list=[{"name": n, "discharged": ok} for n, ok in self.obligations],
                             **self.notes),
            "assumptions": self.assumptions,
            "wall_s": round(time.time() - self.t0, 2),
            "violations": len(self.violations),
        }
        ev["coverage"]["samples"] = ev["coverage"]["samples"][:8] or ["(none)"]
        os.makedirs(os.path.join(ROOT, "evidence"), exist_ok=True)
        json.dump(ev, open(os.path.join(ROOT, "evidence", self.prop + ".json"), "w"), indent=1, ensure_ascii=False)
        for k in self.known:
            print("KNOWN-FINDING: property=%s %s" % (self.prop, k))
        for path, no_input in self.violations:
            print("VIOLATION property=%s replay=%s%s" % (self.prop, path, " no-failing-input-found" if no_input else ""))
        sys.stdout.flush()
        return 1 if self.violations else 0


def rng(seed, salt=""):
    return random.Random("%s/%s" % (seed, salt))


def hexs(s):
    if isinstance(s, str):
        s = s.encode("utf-8")
    return s.hex() if s else "-"


def unhex(h):
    return b"" if h == "-" else bytes.fromhex(h)
