from . import engprop, apiprops
CFG = apiprops.cfg("C08", ["C08_sorted", "C08_terminates", "C08_step", "C08_fused_after_err", "C08_vm_sorted", "C08_vm_is_reference_iteration", "C08_from_pattern_string", "C08_find_iter_total_from_pattern_string"],
                   [apiprops.api_extra("C08"), apiprops.c08_reference])


def run(tier, seed, replay=None):
    return engprop.run(CFG, tier, seed, replay)
