"""C13 — size facts and look-behind: theorems of Properties/C13.v + T2 tie (model analysis =
real analysis through the facts hook) + every sub-expression's actual match lengths under the
reference semantics against the REAL computed facts + reference differential on look-behind
patterns over multi-byte texts."""
from . import core, gen, engine, engprop
from .core import hexs

THEOREMS = ["C13_sizes_sound", "C13_goback_chars", "C13_exact", "C13_lookbehind_gate"]


def lens_check(ctx):
    res, infos = ctx["res"], ctx["infos"]
    tier = ctx["tier"]
    texts = gen.texts(3 if tier == "quick" else 4, ["a", "b", "é", "\n"])
    if tier == "quick":
        r = core.rng(ctx["seed"], "C13/lens")
        texts = [t for t in texts if len(t) <= 2] + r.sample([t for t in texts if len(t) == 3], 24)
    tx = ",".join(hexs(t) for t in texts)
    lines, meta = [], []
    for info in infos:
        if "facts" not in info["impl"] or "tree" not in info["impl"]:
            continue
        lines.append("%s\t%s\t%s" % (info["impl"]["tree"], info["impl"]["bs"], tx))
        meta.append(info)
    out = core.run_model("lens", lines)
    bad = []
    nodes = 0
    for info, o in zip(meta, out):
        if o.startswith("DRIVER"):
            continue
        facts = info["impl"]["facts"].split(",")
        obs = o.split(",")
        toks = ["C2", "R", "Y1", "G"] + info["impl"]["tree"].split(" ")
        if len(facts) != len(obs):
            bad.append({"kind": "input", "pattern": info["pattern"], "check": "node count", "impl": len(facts), "reference": len(obs)})
            continue
        for k, (f, ob) in enumerate(zip(facts, obs)):
            if ob == "-":
                continue
            nodes += 1
            sg, eg, mn, cst, hard = f.split(":")
            lo, hi = map(int, ob.split(":"))
            mnv = 2 ** 64 - 1 if mn == "M" else int(mn)
            zdel = k < len(toks) and toks[k].startswith("D") and toks[k].endswith(":Z")
            if lo < mnv:
                bad.append({"kind": "input", "pattern": info["pattern"], "node": k, "check": "no sub-expression matches fewer characters than its min_size",
                            "impl": "min_size=%s const_size=%s" % (mn, cst), "reference": "matches %d..%d characters under the reference semantics" % (lo, hi)})
            elif cst == "1" and not zdel and (lo != mnv or hi != mnv):
                bad.append({"kind": "input", "pattern": info["pattern"], "node": k, "check": "a constant-size sub-expression matches exactly min_size characters",
                            "impl": "min_size=%s const_size=1" % mn, "reference": "matches %d..%d characters under the reference semantics" % (lo, hi)})
    ctx["evals"] += nodes
    res.oblige("property: REAL analysis facts (hook) of every sub-expression vs its actual match lengths under Sem on %d (node, text set) pairs" % nodes, not bad)
    res.notes["lens_nodes"] = nodes
    if bad:
        bad.sort(key=lambda m: len(m["pattern"]))
        ctx["violations"].append(bad[0])


def gate_check(ctx):
    """compilation of look-behinds: rejected with LookBehindNotConst exactly when the model says so
    is T2; here: an ACCEPTED look-behind alternative never matches two different lengths (lens)
    and a rejected pattern is rejected with the documented error kind"""
    res, infos = ctx["res"], ctx["infos"]
    bad = []
    n = 0
    for info in infos:
        new = info["impl"].get("new", "")
        if info["model"] is None:
            continue
        n += 1
        mnew = info["model"].get("new", "")
        if ("LookBehindNotConst" in new) != ("LookBehindNotConst" in mnew):
            bad.append({"kind": "input", "pattern": info["pattern"], "check": "look-behind gate", "impl": new, "reference": mnew})
    res.oblige("property: LookBehindNotConst is reported exactly for the patterns the model rejects (%d patterns)" % n, not bad)
    if bad:
        ctx["violations"].append(bad[0])


F = [gen.Feats(cond=True, contg=True, nullable_star=True, refs_closed=False), gen.Feats(look=True), gen.Feats(cond=True)]
LB = ["(?<=%s)c", "(?<!%s)c", "x(?<=%s)", "(?<=a%s)", "(?<=%s|b)"]
LBF = ["ab|c", "bc|a", "a|bc", "abc|de|f", "a(?:cd|b)", "é", "éa|b", "a{2}", "a{1,2}", "(a)|(b)", "\\b", "(?:a|é)b", ".", "..", "a*", "(?(1)a|b)", "(?:ab|a)", "[ab]é", "(?=a)", "a|é",
       # conditionals whose CONDITION consumes a variable number of characters
       "𝄞", "a𝄞", "𝄞{2}", "b|𝄞", "\\x{1D11E}", "(?i:𝄞)", "(?(a+)b|cc)", "(?(a|bb)c|dd)", "(?(a?)b|c)", "(?(a)b|c)", "(?(a)b|cc)", "(?(a*)bb|cc)", "(?((a)|bc)a|b)", "(?(ab?)c)"]
CFG = {
    "prop": "C13", "theorems": THEOREMS, "feats": F, "n_quick": 350, "n_thorough": 8000,
    "tiers": ("t2", "sem"), "extras": [lens_check, gate_check], "sem_is_property": False,
    "corpus": [c % f for c in LB for f in LBF] + ["(?(a)b)", "(?:(?(a)b))*", "(?:ab){2}(?<=abab)", "(?<=\\Z)a", "\\Z"],
    "alpha": ["a", "b", "c", "é", "\n", "-"], "extra_texts": ["éaé", "aéb", "ébc", "abé", "€a", "a€b", "𝄞b", "ab𝄞", "𝄞c", "b𝄞ac", "𝄞𝄞c", "a𝄞c"],
    "k_base_quick": 10, "k_extra_quick": 12,
    "assumptions": ["text is valid UTF-8 shorter than 2^64 bytes; literal nodes are one character and class nodes have size 1 (parser invariant, checked on the parsed trees by T2)",
                    "the look-behind gate (compile fails iff some look-behind alternative is not constant-size) is tied by T2, not proved",
                    "the \\n*$ helper node of \\Z is constant-size only under its look-ahead (excluded by [zok])"],
}


def run(tier, seed, replay=None):
    return engprop.run(CFG, tier, seed, replay)
