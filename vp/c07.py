"""C07 — limits: theorems of Properties/C07.v (all programs) + T3 tie on exact statistics +
the property evaluated on the real vm::run through the run-stats hook."""
from . import c20 as _c20
from . import core, gen, engine, engprop
from .core import hexs

THEOREMS = ["C07_limit_prefix", "C07_limit_enough", "C07_limit_fires_only_if", "C07_stack_bound", "C07_vm_terminates", "C07_terminates_from_pattern_string"]
LIMITS = ["0", "1", "2", "3", "5", "10", "100", "1000000"]


def limits_property(ctx):
    res, infos, texts_for = ctx["res"], ctx["infos"], ctx["texts_for"]
    lines, meta = [], []
    for info in infos:
        if not info["impl"].get("new", "").startswith("fancy:"):
            continue
        for t in texts_for(info)[:8]:
            for p in gen.boundaries(t):
                lines.append("%s\t%s\t%d\t0\t-" % (hexs(info["pattern"]), hexs(t), p))
                meta.append((info["pattern"], t, p))
    base = core.run_impl("run", lines)
    l2, m2 = [], []
    bad = []
    nerr = 0
    for (pat, t, p), b in zip(meta, base):
        f = engine.fields(b)
        if "stats" not in f:
            continue
        B = int(f["stats"].split(":")[1])
        if f["res"].startswith("Runtime") or f["res"] == "PANIC":
            nerr += 1
            bad.append({"kind": "input", "pattern": pat, "text": t, "pos": p, "impl": f["res"],
                        "reference": "a value: the exploration of this tiny text is tiny", "check": "no limit error with default limits"})
            continue
        lims = set(LIMITS)
        lims.add(str(B))
        if B > 0:
            lims.add(str(B - 1))
        for L in sorted(lims, key=int):
            l2.append("%s\t%s\t%d\t0\t%s" % (hexs(pat), hexs(t), p, L))
            m2.append((pat, t, p, int(L), B, f["res"]))
    out = core.run_impl("run", l2)
    fired = 0
    for (pat, t, p, L, B, unl), o in zip(m2, out):
        r = engine.fields(o).get("res", o)
        want = "Runtime:BacktrackLimitExceeded" if B > L else unl
        if B > L:
            fired += 1
        if r != want:
            bad.append({"kind": "input", "pattern": pat, "text": t, "pos": p, "limit": L, "impl": r, "reference": want,
                        "unlimited_backtracks": B, "check": "limit L: error iff the unlimited run needs more than L backtracks, else the unlimited answer"})
    res.oblige("property: on the real vm::run, limit L gives BacktrackLimitExceeded iff the unlimited run takes more than L backtracks, else the unlimited answer (%d limited runs, %d fired); no error with default limits on %d tiny searches" % (len(l2), fired, len(lines)), not bad)
    ctx["evals"] += len(lines) + len(l2)
    ctx["nontrivial"] += fired
    res.notes["limited_runs"] = len(l2)
    res.notes["limit_fired"] = fired
    if bad:
        bad.sort(key=lambda m: (len(m["pattern"]), len(m["text"])))
        ctx["violations"].append(bad[0])


F = [gen.Feats(cond=True, contg=True, nullable_star=True, refs_closed=False), gen.Feats(cond=True), gen.Feats(nullable_star=True)]

CFG = {
    "prop": "C07", "theorems": THEOREMS, "feats": F, "n_quick": 250, "n_thorough": 4000,
    "tiers": ("t2", "run"), "limits": ("-", "0", "1", "2", "3", "5", "10", "100", "1000000"),
    "k_base_quick": 6, "k_extra_quick": 4, "k_base_thorough": 30, "k_extra_thorough": 20,
    "extras": [limits_property],
    "corpus": ["(?:(?(a)b))*", "(a|ab)*c\\1", "(?:a|b)*+c", "(?=(a*))\\1b", "(?:(?(a)b|c))*",
               # negative look-arounds whose VM-compiled body still has a pending alternative when it matches
               "(?!(?:a|ab)(?=c))\\w", "(?!(a|ab|abc)\\1)a", "(?!a+(?=c))\\w", "(?<!(?:a|b)(?=c)\\b)c", "(?!(?:a|b)*(?=c))\\w"] + _c20.family()[:60],
    "assumptions": ["the step bound in terms of limit, pattern and text is not proved (partial): only the limit/answer relation and the stack bound are theorems"],
    "rule": "patterns = corpus + context x filler products + seeded random trees over the unrestricted grammar (all features); texts over {a,b,c,e-acute,newline,-}; every boundary offset; limits {0,1,2,3,5,10,100,10^6} plus the exact threshold B and B-1 read through the stats hook; non-trivial = a limited run in which the limit fires",
}


def run(tier, seed, replay=None):
    return engprop.run(CFG, tier, seed, replay)
