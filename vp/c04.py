from . import miscprops


def run(tier, seed, replay=None):
    return miscprops.run_c04(tier, seed, replay)
