"""C20 — backtracking state: theorems of Properties/C20.v + full-state correspondence between
the extracted model (Model/State.v) and the real State driven through the StateProbe hook."""
import itertools
from . import core, engprop, gen

THEOREMS = ["C20_refines_op", "C20_all_histories", "C20_fnla_pops_to_own_branch", "C20_fnla_step"]
VALS = ["0", "1", "2", "M"]


class Mirror:
    """Tracks just enough (branch depth, aux depth per snapshot) to generate valid sequences."""

    def __init__(self, n, mx):
        self.n, self.mx = n, mx
        self.aux = 0
        self.snaps = []      # aux depth at each push

    def valid(self, op):
        k = op[0]
        if k == "O":
            return len(self.snaps) > 0
        if k == "B":
            return self.aux > 0
        if k == "U":
            return int(op.split()[1]) <= len(self.snaps)
        return True

    def apply(self, op):
        k = op[0]
        if k == "P":
            if len(self.snaps) < self.mx:
                self.snaps.append(self.aux)
        elif k == "O":
            self.aux = self.snaps.pop()
        elif k == "A":
            self.aux += 1
        elif k == "B":
            self.aux -= 1
        elif k == "U":
            c = int(op.split()[1])
            del self.snaps[c:]


def alphabet(n, depth):
    ops = ["P 1 2", "O", "B", "C"]
    ops += ["S %d %s" % (s, v) for s in range(n) for v in VALS[:3]]
    ops += ["G %d" % s for s in range(n)]
    ops += ["A %s" % v for v in ("5", "M")]
    ops += ["U %d" % c for c in range(depth + 1)]
    return ops


def exhaustive(n, length, mx=10):
    out = []

    def rec(prefix, mir_ops):
        if prefix:
            out.append(list(prefix))
        if len(prefix) == length:
            return
        m = Mirror(n, mx)
        for o in prefix:
            m.apply(o)
        for o in alphabet(n, len(m.snaps)):
            if m.valid(o):
                prefix.append(o)
                rec(prefix, None)
                prefix.pop()
    rec([], None)
    # only maximal-length sequences plus all shorter ones are already prefixes: keep full-length
    return [s for s in out if len(s) == length]


def random_seq(r, n, mx, length):
    m = Mirror(n, mx)
    seq = []
    pcs = 0
    while len(seq) < length:
        k = r.random()
        if k < 0.22:
            pcs += 1
            o = "P %d %d" % (pcs % 7, r.randrange(5))
        elif k < 0.36:
            o = "O"
        elif k < 0.62:
            o = "S %d %s" % (r.randrange(n) if n <= 3 else r.choice([0, 1, 63, 64, n - 1]), r.choice(VALS + ["3", "9"]))
        elif k < 0.68:
            o = "G %d" % (r.randrange(n) if n <= 3 else r.choice([0, 1, 63, 64, n - 1]))
        elif k < 0.78:
            o = "A %s" % r.choice(["4", "5", "6", "M"])
        elif k < 0.86:
            o = "B"
        elif k < 0.89:
            o = "C"
        else:
            d = len(m.snaps)
            o = "U %d" % (r.randrange(d + 1) if r.random() < 0.8 else max(0, d - 1))
        if m.valid(o):
            m.apply(o)
            seq.append(o)
    return seq


def drain(n, seq, mx):
    """observation suffix: read everything, then abandon every alternative and read again"""
    m = Mirror(n, mx)
    for o in seq:
        m.apply(o)
    tail = []

    def read():
        tail.extend("G %d" % s for s in range(n))
        tail.append("C")
        a = m.aux
        tail.extend(["B"] * a)
        m.aux = 0
    read()
    while m.snaps:
        tail.append("O")
        m.apply("O")
        read()
    return seq + tail


def line(n, mx, seq):
    return "%d %d|%s" % (n, mx, ";".join(seq))


def nontrivial(seq):
    """a save followed (later) by an abandon, or a cut that discards at least one alternative
    and is followed by an abandon, or aux push/pop across an alternative"""
    s = " ".join(o[0] for o in seq)
    has_restore = "S" in s and "O" in s[s.find("S"):]
    has_cut = any(o[0] == "U" for o in seq)
    return has_restore or has_cut


def outs_only(res):
    return [p.split(" @ ")[0].strip() for p in res.split(" | ")]


def compare_full(impl, model):
    a = [" @ ".join(x.split(" @ ")[:2]) for x in impl.split(" | ")]
    b = [" @ ".join(x.split(" @ ")[:2]) for x in model.split(" | ")]
    return a == b


def shrink(case, fails):
    n, mx, seq = case
    changed = True
    while changed:
        changed = False
        for i in range(len(seq)):
            cand = seq[:i] + seq[i + 1:]
            m = Mirror(n, mx)
            ok = True
            for o in cand:
                if not m.valid(o):
                    ok = False
                    break
                m.apply(o)
            if ok and cand and fails((n, mx, cand)):
                seq = cand
                changed = True
                break
    return (n, mx, seq)


def search_failing(cases):
    """the property itself: outputs of the real State along a drained history must equal the
    whole-state-copy reference machine's"""
    lines = [line(n, mx, drain(n, seq, mx)) for (n, mx, seq) in cases]
    impl = core.run_impl("state", lines)
    ref = core.run_model("stateref", lines)
    for c, l, a, b in zip(cases, lines, impl, ref):
        if "REFSTUCK" in b:
            continue
        if outs_only(a) != outs_only(b):
            def fails(cc):
                ll = line(cc[0], cc[1], drain(cc[0], cc[2], cc[1]))
                x = core.run_impl("state", [ll])[0]
                y = core.run_model("stateref", [ll])[0]
                return "REFSTUCK" not in y and outs_only(x) != outs_only(y)
            small = shrink(c, fails)
            ll = line(small[0], small[1], drain(small[0], small[2], small[1]))
            return {"kind": "input", "ops": ll,
                    "impl_outputs": outs_only(core.run_impl("state", [ll])[0]),
                    "reference_outputs": outs_only(core.run_model("stateref", [ll])[0]),
                    "how": "echo '<ops>' | harness/target/release/frh state  vs  ocaml/frmodel stateref"}
    return None


def gen_cases(tier, seed):
    r = core.rng(seed, "C20")
    cases = []
    corpus = [
        (2, 10, "S 0 1;S 1 2;C;P 0 0;S 0 3;C;P 1 1;S 1 4;P 2 2;S 0 5;U 1;G 0;G 1;O;G 0;G 1".split(";")),
        (2, 10, "S 0 1;P 0 0;S 0 2;P 1 1;S 1 3;P 2 2;S 0 4;U 1;O".split(";")),
        (1, 10, "A 7;P 5 5;A 8;B;B;A 9;O;B".split(";")),
        (1, 2, "P 1 1;P 2 2;P 3 3;C;O;O".split(";")),
        (2, 10, "P 1 1;A 3;P 2 2;S 0 1;A 4;U 1;B;B;O;C".split(";")),
        # slot indices beyond one machine word of bits, written in frames a cut merges
        (70, 10, "S 65 1;S 1 1;P 0 0;S 65 2;S 1 2;P 1 1;S 65 3;S 64 1;S 1 3;P 2 2;S 65 4;S 69 1;U 1;G 65;G 1;O;G 65;G 64;G 1;G 69".split(";")),
        (66, 10, "P 0 0;S 64 1;P 1 1;S 0 1;S 64 2;U 1;O;G 64;G 0".split(";")),
    ]
    cases += corpus
    ex_len = 3 if tier == "quick" else 4
    for n in (1, 2):
        cases += [(n, 10, s) for s in exhaustive(n, ex_len if n == 1 else ex_len - (0 if tier == "quick" else 1))]
    nrand = 4000 if tier == "quick" else 150000
    for i in range(nrand):
        n = r.choice([1, 2, 3, 3]) if i % 50 else r.choice([65, 66, 70])
        mx = r.choice([10, 10, 10, 3, 2])
        ln = r.randrange(4, 40 if tier == "quick" else 90)
        cases.append((n, mx, random_seq(r, n, mx, ln)))
    return cases, len(corpus)


def state_part(ctx):
    """the State-level half: full-state correspondence of Model/State.v with the real State
    through the StateProbe hook, and the reference-machine search for a failing history"""
    res, tier, seed, replay = ctx["res"], ctx["tier"], ctx["seed"], ctx["replay"]
    proof_ok = all(ok for _, ok in res.obligations if not _.startswith("tie:"))
    if replay and "ops" in replay:
        cases = [(int(replay["ops"].split("|")[0].split()[0]), int(replay["ops"].split("|")[0].split()[1]),
                  [o for o in replay["ops"].split("|")[1].split(";") if o.strip()])]
        ncorp = 1
    elif replay:
        return
    else:
        cases, ncorp = gen_cases(tier, seed)
    lines = [line(n, mx, seq) for (n, mx, seq) in cases]
    impl = core.run_impl("state", lines)
    model = core.run_model("state", lines)
    bad = [i for i, (a, b) in enumerate(zip(impl, model)) if not compare_full(a, b)]
    tie_ok = res.oblige("tie:T3 full concrete state (saves, stack, oldsave, nsave) after every operation, model = implementation on %d histories" % len(lines), not bad)
    distinct = set(l for l, c in zip(lines, cases) if nontrivial(c[2]))
    lens = [len(c[2]) for c in cases]
    opk = {}
    for c in cases:
        for o in c[2]:
            opk[o[0]] = opk.get(o[0], 0) + 1
    ctx["evals"] += len(lines)
    ctx["nontrivial"] += len(distinct)
    res.notes.update(state_histories=len(lines), state_histories_nontrivial=len(distinct),
                     state_history_rule="histories = fixed corpus + all valid sequences of a fixed short length over the op alphabet (1-2 slots) + seeded random valid sequences (1-3 slots, one in fifty with 65-70 slots written at indices around the 64-bit word boundary, values {0,1,2,3,9,M}, max_stack in {2,3,10}); valid by construction against a depth mirror; non-trivial = contains a slot write later abandoned, or a cut; distinct by full text",
                     state_history_samples=[lines[0], lines[min(ncorp, len(lines) - 1)], lines[-1]],
                     history_length_min=min(lens), history_length_max=max(lens),
                     op_histogram=opk,
                     model_panics=sum(1 for m in model if "PANIC" in m),
                     impl_panics=sum(1 for m in impl if "PANIC" in m))
    if (replay and "ops" in replay) or not (proof_ok and tie_ok):
        wit = search_failing(cases)
        if wit:
            ctx["violations"].append(wit)
        elif bad:
            i = bad[0]
            ctx["tie_fail"].append({"tier": "T3-state", "ops": lines[i], "impl": impl[i], "model": model[i]})


def family():
    """program-level replay of the discipline: commit points (negative look-around failure,
    atomic group end, condition) in the positions where the alternatives they must keep or
    discard share a target with an enclosing optional group / alternation / repeat"""
    commits = ["(?!a)", "(?!b)", "(?<!b)", "(?<!a)", "(?!ab)", "(?!(a)b)", "(?>a|ab)", "(?>(a)|ab)", "(?>a*)", "(?(?=a)|b)", "(?(?!a)b)", "(?!a|(b))"]
    ctxs = ["(?:x|C)?a", "(?:x|C)?", "(?:b|C)?a", "(?:y|(?:x|C))?a", "(?:x|C){0,1}a", "(?:x|C)??a", "(?:(?:b|C)?a)+", "(?:b|C)*a", "(?:C|b)?a",
            "(b)?(?(1)x|C)?a", "(?>x|C)?a", "(?:(a)|C)?a\\1?", "(?:a|C){1,2}b", "(?=(?:b|C)?a)a", "(?:(?:a|C)|b)?a", "(?:b|bC)?ba", "(?:(a)|b|C)?(?:a|b)c"]
    return [c.replace("C", k) for c in ctxs for k in commits]


F = [gen.Feats(cond=True), gen.Feats(cond=True, nullable_star=True), gen.Feats(look=True, atomic=True, keepout=False)]
CFG = {
    "prop": "C20", "theorems": THEOREMS, "feats": F, "n_quick": 300, "n_thorough": 8000,
    "tiers": ("run", "sem"), "sem_is_property": False, "k_base_quick": 10, "k_extra_quick": 6, "k_base_thorough": 50, "k_extra_thorough": 30,
    "corpus": family(), "extras": [state_part], "quick_products": 120,
    "extra_texts": ["ba", "xa", "aa", "bba", "abc", "bac"],
    "rule": "State level: operation histories (see state_history_rule). Program level: patterns = the commit-point family (negative look-around / atomic group / condition as the last item of an optional group, alternation or repeat body) + context x filler products + seeded random trees with look-around, atomic groups and conditionals; texts over {a,b,c,e-acute,newline,-} exhaustive to a length bound plus fixed and seeded random ones; every char-boundary start offset; the real vm::run is compared with the model VM (result and exact statistics) and the public API with the reference semantics",
    "assumptions": ["operation sequences satisfy the VM's own preconditions (pop/cut on a deep enough stack, aux pop on a non-empty aux stack, slot < n_saves); exactly the premise `rexec ... = Some _` of the theorems"],
    "checker_cmd": "make -C coq Properties/C20.vo && coqc -Q coq FR coq/Properties/C20.v (Print Assumptions) ; ocaml/frmodel {state,stateref,run,sem} vs harness/target/release/frh {state,run,api}",
}


def run(tier, seed, replay=None):
    return engprop.run(CFG, tier, seed, replay)
