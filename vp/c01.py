"""C01 — match existence and span vs the reference semantics."""
from . import engprop, gen

F = [gen.Feats(), gen.Feats(multibyte=True, flags=True), gen.Feats(lazy=True, atomic=True, look=True)]
CFG = {
    "prop": "C01", "theorems": ["C01_vm_follows_reference", "seg_all", "C01_reference_forms_agree", "C01_in_scope", "C01_vm_implements_atomized", "C01_vm_follows_reference_all", "C01_in_scope_all", "arrowA", "C01_from_pattern_string", "C01_from_ascii_pattern_string", "C01_from_utf8_pattern_string", "C01_parser_invariants"], "feats": F, "n_quick": 500, "n_thorough": 12000,
    "tiers": ("t2", "run", "sem"), "k_base_quick": 14, "k_extra_quick": 8, "k_base_thorough": 80, "k_extra_thorough": 40,
    "corpus": ["(?=(a|ab)(?=))\\1c", "(?<=\\G.)", "(?>(?:(?=a)a*){2})", "(?:(?!-)\\w+-?){3}+", "(\\w)(?:\\1\\w*){2}+",
               "(?:ab|a)(?=)b", "(a|ab)(c|bcd)(d*)", "(?<=ab|c)x", "(?<=bc|a)", "a(?=b)", "(a*)*b", "(?:a|b)*?c", "x*?$",
               # counted repeats with min > max (must not compile to a VM loop that performs fewer than min iterations)
               "(?=a)a{3,2}", "(?:a|b){2,1}\\b", "(?=a)(?:a|ab){3,1}?c", "\\b(a){2,0}"],
    "flags": ("0",),
    "assumptions": ["regex-automata returns the leftmost-first match on delegated blocks (oracle); unbounded repeats over nullable bodies inside delegated blocks are left out (known finding F1)"],
}


def run(tier, seed, replay=None):
    return engprop.run(CFG, tier, seed, replay)
