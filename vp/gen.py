"""Pattern and text generators.  Patterns are abstract trees (tuples) printed to fancy-regex
syntax; every random choice comes from the rng passed in (seeded from VERIF_SEED)."""
import itertools

ALPHA = ["a", "b", "c", "é", "\n", "-"]


class Feats:
    """which constructs the grammar may use"""

    def __init__(self, **kw):
        self.look = True          # look-ahead / look-behind
        self.atomic = True        # atomic groups, possessive quantifiers
        self.backref = True
        self.refs_closed = True   # backrefs / conditions only to groups closed earlier
        self.cond = False         # conditionals
        self.keepout = True       # \K
        self.contg = False        # \G
        self.wordb = True         # \b \B
        self.classes = True
        self.flags = False        # (?i) (?s) (?m) groups
        self.named = False
        self.nullable_star = False  # allow unbounded repeats over possibly-empty bodies
        self.fancy = True         # anything beyond the regex crate's syntax
        self.casei_alpha = False  # mixed-case literals
        self.lazy = True
        self.multibyte = True
        self.meta_lits = False    # escaped metacharacters as literals
        self.__dict__.update(kw)


class St:
    def __init__(self):
        self.count = 0
        self.closed = []
        self.names = {}


def nullable(t):
    k = t[0]
    if k in ("lit", "any", "cls"):
        return False
    if k in ("assert", "K", "G", "look", "bref", "nbref", "condg0", "empty"):
        return True      # conservative: a backref to an empty group is empty
    if k == "cat":
        return all(nullable(x) for x in t[1])
    if k == "alt":
        return any(nullable(x) for x in t[1])
    if k in ("grp", "ncg", "atomic"):
        return nullable(t[1])
    if k == "flag":
        return nullable(t[2])
    if k == "rep":
        return t[2] == 0 or nullable(t[1])
    if k == "condg":
        return nullable(t[2]) or nullable(t[3])
    if k == "cond":
        return (nullable(t[1]) and nullable(t[2])) or nullable(t[3])
    return True


def atom(r, st, f):
    opts = [("lit", "a")] * 4 + [("lit", "b")] * 3 + [("lit", "c")] + [("any",)] * 2
    if f.multibyte:
        opts += [("lit", "é")]
    if f.casei_alpha:
        opts += [("lit", "A"), ("lit", "B"), ("lit", "a"), ("lit", "b")]
    if f.meta_lits:
        opts += [("lit", c) for c in "$.|*+?()[{^\\#"]
    if f.classes:
        opts += [("cls", "[ab]"), ("cls", "[^a]"), ("cls", "\\w"), ("cls", "[b-c]"), ("cls", "\\d")]
        if f.casei_alpha:
            opts += [("cls", "[aB]"), ("cls", "[A-B]")]
        # classes whose members are escapes: the quoting of the class text handed to the automata engine
        opts += [("cls", r.choice(["[a\\-c]", "[\\w\\-]", "[a\\&&b]", "[\\^a]", "[a\\]b]", "[\\[a]", "[a\\~~b]", "[\\\\a]", "[b\\x2dc]"] +
                                  (["[x\\H]", "[^\\H]", "[\\Ha]", "[\\h-]", "[^\\ha]"] if f.fancy else [])))]
    if f.classes:
        # single-character escapes (the parser's escape table) - literals of one character
        opts += [("cls", r.choice(["\\n", "\\t", "\\r", "\\f", "\\v", "\\a"] + (["\\e", "\\ "] if f.fancy else [])))]
    opts += [("assert", "^"), ("assert", "$")]
    if f.wordb:
        opts += [("assert", "\\b"), ("assert", "\\B")]
        if f.fancy:
            opts += [("assert", r.choice(["\\<", "\\>"]))]
    if f.fancy:
        if f.keepout:
            opts += [("K",)]
        if f.contg:
            opts += [("G",)] * 2
        if f.look:
            opts += [("look", "=", ("empty",))]
        if f.backref:
            pool = st.closed if f.refs_closed else list(range(1, st.count + 1))
            if pool:
                opts += [("bref", r.choice(pool)) for _ in range(4)]
                if f.named:
                    nm = [n for n, g in st.names.items() if g in pool]
                    if nm:
                        opts += [("nbref", r.choice(nm))]
        if f.cond:
            pool = st.closed if f.refs_closed else list(range(1, st.count + 1))
            if pool:
                opts += [("condg0", r.choice(pool))]
            if not f.refs_closed and r.random() < 0.15:
                opts += [("condg0", st.count + r.choice([1, 1, 2]))]      # a group that does not exist (yet): rejected unless opened later
    return r.choice(opts)


QUANTS = [(0, None), (1, None), (0, 1), (2, 2), (1, 2), (0, 2), (2, None), (2, 3), (1, 1)]


def gen_tree(r, depth, st, f):
    if depth <= 0 or r.random() < 0.28:
        return atom(r, st, f)
    k = r.random()
    if k < 0.22:
        return ("cat", [gen_tree(r, depth - 1, st, f) for _ in range(r.randint(2, 3))])
    if k < 0.36:
        alts = [gen_tree(r, depth - 1, st, f) if r.random() < 0.88 else ("empty",) for _ in range(r.randint(2, 3))]
        return ("alt", alts)
    if k < 0.50:
        st.count += 1
        g = st.count
        name = None
        if f.named and r.random() < 0.5:
            name = "n%d" % g
            st.names[name] = g
        body = gen_tree(r, depth - 1, st, f)
        st.closed.append(g)
        return ("grp", body, name)
    if k < 0.70:
        body = gen_tree(r, depth - 1, st, f)
        if body[0] in ("assert", "look", "empty"):
            return body
        lo, hi = r.choice(QUANTS)
        if hi is None and not f.nullable_star and nullable(body):
            hi = lo + 1
        greedy = True if not f.lazy else r.random() < 0.7
        poss = f.fancy and f.atomic and r.random() < 0.12
        return ("rep", body, lo, hi, greedy, poss)
    if f.fancy and f.look and k < 0.84:
        kind = r.choice(["=", "!", "<=", "<!"])
        return ("look", kind, gen_tree(r, depth - 1, st, f))
    if f.fancy and f.atomic and k < 0.90:
        return ("atomic", gen_tree(r, depth - 1, st, f))
    if f.fancy and f.cond and k < 0.96:
        pool = st.closed if f.refs_closed else list(range(1, st.count + 1))
        if pool and r.random() < 0.5:
            return ("condg", r.choice(pool), gen_tree(r, depth - 1, st, f), gen_tree(r, depth - 1, st, f))
        return ("cond", gen_tree(r, depth - 1, st, f), gen_tree(r, depth - 1, st, f), gen_tree(r, depth - 1, st, f))
    if f.flags and k < 0.99:
        return ("flag", r.choice(["i", "s", "m", "-i", "U"]), gen_tree(r, depth - 1, st, f))
    return ("ncg", gen_tree(r, depth - 1, st, f))


def is_atomic_print(t):
    return t[0] in ("lit", "any", "cls", "grp", "ncg", "atomic", "look", "bref", "nbref", "K", "G",
                    "condg", "cond", "condg0", "flag", "assert")


def show(t, ctx=0):
    """ctx 0: top / alternative; 1: inside concat; 2: quantifier operand"""
    k = t[0]
    if k == "lit":
        c = t[1]
        return ("\\" + c) if c in "\\.+*?()|[]{}^$#" else c
    if k == "any":
        return "."
    if k == "cls":
        return t[1]
    if k == "assert":
        return t[1]
    if k == "empty":
        return "" if ctx == 0 else "(?:)"
    if k == "K":
        return "\\K"
    if k == "G":
        return "\\G"
    if k == "bref":
        return "\\%d" % t[1] if ctx != 1 else "(?:\\%d)" % t[1]   # avoid \1 followed by a digit
    if k == "nbref":
        return "\\k<%s>" % t[1]
    if k == "condg0":
        return "(?(%d))" % t[1]
    if k == "cat":
        s = "".join(show(x, 1) for x in t[1])
        return s if ctx <= 1 else "(?:" + s + ")"
    if k == "alt":
        s = "|".join(show(x, 0) for x in t[1])
        return s if ctx == 0 else "(?:" + s + ")"
    if k == "grp":
        if t[2]:
            return "(?<%s>%s)" % (t[2], show(t[1], 0))
        return "(" + show(t[1], 0) + ")"
    if k == "ncg":
        return "(?:" + show(t[1], 0) + ")"
    if k == "atomic":
        return "(?>" + show(t[1], 0) + ")"
    if k == "look":
        return "(?" + t[1] + show(t[2], 0) + ")"
    if k == "flag":
        return "(?" + t[1] + ":" + show(t[2], 0) + ")"
    if k == "rep":
        body = show(t[1], 2)
        if t[1][0] == "rep" or t[1][0] in ("K", "G", "condg0"):
            body = "(?:" + show(t[1], 0) + ")"
        lo, hi = t[2], t[3]
        if (lo, hi) == (0, None):
            q = "*"
        elif (lo, hi) == (1, None):
            q = "+"
        elif (lo, hi) == (0, 1):
            q = "?"
        elif hi is None:
            q = "{%d,}" % lo
        elif lo == hi:
            q = "{%d}" % lo
        else:
            q = "{%d,%d}" % (lo, hi)
        return body + q + ("" if t[4] else "?") + ("+" if t[5] else "")
    if k == "condg":
        return "(?(%d)%s|%s)" % (t[1], show(t[2], 1 if t[2][0] == "alt" else 0), show(t[3], 0))
    if k == "cond":
        return "(?(%s)%s|%s)" % (show(t[1], 0), show(t[2], 1 if t[2][0] == "alt" else 0), show(t[3], 0))
    raise ValueError(k)


def random_pattern(r, depth, f):
    st = St()
    t = gen_tree(r, depth, st, f)
    return show(t, 0), t


def size(t):
    if t[0] in ("cat", "alt"):
        return 1 + sum(size(x) for x in t[1])
    return 1 + sum(size(x) for x in t[1:] if isinstance(x, tuple))


# ---- fixed shapes: every compile path in hard and easy contexts ----
FILLERS = ["a", "b", "ab", "a|ab", "a*", "a+?", "(a)", "(a|b)", "[ab]", ".", "a?", "a{2}", "a{1,2}", "é", "a*?b", "(?:a|b)+", "", "\\b", "^", "$"]
CONTEXTS = [
    "%s", "(%s)\\1", "(?=%s)", "(?!%s)b", "(?<=a)%s", "x(?<!%s)", "(?>%s)b", "(?:%s)*c", "(?:%s)+?c",
    "(%s)*\\1", "(?:%s){2}(?=)", "(?:%s){1,2}?(?=)", "a(?=)%s", "%s(?=)a", "(?:%s|b)(?=)c", "((?=)%s)*",
    "(?=(%s))\\1", "(?<=%s)c", "(?<!%s)c", "\\K%s", "%s\\Kb", "(?:%s)?+a", "(?:%s)*+", "(%s)(?(1)a|b)",
    "(?:(%s)|b)*(?=)", "(?:(?:(%s)|b)(?=))*", "(?=(?:%s)*)a", "(?>(?:%s)*)a", "\\b%s\\b",
    # lazy counted repeats in VM context whose continuation fails until the upper bound is reached
    "(?=)(?:%s){1,2}?b", "(?:%s){0,2}?(?=)$", "((?:%s){1,2}?)b\\1?", "(?:%s){2,3}?(?=)c",
]


def product_patterns():
    out = []
    for c in CONTEXTS:
        for fl in FILLERS:
            out.append(c % fl)
    return out


def texts(maxlen, alpha=None):
    alpha = alpha or ALPHA
    out = []
    for k in range(maxlen + 1):
        out += ["".join(x) for x in itertools.product(alpha, repeat=k)]
    return out


def random_text(r, maxlen, alpha=None):
    alpha = alpha or ALPHA
    return "".join(r.choice(alpha) for _ in range(r.randint(0, maxlen)))


def boundaries(s):
    b = s.encode("utf-8")
    return [i for i in range(len(b) + 1) if i == len(b) or (b[i] & 0xC0) != 0x80]


# ---- (?=) injection (C03) ----
LAE = ("look", "=", ("empty",))


def _children(t):
    k = t[0]
    if k in ("cat", "alt"):
        return [("list", 1, i) for i in range(len(t[1]))]
    if k in ("grp", "ncg", "atomic"):
        return [("pos", 1)]
    if k == "look":
        return [("pos", 2)]
    if k == "flag":
        return [("pos", 2)]
    if k == "rep":
        return [("pos", 1)]
    if k == "condg":
        return [("pos", 2), ("pos", 3)]
    if k == "cond":
        return [("pos", 1), ("pos", 2), ("pos", 3)]
    return []


def _get(t, c):
    return t[c[1]][c[2]] if c[0] == "list" else t[c[1]]


def _set(t, c, v):
    l = list(t)
    if c[0] == "list":
        l[c[1]] = list(l[c[1]])
        l[c[1]][c[2]] = v
    else:
        l[c[1]] = v
    return tuple(l)


def inject_sites(t, under_behind=False):
    """all trees obtained by inserting one (?=) before or after one sub-expression"""
    out = []
    if not (under_behind and t[0] == "alt"):
        out.append(("cat", [LAE, t]))
        out.append(("cat", [t, LAE]))
    for c in _children(t):
        ub = t[0] == "look" and t[1] in ("<=", "<!") and c == ("pos", 2)
        for v in inject_sites(_get(t, c), ub):
            out.append(_set(t, c, v))
    return out


def inject_random(r, t, p=0.25, under_behind=False):
    for c in _children(t):
        ub = t[0] == "look" and t[1] in ("<=", "<!") and c == ("pos", 2)
        t = _set(t, c, inject_random(r, _get(t, c), p, ub))
    if not (under_behind and t[0] == "alt") and r.random() < p:
        t = ("cat", [LAE, t]) if r.random() < 0.5 else ("cat", [t, LAE])
    return t
