from . import engprop, apiprops
CFG = apiprops.cfg("C11", ["C11_replacen", "C11_paths_agree", "C11_no_panic", "C11_vm_replacen", "C11_vm_replacen_total"], [apiprops.api_extra("C11")])


def run(tier, seed, replay=None):
    return engprop.run(CFG, tier, seed, replay)
