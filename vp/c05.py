"""C05 — no panics, valid offsets: theorems of Properties/C05.v + every public entry point of
the real crate under catch_unwind on the unrestricted grammar over texts mixing 1-4 byte
characters + ties of the model VM / API model."""
from . import engprop, apiprops, gen

def wide():
    """patterns with more than 32 capture groups (slot indices beyond one machine word of bits),
    followed by the commit points that walk the undo log"""
    out = {}
    for k in (31, 32, 33, 40):
        pre = "(z)?" * k
        for p in [pre + "(?>(?:(a)\\b|,))a", pre + "(?=(a)|,)(?:a|,)", pre + "(?>(?:(a)|é)+),|a+"]:
            out[p] = ["a,", "aa,", "aé,", ",a"]
        out["(?>(?:(a" + "(a)" * k + "(é\\b))|,))a|a"] = ["a" * (k + 1) + "é", "a" * (k + 1) + "éa", ",a"]
    return out


CFG = apiprops.cfg("C05", ["C05_reference_offsets_valid", "C05_iter_spans_valid", "C05_split_no_panic", "C05_replace_no_panic", "C05_vm_never_panics", "C05_vm_offsets_valid", "C05_vm_never_panics_any_program", "C05_vm_offsets_valid_any_program", "C05_vm_search_ok", "C05_vm_iter_spans_valid", "C05_vm_split_never_panics", "C05_vm_replace_never_panics", "C05_vm_api_never_panics_total"],
                   [apiprops.api_extra("C05", limits=("-", "1", "3"))],
                   feats=[gen.Feats(cond=True, contg=True, nullable_star=True, refs_closed=False, named=True), gen.Feats(cond=True, contg=True, refs_closed=False), gen.Feats(nullable_star=True, refs_closed=False)],
                   tiers=("t2", "run"), n_thorough=1000, k_base_thorough=20, k_extra_thorough=12,
                   corpus=["(?:(?=(\\1?a))aaa)+", "a|(?<=\\Ka)b", "(?!x)", "^|(?<=,)", "\\d*(?=é)", "(?<=é)", "(?<!€)\\b", "(?<=𝄞)|a", "\\G(?=é)", "(a)|\\1", "(?:\\1(a))+", "(?<=(?=é).)", ".(?<=é)", "(?<=\\Gé)", "\\K", "(?:)*+", "(\\1)",
                           # a delegate with an optional group, run several times by a VM loop; nested atomic constructs behind an alternation
                           "(?>(a)?,)+", "(?>(é)?a)+", "(?:(?:(a)|(,))(?!x))+", "(?:(?=(?:(a)|.)).)+", "(?>(?:a(?>,)|a)é)", "(?>(?:é(?>€)|é)a)", "(?=(?:a(?>x)|a)(,)\\1)a", "(?:(?:a(?:,)++|a)é)++", "(?>a(?>,)|.)*é"] + list(wide()), pattern_texts=wide(),
                   alpha=["a", "é", "€", "𝄞", ",", "\n"], extra_texts=["฿", "฿।", "a฿a", "।฿฿", "a,", "aa,", "a,,", "aaé", "éé€", "aa,,", "aaaé", "é", "a,é", "éé", "€é", "𝄞a𝄞", "aaaaaa", "aé€𝄞", ",é,", "é\n€"],
                   assumptions=["PARTIAL: 'the compiled VM never reaches a panic site, reported slots are boundaries' is a theorem for EVERY compiled program of a pattern with no conditional under an atomic cut; for those patterns, and for SearchOK's start >= offset, it is validated (catch_unwind on every entry point, exact model tie); F-keepout-lb is a known finding"])


def run(tier, seed, replay=None):
    return engprop.run(CFG, tier, seed, replay)
