// shared helpers: hex coding, the harness alphabet, tree / program / facts printers
use fancy_regex::internal::Insn;
use fancy_regex::{Assertion, Expr, LookAround};

pub fn hex(s: &[u8]) -> String {
    if s.is_empty() {
        return "-".to_string();
    }
    s.iter().map(|b| format!("{:02x}", b)).collect()
}

pub fn unhex(h: &str) -> Vec<u8> {
    if h == "-" {
        return Vec::new();
    }
    (0..h.len() / 2)
        .map(|i| u8::from_str_radix(&h[2 * i..2 * i + 2], 16).unwrap())
        .collect()
}

pub fn unhex_str(h: &str) -> String {
    String::from_utf8(unhex(h)).expect("case strings are valid UTF-8")
}

pub fn us(v: usize) -> String {
    if v == usize::MAX {
        "M".to_string()
    } else {
        v.to_string()
    }
}

/// The harness alphabet: every text the checks generate is made of these characters, and the
/// model's oracle tables (classes, \w, case folding) are defined on exactly these.
pub fn alphabet() -> Vec<char> {
    let mut v: Vec<char> = (32u8..127u8).map(|b| b as char).collect();
    v.extend(['\n', '\r', '\t', '\u{e9}', '\u{c9}', '\u{436}', '\u{416}', '\u{20ac}', '\u{1d11e}',
              // two 3-byte characters with lead byte 0xE0 (U+0800..U+0FFF), neither a word character nor cased
              '\u{e3f}', '\u{964}',
              // a character whose last UTF-8 byte is 0xBF (the top of the continuation range), not a word character, not cased
              '\u{bf}']);
    v
}

fn class_table(inner: &str, casei: bool) -> String {
    let pat = if casei {
        format!("^(?i:{})$", inner)
    } else {
        format!("^(?:{})$", inner)
    };
    match regex::Regex::new(&pat) {
        Ok(re) => {
            let mut buf = [0u8; 4];
            let cps: Vec<String> = alphabet()
                .into_iter()
                .filter(|c| re.is_match(c.encode_utf8(&mut buf)))
                .map(|c| (c as u32).to_string())
                .collect();
            format!("c{}", cps.join("."))
        }
        Err(_) => "e".to_string(),
    }
}

pub fn assertion_code(a: &Assertion) -> u8 {
    match a {
        Assertion::StartText => 0,
        Assertion::EndText => 1,
        Assertion::StartLine { crlf: false } => 2,
        Assertion::StartLine { crlf: true } => 3,
        Assertion::EndLine { crlf: false } => 4,
        Assertion::EndLine { crlf: true } => 5,
        Assertion::LeftWordBoundary => 6,
        Assertion::RightWordBoundary => 7,
        Assertion::WordBoundary => 8,
        Assertion::NotWordBoundary => 9,
    }
}

pub fn dump_expr(e: &Expr, out: &mut Vec<String>) {
    match e {
        Expr::Empty => out.push("E".into()),
        Expr::Any { newline } => out.push(format!("Y{}", *newline as u8)),
        Expr::Assertion(a) => out.push(format!("S{}", assertion_code(a))),
        Expr::Literal { val, casei } => out.push(format!("L{}:{}", hex(val.as_bytes()), *casei as u8)),
        Expr::Concat(v) => {
            out.push(format!("C{}", v.len()));
            for c in v {
                dump_expr(c, out);
            }
        }
        Expr::Alt(v) => {
            out.push(format!("O{}", v.len()));
            for c in v {
                dump_expr(c, out);
            }
        }
        Expr::Group(c) => {
            out.push("G".into());
            dump_expr(c, out);
        }
        Expr::LookAround(c, la) => {
            let k = match la {
                LookAround::LookAhead => 0,
                LookAround::LookAheadNeg => 1,
                LookAround::LookBehind => 2,
                LookAround::LookBehindNeg => 3,
            };
            out.push(format!("K{}", k));
            dump_expr(c, out);
        }
        Expr::Repeat { child, lo, hi, greedy } => {
            out.push(format!("R{}:{}:{}", us(*lo), us(*hi), *greedy as u8));
            dump_expr(child, out);
        }
        Expr::Delegate { inner, size, casei } => {
            let kind = if inner == "\n*$" { "Z".to_string() } else { class_table(inner, *casei) };
            out.push(format!("D{}:{}:{}:{}", hex(inner.as_bytes()), size, *casei as u8, kind));
        }
        Expr::Backref(g) => out.push(format!("B{}", g)),
        Expr::AtomicGroup(c) => {
            out.push("T".into());
            dump_expr(c, out);
        }
        Expr::KeepOut => out.push("KO".into()),
        Expr::ContinueFromPreviousMatchEnd => out.push("CG".into()),
        Expr::BackrefExistsCondition(g) => out.push(format!("X{}", g)),
        Expr::Conditional { condition, true_branch, false_branch } => {
            out.push("Q".into());
            dump_expr(condition, out);
            dump_expr(true_branch, out);
            dump_expr(false_branch, out);
        }
        Expr::SubroutineCall(g) => out.push(format!("U{}", g)),
    }
}

pub fn tree_string(e: &Expr) -> String {
    let mut v = Vec::new();
    dump_expr(e, &mut v);
    v.join(" ")
}

pub fn insn_string(i: &Insn) -> String {
    match i {
        Insn::End => "End".into(),
        Insn::Any => "Any".into(),
        Insn::AnyNoNL => "AnyNoNL".into(),
        Insn::Assertion(a) => format!("Assert({})", assertion_code(a)),
        Insn::Lit(s) => format!("Lit({})", hex(s.as_bytes())),
        Insn::Split(x, y) => format!("Split({},{})", x, y),
        Insn::Jmp(t) => format!("Jmp({})", t),
        Insn::Save(s) => format!("Save({})", s),
        Insn::Save0(s) => format!("Save0({})", s),
        Insn::Restore(s) => format!("Restore({})", s),
        Insn::RepeatGr { lo, hi, next, repeat } => format!("RepeatGr({},{},{},{})", us(*lo), us(*hi), next, repeat),
        Insn::RepeatNg { lo, hi, next, repeat } => format!("RepeatNg({},{},{},{})", us(*lo), us(*hi), next, repeat),
        Insn::RepeatEpsilonGr { lo, next, repeat, check } => format!("RepeatEpsilonGr({},{},{},{})", us(*lo), next, repeat, check),
        Insn::RepeatEpsilonNg { lo, next, repeat, check } => format!("RepeatEpsilonNg({},{},{},{})", us(*lo), next, repeat, check),
        Insn::FailNegativeLookAround => "FailNLA".into(),
        Insn::GoBack(n) => format!("GoBack({})", us(*n)),
        Insn::Backref(s) => format!("Backref({})", s),
        Insn::BeginAtomic => "BeginAtomic".into(),
        Insn::EndAtomic => "EndAtomic".into(),
        Insn::Delegate { pattern, start_group, end_group, .. } => {
            format!("Delegate({},{},{})", hex(pattern.as_bytes()), start_group, end_group)
        }
        Insn::ContinueFromPreviousMatchEnd => "ContG".into(),
        Insn::BackrefExistsCondition(g) => format!("BEC({})", g),
    }
}

pub fn error_kind(e: &fancy_regex::Error) -> String {
    use fancy_regex::{CompileError, Error, ParseError, RuntimeError};
    match e {
        Error::ParseError(pos, pe) => {
            let k = match pe {
                ParseError::GeneralParseError(_) => "GeneralParseError",
                ParseError::UnclosedOpenParen => "UnclosedOpenParen",
                ParseError::InvalidRepeat => "InvalidRepeat",
                ParseError::RecursionExceeded => "RecursionExceeded",
                ParseError::TrailingBackslash => "TrailingBackslash",
                ParseError::InvalidEscape(_) => "InvalidEscape",
                ParseError::UnclosedUnicodeName => "UnclosedUnicodeName",
                ParseError::InvalidHex => "InvalidHex",
                ParseError::InvalidCodepointValue => "InvalidCodepointValue",
                ParseError::InvalidClass => "InvalidClass",
                ParseError::UnknownFlag(_) => "UnknownFlag",
                ParseError::NonUnicodeUnsupported => "NonUnicodeUnsupported",
                ParseError::InvalidBackref => "InvalidBackref",
                ParseError::TargetNotRepeatable => "TargetNotRepeatable",
                ParseError::InvalidGroupName => "InvalidGroupName",
                ParseError::InvalidGroupNameBackref(_) => "InvalidGroupNameBackref",
                _ => "OtherParseError",
            };
            format!("Parse:{}:{}", k, pos)
        }
        Error::CompileError(ce) => {
            let k = match ce {
                CompileError::InnerError(_) => "InnerError",
                CompileError::LookBehindNotConst => "LookBehindNotConst",
                CompileError::InvalidGroupName => "InvalidGroupName",
                CompileError::InvalidGroupNameBackref(_) => "InvalidGroupNameBackref",
                CompileError::InvalidBackref => "InvalidBackref",
                CompileError::NamedBackrefOnly => "NamedBackrefOnly",
                CompileError::FeatureNotYetSupported(_) => "FeatureNotYetSupported",
                _ => "OtherCompileError",
            };
            format!("Compile:{}", k)
        }
        Error::RuntimeError(re) => match re {
            RuntimeError::StackOverflow => "Runtime:StackOverflow".into(),
            RuntimeError::BacktrackLimitExceeded => "Runtime:BacktrackLimitExceeded".into(),
            _ => "Runtime:Other".into(),
        },
        _ => "OtherError".into(),
    }
}
