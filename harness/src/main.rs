// frh — the Rust side of the correspondence checks: reads one case per line on stdin, runs the
// real fancy-regex (built from /repo's working tree with --cfg fancy_regex_verif) and prints one
// observation per line.  Subcommand = argv[1].
use std::io::{self, BufRead, Write};
use std::panic::{catch_unwind, AssertUnwindSafe};

mod api;
mod misc;
mod prog;
mod state;
mod util;

fn main() {
    let mode = std::env::args().nth(1).unwrap_or_default();
    std::panic::set_hook(Box::new(|_| {}));
    let stdin = io::stdin();
    let stdout = io::stdout();
    let mut out = io::BufWriter::new(stdout.lock());
    for line in stdin.lock().lines() {
        let line = line.unwrap();
        let res = match mode.as_str() {
            "state" => state::run_line(&line),
            "prog" => guarded(|| prog::prog_line(&line)),
            "run" => guarded(|| prog::run_line(&line)),
            "api" => guarded(|| api::api_line(&line)),
            "rx" => guarded(|| api::rx_line(&line)),
            "expand" => guarded(|| misc::expand_line(&line)),
            "escape" => guarded(|| misc::escape_line(&line)),
            "oracle" => guarded(|| misc::oracle_line(&line)),
            "new" => guarded(|| misc::new_line(&line)),
            "threads" => guarded(|| misc::threads_line(&line)),
            "opts" => guarded(|| misc::opts_line(&line)),
            _ => {
                eprintln!("usage: frh <mode>");
                std::process::exit(2);
            }
        };
        writeln!(out, "{}", res).unwrap();
        // one answer per input line, visible at once: the runner's watchdog names the line that hangs
        out.flush().unwrap();
    }
}

pub fn guarded<F: FnOnce() -> String>(f: F) -> String {
    match catch_unwind(AssertUnwindSafe(f)) {
        Ok(s) => s,
        Err(_) => "PANIC".to_string(),
    }
}
