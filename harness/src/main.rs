// frh — the Rust side of the correspondence checks: reads one case per line on stdin, runs the
// real fancy-regex (built from /repo's working tree with --cfg fancy_regex_verif) and prints one
// observation per line.  Subcommand = argv[1].
use std::io::{self, BufRead, Write};
use std::panic::{catch_unwind, AssertUnwindSafe};

mod state;

fn main() {
    let mode = std::env::args().nth(1).unwrap_or_default();
    std::panic::set_hook(Box::new(|_| {}));
    let stdin = io::stdin();
    let stdout = io::stdout();
    let mut out = io::BufWriter::new(stdout.lock());
    for line in stdin.lock().lines() {
        let line = line.unwrap();
        let res = match mode.as_str() {
            "state" => state::run_line(&line),
            _ => {
                eprintln!("usage: frh <mode>");
                std::process::exit(2);
            }
        };
        writeln!(out, "{}", res).unwrap();
    }
}

pub fn guarded<F: FnOnce() -> String>(f: F) -> String {
    match catch_unwind(AssertUnwindSafe(f)) {
        Ok(s) => s,
        Err(_) => "PANIC".to_string(),
    }
}
