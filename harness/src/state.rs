// C20: drive the VM's private backtracking State through the StateProbe hook and dump the
// entire concrete state after every operation.
use fancy_regex::verif_hooks::StateProbe;
use std::panic::{catch_unwind, AssertUnwindSafe};

fn val(s: &str) -> usize {
    if s == "M" {
        usize::MAX
    } else {
        s.parse().unwrap()
    }
}
fn sv(v: usize) -> String {
    if v == usize::MAX {
        "M".to_string()
    } else {
        v.to_string()
    }
}
fn csv<T, F: Fn(&T) -> String>(l: &[T], f: F) -> String {
    l.iter().map(|x| f(x)).collect::<Vec<_>>().join(",")
}

fn dump(p: &StateProbe) -> String {
    format!(
        "{} # {} # {} # {}",
        csv(&p.saves(), |v| sv(*v)),
        csv(&p.stack(), |b| format!("{}:{}:{}", b.0, b.1, b.2)),
        csv(&p.oldsave(), |e| format!("{}:{}", e.0, sv(e.1))),
        p.nsave()
    )
}

pub fn run_line(line: &str) -> String {
    let (hdr, ops) = line.split_once('|').expect("bad state line");
    let h: Vec<usize> = hdr.split_whitespace().map(|x| x.parse().unwrap()).collect();
    let mut p = StateProbe::new(h[0], h[1]);
    let mut outs: Vec<String> = Vec::new();
    for o in ops.split(';') {
        let w: Vec<&str> = o.split_whitespace().collect();
        if w.is_empty() {
            continue;
        }
        let r = catch_unwind(AssertUnwindSafe(|| match w[0] {
            "P" => {
                if p.push(w[1].parse().unwrap(), w[2].parse().unwrap()) {
                    "ok".to_string()
                } else {
                    "overflow".to_string()
                }
            }
            "O" => {
                let (pc, ix) = p.pop();
                format!("{}:{}", pc, ix)
            }
            "S" => {
                p.save(w[1].parse().unwrap(), val(w[2]));
                "-".to_string()
            }
            "G" => sv(p.get(w[1].parse().unwrap())),
            "A" => {
                p.stack_push(val(w[1]));
                "-".to_string()
            }
            "B" => sv(p.stack_pop()),
            "C" => p.backtrack_count().to_string(),
            "U" => {
                p.backtrack_cut(w[1].parse().unwrap());
                "-".to_string()
            }
            _ => panic!("bad op"),
        }));
        match r {
            Ok(x) => outs.push(format!("{} @ {}", x, dump(&p))),
            Err(_) => {
                outs.push("PANIC".to_string());
                break;
            }
        }
    }
    outs.join(" | ")
}
