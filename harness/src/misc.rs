// modes "expand" (C12), "escape" (C17), "oracle" (tables), "new" (C06), "threads" (C18)
use crate::util::*;
use fancy_regex::{Expander, Expr, Regex};
use std::borrow::Cow;
use std::panic::{catch_unwind, AssertUnwindSafe};

// in: kind(d|p) template pat text   out: exp=.. check=.. saves=.. names=.. caplen=.. esc=..
pub fn expand_line(line: &str) -> String {
    let f: Vec<&str> = line.split('\t').collect();
    let x = if f[0] == "p" { Expander::python() } else { Expander::default() };
    let template = unhex_str(f[1]);
    let pat = unhex_str(f[2]);
    let text = unhex_str(f[3]);
    let re = Regex::new(&pat).expect("expand patterns compile");
    let caps = re.captures(&text).unwrap().expect("expand patterns match their text");
    let mut out = Vec::new();
    let r = catch_unwind(AssertUnwindSafe(|| {
        let e1 = x.expansion(&template, &caps);
        let mut e2 = String::from("\u{1}");
        x.append_expansion(&mut e2, &template, &caps);
        let mut e3: Vec<u8> = Vec::new();
        x.write_expansion(&mut e3, &template, &caps).unwrap();
        let mut e4: Vec<u8> = Vec::new();
        x.write_expansion_vec(&mut e4, &template, &caps).unwrap();
        let mut same = e2 == format!("\u{1}{}", e1) && e3 == e1.as_bytes() && e4 == e1.as_bytes();
        if f[0] == "d" {
            let mut e5 = String::new();
            caps.expand(&template, &mut e5);
            same &= e5 == e1;
        }
        format!("exp={}{}", hex(e1.as_bytes()), if same { "" } else { "!WRITERS_DIFFER" })
    }));
    out.push(r.unwrap_or_else(|_| "exp=PANIC".into()));
    let c = catch_unwind(AssertUnwindSafe(|| match x.check(&template, &re) {
        Ok(()) => "ok".to_string(),
        Err(e) => error_kind(&e),
    }));
    out.push(format!("check={}", c.unwrap_or_else(|_| "PANIC".into())));
    let saves: Vec<String> = (0..caps.len())
        .map(|i| match caps.get(i) {
            Some(m) => format!("{},{}", m.start(), m.end()),
            None => "M,M".into(),
        })
        .collect();
    out.push(format!("saves={}", saves.join(",")));
    let names: Vec<String> = re
        .capture_names()
        .enumerate()
        .filter_map(|(i, n)| n.map(|n| format!("{}:{}", i, hex(n.as_bytes()))))
        .collect();
    out.push(format!("names={}", if names.is_empty() { "-".to_string() } else { names.join(",") }));
    out.push(format!("caplen={}", re.captures_len()));
    // escape round trip with these captures
    let e = x.escape(&template);
    let borrowed = matches!(e, Cow::Borrowed(_));
    let back = x.expansion(&e, &caps);
    out.push(format!("esc={}:{}:{}", hex(e.as_bytes()), borrowed as u8, (back == template) as u8));
    out.join("\t")
}

// in: s   out: esc=<hex>:<borrowed> tree=<tree of parse(escape s)>
pub fn escape_line(line: &str) -> String {
    let s = unhex_str(line.trim());
    let e = fancy_regex::escape(&s);
    let borrowed = matches!(e, Cow::Borrowed(_));
    let tree = match Expr::parse_tree(&e) {
        Ok(t) => tree_string(&t.expr),
        Err(er) => format!("err:{}", error_kind(&er)),
    };
    format!("esc={}:{}\ttree={}", hex(e.as_bytes()), borrowed as u8, tree)
}

// the oracle tables on the harness alphabet, as regex-automata sees them
pub fn oracle_line(_line: &str) -> String {
    let w = regex::Regex::new(r"^\w$").unwrap();
    let mut buf = [0u8; 4];
    let mut words = Vec::new();
    let mut folds = Vec::new();
    let alpha = alphabet();
    for c in &alpha {
        if w.is_match(c.encode_utf8(&mut buf)) {
            words.push((*c as u32).to_string());
        }
    }
    for a in &alpha {
        let mut b1 = [0u8; 4];
        let pat = format!("^(?i:{})$", regex::escape(a.encode_utf8(&mut b1)));
        let re = regex::Regex::new(&pat).unwrap();
        for b in &alpha {
            if a != b && re.is_match(b.encode_utf8(&mut buf)) {
                folds.push(format!("{}~{}", *a as u32, *b as u32));
            }
        }
    }
    format!(
        "alphabet={}\twords={}\tfolds={}",
        alpha.iter().map(|c| (*c as u32).to_string()).collect::<Vec<_>>().join(","),
        words.join(","),
        folds.join(",")
    )
}

// in: pat   out: ok:<wrap|fancy> | err:<kind> | PANIC   (C06)
pub fn new_line(line: &str) -> String {
    let pat = unhex_str(line.trim());
    let r = catch_unwind(AssertUnwindSafe(|| Regex::new(&pat)));
    match r {
        Err(_) => "PANIC".into(),
        Ok(Ok(re)) => format!("ok:{}", if fancy_regex::verif_hooks::is_fancy(&re) { "fancy" } else { "wrap" }),
        Ok(Err(e)) => {
            // Display must not panic either
            let d = catch_unwind(AssertUnwindSafe(|| format!("{}", e)));
            format!("err:{}:{}{}", error_kind(&e), pat.len(), if d.is_err() { "!DISPLAY_PANIC" } else { "" })
        }
    }
}

// in: nthreads shared(0|1) rounds pat text ... ; out: ok | MISMATCH...   (C18)
pub fn threads_line(line: &str) -> String {
    let f: Vec<&str> = line.split('\t').collect();
    let nthreads: usize = f[0].parse().unwrap();
    let shared = f[1].starts_with('1');
    // "i": built with RegexBuilder::case_insensitive(true); "s": with a raised delegate_size_limit;
    // "l": with a backtrack limit - a clone must behave as the regex it was cloned from
    let opt = f[1].chars().nth(1);
    let rounds: usize = f[2].parse().unwrap();
    let pat = unhex_str(f[3]);
    let texts: Vec<String> = f[4..].iter().map(|t| unhex_str(t)).collect();
    fn assert_traits<T: Send + Sync + Clone>() {}
    assert_traits::<Regex>();
    let re = match opt {
        Some('i') => fancy_regex::RegexBuilder::new(&pat).case_insensitive(true).build(),
        Some('s') => fancy_regex::RegexBuilder::new(&pat).delegate_size_limit(64 << 20).build(),
        Some('l') => fancy_regex::RegexBuilder::new(&pat).backtrack_limit(3).build(),
        _ => Regex::new(&pat),
    }
    .expect("thread patterns compile");
    let show = |re: &Regex, t: &str| -> String {
        match catch_unwind(AssertUnwindSafe(|| re.captures(t))) {
            Err(_) => "PANIC".into(),
            Ok(Err(e)) => error_kind(&e),
            Ok(Ok(None)) => "none".into(),
            Ok(Ok(Some(c))) => (0..c.len())
                .map(|i| c.get(i).map(|m| format!("{}-{}", m.start(), m.end())).unwrap_or("-".into()))
                .collect::<Vec<_>>()
                .join(","),
        }
    };
    let expected: Vec<String> = texts.iter().map(|t| show(&re, t)).collect();
    let bad = std::sync::atomic::AtomicUsize::new(0);
    std::thread::scope(|sc| {
        for k in 0..nthreads {
            let re_local = if shared {
                None
            } else {
                match catch_unwind(AssertUnwindSafe(|| re.clone())) {
                    Ok(c) => Some(c),
                    Err(_) => {
                        bad.fetch_add(1000, std::sync::atomic::Ordering::Relaxed);
                        None
                    }
                }
            };
            let (re, texts, expected, bad) = (&re, &texts, &expected, &bad);
            sc.spawn(move || {
                let r: &Regex = re_local.as_ref().unwrap_or(re);
                for round in 0..rounds {
                    for j in 0..texts.len() {
                        let i = (j + k + round) % texts.len();
                        if show(r, &texts[i]) != expected[i] {
                            bad.fetch_add(1, std::sync::atomic::Ordering::Relaxed);
                        }
                    }
                }
            });
        }
    });
    // history-freedom: the single-threaded answers after all that are still the same
    let again: Vec<String> = texts.iter().map(|t| show(&re, t)).collect();
    let b = bad.load(std::sync::atomic::Ordering::Relaxed);
    if b == 0 && again == expected {
        format!("ok\t{}", expected.join(";"))
    } else {
        format!("MISMATCH:{}\t{}", b, expected.join(";"))
    }
}

// in: pat text casei(0|1) btlimit(-|n) size_limit(-|n) dfa_limit(-|n) ; out: build outcome + find:0 + caps:0   (C14)
pub fn opts_line(line: &str) -> String {
    let f: Vec<&str> = line.split('\t').collect();
    let pat = unhex_str(f[0]);
    let text = unhex_str(f[1]);
    let mut b = fancy_regex::RegexBuilder::new(&pat);
    if f[2] == "1" {
        b.case_insensitive(true);
    }
    if f[3] != "-" {
        b.backtrack_limit(f[3].parse().unwrap());
    }
    if f[4] != "-" {
        b.delegate_size_limit(f[4].parse().unwrap());
    }
    if f[5] != "-" {
        b.delegate_dfa_size_limit(f[5].parse().unwrap());
    }
    match catch_unwind(AssertUnwindSafe(|| b.build())) {
        Err(_) => "build=PANIC".into(),
        Ok(Err(e)) => format!("build=err:{}", error_kind(&e)),
        Ok(Ok(re)) => {
            let kind = if fancy_regex::verif_hooks::is_fancy(&re) { "fancy" } else { "wrap" };
            let r = catch_unwind(AssertUnwindSafe(|| match re.captures(&text) {
                Ok(Some(c)) => (0..c.len())
                    .map(|i| c.get(i).map(|m| format!("{}-{}", m.start(), m.end())).unwrap_or("-".into()))
                    .collect::<Vec<_>>()
                    .join(","),
                Ok(None) => "none".into(),
                Err(e) => format!("ERR:{}", error_kind(&e)),
            }));
            format!("build=ok:{}\tcaps={}", kind, r.unwrap_or("PANIC".into()))
        }
    }
}
