// mode "api": every public search API of fancy_regex::Regex on one (pattern, text), and
// mode "rx": the same probes on regex::Regex (C04).  Probes are separated by ' ' in the input,
// results by '\t' in the output.
use crate::util::*;
use fancy_regex::{NoExpand, Regex, RegexBuilder};
use std::borrow::Cow;
use std::panic::{catch_unwind, AssertUnwindSafe};

fn span(a: usize, b: usize) -> String {
    format!("{}-{}", us(a), us(b))
}

fn caps_str(c: &fancy_regex::Captures) -> String {
    (0..c.len())
        .map(|i| match c.get(i) {
            Some(m) => span(m.start(), m.end()),
            None => "-".to_string(),
        })
        .collect::<Vec<_>>()
        .join(",")
}

fn off(text: &str, piece: &str) -> (usize, usize) {
    let a = piece.as_ptr() as usize - text.as_ptr() as usize;
    (a, a + piece.len())
}

pub fn build(pat: &str, limit: &str, casei: bool) -> Result<Regex, fancy_regex::Error> {
    let mut b = RegexBuilder::new(pat);
    if limit != "-" {
        b.backtrack_limit(limit.parse().unwrap());
    }
    if casei {
        b.case_insensitive(true);
    }
    b.build()
}

fn probe(re: &Regex, text: &str, p: &str) -> String {
    let parts: Vec<&str> = p.split(':').collect();
    match parts[0] {
        "is_match" => match re.is_match(text) {
            Ok(b) => (b as u8).to_string(),
            Err(e) => format!("ERR:{}", error_kind(&e)),
        },
        "find" => {
            let pos: usize = parts[1].parse().unwrap();
            match re.find_from_pos(text, pos) {
                Ok(Some(m)) => {
                    let _ = m.as_str();
                    span(m.start(), m.end())
                }
                Ok(None) => "none".into(),
                Err(e) => format!("ERR:{}", error_kind(&e)),
            }
        }
        "caps" => {
            let pos: usize = parts[1].parse().unwrap();
            match re.captures_from_pos(text, pos) {
                Ok(Some(c)) => {
                    // self-consistency of the Captures accessors (C16)
                    let mut ok = c.len() == re.captures_len() && c.get(0).is_some() && c.get(c.len()).is_none();
                    let it: Vec<_> = c.iter().collect();
                    ok &= it.len() == c.len();
                    for (i, m) in it.iter().enumerate() {
                        ok &= *m == c.get(i);
                        if let Some(m) = m {
                            let _ = m.as_str();
                        }
                    }
                    for (i, n) in re.capture_names().enumerate() {
                        if let Some(n) = n {
                            ok &= c.name(n) == c.get(i);
                        }
                    }
                    format!("{}{}", caps_str(&c), if ok { "" } else { "!INCONSISTENT" })
                }
                Ok(None) => "none".into(),
                Err(e) => format!("ERR:{}", error_kind(&e)),
            }
        }
        "find_iter" => {
            let mut v = Vec::new();
            let mut it = re.find_iter(text);
            let mut after_err = 0;
            let mut n = 0;
            while let Some(x) = it.next() {
                n += 1;
                if n > text.len() + 5 {
                    v.push("RUNAWAY".to_string());
                    break;
                }
                match x {
                    Ok(m) => {
                        let _ = m.as_str();
                        v.push(span(m.start(), m.end()))
                    }
                    Err(e) => {
                        v.push(format!("ERR:{}", error_kind(&e)));
                        // fused after an error?
                        while it.next().is_some() {
                            after_err += 1;
                            if after_err > 3 {
                                break;
                            }
                        }
                        if after_err > 0 {
                            v.push(format!("AFTER_ERR:{}", after_err));
                        }
                        break;
                    }
                }
            }
            if v.is_empty() { "-".into() } else { v.join(";") }
        }
        "caps_iter" => {
            let mut v = Vec::new();
            let mut n = 0;
            for x in re.captures_iter(text) {
                n += 1;
                if n > text.len() + 5 {
                    v.push("RUNAWAY".to_string());
                    break;
                }
                match x {
                    Ok(c) => v.push(caps_str(&c)),
                    Err(e) => {
                        v.push(format!("ERR:{}", error_kind(&e)));
                        break;
                    }
                }
            }
            if v.is_empty() { "-".into() } else { v.join(";") }
        }
        "split" | "splitn" => {
            let mut v = Vec::new();
            let items: Box<dyn Iterator<Item = fancy_regex::Result<&str>>> = if parts[0] == "split" {
                Box::new(re.split(text))
            } else {
                Box::new(re.splitn(text, parts[1].parse().unwrap()))
            };
            let mut n = 0;
            for x in items {
                n += 1;
                if n > text.len() + 5 {
                    v.push("RUNAWAY".to_string());
                    break;
                }
                match x {
                    Ok(s) => {
                        let (a, b) = off(text, s);
                        v.push(span(a, b));
                    }
                    Err(e) => {
                        v.push(format!("ERR:{}", error_kind(&e)));
                    }
                }
            }
            if v.is_empty() { "-".into() } else { v.join(";") }
        }
        "replacen" => {
            let limit: usize = parts[1].parse().unwrap();
            let arg = unhex_str(parts[3]);
            let r = match parts[2] {
                "T" => re.try_replacen(text, limit, arg.as_str()),
                "N" => re.try_replacen(text, limit, NoExpand(&arg)),
                "C" => re.try_replacen(text, limit, |_: &fancy_regex::Captures| arg.clone()),
                "I" => re.try_replacen(text, limit, |c: &fancy_regex::Captures| {
                    c.get(0).map(|m| m.as_str().to_string()).unwrap_or_default()
                }),
                _ => panic!("bad replacer"),
            };
            match r {
                Ok(Cow::Borrowed(_)) => "B".into(),
                Ok(Cow::Owned(s)) => format!("O:{}", hex(s.as_bytes())),
                Err(e) => format!("ERR:{}", error_kind(&e)),
            }
        }
        "meta" => {
            let names: Vec<String> = re
                .capture_names()
                .enumerate()
                .filter_map(|(i, n)| n.map(|n| format!("{}:{}", i, hex(n.as_bytes()))))
                .collect();
            format!(
                "len={};n={};names={}",
                re.captures_len(),
                re.capture_names().count(),
                if names.is_empty() { "-".to_string() } else { names.join(",") }
            )
        }
        _ => panic!("bad probe {}", p),
    }
}

// in: pat text limit casei probes
pub fn api_line(line: &str) -> String {
    let f: Vec<&str> = line.split('\t').collect();
    let pat = unhex_str(f[0]);
    let text = unhex_str(f[1]);
    let re = match catch_unwind(AssertUnwindSafe(|| build(&pat, f[2], f[3] == "1"))) {
        Err(_) => return "NEWPANIC".into(),
        Ok(Err(e)) => return format!("new=err:{}", error_kind(&e)),
        Ok(Ok(r)) => r,
    };
    let mut out = vec![format!("new={}", if fancy_regex::verif_hooks::is_fancy(&re) { "fancy" } else { "wrap" })];
    for p in f[4].split(' ') {
        if p.is_empty() {
            continue;
        }
        let r = catch_unwind(AssertUnwindSafe(|| probe(&re, &text, p)));
        out.push(match r {
            Ok(s) => s,
            Err(_) => "PANIC".into(),
        });
    }
    out.join("\t")
}

// ---- the same probes on the regex crate ----
fn rx_caps_str(c: &regex::Captures) -> String {
    (0..c.len())
        .map(|i| match c.get(i) {
            Some(m) => span(m.start(), m.end()),
            None => "-".to_string(),
        })
        .collect::<Vec<_>>()
        .join(",")
}

fn rx_probe(re: &regex::Regex, text: &str, p: &str) -> String {
    let parts: Vec<&str> = p.split(':').collect();
    match parts[0] {
        "is_match" => (re.is_match(text) as u8).to_string(),
        "find" => match re.find_at(text, parts[1].parse().unwrap()) {
            Some(m) => span(m.start(), m.end()),
            None => "none".into(),
        },
        "caps" => match re.captures_at(text, parts[1].parse().unwrap()) {
            Some(c) => rx_caps_str(&c),
            None => "none".into(),
        },
        "find_iter" => {
            let v: Vec<String> = re.find_iter(text).map(|m| span(m.start(), m.end())).collect();
            if v.is_empty() { "-".into() } else { v.join(";") }
        }
        "caps_iter" => {
            let v: Vec<String> = re.captures_iter(text).map(|c| rx_caps_str(&c)).collect();
            if v.is_empty() { "-".into() } else { v.join(";") }
        }
        "split" => {
            let v: Vec<String> = re.split(text).map(|s| { let (a, b) = off(text, s); span(a, b) }).collect();
            if v.is_empty() { "-".into() } else { v.join(";") }
        }
        "splitn" => {
            let v: Vec<String> = re
                .splitn(text, parts[1].parse().unwrap())
                .map(|s| { let (a, b) = off(text, s); span(a, b) })
                .collect();
            if v.is_empty() { "-".into() } else { v.join(";") }
        }
        "replacen" => {
            let limit: usize = parts[1].parse().unwrap();
            let arg = unhex_str(parts[3]);
            let r = match parts[2] {
                "T" => re.replacen(text, limit, arg.as_str()),
                "N" => re.replacen(text, limit, regex::NoExpand(&arg)),
                "C" => re.replacen(text, limit, |_: &regex::Captures| arg.clone()),
                "I" => re.replacen(text, limit, |c: &regex::Captures| c[0].to_string()),
                _ => panic!("bad replacer"),
            };
            match r {
                Cow::Borrowed(_) => "B".into(),
                Cow::Owned(s) => format!("O:{}", hex(s.as_bytes())),
            }
        }
        "meta" => {
            let names: Vec<String> = re
                .capture_names()
                .enumerate()
                .filter_map(|(i, n)| n.map(|n| format!("{}:{}", i, hex(n.as_bytes()))))
                .collect();
            format!(
                "len={};n={};names={}",
                re.captures_len(),
                re.capture_names().count(),
                if names.is_empty() { "-".to_string() } else { names.join(",") }
            )
        }
        _ => panic!("bad probe"),
    }
}

pub fn rx_line(line: &str) -> String {
    let f: Vec<&str> = line.split('\t').collect();
    let pat = unhex_str(f[0]);
    let text = unhex_str(f[1]);
    let re = match regex::RegexBuilder::new(&pat).case_insensitive(f[3] == "1").build() {
        Err(_) => return "new=err".into(),
        Ok(r) => r,
    };
    let mut out = vec!["new=rx".to_string()];
    for p in f[4].split(' ') {
        if p.is_empty() {
            continue;
        }
        let r = catch_unwind(AssertUnwindSafe(|| rx_probe(&re, &text, p)));
        out.push(match r {
            Ok(s) => s,
            Err(_) => "PANIC".into(),
        });
    }
    out.join("\t")
}
