// mode "api": every public search API of fancy_regex::Regex on one (pattern, text), and
// mode "rx": the same probes on regex::Regex (C04).  Probes are separated by ' ' in the input,
// results by '\t' in the output.
use crate::util::*;
use fancy_regex::{NoExpand, Regex, RegexBuilder};
use std::borrow::Cow;
use std::panic::{catch_unwind, AssertUnwindSafe};

fn span(a: usize, b: usize) -> String {
    format!("{}-{}", us(a), us(b))
}

fn caps_str(c: &fancy_regex::Captures) -> String {
    (0..c.len())
        .map(|i| match c.get(i) {
            Some(m) => span(m.start(), m.end()),
            None => "-".to_string(),
        })
        .collect::<Vec<_>>()
        .join(",")
}

fn off(text: &str, piece: &str) -> (usize, usize) {
    let a = piece.as_ptr() as usize - text.as_ptr() as usize;
    (a, a + piece.len())
}

pub fn build(pat: &str, limit: &str, casei: bool) -> Result<Regex, fancy_regex::Error> {
    let mut b = RegexBuilder::new(pat);
    if limit != "-" {
        b.backtrack_limit(limit.parse().unwrap());
    }
    if casei {
        b.case_insensitive(true);
    }
    b.build()
}

fn probe(re: &Regex, pat: &str, dflt: bool, text: &str, p: &str) -> String {
    let parts: Vec<&str> = p.split(':').collect();
    match parts[0] {
        "is_match" => {
            // the convenience constructors and accessors must agree with Regex::new (C09)
            let mut w = String::new();
            if re.as_str() != pat || format!("{}", re) != pat {
                w = "!WRAPPER:as_str/Display".into();
            }
            if dflt {
                use std::convert::TryFrom;
                use std::str::FromStr;
                let a = Regex::from_str(pat);
                let b = Regex::try_from(pat);
                let c = Regex::try_from(pat.to_string());
                for (name, r) in [("from_str", a), ("try_from(&str)", b), ("try_from(String)", c)] {
                    match r {
                        Ok(r2) => {
                            let same = r2.as_str() == pat
                                && r2.captures_len() == re.captures_len()
                                && fancy_regex::verif_hooks::is_fancy(&r2) == fancy_regex::verif_hooks::is_fancy(re)
                                && match (r2.is_match(text), re.is_match(text)) {
                                    (Ok(x), Ok(y)) => x == y,
                                    (Err(_), Err(_)) => true,
                                    _ => false,
                                };
                            if !same {
                                w = format!("!WRAPPER:{}", name);
                            }
                        }
                        Err(_) => w = format!("!WRAPPER:{} fails", name),
                    }
                }
            }
            match re.is_match(text) {
                Ok(b) => format!("{}{}", b as u8, w),
                Err(e) => format!("ERR:{}{}", error_kind(&e), w),
            }
        }
        "find" => {
            let pos: usize = parts[1].parse().unwrap();
            let mut w = String::new();
            if pos == 0 {
                // find(t) is find_from_pos(t, 0)
                let same = match (re.find(text), re.find_from_pos(text, 0)) {
                    (Ok(a), Ok(b)) => a == b,
                    (Err(a), Err(b)) => error_kind(&a) == error_kind(&b),
                    _ => false,
                };
                if !same {
                    w = "!WRAPPER:find".into();
                }
            }
            match re.find_from_pos(text, pos) {
                Ok(Some(m)) => {
                    let r: std::ops::Range<usize> = m.into();
                    let st: &str = m.into();
                    if m.range() != (m.start()..m.end()) || r != m.range() || st != m.as_str()
                        || format!("{}", m.as_str()) != &text[m.start()..m.end()]
                    {
                        w = "!WRAPPER:Match::range/From".into();
                    }
                    format!("{}{}", span(m.start(), m.end()), w)
                }
                Ok(None) => format!("none{}", w),
                Err(e) => format!("ERR:{}{}", error_kind(&e), w),
            }
        }
        "caps" => {
            let pos: usize = parts[1].parse().unwrap();
            match re.captures_from_pos(text, pos) {
                Ok(Some(c)) => {
                    // self-consistency of the Captures accessors (C16)
                    let mut ok = c.len() == re.captures_len() && c.get(0).is_some() && c.get(c.len()).is_none();
                    let it: Vec<_> = c.iter().collect();
                    ok &= it.len() == c.len();
                    for (i, m) in it.iter().enumerate() {
                        ok &= *m == c.get(i);
                        if let Some(m) = m {
                            let _ = m.as_str();
                        }
                    }
                    for (i, n) in re.capture_names().enumerate() {
                        if let Some(n) = n {
                            ok &= c.name(n) == c.get(i);
                        }
                    }
                    // Index impls, and captures(t) = captures_from_pos(t, 0)
                    let mut w = String::new();
                    for i in 0..c.len() {
                        if let Some(m) = c.get(i) {
                            if &c[i] != m.as_str() {
                                w = "!WRAPPER:Captures[i]".into();
                            }
                        }
                    }
                    for n in re.capture_names().flatten() {
                        if let Some(m) = c.name(n) {
                            if &c[n] != m.as_str() {
                                w = "!WRAPPER:Captures[name]".into();
                            }
                        }
                    }
                    if pos == 0 {
                        match re.captures(text) {
                            Ok(Some(c2)) => {
                                if caps_str(&c2) != caps_str(&c) {
                                    w = "!WRAPPER:captures".into();
                                }
                            }
                            _ => w = "!WRAPPER:captures".into(),
                        }
                    }
                    format!("{}{}{}", caps_str(&c), if ok { "" } else { "!INCONSISTENT" }, w)
                }
                Ok(None) => {
                    if pos == 0 && !matches!(re.captures(text), Ok(None)) {
                        "none!WRAPPER:captures".into()
                    } else {
                        "none".into()
                    }
                }
                Err(e) => format!("ERR:{}", error_kind(&e)),
            }
        }
        "find_iter" => {
            let mut v = Vec::new();
            let mut it = re.find_iter(text);
            if it.text() != text || it.regex().as_str() != re.as_str() {
                v.push("!WRAPPER:Matches::text/regex".to_string());
            }
            let mut after_err = 0;
            let mut n = 0;
            while let Some(x) = it.next() {
                n += 1;
                if n > text.len() + 5 {
                    v.push("RUNAWAY".to_string());
                    break;
                }
                match x {
                    Ok(m) => {
                        let _ = m.as_str();
                        v.push(span(m.start(), m.end()))
                    }
                    Err(e) => {
                        v.push(format!("ERR:{}", error_kind(&e)));
                        // fused after an error?
                        while it.next().is_some() {
                            after_err += 1;
                            if after_err > 3 {
                                break;
                            }
                        }
                        if after_err > 0 {
                            v.push(format!("AFTER_ERR:{}", after_err));
                        }
                        break;
                    }
                }
            }
            if v.is_empty() { "-".into() } else { v.join(";") }
        }
        "caps_iter" => {
            let mut v = Vec::new();
            let mut n = 0;
            {
                let it = re.captures_iter(text);
                if it.text() != text || it.regex().as_str() != re.as_str() {
                    v.push("!WRAPPER:CaptureMatches::text/regex".to_string());
                }
            }
            let mut it = re.captures_iter(text);
            while let Some(x) = it.next() {
                n += 1;
                if n > text.len() + 5 {
                    v.push("RUNAWAY".to_string());
                    break;
                }
                match x {
                    Ok(c) => v.push(caps_str(&c)),
                    Err(e) => {
                        v.push(format!("ERR:{}", error_kind(&e)));
                        // fused after an error, like find_iter?
                        let mut after_err = 0;
                        while it.next().is_some() {
                            after_err += 1;
                            if after_err > 3 {
                                break;
                            }
                        }
                        if after_err > 0 {
                            v.push(format!("AFTER_ERR:{}", after_err));
                        }
                        break;
                    }
                }
            }
            if v.is_empty() { "-".into() } else { v.join(";") }
        }
        "split" | "splitn" => {
            let mut v = Vec::new();
            let items: Box<dyn Iterator<Item = fancy_regex::Result<&str>>> = if parts[0] == "split" {
                Box::new(re.split(text))
            } else {
                Box::new(re.splitn(text, parts[1].parse().unwrap()))
            };
            let mut n = 0;
            if parts[0] == "splitn" {
                // size_hint's upper bound must cover what the iterator yields
                let it = re.splitn(text, parts[1].parse().unwrap());
                let (lo, hi) = it.size_hint();
                let cnt = it.take(text.len() + 6).count();
                if lo > cnt || hi.map_or(false, |h| h < cnt) {
                    v.push("!WRAPPER:SplitN::size_hint".to_string());
                }
            }
            for x in items {
                n += 1;
                if n > text.len() + 5 {
                    v.push("RUNAWAY".to_string());
                    break;
                }
                match x {
                    Ok(s) => {
                        let (a, b) = off(text, s);
                        v.push(span(a, b));
                    }
                    Err(e) => {
                        v.push(format!("ERR:{}", error_kind(&e)));
                    }
                }
            }
            if v.is_empty() { "-".into() } else { v.join(";") }
        }
        "replacen" => {
            let limit: usize = parts[1].parse().unwrap();
            let arg = unhex_str(parts[3]);
            let r = match parts[2] {
                "T" => re.try_replacen(text, limit, arg.as_str()),
                "N" => re.try_replacen(text, limit, NoExpand(&arg)),
                "C" => re.try_replacen(text, limit, |_: &fancy_regex::Captures| arg.clone()),
                "I" => re.try_replacen(text, limit, |c: &fancy_regex::Captures| {
                    c.get(0).map(|m| m.as_str().to_string()).unwrap_or_default()
                }),
                _ => panic!("bad replacer"),
            };
            // the unwrapping wrappers and every Replacer impl of a string type give the same text
            let mut w = String::new();
            if let Ok(x) = &r {
                let x: &str = x;
                let mut chk = |name: &str, y: Cow<str>| {
                    if y != x {
                        w = format!("!WRAPPER:{}", name);
                    }
                };
                match parts[2] {
                    "T" => {
                        chk("replacen(&str)", re.replacen(text, limit, arg.as_str()));
                        chk("replacen(String)", re.replacen(text, limit, arg.clone()));
                        chk("replacen(&String)", re.replacen(text, limit, &arg));
                        let cow: Cow<str> = Cow::Borrowed(arg.as_str());
                        chk("replacen(&Cow)", re.replacen(text, limit, &cow));
                        chk("replacen(Cow)", re.replacen(text, limit, cow));
                        let mut rp = arg.as_str();
                        chk("replacen(by_ref)", re.replacen(text, limit, fancy_regex::Replacer::by_ref(&mut rp)));
                        if limit == 1 {
                            chk("replace", re.replace(text, arg.as_str()));
                        }
                        if limit == 0 {
                            chk("replace_all", re.replace_all(text, arg.as_str()));
                        }
                    }
                    "N" => {
                        chk("replacen(NoExpand)", re.replacen(text, limit, NoExpand(&arg)));
                        let mut rp = NoExpand(&arg);
                        chk("replacen(NoExpand by_ref)", re.replacen(text, limit, fancy_regex::Replacer::by_ref(&mut rp)));
                        // NoExpand's own replace_append (bypassed by the no_expansion fast path)
                        let mut slow = String::new();
                        let mut last = 0;
                        let mut okc = true;
                        for (i, c) in re.captures_iter(text).enumerate() {
                            if limit > 0 && i >= limit {
                                break;
                            }
                            match c {
                                Ok(c) => {
                                    let m = c.get(0).unwrap();
                                    slow.push_str(&text[last..m.start()]);
                                    fancy_regex::Replacer::replace_append(&mut NoExpand(&arg), &c, &mut slow);
                                    last = m.end();
                                }
                                Err(_) => okc = false,
                            }
                        }
                        slow.push_str(&text[last..]);
                        if okc && slow != x {
                            w = "!WRAPPER:NoExpand::replace_append".into();
                        }
                    }
                    "C" => {
                        chk("replacen(closure)", re.replacen(text, limit, |_: &fancy_regex::Captures| arg.clone()));
                        if limit == 0 {
                            chk("replace_all(closure)", re.replace_all(text, |_: &fancy_regex::Captures| arg.clone()));
                        }
                    }
                    _ => {}
                }
            }
            match r {
                Ok(Cow::Borrowed(_)) => format!("B{}", w),
                Ok(Cow::Owned(s)) => format!("O:{}{}", hex(s.as_bytes()), w),
                Err(e) => format!("ERR:{}", error_kind(&e)),
            }
        }
        "meta" => {
            let names: Vec<String> = re
                .capture_names()
                .enumerate()
                .filter_map(|(i, n)| n.map(|n| format!("{}:{}", i, hex(n.as_bytes()))))
                .collect();
            format!(
                "len={};n={};names={}",
                re.captures_len(),
                re.capture_names().count(),
                if names.is_empty() { "-".to_string() } else { names.join(",") }
            )
        }
        _ => panic!("bad probe {}", p),
    }
}

// in: pat text limit casei probes
pub fn api_line(line: &str) -> String {
    let f: Vec<&str> = line.split('\t').collect();
    let pat = unhex_str(f[0]);
    let text = unhex_str(f[1]);
    let re = match catch_unwind(AssertUnwindSafe(|| build(&pat, f[2], f[3] == "1"))) {
        Err(_) => return "NEWPANIC".into(),
        Ok(Err(e)) => return format!("new=err:{}", error_kind(&e)),
        Ok(Ok(r)) => r,
    };
    let mut out = vec![format!("new={}", if fancy_regex::verif_hooks::is_fancy(&re) { "fancy" } else { "wrap" })];
    for p in f[4].split(' ') {
        if p.is_empty() {
            continue;
        }
        let r = catch_unwind(AssertUnwindSafe(|| probe(&re, &pat, f[2] == "-" && f[3] != "1", &text, p)));
        out.push(match r {
            Ok(s) => s,
            Err(_) => "PANIC".into(),
        });
    }
    out.join("\t")
}

// ---- the same probes on the regex crate ----
fn rx_caps_str(c: &regex::Captures) -> String {
    (0..c.len())
        .map(|i| match c.get(i) {
            Some(m) => span(m.start(), m.end()),
            None => "-".to_string(),
        })
        .collect::<Vec<_>>()
        .join(",")
}

fn rx_probe(re: &regex::Regex, text: &str, p: &str) -> String {
    let parts: Vec<&str> = p.split(':').collect();
    match parts[0] {
        "is_match" => (re.is_match(text) as u8).to_string(),
        "find" => match re.find_at(text, parts[1].parse().unwrap()) {
            Some(m) => span(m.start(), m.end()),
            None => "none".into(),
        },
        "caps" => match re.captures_at(text, parts[1].parse().unwrap()) {
            Some(c) => rx_caps_str(&c),
            None => "none".into(),
        },
        "find_iter" => {
            let v: Vec<String> = re.find_iter(text).map(|m| span(m.start(), m.end())).collect();
            if v.is_empty() { "-".into() } else { v.join(";") }
        }
        "caps_iter" => {
            let v: Vec<String> = re.captures_iter(text).map(|c| rx_caps_str(&c)).collect();
            if v.is_empty() { "-".into() } else { v.join(";") }
        }
        "split" => {
            let v: Vec<String> = re.split(text).map(|s| { let (a, b) = off(text, s); span(a, b) }).collect();
            if v.is_empty() { "-".into() } else { v.join(";") }
        }
        "splitn" => {
            let v: Vec<String> = re
                .splitn(text, parts[1].parse().unwrap())
                .map(|s| { let (a, b) = off(text, s); span(a, b) })
                .collect();
            if v.is_empty() { "-".into() } else { v.join(";") }
        }
        "replacen" => {
            let limit: usize = parts[1].parse().unwrap();
            let arg = unhex_str(parts[3]);
            let r = match parts[2] {
                "T" => re.replacen(text, limit, arg.as_str()),
                "N" => re.replacen(text, limit, regex::NoExpand(&arg)),
                "C" => re.replacen(text, limit, |_: &regex::Captures| arg.clone()),
                "I" => re.replacen(text, limit, |c: &regex::Captures| c[0].to_string()),
                _ => panic!("bad replacer"),
            };
            match r {
                Cow::Borrowed(_) => "B".into(),
                Cow::Owned(s) => format!("O:{}", hex(s.as_bytes())),
            }
        }
        "meta" => {
            let names: Vec<String> = re
                .capture_names()
                .enumerate()
                .filter_map(|(i, n)| n.map(|n| format!("{}:{}", i, hex(n.as_bytes()))))
                .collect();
            format!(
                "len={};n={};names={}",
                re.captures_len(),
                re.capture_names().count(),
                if names.is_empty() { "-".to_string() } else { names.join(",") }
            )
        }
        _ => panic!("bad probe"),
    }
}

pub fn rx_line(line: &str) -> String {
    let f: Vec<&str> = line.split('\t').collect();
    let pat = unhex_str(f[0]);
    let text = unhex_str(f[1]);
    let re = match regex::RegexBuilder::new(&pat).case_insensitive(f[3] == "1").build() {
        Err(_) => return "new=err".into(),
        Ok(r) => r,
    };
    let mut out = vec!["new=rx".to_string()];
    for p in f[4].split(' ') {
        if p.is_empty() {
            continue;
        }
        let r = catch_unwind(AssertUnwindSafe(|| rx_probe(&re, &text, p)));
        out.push(match r {
            Ok(s) => s,
            Err(_) => "PANIC".into(),
        });
    }
    out.join("\t")
}
