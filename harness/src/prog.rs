// modes "prog" (parse tree, analysis facts, program listing) and "run" (vm::run with stats)
use crate::util::*;
use fancy_regex::internal::{analyze, compile};
use fancy_regex::{verif_hooks, wrap_tree, Expr, Regex};
use std::collections::HashMap;

pub fn prog_line(line: &str) -> String {
    let pat = unhex_str(line.trim());
    let mut out: Vec<String> = Vec::new();
    let tree = match Expr::parse_tree(&pat) {
        Ok(t) => t,
        Err(e) => return format!("new=err:{}", error_kind(&e)),
    };
    out.push(format!("tree={}", tree_string(&tree.expr)));
    let bs: Vec<String> = tree.backrefs.iter().map(|g| g.to_string()).collect();
    out.push(format!("bs={}", if bs.is_empty() { "-".to_string() } else { bs.join(",") }));
    let mut names: Vec<(usize, String)> = tree.named_groups.iter().map(|(k, v)| (*v, k.clone())).collect();
    names.sort();
    let ns: Vec<String> = names.iter().map(|(i, n)| format!("{}:{}", i, hex(n.as_bytes()))).collect();
    out.push(format!("names={}", if ns.is_empty() { "-".to_string() } else { ns.join(",") }));
    let wrapped = wrap_tree(tree);
    match analyze(&wrapped) {
        Err(e) => {
            out.push(format!("new=err:{}", error_kind(&e)));
            return out.join("\t");
        }
        Ok(info) => {
            let mut facts = Vec::new();
            verif_hooks::verif_facts(&info, &mut facts);
            let fs: Vec<String> = facts
                .iter()
                .map(|f| format!("{}:{}:{}:{}:{}", f.0, f.1, us(f.2), f.3 as u8, f.4 as u8))
                .collect();
            // facts[2] is the Group node wrapping the raw expression, facts[3] the raw expression
            let inner_hard = facts.len() > 3 && facts[3].4;
            if !inner_hard {
                match Regex::new(&pat) {
                    Ok(re) => out.push(format!("new=wrap:{}", re.captures_len())),
                    Err(e) => out.push(format!("new=err:{}", error_kind(&e))),
                }
                out.push(format!("facts={}", fs.join(",")));
            } else {
                match compile(&info) {
                    Ok(prog) => {
                        out.push(format!("new=fancy:{}", facts[0].1));
                        out.push(format!("facts={}", fs.join(",")));
                        let l: Vec<String> = prog.body.iter().map(insn_string).collect();
                        out.push(format!("prog={}", l.join(" ")));
                        out.push(format!("nsaves={}", verif_hooks::n_saves(&prog)));
                    }
                    Err(e) => {
                        out.push(format!("new=err:{}", error_kind(&e)));
                        out.push(format!("facts={}", fs.join(",")));
                    }
                }
            }
        }
    }
    out.join("\t")
}

thread_local! {
    static PROGS: std::cell::RefCell<HashMap<String, Option<fancy_regex::internal::Prog>>> =
        std::cell::RefCell::new(HashMap::new());
}

fn with_prog<R>(pat: &str, f: impl FnOnce(Option<&fancy_regex::internal::Prog>) -> R) -> R {
    PROGS.with(|m| {
        let mut m = m.borrow_mut();
        if m.len() > 2000 {
            m.clear();
        }
        let e = m.entry(pat.to_string()).or_insert_with(|| {
            let tree = Expr::parse_tree(pat).ok()?;
            let wrapped = wrap_tree(tree);
            let info = analyze(&wrapped).ok()?;
            let mut facts = Vec::new();
            verif_hooks::verif_facts(&info, &mut facts);
            if !(facts.len() > 3 && facts[3].4) {
                return None;
            }
            compile(&info).ok()
        });
        f(e.as_ref())
    })
}

// in: pat text pos flags limit
pub fn run_line(line: &str) -> String {
    let f: Vec<&str> = line.split('\t').collect();
    let pat = unhex_str(f[0]);
    let text = unhex_str(f[1]);
    let pos: usize = f[2].parse().unwrap();
    let flags: u32 = if f[3] == "1" { verif_hooks::SKIPPED_EMPTY_MATCH } else { 0 };
    let limit: usize = if f[4] == "-" { usize::MAX } else { f[4].parse().unwrap() };
    with_prog(&pat, |p| match p {
        None => "res=NOPROG".to_string(),
        Some(prog) => {
            verif_hooks::reset_stats();
            let r = std::panic::catch_unwind(std::panic::AssertUnwindSafe(|| {
                verif_hooks::run_with(prog, &text, pos, flags, limit)
            }));
            let (i, b, pk) = verif_hooks::stats();
            let res = match r {
                Err(_) => "PANIC".to_string(),
                Ok(Ok(None)) => "N".to_string(),
                Ok(Ok(Some(sv))) => format!("M:{}", sv.iter().map(|v| us(*v)).collect::<Vec<_>>().join(",")),
                Ok(Err(e)) => error_kind(&e),
            };
            format!("res={}\tstats={}:{}:{}", res, i, b, pk)
        }
    })
}
