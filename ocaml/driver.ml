(* driver.ml — hand-written glue around the extracted model (Model): reads one case per
   line on stdin, prints one result per line on stdout.  Subcommand = argv[1]. *)
open Model

let nat_of_int n = let r = ref O in for _ = 1 to n do r := S !r done; !r
let int_of_nat n = let rec go acc = function O -> acc | S m -> go (acc + 1) m in go 0 n

let split_on c s = String.split_on_char c s
let words s = List.filter (fun x -> x <> "") (split_on ' ' s)

let val_of_string s = if s = "M" then MAXV else V (nat_of_int (int_of_string s))
let string_of_val = function MAXV -> "M" | V n -> string_of_int (int_of_nat n)

let csv f l = String.concat "," (List.map f l)

(* ---------------- state (C20) ---------------- *)

let parse_op s =
  match words s with
  | ["P"; pc; ix] -> OPush (nat_of_int (int_of_string pc), nat_of_int (int_of_string ix))
  | ["O"] -> OPop
  | ["S"; sl; v] -> OSave (nat_of_int (int_of_string sl), val_of_string v)
  | ["G"; sl] -> OGet (nat_of_int (int_of_string sl))
  | ["A"; v] -> OStackPush (val_of_string v)
  | ["B"] -> OStackPop
  | ["C"] -> OCount
  | ["U"; c] -> OCut (nat_of_int (int_of_string c))
  | _ -> failwith ("bad op: " ^ s)

let string_of_out = function
  | ONone -> "-"
  | OOk b -> if b then "ok" else "overflow"
  | OPcIx (pc, ix) -> Printf.sprintf "%d:%d" (int_of_nat pc) (int_of_nat ix)
  | OVal v -> string_of_val v
  | ONat n -> string_of_int (int_of_nat n)

let dump_state (s : state) =
  Printf.sprintf "%s # %s # %s # %d"
    (csv string_of_val s.saves)
    (csv (fun b -> Printf.sprintf "%d:%d:%d" (int_of_nat b.b_pc) (int_of_nat b.b_ix) (int_of_nat b.b_ns))
       (List.rev s.stack))
    (csv (fun (sl, v) -> Printf.sprintf "%d:%s" (int_of_nat sl) (string_of_val v)) (List.rev s.old))
    (int_of_nat s.ns)

let dump_rstate (r : rstate) =
  Printf.sprintf "%s # %s # %s"
    (csv string_of_val r.r_slots) (csv string_of_val r.r_aux)
    (String.concat ";" (List.map (fun a ->
       Printf.sprintf "%d:%d:%s:%s" (int_of_nat a.a_pc) (int_of_nat a.a_ix)
         (csv string_of_val a.a_slots) (csv string_of_val a.a_aux)) r.r_alts))

(* mode "state": the concrete model, full state after every op.
   mode "stateref": the reference machine run directly on the ops, plus abs of the concrete
   state after every op (used by the witness search). *)
let run_state_line refmode line =
  match split_on '|' line with
  | [hdr; ops] ->
      let (n, m) = match words hdr with
        | [n; m] -> (int_of_string n, int_of_string m) | _ -> failwith "bad header" in
      let ops = List.filter (fun x -> String.trim x <> "") (split_on ';' ops) in
      let buf = Buffer.create 256 in
      let s = ref (st_new (nat_of_int n) (nat_of_int m)) in
      let r = ref (r_new (nat_of_int n) (nat_of_int m)) in
      (try
        List.iteri (fun i o ->
          let o = parse_op o in
          if i > 0 then Buffer.add_string buf " | ";
          if refmode then begin
            match rexec !r o with
            | None -> Buffer.add_string buf "REFSTUCK"; raise Exit
            | Some (r', x) ->
                r := r';
                Buffer.add_string buf (string_of_out x ^ " @ " ^ dump_rstate r')
          end else begin
            match exec !s o with
            | None -> Buffer.add_string buf "PANIC"; raise Exit
            | Some (s', x) ->
                s := s';
                Buffer.add_string buf (string_of_out x ^ " @ " ^ dump_state s'
                                       ^ " @ " ^ dump_rstate (abs s'))
          end) ops
      with Exit -> ());
      Buffer.contents buf
  | _ -> failwith "bad state line"


(* ---------------- numbers, strings ---------------- *)

let n_of_int (i : int) : n = N.of_nat (nat_of_int i)
let ten = n_of_int 10
let n_of_decimal (s : string) : n =
  if s = "M" then usize_max else begin
    let acc = ref N0 in
    String.iter (fun c -> acc := N.add (N.mul !acc ten) (n_of_int (Char.code c - 48))) s;
    !acc
  end
let bytes_of_hex (h : string) : nat list =
  if h = "-" then [] else
  List.init (String.length h / 2) (fun i -> nat_of_int (int_of_string ("0x" ^ String.sub h (2 * i) 2)))
let hex_of_bytes (l : nat list) : string =
  if l = [] then "-" else String.concat "" (List.map (fun b -> Printf.sprintf "%02x" (int_of_nat b)) l)
let string_of_n (x : n) : string =
  if N.eqb x usize_max then "M"
  else String.concat "" (List.map (fun b -> String.make 1 (Char.chr (int_of_nat b))) (push_usize x))
let us (v : val0) = string_of_val v

(* ---------------- tree parser (tokens written by harness/src/util.rs) ---------------- *)

let assertion_of_code = function
  | 0 -> StartText | 1 -> EndText | 2 -> StartLine false | 3 -> StartLine true
  | 4 -> EndLine false | 5 -> EndLine true | 6 -> LeftWordBoundary | 7 -> RightWordBoundary
  | 8 -> WordBoundary | _ -> NotWordBoundary
let code_of_assertion = function
  | StartText -> 0 | EndText -> 1 | StartLine false -> 2 | StartLine true -> 3
  | EndLine false -> 4 | EndLine true -> 5 | LeftWordBoundary -> 6 | RightWordBoundary -> 7
  | WordBoundary -> 8 | NotWordBoundary -> 9

let rest s k = String.sub s k (String.length s - k)

let parse_tree (s : string) : expr =
  let toks = ref (words s) in
  let next () = match !toks with x :: r -> toks := r; x | [] -> failwith "tree: unexpected end" in
  let rec go () : expr =
    let tk = next () in
    let c = tk.[0] in
    let arg = rest tk 1 in
    match c with
    | 'E' -> Empty
    | 'Y' -> Any (arg = "1")
    | 'S' -> Assertion (assertion_of_code (int_of_string arg))
    | 'L' -> (match split_on ':' arg with
              | [h; ci] -> Literal (bytes_of_hex h, ci = "1")
              | _ -> failwith "tree: L")
    | 'C' when arg <> "G" -> let n = int_of_string arg in Concat (List.init n (fun _ -> go ()))
    | 'C' -> ContinueFromPreviousMatchEnd
    | 'O' -> let n = int_of_string arg in Alt (List.init n (fun _ -> go ()))
    | 'G' -> Group (go ())
    | 'K' when arg = "O" -> KeepOut
    | 'K' -> let la = (match arg with "0" -> LookAhead | "1" -> LookAheadNeg | "2" -> LookBehind | _ -> LookBehindNeg) in
             let c = go () in LookAround (c, la)
    | 'R' -> (match split_on ':' arg with
              | [lo; hi; gr] -> let c = go () in Repeat (c, n_of_decimal lo, n_of_decimal hi, gr = "1")
              | _ -> failwith "tree: R")
    | 'D' -> (match split_on ':' arg with
              | [h; size; ci; kind] ->
                  let k = if kind = "Z" then DNlStarEnd
                    else if kind = "e" then DClass []
                    else DClass (List.map (fun x -> nat_of_int (int_of_string x))
                                   (List.filter (fun x -> x <> "") (split_on '.' (rest kind 1)))) in
                  Delegate (bytes_of_hex h, n_of_decimal size, ci = "1", k)
              | _ -> failwith "tree: D")
    | 'B' -> Backref (n_of_decimal arg)
    | 'T' -> AtomicGroup (go ())
    | 'X' -> BackrefExistsCondition (n_of_decimal arg)
    | 'Q' -> let c = go () in let y = go () in let n = go () in Conditional (c, y, n)
    | 'U' -> SubroutineCall (n_of_decimal arg)
    | _ -> failwith ("tree: bad token " ^ tk) in
  let e = go () in
  if !toks <> [] then failwith "tree: trailing tokens";
  e

let parse_bs (s : string) : n -> bool =
  let l = if s = "-" then [] else List.map n_of_decimal (split_on ',' s) in
  fun x -> List.exists (fun y -> N.eqb x y) l

(* ---------------- printers shared with the harness ---------------- *)

let insn_string (i : insn) : string =
  let d = int_of_nat in
  match i with
  | IEnd -> "End" | IAny -> "Any" | IAnyNoNL -> "AnyNoNL"
  | IAssertion a -> Printf.sprintf "Assert(%d)" (code_of_assertion a)
  | ILit v -> Printf.sprintf "Lit(%s)" (hex_of_bytes v)
  | ISplit (x, y) -> Printf.sprintf "Split(%d,%d)" (d x) (d y)
  | IJmp t -> Printf.sprintf "Jmp(%d)" (d t)
  | ISave s -> Printf.sprintf "Save(%d)" (d s)
  | ISave0 s -> Printf.sprintf "Save0(%d)" (d s)
  | IRestore s -> Printf.sprintf "Restore(%d)" (d s)
  | IRepeatGr (lo, hi, nx, r) -> Printf.sprintf "RepeatGr(%s,%s,%d,%d)" (string_of_n lo) (string_of_n hi) (d nx) (d r)
  | IRepeatNg (lo, hi, nx, r) -> Printf.sprintf "RepeatNg(%s,%s,%d,%d)" (string_of_n lo) (string_of_n hi) (d nx) (d r)
  | IRepeatEpsilonGr (lo, nx, r, c) -> Printf.sprintf "RepeatEpsilonGr(%s,%d,%d,%d)" (string_of_n lo) (d nx) (d r) (d c)
  | IRepeatEpsilonNg (lo, nx, r, c) -> Printf.sprintf "RepeatEpsilonNg(%s,%d,%d,%d)" (string_of_n lo) (d nx) (d r) (d c)
  | IFailNegativeLookAround -> "FailNLA"
  | IGoBack n -> Printf.sprintf "GoBack(%s)" (string_of_n n)
  | IBackref s -> Printf.sprintf "Backref(%d)" (d s)
  | IBeginAtomic -> "BeginAtomic" | IEndAtomic -> "EndAtomic"
  | IDelegate (es, sg, eg) ->
      let pat = match delegate_pattern es with Some b -> hex_of_bytes b | None -> "TOSTR-PANIC" in
      Printf.sprintf "Delegate(%s,%d,%d)" pat (d sg) (d eg)
  | IContinueFromPreviousMatchEnd -> "ContG"
  | IBackrefExistsCondition g -> Printf.sprintf "BEC(%s)" (string_of_n g)

let facts_string bs e =
  csv (fun f -> Printf.sprintf "%d:%d:%s:%d:%d" (int_of_nat f.f_start) (int_of_nat f.f_end)
                  (string_of_n f.f_min) (if f.f_const then 1 else 0) (if f.f_hard then 1 else 0))
    (facts bs O (wrap e))

let newerr_string = function
  | NAnalyze AInvalidBackref -> "err:Compile:InvalidBackref"
  | NAnalyze AFeatureNotYetSupported -> "err:Compile:FeatureNotYetSupported"
  | NAnalyze APanicEmptyAlt -> "PANIC"
  | NCompile CLookBehindNotConst -> "err:Compile:LookBehindNotConst"
  | NCompile CFeatureNotYetSupported -> "err:Compile:FeatureNotYetSupported"

(* delegated blocks that contain an unbounded repeat whose body can match empty: the class in
   which regex-automata's empty-iteration rule differs from the VM's (known finding F1) *)
let rec has_nullable_star (e : expr) : bool =
  match e with
  | Repeat (c, _, hi, _) -> (N.eqb hi usize_max && N.eqb (min_size c) N0) || has_nullable_star c
  | Concat es | Alt es -> List.exists has_nullable_star es
  | Group c | LookAround (c, _) | AtomicGroup c -> has_nullable_star c
  | Conditional (c, y, n) -> has_nullable_star c || has_nullable_star y || has_nullable_star n
  | _ -> false
let f1_risk (r : regex) : bool =
  match r with
  | RWrap (e, _) -> has_nullable_star e
  | RFancy (p, _) -> List.exists (function IDelegate (es, _, _) -> List.exists has_nullable_star es | _ -> false) p.p_body

(* mode prog: in "tree \t bs" *)
let prog_line line =
  match split_on '\t' line with
  | tree :: bs :: _ ->
      let e = parse_tree tree and bs = parse_bs bs in
      (match regex_new bs e with
       | Inl er ->
           let fs = (match er with NAnalyze _ -> "" | _ -> "\tfacts=" ^ facts_string bs e) in
           "new=" ^ newerr_string er ^ fs
       | Inr (RWrap (_, n) as r) -> Printf.sprintf "new=wrap:%d\tfacts=%s\tf1=%d" (int_of_nat n) (facts_string bs e) (if f1_risk r then 1 else 0)
       | Inr (RFancy (p, n) as r) ->
           Printf.sprintf "new=fancy:%d\tfacts=%s\tprog=%s\tnsaves=%d\tf1=%d\tscope=%d\tscope3=%d\tscope4=%d" (int_of_nat n) (facts_string bs e)
             (String.concat " " (List.map insn_string p.p_body)) (int_of_nat p.p_nsaves)
             (if f1_risk r then 1 else 0) (if in_scope bs e then 1 else 0) (if in_scope_all bs e then 1 else 0) (if vm_scope_b bs e then 1 else 0))
  | _ -> failwith "prog: bad line"

let fuel_big = nat_of_int 400000
let max_stack_nat = nat_of_int 1000000
let limit_of s = if s = "-" then None else Some (n_of_decimal s)

let string_of_outcome = function
  | RMatch sv -> "M:" ^ csv us sv
  | RNoMatch -> "N"
  | RErrStack -> "Runtime:StackOverflow"
  | RErrLimit -> "Runtime:BacktrackLimitExceeded"
  | RPanic -> "PANIC"
  | ROutOfFuel -> "FUEL"

(* regex cache keyed by tree+bs *)
let cache : (string, (newerr, regex) sum) Hashtbl.t = Hashtbl.create 64
let get_regex tree bs =
  let key = tree ^ "|" ^ bs in
  match Hashtbl.find_opt cache key with
  | Some r -> r
  | None ->
      if Hashtbl.length cache > 5000 then Hashtbl.reset cache;
      let r = regex_new (parse_bs bs) (parse_tree tree) in
      Hashtbl.add cache key r; r

(* mode run: in "tree bs text pos flags limit" *)
let run_line line =
  match split_on '\t' line with
  | [tree; bs; text; pos; flags; limit] ->
      (match get_regex tree bs with
       | Inr (RFancy (p, _)) ->
           let cx = { c_text = bytes_of_hex text; c_pos = nat_of_int (int_of_string pos); c_skipped = (flags = "1") } in
           let (o, st) = vm_run cx p max_stack_nat (limit_of limit) fuel_big in
           Printf.sprintf "res=%s\tstats=%s:%s:%d" (string_of_outcome o)
             (string_of_n st.n_insn) (string_of_n st.n_back) (int_of_nat st.peak)
       | _ -> "res=NOPROG")
  | _ -> failwith "run: bad line"

(* mode sem: the reference semantics; in "tree bs text poslist flags"; out = per position the
   capture slots or N, joined by ';' *)
let sem_line line =
  match split_on '\t' line with
  | tree :: _bs :: text :: poss :: flags :: _ ->
      let e = parse_tree tree in
      let t = bytes_of_hex text in
      String.concat ";" (List.map (fun pos ->
        let cx = { c_text = t; c_pos = nat_of_int (int_of_string pos); c_skipped = (flags = "1") } in
        match search cx e (S (length t)) with
        | Some caps -> "M:" ^ csv us caps
        | None -> "N") (split_on ',' poss))
  | _ -> failwith "sem: bad line"

(* mode lens: for every node of the wrapped tree (pre-order, the order of [facts]) the minimum
   and maximum number of characters the reference semantics lets it match, over all boundary
   start offsets of the given texts; in "tree bs text,text,..." *)
let rec nodes_of (g : nat) (e : expr) : (expr * nat) list =
  (e, g) :: (match e with
    | Concat es | Alt es ->
        let rec go g l = match l with [] -> [] | x :: r -> nodes_of g x @ go (add g (ngroups x)) r in go g es
    | Group c -> nodes_of (S g) c
    | LookAround (c, _) | Repeat (c, _, _, _) | AtomicGroup c -> nodes_of g c
    | Conditional (c, y, n) ->
        nodes_of g c @ nodes_of (add g (ngroups c)) y @ nodes_of (add (add g (ngroups c)) (ngroups y)) n
    | _ -> [])

let lens_line line =
  match split_on '\t' line with
  | tree :: _bs :: texts :: _ ->
      let e = wrap (parse_tree tree) in
      let ng = int_of_nat (ngroups e) in
      let texts = List.map bytes_of_hex (split_on ',' texts) in
      let nodes = nodes_of O e in
      String.concat "," (List.map (fun (sub, g) ->
        let mn = ref max_int and mx = ref (-1) in
        List.iter (fun t ->
          let ti = List.map int_of_nat t in
          let arr = Array.of_list ti in
          let n = Array.length arr in
          let isb i = i = n || (arr.(i) land 0xC0) <> 0x80 in
          (* char index of every boundary *)
          let cidx = Array.make (n + 1) 0 in
          let c = ref 0 in
          for i = 0 to n do if isb i then (cidx.(i) <- !c; incr c) done;
          let cx = { c_text = t; c_pos = O; c_skipped = false } in
          for s = 0 to n do
            if isb s then
              List.iter (fun (ix', _) ->
                let j = int_of_nat ix' in
                if j <= n && isb j then begin
                  let d = cidx.(j) - cidx.(s) in
                  if d < !mn then mn := d; if d > !mx then mx := d end)
                (sem cx sub (S (length t)) g (nat_of_int s, init_caps (nat_of_int ng)))
          done) texts;
        if !mx < 0 then "-" else Printf.sprintf "%d:%d" !mn !mx) nodes)
  | _ -> failwith "lens: bad line"

(* ---------------- api ---------------- *)

let span a b = Printf.sprintf "%s-%s" (us a) (us b)
let nspan a b = Printf.sprintf "%d-%d" (int_of_nat a) (int_of_nat b)
let rterr_string = function
  | EStack -> "ERR:Runtime:StackOverflow" | ELimit -> "ERR:Runtime:BacktrackLimitExceeded"
  | EPanicked -> "PANIC" | EFuel -> "FUEL"

let rec firstn_l n l = if n <= 0 then [] else match l with [] -> [] | x :: r -> x :: firstn_l (n - 1) r

let caps_string ngroups (saves : val0 list) =
  let sv = firstn_l (2 * ngroups) saves in
  let rec go i acc = if i >= ngroups then List.rev acc else
    go (i + 1) ((match cap_get sv (nat_of_int i) with Some (a, b) -> span a b | None -> "-") :: acc) in
  String.concat "," (go 0 [])

let join_or_dash l = if l = [] then "-" else String.concat ";" l

let piece_string = function
  | PcOk (a, b) -> nspan a b
  | PcErr e -> rterr_string e
  | PcPanic -> "PANIC"

(* a panic aborts the whole call *)
let pieces_out l = if List.mem PcPanic l then "PANIC" else join_or_dash (List.map piece_string l)

let api_probe (r : regex) (limit : n option) (names : (nat list * nat) list) (t : nat list) (p : string) : string =
  let ng = int_of_nat (regex_ngroups r) in
  let srch = regex_search r max_stack_nat limit fuel_big t in
  let tl = List.length t in
  let bound = nat_of_int (tl + 6) in
  match split_on ':' p with
  | ["is_match"] -> (match srch O false with SSome _ -> "1" | SNone -> "0" | SErr e -> rterr_string e)
  | ["find"; pos] ->
      (match srch (nat_of_int (int_of_string pos)) false with
       | SSome (a :: b :: _) -> span a b | SSome _ -> "PANIC" | SNone -> "none" | SErr e -> rterr_string e)
  | ["caps"; pos] ->
      (match srch (nat_of_int (int_of_string pos)) false with
       | SSome sv -> caps_string ng sv | SNone -> "none" | SErr e -> rterr_string e)
  | ["find_iter"] ->
      join_or_dash (List.map (function ItOk (a, b, _) -> nspan a b | ItErr e -> rterr_string e)
                      (collect t srch bound m_init))
  | ["caps_iter"] ->
      join_or_dash (List.map (function ItOk (_, _, sv) -> caps_string ng sv | ItErr e -> rterr_string e)
                      (ccollect t srch bound m_init))
  | ["split"] -> pieces_out (split_collect t srch bound sp_init)
  | ["splitn"; k] ->
      pieces_out (splitn_collect t srch bound { sn_s = sp_init; sn_limit = nat_of_int (int_of_string k) })
  | ["replacen"; lim; kind; arg] ->
      let argb = bytes_of_hex arg in
      let rep (sv : val0 list) : nat list =
        match kind with
        | "T" -> if List.exists (fun b -> int_of_nat b = 36) argb
                 then expansion expander_default argb { cp_text = t; cp_saves = firstn_l (2 * ng) sv; cp_names = names }
                 else argb
        | "N" | "C" -> argb
        | _ -> (match cap_get sv O with
                | Some (V a, V b) -> firstn_l (int_of_nat b - int_of_nat a) (skipn a t)
                | _ -> []) in
      let fast = (match kind with "N" -> true | "T" -> not (List.exists (fun b -> int_of_nat b = 36) argb) | _ -> false) in
      let nx = if fast then mnext t srch else cnext t srch in
      (match try_replacen t rep nx (nat_of_int (int_of_string lim)) with
       | RBorrowed -> "B" | ROwned s -> "O:" ^ hex_of_bytes s | RErr e -> rterr_string e | RPanicR -> "PANIC")
  | ["meta"] ->
      let nm = List.sort compare (List.map (fun (n, i) -> (int_of_nat i, hex_of_bytes n)) names) in
      Printf.sprintf "len=%d;n=%d;names=%s" ng ng
        (if nm = [] then "-" else String.concat "," (List.map (fun (i, h) -> Printf.sprintf "%d:%s" i h) nm))
  | _ -> failwith ("bad probe " ^ p)

let parse_names s : (nat list * nat) list =
  if s = "-" then [] else
  List.map (fun x -> match split_on ':' x with
    | [i; h] -> (bytes_of_hex h, nat_of_int (int_of_string i)) | _ -> failwith "names") (split_on ',' s)

(* mode api: in "tree bs names text limit probes" *)
let api_line line =
  match split_on '\t' line with
  | [tree; bs; names; text; limit; probes] ->
      (match get_regex tree bs with
       | Inl er -> "new=" ^ newerr_string er
       | Inr r ->
           let t = bytes_of_hex text and names = parse_names names in
           let hd = (match r with RWrap _ -> "new=wrap" | RFancy _ -> "new=fancy") in
           String.concat "\t" (hd :: List.map (api_probe r (limit_of limit) names t)
                                        (List.filter (fun x -> x <> "") (split_on ' ' probes))))
  | _ -> failwith "api: bad line"

(* ---------------- parser model (T1) ---------------- *)

let rec tree_tokens (e : expr) (out : string list ref) : unit =
  let push s = out := s :: !out in
  match e with
  | Empty -> push "E"
  | Any nl -> push (if nl then "Y1" else "Y0")
  | Assertion a -> push (Printf.sprintf "S%d" (code_of_assertion a))
  | Literal (v, ci) -> push (Printf.sprintf "L%s:%d" (hex_of_bytes v) (if ci then 1 else 0))
  | Concat es -> push (Printf.sprintf "C%d" (List.length es)); List.iter (fun x -> tree_tokens x out) es
  | Alt es -> push (Printf.sprintf "O%d" (List.length es)); List.iter (fun x -> tree_tokens x out) es
  | Group c -> push "G"; tree_tokens c out
  | LookAround (c, la) ->
      push (Printf.sprintf "K%d" (match la with LookAhead -> 0 | LookAheadNeg -> 1 | LookBehind -> 2 | LookBehindNeg -> 3));
      tree_tokens c out
  | Repeat (c, lo, hi, gr) ->
      push (Printf.sprintf "R%s:%s:%d" (string_of_n lo) (string_of_n hi) (if gr then 1 else 0)); tree_tokens c out
  | Delegate (inner, size, ci, k) ->
      push (Printf.sprintf "D%s:%s:%d:%s" (hex_of_bytes inner) (string_of_n size) (if ci then 1 else 0)
              (match k with DNlStarEnd -> "Z" | DClass _ -> "c"))
  | Backref g -> push ("B" ^ string_of_n g)
  | AtomicGroup c -> push "T"; tree_tokens c out
  | KeepOut -> push "KO"
  | ContinueFromPreviousMatchEnd -> push "CG"
  | BackrefExistsCondition g -> push ("X" ^ string_of_n g)
  | Conditional (c, y, n) -> push "Q"; tree_tokens c out; tree_tokens y out; tree_tokens n out
  | SubroutineCall g -> push ("U" ^ string_of_n g)

let perr_string = function
  | PGeneral -> "GeneralParseError" | PUnclosedOpenParen -> "UnclosedOpenParen" | PInvalidRepeat -> "InvalidRepeat"
  | PRecursionExceeded -> "RecursionExceeded" | PTrailingBackslash -> "TrailingBackslash" | PInvalidEscape -> "InvalidEscape"
  | PUnclosedUnicodeName -> "UnclosedUnicodeName" | PInvalidHex -> "InvalidHex" | PInvalidCodepointValue -> "InvalidCodepointValue"
  | PInvalidClass -> "InvalidClass" | PUnknownFlag -> "UnknownFlag" | PNonUnicodeUnsupported -> "NonUnicodeUnsupported"
  | PInvalidBackref -> "InvalidBackref" | PTargetNotRepeatable -> "TargetNotRepeatable" | PInvalidGroupName -> "InvalidGroupName"
  | PInvalidGroupNameBackref -> "InvalidGroupNameBackref"

let parse_line line =
  let re = bytes_of_hex (String.trim line) in
  match Model.parse re with
  | POk (e, st) ->
      let out = ref [] in tree_tokens e out;
      let bs = List.sort_uniq compare (List.map (fun g -> string_of_n g) st.p_backrefs) in
      (* latest binding of each name wins (HashMap::insert) *)
      let seen = Hashtbl.create 8 in
      let names = List.filter_map (fun (nm, i) ->
        let h = hex_of_bytes nm in
        if Hashtbl.mem seen h then None else (Hashtbl.add seen h (); Some (int_of_nat i, h))) st.p_named in
      let names = List.sort compare names in
      Printf.sprintf "tree=%s\tbs=%s\tnames=%s" (String.concat " " (List.rev !out))
        (if bs = [] then "-" else String.concat "," bs)
        (if names = [] then "-" else String.concat "," (List.map (fun (i, h) -> Printf.sprintf "%d:%s" i h) names))
  | PErr (pos, e) -> Printf.sprintf "new=err:Parse:%s:%d" (perr_string e) (int_of_nat pos)
  | PNamedBackrefOnly -> "new=err:Compile:NamedBackrefOnly"
  | PPanic -> "PANIC"
  | PFuel -> "FUEL"

(* ---------------- expand / escape / oracle ---------------- *)

let xerr_string = function
  | XNamedBackrefOnly -> "Compile:NamedBackrefOnly" | XInvalidBackref -> "Compile:InvalidBackref"
  | XParseError -> "Parse:GeneralParseError:0"

(* in: kind template text saves names caplen *)
let expand_line line =
  match split_on '\t' line with
  | [kind; template; text; saves; names; caplen] ->
      let x = if kind = "p" then expander_python else expander_default in
      let tp = bytes_of_hex template in
      let sv = List.map val_of_string (split_on ',' saves) in
      let nm = parse_names names in
      let c = { cp_text = bytes_of_hex text; cp_saves = sv; cp_names = nm } in
      let e = expansion x tp c in
      let chk = (match check x tp nm (nat_of_int (int_of_string caplen)) with None -> "ok" | Some er -> xerr_string er) in
      let (esc, borrowed) = x_escape x tp in
      let back = expansion x esc c in
      Printf.sprintf "exp=%s\tcheck=%s\tesc=%s:%d:%d" (hex_of_bytes e) chk (hex_of_bytes esc)
        (if borrowed then 1 else 0) (if back = tp then 1 else 0)
  | _ -> failwith "expand: bad line"

let escape_line line =
  let s = bytes_of_hex (String.trim line) in
  let (e, borrowed) = escape s in
  Printf.sprintf "esc=%s:%d" (hex_of_bytes e) (if borrowed then 1 else 0)

let oracle_line line =
  (* in: alphabet csv; out: words and fold classes according to the model tables *)
  let alpha = List.map int_of_string (split_on ',' (String.trim line)) in
  let words = List.filter (fun c -> is_word_cp (nat_of_int c)) alpha in
  let folds = List.concat_map (fun a -> List.filter_map (fun b ->
      if a <> b && int_of_nat (fold_cp (nat_of_int a)) = int_of_nat (fold_cp (nat_of_int b))
      then Some (Printf.sprintf "%d~%d" a b) else None) alpha) alpha in
  Printf.sprintf "words=%s\tfolds=%s" (String.concat "," (List.map string_of_int words)) (String.concat "," folds)

let () =
  let mode = if Array.length Sys.argv > 1 then Sys.argv.(1) else "" in
  let f = match mode with
    | "state" -> run_state_line false
    | "stateref" -> run_state_line true
    | "prog" -> prog_line
    | "run" -> run_line
    | "parse" -> parse_line
    | "sem" -> sem_line
    | "lens" -> lens_line
    | "api" -> api_line
    | "expand" -> expand_line
    | "escape" -> escape_line
    | "oracle" -> oracle_line
    | _ -> prerr_endline "usage: frmodel <mode>"; exit 2 in
  try
    while true do
      let line = input_line stdin in
      (try print_endline (f line)
       with e -> print_endline ("DRIVER-ERROR " ^ Printexc.to_string e))
    done
  with End_of_file -> ()
