(* driver.ml — hand-written glue around the extracted model (Model): reads one case per
   line on stdin, prints one result per line on stdout.  Subcommand = argv[1]. *)
open Model

let rec nat_of_int n = if n <= 0 then O else S (nat_of_int (n - 1))
let rec int_of_nat = function O -> 0 | S n -> 1 + int_of_nat n

let split_on c s = String.split_on_char c s
let words s = List.filter (fun x -> x <> "") (split_on ' ' s)

let val_of_string s = if s = "M" then MAXV else V (nat_of_int (int_of_string s))
let string_of_val = function MAXV -> "M" | V n -> string_of_int (int_of_nat n)

let csv f l = String.concat "," (List.map f l)

(* ---------------- state (C20) ---------------- *)

let parse_op s =
  match words s with
  | ["P"; pc; ix] -> OPush (nat_of_int (int_of_string pc), nat_of_int (int_of_string ix))
  | ["O"] -> OPop
  | ["S"; sl; v] -> OSave (nat_of_int (int_of_string sl), val_of_string v)
  | ["G"; sl] -> OGet (nat_of_int (int_of_string sl))
  | ["A"; v] -> OStackPush (val_of_string v)
  | ["B"] -> OStackPop
  | ["C"] -> OCount
  | ["U"; c] -> OCut (nat_of_int (int_of_string c))
  | _ -> failwith ("bad op: " ^ s)

let string_of_out = function
  | ONone -> "-"
  | OOk b -> if b then "ok" else "overflow"
  | OPcIx (pc, ix) -> Printf.sprintf "%d:%d" (int_of_nat pc) (int_of_nat ix)
  | OVal v -> string_of_val v
  | ONat n -> string_of_int (int_of_nat n)

let dump_state (s : state) =
  Printf.sprintf "%s # %s # %s # %d"
    (csv string_of_val s.saves)
    (csv (fun b -> Printf.sprintf "%d:%d:%d" (int_of_nat b.b_pc) (int_of_nat b.b_ix) (int_of_nat b.b_ns))
       (List.rev s.stack))
    (csv (fun (sl, v) -> Printf.sprintf "%d:%s" (int_of_nat sl) (string_of_val v)) (List.rev s.old))
    (int_of_nat s.ns)

let dump_rstate (r : rstate) =
  Printf.sprintf "%s # %s # %s"
    (csv string_of_val r.r_slots) (csv string_of_val r.r_aux)
    (String.concat ";" (List.map (fun a ->
       Printf.sprintf "%d:%d:%s:%s" (int_of_nat a.a_pc) (int_of_nat a.a_ix)
         (csv string_of_val a.a_slots) (csv string_of_val a.a_aux)) r.r_alts))

(* mode "state": the concrete model, full state after every op.
   mode "stateref": the reference machine run directly on the ops, plus abs of the concrete
   state after every op (used by the witness search). *)
let run_state_line refmode line =
  match split_on '|' line with
  | [hdr; ops] ->
      let (n, m) = match words hdr with
        | [n; m] -> (int_of_string n, int_of_string m) | _ -> failwith "bad header" in
      let ops = List.filter (fun x -> String.trim x <> "") (split_on ';' ops) in
      let buf = Buffer.create 256 in
      let s = ref (st_new (nat_of_int n) (nat_of_int m)) in
      let r = ref (r_new (nat_of_int n) (nat_of_int m)) in
      (try
        List.iteri (fun i o ->
          let o = parse_op o in
          if i > 0 then Buffer.add_string buf " | ";
          if refmode then begin
            match rexec !r o with
            | None -> Buffer.add_string buf "REFSTUCK"; raise Exit
            | Some (r', x) ->
                r := r';
                Buffer.add_string buf (string_of_out x ^ " @ " ^ dump_rstate r')
          end else begin
            match exec !s o with
            | None -> Buffer.add_string buf "PANIC"; raise Exit
            | Some (s', x) ->
                s := s';
                Buffer.add_string buf (string_of_out x ^ " @ " ^ dump_state s'
                                       ^ " @ " ^ dump_rstate (abs s'))
          end) ops
      with Exit -> ());
      Buffer.contents buf
  | _ -> failwith "bad state line"

let () =
  let mode = if Array.length Sys.argv > 1 then Sys.argv.(1) else "" in
  let f = match mode with
    | "state" -> run_state_line false
    | "stateref" -> run_state_line true
    | _ -> prerr_endline "usage: frmodel <mode>"; exit 2 in
  try
    while true do
      let line = input_line stdin in
      (try print_endline (f line)
       with e -> print_endline ("DRIVER-ERROR " ^ Printexc.to_string e))
    done
  with End_of_file -> ()
