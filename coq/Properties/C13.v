(* C13 — the static size facts are sound, and GoBack counts characters.
   Statements only; proofs in Proofs/SemSound.v and Proofs/GoBack.v.
   Text: any concatenation of well-formed UTF-8 characters (what a Rust &str is), shorter than
   2^64 bytes.  Patterns: [wfe] = every literal node is one character and class nodes have
   size 1 (what the parser produces); [zok] = the "\n*$" helper of \Z only occurs directly
   under its look-around (ditto). *)
From FR Require Import Base Utf8 Utf8Facts Chars Ast Analyze Sem Vm SemSound GoBack Compile CompileCorrect EndToEnd.
From Coq Require Import NArith.

(* For EVERY sub-expression e, start state on boundaries, and result st' of the reference
   semantics: st' is again on boundaries (offset and every capture slot), it is n characters
   further, n is at least min_size e, and exactly min_size e when e is judged constant-size. *)
Theorem C13_sizes_sound : forall cs cx, valid_chars cs -> c_text cx = concat cs ->
  (N.of_nat (length (concat cs)) < usize_max)%N ->
  forall e, wfe e -> forall fuel g st st', st_ok cs st -> In st' (sem cx e fuel g st) ->
  exists n, (st_ok cs st' /\ dist cs (fst st) (fst st') n) /\
            (min_size e <= N.of_nat n)%N /\
            (zok e -> const_size e = true -> N.of_nat n = min_size e).
Proof. intros. eapply sem_sound; eauto. Qed.

(* GoBack(cnt) from a boundary: lands exactly cnt characters earlier, fails iff fewer than cnt
   characters precede the position, and never panics *)
Theorem C13_goback_chars : forall cs cx, valid_chars cs -> c_text cx = concat cs ->
  forall fuel cnt ix, bnd cs ix -> ix <= fuel ->
  match goback cx fuel cnt ix with
  | GBOk j => exists n, N.of_nat n = cnt /\ dist cs j ix n
  | GBFail => forall j n, dist cs j ix n -> (N.of_nat n < cnt)%N
  | GBPanic => False
  end.
Proof. intros. eapply goback_sound; eauto. Qed.

(* the same number of characters back from the same position is the same offset: together with
   C13_sizes_sound this is why a constant-size look-behind body ends exactly where it started *)
Theorem C13_exact : forall cs, valid_chars cs -> forall i j j' n,
  dist cs i j n -> dist cs i j' n -> j = j'.
Proof. intros. eapply dist_fun; eauto. Qed.


(* The look-behind gate.  [lbk e]: every look-behind body in e is judged constant-size, or is an
   alternation all of whose alternatives are (the compiler then splits it into one look-behind per
   alternative).  A pattern compiles to a VM program ONLY IF it has that shape, and a pattern of
   that shape is never rejected with the look-behind-not-constant error (other compile errors -
   an unsupported feature - remain possible).  Together with C13_sizes_sound ("judged constant"
   means every match has exactly that many characters) this is the first sentence of the property.
   That an accepted look-behind inspects exactly the text ending at the position is the LookAround
   case of the compiler-correctness induction (seg_lookaround, Properties/C01.v). *)
Theorem C13_lookbehind_gate : forall (bs : N -> bool) (e : expr),
  (forall p, compile bs e = inr p -> lbk e) /\
  (lbk e -> compile bs e <> inl CLookBehindNotConst).
Proof.
  intros bs e. split.
  - intros p H. unfold compile in H. destruct (visit bs e 0 false 0 (ngroups e * 2)) as [er|r] eqn:Hv; [discriminate|].
    eapply visit_lbk'; eauto.
  - intros Hk H. unfold compile in H. destruct (visit bs e 0 false 0 (ngroups e * 2)) as [er|[c n]] eqn:Hv; [|discriminate].
    inversion H; subst. exact (visit_not_lbnc [] eq_refl bs 2 (le_n 2) 1 (le_n 1) e 0 false 0 _ Hk Hv).
Qed.

(* non-vacuity: (?<=ab|c) has the shape, a look-behind over an unbounded repeat of a has not *)
Example lbk_ex :
  lbk (LookAround (Alt [Concat [Literal [97] false; Literal [98] false]; Literal [99] false]) LookBehind) /\
  ~ lbk (LookAround (Repeat (Literal [97] false) 0 usize_max true) LookBehind).
Proof.
  split.
  - cbn. split; [tauto|]. intros _. right. eexists. split; [reflexivity|]. repeat constructor.
  - cbn. intros [_ H]. destruct (H eq_refl) as [H1|(es & H1 & _)]; discriminate.
Qed.

Check C13_sizes_sound.
Check C13_goback_chars.

(* non-vacuity: "aé" is valid; (?:a|é)+ has min_size 1 and is not constant-size *)
Example ex_text : valid_chars [[97]; [195; 169]].
Proof. repeat constructor. Qed.
Example ex_facts :
  let e := Repeat (Alt [Literal [97] false; Literal [195; 169] false]) 1 usize_max true in
  wfe e /\ zok e /\ min_size e = 1%N /\ const_size e = false.
Proof. simpl. repeat split; repeat constructor. Qed.

Print Assumptions C13_sizes_sound.
Print Assumptions C13_goback_chars.
Print Assumptions C13_exact.
Print Assumptions C13_lookbehind_gate.
