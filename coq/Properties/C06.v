(* C06 — compiling terminates with Ok or Err.  Proved: the analysis sizes never exceed
   usize::MAX (the saturating arithmetic cannot overflow), to_str never reaches its panic arm on
   what the analysis hands it, and the parser model runs on fuel linear in the pattern length.
   Proved as well (Proofs/ParseIdx.v): on EVERY pattern that is valid UTF-8 the parser reaches
   none of its panic arms (every slice / index / unwrap of parse.rs is an explicit Panic outcome of
   the model): the invariant is that every index between tokens is a character boundary.
   And the model is TOTAL (Proofs/ParseFuel.v): its linear fuel never runs out - a call at offset
   ix and nesting depth d needs at most (|pattern| - ix) + 6 * (64 - d) + 6 units, because every
   loop of the parser advances by at least one byte per iteration and nesting is bounded by the
   recursion guard - so [parse] returns Ok, a ParseError inside the pattern, or NamedBackrefOnly.
   Not modelled: time, allocation and native stack of the Rust code (runtime behaviour). *)
From FR Require Import Base Utf8 Utf8Facts Ast Analyze Parse Escape ExprLemmas SemSound ParseInv ParseIdx ParseFuel Compile.
From Coq Require Import NArith Lia.

Lemma sat_add_bounded a b : (sat_add a b <= usize_max)%N.
Proof. unfold sat_add. apply N.le_min_r. Qed.
Lemma sat_mul_bounded a b : (sat_mul a b <= usize_max)%N.
Proof. unfold sat_mul. apply N.le_min_r. Qed.

(* every size the analysis computes fits in a usize, whatever numerals the pattern contains *)
Theorem C06_sizes_bounded : forall e, wfe e -> (min_size e <= usize_max)%N.
Proof.
  induction e using expr_ind'; intros Hw; try (cbn; unfold usize_max; lia).
  - (* Concat *) rewrite min_concat. rewrite wfe_concat in Hw.
    assert (Hg : forall l acc, (acc <= usize_max)%N -> (min_cat l acc <= usize_max)%N).
    { induction l as [|x r IHr]; intros acc Ha; cbn [min_cat]; auto. apply IHr. apply sat_add_bounded. }
    apply Hg. unfold usize_max. lia.
  - (* Alt *) destruct es as [|x r]; [cbn; unfold usize_max; lia|].
    rewrite min_alt_eq. inversion H; subst. rewrite wfe_alt in Hw. destruct Hw as [Hx _].
    etransitivity; [apply min_alts_le_acc|auto].
  - cbn in *. auto.
  - cbn. apply sat_mul_bounded.
  - cbn in *. destruct k; subst; unfold usize_max; lia.
  - cbn in *. auto.
  - cbn. etransitivity; [apply N.le_min_l|apply sat_add_bounded].
Qed.

Theorem C06_to_str_total : forall bs e g prec,
  acheck g e = None -> hard bs g e = false -> to_str e prec <> None.
Proof. intros. eapply to_str_total; eauto. Qed.


(* the parser never panics: for every pattern that is valid UTF-8, [parse] returns Ok, a ParseError,
   NamedBackrefOnly, or (the model's own) out-of-fuel - never the Panic outcome that stands for an
   out-of-range slice, a failed unwrap or a remove(0) on an empty vector in parse.rs; and the tree
   it returns has single well-formed characters as literals *)
Theorem C06_parse_never_panics : forall re, valid_text re -> parse re <> PPanic.
Proof. exact parse_never_panics. Qed.

Theorem C06_parse_tree_wellformed : forall re e st, valid_text re -> parse re = POk (e, st) -> wfe e.
Proof. exact parse_wfe. Qed.

(* a reported parse-error position is at most the pattern length (the defect F-errpos, repaired,
   was a violation of exactly this; the model carries the repair) *)
Theorem C06_error_position : forall re p er, valid_text re -> parse re = PErr p er -> p <= length re.
Proof. exact parse_error_position. Qed.

(* non-vacuity: a pattern with 2-byte characters, a class, an escape and a named group *)
Example ex_valid : valid_text [40; 63; 60; 195; 169; 62; 195; 169; 91; 97; 45; 122; 93; 41; 92; 107; 60; 195; 169; 62].
Proof.
  exists [[40]; [63]; [60]; [195; 169]; [62]; [195; 169]; [91]; [97]; [45]; [122]; [93]; [41]; [92]; [107]; [60]; [195; 169]; [62]].
  split; [|reflexivity]. repeat constructor; cbn; auto.
Qed.


(* the parser is total on every pattern that is valid UTF-8: a tree with well-formed literals, a
   parse error whose position is at most the pattern length, or NamedBackrefOnly; never a panic,
   never out of fuel (so the fuel of the model is no escape hatch: every parser theorem above
   speaks about a run that terminates on its own) *)
Theorem C06_parse_total : forall re, valid_text re ->
  match parse re with
  | POk (e, _) => wfe e
  | PErr p _ => p <= length re
  | PNamedBackrefOnly => True
  | PPanic | PFuel => False
  end.
Proof. exact parse_total. Qed.


(* ... and the analysis never reaches its panic (info.children[0] / min over an empty alternation):
   every alternation the parser builds has at least two alternatives (a third instance of the
   generic parser induction), so Regex::new on the model - parse, analyse, compile - returns a
   regex or an error for every pattern string; the model has no other panic outcome in
   analysis or compilation, and to_str is total on what it is given (C06_to_str_total) *)
Theorem C06_analysis_never_panics : forall re e st bs, parse re = POk (e, st) ->
  regex_new bs e <> inl (NAnalyze APanicEmptyAlt).
Proof.
  intros re e st bs Hp H. pose proof (parse_alt2 re e st Hp) as Ha.
  unfold regex_new in H. destruct (acheck 0 (wrap e)) as [er|] eqn:E.
  - inversion H; subst. apply (acheck_no_empty_alt (wrap e)) in E; [exact E|]. cbn. auto.
  - destruct (hard bs 1 e); [destruct (compile bs (wrap e))|]; discriminate.
Qed.

Theorem C06_fuel_is_linear : forall re, parse_fuel re = 12 * (length re + 80).
Proof. reflexivity. Qed.

(* the witnesses of the two repaired parser defects, on the model *)
Example ex_errpos : parse [40; 63; 35; 92] = PErr 4 PUnclosedOpenParen.
Proof. vm_compute. reflexivity. Qed.
Example ex_bitset :
  match parse [40; 97; 41; 92; 107; 60; 57; 57; 57; 57; 57; 57; 57; 57; 57; 57; 57; 62] with
  | PErr _ PInvalidGroupNameBackref => True | _ => False end.
Proof. vm_compute. exact I. Qed.

Print Assumptions C06_sizes_bounded.
Print Assumptions C06_to_str_total.
Print Assumptions C06_fuel_is_linear.
Print Assumptions C06_parse_never_panics.
Print Assumptions C06_parse_tree_wellformed.
Print Assumptions C06_error_position.
Print Assumptions C06_parse_total.
Print Assumptions C06_analysis_never_panics.
