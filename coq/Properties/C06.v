(* C06 — compiling terminates with Ok or Err.  Proved: the analysis sizes never exceed
   usize::MAX (the saturating arithmetic cannot overflow), to_str never reaches its panic arm on
   what the analysis hands it, and the parser model runs on fuel linear in the pattern length.
   Validated (T1 + Regex::new under catch_unwind / address-space limit), not proved: that no
   panic arm of the parser is reachable and that the linear fuel always suffices. *)
From FR Require Import Base Utf8 Ast Analyze Parse Escape ExprLemmas SemSound.
From Coq Require Import NArith Lia.

Lemma sat_add_bounded a b : (sat_add a b <= usize_max)%N.
Proof. unfold sat_add. apply N.le_min_r. Qed.
Lemma sat_mul_bounded a b : (sat_mul a b <= usize_max)%N.
Proof. unfold sat_mul. apply N.le_min_r. Qed.

(* every size the analysis computes fits in a usize, whatever numerals the pattern contains *)
Theorem C06_sizes_bounded : forall e, wfe e -> (min_size e <= usize_max)%N.
Proof.
  induction e using expr_ind'; intros Hw; try (cbn; unfold usize_max; lia).
  - (* Concat *) rewrite min_concat. rewrite wfe_concat in Hw.
    assert (Hg : forall l acc, (acc <= usize_max)%N -> (min_cat l acc <= usize_max)%N).
    { induction l as [|x r IHr]; intros acc Ha; cbn [min_cat]; auto. apply IHr. apply sat_add_bounded. }
    apply Hg. unfold usize_max. lia.
  - (* Alt *) destruct es as [|x r]; [cbn; unfold usize_max; lia|].
    rewrite min_alt_eq. inversion H; subst. rewrite wfe_alt in Hw. destruct Hw as [Hx _].
    etransitivity; [apply min_alts_le_acc|auto].
  - cbn in *. auto.
  - cbn. apply sat_mul_bounded.
  - cbn in *. destruct k; subst; unfold usize_max; lia.
  - cbn in *. auto.
  - cbn. etransitivity; [apply N.le_min_l|apply sat_add_bounded].
Qed.

Theorem C06_to_str_total : forall bs e g prec,
  acheck g e = None -> hard bs g e = false -> to_str e prec <> None.
Proof. intros. eapply to_str_total; eauto. Qed.

Theorem C06_fuel_is_linear : forall re, parse_fuel re = 12 * (length re + 80).
Proof. reflexivity. Qed.

(* the witnesses of the two repaired parser defects, on the model *)
Example ex_errpos : parse [40; 63; 35; 92] = PErr 4 PUnclosedOpenParen.
Proof. vm_compute. reflexivity. Qed.
Example ex_bitset :
  match parse [40; 97; 41; 92; 107; 60; 57; 57; 57; 57; 57; 57; 57; 57; 57; 57; 57; 62] with
  | PErr _ PInvalidGroupNameBackref => True | _ => False end.
Proof. vm_compute. exact I. Qed.

Print Assumptions C06_sizes_bounded.
Print Assumptions C06_to_str_total.
Print Assumptions C06_fuel_is_linear.
