(* C07 — limit errors only when the limit is really exceeded; the stack bound.
   Statements only; proofs in Proofs/VmLimits.v.  They hold for EVERY program (compiled or not),
   text, start offset, option flags and amount of fuel. *)
From FR Require Import Base State Utf8 Utf8Facts Ast Analyze Sem Vm Compile Api VmLimits CompileCorrect Terminates Parse ParseInv FromPattern.
From Coq Require Import NArith.

(* with backtrack limit L a run returns BacktrackLimitExceeded or exactly the unlimited run *)
Theorem C07_limit_prefix : forall cx p mx L fuel,
  fst (vm_run cx p mx (Some L) fuel) = RErrLimit \/
  vm_run cx p mx (Some L) fuel = vm_run cx p mx None fuel.
Proof. intros. apply limit_prefix. Qed.

(* it returns the unlimited answer for every L at least the number of backtracks that run needs *)
Theorem C07_limit_enough : forall cx p mx L fuel,
  (n_back (snd (vm_run cx p mx None fuel)) <= L)%N ->
  vm_run cx p mx (Some L) fuel = vm_run cx p mx None fuel.
Proof. intros. apply limit_enough; auto. Qed.

(* and reports the limit only if the unlimited run takes more than L backtracks *)
Theorem C07_limit_fires_only_if : forall cx p mx L fuel,
  fst (vm_run cx p mx (Some L) fuel) = RErrLimit ->
  (L < n_back (snd (vm_run cx p mx None fuel)))%N.
Proof. intros. apply limit_fires_only_if; auto. Qed.

(* the branch stack never grows beyond max_stack (a push beyond it is StackOverflow) *)
Theorem C07_stack_bound : forall cx p mx lim fuel,
  peak (snd (vm_run cx p mx lim fuel)) <= mx.
Proof.
  intros. apply peak_bound; simpl; [|apply Nat.le_0_l].
  split; simpl; [apply Nat.le_0_l|reflexivity].
Qed.

Check C07_limit_prefix : forall cx p mx L fuel,
  fst (vm_run cx p mx (Some L) fuel) = RErrLimit \/
  vm_run cx p mx (Some L) fuel = vm_run cx p mx None fuel.
Check C07_limit_enough : forall cx p mx L fuel,
  (n_back (snd (vm_run cx p mx None fuel)) <= L)%N ->
  vm_run cx p mx (Some L) fuel = vm_run cx p mx None fuel.
Check C07_limit_fires_only_if : forall cx p mx L fuel,
  fst (vm_run cx p mx (Some L) fuel) = RErrLimit ->
  (L < n_back (snd (vm_run cx p mx None fuel)))%N.
Check C07_stack_bound : forall cx p mx lim fuel, peak (snd (vm_run cx p mx lim fuel)) <= mx.

(* non-vacuity: a program that backtracks; limit 0 fires, limit 1 is enough *)
Definition ex_prog : prog :=
  {| p_body := [ISplit 1 3; ILit [98]; IJmp 4; ILit [97]; IEnd]; p_nsaves := 0 |}.
Definition ex_cx : ctx := {| c_text := [97]; c_pos := 0; c_skipped := false |}.
Example ex_limit0 : fst (vm_run ex_cx ex_prog 10 (Some 0%N) 20) = RErrLimit.
Proof. vm_compute. reflexivity. Qed.
Example ex_limit1 : fst (vm_run ex_cx ex_prog 10 (Some 1%N) 20) = RMatch [].
Proof. vm_compute. reflexivity. Qed.
Example ex_unlimited : n_back (snd (vm_run ex_cx ex_prog 10 None 20)) = 1%N.
Proof. vm_compute. reflexivity. Qed.

Print Assumptions C07_limit_prefix.
Print Assumptions C07_limit_enough.
Print Assumptions C07_limit_fires_only_if.
Print Assumptions C07_stack_bound.

(* searches terminate: for every compiled program of a pattern in scope (no conditional under an
   atomic cut), every valid UTF-8 text, boundary offset, stack bound and backtrack limit there is a
   step budget from which on the VM loop has always returned - with a match, no match,
   StackOverflow or BacktrackLimitExceeded; it neither runs on nor reaches a panic site.  The
   loop's fuel is the model's only addition to vm::run, so this is termination of the real loop. *)
Theorem C07_vm_terminates : forall cs : list (list nat), valid_chars cs ->
  forall cx : ctx, c_text cx = concat cs -> (N.of_nat (length (concat cs)) < usize_max)%N ->
  bnd cs (c_pos cx) ->
  forall (bs : N -> bool) (e : expr) (p : prog),
  compile bs (wrap e) = inr p -> oke true 0 (wrap e) ->
  forall (max_st : nat) (lim : option N),
  exists n, forall fuelv, n <= fuelv ->
  match fst (vm_run cx p max_st lim fuelv) with
  | RMatch _ | RNoMatch | RErrStack | RErrLimit => True
  | _ => False
  end.
Proof. exact vm_terminates. Qed.
Check C07_vm_terminates : forall cs : list (list nat), valid_chars cs ->
  forall cx : ctx, c_text cx = concat cs -> (N.of_nat (length (concat cs)) < usize_max)%N ->
  bnd cs (c_pos cx) ->
  forall (bs : N -> bool) (e : expr) (p : prog),
  compile bs (wrap e) = inr p -> oke true 0 (wrap e) ->
  forall (max_st : nat) (lim : option N),
  exists n, forall fuelv, n <= fuelv ->
  match fst (vm_run cx p max_st lim fuelv) with
  | RMatch _ | RNoMatch | RErrStack | RErrLimit => True
  | _ => False
  end.
Print Assumptions C07_vm_terminates.

(* the same from the pattern STRING: any valid UTF-8 pattern that parses and that Regex::new sends
   to the VM, with no conditional under an atomic cut *)
Theorem C07_terminates_from_pattern_string : forall (re : list nat), valid_text re ->
  forall (e : expr) (st : pst), parse re = POk (e, st) ->
  condok true e ->
  forall (p : prog) (n : nat), regex_new (bs_of st) e = inr (RFancy p n) ->
  forall cs : list (list nat), valid_chars cs ->
  forall cx : ctx, c_text cx = concat cs -> (N.of_nat (length (concat cs)) < usize_max)%N ->
  bnd cs (c_pos cx) ->
  forall (max_st : nat) (lim : option N),
  exists n0, forall fuelv, n0 <= fuelv ->
  match fst (vm_run cx p max_st lim fuelv) with
  | RMatch _ | RNoMatch | RErrStack | RErrLimit => True
  | _ => False
  end.
Proof. exact pattern_vm_terminates. Qed.
Check C07_terminates_from_pattern_string : forall (re : list nat), valid_text re ->
  forall (e : expr) (st : pst), parse re = POk (e, st) ->
  condok true e ->
  forall (p : prog) (n : nat), regex_new (bs_of st) e = inr (RFancy p n) ->
  forall cs : list (list nat), valid_chars cs ->
  forall cx : ctx, c_text cx = concat cs -> (N.of_nat (length (concat cs)) < usize_max)%N ->
  bnd cs (c_pos cx) ->
  forall (max_st : nat) (lim : option N),
  exists n0, forall fuelv, n0 <= fuelv ->
  match fst (vm_run cx p max_st lim fuelv) with
  | RMatch _ | RNoMatch | RErrStack | RErrLimit => True
  | _ => False
  end.
Print Assumptions C07_terminates_from_pattern_string.
