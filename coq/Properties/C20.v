(* C20 — backtracking restores, and atomic commit preserves, exactly the right state.
   This file only pins statements; proofs live in Proofs/StateRefine.v. *)
From FR Require Import Base State StateRefine Utf8 Ast Sem Vm Machine.

(* Every operation the whole-state-copy reference machine can perform is performed by the
   copy-on-write state of vm.rs without a panic, with the same output, and lands in the state
   whose abstraction is the reference result; well-formedness is preserved. *)
Theorem C20_refines_op : forall s o r' x,
  WF s -> rexec (abs s) o = Some (r', x) ->
  exists s', exec s o = Some (s', x) /\ abs s' = r' /\ WF s'.
Proof. exact sim_step. Qed.

(* ... hence for every history of operations from the initial state, of any length, over any
   number of slots and any values. *)
Theorem C20_all_histories : forall n_saves max_stack ops r' xs,
  rexec_all (r_new n_saves max_stack) ops = Some (r', xs) ->
  exists s', exec_all (st_new n_saves max_stack) ops = Some (s', xs) /\ abs s' = r' /\ WF s'.
Proof.
  intros n m ops r' xs H. apply sim_all; [apply WF_new|]. now rewrite abs_new.
Qed.

Check C20_refines_op : forall s o r' x,
  WF s -> rexec (abs s) o = Some (r', x) ->
  exists s', exec s o = Some (s', x) /\ abs s' = r' /\ WF s'.
Check C20_all_histories : forall n_saves max_stack ops r' xs,
  rexec_all (r_new n_saves max_stack) ops = Some (r', xs) ->
  exists s', exec_all (st_new n_saves max_stack) ops = Some (s', xs) /\ abs s' = r' /\ WF s'.

(* Non-vacuity: the hand-written cut tests of vm.rs and an auxiliary-stack history are
   instances, and the reference machine accepts them (so the premise is satisfiable). *)
Definition ex_cut_simple : list op :=
  [OSave 0 (V 1); OSave 1 (V 2); OCount; OPush 0 0; OSave 0 (V 3); OCount;
   OPush 1 1; OSave 1 (V 4); OPush 2 2; OSave 0 (V 5); OCut 1; OGet 0; OGet 1; OPop; OGet 0; OGet 1].
Example ex_cut_simple_ref :
  option_map snd (rexec_all (r_new 2 10) ex_cut_simple) =
  Some [ONone; ONone; ONat 0; OOk true; ONone; ONat 1; OOk true; ONone; OOk true; ONone; ONone;
        OVal (V 5); OVal (V 4); OPcIx 0 0; OVal (V 1); OVal (V 2)].
Proof. vm_compute. reflexivity. Qed.
Example ex_cut_simple_impl :
  option_map snd (exec_all (st_new 2 10) ex_cut_simple) =
  option_map snd (rexec_all (r_new 2 10) ex_cut_simple).
Proof. vm_compute. reflexivity. Qed.

Definition ex_aux : list op :=
  [OStackPush (V 7); OPush 5 5; OStackPush (V 8); OStackPop; OStackPop; OStackPush (V 9);
   OPop; OStackPop].
Example ex_aux_ref :
  option_map snd (rexec_all (r_new 1 10) ex_aux) =
  Some [ONone; OOk true; ONone; OVal (V 8); OVal (V 7); ONone; OPcIx 5 5; OVal (V 7)].
Proof. vm_compute. reflexivity. Qed.
Example ex_aux_impl :
  option_map snd (exec_all (st_new 1 10) ex_aux) = option_map snd (rexec_all (r_new 1 10) ex_aux).
Proof. vm_compute. reflexivity. Qed.

Print Assumptions C20_refines_op.
Print Assumptions C20_all_histories.

(* Program level: a negative look-around's failure (the pop loop of Insn::FailNegativeLookAround over
   the reference state) discards exactly the alternatives F created since the look-around was
   entered - the frames above the NEAREST frame whose pc is the look-around's own branch - together
   with that frame, reinstates that frame's slots and auxiliary stack, and leaves every older
   alternative K untouched, including older ones with the same target pc.  (That the compiled code
   only ever has frames with other pcs above the own branch is part of the C01 chain:
   CompileCorrect.neg_wrap.) *)
Theorem C20_fnla_pops_to_own_branch : forall (M target : nat) (F : list alt) (fuel : nat) (sl aux : list val) (a : alt) (K : list alt),
  length F < fuel -> Forall (fun b : alt => a_pc b <> target) F -> a_pc a = target ->
  fnla rstate iface1u fuel (mkr M sl aux (F ++ a :: K)) target = Some (mkr M (a_slots a) (a_aux a) K).
Proof. exact fnla_pops. Qed.
Theorem C20_fnla_step : forall (cx : ctx) (P : list insn) (M pc ix : nat) (sl aux : list val) (F : list alt) (a : alt) (K : list alt),
  at_ P pc IFailNegativeLookAround -> Forall (fun b : alt => a_pc b <> S pc) F -> a_pc a = S pc ->
  mstep cx P M (Run pc ix sl aux (F ++ a :: K)) = Fail K.
Proof. exact step_fnla. Qed.
Check C20_fnla_pops_to_own_branch : forall (M target : nat) (F : list alt) (fuel : nat) (sl aux : list val) (a : alt) (K : list alt),
  length F < fuel -> Forall (fun b : alt => a_pc b <> target) F -> a_pc a = target ->
  fnla rstate iface1u fuel (mkr M sl aux (F ++ a :: K)) target = Some (mkr M (a_slots a) (a_aux a) K).
Check C20_fnla_step : forall (cx : ctx) (P : list insn) (M pc ix : nat) (sl aux : list val) (F : list alt) (a : alt) (K : list alt),
  at_ P pc IFailNegativeLookAround -> Forall (fun b : alt => a_pc b <> S pc) F -> a_pc a = S pc ->
  mstep cx P M (Run pc ix sl aux (F ++ a :: K)) = Fail K.
Print Assumptions C20_fnla_pops_to_own_branch.
Print Assumptions C20_fnla_step.

(* non-vacuity, and the situation a "find my own branch from the bottom of the stack" slip gets wrong:
   two pending alternatives share the target pc 7; the failure discards the frame above and the
   NEAREST one, restores its slots, and keeps the older one *)
Example C20_fnla_ex :
  let fr pc sl := {| a_pc := pc; a_ix := 0; a_slots := sl; a_aux := [] |} in
  fnla rstate iface1u 5 (mkr 10 [V 9] [] [fr 3 [V 8]; fr 7 [V 1]; fr 7 [V 2]]) 7 = Some (mkr 10 [V 1] [] [fr 7 [V 2]]).
Proof. vm_compute. reflexivity. Qed.
