(* C14 — builder options.  The hand-written model has no builder options as inputs on the VM
   path because the code does not use them there (Compiler::new takes RegexOptions::default(),
   the parser starts from FLAG_UNICODE only): that is the known findings F-builder-casei and
   F-builder-limits, decided on the real crate.  What the model can state is proved:
   the backtrack limit acts on every program alike (C07), and on the parser model the inline
   flag group (?i) scopes as documented. *)
From FR Require Import Base State Utf8 Ast Analyze Parse Vm VmLimits.
From Coq Require Import NArith.

Theorem C14_limit_is_uniform : forall cx p mx L fuel,
  fst (vm_run cx p mx (Some L) fuel) = RErrLimit \/
  vm_run cx p mx (Some L) fuel = vm_run cx p mx None fuel.
Proof. intros. apply limit_prefix. Qed.

(* (?i)ab, (?i:ab) and (?i)a(?-i:b)|... on the parser model: the flag reaches exactly its scope *)
Theorem C14_casei_spelling_on_model :
  (* "(?i)ab" *)
  option_map fst (match parse [40;63;105;41;97;98] with POk r => Some r | _ => None end)
    = Some (Concat [Literal [97] true; Literal [98] true]) /\
  (* "(?i:a)b" *)
  option_map fst (match parse [40;63;105;58;97;41;98] with POk r => Some r | _ => None end)
    = Some (Concat [Literal [97] true; Literal [98] false]) /\
  (* "(?i)a(?-i:b)c" *)
  option_map fst (match parse [40;63;105;41;97;40;63;45;105;58;98;41;99] with POk r => Some r | _ => None end)
    = Some (Concat [Literal [97] true; Literal [98] false; Literal [99] true]).
Proof. vm_compute. repeat split. Qed.

Print Assumptions C14_limit_is_uniform.
Print Assumptions C14_casei_spelling_on_model.
