(* C10 — split and splitn partition the text around the find_iter matches.
   [yields m_init l]: the iterator yields exactly the items l and then None. *)
From FR Require Import Base Utf8 Api ApiProofs.
From FR Require Import State Utf8Facts Chars Ast Analyze Sem SemSound Vm Compile Param ArrowA CompileCorrect KeepOut EndToEnd ApiVm.
From Coq Require Import NArith Lia.


Section C10.
Variable tx : text.
Variable search : nat -> bool -> sres.
Hypothesis HOK : SearchOK tx search.
Hypothesis Hfuel : forall p f, search p f <> SErr EFuel.

(* the complete sequence of matches exists (the iterator terminates) *)
Theorem C10_matches_exist : exists l, yields tx search m_init l /\ l = collect tx search (length tx + 3) m_init.
Proof. apply yields_exists; auto. Qed.

(* split yields exactly the substrings between consecutive matches, for every prefix of calls *)
Theorem C10_split_pieces : forall l, yields tx search m_init l ->
  forall n, split_collect tx search n sp_init = firstn n (pieces tx 0 l).
Proof. intros l Hy n. apply (split_pieces tx search HOK Hfuel l m_init 0 Hy); apply Nat.le_0_l. Qed.

(* one more piece than matches *)
Theorem C10_count : forall l, no_err l -> length (pieces tx 0 l) = S (length l).
Proof. intros. apply pieces_count; auto. Qed.

(* interleaving the pieces with the matched texts rebuilds the input *)
Theorem C10_rebuild : forall l, yields tx search m_init l -> no_err l -> rebuild tx 0 l = tx.
Proof.
  intros l Hy Hn. rewrite (rebuild_text tx l 0); auto; [|apply Nat.le_0_l].
  pose proof (yields_det tx search _ _ Hy (length l)) as Hd. rewrite firstn_all in Hd. rewrite <- Hd.
  apply (collect_chain tx search HOK Hfuel (length l) m_init).
Qed.

(* no slice Split takes is out of order, out of range or off a character boundary *)
Theorem C10_split_safe : is_boundary tx 0 = true -> forall l, yields tx search m_init l ->
  Forall (fun p => p <> PcPanic) (pieces tx 0 l).
Proof.
  intros Hb l Hy. apply pieces_safe; auto; [|apply Nat.le_0_l].
  pose proof (yields_det tx search _ _ Hy (length l)) as Hd. rewrite firstn_all in Hd. rewrite <- Hd.
  apply (collect_chain tx search HOK Hfuel (length l) m_init).
Qed.

(* splitn k: nothing for k = 0; otherwise the first k-1 pieces of split followed by the
   untouched remainder (when there is one), for every prefix of calls *)
Theorem C10_splitn : forall k l, yields tx search m_init l -> no_err l ->
  forall n, splitn_collect tx search n {| sn_s := sp_init; sn_limit := k |} =
            firstn n (match k with
                      | 0 => []
                      | S k' => firstn k' (pieces tx 0 l) ++
                                (if k' <=? length l
                                 then [slice_ok tx (start_after tx 0 l k') (length tx)] else [])
                      end).
Proof. intros k l Hy Hn n. apply (splitn_spec tx search HOK k l m_init 0 Hy Hn); apply Nat.le_0_l. Qed.
End C10.

Check C10_split_pieces : forall tx search, SearchOK tx search -> (forall p f, search p f <> SErr EFuel) ->
  forall l, yields tx search m_init l ->
  forall n, split_collect tx search n sp_init = firstn n (pieces tx 0 l).
Check C10_rebuild : forall tx search, SearchOK tx search -> (forall p f, search p f <> SErr EFuel) ->
  forall l, yields tx search m_init l -> no_err l -> rebuild tx 0 l = tx.
Check C10_count : forall tx l, no_err l -> length (pieces tx 0 l) = S (length l).


(* ---- for the COMPILED search (Proofs/ApiVm.v): SearchOK is proved, not assumed ---- *)
Theorem C10_vm_split_pieces : forall cs bs e p, VmScope cs bs e p ->
  forall ng max_st limit fuelv,
  (forall pos f, vsearch cs p ng max_st limit fuelv pos f <> SErr EFuel) ->
  forall n, split_collect (concat cs) (vsearch cs p ng max_st limit fuelv) n sp_init = firstn n (pieces (concat cs) 0 (vm_matches cs p ng max_st limit fuelv)).
Proof. intros cs bs e p (W & Hl & Hc & Ho & Hr & Hk) ng max_st limit fuelv Hnf n. eapply vm_split_pieces; eauto. Qed.

Theorem C10_vm_rebuild : forall cs bs e p, VmScope cs bs e p ->
  forall ng max_st limit fuelv,
  (forall pos f, vsearch cs p ng max_st limit fuelv pos f <> SErr EFuel) ->
  no_err (vm_matches cs p ng max_st limit fuelv) -> rebuild (concat cs) 0 (vm_matches cs p ng max_st limit fuelv) = (concat cs).
Proof. intros cs bs e p (W & Hl & Hc & Ho & Hr & Hk) ng max_st limit fuelv Hnf Hne. eapply vm_split_rebuild; eauto. Qed.

Theorem C10_vm_splitn : forall cs bs e p, VmScope cs bs e p ->
  forall ng max_st limit fuelv,
  (forall pos f, vsearch cs p ng max_st limit fuelv pos f <> SErr EFuel) ->
  forall k n, no_err (vm_matches cs p ng max_st limit fuelv) ->
  splitn_collect (concat cs) (vsearch cs p ng max_st limit fuelv) n {| sn_s := sp_init; sn_limit := k |} =
  firstn n (match k with
            | 0 => []
            | S k' => firstn k' (pieces (concat cs) 0 (vm_matches cs p ng max_st limit fuelv)) ++
                      (if k' <=? length (vm_matches cs p ng max_st limit fuelv)
                       then [pc_slice (concat cs) (start_after (concat cs) 0 (vm_matches cs p ng max_st limit fuelv) k') (length (concat cs))] else [])
            end).
From FR Require Import ApiTotal.
Proof. intros cs bs e p (W & Hl & Hc & Ho & Hr & Hk) ng max_st limit fuelv Hnf k n Hne. eapply vm_splitn; eauto. Qed.

Print Assumptions C10_matches_exist.
Print Assumptions C10_split_pieces.
Print Assumptions C10_count.
Print Assumptions C10_rebuild.
Print Assumptions C10_split_safe.
Print Assumptions C10_splitn.
Print Assumptions C10_vm_split_pieces.
Print Assumptions C10_vm_rebuild.
Print Assumptions C10_vm_splitn.

(* split over a VM-compiled regex, with no assumption on the model's step budget: from some budget
   on, the pieces are exactly the text between the matches of the compiled search, and no piece
   computation panics *)
Theorem C10_vm_split_total : forall cs bs e p, VmScope cs bs e p ->
  forall ng max_st limit, exists n0, forall fuelv, n0 <= fuelv ->
  forall n, split_collect (concat cs) (vsearch cs p ng max_st limit fuelv) n sp_init =
            firstn n (pieces (concat cs) 0 (vm_matches cs p ng max_st limit fuelv)) /\
            Forall (fun pc => pc <> PcPanic) (split_collect (concat cs) (vsearch cs p ng max_st limit fuelv) n sp_init).
Proof.
  intros cs bs e p HS ng max_st limit. destruct (vm_api_total cs bs e p HS ng max_st limit) as [n0 H].
  exists n0. intros fuelv Hf n. destruct (H fuelv Hf) as (_ & Hsp & _). exact (Hsp n).
Qed.
Check C10_vm_split_total : forall cs bs e p, VmScope cs bs e p ->
  forall ng max_st limit, exists n0, forall fuelv, n0 <= fuelv ->
  forall n, split_collect (concat cs) (vsearch cs p ng max_st limit fuelv) n sp_init =
            firstn n (pieces (concat cs) 0 (vm_matches cs p ng max_st limit fuelv)) /\
            Forall (fun pc => pc <> PcPanic) (split_collect (concat cs) (vsearch cs p ng max_st limit fuelv) n sp_init).
Print Assumptions C10_vm_split_total.
