(* C02 — capture groups equal those of the reference semantics' winning path.
   Statements only; same proofs and same scope as C01 (see Properties/C01.v): the capture vector
   the VM reports IS the capture vector of the first result of the reference semantics — every
   group, slot by slot (last iteration that entered the group, MAXV = None for groups that never
   participated, spans set inside look-arounds kept, nothing left from abandoned alternatives:
   all of that is what [sem] computes). *)
From FR Require Import Base State Utf8 Utf8Facts Chars Ast Analyze Sem SemSound Vm Compile
                       Machine Param ArrowA CompileCorrect RunCorrect EndToEnd ExprLemmas.
From Coq Require Import NArith Lia.

Theorem C02_groups_follow_reference :
  forall cs : list (list nat), valid_chars cs ->
  forall cx : ctx, c_text cx = concat cs ->
  (N.of_nat (length (concat cs)) < usize_max)%N ->
  bnd cs (c_pos cx) ->
  forall (bs : N -> bool) (e : expr) (p : prog),
  compile bs (wrap e) = inr p -> okdeleg (p_body p) -> oke true 0 (wrap e) ->
  forall fuel : nat, length (concat cs) < fuel ->
  forall (max_st : nat) (lim : option N) (fuelv : nat) sv,
  fst (vm_run cx p max_st lim fuelv) = RMatch sv ->
  exists caps, search_list cx e fuel = Some caps /\
    forall g, g < S (ngroups e) ->
      nth_error sv (2 * g) = nth_error caps (2 * g) /\
      nth_error sv (2 * g + 1) = nth_error caps (2 * g + 1).
Proof.
  intros cs W cx Ht Hl Hp bs e p Hc Hn Ho fuel Hf max_st lim fuelv sv Hr.
  pose proof (vm_agrees_with_reference cs W cx Ht Hl Hp bs e p Hc Hn Ho fuel Hf max_st lim fuelv) as H.
  rewrite Hr in H. eexists; split; [exact H|]. intros g Hg.
  rewrite !nth_error_firstn' by lia. auto.
Qed.


(* the same for EVERY compiled program (delegated blocks with capture groups included: the
   Delegate instruction copies the block's group spans into the slots, Proofs/DelegStep.v) *)
Theorem C02_groups_follow_reference_all :
  forall cs : list (list nat), valid_chars cs ->
  forall cx : ctx, c_text cx = concat cs ->
  (N.of_nat (length (concat cs)) < usize_max)%N ->
  bnd cs (c_pos cx) ->
  forall (bs : N -> bool) (e : expr) (p : prog),
  compile bs (wrap e) = inr p -> oke true 0 (wrap e) -> refs_ok True (refd bs) (wrap e) ->
  forall (max_st : nat) (lim : option N) (fuelv : nat) sv,
  fst (vm_run cx p max_st lim fuelv) = RMatch sv ->
  exists caps, search_list cx e (S (length (c_text cx))) = Some caps /\
    forall g, g < S (ngroups e) ->
      nth_error sv (2 * g) = nth_error caps (2 * g) /\
      nth_error sv (2 * g + 1) = nth_error caps (2 * g + 1).
Proof.
  intros cs W cx Ht Hl Hp bs e p Hc Ho Hr max_st lim fuelv sv Hrun.
  pose proof (vm_agrees_with_reference_all cs W cx Ht Hl Hp bs e p Hc Ho Hr max_st lim fuelv) as H.
  rewrite Hrun in H. eexists; split; [exact H|]. intros g Hg.
  rewrite !nth_error_firstn' by lia. auto.
Qed.

(* the groups of the pattern are numbered in pre-order = opening-parenthesis order *)
Check ngroups_wrap.

Print Assumptions C02_groups_follow_reference.
Print Assumptions C02_groups_follow_reference_all.
