(* C03 — results do not depend on how the pattern is split between VM and automata.
   Reference-semantics half (proved): inserting (?=) before or after any sub-expression, at any
   depth and at any number of sites, changes neither the group numbering nor the denotation of
   any sub-expression, hence not the search result nor any capture group.  And the hand-off is
   total: an expression the analysis judges easy never reaches to_str's panic arm.
   Statements only; proofs in Proofs/Inject.v and Proofs/ExprLemmas.v. *)
From FR Require Import Base Utf8 Ast Analyze Sem Escape ExprLemmas SemSound Inject.

Theorem C03_inject_sem : forall cx e e', inj e e' ->
  ngroups e' = ngroups e /\ forall fuel g st, sem cx e' fuel g st = sem cx e fuel g st.
Proof. intros cx e e' H. exact (inj_same_sem cx e e' H). Qed.

Theorem C03_inject_search : forall cx e e' fuel, inj e e' ->
  search_list cx e' fuel = search_list cx e fuel.
Proof. intros. now apply inj_search. Qed.

Theorem C03_to_str_total : forall bs e g prec,
  acheck g e = None -> hard bs g e = false -> to_str e prec <> None.
Proof. intros. eapply to_str_total; eauto. Qed.

Check C03_inject_sem : forall cx e e', inj e e' ->
  ngroups e' = ngroups e /\ forall fuel g st, sem cx e' fuel g st = sem cx e fuel g st.
Check C03_inject_search : forall cx e e' fuel, inj e e' -> search_list cx e' fuel = search_list cx e fuel.

(* non-vacuity: (a|ab)(c) with (?=) inserted before the group and inside the alternation *)
Example ex_inj :
  inj (Concat [Group (Alt [Literal [97] false; Literal [97; 98] false]); Group (Literal [99] false)])
      (Concat [LA; Group (Alt [Concat [LA; Literal [97] false]; Literal [97; 98] false]);
               Group (Literal [99] false)]).
Proof.
  apply (inj_insert [] _ [] _); [constructor|].
  constructor; [|constructor; [apply inj_same|constructor]].
  apply inj_group. apply inj_alt. constructor; [apply inj_before, inj_same|].
  constructor; [apply inj_same|constructor].
Qed.

Print Assumptions C03_inject_sem.
Print Assumptions C03_inject_search.
Print Assumptions C03_to_str_total.
