(* C03 — results do not depend on how the pattern is split between VM and automata.
   Reference-semantics half (proved): inserting (?=) before or after any sub-expression, at any
   depth and at any number of sites, changes neither the group numbering nor the denotation of
   any sub-expression, hence not the search result nor any capture group.  And the hand-off is
   total: an expression the analysis judges easy never reaches to_str's panic arm.
   Statements only; proofs in Proofs/Inject.v and Proofs/ExprLemmas.v. *)
From FR Require Import Base State Utf8 Utf8Facts Chars Ast Analyze Sem Escape ExprLemmas SemSound Inject
                       Vm Compile Machine Param ArrowA CompileCorrect RunCorrect EndToEnd.
From Coq Require Import NArith Lia.

Theorem C03_inject_sem : forall cx e e', inj e e' ->
  ngroups e' = ngroups e /\ forall fuel g st, sem cx e' fuel g st = sem cx e fuel g st.
Proof. intros cx e e' H. exact (inj_same_sem cx e e' H). Qed.

Theorem C03_inject_search : forall cx e e' fuel, inj e e' ->
  search_list cx e' fuel = search_list cx e fuel.
Proof. intros. now apply inj_search. Qed.


(* VM half (proved, Proofs/EndToEnd.v stage 3): the two spellings are compiled to DIFFERENT
   programs - the injected (?=) moves the delegation boundaries - and whenever both runs come to
   a verdict (neither gives up on its stack bound or backtrack limit), the verdicts and every
   capture slot are the same: each program follows the reference search of its own tree, and
   the reference searches coincide.  [oke] / [refs_ok]: see Properties/C01.v. *)
Theorem C03_vm_split_independent :
  forall cs : list (list nat), valid_chars cs ->
  forall cx : ctx, c_text cx = concat cs -> (N.of_nat (length (concat cs)) < usize_max)%N ->
  bnd cs (c_pos cx) ->
  forall (bs : N -> bool) (e e' : expr) (p p' : prog), inj e e' ->
  compile bs (wrap e) = inr p -> oke true 0 (wrap e) -> refs_ok True (refd bs) (wrap e) ->
  compile bs (wrap e') = inr p' -> oke true 0 (wrap e') -> refs_ok True (refd bs) (wrap e') ->
  forall max_st lim fuelv max_st' lim' fuelv',
  match fst (vm_run cx p max_st lim fuelv), fst (vm_run cx p' max_st' lim' fuelv') with
  | RMatch sv, RMatch sv' => firstn (2 * S (ngroups e)) sv = firstn (2 * S (ngroups e)) sv'
  | RNoMatch, RNoMatch => True
  | RMatch _, RNoMatch | RNoMatch, RMatch _ => False
  | RPanic, _ | _, RPanic => False
  | _, _ => True
  end.
Proof.
  intros cs W cx Ht Hl Hp bs e e' p p' Hi Hc Ho Hr Hc' Ho' Hr' max_st lim fuelv max_st' lim' fuelv'.
  pose proof (vm_agrees_with_reference_all cs W cx Ht Hl Hp bs e p Hc Ho Hr max_st lim fuelv) as H.
  pose proof (vm_agrees_with_reference_all cs W cx Ht Hl Hp bs e' p' Hc' Ho' Hr' max_st' lim' fuelv') as H'.
  rewrite (inj_search cx e e' _ Hi) in H'. rewrite (proj1 (inj_same_sem cx e e' Hi)) in H'.
  destruct (fst (vm_run cx p max_st lim fuelv)), (fst (vm_run cx p' max_st' lim' fuelv')); auto; congruence.
Qed.

Theorem C03_to_str_total : forall bs e g prec,
  acheck g e = None -> hard bs g e = false -> to_str e prec <> None.
Proof. intros. eapply to_str_total; eauto. Qed.

Check C03_inject_sem : forall cx e e', inj e e' ->
  ngroups e' = ngroups e /\ forall fuel g st, sem cx e' fuel g st = sem cx e fuel g st.
Check C03_inject_search : forall cx e e' fuel, inj e e' -> search_list cx e' fuel = search_list cx e fuel.

(* non-vacuity: (a|ab)(c) with (?=) inserted before the group and inside the alternation *)
Example ex_inj :
  inj (Concat [Group (Alt [Literal [97] false; Literal [97; 98] false]); Group (Literal [99] false)])
      (Concat [LA; Group (Alt [Concat [LA; Literal [97] false]; Literal [97; 98] false]);
               Group (Literal [99] false)]).
Proof.
  apply (inj_insert [] _ [] _); [constructor|].
  constructor; [|constructor; [apply inj_same|constructor]].
  apply inj_group. apply inj_alt. constructor; [apply inj_before, inj_same|].
  constructor; [apply inj_same|constructor].
Qed.

Print Assumptions C03_inject_sem.
Print Assumptions C03_inject_search.
Print Assumptions C03_to_str_total.
Print Assumptions C03_vm_split_independent.
