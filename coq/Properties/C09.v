(* C09 — the search entry points are mutually coherent.  In the model is_match, find and
   captures are one call of the same search function; the two separately written iterators
   (Matches::next and CaptureMatches::next) are proved to be the same function. *)
From FR Require Import Base Utf8 Api ApiProofs.

Theorem C09_next_agree : forall tx search fuel st,
  cmatches_next tx search fuel st = matches_next tx search fuel st.
Proof. intros. apply cmatches_next_eq. Qed.

(* captures_iter yields exactly the items find_iter yields, in the same order *)
Theorem C09_iters_agree : forall tx search n st, ccollect tx search n st = collect tx search n st.
Proof. intros. apply ccollect_eq. Qed.

(* captures.get(0) is the find match *)
Theorem C09_get0 : forall sv a b, span_of sv = Some (a, b) -> cap_get sv 0 = Some (V a, V b).
Proof.
  intros sv a b H. destruct sv as [|[x|] [|[y|] r]]; simpl in H; try discriminate.
  inversion H; subst. reflexivity.
Qed.

Check C09_next_agree : forall tx search fuel st,
  cmatches_next tx search fuel st = matches_next tx search fuel st.
Check C09_iters_agree : forall tx search n st, ccollect tx search n st = collect tx search n st.
Check C09_get0 : forall sv a b, span_of sv = Some (a, b) -> cap_get sv 0 = Some (V a, V b).

Print Assumptions C09_next_agree.
Print Assumptions C09_iters_agree.
Print Assumptions C09_get0.
