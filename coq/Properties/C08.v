(* C08 — find_iter yields the successive leftmost non-overlapping matches.
   Over ANY search function satisfying SearchOK (match at or after the start offset, inside
   the text, start <= end, on char boundaries) that never reports the model's own fuel error.
   Statements only; proofs in Proofs/ApiProofs.v. *)
From FR Require Import Base Utf8 Api ApiProofs.
From FR Require Import State Utf8Facts Chars Ast Analyze Sem SemSound Vm Compile Param ArrowA CompileCorrect KeepOut EndToEnd ApiVm Parse ParseInv ParseIdx FromPattern.
From FR Require Import ApiTotal.
From Coq Require Import NArith Lia.


(* every yielded sequence, for any number of next() calls: strictly increasing starts, no
   overlap, never before the previous end, every span valid; an Err item is the last item *)
Theorem C08_sorted : forall tx search, SearchOK tx search ->
  (forall p f, search p f <> SErr EFuel) ->
  forall n, chain tx 0 (collect tx search n m_init).
Proof. intros. apply (collect_chain tx search H H0 n m_init). Qed.

(* termination: at most |text| + 2 items however often next() is called, and the iterator's
   internal self-recursion never runs out of fuel *)
Theorem C08_terminates : forall tx search, SearchOK tx search ->
  (forall p f, search p f <> SErr EFuel) ->
  forall n, length (collect tx search n m_init) <= length tx + 2.
Proof. intros. apply collect_length; auto. Qed.

(* one call: the item lies at or after the previous end; the state moves past it; an empty
   match adjacent to the previous match is never yielded *)
Theorem C08_step : forall tx search, SearchOK tx search ->
  forall fuel st a b sv st',
  matches_next tx search fuel st = (Some (ItOk a b sv), st') ->
  last_end st <= a /\ a <= b /\ b <= length tx /\ b <= last_end st' /\ last_match st' = Some b /\
  (a = b -> b < last_end st') /\ (a = b -> last_match st <> Some b) /\
  is_boundary tx a = true /\ is_boundary tx b = true /\ span_of sv = Some (a, b).
Proof. intros. eapply matches_next_step; eauto. Qed.

(* after an Err item the iterator yields nothing more *)
Theorem C08_fused_after_err : forall tx search, SearchOK tx search ->
  (forall p f, search p f <> SErr EFuel) ->
  forall st e st', mnext tx search st = (Some (ItErr e), st') ->
  forall n, collect tx search n st' = [].
Proof.
  intros tx search H H0 st e st' E n. eapply collect_after_err; eauto.
  intros ->. eapply mnext_no_fuel; eauto.
Qed.

Check C08_sorted : forall tx search, SearchOK tx search ->
  (forall p f, search p f <> SErr EFuel) -> forall n, chain tx 0 (collect tx search n m_init).
Check C08_terminates : forall tx search, SearchOK tx search ->
  (forall p f, search p f <> SErr EFuel) ->
  forall n, length (collect tx search n m_init) <= length tx + 2.
Check C08_fused_after_err : forall tx search, SearchOK tx search ->
  (forall p f, search p f <> SErr EFuel) ->
  forall st e st', mnext tx search st = (Some (ItErr e), st') -> forall n, collect tx search n st' = [].

(* non-vacuity: a toy search (first byte 'a' at or after the offset, or an empty match at
   the end) satisfies the premises on "aba" *)
Definition toy_tx : text := [97; 98; 97].
Definition toy_search (p : nat) (f : bool) : sres :=
  match p with
  | 0 => SSome [V 0; V 1]
  | 1 | 2 => SSome [V 2; V 3]
  | 3 => SSome [V 3; V 3]
  | _ => SNone
  end.
Example toy_ok : SearchOK toy_tx toy_search.
Proof.
  intros p f sv Hp H. destruct p as [|[|[|[|p]]]]; simpl in *; try lia; inversion H; subst;
    do 2 eexists; (split; [reflexivity|]); repeat split; simpl; auto; lia.
Qed.
Example toy_run : map (fun it => match it with ItOk a b _ => (a, b) | _ => (9, 9) end)
                      (collect toy_tx toy_search 9 m_init) = [(0, 1); (2, 3)].
Proof. vm_compute. reflexivity. Qed.


(* ---- the same, for the COMPILED search (Proofs/ApiVm.v): SearchOK is proved, not assumed ---- *)
Theorem C08_vm_sorted : forall cs bs e p, VmScope cs bs e p ->
  forall ng max_st limit fuelv,
  (forall pos f, vsearch cs p ng max_st limit fuelv pos f <> SErr EFuel) ->
  forall n, chain (concat cs) 0 (collect (concat cs) (vsearch cs p ng max_st limit fuelv) n m_init) /\ length (collect (concat cs) (vsearch cs p ng max_st limit fuelv) n m_init) <= length (concat cs) + 2.
Proof. intros cs bs e p (W & Hl & Hc & Ho & Hr & Hk) ng max_st limit fuelv Hnf n. split; [eapply vm_find_iter_chain|eapply vm_find_iter_length]; eauto. Qed.

(* "the sequence equals the one obtained by repeatedly taking the reference leftmost match from
   the previous end, stepping one character after an empty match and dropping an empty match
   adjacent to the previous match": as long as the compiled search does not give up (stack bound,
   backtrack limit), find_iter over the compiled program yields exactly the spans that the same
   iterator yields over the reference search [rsearch] (the first result of the reference
   semantics of (?s:.)*?(e) from the offset, with the skipped-empty-match flag) *)
Theorem C08_vm_is_reference_iteration : forall cs bs e p, VmScope cs bs e p ->
  forall ng max_st limit fuelv,
  forall n, no_err (collect (concat cs) (vsearch cs p ng max_st limit fuelv) n m_init) ->
  spans (collect (concat cs) (vsearch cs p ng max_st limit fuelv) n m_init) = spans (collect (concat cs) (rsearch cs e) n m_init).
Proof. intros cs bs e p (W & Hl & Hc & Ho & Hr & Hk) ng max_st limit fuelv n Hne. eapply vm_find_iter_is_reference; eauto. apply bst_init. Qed.


(* ---- from the PATTERN STRING: Regex::new(pattern)?.find_iter(text), for every pattern that is
   valid UTF-8, parses, compiles to a VM program, has no conditional under an atomic cut (F-condleak)
   and no \K under a look-behind (F-keepout-lb); every text that is valid UTF-8; every stack bound
   and backtrack limit.  Nothing else is assumed. ---- *)
Theorem C08_from_pattern_string :
  forall (re : list nat), valid_text re ->
  forall (e : expr) (st : pst), parse re = POk (e, st) ->
  condok true e -> kok true e ->
  forall (p : prog) (ng : nat), regex_new (bs_of st) e = inr (RFancy p ng) ->
  forall cs : list (list nat), valid_chars cs -> (N.of_nat (length (concat cs)) < usize_max)%N ->
  forall max_st limit fuelv,
  (forall pos f, vsearch cs p ng max_st limit fuelv pos f <> SErr EFuel) ->
  forall n,
  chain (concat cs) 0 (collect (concat cs) (vsearch cs p ng max_st limit fuelv) n m_init) /\
  (no_err (collect (concat cs) (vsearch cs p ng max_st limit fuelv) n m_init) ->
   spans (collect (concat cs) (vsearch cs p ng max_st limit fuelv) n m_init) =
   spans (collect (concat cs) (rsearch cs e) n m_init)).
Proof. exact pattern_find_iter. Qed.

Print Assumptions C08_sorted.
Print Assumptions C08_terminates.
Print Assumptions C08_step.
Print Assumptions C08_fused_after_err.
Print Assumptions C08_vm_sorted.
Print Assumptions C08_vm_is_reference_iteration.
Print Assumptions C08_from_pattern_string.

(* ---- the same with NO assumption on the model's step budget: termination of the VM loop
   (Proofs/Terminates.v) gives a budget for each start offset, finitely many offsets are ever
   searched, so from some budget on find_iter over the compiled pattern yields valid, sorted,
   non-overlapping spans, at most |text|+2 items, and - unless a StackOverflow /
   BacktrackLimitExceeded error is reported - exactly the reference iteration ---- *)
Theorem C08_find_iter_total_from_pattern_string : forall (re : list nat), valid_text re ->
  forall (e : expr) (st : pst), parse re = POk (e, st) ->
  condok true e -> kok true e ->
  forall (p : prog) (ng : nat), regex_new (bs_of st) e = inr (RFancy p ng) ->
  forall cs : list (list nat), valid_chars cs -> (N.of_nat (length (concat cs)) < usize_max)%N ->
  forall max_st limit,
  exists n0, forall fuelv, n0 <= fuelv ->
  forall n,
  chain (concat cs) 0 (collect (concat cs) (vsearch cs p ng max_st limit fuelv) n m_init) /\
  (length (collect (concat cs) (vsearch cs p ng max_st limit fuelv) n m_init) <= length (concat cs) + 2) /\
  (no_err (collect (concat cs) (vsearch cs p ng max_st limit fuelv) n m_init) ->
   spans (collect (concat cs) (vsearch cs p ng max_st limit fuelv) n m_init) =
   spans (collect (concat cs) (rsearch cs e) n m_init)).
Proof.
  intros re Hv e st Hp Hc Hk p ng Hn cs W Hl max_st limit.
  destruct (pattern_api_total re Hv e st Hp Hc Hk p ng Hn cs W Hl max_st limit) as [n0 H].
  exists n0. intros fuelv Hf n. destruct (H fuelv Hf) as (Hfi & _ & _). exact (Hfi n).
Qed.
Check C08_find_iter_total_from_pattern_string : forall (re : list nat), valid_text re ->
  forall (e : expr) (st : pst), parse re = POk (e, st) ->
  condok true e -> kok true e ->
  forall (p : prog) (ng : nat), regex_new (bs_of st) e = inr (RFancy p ng) ->
  forall cs : list (list nat), valid_chars cs -> (N.of_nat (length (concat cs)) < usize_max)%N ->
  forall max_st limit,
  exists n0, forall fuelv, n0 <= fuelv ->
  forall n,
  chain (concat cs) 0 (collect (concat cs) (vsearch cs p ng max_st limit fuelv) n m_init) /\
  (length (collect (concat cs) (vsearch cs p ng max_st limit fuelv) n m_init) <= length (concat cs) + 2) /\
  (no_err (collect (concat cs) (vsearch cs p ng max_st limit fuelv) n m_init) ->
   spans (collect (concat cs) (vsearch cs p ng max_st limit fuelv) n m_init) =
   spans (collect (concat cs) (rsearch cs e) n m_init)).
Print Assumptions C08_find_iter_total_from_pattern_string.
