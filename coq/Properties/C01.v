(* C01 — match existence and span follow the ordered-backtracking reference semantics.
   Statements only; proofs in Proofs/CompileCorrect.v, RunCorrect.v, VmRefine.v, EndToEnd.v.

   The reference is Spec/Sem.v: [sem e] lists, in priority order, every way e can match from a
   state; [search_list] is the head of the list for (?s:.)*?(e) — leftmost, then priority.
   The implementation side is the model of compile.rs (Model/Compile.v) and of vm.rs
   (Model/Vm.v, Model/State.v: copy-on-write save log, bounded branch stack, backtrack limit),
   both tied to the Rust code on every run (tiers T2, T3).

   Scope of the theorem (stage 1 of the compiler-correctness proof):
   - [okdeleg]: every Delegate instruction of the compiled program hands over a DETERMINISTIC,
     capture-free block: a concatenation of character classes, case-insensitive literals, any-char,
     assertions and literals (Proofs/Det.v) — e.g. a class next to a hard construct, the \Z helper,
     the class inside a look-around.  (Runs of plain literals become one Lit instruction, and in a
     hard context everything except classes and case-insensitive literals is compiled to VM
     instructions anyway.)  This is the scope of the STAGE-1 statement C01_vm_follows_reference
     only; C01_vm_follows_reference_all below has no such restriction.
   - [oke]: literals are single characters and class nodes have size 1 (parser invariants), every
     backreference names a group opened earlier (what the analysis checks), and no conditional sits inside the body of an atomic
     group, of a look-around or in the condition position of another conditional (known finding
     F-condleak: the statement is FALSE there; everywhere else conditionals are covered).
   Look-behinds over alternations of different lengths are inside the scope: the compiler turns
   them into an alternation (positive) / a sequence (negative) of look-behinds, and the reference
   semantics reads them the same way (Oniguruma's reading). *)
From FR Require Import Base State Utf8 Utf8Facts Chars Ast Analyze Sem SemSound SemK Det Vm Compile
                       Machine Param Atomize ArrowA CompileCorrect RunCorrect EndToEnd Scope ScopeProofs Parse ParseInv ParseIdx FromPattern.
From Coq Require Import NArith Lia.

(* Whatever the stack bound, the backtrack limit and the step budget: the VM reports a match only
   with exactly the capture vector of the reference search (span = slots 0,1), reports "no match"
   only when the reference has none, never reaches a panic site, and otherwise gives up with
   StackOverflow / BacktrackLimitExceeded (or the model's fuel ran out). *)
Theorem C01_vm_follows_reference :
  forall cs : list (list nat), valid_chars cs ->
  forall cx : ctx, c_text cx = concat cs ->
  (N.of_nat (length (concat cs)) < usize_max)%N ->
  bnd cs (c_pos cx) ->
  forall (bs : N -> bool) (e : expr) (p : prog),
  compile bs (wrap e) = inr p ->
  okdeleg (p_body p) ->
  oke true 0 (wrap e) ->
  forall fuel : nat, length (concat cs) < fuel ->
  forall (max_st : nat) (lim : option N) (fuelv : nat),
  match fst (vm_run cx p max_st lim fuelv) with
  | RMatch sv => search_list cx e fuel = Some (firstn (2 * S (ngroups e)) sv)
  | RNoMatch => search_list cx e fuel = None
  | RPanic => False
  | _ => True
  end.
Proof. exact vm_agrees_with_reference. Qed.


(* THE END-TO-END STATEMENT (stages 1-3 assembled).  EVERY program the compiler emits, whatever
   it interprets itself and whatever it hands to the automata engine (a Delegate instruction runs
   the reference semantics of its block and takes the first result: Proofs/DelegStep.v; making
   such blocks atomic does not change the first result of the whole search: Proofs/ArrowA.v):
   whatever the stack bound, the backtrack limit and the step budget, the VM reports a match only
   with exactly the capture vector of the reference search (span = slots 0,1), reports "no match"
   only when the reference has none, and never reaches a panic site.
   Hypotheses: [oke true] (see the header) and [refs_ok]: every group a back-reference or a
   (?(N)..) test reads is in the analyzer's back-reference set bs - the parser's bookkeeping
   (parse.rs records each back-reference it creates), needed because the analysis hands a group
   to the automata engine only when no back-reference reads it. *)
Theorem C01_vm_follows_reference_all :
  forall cs : list (list nat), valid_chars cs ->
  forall cx : ctx, c_text cx = concat cs -> (N.of_nat (length (concat cs)) < usize_max)%N ->
  bnd cs (c_pos cx) ->
  forall (bs : N -> bool) (e : expr) (p : prog),
  compile bs (wrap e) = inr p -> oke true 0 (wrap e) ->
  refs_ok True (refd bs) (wrap e) ->
  forall (max_st : nat) (lim : option N) (fuelv : nat),
  match fst (vm_run cx p max_st lim fuelv) with
  | RMatch sv => search_list cx e (S (length (c_text cx))) = Some (firstn (2 * S (ngroups e)) sv)
  | RNoMatch => search_list cx e (S (length (c_text cx))) = None
  | RPanic => False
  | _ => True
  end.
Proof. exact vm_agrees_with_reference_all. Qed.

(* arrow A on its own: a statement about the reference semantics only *)
Check arrowA.

(* EVERY compiled program, whatever it hands to the automata engine: the VM reports exactly the
   reference search over the ATOMIZED tree (Proofs/Atomize.v: each delegated block wrapped in an
   atomic group, because a Delegate instruction yields the block's first result only; the block's
   own semantics, captures included, is the reference semantics - Proofs/DelegStep.v).  What is
   left between this and the statement above is purely about the reference semantics: that
   making those blocks atomic does not change the first result of the search (arrow A). *)
Theorem C01_vm_implements_atomized :
  forall cs : list (list nat), valid_chars cs ->
  forall cx : ctx, c_text cx = concat cs -> (N.of_nat (length (concat cs)) < usize_max)%N ->
  bnd cs (c_pos cx) ->
  forall (bs : N -> bool) (e : expr) (p : prog),
  compile bs (wrap e) = inr p -> oke true 0 (wrap e) ->
  forall (max_st : nat) (lim : option N) (fuelv : nat),
  match fst (vm_run cx p max_st lim fuelv) with
  | RMatch sv => dsearch cx bs e = Some (firstn (2 * S (ngroups e)) sv)
  | RNoMatch => dsearch cx bs e = None
  | RPanic => False
  | _ => True
  end.
Proof. exact vm_agrees_atomized. Qed.

(* the same with the hypotheses replaced by the executable test the checks run on every generated
   pattern ([in_scope], Model/Scope.v): the evidence reports how many VM-compiled patterns of a run
   are inside the theorem *)
Theorem C01_in_scope :
  forall cs : list (list nat), valid_chars cs ->
  forall cx : ctx, c_text cx = concat cs -> (N.of_nat (length (concat cs)) < usize_max)%N ->
  bnd cs (c_pos cx) ->
  forall (bs : N -> bool) (e : expr), in_scope bs e = true ->
  exists p, compile bs (wrap e) = inr p /\
  forall fuel, length (concat cs) < fuel -> forall max_st lim fuelv,
  match fst (vm_run cx p max_st lim fuelv) with
  | RMatch sv => search_list cx e fuel = Some (firstn (2 * S (ngroups e)) sv)
  | RNoMatch => search_list cx e fuel = None
  | RPanic => False
  | _ => True
  end.
Proof. exact vm_agrees_in_scope. Qed.


(* ... and the general statement with its hypotheses as an executable test ([in_scope_all]) *)
Theorem C01_in_scope_all :
  forall cs : list (list nat), valid_chars cs ->
  forall cx : ctx, c_text cx = concat cs -> (N.of_nat (length (concat cs)) < usize_max)%N ->
  bnd cs (c_pos cx) ->
  forall (bs : N -> bool) (e : expr), in_scope_all bs e = true ->
  exists p, compile bs (wrap e) = inr p /\
  forall max_st lim fuelv,
  match fst (vm_run cx p max_st lim fuelv) with
  | RMatch sv => search_list cx e (S (length (c_text cx))) = Some (firstn (2 * S (ngroups e)) sv)
  | RNoMatch => search_list cx e (S (length (c_text cx))) = None
  | RPanic => False
  | _ => True
  end.
Proof. exact vm_agrees_in_scope_all. Qed.


(* ... and started from the PATTERN STRING: parse (the model of parse.rs), analyse, compile, run.
   The parser theorem (Proofs/ParseInv.v, a mutual induction over the seven parser functions, for
   every byte string) discharges the hypotheses about back-reference bookkeeping and the \Z
   helper; what is left is [wfe] (literal nodes are single characters) and [condok] (no conditional
   under an atomic cut: F-condleak). *)
Theorem C01_from_pattern_string :
  forall (re : list nat) (e : expr) (st : pst), parse re = POk (e, st) ->
  wfe e -> condok true e ->
  forall (p : prog) (n : nat), regex_new (bs_of st) e = inr (RFancy p n) ->
  forall cs : list (list nat), valid_chars cs ->
  forall cx : ctx, c_text cx = concat cs -> (N.of_nat (length (concat cs)) < usize_max)%N ->
  bnd cs (c_pos cx) ->
  forall (max_st : nat) (lim : option N) (fuelv : nat),
  match fst (vm_run cx p max_st lim fuelv) with
  | RMatch sv => search_list cx e (S (length (c_text cx))) = Some (firstn (2 * S (ngroups e)) sv)
  | RNoMatch => search_list cx e (S (length (c_text cx))) = None
  | RPanic => False
  | _ => True
  end.
Proof. exact pattern_vm_follows_reference. Qed.


(* ... and for a pattern written in ASCII (the text searched is arbitrary valid UTF-8; escapes
   like \x{e9} or é in the pattern are fine) nothing at all is assumed about the tree: the
   hypotheses are "it parses", "it compiles to a VM program" and [condok] *)
Theorem C01_from_ascii_pattern_string :
  forall (re : list nat), Forall (fun b => b < 128) re ->
  forall (e : expr) (st : pst), parse re = POk (e, st) ->
  condok true e ->
  forall (p : prog) (n : nat), regex_new (bs_of st) e = inr (RFancy p n) ->
  forall cs : list (list nat), valid_chars cs ->
  forall cx : ctx, c_text cx = concat cs -> (N.of_nat (length (concat cs)) < usize_max)%N ->
  bnd cs (c_pos cx) ->
  forall (max_st : nat) (lim : option N) (fuelv : nat),
  match fst (vm_run cx p max_st lim fuelv) with
  | RMatch sv => search_list cx e (S (length (c_text cx))) = Some (firstn (2 * S (ngroups e)) sv)
  | RNoMatch => search_list cx e (S (length (c_text cx))) = None
  | RPanic => False
  | _ => True
  end.
Proof. exact ascii_pattern_vm_follows_reference. Qed.


(* THE STATEMENT FROM THE PATTERN STRING, for every pattern that is valid UTF-8 (what a Rust &str
   is): parse, analyse, compile, run.  Hypotheses: the pattern parses, it compiles to a VM program,
   and no conditional sits under an atomic cut (F-condleak, where the statement is false).  The
   parser theorems (Proofs/ParseInv.v, ParseIdx.v) supply everything else about the tree. *)
Theorem C01_from_utf8_pattern_string :
  forall (re : list nat), valid_text re ->
  forall (e : expr) (st : pst), parse re = POk (e, st) ->
  condok true e ->
  forall (p : prog) (n : nat), regex_new (bs_of st) e = inr (RFancy p n) ->
  forall cs : list (list nat), valid_chars cs ->
  forall cx : ctx, c_text cx = concat cs -> (N.of_nat (length (concat cs)) < usize_max)%N ->
  bnd cs (c_pos cx) ->
  forall (max_st : nat) (lim : option N) (fuelv : nat),
  match fst (vm_run cx p max_st lim fuelv) with
  | RMatch sv => search_list cx e (S (length (c_text cx))) = Some (firstn (2 * S (ngroups e)) sv)
  | RNoMatch => search_list cx e (S (length (c_text cx))) = None
  | RPanic => False
  | _ => True
  end.
Proof. exact utf8_pattern_vm_follows_reference. Qed.

(* what the parser guarantees, for every byte string *)
Theorem C01_parser_invariants : forall re e st, parse re = POk (e, st) ->
  refs_ok True (fun g => bs_of st g = true) e /\ zok e /\ lbz e.
Proof. exact parse_tree_ok. Qed.

(* non-vacuity: the pattern (a|ab)(?=c)\1? *)
Definition ex5_re : list nat := [40; 97; 124; 97; 98; 41; 40; 63; 61; 99; 41; 92; 49; 63].
Example ex5_hyps : exists e st p n, parse ex5_re = POk (e, st) /\ wfe e /\ condok true e /\
                                    regex_new (bs_of st) e = inr (RFancy p n).
Proof.
  eexists. eexists. eexists. eexists. split; [vm_compute; reflexivity|].
  split; [cbn; repeat split; auto|]. split; [cbn; repeat split; auto|]. vm_compute. reflexivity.
Qed.

(* the reference the checks evaluate (the first-success continuation-passing [search], which the
   extracted model runs against the real crate) is the reference of the theorem *)
Theorem C01_reference_forms_agree : forall cx e fuel, search cx e fuel = search_list cx e fuel.
Proof. exact search_eq. Qed.

(* the heart of it: the code emitted for ANY sub-expression, started anywhere in any program that
   contains it, arrives at its exit exactly as often, in the same order and with the same offsets
   and capture slots as the reference semantics lists results, leaves the auxiliary stack and
   all slots outside its own range untouched, and finally fails back to the stack beneath it *)
Check seg_all.
Check machine_agrees.

(* non-vacuity: (?:a|b)*(?=-)\b on "ab-" — a VM program without Delegate, which matches *)
Definition ex_e : expr :=
  Concat [Repeat (Alt [Literal [97] false; Literal [98] false]) 0 usize_max true;
          LookAround (Literal [45] false) LookAhead; Assertion WordBoundary].
Definition ex_cx : ctx := {| c_text := [97; 98; 45]; c_pos := 0; c_skipped := false |}.
Definition ex_p : prog :=
  match compile (fun _ => false) (wrap ex_e) with inr p => p | inl _ => {| p_body := []; p_nsaves := 0 |} end.

Example ex_hyps :
  valid_chars [[97]; [98]; [45]] /\ compile (fun _ => false) (wrap ex_e) = inr ex_p /\
  okdeleg (p_body ex_p) /\ oke true 0 (wrap ex_e).
Proof.
  split; [repeat constructor|]. split; [reflexivity|]. split; [reflexivity|].
  unfold oke. cbn. repeat split; auto; try lia; try reflexivity.
Qed.
Example ex_runs :
  fst (vm_run ex_cx ex_p 100 (Some 1000%N) 1000) = RMatch [V 0; V 2; V 2] /\
  search_list ex_cx ex_e 10 = Some [V 0; V 2].
Proof. split; vm_compute; reflexivity. Qed.

(* non-vacuity with a Delegate instruction: (?<=[ab])-\b over "a-b" (the class is delegated) *)
Definition ex3_e : expr :=
  Concat [LookAround (Delegate [] 1 false (DClass [97; 98])) LookBehind; Literal [45] false; Assertion WordBoundary].
Definition ex3_p : prog :=
  match compile (fun _ => false) (wrap ex3_e) with inr p => p | inl _ => {| p_body := []; p_nsaves := 0 |} end.
Example ex3_hyps :
  compile (fun _ => false) (wrap ex3_e) = inr ex3_p /\ okdeleg (p_body ex3_p) /\ oke true 0 (wrap ex3_e) /\
  existsb (fun i => match i with IDelegate _ _ _ => true | _ => false end) (p_body ex3_p) = true.
Proof.
  split; [reflexivity|]. split; [reflexivity|]. split; [|reflexivity].
  unfold oke. cbn. repeat split; auto; try lia; try reflexivity; try discriminate.
Qed.
Example ex3_runs :
  exists sv, fst (vm_run {| c_text := [97; 45; 98]; c_pos := 0; c_skipped := false |} ex3_p 100 (Some 1000%N) 1000) = RMatch sv /\
             firstn 2 sv = [V 1; V 2].
Proof. eexists; split; vm_compute; reflexivity. Qed.


(* non-vacuity of the general statement: (?>(?=a)(a|ab)b) over "abb" - the program delegates the
   NON-deterministic block (a|ab)b, capture group included, outside the scope of stage 1 *)
Definition ex4_e : expr :=
  AtomicGroup (Concat [LookAround (Literal [97] false) LookAhead;
          Group (Alt [Literal [97] false; Concat [Literal [97] false; Literal [98] false]]);
          Literal [98] false]).
Definition ex4_p : prog :=
  match compile (fun _ => false) (wrap ex4_e) with inr p => p | inl _ => {| p_body := []; p_nsaves := 0 |} end.
Example ex4_hyps :
  compile (fun _ => false) (wrap ex4_e) = inr ex4_p /\ oke true 0 (wrap ex4_e) /\
  refs_ok True (refd (fun _ => false)) (wrap ex4_e) /\
  forallb okinsn (p_body ex4_p) = false /\
  existsb (fun i => match i with IDelegate _ _ _ => true | _ => false end) (p_body ex4_p) = true.
Proof.
  split; [reflexivity|]. split; [|split; [|split; reflexivity]].
  - unfold oke. cbn. repeat split; auto; try lia; try reflexivity; try discriminate.
  - cbn. repeat split; auto.
Qed.
Example ex4_runs :
  exists sv, fst (vm_run {| c_text := [97; 98; 98]; c_pos := 0; c_skipped := false |} ex4_p 100 (Some 1000%N) 1000) = RMatch sv /\
             firstn 4 sv = [V 0; V 2; V 0; V 1].
Proof. eexists; split; vm_compute; reflexivity. Qed.

Print Assumptions C01_vm_follows_reference_all.
Print Assumptions arrowA.
Print Assumptions C01_vm_follows_reference.
Print Assumptions seg_all.
Print Assumptions C01_reference_forms_agree.
Print Assumptions C01_in_scope.
Print Assumptions C01_in_scope_all.
Print Assumptions C01_from_pattern_string.
Print Assumptions C01_from_ascii_pattern_string.
Print Assumptions C01_from_utf8_pattern_string.
Print Assumptions C01_parser_invariants.
Print Assumptions C01_vm_implements_atomized.
