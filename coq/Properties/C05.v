(* C05 — searching never panics and every reported offset is valid.
   Proved here: (1) at the level of the reference semantics every offset and capture slot of
   every result stays on a character boundary of valid UTF-8 text; (2) over any SearchOK search
   the iterators / split / replace never take an out-of-order, out-of-range or off-boundary
   slice and every yielded span is valid; (3) the branch stack is bounded (C07).
   (4) for compiled programs in the scope of the end-to-end theorem (Properties/C01.v: no Delegate
   instruction, no conditional) the VM never reaches
   one of its panic sites and every capture slot it reports is unset or a character boundary
   inside the text.
   (5) for EVERY compiled program, whatever it delegates, the same two facts
   (C05_vm_never_panics_any_program, C05_vm_offsets_valid_any_program), via the stage-2
   compiler-correctness theorem against the atomized tree.
   NOT proved: patterns with a conditional under an atomic cut, and SearchOK's
   "start at or after the search offset" (false for \K inside a look-behind: F-keepout-lb) —
   those rest on the correspondence check under catch_unwind and are reported as partial. *)
From FR Require Import Base State Utf8 Utf8Facts Chars Ast Analyze Sem SemSound Api ApiProofs
                       Vm Compile Machine Atomize CompileCorrect RunCorrect EndToEnd.
From FR Require Import Param ArrowA KeepOut ApiVm Scope.
From FR Require Import ApiTotal.

From Coq Require Import NArith Lia.

Theorem C05_reference_offsets_valid : forall cs cx, valid_chars cs -> c_text cx = concat cs ->
  (N.of_nat (length (concat cs)) < usize_max)%N ->
  forall e, wfe e -> forall fuel g st st', st_ok cs st -> In st' (sem cx e fuel g st) ->
  st_ok cs st' /\ fst st <= fst st' <= length (concat cs).
Proof.
  intros cs cx W Ht Hl e Hw fuel g st st' Hs Hin.
  destruct (sem_sound cs W cx Ht Hl e Hw fuel g st st' Hs Hin) as (n & [Hok D] & _).
  split; auto. destruct (dist_bnd cs W _ _ _ D) as (_ & Bn & Hle). split; auto.
  now apply bnd_le in Bn.
Qed.

Theorem C05_iter_spans_valid : forall tx search, SearchOK tx search ->
  (forall p f, search p f <> SErr EFuel) ->
  forall n, chain tx 0 (collect tx search n m_init).
Proof. intros. apply (collect_chain tx search H H0 n m_init). Qed.

Theorem C05_split_no_panic : forall tx search, SearchOK tx search ->
  (forall p f, search p f <> SErr EFuel) -> is_boundary tx 0 = true ->
  forall l, yields tx search m_init l -> Forall (fun p => p <> PcPanic) (pieces tx 0 l).
Proof.
  intros tx search HOK Hf Hb l Hy. apply pieces_safe; auto; [|apply Nat.le_0_l].
  pose proof (yields_det tx search _ _ Hy (length l)) as Hd. rewrite firstn_all in Hd. rewrite <- Hd.
  apply (collect_chain tx search HOK Hf (length l) m_init).
Qed.

Theorem C05_replace_no_panic : forall tx search rep, SearchOK tx search ->
  (forall p f, search p f <> SErr EFuel) -> is_boundary tx 0 = true ->
  forall l limit, yields tx search m_init l -> rspec tx rep limit 0 0 l [] <> RPanicR.
Proof.
  intros tx search rep HOK Hf Hb l limit Hy. apply rspec_safe; auto; [|apply Nat.le_0_l].
  pose proof (yields_det tx search _ _ Hy (length l)) as Hd. rewrite firstn_all in Hd. rewrite <- Hd.
  apply (collect_chain tx search HOK Hf (length l) m_init).
Qed.

Theorem C05_vm_never_panics :
  forall cs : list (list nat), valid_chars cs ->
  forall cx : ctx, c_text cx = concat cs -> (N.of_nat (length (concat cs)) < usize_max)%N ->
  bnd cs (c_pos cx) ->
  forall (bs : N -> bool) (e : expr) (p : prog),
  compile bs (wrap e) = inr p -> okdeleg (p_body p) -> oke true 0 (wrap e) ->
  forall (max_st : nat) (lim : option N) (fuelv : nat),
  fst (vm_run cx p max_st lim fuelv) <> RPanic.
Proof.
  intros cs W cx Ht Hl Hp bs e p Hc Hn Ho max_st lim fuelv Hr.
  pose proof (vm_agrees_with_reference cs W cx Ht Hl Hp bs e p Hc Hn Ho (S (length (concat cs))) (le_n _) max_st lim fuelv) as H.
  rewrite Hr in H. exact H.
Qed.

Theorem C05_vm_offsets_valid :
  forall cs : list (list nat), valid_chars cs ->
  forall cx : ctx, c_text cx = concat cs -> (N.of_nat (length (concat cs)) < usize_max)%N ->
  bnd cs (c_pos cx) ->
  forall (bs : N -> bool) (e : expr) (p : prog),
  compile bs (wrap e) = inr p -> okdeleg (p_body p) -> oke true 0 (wrap e) ->
  forall (max_st : nat) (lim : option N) (fuelv : nat) sv,
  fst (vm_run cx p max_st lim fuelv) = RMatch sv ->
  Forall (fun v => match v with MAXV => True | V q => bnd cs q end) (firstn (2 * S (ngroups e)) sv).
Proof.
  intros cs W cx Ht Hl Hp bs e p Hc Hn Ho max_st lim fuelv sv Hr.
  pose proof (vm_agrees_with_reference cs W cx Ht Hl Hp bs e p Hc Hn Ho (S (length (concat cs))) (le_n _) max_st lim fuelv) as H.
  rewrite Hr in H. unfold search_list in H.
  destruct (sem cx (wrap e) (S (length (concat cs))) 0 (c_pos cx, init_caps (S (ngroups e)))) as [|s rest] eqn:Es; [discriminate|].
  assert (H1 : end_fix (snd s) = firstn (2 * S (ngroups e)) sv) by congruence. clear H.
  assert (Hs : st_ok cs s).
  { destruct Ho as (Hw & _). assert (Hin : In s (sem cx (wrap e) (S (length (concat cs))) 0 (c_pos cx, init_caps (S (ngroups e))))) by (rewrite Es; left; auto).
    eapply (sem_sound cs W cx Ht Hl (wrap e) Hw) in Hin.
    - destruct Hin as (n & [Hok _] & _). exact Hok.
    - split; [exact Hp|]. cbn [snd]. unfold init_caps. apply Forall_forall. intros x Hx. apply repeat_spec in Hx. subst. exact I. }
  destruct Hs as [_ Hc']. rewrite <- H1. change (Forall (val_ok cs) (end_fix (snd s))). unfold end_fix.
  pose proof (val_ok_getcap cs (snd s) 0 Hc') as H0.
  destruct (getcap (snd s) 0) as [s0|]; destruct (nth_error (snd s) 1) as [[s1|]|] eqn:E1; try exact Hc'.
  - destruct (s1 <? s0); [|exact Hc']. apply val_ok_upd; auto. rewrite Forall_forall in Hc'. apply (Hc' (V s1)). eapply nth_error_In; eauto.
  - apply val_ok_upd; auto. rewrite Forall_forall in Hc'. apply (Hc' (V s1)). eapply nth_error_In; eauto.
Qed.

(* EVERY compiled program (any Delegate instructions): no panic site is ever reached, and every
   reported capture slot is unset or a character boundary inside the text.  The only hypothesis on
   the pattern is [oke true]: parser invariants, backreferences to earlier groups, no
   conditional under an atomic cut. *)
Theorem C05_vm_never_panics_any_program :
  forall cs : list (list nat), valid_chars cs ->
  forall cx : ctx, c_text cx = concat cs -> (N.of_nat (length (concat cs)) < usize_max)%N ->
  bnd cs (c_pos cx) ->
  forall (bs : N -> bool) (e : expr) (p : prog),
  compile bs (wrap e) = inr p -> oke true 0 (wrap e) ->
  forall (max_st : nat) (lim : option N) (fuelv : nat),
  fst (vm_run cx p max_st lim fuelv) <> RPanic.
Proof.
  intros cs W cx Ht Hl Hp bs e p Hc Ho max_st lim fuelv Hr.
  pose proof (vm_agrees_atomized cs W cx Ht Hl Hp bs e p Hc Ho max_st lim fuelv) as H.
  rewrite Hr in H. exact H.
Qed.

Theorem C05_vm_offsets_valid_any_program :
  forall cs : list (list nat), valid_chars cs ->
  forall cx : ctx, c_text cx = concat cs -> (N.of_nat (length (concat cs)) < usize_max)%N ->
  bnd cs (c_pos cx) ->
  forall (bs : N -> bool) (e : expr) (p : prog),
  compile bs (wrap e) = inr p -> oke true 0 (wrap e) ->
  forall (max_st : nat) (lim : option N) (fuelv : nat) sv,
  fst (vm_run cx p max_st lim fuelv) = RMatch sv ->
  Forall (fun v => match v with MAXV => True | V q => bnd cs q end) (firstn (2 * S (ngroups e)) sv).
Proof.
  intros cs W cx Ht Hl Hp bs e p Hc Ho max_st lim fuelv sv Hr.
  pose proof (vm_agrees_atomized cs W cx Ht Hl Hp bs e p Hc Ho max_st lim fuelv) as H.
  rewrite Hr in H. unfold dsearch in H.
  destruct (sem cx (atomize bs (wrap e) 0 false) (S (length (c_text cx))) 0 (c_pos cx, init_caps (S (ngroups e)))) as [|s rest] eqn:Es; [discriminate|].
  assert (H1 : end_fix (snd s) = firstn (2 * S (ngroups e)) sv) by congruence. clear H.
  assert (Hs : st_ok cs s).
  { destruct Ho as (Hw & _).
    assert (Hin : In s (sem cx (atomize bs (wrap e) 0 false) (S (length (c_text cx))) 0 (c_pos cx, init_caps (S (ngroups e))))) by (rewrite Es; left; auto).
    eapply (sem_sound cs W cx Ht Hl (atomize bs (wrap e) 0 false)) in Hin.
    - destruct Hin as (n & [Hok _] & _). exact Hok.
    - apply (atomize_keeps bs (wrap e) 0 false). exact Hw.
    - split; [exact Hp|]. cbn [snd]. unfold init_caps. apply Forall_forall. intros x Hx. apply repeat_spec in Hx. subst. exact I. }
  destruct Hs as [_ Hc']. rewrite <- H1. change (Forall (val_ok cs) (end_fix (snd s))). unfold end_fix.
  pose proof (val_ok_getcap cs (snd s) 0 Hc') as H0.
  destruct (getcap (snd s) 0) as [s0|]; destruct (nth_error (snd s) 1) as [[s1|]|] eqn:E1; try exact Hc'.
  - destruct (s1 <? s0); [|exact Hc']. apply val_ok_upd; auto. rewrite Forall_forall in Hc'. apply (Hc' (V s1)). eapply nth_error_In; eauto.
  - apply val_ok_upd; auto. rewrite Forall_forall in Hc'. apply (Hc' (V s1)). eapply nth_error_In; eauto.
Qed.

Check C05_reference_offsets_valid.
Check C05_split_no_panic.


(* (6) the clause "SearchOK" that (2) assumes, PROVED for the compiled search: on a VM-compiled
   pattern inside the end-to-end theorem with no \K under a look-behind (that exception is known
   finding F-keepout-lb), searched from any character boundary of a valid UTF-8 text, a reported
   match starts at or after the search offset, start <= end <= |text|, both on boundaries
   (Proofs/KeepOut.v + EndToEnd.v); hence find_iter / split / try_replacen over the compiled search
   never slice out of order, out of range or off a boundary (Proofs/ApiVm.v: the iterators only
   search from boundaries). *)
Theorem C05_vm_search_ok : forall cs bs e p, VmScope cs bs e p ->
  forall ng max_st limit fuelv,
  forall pos f sv, bnd cs pos -> (vsearch cs p ng max_st limit fuelv) pos f = SSome sv ->
  exists a b, span_of sv = Some (a, b) /\ pos <= a /\ a <= b /\ b <= length (concat cs) /\
              is_boundary (concat cs) a = true /\ is_boundary (concat cs) b = true.
Proof. intros cs bs e p (W & Hl & Hc & Ho & Hr & Hk) ng max_st limit fuelv. eapply vsearch_ok; eauto. Qed.

Theorem C05_vm_iter_spans_valid : forall cs bs e p, VmScope cs bs e p ->
  forall ng max_st limit fuelv,
  (forall pos f, vsearch cs p ng max_st limit fuelv pos f <> SErr EFuel) ->
  forall n, chain (concat cs) 0 (collect (concat cs) (vsearch cs p ng max_st limit fuelv) n m_init).
Proof. intros cs bs e p (W & Hl & Hc & Ho & Hr & Hk) ng max_st limit fuelv Hnf. eapply vm_find_iter_chain; eauto. Qed.

Theorem C05_vm_split_never_panics : forall cs bs e p, VmScope cs bs e p ->
  forall ng max_st limit fuelv,
  (forall pos f, vsearch cs p ng max_st limit fuelv pos f <> SErr EFuel) ->
  forall n, Forall (fun pc => pc <> PcPanic) (split_collect (concat cs) (vsearch cs p ng max_st limit fuelv) n sp_init).
Proof. intros cs bs e p (W & Hl & Hc & Ho & Hr & Hk) ng max_st limit fuelv Hnf. eapply vm_split_no_panic; eauto. Qed.

Theorem C05_vm_replace_never_panics : forall cs bs e p, VmScope cs bs e p ->
  forall ng max_st limit fuelv,
  (forall pos f, vsearch cs p ng max_st limit fuelv pos f <> SErr EFuel) ->
  forall rep lim, try_replacen (concat cs) rep (mnext (concat cs) (vsearch cs p ng max_st limit fuelv)) lim <> RPanicR /\
                  try_replacen (concat cs) rep (cnext (concat cs) (vsearch cs p ng max_st limit fuelv)) lim <> RPanicR.
Proof.
  intros cs bs e p (W & Hl & Hc & Ho & Hr & Hk) ng max_st limit fuelv Hnf rep lim. split; [|rewrite try_replacen_paths_agree]; eapply vm_replace_no_panic; eauto.
Qed.

(* non-vacuity of VmScope: (?<=a)(b|bc)\b, a VM-compiled pattern *)
Example vmscope_ex :
  let e := Concat [LookAround (Literal [97] false) LookBehind;
                   Group (Alt [Literal [98] false; Concat [Literal [98] false; Literal [99] false]]);
                   Assertion WordBoundary] in
  exists p, VmScope [[97]; [98]; [99]] (fun _ => false) e p /\ vm_scope_b (fun _ => false) e = true.
Proof.
  eexists. split; [|vm_compute; reflexivity]. split; [repeat constructor|]. split; [vm_compute; reflexivity|].
  split; [vm_compute; reflexivity|]. split; [|split; cbn; repeat split; auto].
  unfold oke. cbn. repeat split; auto; try lia; try reflexivity; try discriminate.
Qed.

Print Assumptions C05_reference_offsets_valid.
Print Assumptions C05_iter_spans_valid.
Print Assumptions C05_split_no_panic.
Print Assumptions C05_replace_no_panic.
Print Assumptions C05_vm_never_panics.
Print Assumptions C05_vm_offsets_valid.
Print Assumptions C05_vm_never_panics_any_program.
Print Assumptions C05_vm_offsets_valid_any_program.
Print Assumptions C05_vm_search_ok.
Print Assumptions C05_vm_iter_spans_valid.
Print Assumptions C05_vm_split_never_panics.
Print Assumptions C05_vm_replace_never_panics.

(* every iterator entry point over a VM-compiled regex, with no assumption on the model's step
   budget: from some budget on, find_iter yields valid in-range boundary spans in order, and
   neither split nor try_replacen reaches a panicking slice *)
Theorem C05_vm_api_never_panics_total : forall cs bs e p, VmScope cs bs e p ->
  forall ng max_st limit, exists n0, forall fuelv, n0 <= fuelv ->
  (forall n, chain (concat cs) 0 (collect (concat cs) (vsearch cs p ng max_st limit fuelv) n m_init)) /\
  (forall n, Forall (fun pc => pc <> PcPanic) (split_collect (concat cs) (vsearch cs p ng max_st limit fuelv) n sp_init)) /\
  (forall rep lim, try_replacen (concat cs) rep (mnext (concat cs) (vsearch cs p ng max_st limit fuelv)) lim <> RPanicR).
Proof.
  intros cs bs e p HS ng max_st limit. destruct (vm_api_total cs bs e p HS ng max_st limit) as [n0 H].
  exists n0. intros fuelv Hf. destruct (H fuelv Hf) as (Hfi & Hsp & Hr).
  split; [intros n; exact (proj1 (Hfi n))|]. split; [intros n; exact (proj2 (Hsp n))|intros rep lim; exact (proj2 (Hr rep lim))].
Qed.
Check C05_vm_api_never_panics_total : forall cs bs e p, VmScope cs bs e p ->
  forall ng max_st limit, exists n0, forall fuelv, n0 <= fuelv ->
  (forall n, chain (concat cs) 0 (collect (concat cs) (vsearch cs p ng max_st limit fuelv) n m_init)) /\
  (forall n, Forall (fun pc => pc <> PcPanic) (split_collect (concat cs) (vsearch cs p ng max_st limit fuelv) n sp_init)) /\
  (forall rep lim, try_replacen (concat cs) rep (mnext (concat cs) (vsearch cs p ng max_st limit fuelv)) lim <> RPanicR).
Print Assumptions C05_vm_api_never_panics_total.
