(* C05 — searching never panics and every reported offset is valid.
   Proved here: (1) at the level of the reference semantics every offset and capture slot of
   every result stays on a character boundary of valid UTF-8 text; (2) over any SearchOK search
   the iterators / split / replace never take an out-of-order, out-of-range or off-boundary
   slice and every yielded span is valid; (3) the branch stack is bounded (C07).
   NOT proved yet: that the compiled VM itself never reaches a Panic outcome and satisfies
   SearchOK (the invariant over all compiled programs) — that part rests on the correspondence
   check under catch_unwind and is reported as partial. *)
From FR Require Import Base Utf8 Utf8Facts Chars Ast Analyze Sem SemSound Api ApiProofs.
From Coq Require Import NArith.

Theorem C05_reference_offsets_valid : forall cs cx, valid_chars cs -> c_text cx = concat cs ->
  (N.of_nat (length (concat cs)) < usize_max)%N ->
  forall e, wfe e -> forall fuel g st st', st_ok cs st -> In st' (sem cx e fuel g st) ->
  st_ok cs st' /\ fst st <= fst st' <= length (concat cs).
Proof.
  intros cs cx W Ht Hl e Hw fuel g st st' Hs Hin.
  destruct (sem_sound cs W cx Ht Hl e Hw fuel g st st' Hs Hin) as (n & [Hok D] & _).
  split; auto. destruct (dist_bnd cs W _ _ _ D) as (_ & Bn & Hle). split; auto.
  now apply bnd_le in Bn.
Qed.

Theorem C05_iter_spans_valid : forall tx search, SearchOK tx search ->
  (forall p f, search p f <> SErr EFuel) ->
  forall n, chain tx 0 (collect tx search n m_init).
Proof. intros. apply (collect_chain tx search H H0 n m_init). Qed.

Theorem C05_split_no_panic : forall tx search, SearchOK tx search ->
  (forall p f, search p f <> SErr EFuel) -> is_boundary tx 0 = true ->
  forall l, yields tx search m_init l -> Forall (fun p => p <> PcPanic) (pieces tx 0 l).
Proof.
  intros tx search HOK Hf Hb l Hy. apply pieces_safe; auto; [|apply Nat.le_0_l].
  pose proof (yields_det tx search _ _ Hy (length l)) as Hd. rewrite firstn_all in Hd. rewrite <- Hd.
  apply (collect_chain tx search HOK Hf (length l) m_init).
Qed.

Theorem C05_replace_no_panic : forall tx search rep, SearchOK tx search ->
  (forall p f, search p f <> SErr EFuel) -> is_boundary tx 0 = true ->
  forall l limit, yields tx search m_init l -> rspec tx rep limit 0 0 l [] <> RPanicR.
Proof.
  intros tx search rep HOK Hf Hb l limit Hy. apply rspec_safe; auto; [|apply Nat.le_0_l].
  pose proof (yields_det tx search _ _ Hy (length l)) as Hd. rewrite firstn_all in Hd. rewrite <- Hd.
  apply (collect_chain tx search HOK Hf (length l) m_init).
Qed.

Check C05_reference_offsets_valid.
Check C05_split_no_panic.

Print Assumptions C05_reference_offsets_valid.
Print Assumptions C05_iter_spans_valid.
Print Assumptions C05_split_no_panic.
Print Assumptions C05_replace_no_panic.
