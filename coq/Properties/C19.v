(* C19 — equivalent spellings.  Proved on the parser model (a port of parse.rs tied to the real
   parser by T1 on every run): the finite escape table by computation over its whole domain, all
   256 two-digit hex forms, possessive = atomic for the whole quantifier family on a fixed atom,
   and — unbounded — a (?#...) comment of any length without ')' or '\' is skipped. *)
From FR Require Import Base Utf8 Ast Analyze Parse.
From FR Require Import WsProofs.
From Coq Require Import Lia.

Definition tree_of (s : list nat) : option expr :=
  match parse s with POk (e, _) => Some e | _ => None end.

(* \h \H \e \A \z \x41 A vs their expansions (outside (?i) scopes) *)
Theorem C19_escape_table :
  tree_of [92; 104] = tree_of [91; 48; 45; 57; 65; 45; 70; 97; 45; 102; 93] /\
  tree_of [92; 72] = tree_of [91; 94; 48; 45; 57; 65; 45; 70; 97; 45; 102; 93] /\
  tree_of [92; 101] = tree_of [92; 120; 49; 66] /\
  tree_of [92; 65] = tree_of [94] /\
  tree_of [92; 122] = tree_of [36] /\
  tree_of [92; 120; 52; 49] = tree_of [65] /\
  tree_of [92; 117; 48; 48; 52; 49] = tree_of [65] /\
  tree_of [92; 85; 48; 48; 48; 48; 48; 48; 52; 49] = tree_of [65] /\
  tree_of [92; 120; 123; 52; 49; 125] = tree_of [65] /\
  tree_of [92; 97] = tree_of [92; 120; 48; 55] /\
  tree_of [92; 116] = tree_of [9] /\ tree_of [92; 110] = tree_of [10] /\ tree_of [92; 114] = tree_of [13] /\
  tree_of [92; 102] = tree_of [92; 120; 48; 67] /\ tree_of [92; 118] = tree_of [92; 120; 48; 66] /\
  tree_of [92; 104] <> None.
Proof. vm_compute. repeat split; discriminate. Qed.

Definition hexd (n : nat) : nat := if n <? 10 then 48 + n else 87 + n.

(* every two-digit form \xHH equals the braced form \x{HH} *)
Theorem C19_hex_forms :
  forallb (fun v => match tree_of [92; 120; hexd (v / 16); hexd (v mod 16)],
                          tree_of [92; 120; 123; hexd (v / 16); hexd (v mod 16); 125] with
                    | Some (Literal a false), Some (Literal b false) => bytes_eq a b
                    | _, _ => false
                    end) (seq 0 256) = true.
Proof. vm_compute. reflexivity. Qed.

(* the possessive forms of star, plus, question mark and the counted quantifiers (greedy and
   lazy) on the atom 'a' equal the atomic group around the plain quantifier *)
Definition quants : list (list nat) :=
  [[42]; [43]; [63]; [123; 50; 125]; [123; 50; 44; 51; 125]; [123; 50; 44; 125];
   [42; 63]; [43; 63]; [63; 63]; [123; 50; 44; 51; 125; 63]].
Theorem C19_possessive_is_atomic :
  forallb (fun q => match tree_of ([97] ++ q ++ [43]), tree_of ([40; 63; 62; 97] ++ q ++ [41]) with
                    | Some (AtomicGroup a), Some (AtomicGroup b) =>
                        match a, b with
                        | Repeat (Literal [97] false) lo hi g, Repeat (Literal [97] false) lo' hi' g' =>
                            N.eqb lo lo' && N.eqb hi hi' && Bool.eqb g g'
                        | _, _ => false
                        end
                    | _, _ => false
                    end) quants = true.
Proof. vm_compute. reflexivity. Qed.

(* ... also under the swap-greed flag `(?U)`, where every quantifier's greed is inverted: the
   possessive spelling keeps the (inverted) greed of the quantifier it wraps (finite: the ten
   quantifier forms above on the atom 'a') *)
Theorem C19_possessive_is_atomic_swap_greed :
  forallb (fun q => match tree_of ([40; 63; 85; 41; 97] ++ q ++ [43]),
                          tree_of ([40; 63; 85; 41; 40; 63; 62; 97] ++ q ++ [41]),
                          tree_of ([97] ++ q) with
                    | Some (AtomicGroup a), Some (AtomicGroup b), Some c =>
                        match a, b, c with
                        | Repeat (Literal [97] false) lo hi g, Repeat (Literal [97] false) lo' hi' g',
                          Repeat (Literal [97] false) lo'' hi'' g'' =>
                            N.eqb lo lo' && N.eqb hi hi' && Bool.eqb g g' &&
                            N.eqb lo lo'' && N.eqb hi hi'' && Bool.eqb g (negb g'')
                        | _, _, _ => false
                        end
                    | _, _, _ => false
                    end) quants = true.
Proof. vm_compute. reflexivity. Qed.

(* unbounded: a comment body of any length n made of bytes other than ')' and '\' is skipped *)
Theorem C19_comment_skipped : forall re n ix fuel,
  (forall k, k < n -> exists b, nth_error re (ix + k) = Some b /\ b <> 41 /\ b <> 92) ->
  nth_error re (ix + n) = Some 41 -> n < fuel ->
  skip_comment re fuel ix = POk (ix + n + 1).
Proof.
  intros re. induction n as [|n IH]; intros ix fuel Hbody Hc Hf.
  - rewrite Nat.add_0_r in *. destruct fuel as [|f]; [lia|]. cbn [skip_comment].
    assert (ix < length re) by (apply nth_error_Some; congruence).
    destruct (Nat.leb_spec (length re) ix); [lia|]. unfold byte. rewrite Hc. reflexivity.
  - destruct fuel as [|f]; [lia|]. cbn [skip_comment].
    destruct (Hbody 0 ltac:(lia)) as (b & Hb & H41 & H92). rewrite Nat.add_0_r in Hb.
    assert (ix < length re) by (apply nth_error_Some; congruence).
    destruct (Nat.leb_spec (length re) ix); [lia|]. unfold byte. rewrite Hb.
    assert (Hrec : skip_comment re f (ix + 1) = POk (ix + 1 + n + 1)).
    { apply IH; [|replace (ix + 1 + n) with (ix + S n) by lia; exact Hc|lia].
      intros k Hk. destruct (Hbody (S k) ltac:(lia)) as (b' & Hb' & Hx).
      exists b'. replace (ix + 1 + k) with (ix + S k) by lia. auto. }
    replace (ix + S n + 1) with (ix + 1 + n + 1) by lia.
    do 41 (destruct b as [|b]; [exact Hrec|]). destruct b as [|b]; [congruence|].
    do 50 (destruct b as [|b]; [exact Hrec|]). destruct b as [|b]; [congruence|]. exact Hrec.
Qed.

(* unbounded: under (?x) a run of whitespace of ANY length n is skipped at a token boundary, up
   to the end of the pattern or the first byte that is neither whitespace nor the start of a
   comment; without (?x) the position does not move *)
Theorem C19_whitespace_skipped : forall re fl, f_space fl = true -> forall n ix fuel,
  (forall k, k < n -> exists b, nth_error re (ix + k) = Some b /\ is_ws b = true) ->
  (ix + n = length re \/
   exists b, nth_error re (ix + n) = Some b /\ is_ws b = false /\ b <> 35 /\ b <> 40) ->
  n < fuel ->
  optional_whitespace re fuel fl ix = POk (ix + n).
Proof. exact whitespace_skipped. Qed.
Theorem C19_whitespace_kept : forall re fl, f_space fl = false -> forall ix fuel b,
  nth_error re ix = Some b -> b <> 40 -> optional_whitespace re (S fuel) fl ix = POk ix.
Proof. exact whitespace_kept. Qed.
(* a '#' comment under (?x) runs to the first newline (find_nl_spec) or to the end *)
Theorem C19_line_comment_skipped : forall re fl, f_space fl = true -> forall ix fuel x,
  nth_error re ix = Some 35 -> find_nl (skipn ix re) = Some x ->
  optional_whitespace re (S fuel) fl ix = optional_whitespace re fuel fl (ix + x + 1).
Proof. exact line_comment_skipped. Qed.
Theorem C19_line_comment_to_end : forall re fl, f_space fl = true -> forall ix fuel,
  nth_error re ix = Some 35 -> find_nl (skipn ix re) = None ->
  optional_whitespace re (S fuel) fl ix = POk (length re).
Proof. exact line_comment_to_end. Qed.
Theorem C19_first_newline : forall l x, find_nl l = Some x ->
  nth_error l x = Some 10 /\ forall k, k < x -> nth_error l k <> Some 10.
Proof. exact find_nl_spec. Qed.

(* non-vacuity: "a \t\n b" under (?x): three bytes of whitespace after 'a' are skipped *)
Example ex_ws :
  optional_whitespace [97; 32; 9; 10; 98] 7
    {| f_casei := false; f_multi := false; f_dotnl := false; f_swap := false; f_space := true; f_unicode := true |} 1
  = POk 4.
Proof. vm_compute. reflexivity. Qed.

Print Assumptions C19_escape_table.
Print Assumptions C19_hex_forms.
Print Assumptions C19_possessive_is_atomic.
Print Assumptions C19_comment_skipped.
Print Assumptions C19_possessive_is_atomic_swap_greed.
Print Assumptions C19_whitespace_skipped.
Print Assumptions C19_whitespace_kept.
Print Assumptions C19_line_comment_skipped.
Print Assumptions C19_line_comment_to_end.
Print Assumptions C19_first_newline.
