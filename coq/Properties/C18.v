(* C18 — a compiled regex can be used from many threads.  What is logic: in the model a search
   is a FUNCTION of (regex, text, offset, flags, limits) and returns no new regex, so the result
   of a call does not depend on which other calls happened before or concurrently.  Data races,
   deadlock and regex-automata's cache pool are runtime behaviour outside any Gallina model
   (partial; covered by the concurrent runs of the check). *)
From FR Require Import Base Utf8 Ast Analyze Sem Vm Compile Api.

Record call := { k_text : text; k_pos : nat; k_skipped : bool }.
Definition eval (r : regex) (mx : nat) (lim : option N) (fuel : nat) (c : call) : sres :=
  regex_search r mx lim fuel (k_text c) (k_pos c) (k_skipped c).

(* the API "step": the regex component is returned unchanged *)
Definition api_step (r : regex) (mx : nat) (lim : option N) (fuel : nat) (c : call) : regex * sres :=
  (r, eval r mx lim fuel c).

Theorem C18_pure : forall r mx lim fuel c, fst (api_step r mx lim fuel c) = r.
Proof. reflexivity. Qed.

(* any history of calls on one regex, from any number of clients in any interleaving: call k
   returns what that call returns alone *)
Fixpoint run_history (r : regex) (mx : nat) (lim : option N) (fuel : nat) (h : list call) : list sres :=
  match h with
  | [] => []
  | c :: rest => let '(r', x) := api_step r mx lim fuel c in x :: run_history r' mx lim fuel rest
  end.

Theorem C18_history_free : forall r mx lim fuel h k c,
  nth_error h k = Some c -> nth_error (run_history r mx lim fuel h) k = Some (eval r mx lim fuel c).
Proof.
  intros r mx lim fuel h. induction h as [|c0 rest IH]; intros [|k] c H; simpl in *; try discriminate.
  - inversion H; subst. reflexivity.
  - apply IH; auto.
Qed.

Print Assumptions C18_pure.
Print Assumptions C18_history_free.
