(* C16 — group metadata is consistent.  In the model captures_len is the group count of the
   wrapped tree on both paths; Captures accessors are functions of the truncated save vector. *)
From FR Require Import Base Utf8 Ast Analyze Sem Vm Compile Api ExprLemmas.
From Coq Require Import Lia.

(* captures_len = 1 + number of capturing groups, on the delegated and on the VM path *)
Theorem C16_len : forall bs e r, regex_new bs e = inr r -> regex_ngroups r = S (ngroups e).
Proof.
  intros bs e r H. unfold regex_new in H. destruct (acheck 0 (wrap e)); [discriminate|].
  destruct (hard bs 1 e).
  - destruct (compile bs (wrap e)); inversion H; subst. cbn [regex_ngroups]. apply ngroups_wrap.
  - inversion H; subst. cbn [regex_ngroups]. apply ngroups_wrap.
Qed.

(* the analysis numbers groups in pre-order: a node's group range is [g, g + ngroups e) *)
Theorem C16_group_range : forall bs g e,
  match facts bs g e with
  | f :: _ => f_start f = g /\ f_end f = g + ngroups e
  | [] => False
  end.
Proof. intros. destruct e; simpl; auto. Qed.

(* Captures::get: None beyond len, and len is the number of slot pairs *)
Theorem C16_get_oob : forall sv i, cap_len sv <= i -> Nat.Even (length sv) -> cap_get sv i = None.
Proof.
  intros sv i H [k Hk]. unfold cap_get, cap_len in *. rewrite Hk in H.
  replace (Nat.div2 (2 * k)) with k in H by (symmetry; apply Nat.div2_double).
  assert (nth_error sv (2 * i) = None) by (apply nth_error_None; lia). now rewrite H0.
Qed.

Theorem C16_len_truncated : forall sv n, 2 * n <= length sv -> cap_len (firstn (2 * n) sv) = n.
Proof.
  intros sv n H. unfold cap_len. rewrite firstn_length_le by auto. apply Nat.div2_double.
Qed.

Check C16_len : forall bs e r, regex_new bs e = inr r -> regex_ngroups r = S (ngroups e).
Check C16_get_oob : forall sv i, cap_len sv <= i -> Nat.Even (length sv) -> cap_get sv i = None.

Print Assumptions C16_len.
Print Assumptions C16_group_range.
Print Assumptions C16_get_oob.
Print Assumptions C16_len_truncated.
