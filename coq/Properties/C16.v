(* C16 — group metadata is consistent.  In the model captures_len is the group count of the
   wrapped tree on both paths; Captures accessors are functions of the truncated save vector. *)
From FR Require Import Base Utf8 Ast Analyze Sem Vm Compile Api ExprLemmas Parse ParseGroups.
From Coq Require Import Lia.

(* captures_len = 1 + number of capturing groups, on the delegated and on the VM path *)
Theorem C16_len : forall bs e r, regex_new bs e = inr r -> regex_ngroups r = S (ngroups e).
Proof.
  intros bs e r H. unfold regex_new in H. destruct (acheck 0 (wrap e)); [discriminate|].
  destruct (hard bs 1 e).
  - destruct (compile bs (wrap e)); inversion H; subst. cbn [regex_ngroups]. apply ngroups_wrap.
  - inversion H; subst. cbn [regex_ngroups]. apply ngroups_wrap.
Qed.

(* the analysis numbers groups in pre-order: a node's group range is [g, g + ngroups e) *)
Theorem C16_group_range : forall bs g e,
  match facts bs g e with
  | f :: _ => f_start f = g /\ f_end f = g + ngroups e
  | [] => False
  end.
Proof. intros. destruct e; simpl; auto. Qed.

(* Captures::get: None beyond len, and len is the number of slot pairs *)
Theorem C16_get_oob : forall sv i, cap_len sv <= i -> Nat.Even (length sv) -> cap_get sv i = None.
Proof.
  intros sv i H [k Hk]. unfold cap_get, cap_len in *. rewrite Hk in H.
  replace (Nat.div2 (2 * k)) with k in H by (symmetry; apply Nat.div2_double).
  assert (nth_error sv (2 * i) = None) by (apply nth_error_None; lia). now rewrite H0.
Qed.

Theorem C16_len_truncated : forall sv n, 2 * n <= length sv -> cap_len (firstn (2 * n) sv) = n.
Proof.
  intros sv n H. unfold cap_len. rewrite firstn_length_le by auto. apply Nat.div2_double.
Qed.

(* from the pattern string: the parser's group counter (what relative back-references and the
   name table are computed from) is the number of capturing groups of the tree it returns, every
   recorded name points at one of them, and captures_len is that counter plus one *)
Theorem C16_parser_group_count : forall re e st, parse re = POk (e, st) -> p_group st = ngroups e.
Proof. exact parse_groups. Qed.
Theorem C16_names_in_range : forall re e st, parse re = POk (e, st) ->
  Forall (fun nk => 1 <= snd nk <= ngroups e) (p_named st).
Proof. exact parse_names_in_range. Qed.
Theorem C16_len_from_pattern : forall bs re e st r, parse re = POk (e, st) -> regex_new bs e = inr r ->
  regex_ngroups r = S (p_group st) /\ Forall (fun nk => 1 <= snd nk < regex_ngroups r) (p_named st).
Proof.
  intros bs re e st r Hp Hr. rewrite (C16_len _ _ _ Hr), (parse_groups _ _ _ Hp). split; [reflexivity|].
  eapply Forall_impl; [|exact (parse_names_in_range _ _ _ Hp)]. cbn. intros; lia.
Qed.
(* non-vacuity: (?<a>x)(y)(?P<b>z) parses, with counter 3 and names b -> 3, a -> 1 *)
Example C16_parser_ex :
  match parse [40;63;60;97;62;120;41;40;121;41;40;63;80;60;98;62;122;41] with
  | POk (e, st) => p_group st = 3 /\ ngroups e = 3 /\ p_named st = [([98], 3); ([97], 1)]
  | _ => False
  end.
Proof. vm_compute. repeat split. Qed.

Check C16_parser_group_count : forall re e st, parse re = POk (e, st) -> p_group st = ngroups e.
Check C16_names_in_range : forall re e st, parse re = POk (e, st) ->
  Forall (fun nk => 1 <= snd nk <= ngroups e) (p_named st).
Check C16_len : forall bs e r, regex_new bs e = inr r -> regex_ngroups r = S (ngroups e).
Check C16_get_oob : forall sv i, cap_len sv <= i -> Nat.Even (length sv) -> cap_get sv i = None.

Print Assumptions C16_len.
Print Assumptions C16_parser_group_count.
Print Assumptions C16_names_in_range.
Print Assumptions C16_len_from_pattern.
Print Assumptions C16_group_range.
Print Assumptions C16_get_oob.
Print Assumptions C16_len_truncated.
