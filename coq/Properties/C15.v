(* C15 — conditionals choose their branch as documented.
   What is machine-checked here:
   (1) the reference semantics of a conditional IS the documented behaviour (by definition):
       the condition is tried once; if it has a result, [yes] continues from its FIRST result and
       [no] is never tried; otherwise [no] runs from the original state; (?(N)) succeeds iff group
       N is set.
   (2) both forms are inside the scope of the end-to-end theorem (Properties/C01.v) WHEREVER THE
       CONDITIONAL IS NOT INSIDE AN ATOMIC CUT — i.e. not inside the body of an atomic group, of a
       look-around, or in the condition position of another conditional (predicate [rok true]);
       inside loops, groups, alternations, concatenations and the branches of other conditionals
       the VM does what the reference does, and (?(N)) alone is covered everywhere
       (C15_conditional_follows_reference).  The compiler-correctness induction carries, for
       this, an auxiliary-stack relation that tolerates the entry the lowering leaks on the
       false path, and demands the exact relation for everything under a cut.
   (3) under a cut the statement "the VM equals the reference wherever the conditional appears"
       is REFUTED on the faithful model: the lowering BeginAtomic; Split; cond; EndAtomic; yes;
       Jmp; no leaves the count pushed by BeginAtomic on the auxiliary stack on the false path,
       so an enclosing EndAtomic cuts to the wrong depth (C15_nested_conditional_refuted: the
       witness of known finding F-condleak, replayed on the real crate by the check). *)
From FR Require Import Base State Utf8 Utf8Facts Chars Ast Analyze Sem SemSound Vm Compile
                       Machine Param ArrowA CompileCorrect RunCorrect EndToEnd.
From Coq Require Import NArith Lia.

Theorem C15_reference_conditional : forall cx c y n fuel g st,
  sem cx (Conditional c y n) fuel g st =
  match sem cx c fuel g st with
  | s1 :: _ => sem cx y fuel (g + ngroups c) s1
  | [] => sem cx n fuel (g + ngroups c + ngroups y) st
  end.
Proof. intros. destruct st. reflexivity. Qed.

Theorem C15_reference_group_exists : forall cx grp fuel g ix caps,
  sem cx (BackrefExistsCondition grp) fuel g (ix, caps) =
  match getcap caps (2 * N.to_nat grp) with V _ => [(ix, caps)] | MAXV => [] end.
Proof. reflexivity. Qed.

(* conditionals outside atomic cuts, (?(N)) anywhere: [oke true] admits them *)
Theorem C15_conditional_follows_reference :
  forall cs : list (list nat), valid_chars cs ->
  forall cx : ctx, c_text cx = concat cs -> (N.of_nat (length (concat cs)) < usize_max)%N ->
  bnd cs (c_pos cx) ->
  forall (bs : N -> bool) (e : expr) (p : prog),
  compile bs (wrap e) = inr p -> okdeleg (p_body p) -> oke true 0 (wrap e) ->
  forall fuel : nat, length (concat cs) < fuel ->
  forall (max_st : nat) (lim : option N) (fuelv : nat),
  match fst (vm_run cx p max_st lim fuelv) with
  | RMatch sv => search_list cx e fuel = Some (firstn (2 * S (ngroups e)) sv)
  | RNoMatch => search_list cx e fuel = None
  | RPanic => False
  | _ => True
  end.
Proof. exact vm_agrees_with_reference. Qed.


(* the same for EVERY compiled program (branches and conditions that are handed to the automata
   engine included): stage 3 of the end-to-end theorem, see Properties/C01.v *)
Theorem C15_conditional_follows_reference_all :
  forall cs : list (list nat), valid_chars cs ->
  forall cx : ctx, c_text cx = concat cs -> (N.of_nat (length (concat cs)) < usize_max)%N ->
  bnd cs (c_pos cx) ->
  forall (bs : N -> bool) (e : expr) (p : prog),
  compile bs (wrap e) = inr p -> oke true 0 (wrap e) -> refs_ok True (refd bs) (wrap e) ->
  forall (max_st : nat) (lim : option N) (fuelv : nat),
  match fst (vm_run cx p max_st lim fuelv) with
  | RMatch sv => search_list cx e (S (length (c_text cx))) = Some (firstn (2 * S (ngroups e)) sv)
  | RNoMatch => search_list cx e (S (length (c_text cx))) = None
  | RPanic => False
  | _ => True
  end.
Proof. exact vm_agrees_with_reference_all. Qed.

(* what [oke true] says about conditionals *)
Example rok_allows : rok true (Repeat (Conditional (BackrefExistsCondition 1) Empty Empty) 0 usize_max true) /\
                     ~ rok true (AtomicGroup (Conditional Empty Empty Empty)) /\
                     ~ rok true (Conditional (Conditional Empty Empty Empty) Empty Empty).
Proof. cbn. repeat split; try lia; intros H; tauto. Qed.

(* non-vacuity 1: (?:(a)?(?(1)b|c))+ — a conditional with both branches inside a loop, compiled to
   VM instructions only; "cab" matches entirely (first iteration takes no, second takes yes) *)
Definition ex2_e : expr :=
  Repeat (Concat [Repeat (Group (Literal [97] false)) 0 1 true;
                  Conditional (BackrefExistsCondition 1) (Literal [98] false) (Literal [99] false)]) 1 usize_max true.
Definition ex2_p : prog :=
  match compile (fun n => N.eqb n 1) (wrap ex2_e) with inr p => p | inl _ => {| p_body := []; p_nsaves := 0 |} end.
Example ex2_hyps : compile (fun n => N.eqb n 1) (wrap ex2_e) = inr ex2_p /\ okdeleg (p_body ex2_p) /\ oke true 0 (wrap ex2_e).
Proof. split; [reflexivity|]. split; [reflexivity|]. unfold oke. cbn. repeat split; auto; try lia; try reflexivity; try (unfold usize_max; lia). Qed.
Example ex2_runs :
  exists sv, fst (vm_run {| c_text := [99; 97; 98]; c_pos := 0; c_skipped := false |} ex2_p 100 None 1000) = RMatch sv /\
             firstn 2 sv = [V 0; V 3].
Proof. eexists; split; vm_compute; reflexivity. Qed.

(* non-vacuity 2: (?>(a)?(?(1))b) — a condition on a group inside an atomic group, compiled to VM
   instructions only; on "ab" it matches with group 1 set, on "b" the condition fails *)
Definition ex_e : expr :=
  AtomicGroup (Concat [Repeat (Group (Literal [97] false)) 0 1 true; BackrefExistsCondition 1; Literal [98] false]).
Definition ex_bs : N -> bool := fun n => N.eqb n 1.
Definition ex_p : prog :=
  match compile ex_bs (wrap ex_e) with inr p => p | inl _ => {| p_body := []; p_nsaves := 0 |} end.
Example ex_hyps : compile ex_bs (wrap ex_e) = inr ex_p /\ okdeleg (p_body ex_p) /\ oke true 0 (wrap ex_e).
Proof. split; [reflexivity|]. split; [reflexivity|]. unfold oke. cbn. repeat split; auto; try lia; try reflexivity. Qed.
Example ex_runs :
  (exists sv, fst (vm_run {| c_text := [97; 98]; c_pos := 0; c_skipped := false |} ex_p 100 None 1000) = RMatch sv /\
              firstn 4 sv = [V 0; V 2; V 0; V 1]) /\
  fst (vm_run {| c_text := [98]; c_pos := 0; c_skipped := false |} ex_p 100 None 1000) = RNoMatch.
Proof. split; [eexists; split; vm_compute; reflexivity|vm_compute; reflexivity]. Qed.

(* the full statement fails for (?(cond)yes|no) under an enclosing cut: (?((?(b)a))b|a) on "ca-" *)
Definition w_e : expr :=
  Conditional (Conditional (Literal [98] false) (Literal [97] false) Empty) (Literal [98] false) (Literal [97] false).
Definition w_cx : ctx := {| c_text := [99; 97; 45]; c_pos := 0; c_skipped := false |}.
Theorem C15_nested_conditional_refuted :
  exists p sv, compile (fun _ => false) (wrap w_e) = inr p /\
            fst (vm_run w_cx p 1000 None 3000) = RMatch sv /\ firstn 2 sv = [V 1; V 2] /\
            search_list w_cx w_e 10 = None.
Proof. eexists. eexists. split; [reflexivity|]. split; [vm_compute; reflexivity|]. split; vm_compute; reflexivity. Qed.

Print Assumptions C15_reference_conditional.
Print Assumptions C15_conditional_follows_reference.
Print Assumptions C15_conditional_follows_reference_all.
Print Assumptions C15_nested_conditional_refuted.
