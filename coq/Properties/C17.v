(* C17 — escape.  Proved: the borrow decision, the shape of the quoted string (removing one
   backslash before each quoted byte gives back the input; every byte the parser treats
   specially is quoted) and that is_special (regenerated from the source on every run) covers
   every byte the fancy parser dispatches on.  The parse of the escaped string and the search
   behaviour are established on the parser model by the T1 tie and the enumeration. *)
From FR Require Import Base Utf8 Ast Analyze Escape Parse.
From FR Require Import Utf8Facts EscapeParse Sem EscapeSem.
From FR.Generated Require Consts.
From Coq Require Import Lia.
From FR Require Import WsProofs EscapeWs.

Theorem C17_escape_borrow : forall s, snd (escape s) = negb (existsb is_special s).
Proof. intros s. unfold escape. destruct (existsb is_special s); reflexivity. Qed.

(* un-quoting: drop a backslash and keep the byte after it *)
Fixpoint unquote (fuel : nat) (s : list nat) : list nat :=
  match fuel with
  | 0 => []
  | S f => match s with
           | [] => []
           | b :: r =>
               if b =? 92 then match r with b2 :: r2 => b2 :: unquote f r2 | [] => [b] end
               else b :: unquote f r
           end
  end.

Theorem C17_quoted_shape : forall s, unquote (length (push_quoted s)) (push_quoted s) = s.
Proof.
  assert (H92 : is_special 92 = true) by (vm_compute; reflexivity).
  assert (Hg : forall s f, length (push_quoted s) <= f -> unquote f (push_quoted s) = s).
  { induction s as [|b s IH]; intros f Hf; [destruct f; reflexivity|].
    cbn [push_quoted] in *. destruct (is_special b) eqn:E.
    - destruct f as [|f]; [simpl in Hf; lia|]. cbn [unquote]. rewrite Nat.eqb_refl.
      f_equal. apply IH. simpl in Hf. lia.
    - destruct f as [|f]; [simpl in Hf; lia|]. cbn [unquote].
      destruct (Nat.eqb_spec b 92) as [->|Hn]; [congruence|].
      f_equal. apply IH. simpl in Hf. lia. }
  intros s. apply Hg. auto.
Qed.

(* the bytes parse_atom / parse_piece / optional_whitespace dispatch on:
   . ^ $ ( \ + * ? | ) [ {  and '#' (comment start in free-spacing mode) *)
Definition parser_dispatch : list nat := [46; 94; 36; 40; 92; 43; 42; 63; 124; 41; 91; 123; 35].

Theorem C17_specials_cover_parser : forallb is_special parser_dispatch = true.
Proof. vm_compute. reflexivity. Qed.


(* parse(escape(s)) is the chain of the one-character literals of s - for EVERY string s that is
   valid UTF-8 (Proofs/EscapeParse.v: the escaped string is a sequence of tokens, a backslash
   followed by one of the 15 special bytes or an unescaped character; the parser model is run
   symbolically over one token - all 15 escapes through parse_escape's dispatch chain - and then
   over the whole string by induction, with the fuel of Parser::parse shown to suffice) *)
Theorem C17_parse_escape : forall s, valid_text s ->
  exists cs, s = concat cs /\ valid_chars cs /\
             parse (fst (escape s)) = POk (finish (map lit cs), pst0).
Proof. exact parse_escape_is_literals. Qed.

(* what that tree matches under the reference semantics: at a position, exactly the bytes of s,
   consuming |s| bytes and touching no capture slot *)
Theorem C17_lits_match : forall cx fuel cs g ix caps, (cs = [] -> ix <= length (c_text cx)) ->
  sem cx (finish (map lit cs)) fuel g (ix, caps) =
  if lit_at (c_text cx) ix (concat cs) then [(ix + length (concat cs), caps)] else [].
Proof. exact sem_lits. Qed.

(* escape(s) used as a pattern is str::find: on valid UTF-8 text, from a character-boundary
   offset, the reference search for the parse of escape(s) reports the FIRST byte position at
   which the text contains s, with group 0 exactly that occurrence, and nothing iff there is none *)
Theorem C17_escape_is_find : forall cs0 cx s, valid_chars cs0 -> c_text cx = concat cs0 ->
  valid_text s -> s <> [] -> bnd cs0 (c_pos cx) ->
  exists e st, parse (fst (escape s)) = POk (e, st) /\
  match search_list cx e (S (length (c_text cx))) with
  | Some caps => exists j, caps = [V j; V (j + length s)] /\ c_pos cx <= j /\ lit_at (c_text cx) j s = true /\
                           forall j', c_pos cx <= j' < j -> lit_at (c_text cx) j' s = false
  | None => forall j', c_pos cx <= j' -> lit_at (c_text cx) j' s = false
  end.
Proof. intros cs0 cx s W Ht. exact (escape_is_find cs0 W cx Ht s). Qed.

(* non-vacuity: escape("a.") searched in "xa.a." from offset 0 finds (1,3) *)
Example C17_find_ex :
  let cx := {| c_text := [120; 97; 46; 97; 46]; c_pos := 0; c_skipped := false |} in
  match parse (fst (escape [97; 46])) with
  | POk (e, _) => search_list cx e 6 = Some [V 1; V 3]
  | _ => False
  end.
Proof. vm_compute. reflexivity. Qed.

Check C17_escape_is_find : forall cs0 cx s, valid_chars cs0 -> c_text cx = concat cs0 ->
  valid_text s -> s <> [] -> bnd cs0 (c_pos cx) ->
  exists e st, parse (fst (escape s)) = POk (e, st) /\
  match search_list cx e (S (length (c_text cx))) with
  | Some caps => exists j, caps = [V j; V (j + length s)] /\ c_pos cx <= j /\ lit_at (c_text cx) j s = true /\
                           forall j', c_pos cx <= j' < j -> lit_at (c_text cx) j' s = false
  | None => forall j', c_pos cx <= j' -> lit_at (c_text cx) j' s = false
  end.
Check C17_quoted_shape : forall s, unquote (length (push_quoted s)) (push_quoted s) = s.

(* on the parser model: escape("a|b.") parses to the chain of literals, and a host keeps it *)
Example ex_parse_escaped :
  match parse (fst (escape [97; 124; 98; 46])) with
  | POk (Concat [Literal [97] false; Literal [124] false; Literal [98] false; Literal [46] false], _) => True
  | _ => False
  end.
Proof. vm_compute. exact I. Qed.

(* escape and free-spacing hosts: in front of ANY character of the escaped string that is not
   whitespace, inside any host pattern, the token-boundary skipper does not move, with or without
   (?x) - an escaped '#' never opens a comment.  (Whitespace itself is not protected by escape;
   the statement excludes it exactly.)  Rests on '#' and '(' being in the special set re-read
   from the source. *)
Theorem C17_escape_opaque_to_free_spacing : forall pre s1 c s2 post fl fuel, is_ws c = false ->
  let re := pre ++ push_quoted (s1 ++ c :: s2) ++ post in
  let ix := length pre + length (push_quoted s1) in
  optional_whitespace re (S fuel) fl ix = POk ix.
Proof. exact escape_opaque_to_free_spacing. Qed.

(* non-vacuity: "(?x)" ++ escape("a#b"), at the escaped '#' (index 5) *)
Example ex_hash_opaque :
  optional_whitespace ([40; 63; 120; 41] ++ push_quoted [97; 35; 98]) 3
    {| f_casei := false; f_multi := false; f_dotnl := false; f_swap := false; f_space := true; f_unicode := true |} 5
  = POk 5.
Proof. vm_compute. reflexivity. Qed.

Print Assumptions C17_escape_borrow.
Print Assumptions C17_quoted_shape.
Print Assumptions C17_specials_cover_parser.
Print Assumptions C17_parse_escape.

Print Assumptions C17_lits_match.
Print Assumptions C17_escape_is_find.

(* embedded in a larger concatenation (pre ++ chain ++ post) the chain behaves as one literal: every
   result of what precedes is continued exactly when the text contains s there, by |s| bytes, captures
   untouched, group numbering of what follows unshifted ([cgo] is Sem's fold over a Concat's children) *)
Theorem C17_embedded : forall cx fuel pre cs post g st, cs <> [] ->
  sem cx (Concat (pre ++ map lit cs ++ post)) fuel g st =
  flat_map (fun s1 => if lit_at (c_text cx) (fst s1) (concat cs)
                      then cgo cx fuel (g + ngroups_list pre) post (fst s1 + length (concat cs), snd s1) else [])
           (cgo cx fuel g pre st).
Proof. exact sem_embedded. Qed.
Check C17_embedded : forall cx fuel pre cs post g st, cs <> [] ->
  sem cx (Concat (pre ++ map lit cs ++ post)) fuel g st =
  flat_map (fun s1 => if lit_at (c_text cx) (fst s1) (concat cs)
                      then cgo cx fuel (g + ngroups_list pre) post (fst s1 + length (concat cs), snd s1) else [])
           (cgo cx fuel g pre st).
Print Assumptions C17_embedded.
Print Assumptions C17_escape_opaque_to_free_spacing.
