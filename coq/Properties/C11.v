(* C11 — replacement rewrites exactly the first n matches and nothing else. *)
From FR Require Import Base Utf8 Api ApiProofs.
From FR Require Import State Utf8Facts Chars Ast Analyze Sem SemSound Vm Compile Param ArrowA CompileCorrect KeepOut EndToEnd ApiVm.
From FR Require Import ApiTotal.
From Coq Require Import NArith Lia.


Section C11.
Variable tx : text.
Variable search : nat -> bool -> sres.
Hypothesis HOK : SearchOK tx search.
Hypothesis Hfuel : forall p f, search p f <> SErr EFuel.
Variable rep : list val -> list nat.

(* try_replacen is the documented function of the complete sequence of matches l:
   borrowed iff there is no match; otherwise text[0..a1] ++ rep(m1) ++ text[b1..a2] ++ ... for
   the first n matches (all if n = 0) followed by the untouched rest; an Err item met before
   the limit check is returned as Err *)
Theorem C11_replacen : forall l limit, yields tx search m_init l ->
  try_replacen tx rep (mnext tx search) limit =
  match l with [] => RBorrowed | _ => rspec tx rep limit 0 0 l [] end.
Proof. intros. apply try_replacen_spec; auto. Qed.

(* the slow path (captures_iter; templates with '$', closures) computes the same function as
   the fast path (find_iter; templates without '$', NoExpand) *)
Theorem C11_paths_agree : forall limit,
  try_replacen tx rep (cnext tx search) limit = try_replacen tx rep (mnext tx search) limit.
Proof. intros. apply try_replacen_paths_agree. Qed.

(* no slice try_replacen takes can panic *)
Theorem C11_no_panic : is_boundary tx 0 = true -> forall l limit, yields tx search m_init l ->
  rspec tx rep limit 0 0 l [] <> RPanicR.
Proof.
  intros Hb l limit Hy. apply rspec_safe; auto; [|apply Nat.le_0_l].
  pose proof (yields_det tx search _ _ Hy (length l)) as Hd. rewrite firstn_all in Hd. rewrite <- Hd.
  apply (collect_chain tx search HOK Hfuel (length l) m_init).
Qed.
End C11.

Check C11_replacen : forall tx search, SearchOK tx search -> (forall p f, search p f <> SErr EFuel) ->
  forall rep l limit, yields tx search m_init l ->
  try_replacen tx rep (mnext tx search) limit =
  match l with [] => RBorrowed | _ => rspec tx rep limit 0 0 l [] end.
Check C11_paths_agree : forall tx search rep limit,
  try_replacen tx rep (cnext tx search) limit = try_replacen tx rep (mnext tx search) limit.


(* ---- for the COMPILED search (Proofs/ApiVm.v): SearchOK is proved, not assumed ---- *)
Theorem C11_vm_replacen : forall cs bs e p, VmScope cs bs e p ->
  forall ng max_st limit fuelv,
  (forall pos f, vsearch cs p ng max_st limit fuelv pos f <> SErr EFuel) ->
  forall rep lim,
  try_replacen (concat cs) rep (mnext (concat cs) (vsearch cs p ng max_st limit fuelv)) lim =
  match vm_matches cs p ng max_st limit fuelv with
  | [] => RBorrowed
  | _ => rspec (concat cs) rep lim 0 0 (vm_matches cs p ng max_st limit fuelv) []
  end /\
  try_replacen (concat cs) rep (cnext (concat cs) (vsearch cs p ng max_st limit fuelv)) lim = try_replacen (concat cs) rep (mnext (concat cs) (vsearch cs p ng max_st limit fuelv)) lim /\
  try_replacen (concat cs) rep (mnext (concat cs) (vsearch cs p ng max_st limit fuelv)) lim <> RPanicR.
Proof.
  intros cs bs e p (W & Hl & Hc & Ho & Hr & Hk) ng max_st limit fuelv Hnf rep lim. split; [eapply vm_replacen; eauto|]. split; [apply try_replacen_paths_agree|].
  eapply vm_replace_no_panic; eauto.
Qed.

Print Assumptions C11_replacen.
Print Assumptions C11_paths_agree.
Print Assumptions C11_no_panic.
Print Assumptions C11_vm_replacen.

(* try_replacen over a VM-compiled regex, with no assumption on the model's step budget *)
Theorem C11_vm_replacen_total : forall cs bs e p, VmScope cs bs e p ->
  forall ng max_st limit, exists n0, forall fuelv, n0 <= fuelv ->
  forall rep lim,
  try_replacen (concat cs) rep (mnext (concat cs) (vsearch cs p ng max_st limit fuelv)) lim =
  match vm_matches cs p ng max_st limit fuelv with
  | [] => RBorrowed
  | _ => rspec (concat cs) rep lim 0 0 (vm_matches cs p ng max_st limit fuelv) []
  end /\
  try_replacen (concat cs) rep (mnext (concat cs) (vsearch cs p ng max_st limit fuelv)) lim <> RPanicR.
Proof.
  intros cs bs e p HS ng max_st limit. destruct (vm_api_total cs bs e p HS ng max_st limit) as [n0 H].
  exists n0. intros fuelv Hf rep lim. destruct (H fuelv Hf) as (_ & _ & Hr). exact (Hr rep lim).
Qed.
Check C11_vm_replacen_total : forall cs bs e p, VmScope cs bs e p ->
  forall ng max_st limit, exists n0, forall fuelv, n0 <= fuelv ->
  forall rep lim,
  try_replacen (concat cs) rep (mnext (concat cs) (vsearch cs p ng max_st limit fuelv)) lim =
  match vm_matches cs p ng max_st limit fuelv with
  | [] => RBorrowed
  | _ => rspec (concat cs) rep lim 0 0 (vm_matches cs p ng max_st limit fuelv) []
  end /\
  try_replacen (concat cs) rep (mnext (concat cs) (vsearch cs p ng max_st limit fuelv)) lim <> RPanicR.
Print Assumptions C11_vm_replacen_total.
