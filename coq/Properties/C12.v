(* C12 — template expansion: escape round-trips for every valid UTF-8 string and every captures,
   for both expanders; escape borrows iff nothing needed escaping; check is sound.
   The documented $-syntax is pinned as laws of the step sequence of the default expander:
   anything that is not `$` is copied verbatim character by character, `$$` is one literal `$`,
   `${name}` and `$name` (the LONGEST run of identifier characters) are a reference to `name`.
   (Identifiers are taken over ASCII letters, digits and `_`; the full Unicode alphanumeric table is
   not modelled.)  The model as a whole is tied to the real expander by the exhaustive
   short-template comparison. *)
From FR Require Import Base Utf8 Utf8Facts Sem Api Expand ExpandProofs ExpandPython.

Theorem C12_escape_roundtrip_default : forall s c, valid_text s ->
  expansion expander_default (fst (x_escape expander_default s)) c = s.
Proof. intros. apply escape_roundtrip; auto. simpl. repeat constructor. Qed.

Theorem C12_escape_roundtrip_python : forall s c, valid_text s ->
  expansion expander_python (fst (x_escape expander_python s)) c = s.
Proof. intros. apply escape_roundtrip; auto. simpl. repeat constructor. Qed.

Theorem C12_escape_borrow : forall x s,
  snd (x_escape x s) = negb (existsb (Nat.eqb (sub_char x)) s).
Proof. exact escape_borrow. Qed.

Theorem C12_check_sound : forall x template names n,
  check x template names n = None -> Forall (step_ok names n) (steps x template).
Proof. exact check_sound. Qed.


(* ---- the documented syntax ---- *)
(* anything else is copied verbatim, character by character, in front of whatever follows *)
Theorem C12_verbatim : forall x, sub_char x < 128 -> forall cs rest, valid_chars cs ->
  Forall (fun ch => match ch with b :: _ => b <> sub_char x | [] => True end) cs ->
  steps x (concat cs ++ rest) = map StChar cs ++ steps x rest.
Proof. intros x Hx. apply steps_verbatim_prefix. exact Hx. Qed.

(* ... so a template without the substitution character expands to itself *)
Theorem C12_no_reference_identity : forall x, sub_char x < 128 -> forall cs c, valid_chars cs ->
  Forall (fun ch => match ch with b :: _ => b <> sub_char x | [] => True end) cs ->
  expansion x (concat cs) c = concat cs.
Proof. intros x Hx. apply expansion_verbatim. exact Hx. Qed.

(* `$$` (resp. `\\`) is one literal substitution character *)
Theorem C12_doubled : forall x, sub_char x < 128 -> forall rest,
  steps x (sub_char x :: sub_char x :: rest) = StChar [sub_char x] :: steps x rest.
Proof. intros x Hx. apply steps_doubled. exact Hx. Qed.

(* `${name}` refers to name *)
Theorem C12_braced : forall name rest, name <> [] -> Forall idb name ->
  steps expander_default (36 :: 123 :: name ++ 125 :: rest) = StName name :: steps expander_default rest.
Proof. exact steps_braced. Qed.

(* `$name` takes the longest run of identifier characters: it stops only at the end of the template
   or at a character that is not an identifier character *)
Theorem C12_bare_longest : forall name rest, name <> [] -> Forall idb name ->
  (match rest with [] => True | b :: _ => b < 128 /\ is_id_cp b = false end) ->
  steps expander_default (36 :: name ++ rest) = StName name :: steps expander_default rest.
Proof. exact steps_bare. Qed.

(* what a reference inserts: the group's text, by name first, by number if the name is a number
   and no group has that name; nothing if the group is absent or did not participate *)
Check expand_step.

Check C12_escape_roundtrip_default : forall s c, valid_text s ->
  expansion expander_default (fst (x_escape expander_default s)) c = s.
Check C12_escape_roundtrip_python : forall s c, valid_text s ->
  expansion expander_python (fst (x_escape expander_python s)) c = s.
Check C12_check_sound : forall x template names n,
  check x template names n = None -> Forall (step_ok names n) (steps x template).

(* non-vacuity: "a$é" is valid text and round-trips; the documented examples *)
Example ex_valid : valid_text [97; 36; 195; 169].
Proof.
  exists [[97]; [36]; [195; 169]]. split; [|reflexivity].
  repeat constructor.
Qed.
Example ex_doc :
  let c := {| cp_text := [97; 98]; cp_saves := [V 0; V 2; V 0; V 1; MAXV; MAXV];
              cp_names := [([110], 1)] |} in
  (* "$$-${n}-$n-$1x-$2-${1}x" *)
  expansion expander_default
    [36;36;45;36;123;110;125;45;36;110;45;36;49;120;45;36;50;45;36;123;49;125;120] c
  = [36;45;97;45;97;45;45;45;97;120].
Proof. vm_compute. reflexivity. Qed.

(* ... and it rejects ONLY such templates: check accepts a template iff every step is ok *)
Theorem C12_check_complete : forall x template names n,
  Forall (step_ok names n) (steps x template) -> check x template names n = None.
Proof. exact check_complete. Qed.

(* ---- the Python-style expander and numeric references ---- *)
(* `\g<name>` refers to name *)
Theorem C12_python_named : forall name rest, name <> [] -> Forall idb name ->
  steps expander_python (92 :: 103 :: 60 :: name ++ 62 :: rest) = StName name :: steps expander_python rest.
Proof. exact steps_python_named. Qed.

(* `\N` takes the longest run of decimal digits (a value that fits usize) *)
Theorem C12_python_number : forall ds rest, ds <> [] -> digits ds -> not_digit_next rest ->
  (dec_value ds <= usize_max)%N ->
  steps expander_python (92 :: ds ++ rest) = StNum (dec_value ds) :: steps expander_python rest.
Proof. exact steps_python_number. Qed.

(* a substitution character followed by nothing the syntax knows is an error step for `check`
   and is then copied verbatim, like everything after it *)
Theorem C12_python_stray : forall b rest, (b =? 92) = false -> (b =? 103) = false -> is_digit_b b = false ->
  steps expander_python (92 :: b :: rest) = StError :: StChar [92] :: steps expander_python (b :: rest).
Proof. exact steps_python_stray. Qed.
Theorem C12_default_stray : forall b rest, b < 128 -> is_id_cp b = false -> (b =? 36) = false -> (b =? 123) = false ->
  steps expander_default (36 :: b :: rest) = StError :: StChar [36] :: steps expander_default (b :: rest).
Proof. exact steps_default_stray. Qed.

(* `$N` / `${N}` of the default expander is the name step of the digit string; when no group has
   that NAME it inserts what the number inserts: the group's text, or nothing if there is no such
   group *)
Theorem C12_named_number : forall c ds, ds <> [] -> digits ds -> (dec_value ds <= usize_max)%N ->
  lookup_name (cp_names c) ds = None ->
  expand_step c (StName ds) = expand_step c (StNum (dec_value ds)).
Proof. exact expand_named_number. Qed.
Theorem C12_number_in_range : forall c n lo hi, (n < N.of_nat (length (cp_saves c)))%N ->
  cap_get (cp_saves c) (N.to_nat n) = Some (V lo, V hi) ->
  expand_step c (StNum n) = slice (cp_text c) lo hi.
Proof. exact expand_number_in_range. Qed.
Theorem C12_number_absent : forall c n, (N.of_nat (length (cp_saves c)) <= n)%N -> expand_step c (StNum n) = [].
Proof. exact expand_number_absent. Qed.

(* non-vacuity of the Python laws: "\\-\g<n>-\1x-\2-\q" *)
Example ex_doc_python :
  let c := {| cp_text := [97; 98]; cp_saves := [V 0; V 2; V 0; V 1; MAXV; MAXV];
              cp_names := [([110], 1)] |} in
  expansion expander_python
    [92;92;45;92;103;60;110;62;45;92;49;120;45;92;50;45;92;113] c
  = [92;45;97;45;97;120;45;45;92;113].
Proof. vm_compute. reflexivity. Qed.


Print Assumptions C12_escape_roundtrip_default.
Print Assumptions C12_escape_roundtrip_python.
Print Assumptions C12_escape_borrow.
Print Assumptions C12_check_sound.
Print Assumptions C12_verbatim.
Print Assumptions C12_no_reference_identity.
Print Assumptions C12_doubled.
Print Assumptions C12_braced.
Print Assumptions C12_bare_longest.
Print Assumptions C12_python_named.
Print Assumptions C12_python_number.
Print Assumptions C12_python_stray.
Print Assumptions C12_default_stray.
Print Assumptions C12_named_number.
Print Assumptions C12_number_in_range.
Print Assumptions C12_number_absent.
Print Assumptions C12_check_complete.
