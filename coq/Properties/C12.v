(* C12 — template expansion: escape round-trips for every valid UTF-8 string and every captures,
   for both expanders; escape borrows iff nothing needed escaping; check is sound.
   The documented $-syntax is pinned as laws of the step sequence of the default expander:
   anything that is not `$` is copied verbatim character by character, `$$` is one literal `$`,
   `${name}` and `$name` (the LONGEST run of identifier characters) are a reference to `name`.
   (Identifiers are taken over ASCII letters, digits and `_`; the full Unicode alphanumeric table is
   not modelled.)  The model as a whole is tied to the real expander by the exhaustive
   short-template comparison. *)
From FR Require Import Base Utf8 Utf8Facts Sem Api Expand ExpandProofs.

Theorem C12_escape_roundtrip_default : forall s c, valid_text s ->
  expansion expander_default (fst (x_escape expander_default s)) c = s.
Proof. intros. apply escape_roundtrip; auto. simpl. repeat constructor. Qed.

Theorem C12_escape_roundtrip_python : forall s c, valid_text s ->
  expansion expander_python (fst (x_escape expander_python s)) c = s.
Proof. intros. apply escape_roundtrip; auto. simpl. repeat constructor. Qed.

Theorem C12_escape_borrow : forall x s,
  snd (x_escape x s) = negb (existsb (Nat.eqb (sub_char x)) s).
Proof. exact escape_borrow. Qed.

Theorem C12_check_sound : forall x template names n,
  check x template names n = None -> Forall (step_ok names n) (steps x template).
Proof. exact check_sound. Qed.


(* ---- the documented syntax ---- *)
(* anything else is copied verbatim, character by character, in front of whatever follows *)
Theorem C12_verbatim : forall x, sub_char x < 128 -> forall cs rest, valid_chars cs ->
  Forall (fun ch => match ch with b :: _ => b <> sub_char x | [] => True end) cs ->
  steps x (concat cs ++ rest) = map StChar cs ++ steps x rest.
Proof. intros x Hx. apply steps_verbatim_prefix. exact Hx. Qed.

(* ... so a template without the substitution character expands to itself *)
Theorem C12_no_reference_identity : forall x, sub_char x < 128 -> forall cs c, valid_chars cs ->
  Forall (fun ch => match ch with b :: _ => b <> sub_char x | [] => True end) cs ->
  expansion x (concat cs) c = concat cs.
Proof. intros x Hx. apply expansion_verbatim. exact Hx. Qed.

(* `$$` (resp. `\\`) is one literal substitution character *)
Theorem C12_doubled : forall x, sub_char x < 128 -> forall rest,
  steps x (sub_char x :: sub_char x :: rest) = StChar [sub_char x] :: steps x rest.
Proof. intros x Hx. apply steps_doubled. exact Hx. Qed.

(* `${name}` refers to name *)
Theorem C12_braced : forall name rest, name <> [] -> Forall idb name ->
  steps expander_default (36 :: 123 :: name ++ 125 :: rest) = StName name :: steps expander_default rest.
Proof. exact steps_braced. Qed.

(* `$name` takes the longest run of identifier characters: it stops only at the end of the template
   or at a character that is not an identifier character *)
Theorem C12_bare_longest : forall name rest, name <> [] -> Forall idb name ->
  (match rest with [] => True | b :: _ => b < 128 /\ is_id_cp b = false end) ->
  steps expander_default (36 :: name ++ rest) = StName name :: steps expander_default rest.
Proof. exact steps_bare. Qed.

(* what a reference inserts: the group's text, by name first, by number if the name is a number
   and no group has that name; nothing if the group is absent or did not participate *)
Check expand_step.

Check C12_escape_roundtrip_default : forall s c, valid_text s ->
  expansion expander_default (fst (x_escape expander_default s)) c = s.
Check C12_escape_roundtrip_python : forall s c, valid_text s ->
  expansion expander_python (fst (x_escape expander_python s)) c = s.
Check C12_check_sound : forall x template names n,
  check x template names n = None -> Forall (step_ok names n) (steps x template).

(* non-vacuity: "a$é" is valid text and round-trips; the documented examples *)
Example ex_valid : valid_text [97; 36; 195; 169].
Proof.
  exists [[97]; [36]; [195; 169]]. split; [|reflexivity].
  repeat constructor.
Qed.
Example ex_doc :
  let c := {| cp_text := [97; 98]; cp_saves := [V 0; V 2; V 0; V 1; MAXV; MAXV];
              cp_names := [([110], 1)] |} in
  (* "$$-${n}-$n-$1x-$2-${1}x" *)
  expansion expander_default
    [36;36;45;36;123;110;125;45;36;110;45;36;49;120;45;36;50;45;36;123;49;125;120] c
  = [36;45;97;45;97;45;45;45;97;120].
Proof. vm_compute. reflexivity. Qed.

Print Assumptions C12_escape_roundtrip_default.
Print Assumptions C12_escape_roundtrip_python.
Print Assumptions C12_escape_borrow.
Print Assumptions C12_check_sound.
Print Assumptions C12_verbatim.
Print Assumptions C12_no_reference_identity.
Print Assumptions C12_doubled.
Print Assumptions C12_braced.
Print Assumptions C12_bare_longest.
