(* C12 — template expansion: escape round-trips for every valid UTF-8 string and every captures,
   for both expanders; escape borrows iff nothing needed escaping; check is sound.
   The remaining clause (the step sequence follows the documented $-syntax) is carried by the
   correspondence check against the real expander, not by a theorem (see DESIGN.md). *)
From FR Require Import Base Utf8 Utf8Facts Sem Api Expand ExpandProofs.

Theorem C12_escape_roundtrip_default : forall s c, valid_text s ->
  expansion expander_default (fst (x_escape expander_default s)) c = s.
Proof. intros. apply escape_roundtrip; auto. simpl. repeat constructor. Qed.

Theorem C12_escape_roundtrip_python : forall s c, valid_text s ->
  expansion expander_python (fst (x_escape expander_python s)) c = s.
Proof. intros. apply escape_roundtrip; auto. simpl. repeat constructor. Qed.

Theorem C12_escape_borrow : forall x s,
  snd (x_escape x s) = negb (existsb (Nat.eqb (sub_char x)) s).
Proof. exact escape_borrow. Qed.

Theorem C12_check_sound : forall x template names n,
  check x template names n = None -> Forall (step_ok names n) (steps x template).
Proof. exact check_sound. Qed.

Check C12_escape_roundtrip_default : forall s c, valid_text s ->
  expansion expander_default (fst (x_escape expander_default s)) c = s.
Check C12_escape_roundtrip_python : forall s c, valid_text s ->
  expansion expander_python (fst (x_escape expander_python s)) c = s.
Check C12_check_sound : forall x template names n,
  check x template names n = None -> Forall (step_ok names n) (steps x template).

(* non-vacuity: "a$é" is valid text and round-trips; the documented examples *)
Example ex_valid : valid_text [97; 36; 195; 169].
Proof.
  exists [[97]; [36]; [195; 169]]. split; [|reflexivity].
  repeat constructor.
Qed.
Example ex_doc :
  let c := {| cp_text := [97; 98]; cp_saves := [V 0; V 2; V 0; V 1; MAXV; MAXV];
              cp_names := [([110], 1)] |} in
  (* "$$-${n}-$n-$1x-$2-${1}x" *)
  expansion expander_default
    [36;36;45;36;123;110;125;45;36;110;45;36;49;120;45;36;50;45;36;123;49;125;120] c
  = [36;45;97;45;97;45;45;45;97;120].
Proof. vm_compute. reflexivity. Qed.

Print Assumptions C12_escape_roundtrip_default.
Print Assumptions C12_escape_roundtrip_python.
Print Assumptions C12_escape_borrow.
Print Assumptions C12_check_sound.
