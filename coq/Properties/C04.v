(* C04 — agreement with the regex crate on the shared syntax.  The regex crate is a dependency
   and is not modelled; what is proved is that fancy-regex's API layer implements the documented
   iteration / split / replace behaviour (which is the regex crate's documented behaviour) over
   any search function satisfying SearchOK.  The agreement itself is decided differentially
   against the real regex crate. *)
From FR Require Import Base Utf8 Api ApiProofs.

Theorem C04_iter_spec : forall tx search, SearchOK tx search ->
  (forall p f, search p f <> SErr EFuel) -> forall n, chain tx 0 (collect tx search n m_init).
Proof. intros. apply (collect_chain tx search H H0 n m_init). Qed.

Theorem C04_split_spec : forall tx search, SearchOK tx search -> (forall p f, search p f <> SErr EFuel) ->
  forall l, yields tx search m_init l ->
  forall n, split_collect tx search n sp_init = firstn n (pieces tx 0 l).
Proof. intros tx search H H0 l Hy n. apply (split_pieces tx search H H0 l m_init 0 Hy); apply Nat.le_0_l. Qed.

Theorem C04_replace_spec : forall tx search rep, SearchOK tx search -> (forall p f, search p f <> SErr EFuel) ->
  forall l limit, yields tx search m_init l ->
  try_replacen tx rep (mnext tx search) limit =
  match l with [] => RBorrowed | _ => rspec tx rep limit 0 0 l [] end.
Proof. intros. apply try_replacen_spec; auto. Qed.

Print Assumptions C04_iter_spec.
Print Assumptions C04_split_spec.
Print Assumptions C04_replace_spec.
