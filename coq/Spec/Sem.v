(* Sem.v — the reference semantics: leftmost, priority-ordered (Perl/Oniguruma-style)
   backtracking as a list-monad denotation.  [sem e fuel g st] lists every way [e] (whose first
   capture group has number [g]) can match from state [st = (offset, capture slots)], best
   first.  No program counter, no stack, no slots beyond the capture slots.
   [semk] is the first-success CPS version that is extracted and executed. *)
From FR Require Export Ast Analyze.

(* ---------- oracle tables on the harness alphabet (trusted base) ---------- *)

(* Unicode word characters: ASCII alphanumerics, '_', and the non-ASCII letters the harness
   alphabet contains (e-acute, E-acute, Cyrillic zhe/Zhe); every other code point the harness
   uses (newline, '-', space, euro sign, musical G clef) is a non-word character. *)
Definition is_word_cp (cp : nat) : bool :=
  ((48 <=? cp) && (cp <=? 57)) || ((65 <=? cp) && (cp <=? 90)) || ((97 <=? cp) && (cp <=? 122))
  || (cp =? 95) || (cp =? 233) || (cp =? 201) || (cp =? 1078) || (cp =? 1046).

(* simple case folding on ASCII and Latin-1 / basic Cyrillic letters of the alphabet *)
Definition fold_cp (cp : nat) : nat :=
  if (65 <=? cp) && (cp <=? 90) then cp + 32
  else if (192 <=? cp) && (cp <=? 222) && negb (cp =? 215) then cp + 32
  else if (1040 <=? cp) && (cp <=? 1071) then cp + 32
  else cp.

(* ---------- context and states ---------- *)

Record ctx := { c_text : text; c_pos : nat; c_skipped : bool }.
Definition sst := (nat * list val)%type.

Section WithCtx.
Variable cx : ctx.
Let t := c_text cx.

Definition byte_is (ix b : nat) : bool :=
  match nth_error t ix with Some x => x =? b | None => false end.

Definition word_before (ix : nat) : bool :=
  match decode_before t ix with Some cp => is_word_cp cp | None => false end.
Definition word_after (ix : nat) : bool :=
  match decode_at t ix with Some (cp, _) => is_word_cp cp | None => false end.

Definition assert_holds (a : assertion) (ix : nat) : bool :=
  match a with
  | StartText => ix =? 0
  | EndText => ix =? length t
  | StartLine false => (ix =? 0) || byte_is (ix - 1) 10
  | EndLine false => (ix =? length t) || byte_is ix 10
  | StartLine true =>
      (ix =? 0) || byte_is (ix - 1) 10
      || (byte_is (ix - 1) 13 && ((length t <=? ix) || negb (byte_is ix 10)))
  | EndLine true =>
      (ix =? length t) || byte_is ix 13
      || (byte_is ix 10 && ((ix =? 0) || negb (byte_is (ix - 1) 13)))
  | LeftWordBoundary => negb (word_before ix) && word_after ix
  | RightWordBoundary => word_before ix && negb (word_after ix)
  | WordBoundary => negb (Bool.eqb (word_before ix) (word_after ix))
  | NotWordBoundary => Bool.eqb (word_before ix) (word_after ix)
  end.

(* code points of a byte string (fuel = its length) *)
Fixpoint cps_of (fuel : nat) (s : list nat) (i : nat) : list nat :=
  match fuel with
  | 0 => []
  | S f => match decode_at s i with
           | Some (cp, len) => cp :: cps_of f s (i + len)
           | None => []
           end
  end.

(* case-insensitive literal: code point by code point under simple folding *)
Fixpoint lit_ci (cps : list nat) (ix : nat) : option nat :=
  match cps with
  | [] => if ix <=? length t then Some ix else None
  | c :: r =>
      match decode_at t ix with
      | Some (cp, len) => if fold_cp cp =? fold_cp c then lit_ci r (ix + len) else None
      | None => None
      end
  end.

(* all bytes from ix to the end are '\n' *)
Definition only_newlines_from (ix : nat) : bool :=
  forallb (fun b => b =? 10) (skipn ix t).

(* char boundaries at or before ix, nearest first *)
Fixpoint backs (fuel ix : nat) : list nat :=
  ix :: match fuel with
        | 0 => []
        | S f => match ix with
                 | 0 => []
                 | _ => match prev_cp t ix with Some j => backs f j | None => [] end
                 end
        end.

Definition getcap (caps : list val) (i : nat) : val :=
  match nth_error caps i with Some v => v | None => MAXV end.

(* ---------- repetition, list version ---------- *)

Fixpoint rep_must (body : sst -> list sst) (n : nat) (st : sst) : list sst :=
  match n with
  | 0 => [st]
  | S n' => flat_map (rep_must body n') (body st)
  end.

Fixpoint rep_opt_b (body : sst -> list sst) (greedy : bool) (m : nat) (st : sst) : list sst :=
  match m with
  | 0 => [st]
  | S m' =>
      let more := flat_map (rep_opt_b body greedy m') (body st) in
      if greedy then more ++ [st] else st :: more
  end.

(* unbounded: an optional iteration that consumed nothing is dropped; fuel bounds the number
   of (necessarily advancing) iterations *)
Fixpoint rep_opt_u (body : sst -> list sst) (greedy : bool) (fuel : nat) (st : sst) : list sst :=
  match fuel with
  | 0 => []
  | S f =>
      let more := flat_map (fun s' => if fst s' =? fst st then [] else rep_opt_u body greedy f s')
                           (body st) in
      if greedy then more ++ [st] else st :: more
  end.

Definition first_ending (l : list sst) (ix : nat) : option sst :=
  find (fun s => fst s =? ix) l.

Fixpoint first_some {A B} (f : A -> option B) (l : list A) : option B :=
  match l with
  | [] => None
  | x :: r => match f x with Some y => Some y | None => first_some f r end
  end.

Definition is_alt (e : expr) : bool := match e with Alt _ => true | _ => false end.

(* ---------- the denotation ---------- *)

Fixpoint sem (e : expr) (fuel g : nat) (st : sst) {struct e} : list sst :=
  let '(ix, caps) := st in
  match e with
  | Empty => [st]
  | Any nl =>
      match nth_error t ix with
      | Some b => if nl || negb (b =? 10) then [(ix + cp_len b, caps)] else []
      | None => []
      end
  | Assertion a => if assert_holds a ix then [st] else []
  | Literal v casei =>
      if casei then
        match lit_ci (cps_of (length v) v 0) ix with Some ix' => [(ix', caps)] | None => [] end
      else if lit_at t ix v then [(ix + length v, caps)] else []
  | Concat es =>
      (fix go (g : nat) (l : list expr) (st : sst) : list sst :=
         match l with
         | [] => [st]
         | x :: r => flat_map (go (g + ngroups x) r) (sem x fuel g st)
         end) g es st
  | Alt es =>
      (fix go (g : nat) (l : list expr) : list sst :=
         match l with
         | [] => []
         | x :: r => sem x fuel g st ++ go (g + ngroups x) r
         end) g es
  | Group c =>
      map (fun s' => (fst s', upd (snd s') (2 * g + 1) (V (fst s'))))
          (sem c fuel (S g) (ix, upd caps (2 * g) (V ix)))
  | LookAround c LookAhead =>
      map (fun s' => (ix, snd s')) (firstn 1 (sem c fuel g st))
  | LookAround c LookAheadNeg =>
      match sem c fuel g st with [] => [st] | _ => [] end
  | LookAround c la =>
      (* look-behind: the body matches the text ending exactly here *)
      let try_alt (a : expr) (ga : nat) : option sst :=
        first_some (fun j => first_ending (sem a fuel ga (j, caps)) ix) (backs ix ix) in
      let found : option sst :=
        match c with
        | Alt es =>
            (fix go (g : nat) (l : list expr) : option sst :=
               match l with
               | [] => None
               | x :: r => match try_alt x g with Some s => Some s | None => go (g + ngroups x) r end
               end) g es
        | _ => try_alt c g
        end in
      (* an alternation of different lengths is read as an alternation of look-behinds
         (Oniguruma): every alternative that matches is a way to succeed, in order *)
      let split_all : list sst :=
        match c with
        | Alt es =>
            (fix go (g : nat) (l : list expr) : list sst :=
               match l with
               | [] => []
               | x :: r => match try_alt x g with Some s => [(ix, snd s)] | None => [] end
                           ++ go (g + ngroups x) r
               end) g es
        | _ => []
        end in
      match la, found with
      | LookBehind, Some s' => if is_alt c && negb (const_size c) then split_all else [(ix, snd s')]
      | LookBehind, None => []
      | _, Some _ => []
      | _, None => [st]
      end
  | Repeat c lo hi greedy =>
      let body := sem c fuel g in
      flat_map (fun s1 =>
                  if N.eqb hi usize_max then rep_opt_u body greedy fuel s1
                  else rep_opt_b body greedy (N.to_nat hi - N.to_nat lo) s1)
               (rep_must body (N.to_nat lo) st)
  | Delegate _ _ _ (DClass cps) =>
      match decode_at t ix with
      | Some (cp, len) => if existsb (Nat.eqb cp) cps then [(ix + len, caps)] else []
      | None => []
      end
  | Delegate _ _ _ DNlStarEnd =>
      if (ix <=? length t) && only_newlines_from ix then [(length t, caps)] else []
  | Backref grp =>
      match getcap caps (2 * N.to_nat grp), getcap caps (2 * N.to_nat grp + 1) with
      | V lo, V hi =>
          if (lo <=? hi) && lit_at t ix (slice t lo hi) then [(ix + (hi - lo), caps)] else []
      | _, _ => []
      end
  | AtomicGroup c => firstn 1 (sem c fuel g st)
  | KeepOut => [(ix, upd caps 0 (V ix))]
  | ContinueFromPreviousMatchEnd =>
      if (ix =? c_pos cx) && negb (c_skipped cx) then [st] else []
  | BackrefExistsCondition grp =>
      match getcap caps (2 * N.to_nat grp) with V _ => [st] | MAXV => [] end
  | Conditional c y n =>
      match sem c fuel g st with
      | s1 :: _ => sem y fuel (g + ngroups c) s1
      | [] => sem n fuel (g + ngroups c + ngroups y) st
      end
  | SubroutineCall _ => []
  end.

(* ---------- first-success CPS version ---------- *)

Definition K := sst -> option sst.

Fixpoint rep_must_k (body : sst -> K -> option sst) (n : nat) (st : sst) (k : K) : option sst :=
  match n with
  | 0 => k st
  | S n' => body st (fun s' => rep_must_k body n' s' k)
  end.

Definition orelse (a : option sst) (b : unit -> option sst) : option sst :=
  match a with Some r => Some r | None => b tt end.

Fixpoint rep_opt_b_k (body : sst -> K -> option sst) (greedy : bool) (m : nat) (st : sst) (k : K)
  : option sst :=
  match m with
  | 0 => k st
  | S m' =>
      if greedy
      then orelse (body st (fun s' => rep_opt_b_k body greedy m' s' k)) (fun _ => k st)
      else orelse (k st) (fun _ => body st (fun s' => rep_opt_b_k body greedy m' s' k))
  end.

Fixpoint rep_opt_u_k (body : sst -> K -> option sst) (greedy : bool) (fuel : nat) (st : sst) (k : K)
  : option sst :=
  match fuel with
  | 0 => None
  | S f =>
      let more (_ : unit) :=
        body st (fun s' => if fst s' =? fst st then None else rep_opt_u_k body greedy f s' k) in
      if greedy then orelse (more tt) (fun _ => k st) else orelse (k st) more
  end.

Fixpoint semk (e : expr) (fuel g : nat) (st : sst) (k : K) {struct e} : option sst :=
  let '(ix, caps) := st in
  match e with
  | Concat es =>
      (fix go (g : nat) (l : list expr) (st : sst) (k : K) : option sst :=
         match l with
         | [] => k st
         | x :: r => semk x fuel g st (fun s' => go (g + ngroups x) r s' k)
         end) g es st k
  | Alt es =>
      (fix go (g : nat) (l : list expr) : option sst :=
         match l with
         | [] => None
         | x :: r => orelse (semk x fuel g st k) (fun _ => go (g + ngroups x) r)
         end) g es
  | Group c =>
      semk c fuel (S g) (ix, upd caps (2 * g) (V ix))
           (fun s' => k (fst s', upd (snd s') (2 * g + 1) (V (fst s'))))
  | LookAround c LookAhead =>
      match semk c fuel g st Some with Some s' => k (ix, snd s') | None => None end
  | LookAround c LookAheadNeg =>
      match semk c fuel g st Some with Some _ => None | None => k st end
  | LookAround c la =>
      let try_alt (a : expr) (ga : nat) : option sst :=
        first_some (fun j => semk a fuel ga (j, caps)
                                  (fun s' => if fst s' =? ix then Some s' else None))
                   (backs ix ix) in
      let found : option sst :=
        match c with
        | Alt es =>
            (fix go (g : nat) (l : list expr) : option sst :=
               match l with
               | [] => None
               | x :: r => match try_alt x g with Some s => Some s | None => go (g + ngroups x) r end
               end) g es
        | _ => try_alt c g
        end in
      let split_all : option sst :=
        match c with
        | Alt es =>
            (fix go (g : nat) (l : list expr) : option sst :=
               match l with
               | [] => None
               | x :: r => match try_alt x g with
                           | Some s => orelse (k (ix, snd s)) (fun _ => go (g + ngroups x) r)
                           | None => go (g + ngroups x) r
                           end
               end) g es
        | _ => None
        end in
      match la, found with
      | LookBehind, Some s' => if is_alt c && negb (const_size c) then split_all else k (ix, snd s')
      | LookBehind, None => None
      | _, Some _ => None
      | _, None => k st
      end
  | Repeat c lo hi greedy =>
      let body := semk c fuel g in
      rep_must_k body (N.to_nat lo) st
        (fun s1 => if N.eqb hi usize_max then rep_opt_u_k body greedy fuel s1 k
                   else rep_opt_b_k body greedy (N.to_nat hi - N.to_nat lo) s1 k)
  | AtomicGroup c =>
      match semk c fuel g st Some with Some s' => k s' | None => None end
  | Conditional c y n =>
      match semk c fuel g st Some with
      | Some s1 => semk y fuel (g + ngroups c) s1 k
      | None => semk n fuel (g + ngroups c + ngroups y) st k
      end
  | _ => first_some k (sem e fuel g st)      (* leaves: at most one result *)
  end.

(* ---------- searching ---------- *)

Definition init_caps (n_groups : nat) : list val := repeat MAXV (2 * n_groups).

(* what Insn::End does: cap the start to <= end *)
Definition end_fix (caps : list val) : list val :=
  match getcap caps 0, nth_error caps 1 with
  | V s0, Some (V s1) => if s1 <? s0 then upd caps 0 (V s1) else caps
  | MAXV, Some (V s1) => upd caps 0 (V s1)
  | _, _ => caps
  end.

(* the reference search: the head of the denotation of (?s:.)*?(RE) from pos *)
Definition search_list (e : expr) (fuel : nat) : option (list val) :=
  match sem (wrap e) fuel 0 (c_pos cx, init_caps (S (ngroups e))) with
  | s :: _ => Some (end_fix (snd s))
  | [] => None
  end.

Definition search (e : expr) (fuel : nat) : option (list val) :=
  match semk (wrap e) fuel 0 (c_pos cx, init_caps (S (ngroups e))) Some with
  | Some s => Some (end_fix (snd s))
  | None => None
  end.

End WithCtx.
