(* SemK.v — the first-success continuation-passing semantics [semk] (what the check's oracle and
   the Delegate instruction of the model VM evaluate) is the list semantics [sem] read by
   "first result accepted by the continuation": semk e st k = first_some k (sem e st), for every
   construct.  Hence [search] = [search_list]. *)
From FR Require Import Base Utf8 Ast Analyze Sem ExprLemmas SemSound.
From Coq Require Import Lia NArith.

Section SemK.
Variable cx : ctx.

Lemma fs_app (k : K) a b : first_some k (a ++ b) = orelse (first_some k a) (fun _ => first_some k b).
Proof. induction a as [|x a IH]; cbn [app first_some orelse]; auto. destruct (k x); auto. Qed.

Lemma fs_flat_map (k : K) (f : sst -> list sst) l :
  first_some k (flat_map f l) = first_some (fun a => first_some k (f a)) l.
Proof.
  induction l as [|x l IH]; cbn [flat_map first_some]; auto. rewrite fs_app, IH.
  destruct (first_some k (f x)); reflexivity.
Qed.

Lemma fs_map (k : K) (f : sst -> sst) l : first_some k (map f l) = first_some (fun a => k (f a)) l.
Proof. induction l as [|x l IH]; cbn [map first_some]; auto. now rewrite IH. Qed.

Lemma fs_ext {A} (k k' : A -> option sst) l : (forall a, k a = k' a) -> first_some k l = first_some k' l.
Proof. intros H. induction l as [|x l IH]; cbn [first_some]; auto. now rewrite H, IH. Qed.

Lemma fs_single (k : K) s : first_some k [s] = k s.
Proof. cbn. destruct (k s); reflexivity. Qed.

Lemma fs_hd (l : list sst) : first_some Some l = hd_error l.
Proof. destruct l; reflexivity. Qed.

Lemma fs_firstn1 (k : K) l : first_some k (firstn 1 l) = match hd_error l with Some s => k s | None => None end.
Proof. destruct l as [|s l]; cbn; auto. destruct (k s); reflexivity. Qed.

Lemma fs_find (ix : nat) l :
  first_some (fun s' : sst => if fst s' =? ix then Some s' else None) l = first_ending l ix.
Proof.
  unfold first_ending. induction l as [|s l IH]; cbn [first_some find]; auto.
  destruct (fst s =? ix); auto.
Qed.

(* ---------- repetition ---------- *)
Section Rep.
Variable bodyk : sst -> K -> option sst.
Variable body : sst -> list sst.
Hypothesis Hb : forall s k, bodyk s k = first_some k (body s).

Lemma rep_must_k_eq : forall n s k, rep_must_k bodyk n s k = first_some k (rep_must body n s).
Proof.
  induction n as [|n IH]; intros s k; cbn [rep_must_k rep_must].
  - now rewrite fs_single.
  - rewrite Hb, fs_flat_map. apply fs_ext. intros a. apply IH.
Qed.

Lemma rep_opt_b_k_eq gr : forall m s k, rep_opt_b_k bodyk gr m s k = first_some k (rep_opt_b body gr m s).
Proof.
  induction m as [|m IH]; intros s k; cbn [rep_opt_b_k rep_opt_b].
  - now rewrite fs_single.
  - rewrite Hb. destruct gr.
    + rewrite fs_app, fs_flat_map, fs_single. f_equal. apply fs_ext. intros a. apply IH.
    + cbn [first_some]. unfold orelse. destruct (k s); auto. rewrite fs_flat_map. apply fs_ext. intros a. apply IH.
Qed.

Lemma rep_opt_u_k_eq gr : forall f s k, rep_opt_u_k bodyk gr f s k = first_some k (rep_opt_u body gr f s).
Proof.
  induction f as [|f IH]; intros s k; cbn [rep_opt_u_k rep_opt_u]; auto.
  rewrite Hb.
  assert (E : first_some (fun s' => if fst s' =? fst s then None else rep_opt_u_k bodyk gr f s' k) (body s) =
              first_some k (flat_map (fun s' => if fst s' =? fst s then [] else rep_opt_u body gr f s') (body s))).
  { rewrite fs_flat_map. apply fs_ext. intros a. destruct (fst a =? fst s); auto. }
  destruct gr.
  - rewrite fs_app, fs_single. f_equal. exact E.
  - cbn [first_some]. unfold orelse. destruct (k s); auto.
Qed.
End Rep.

(* ---------- the theorem ---------- *)
Definition KS (e : expr) : Prop := forall fuel g st k, semk cx e fuel g st k = first_some k (sem cx e fuel g st).

Lemma try_alt_eq a : KS a -> forall fuel ga ix caps,
  first_some (fun j => semk cx a fuel ga (j, caps) (fun s' => if fst s' =? ix then Some s' else None)) (backs cx ix ix) =
  first_some (fun j => first_ending (sem cx a fuel ga (j, caps)) ix) (backs cx ix ix).
Proof. intros Ha fuel ga ix caps. apply fs_ext. intros j. rewrite Ha. apply fs_find. Qed.

Lemma found_eq fuel ix caps : forall es, (forall y, In y es -> KS y) -> forall g,
  (fix go (g : nat) (l : list expr) : option sst :=
     match l with [] => None
     | x :: r => match first_some (fun j => semk cx x fuel g (j, caps) (fun s' => if fst s' =? ix then Some s' else None)) (backs cx ix ix)
                 with Some s => Some s | None => go (g + ngroups x) r end end) g es =
  (fix go (g : nat) (l : list expr) : option sst :=
     match l with [] => None
     | x :: r => match first_some (fun j => first_ending (sem cx x fuel g (j, caps)) ix) (backs cx ix ix)
                 with Some s => Some s | None => go (g + ngroups x) r end end) g es.
Proof.
  induction es as [|x r IH]; intros Hall g; auto.
  rewrite (try_alt_eq x) by (apply Hall; left; auto). rewrite IH by (intros; apply Hall; right; auto). reflexivity.
Qed.

Lemma split_eq fuel ix caps (k : K) : forall es, (forall y, In y es -> KS y) -> forall g,
  (fix go (g : nat) (l : list expr) : option sst :=
     match l with [] => None
     | x :: r => match first_some (fun j => semk cx x fuel g (j, caps) (fun s' => if fst s' =? ix then Some s' else None)) (backs cx ix ix) with
                 | Some s => orelse (k (ix, snd s)) (fun _ => go (g + ngroups x) r)
                 | None => go (g + ngroups x) r
                 end end) g es =
  first_some k
    ((fix go (g : nat) (l : list expr) : list sst :=
        match l with [] => []
        | x :: r => match first_some (fun j => first_ending (sem cx x fuel g (j, caps)) ix) (backs cx ix ix)
                    with Some s => [(ix, snd s)] | None => [] end ++ go (g + ngroups x) r end) g es).
Proof.
  induction es as [|x r IH]; intros Hall g; auto.
  rewrite (try_alt_eq x) by (apply Hall; left; auto). rewrite fs_app.
  specialize (IH (fun y Hy => Hall y (or_intror Hy)) (g + ngroups x)).
  destruct (first_some _ (backs cx ix ix)) as [s|].
  - rewrite fs_single. unfold orelse. destruct (k (ix, snd s)); auto.
  - cbn [first_some orelse]. exact IH.
Qed.

Lemma semk_sem_aux : forall e, KS e /\ Forall KS (alts_of e).
Proof.
  induction e using expr_ind'.
  all: try match goal with |- KS ?e /\ Forall KS (alts_of ?e) =>
         match e with
         | Alt _ => idtac
         | _ => assert (H1 : KS e); [|split; [exact H1|constructor; [exact H1|constructor]]] end end.
  - intros fuel g [ix caps] k. reflexivity.
  - intros fuel g [ix caps] k. reflexivity.
  - intros fuel g [ix caps] k. reflexivity.
  - intros fuel g [ix caps] k. reflexivity.
  - (* Concat *)
    assert (Hks : Forall KS es) by (eapply Forall_impl; [|exact H]; intros a Ha; apply Ha).
    intros fuel g st k. rewrite sem_concat_eq. destruct st as [ix caps]. cbn [semk].
    generalize (ix, caps) as st. revert g k. clear H.
    induction Hks as [|x r Hx Hr IH]; intros g k st; cbn [sem_cat].
    + now rewrite fs_single.
    + rewrite Hx, fs_flat_map. apply fs_ext. intros a. apply IH.
  - (* Alt *)
    assert (Hks : Forall KS es) by (eapply Forall_impl; [|exact H]; intros a Ha; apply Ha).
    split; [|exact Hks].
    intros fuel g st k. rewrite sem_alt_eq. destruct st as [ix caps]. cbn [semk].
    revert g. clear H. induction Hks as [|x r Hx Hr IH]; intros g; cbn [sem_alts]; auto.
    rewrite fs_app. specialize (IH (g + ngroups x)).
    match goal with |- ?L = _ => change L with
      (orelse (semk cx x fuel g (ix, caps) k)
         (fun _ => (fix go (g : nat) (l : list expr) : option sst :=
            match l with
            | [] => None
            | x :: r => orelse (semk cx x fuel g (ix, caps) k) (fun _ => go (g + ngroups x) r)
            end) (g + ngroups x) r)) end.
    rewrite Hx. destruct (first_some k (sem cx x fuel g (ix, caps))); cbn [orelse]; auto.
  - (* Group *) destruct IHe as [IHe _]. intros fuel g [ix caps] k. cbn [semk sem]. rewrite IHe, fs_map. reflexivity.
  - (* LookAround *) destruct IHe as [IHe IHalts]. intros fuel g [ix caps] k. destruct la.
    + cbn [semk sem]. rewrite IHe, fs_hd, fs_map.
      destruct (sem cx e fuel g (ix, caps)) as [|s l]; cbn; auto. destruct (k (ix, snd s)); reflexivity.
    + cbn [semk sem]. rewrite IHe, fs_hd.
      destruct (sem cx e fuel g (ix, caps)) as [|s l]; cbn; auto. destruct (k (ix, caps)); reflexivity.
    + (* LookBehind *)
      cbn [semk sem]. rewrite Forall_forall in IHalts.
      destruct e as [| | | | |es| | | | | | | | | | |]; try (rewrite (try_alt_eq _ IHe); cbn [is_alt andb];
        match goal with |- match ?f with _ => _ end = _ => destruct f as [s2|] end; [now rewrite fs_single|reflexivity]).
      cbn [alts_of] in IHalts. rewrite (found_eq fuel ix caps es IHalts g).
      match goal with |- match ?f with _ => _ end = _ => destruct f as [s2|] end; [|reflexivity].
      destruct (is_alt (Alt es) && negb (const_size (Alt es))); [|now rewrite fs_single].
      apply split_eq. exact IHalts.
    + (* LookBehindNeg *)
      cbn [semk sem]. rewrite Forall_forall in IHalts.
      destruct e as [| | | | |es| | | | | | | | | | |]; try (rewrite (try_alt_eq _ IHe);
        match goal with |- match ?f with _ => _ end = _ => destruct f as [s2|] end; [reflexivity|now rewrite fs_single]).
      cbn [alts_of] in IHalts. rewrite (found_eq fuel ix caps es IHalts g).
      match goal with |- match ?f with _ => _ end = _ => destruct f as [s2|] end; [reflexivity|now rewrite fs_single].
  - (* Repeat *) destruct IHe as [IHe _]. intros fuel g [ix caps] k. cbn [semk sem].
    rewrite (rep_must_k_eq (semk cx e fuel g) (sem cx e fuel g)) by (intros; apply IHe).
    rewrite fs_flat_map. apply fs_ext. intros a. destruct (N.eqb hi usize_max).
    + apply rep_opt_u_k_eq. intros; apply IHe.
    + apply rep_opt_b_k_eq. intros; apply IHe.
  - intros fuel g [ix caps] k1. destruct k; reflexivity.
  - intros fuel g1 [ix caps] k. reflexivity.
  - (* AtomicGroup *) destruct IHe as [IHe _]. intros fuel g [ix caps] k. cbn [semk sem]. rewrite IHe, fs_hd, fs_firstn1. reflexivity.
  - intros fuel g1 [ix caps] k. reflexivity.
  - intros fuel g1 [ix caps] k. reflexivity.
  - intros fuel g1 [ix caps] k. reflexivity.
  - (* Conditional *) destruct IHe1 as [IH1 _]. destruct IHe2 as [IH2 _]. destruct IHe3 as [IH3 _].
    intros fuel g [ix caps] k. cbn [semk sem]. rewrite IH1, fs_hd.
    destruct (sem cx e1 fuel g (ix, caps)) as [|s l]; cbn [hd_error]; [apply IH3|apply IH2].
  - intros fuel g1 [ix caps] k. reflexivity.
Qed.

Theorem semk_sem : forall e fuel g st k, semk cx e fuel g st k = first_some k (sem cx e fuel g st).
Proof. intros e. apply (proj1 (semk_sem_aux e)). Qed.

(* the two formulations of the reference search agree *)
Theorem search_eq e fuel : search cx e fuel = search_list cx e fuel.
Proof.
  unfold search, search_list. rewrite semk_sem, fs_hd.
  destruct (sem cx (wrap e) fuel 0 (c_pos cx, init_caps (S (ngroups e)))); reflexivity.
Qed.

End SemK.
