(* VmLimits.v — C07: the backtrack limit only adds an abort test.  A limited run and an
   unlimited run of the same program are in lock-step until the limit fires; all statements
   hold for EVERY program, text, start state and amount of fuel. *)
From FR Require Import Base State Vm.
From Coq Require Import NArith Lia.

Section Limits.
Variable cx : ctx.
Variable p : prog.
Variable St : Type.
Variable I : iface St.
Notation run_loop := (grun_loop cx St I).
Notation exec_insn := (gexec_insn cx St I).


(* the limited run either reports the limit or IS the unlimited run (result and statistics) *)
Lemma limit_prefix L : forall fuel pc ix s bt st,
  fst (run_loop p (Some L) fuel pc ix s bt st) = RErrLimit \/
  run_loop p (Some L) fuel pc ix s bt st = run_loop p None fuel pc ix s bt st.
Proof.
  induction fuel as [|f IH]; intros pc ix s bt st; cbn [grun_loop]; auto.
  destruct (nth_error (p_body p) pc) as [i|]; auto.
  destruct (exec_insn i pc ix s) as [pc' ix' s'| s' | sv | | ]; auto.
  destruct (i_count I s' =? 0) eqn:Es; auto.
  destruct (N.ltb L (N.succ bt)); [left; reflexivity|].
  destruct (i_pop I s') as [[[s'' pc'] ix']|]; [apply IH|right; reflexivity].
Qed.

(* statistics only grow *)
Lemma n_back_mono lim : forall fuel pc ix s bt st,
  (n_back st <= n_back (snd (run_loop p lim fuel pc ix s bt st)))%N.
Proof.
  induction fuel as [|f IH]; intros pc ix s bt st; cbn [grun_loop]; [simpl; lia|].
  destruct (nth_error (p_body p) pc) as [i|]; [|simpl; lia].
  destruct (exec_insn i pc ix s) as [pc' ix' s'| s' | sv | | ]; try (simpl; lia).
  - etransitivity; [|apply IH]. simpl. lia.
  - destruct (i_count I s' =? 0); [simpl; lia|].
    destruct (match lim with Some l => N.ltb l (N.succ bt) | None => false end); [simpl; lia|].
    destruct (i_pop I s') as [[[s'' pc'] ix']|]; [|simpl; lia].
    etransitivity; [|apply IH]. simpl. lia.
Qed.

(* if the unlimited run takes at most L backtracks, the limited run is that run *)
Lemma limit_enough L : forall fuel pc ix s bt st,
  n_back st = bt ->
  (n_back (snd (run_loop p None fuel pc ix s bt st)) <= L)%N ->
  run_loop p (Some L) fuel pc ix s bt st = run_loop p None fuel pc ix s bt st.
Proof.
  induction fuel as [|f IH]; intros pc ix s bt st Hb Hle; cbn [grun_loop] in *; [reflexivity|].
  destruct (nth_error (p_body p) pc) as [i|]; [|reflexivity].
  destruct (exec_insn i pc ix s) as [pc' ix' s'| s' | sv | | ]; [ | |reflexivity|reflexivity|reflexivity].
  - apply IH; auto.
  - destruct (i_count I s' =? 0) eqn:Es; [reflexivity|].
    destruct (i_pop I s') as [[[s'' pc'] ix']|] eqn:Ep.
    + pose proof (n_back_mono None f pc' ix' s'' (N.succ bt) (bump_back (bump st (i_count I s)))) as Hm.
      simpl in Hm. destruct (N.ltb_spec L (N.succ bt)); [lia|].
      apply IH; auto. simpl. lia.
    + simpl in Hle. destruct (N.ltb_spec L (N.succ bt)); [lia|reflexivity].
Qed.

(* the limit error is reported only when the unlimited run really needs more backtracks *)
Lemma limit_fires_only_if L : forall fuel pc ix s bt st,
  n_back st = bt ->
  fst (run_loop p (Some L) fuel pc ix s bt st) = RErrLimit ->
  (L < n_back (snd (run_loop p None fuel pc ix s bt st)))%N.
Proof.
  induction fuel as [|f IH]; intros pc ix s bt st Hb H; cbn [grun_loop] in *; [discriminate|].
  destruct (nth_error (p_body p) pc) as [i|]; [|discriminate].
  destruct (exec_insn i pc ix s) as [pc' ix' s'| s' | sv | | ]; [ | |discriminate|discriminate|discriminate].
  - apply IH; auto.
  - destruct (i_count I s' =? 0) eqn:Es; [discriminate|].
    destruct (N.ltb_spec L (N.succ bt)) as [Hlt|Hge].
    + destruct (i_pop I s') as [[[s'' pc'] ix']|].
      * eapply N.lt_le_trans; [|apply n_back_mono]. simpl. lia.
      * simpl. lia.
    + destruct (i_pop I s') as [[[s'' pc'] ix']|]; [|discriminate].
      apply IH; auto. simpl. lia.
Qed.

End Limits.

Section Bounded.
Variable cx : ctx.
Variable p : prog.
Notation run_loop := (grun_loop cx state iface0).
Notation exec_insn := (gexec_insn cx state iface0).
Notation fnla := (Vm.fnla state iface0).
Notation save_groups := (Vm.save_groups state iface0).
Ltac red0 := cbn [iface0 i_push i_pop i_save i_get i_spush i_spop i_count i_cut i_result] in *.
(* the branch stack never exceeds max_stack: pushes beyond it are StackOverflow *)
Definition bounded (mx : nat) (s : state) : Prop := length (stack s) <= mx /\ max_stack s = mx.

Lemma bounded_save mx s sl v s' : st_save s sl v = Some s' -> bounded mx s -> bounded mx s'.
Proof.
  unfold st_save, bounded. destruct (ns s <=? length (old s)); [|discriminate].
  destruct (nth_error (saves s) sl); [|discriminate].
  destruct (existsb _ _); intros H; inversion H; subst; simpl; auto.
Qed.
Lemma bounded_push mx s pc ix s' : st_push s pc ix = Some s' -> bounded mx s -> bounded mx s'.
Proof.
  unfold st_push, bounded. destruct (Nat.ltb_spec (length (stack s)) (max_stack s)) as [Hlt|]; [|discriminate].
  intros Hs [H1 H2]; inversion Hs; subst; simpl. split; auto.
Qed.
Lemma bounded_pop mx s s' pc ix : st_pop s = Some (s', pc, ix) -> bounded mx s -> bounded mx s'.
Proof.
  unfold st_pop, bounded. destruct (ns s <=? length (old s)); [|discriminate].
  destruct (slots_in _ _); [|discriminate]. destruct (stack s) eqn:E; [discriminate|].
  intros Hs [H1 H2]; inversion Hs; subst; simpl in *. split; auto. lia.
Qed.
Lemma bounded_cut mx s c s' : st_cut s c = Some s' -> bounded mx s -> bounded mx s'.
Proof.
  unfold st_cut, bounded. destruct (length (stack s) =? c); [intros H; inversion H; subst; auto|].
  destruct (length (stack s) <? c); [discriminate|].
  destruct (length (old s) <? _); [discriminate|].
  intros Hs [H1 H2]; inversion Hs; subst; simpl. rewrite skipn_length. split; auto. lia.
Qed.
Lemma bounded_stack_push mx s v s' : st_stack_push s v = Some s' -> bounded mx s -> bounded mx s'.
Proof.
  unfold st_stack_push. intros H Hb.
  set (s1 := if length (saves s) =? esp s then set_saves s (saves s ++ [V (esp s + 1)]) else s) in *.
  assert (H1 : bounded mx s1) by (unfold s1; destruct (length (saves s) =? esp s); auto).
  destruct (nth_error (saves s1) (esp s)) as [[sp|]|]; try discriminate.
  destruct (length (saves s1) =? sp).
  - eapply bounded_save; [exact H|]. exact H1.
  - destruct (st_save s1 sp v) as [s2|] eqn:E2; [|discriminate].
    eapply bounded_save; [exact H|]. eapply bounded_save; eauto.
Qed.
Lemma bounded_stack_pop mx s s' v : st_stack_pop s = Some (s', v) -> bounded mx s -> bounded mx s'.
Proof.
  unfold st_stack_pop. destruct (nth_error (saves s) (esp s)) as [[[|sp]|]|]; try discriminate.
  destruct (nth_error (saves s) sp); [|discriminate].
  destruct (st_save s (esp s) (V sp)) eqn:E; [|discriminate].
  intros H; inversion H; subst. eapply bounded_save; eauto.
Qed.
Lemma bounded_fnla mx : forall fuel s tgt s', fnla fuel s tgt = Some s' -> bounded mx s -> bounded mx s'.
Proof.
  induction fuel as [|f IH]; intros s tgt s' H Hb; cbn [Vm.fnla] in H; red0; [discriminate|].
  destruct (st_pop s) as [[[s1 ppc] ?]|] eqn:E; [|discriminate].
  pose proof (bounded_pop _ _ _ _ _ E Hb). destruct (ppc =? tgt); [inversion H; subst; auto|eauto].
Qed.
Lemma bounded_save_groups mx : forall n s caps sg s',
  save_groups s caps sg n = Some s' -> bounded mx s -> bounded mx s'.
Proof.
  induction n as [|n IH]; intros s caps sg s' H Hb; cbn [Vm.save_groups] in H; red0.
  - inversion H; subst; auto.
  - destruct (getcap caps (2 * sg)) as [a|]; [|eauto].
    destruct (getcap caps (2 * sg + 1)) as [b|]; [|eauto].
    destruct (st_save s (2 * sg) (V a)) as [s1|] eqn:E1; [|discriminate].
    destruct (st_save s1 (2 * sg + 1) (V b)) as [s2|] eqn:E2; [|discriminate].
    eapply IH; [exact H|]. eapply bounded_save; [exact E2|]. eapply bounded_save; eauto.
Qed.

Lemma bounded_exec mx i pc ix s :
  bounded mx s ->
  match exec_insn i pc ix s with
  | INext _ _ s' | IFailed s' => bounded mx s'
  | _ => True
  end.
Proof.
  intros Hb. destruct i; cbn [gexec_insn]; unfold push_or, save_or_panic; red0; auto.
  - destruct (st_get s 1) as [v|]; auto. destruct (st_get s 0) as [s0|]; auto.
    destruct (match s0 with V a => match v with V b => b <? a | MAXV => false end
              | MAXV => match v with V _ => true | MAXV => false end end); auto.
    destruct (st_save s 0 v); auto.
  - destruct (nth_error (c_text cx) ix); auto.
  - destruct (nth_error (c_text cx) ix) as [b|]; auto. destruct (b =? 10); auto.
  - destruct (assert_holds cx a ix); auto.
  - destruct (lit_at (c_text cx) ix v); auto.
  - destruct (st_push s y ix) eqn:E; auto. eapply bounded_push; eauto.
  - destruct (st_save s slot (V ix)) eqn:E; auto. eapply bounded_save; eauto.
  - destruct (st_save s slot (V 0)) eqn:E; auto. eapply bounded_save; eauto.
  - destruct (st_get s slot) as [[v|]|]; auto.
  - destruct (st_get s rep) as [[c|]|]; auto. destruct (N.eqb (N.of_nat c) hi); auto.
    destruct (st_save s rep (V (c + 1))) as [s1|] eqn:E; auto.
    pose proof (bounded_save _ _ _ _ _ E Hb). destruct (N.leb lo (N.of_nat c)); auto.
    destruct (st_push s1 next ix) eqn:E2; auto. eapply bounded_push; eauto.
  - destruct (st_get s rep) as [[c|]|]; auto. destruct (N.eqb (N.of_nat c) hi); auto.
    destruct (st_save s rep (V (c + 1))) as [s1|] eqn:E; auto.
    pose proof (bounded_save _ _ _ _ _ E Hb). destruct (N.leb lo (N.of_nat c)); auto.
    destruct (st_push s1 (S pc) ix) eqn:E2; auto. eapply bounded_push; eauto.
  - destruct (st_get s rep) as [[c|]|]; auto. destruct (st_get s chk) as [ck|]; auto.
    destruct (N.ltb lo (N.of_nat c) && val_eqb ck (V ix)); auto.
    destruct (st_save s rep (V (c + 1))) as [s1|] eqn:E; auto.
    pose proof (bounded_save _ _ _ _ _ E Hb). destruct (N.leb lo (N.of_nat c)); auto.
    destruct (st_save s1 chk (V ix)) as [s2|] eqn:E2; auto.
    pose proof (bounded_save _ _ _ _ _ E2 H).
    destruct (st_push s2 next ix) eqn:E3; auto. eapply bounded_push; eauto.
  - destruct (st_get s rep) as [[c|]|]; auto. destruct (st_get s chk) as [ck|]; auto.
    destruct (N.ltb lo (N.of_nat c) && val_eqb ck (V ix)); auto.
    destruct (st_save s rep (V (c + 1))) as [s1|] eqn:E; auto.
    pose proof (bounded_save _ _ _ _ _ E Hb). destruct (N.leb lo (N.of_nat c)); auto.
    destruct (st_save s1 chk (V ix)) as [s2|] eqn:E2; auto.
    pose proof (bounded_save _ _ _ _ _ E2 H).
    destruct (st_push s2 (S pc) ix) eqn:E3; auto. eapply bounded_push; eauto.
  - destruct (fnla _ s (S pc)) eqn:E; auto. eapply bounded_fnla; eauto.
  - destruct (goback cx ix count ix); auto.
  - destruct (st_get s slot) as [[lo|]|]; auto. destruct (st_get s (S slot)) as [[hi|]|]; auto.
    destruct (hi <? lo); auto.
    destruct ((hi <=? length (c_text cx)) && is_boundary (c_text cx) lo && is_boundary (c_text cx) hi); auto.
    destruct (lit_at _ _ _); auto.
  - destruct (st_stack_push s (V (st_count s))) eqn:E; auto. eapply bounded_stack_push; eauto.
  - destruct (st_stack_pop s) as [[s1 [c|]]|] eqn:E; auto.
    destruct (st_cut s1 c) eqn:E2; auto.
    eapply bounded_cut; eauto. eapply bounded_stack_pop; eauto.
  - destruct (oracle cx es start_group end_group ix) as [[ix' caps]|]; auto.
    destruct (start_group =? end_group); auto.
    destruct (save_groups s caps start_group (end_group - start_group)) eqn:E; auto.
    eapply bounded_save_groups; eauto.
  - destruct (negb (ix =? c_pos cx) || c_skipped cx); auto.
  - destruct (st_get s (2 * N.to_nat g)) as [[v|]|]; auto.
Qed.

Lemma peak_bound lim mx : forall fuel pc ix s bt st,
  bounded mx s -> peak st <= mx ->
  peak (snd (run_loop p lim fuel pc ix s bt st)) <= mx.
Proof.
  induction fuel as [|f IH]; intros pc ix s bt st Hb Hp; cbn [grun_loop]; [simpl; auto|].
  assert (Hp' : peak (bump st (i_count iface0 s)) <= mx).
  { simpl. destruct Hb as [Hb _]. apply Nat.max_lub; auto. }
  destruct (nth_error (p_body p) pc) as [i|]; [|simpl; auto].
  pose proof (bounded_exec mx i pc ix s Hb) as He.
  destruct (exec_insn i pc ix s) as [pc' ix' s'| s' | sv | | ];
    [ | |simpl; auto|simpl; auto|simpl; auto].
  - apply IH; auto.
  - destruct (i_count iface0 s' =? 0) eqn:Es; [simpl; auto|].
    destruct (match lim with Some l => N.ltb l (N.succ bt) | None => false end); [simpl; auto|].
    destruct (i_pop iface0 s') as [[[s'' pc'] ix']|] eqn:Ep; [|simpl; auto].
    apply IH; [eapply bounded_pop; eauto|simpl; auto].
Qed.

End Bounded.
