(* EscapeParse.v — C17 on the parser model: for every string s that is valid UTF-8,
   parse (escape s) is the chain of the one-character literals of s.  (What the literal chain
   matches is then the reference semantics of a concatenation of literals.) *)
From FR Require Import Base Utf8 Utf8Facts Ast Analyze Parse Escape.
From Coq Require Import Lia NArith.

Definition lit (c : list nat) : expr := Literal c false.
Definition finish (ch : list expr) : expr := match ch with [] => Empty | [c] => c | _ => Concat ch end.

(* the escaped form of one character *)
Definition tok (c : list nat) : list nat :=
  match c with [b] => if is_special b then [92; b] else [b] | _ => c end.

Lemma special_lt b : is_special b = true -> b < 128.
Proof.
  unfold is_special. intros H. apply existsb_exists in H as (x & Hx & E). apply Nat.eqb_eq in E. subst x.
  cbn in Hx. repeat (destruct Hx as [<-|Hx]; [lia|]). destruct Hx.
Qed.

Lemma cp_len_1 b : cp_len b = 1 <-> b < 128.
Proof.
  unfold cp_len. change Consts.CP_LEN_T1 with 128. change Consts.CP_LEN_T2 with 224. change Consts.CP_LEN_T3 with 240.
  destruct (Nat.ltb_spec b 128); [split; auto|]. destruct (Nat.ltb_spec b 224); [split; lia|]. destruct (Nat.ltb_spec b 240); split; lia.
Qed.

Lemma pq_nonspecial : forall c r, Forall (fun b => is_special b = false) c -> push_quoted (c ++ r) = c ++ push_quoted r.
Proof. induction 1 as [|b c Hb Hc IH]; cbn [app push_quoted]; [reflexivity|]. now rewrite Hb, IH. Qed.

Lemma wf_multi_nonspecial c : wf_char c -> 2 <= length c -> Forall (fun b => is_special b = false) c.
Proof.
  destruct c as [|b r]; [intros []|]. intros (Hb & Hr & Hl) H2.
  assert (128 <= b). { destruct (Nat.lt_ge_cases b 128) as [Hlt|]; auto. apply cp_len_1 in Hlt. cbn [length] in *. lia. }
  constructor.
  - destruct (is_special b) eqn:E; auto. apply special_lt in E. lia.
  - eapply Forall_impl; [|exact Hr]. intros x Hx. destruct (is_special x) eqn:E; auto. apply special_lt in E.
    unfold is_cont in Hx. apply andb_true_iff in Hx as [Hx _]. apply Nat.leb_le in Hx. lia.
Qed.

Lemma pq_chars : forall cs, valid_chars cs -> push_quoted (concat cs) = concat (map tok cs).
Proof.
  induction 1 as [|c cs Hc Hcs IH]; [reflexivity|]. cbn [concat map].
  destruct c as [|b [|b2 r]]; [destruct Hc| |].
  - cbn [app push_quoted tok]. destruct (is_special b); cbn [app]; now rewrite IH.
  - rewrite pq_nonspecial by (apply wf_multi_nonspecial; [exact Hc|cbn; lia]). cbn [tok]. now rewrite IH.
Qed.

(* the head of what follows a token: a backslash, or a byte that is not special *)
Definition okhead (R : list nat) : Prop := match R with [] => True | b :: _ => b = 92 \/ is_special b = false end.
Lemma okhead_toks cs : valid_chars cs -> okhead (concat (map tok cs)).
Proof.
  intros H. destruct H as [|c cs Hc Hcs]; [exact I|]. cbn [map concat].
  destruct c as [|b [|b2 r]]; [destruct Hc| |].
  - cbn [tok]. destruct (is_special b) eqn:E; cbn; auto.
  - cbn [tok app okhead]. right. pose proof (wf_multi_nonspecial _ Hc ltac:(cbn; lia)) as Hn. now inversion Hn.
Qed.

(* ---------- running the parser over one token ---------- *)
Lemma nonspecial_neq b k : is_special b = false -> is_special k = true -> (b =? k) = false.
Proof. intros H1 H2. apply Nat.eqb_neq. intros ->. congruence. Qed.

Lemma byte_app P X k : byte (P ++ X) (length P + k) = nth_error X k.
Proof. unfold byte. rewrite nth_error_app2 by lia. f_equal. lia. Qed.

Lemma sub_app P X R : sub (P ++ X ++ R) (length P) (length P + length X) = X.
Proof.
  unfold sub. replace (length P + length X - length P) with (length X) by lia.
  rewrite skipn_app, skipn_all, Nat.sub_diag. cbn [skipn app]. rewrite firstn_app, Nat.sub_diag, firstn_all. cbn. apply app_nil_r.
Qed.


Lemma nth_skipn_z {A} : forall (l : list A) k j, nth_error (skipn k l) j = nth_error l (k + j).
Proof. induction l as [|x l IH]; intros [|k] j; cbn; auto. destruct j; reflexivity. Qed.

Section Run.
Variable re : list nat.
Let len := length re.

(* optional_whitespace does nothing in front of a token (default flags) *)
Lemma ows_stay f ix : (ix = len \/ exists b, byte re ix = Some b /\ b <> 40) ->
  optional_whitespace re (S f) flags0 ix = POk ix.
Proof.
  intros H. cbn [optional_whitespace]. fold len. destruct (Nat.eqb_spec ix len); [reflexivity|].
  destruct H as [H|(b & Eb & Hb)]; [contradiction|]. rewrite Eb. cbn [flags0 f_space]. rewrite !andb_false_r.
  apply Nat.eqb_neq in Hb. rewrite Hb. reflexivity.
Qed.

Lemma sub_one k b : byte re k = Some b -> sub re k (k + 1) = [b].
Proof.
  unfold byte, sub. replace (k + 1 - k) with 1 by lia. revert k. induction re as [|x r IH]; intros [|k] H; cbn in *; try discriminate.
  - inversion H; subst. destruct r; reflexivity.
  - now apply IH.
Qed.

Lemma escape_special st ix b : byte re ix = Some 92 -> byte re (ix + 1) = Some b -> is_special b = true ->
  parse_escape re st ix false = POk (ix + 2, Literal [b] false, st).
Proof.
  intros H92 Hb Hs. assert (Hlen : ix + 2 <= len) by (unfold byte in Hb; apply nth_error_Some_lt in Hb || (assert (ix + 1 < length re) by (apply nth_error_Some; congruence); unfold len; lia)).
  pose proof (sub_one _ _ Hb) as Hsub.
  unfold is_special in Hs. apply existsb_exists in Hs as (x & Hx & E). apply Nat.eqb_eq in E. subst x.
  unfold parse_escape. rewrite Hb. cbn in Hx.
  repeat (destruct Hx as [<-|Hx];
    [cbn; destruct (ix + 1 + 1) as [|m] eqn:Em; [lia|]; destruct (Nat.leb_spec (length re) m); [unfold len in *; lia|];
     rewrite <- Em in Hsub |- *; unfold make_literal; rewrite Hsub; replace (ix + 1 + 1) with (ix + 2) by lia; reflexivity|]).
  destruct Hx.
Qed.

Lemma nsp b k : is_special b = false -> is_special k = true -> (b =? k) = false.
Proof. apply nonspecial_neq. Qed.

(* parse_atom on a token: the literal of the character *)
Lemma atom_tok f ix d c b0 : byte re ix = Some b0 ->
  (b0 = 92 /\ exists b, c = [b] /\ byte re (ix + 1) = Some b /\ is_special b = true) \/
  (is_special b0 = false /\ sub re ix (ix + cp_len b0) = c /\ ix + cp_len b0 <= len /\ length c = cp_len b0) ->
  parse_atom re (S f) pst0 ix d = POk (ix + length (tok c), lit c, pst0).
Proof.
  intros Hb0 Hc. simpl parse_atom. cbn [pst0 p_flags].
  assert (Hne40 : b0 <> 40).
  { destruct Hc as [[-> _]|[Hns _]]; [lia|]. intros ->. discriminate. }
  replace (length re + 2) with (S (length re + 1)) by lia. rewrite ows_stay by (right; eauto). cbn [pbind].
  assert (Hlt : ix < len) by (unfold byte in Hb0; apply nth_error_Some; congruence).
  destruct (Nat.eqb_spec ix (length re)); [unfold len in *; lia|]. rewrite Hb0.
  destruct Hc as [(-> & b & -> & Hb & Hs)|(Hns & Hsub & Hle & Hl)].
  - cbn [Nat.eqb]. change (92 =? 46) with false. change (92 =? 94) with false. change (92 =? 36) with false.
    change (92 =? 40) with false. change (92 =? 92) with true. cbv iota.
    rewrite (escape_special pst0 ix b Hb0 Hb Hs). unfold tok, lit. rewrite Hs. reflexivity.
  - rewrite !(nsp b0) by (auto; reflexivity). cbn [orb]. fold len.
    destruct (Nat.ltb_spec len (ix + cp_len b0)); [lia|]. rewrite Hsub. cbn [flags0 f_casei].
    unfold lit. f_equal. f_equal. f_equal. destruct c as [|x [|y r]]; cbn [tok]; try lia.
    assert (x = b0).
    { unfold sub in Hsub. destruct (skipn ix re) as [|z l] eqn:Es; [destruct (cp_len b0 - 0); cbn in Hsub; try discriminate; rewrite Nat.add_comm, Nat.add_sub in Hsub; destruct (cp_len b0); discriminate|].
      assert (byte re ix = Some z) by (unfold byte; rewrite <- (Nat.add_0_r ix), <- nth_skipn_z; rewrite Es; reflexivity).
      rewrite Nat.add_comm, Nat.add_sub in Hsub. destruct (cp_len b0); [discriminate|]. cbn in Hsub. inversion Hsub. congruence. }
    subst x. rewrite Hns. cbn [length] in *. lia.
Qed.

Definition headok (ix : nat) : Prop := ix = len \/ exists b, byte re ix = Some b /\ (b = 92 \/ is_special b = false).

Lemma piece_tok f ix d c b0 : byte re ix = Some b0 ->
  (b0 = 92 /\ exists b, c = [b] /\ byte re (ix + 1) = Some b /\ is_special b = true) \/
  (is_special b0 = false /\ sub re ix (ix + cp_len b0) = c /\ ix + cp_len b0 <= len /\ length c = cp_len b0) ->
  headok (ix + length (tok c)) ->
  parse_piece re (S (S f)) pst0 ix d = POk (ix + length (tok c), lit c, pst0).
Proof.
  intros Hb0 Hc Hh. remember (S f) as n eqn:En. simpl parse_piece. subst n. rewrite (atom_tok f ix d c b0 Hb0 Hc). cbn [pbind pst0 p_flags].
  set (ix' := ix + length (tok c)) in *.
  assert (Hne : ix' = len \/ exists b, byte re ix' = Some b /\ b <> 40).
  { destruct Hh as [H|(b & Eb & Hb)]; [left; exact H|right; exists b; split; auto].
    destruct Hb as [->|Hb]; [lia|]. intros ->. discriminate. }
  replace (length re + 2) with (S (length re + 1)) by lia. rewrite (ows_stay _ _ Hne). cbn [pbind]. fold len.
  destruct Hh as [->|(b & Eb & Hb)]; [rewrite Nat.ltb_irrefl; reflexivity|].
  assert (Hlt : ix' < len) by (unfold byte in Eb; apply nth_error_Some; congruence).
  destruct (Nat.ltb_spec ix' len); [|lia]. rewrite Eb.
  assert (E63 : (b =? 63) = false) by (destruct Hb as [->|Hb]; [reflexivity|now apply nsp]).
  assert (E42 : (b =? 42) = false) by (destruct Hb as [->|Hb]; [reflexivity|now apply nsp]).
  assert (E43 : (b =? 43) = false) by (destruct Hb as [->|Hb]; [reflexivity|now apply nsp]).
  assert (E123 : (b =? 123) = false) by (destruct Hb as [->|Hb]; [reflexivity|now apply nsp]).
  rewrite E63, E42, E43, E123. reflexivity.
Qed.
End Run.

(* ---------- the whole escaped string ---------- *)
Lemma tok_nonempty c : wf_char c -> 1 <= length (tok c).
Proof. destruct c as [|b [|b2 r]]; [intros []| |]; intros _; cbn [tok]; [destruct (is_special b)|]; cbn; lia. Qed.

Lemma toks_length cs : valid_chars cs -> length cs <= length (concat (map tok cs)).
Proof.
  induction 1 as [|c cs Hc Hcs IH]; [cbn; lia|]. cbn [map concat length]. rewrite app_length.
  pose proof (tok_nonempty c Hc). lia.
Qed.

Lemma branch_toks : forall cs2 cs1 f d, valid_chars cs2 -> length cs2 + 2 <= f ->
  parse_branch (concat (map tok (cs1 ++ cs2))) f pst0 (length (concat (map tok cs1))) d (map lit cs1) =
  POk (length (concat (map tok (cs1 ++ cs2))), finish (map lit (cs1 ++ cs2)), pst0).
Proof.
  induction cs2 as [|c cs2 IH]; intros cs1 f d Hv Hf.
  - rewrite app_nil_r. destruct f as [|f]; [cbn in Hf; lia|]. simpl parse_branch. rewrite Nat.ltb_irrefl.
    unfold finish. destruct (map lit cs1) as [|x [|y r]]; reflexivity.
  - inversion Hv as [|? ? Hc Hcs]; subst. cbn [length] in Hf.
    destruct f as [|[|[|f]]]; try lia.
    set (re := concat (map tok (cs1 ++ c :: cs2))). set (P := concat (map tok cs1)). set (R := concat (map tok cs2)).
    assert (Hre : re = P ++ tok c ++ R) by (unfold re, P, R; rewrite map_app, concat_app; reflexivity).
    pose proof (tok_nonempty c Hc) as Hn.
    assert (Hix : length P < length re) by (rewrite Hre, !app_length; lia).
    remember (S (S f)) as n eqn:En. simpl parse_branch. subst n.
    destruct (Nat.ltb_spec (length P) (length re)); [|lia].
    assert (Hhead : headok re (length P + length (tok c))).
    { unfold headok. pose proof (okhead_toks cs2 Hcs) as Ho. fold R in Ho. destruct R as [|b1 R'] eqn:ER.
      - left. rewrite Hre, !app_length. cbn. lia.
      - right. exists b1. split; [|exact Ho]. rewrite Hre, app_assoc.
        replace (length P + length (tok c)) with (length (P ++ tok c) + 0) by (rewrite app_length; lia).
        rewrite byte_app. reflexivity. }
    assert (Hpiece : parse_piece re (S (S f)) pst0 (length P) d = POk (length P + length (tok c), lit c, pst0)).
    { destruct c as [|b [|b2 r]]; [destruct Hc| |].
      - destruct (is_special b) eqn:Es.
        + apply (piece_tok re f (length P) d [b] 92); [| |exact Hhead].
          * rewrite Hre. replace (length P) with (length P + 0) by lia. rewrite byte_app. cbn [tok]. rewrite Es. reflexivity.
          * left. split; [reflexivity|]. exists b. split; [reflexivity|]. split; [|exact Es].
            rewrite Hre. rewrite byte_app. cbn [tok]. rewrite Es. reflexivity.
        + assert (Hcp : cp_len b = 1) by (destruct Hc as (_ & _ & Hl); cbn in Hl; lia).
          apply (piece_tok re f (length P) d [b] b); [| |exact Hhead].
          * rewrite Hre. replace (length P) with (length P + 0) by lia. rewrite byte_app. cbn [tok]. rewrite Es. reflexivity.
          * right. split; [exact Es|]. rewrite Hcp. split; [|split; [lia|reflexivity]].
            rewrite Hre. cbn [tok]. rewrite Es. apply (sub_app P [b] R).
      - pose proof (wf_multi_nonspecial _ Hc ltac:(cbn; lia)) as Hns. destruct Hc as (Hb & Hr & Hl).
        apply (piece_tok re f (length P) d (b :: b2 :: r) b); [| |exact Hhead].
        * rewrite Hre. replace (length P) with (length P + 0) by lia. rewrite byte_app. reflexivity.
        * right. split; [now inversion Hns|]. rewrite <- Hl. split; [|split; [|reflexivity]].
          -- rewrite Hre. cbn [tok]. apply (sub_app P (b :: b2 :: r) R).
          -- rewrite Hre, !app_length. cbn [tok]. lia. }
    rewrite Hpiece. cbn [pbind].
    destruct (Nat.eqb_spec (length P + length (tok c)) (length P)); [lia|].
    change (match lit c with Empty => map lit cs1 | _ => map lit cs1 ++ [lit c] end) with (map lit cs1 ++ [lit c]).
    specialize (IH (cs1 ++ [c]) (S (S f)) d Hcs ltac:(lia)).
    rewrite <- app_assoc in IH. cbn [app] in IH. fold re in IH.
    rewrite map_app, concat_app, app_length in IH. cbn [map concat] in IH. rewrite app_nil_r in IH. fold P in IH.
    rewrite map_app in IH. cbn [map] in IH. exact IH.
Qed.

Theorem parse_escaped cs : valid_chars cs ->
  parse (push_quoted (concat cs)) = POk (finish (map lit cs), pst0).
Proof.
  intros Hv. rewrite (pq_chars cs Hv). set (re := concat (map tok cs)).
  unfold parse. unfold parse_fuel. fold re.
  pose proof (toks_length cs Hv) as Hl. fold re in Hl.
  replace (12 * (length re + 80)) with (S (12 * (length re + 80) - 1)) by lia.
  remember (12 * (length re + 80) - 1) as n eqn:En. simpl parse_re.
  pose proof (branch_toks cs [] n 0 Hv ltac:(lia)) as Hb. cbn [app map concat length] in Hb. fold re in Hb.
  rewrite Hb. cbn [pbind pst0 p_flags].
  replace (length re + 2) with (S (length re + 1)) by lia. rewrite ows_stay by (left; reflexivity). cbn [pbind].
  assert (Hby : byte_is re (length re) 124 = false).
  { unfold byte_is, byte. now rewrite (proj2 (nth_error_None re (length re)) (le_n _)). }
  rewrite Hby. cbn [pst0 p_numeric p_named andb negb pbind]. rewrite Nat.ltb_irrefl. reflexivity.
Qed.

(* with fancy_regex::escape (which borrows when nothing needs escaping) *)
Lemma pq_id s : existsb is_special s = false -> push_quoted s = s.
Proof. induction s as [|b r IH]; cbn; [reflexivity|]. intros H. apply orb_false_iff in H as [H1 H2]. rewrite H1. f_equal. auto. Qed.

Theorem parse_escape_is_literals s : valid_text s ->
  exists cs, s = concat cs /\ valid_chars cs /\ parse (fst (escape s)) = POk (finish (map lit cs), pst0).
Proof.
  intros (cs & Hv & ->). exists cs. split; [reflexivity|]. split; [exact Hv|].
  unfold escape. destruct (existsb is_special (concat cs)) eqn:E; cbn [fst]; [now apply parse_escaped|].
  rewrite <- (pq_id _ E). now apply parse_escaped.
Qed.
