(* ExpandProofs.v — C12: Expander::escape round-trips through expansion for every valid
   UTF-8 string, for any expander whose substitution character is ASCII; check is sound. *)
From FR Require Import Base Utf8 Utf8Facts Sem Api ApiProofs Expand.
From Coq Require Import Lia.

Lemma is_cont_ascii b : b < 128 -> is_cont b = false.
Proof. intros H. unfold is_cont. destruct (Nat.leb_spec 128 b); [lia|reflexivity]. Qed.

Lemma cp_len_ascii b : b < 128 -> cp_len b = 1.
Proof. intros H. unfold cp_len. destruct (Nat.ltb_spec b Consts.CP_LEN_T1); [reflexivity|]. unfold Consts.CP_LEN_T1 in *. lia. Qed.

Lemma double_sub_app sc a b : double_sub sc (a ++ b) = double_sub sc a ++ double_sub sc b.
Proof. induction a as [|x a IH]; simpl; auto. destruct (x =? sc); simpl; now rewrite IH. Qed.

(* a multi-byte character (lead byte >= 128) contains no ASCII byte, so doubling leaves it alone *)
Lemma double_sub_char sc c : sc < 128 -> wf_char c ->
  double_sub sc c = match c with [b] => if b =? sc then [sc; sc] else [b] | _ => c end.
Proof.
  intros Hsc W. destruct c as [|b r]; [destruct W|]. destruct W as (Hb & Hr & Hl).
  destruct r as [|r0 r].
  - simpl. destruct (b =? sc); reflexivity.
  - assert (Hnb : (b =? sc) = false).
    { apply Nat.eqb_neq. intros ->. rewrite (cp_len_ascii sc Hsc) in Hl. simpl in Hl. lia. }
    change (double_sub sc (b :: r0 :: r)) with
      (if b =? sc then sc :: sc :: double_sub sc (r0 :: r) else b :: double_sub sc (r0 :: r)).
    rewrite Hnb. f_equal.
    assert (Hall : forall l, Forall (fun x => is_cont x = true) l -> double_sub sc l = l).
    { induction l as [|x l IH]; intros H; simpl; auto. inversion H as [|? ? Hx Hl']; subst.
      destruct (Nat.eqb_spec x sc) as [->|_]; [rewrite is_cont_ascii in Hx by lia; discriminate|].
      now rewrite IH. }
    apply Hall. exact Hr.
Qed.

Section Roundtrip.
Variable x : expander.
Hypothesis Hsc : sub_char x < 128.
Variable c : caps.

Lemma firstn_len_app {A} (a b : list A) : firstn (length a) (a ++ b) = a.
Proof. rewrite firstn_app, Nat.sub_diag, firstn_all. simpl. now rewrite app_nil_r. Qed.
Lemma skipn_len_app {A} (a b : list A) : skipn (length a) (a ++ b) = b.
Proof. rewrite skipn_app, Nat.sub_diag, skipn_all. reflexivity. Qed.

Lemma starts_with_nil s : starts_with s [] = true.
Proof. destruct s; reflexivity. Qed.

Lemma exec_dollar2 f rest :
  exec_steps x (S f) (sub_char x :: sub_char x :: rest) = StChar [sub_char x] :: exec_steps x f rest.
Proof.
  cbn [exec_steps]. rewrite Nat.eqb_refl, (cp_len_ascii _ Hsc).
  cbn [skipn starts_with]. rewrite Nat.eqb_refl, starts_with_nil. reflexivity.
Qed.

Lemma exec_char f b r rest : (b =? sub_char x) = false -> length (b :: r) = cp_len b ->
  exec_steps x (S f) ((b :: r) ++ rest) = StChar (b :: r) :: exec_steps x f rest.
Proof.
  intros Hnb Hl. change ((b :: r) ++ rest) with (b :: r ++ rest). cbn [exec_steps].
  rewrite Hnb, <- Hl. change (b :: r ++ rest) with ((b :: r) ++ rest).
  now rewrite firstn_len_app, skipn_len_app.
Qed.

(* the steps of an escaped string are exactly its characters *)
Lemma steps_escaped : forall cs fuel, valid_chars cs ->
  2 * length (concat cs) <= fuel ->
  flat_map (expand_step c) (exec_steps x fuel (double_sub (sub_char x) (concat cs))) = concat cs.
Proof.
  induction cs as [|ch cs IH]; intros fuel W Hf.
  - destruct fuel; reflexivity.
  - inversion W as [|? ? Wc Wcs]; subst. cbn [concat] in *. rewrite app_length in Hf.
    rewrite double_sub_app, (double_sub_char _ _ Hsc Wc).
    destruct ch as [|b r]; [destruct Wc|]. destruct Wc as (Hb & Hr & Hl).
    destruct fuel as [|fuel]; [simpl in Hf; lia|].
    assert (Hrest : 2 * length (concat cs) <= fuel) by (simpl in Hf; lia).
    destruct r as [|r0 r].
    + destruct (Nat.eqb_spec b (sub_char x)) as [->|Hne].
      * change ([sub_char x; sub_char x] ++ ?l) with (sub_char x :: sub_char x :: l).
        rewrite exec_dollar2. cbn [flat_map expand_step app]. f_equal. apply IH; auto.
      * rewrite exec_char; auto; [|now apply Nat.eqb_neq].
        cbn [flat_map expand_step app]. f_equal. apply IH; auto.
    + assert (Hnb : (b =? sub_char x) = false).
      { apply Nat.eqb_neq. intros E. rewrite E, (cp_len_ascii _ Hsc) in Hl. simpl in Hl. lia. }
      rewrite exec_char; auto. cbn [flat_map expand_step]. rewrite IH; auto.
Qed.

Lemma double_sub_length sc s : length (double_sub sc s) <= 2 * length s.
Proof. induction s as [|b s IH]; simpl; auto. destruct (b =? sc); simpl; lia. Qed.

Lemma exec_steps_fuel : forall s f g, length s <= f -> length s <= g -> exec_steps x f s = exec_steps x g s.
Proof.
  intros s. remember (length s) as n eqn:En. revert s En.
  induction n as [n IHn] using lt_wf_ind. intros s En f g Hf Hg.
  destruct s as [|b s']; [destruct f, g; reflexivity|].
  destruct f as [|f]; [simpl in *; lia|]. destruct g as [|g]; [simpl in *; lia|].
  cbn [exec_steps].
  pose proof (cp_len_pos b) as Hp.
  assert (Hsk : forall k, 1 <= k -> length (skipn k (b :: s')) < n).
  { intros k Hk. rewrite skipn_length. subst n. cbn [length]. lia. }
  assert (Hrec : forall t, length t < n -> exec_steps x f t = exec_steps x g t).
  { intros t Ht. apply (IHn (length t)); auto; subst n; cbn [length] in *; lia. }
  destruct (b =? sub_char x).
  - destruct (starts_with _ _).
    + f_equal. apply Hrec. rewrite skipn_length. specialize (Hsk _ Hp). lia.
    + destruct (match parse_id _ _ _ with Some r => Some r | None => _ end) as [[id skip]|].
      * f_equal. apply Hrec. rewrite skipn_length. specialize (Hsk _ Hp). lia.
      * destruct (parse_decimal0 _) as [[skip num]|].
        -- f_equal. apply Hrec. rewrite skipn_length. specialize (Hsk _ Hp). lia.
        -- do 2 f_equal. apply Hrec. apply Hsk; auto.
  - f_equal. apply Hrec. apply Hsk; auto.
Qed.

(* C12: expanding Expander::escape(s) yields s, for every valid UTF-8 string *)
Theorem escape_roundtrip s : valid_text s -> expansion x (fst (x_escape x s)) c = s.
Proof.
  intros (cs & W & ->). unfold x_escape, expansion, steps.
  destruct (existsb (Nat.eqb (sub_char x)) (concat cs)) eqn:E; cbn [fst].
  - rewrite (exec_steps_fuel _ _ (2 * length (concat cs))); auto.
    + apply steps_escaped; auto.
    + apply double_sub_length.
  - (* nothing to escape: the string is its own escape *)
    assert (Hid : double_sub (sub_char x) (concat cs) = concat cs).
    { clear W. induction (concat cs) as [|b l IH]; simpl in *; auto.
      rewrite Nat.eqb_sym in E. destruct (b =? sub_char x); simpl in E; [discriminate|]. now rewrite IH. }
    pose proof (steps_escaped cs (2 * length (concat cs)) W (le_n _)) as Hs.
    rewrite Hid in Hs. rewrite (exec_steps_fuel _ _ (2 * length (concat cs))); auto. lia.
Qed.

End Roundtrip.

(* escape borrows its input iff nothing needed escaping *)
Theorem escape_borrow x s : snd (x_escape x s) = negb (existsb (Nat.eqb (sub_char x)) s).
Proof. unfold x_escape. destruct (existsb _ s); reflexivity. Qed.

(* check accepts a template only if every reference in it names an existing group *)
Definition step_ok (names : list (list nat * nat)) (n : nat) (st : step) : Prop :=
  match st with
  | StChar _ => True
  | StName id =>
      (exists i, lookup_name names id = Some i) \/
      (exists k, parse_usize id = Some k /\ (k = 0%N \/ (names = [] /\ (k < N.of_nat n)%N)))
  | StNum k => k = 0%N \/ (names = [] /\ (k < N.of_nat n)%N)
  | StError => False
  end.

Lemma check_num_ok names n k : check_num names n k = None -> k = 0%N \/ (names = [] /\ (k < N.of_nat n)%N).
Proof.
  unfold check_num. destruct (N.eqb_spec k 0); auto. destruct names; [|discriminate].
  destruct (N.ltb_spec k (N.of_nat n)); [auto|discriminate].
Qed.

Theorem check_sound x template names n :
  check x template names n = None -> Forall (step_ok names n) (steps x template).
Proof.
  unfold check. induction (steps x template) as [|st l IH]; intros H; constructor; cbn [check_steps] in H.
  - destruct st as [b|id|k|]; cbn [step_ok]; auto.
    + destruct (lookup_name names id) as [i|] eqn:E; [left; eauto|].
      destruct (parse_usize id) as [k|] eqn:E2; [|discriminate].
      destruct (check_num names n k) eqn:E3; [discriminate|]. right. exists k. split; auto.
      apply check_num_ok; auto.
    + destruct (check_num names n k) eqn:E3; [discriminate|]. apply check_num_ok; auto.
    + discriminate.
  - apply IH. destruct st as [b|id|k|]; auto.
    + destruct (lookup_name names id); auto. destruct (parse_usize id); [|discriminate].
      destruct (check_num names n n0); [discriminate|auto].
    + destruct (check_num names n k); [discriminate|auto].
    + discriminate.
Qed.
