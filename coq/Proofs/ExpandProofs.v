(* ExpandProofs.v — C12: Expander::escape round-trips through expansion for every valid
   UTF-8 string, for any expander whose substitution character is ASCII; check is sound. *)
From FR Require Import Base Utf8 Utf8Facts Sem Api ApiProofs Expand.
From Coq Require Import Lia.

Lemma is_cont_ascii b : b < 128 -> is_cont b = false.
Proof. intros H. unfold is_cont. destruct (Nat.leb_spec 128 b); [lia|reflexivity]. Qed.

Lemma cp_len_ascii b : b < 128 -> cp_len b = 1.
Proof. intros H. unfold cp_len. destruct (Nat.ltb_spec b Consts.CP_LEN_T1); [reflexivity|]. unfold Consts.CP_LEN_T1 in *. lia. Qed.

Lemma double_sub_app sc a b : double_sub sc (a ++ b) = double_sub sc a ++ double_sub sc b.
Proof. induction a as [|x a IH]; simpl; auto. destruct (x =? sc); simpl; now rewrite IH. Qed.

(* a multi-byte character (lead byte >= 128) contains no ASCII byte, so doubling leaves it alone *)
Lemma double_sub_char sc c : sc < 128 -> wf_char c ->
  double_sub sc c = match c with [b] => if b =? sc then [sc; sc] else [b] | _ => c end.
Proof.
  intros Hsc W. destruct c as [|b r]; [destruct W|]. destruct W as (Hb & Hr & Hl).
  destruct r as [|r0 r].
  - simpl. destruct (b =? sc); reflexivity.
  - assert (Hnb : (b =? sc) = false).
    { apply Nat.eqb_neq. intros ->. rewrite (cp_len_ascii sc Hsc) in Hl. simpl in Hl. lia. }
    change (double_sub sc (b :: r0 :: r)) with
      (if b =? sc then sc :: sc :: double_sub sc (r0 :: r) else b :: double_sub sc (r0 :: r)).
    rewrite Hnb. f_equal.
    assert (Hall : forall l, Forall (fun x => is_cont x = true) l -> double_sub sc l = l).
    { induction l as [|x l IH]; intros H; simpl; auto. inversion H as [|? ? Hx Hl']; subst.
      destruct (Nat.eqb_spec x sc) as [->|_]; [rewrite is_cont_ascii in Hx by lia; discriminate|].
      now rewrite IH. }
    apply Hall. exact Hr.
Qed.

Section Roundtrip.
Variable x : expander.
Hypothesis Hsc : sub_char x < 128.
Variable c : caps.

Lemma firstn_len_app {A} (a b : list A) : firstn (length a) (a ++ b) = a.
Proof. rewrite firstn_app, Nat.sub_diag, firstn_all. simpl. now rewrite app_nil_r. Qed.
Lemma skipn_len_app {A} (a b : list A) : skipn (length a) (a ++ b) = b.
Proof. rewrite skipn_app, Nat.sub_diag, skipn_all. reflexivity. Qed.

Lemma starts_with_nil s : starts_with s [] = true.
Proof. destruct s; reflexivity. Qed.

Lemma exec_dollar2 f rest :
  exec_steps x (S f) (sub_char x :: sub_char x :: rest) = StChar [sub_char x] :: exec_steps x f rest.
Proof.
  cbn [exec_steps]. rewrite Nat.eqb_refl, (cp_len_ascii _ Hsc).
  cbn [skipn starts_with]. rewrite Nat.eqb_refl, starts_with_nil. reflexivity.
Qed.

Lemma exec_char f b r rest : (b =? sub_char x) = false -> length (b :: r) = cp_len b ->
  exec_steps x (S f) ((b :: r) ++ rest) = StChar (b :: r) :: exec_steps x f rest.
Proof.
  intros Hnb Hl. change ((b :: r) ++ rest) with (b :: r ++ rest). cbn [exec_steps].
  rewrite Hnb, <- Hl. change (b :: r ++ rest) with ((b :: r) ++ rest).
  now rewrite firstn_len_app, skipn_len_app.
Qed.

(* the steps of an escaped string are exactly its characters *)
Lemma steps_escaped : forall cs fuel, valid_chars cs ->
  2 * length (concat cs) <= fuel ->
  flat_map (expand_step c) (exec_steps x fuel (double_sub (sub_char x) (concat cs))) = concat cs.
Proof.
  induction cs as [|ch cs IH]; intros fuel W Hf.
  - destruct fuel; reflexivity.
  - inversion W as [|? ? Wc Wcs]; subst. cbn [concat] in *. rewrite app_length in Hf.
    rewrite double_sub_app, (double_sub_char _ _ Hsc Wc).
    destruct ch as [|b r]; [destruct Wc|]. destruct Wc as (Hb & Hr & Hl).
    destruct fuel as [|fuel]; [simpl in Hf; lia|].
    assert (Hrest : 2 * length (concat cs) <= fuel) by (simpl in Hf; lia).
    destruct r as [|r0 r].
    + destruct (Nat.eqb_spec b (sub_char x)) as [->|Hne].
      * change ([sub_char x; sub_char x] ++ ?l) with (sub_char x :: sub_char x :: l).
        rewrite exec_dollar2. cbn [flat_map expand_step app]. f_equal. apply IH; auto.
      * rewrite exec_char; auto; [|now apply Nat.eqb_neq].
        cbn [flat_map expand_step app]. f_equal. apply IH; auto.
    + assert (Hnb : (b =? sub_char x) = false).
      { apply Nat.eqb_neq. intros E. rewrite E, (cp_len_ascii _ Hsc) in Hl. simpl in Hl. lia. }
      rewrite exec_char; auto. cbn [flat_map expand_step]. rewrite IH; auto.
Qed.

Lemma double_sub_length sc s : length (double_sub sc s) <= 2 * length s.
Proof. induction s as [|b s IH]; simpl; auto. destruct (b =? sc); simpl; lia. Qed.

Lemma exec_steps_fuel : forall s f g, length s <= f -> length s <= g -> exec_steps x f s = exec_steps x g s.
Proof.
  intros s. remember (length s) as n eqn:En. revert s En.
  induction n as [n IHn] using lt_wf_ind. intros s En f g Hf Hg.
  destruct s as [|b s']; [destruct f, g; reflexivity|].
  destruct f as [|f]; [simpl in *; lia|]. destruct g as [|g]; [simpl in *; lia|].
  cbn [exec_steps].
  pose proof (cp_len_pos b) as Hp.
  assert (Hsk : forall k, 1 <= k -> length (skipn k (b :: s')) < n).
  { intros k Hk. rewrite skipn_length. subst n. cbn [length]. lia. }
  assert (Hrec : forall t, length t < n -> exec_steps x f t = exec_steps x g t).
  { intros t Ht. apply (IHn (length t)); auto; subst n; cbn [length] in *; lia. }
  destruct (b =? sub_char x).
  - destruct (starts_with _ _).
    + f_equal. apply Hrec. rewrite skipn_length. specialize (Hsk _ Hp). lia.
    + destruct (match parse_id _ _ _ with Some r => Some r | None => _ end) as [[id skip]|].
      * f_equal. apply Hrec. rewrite skipn_length. specialize (Hsk _ Hp). lia.
      * destruct (parse_decimal0 _) as [[skip num]|].
        -- f_equal. apply Hrec. rewrite skipn_length. specialize (Hsk _ Hp). lia.
        -- do 2 f_equal. apply Hrec. apply Hsk; auto.
  - f_equal. apply Hrec. apply Hsk; auto.
Qed.

(* C12: expanding Expander::escape(s) yields s, for every valid UTF-8 string *)
Theorem escape_roundtrip s : valid_text s -> expansion x (fst (x_escape x s)) c = s.
Proof.
  intros (cs & W & ->). unfold x_escape, expansion, steps.
  destruct (existsb (Nat.eqb (sub_char x)) (concat cs)) eqn:E; cbn [fst].
  - rewrite (exec_steps_fuel _ _ (2 * length (concat cs))); auto.
    + apply steps_escaped; auto.
    + apply double_sub_length.
  - (* nothing to escape: the string is its own escape *)
    assert (Hid : double_sub (sub_char x) (concat cs) = concat cs).
    { clear W. induction (concat cs) as [|b l IH]; simpl in *; auto.
      rewrite Nat.eqb_sym in E. destruct (b =? sub_char x); simpl in E; [discriminate|]. now rewrite IH. }
    pose proof (steps_escaped cs (2 * length (concat cs)) W (le_n _)) as Hs.
    rewrite Hid in Hs. rewrite (exec_steps_fuel _ _ (2 * length (concat cs))); auto. lia.
Qed.

End Roundtrip.

(* escape borrows its input iff nothing needed escaping *)
Theorem escape_borrow x s : snd (x_escape x s) = negb (existsb (Nat.eqb (sub_char x)) s).
Proof. unfold x_escape. destruct (existsb _ s); reflexivity. Qed.

(* check accepts a template only if every reference in it names an existing group *)
Definition step_ok (names : list (list nat * nat)) (n : nat) (st : step) : Prop :=
  match st with
  | StChar _ => True
  | StName id =>
      (exists i, lookup_name names id = Some i) \/
      (exists k, parse_usize id = Some k /\ (k = 0%N \/ (names = [] /\ (k < N.of_nat n)%N)))
  | StNum k => k = 0%N \/ (names = [] /\ (k < N.of_nat n)%N)
  | StError => False
  end.

Lemma check_num_ok names n k : check_num names n k = None -> k = 0%N \/ (names = [] /\ (k < N.of_nat n)%N).
Proof.
  unfold check_num. destruct (N.eqb_spec k 0); auto. destruct names; [|discriminate].
  destruct (N.ltb_spec k (N.of_nat n)); [auto|discriminate].
Qed.

Theorem check_sound x template names n :
  check x template names n = None -> Forall (step_ok names n) (steps x template).
Proof.
  unfold check. induction (steps x template) as [|st l IH]; intros H; constructor; cbn [check_steps] in H.
  - destruct st as [b|id|k|]; cbn [step_ok]; auto.
    + destruct (lookup_name names id) as [i|] eqn:E; [left; eauto|].
      destruct (parse_usize id) as [k|] eqn:E2; [|discriminate].
      destruct (check_num names n k) eqn:E3; [discriminate|]. right. exists k. split; auto.
      apply check_num_ok; auto.
    + destruct (check_num names n k) eqn:E3; [discriminate|]. apply check_num_ok; auto.
    + discriminate.
  - apply IH. destruct st as [b|id|k|]; auto.
    + destruct (lookup_name names id); auto. destruct (parse_usize id); [|discriminate].
      destruct (check_num names n n0); [discriminate|auto].
    + destruct (check_num names n k); [discriminate|auto].
    + discriminate.
Qed.

(* ====== the documented $-syntax, as laws of the step sequence ====== *)
Section Doc.
Variable x : expander.
Hypothesis Hsc : sub_char x < 128.

Lemma steps_cons_char b r rest : (b =? sub_char x) = false -> length (b :: r) = cp_len b ->
  steps x ((b :: r) ++ rest) = StChar (b :: r) :: steps x rest.
Proof.
  intros Hnb Hl. unfold steps. rewrite app_length. cbn [length Nat.add].
  rewrite (exec_char x _ b r rest Hnb Hl). f_equal. apply exec_steps_fuel; lia.
Qed.

(* anything that is not the substitution character is copied verbatim, character by character *)
Theorem steps_verbatim_prefix : forall cs rest, valid_chars cs ->
  Forall (fun ch => match ch with b :: _ => b <> sub_char x | [] => True end) cs ->
  steps x (concat cs ++ rest) = map StChar cs ++ steps x rest.
Proof.
  induction cs as [|ch cs IH]; intros rest W Hn; [reflexivity|].
  inversion W as [|? ? Wc Wcs]; subst. inversion Hn as [|? ? Hc Hcs]; subst.
  destruct ch as [|b r]; [destruct Wc|]. destruct Wc as (Hb & Hr & Hl).
  cbn [concat map]. rewrite <- app_assoc. rewrite (steps_cons_char b r (concat cs ++ rest)); auto; [|now apply Nat.eqb_neq].
  cbn [app]. f_equal. now apply IH.
Qed.

Lemma steps_nil : steps x [] = []. Proof. reflexivity. Qed.

Theorem expansion_verbatim cs c : valid_chars cs ->
  Forall (fun ch => match ch with b :: _ => b <> sub_char x | [] => True end) cs ->
  expansion x (concat cs) c = concat cs.
Proof.
  intros W Hn. unfold expansion. rewrite <- (app_nil_r (concat cs)) at 1. rewrite steps_verbatim_prefix; auto.
  rewrite steps_nil, app_nil_r. clear. induction cs as [|ch cs IH]; [reflexivity|]. cbn [map flat_map expand_step concat]. now rewrite IH.
Qed.

(* the doubled substitution character is one literal substitution character *)
Theorem steps_doubled rest : steps x (sub_char x :: sub_char x :: rest) = StChar [sub_char x] :: steps x rest.
Proof.
  unfold steps. cbn [length]. rewrite (exec_dollar2 x Hsc). f_equal. apply exec_steps_fuel; lia.
Qed.
End Doc.

(* identifiers: ASCII letters, digits, underscore (the part of is_alphanumeric || '_' that needs no
   Unicode table) *)
Definition idb (b : nat) : Prop := b < 128 /\ is_id_cp b = true.

Lemma decode_ascii s i b : nth_error s i = Some b -> b < 128 -> decode_at s i = Some (b, 1).
Proof. intros H Hb. unfold decode_at. rewrite H. destruct (Nat.ltb_spec b 128); [reflexivity|lia]. Qed.

Lemma id_run_name : forall name rest f i, Forall idb name ->
  (match rest with [] => True | b :: _ => b < 128 /\ is_id_cp b = false end) ->
  i <= length name -> length name - i <= f ->
  id_run f (name ++ rest) i = length name.
Proof.
  intros name rest f. revert name rest. induction f as [|f IH]; intros name rest i Hn Hr Hi Hlt; [cbn; lia|].
  cbn [id_run]. destruct (Nat.eq_dec i (length name)) as [->|Hne].
  - destruct rest as [|b r].
    + unfold decode_at. rewrite app_nil_r. rewrite (proj2 (nth_error_None name (length name)) (le_n _)). reflexivity.
    + destruct Hr as [Hb Hid]. rewrite (decode_ascii _ _ b); [|rewrite nth_error_app2, Nat.sub_diag by lia; reflexivity|exact Hb].
      now rewrite Hid.
  - assert (Hi' : i < length name) by lia.
    destruct (nth_error name i) as [b|] eqn:Eb; [|apply nth_error_None in Eb; lia].
    rewrite Forall_forall in Hn. destruct (Hn b (nth_error_In _ _ Eb)) as [Hb Hid].
    rewrite (decode_ascii _ _ b); [|rewrite nth_error_app1 by lia; exact Eb|exact Hb]. rewrite Hid.
    apply IH; auto; try lia. now apply Forall_forall.
Qed.

Lemma skipn_len_app' {A} (a b : list A) : skipn (length a) (a ++ b) = b.
Proof. rewrite skipn_app, Nat.sub_diag, skipn_all. reflexivity. Qed.
Lemma firstn_len_app' {A} (a b : list A) : firstn (length a) (a ++ b) = a.
Proof. rewrite firstn_app, Nat.sub_diag, firstn_all. simpl. now rewrite app_nil_r. Qed.

Lemma parse_id_braced name rest : name <> [] -> Forall idb name ->
  parse_id (123 :: name ++ 125 :: rest) [123] [125] = Some (name, length name + 2).
Proof.
  intros Hne Hn. unfold parse_id.
  assert (Hsw0 : starts_with (123 :: name ++ 125 :: rest) [123] = true) by (cbn [starts_with]; change (123 =? 123) with true; now rewrite starts_with_nil).
  rewrite Hsw0.
  change (skipn (length [123]) (123 :: name ++ 125 :: rest)) with (name ++ 125 :: rest).
  assert (Hrun : id_run (length (name ++ 125 :: rest)) (name ++ 125 :: rest) 0 = length name).
  { apply id_run_name; [exact Hn|split; [lia|reflexivity]|lia|rewrite app_length; cbn; lia]. }
  cbv zeta. rewrite Hrun.
  assert (Hlt : (length name <? length (name ++ 125 :: rest)) = true) by (apply Nat.ltb_lt; rewrite app_length; cbn; lia).
  assert (Hsw1 : starts_with (125 :: rest) [125] = true) by (cbn [starts_with]; change (125 =? 125) with true; now rewrite starts_with_nil).
  rewrite Hlt, skipn_len_app', Hsw1.
  destruct name as [|n0 name'] eqn:En; [contradiction|]. rewrite <- En in *.
  assert (Hl : length name = S (length name')) by (subst name; reflexivity). rewrite Hl.
  assert (Hle : (length [123] + S (length name') <=? length (123 :: name ++ 125 :: rest)) = true).
  { apply Nat.leb_le. cbn [length]. rewrite app_length. cbn. lia. }
  rewrite Hle. unfold slice. change (length [123]) with 1. cbn [skipn].
  replace (1 + S (length name') - 1) with (length name) by lia. rewrite firstn_len_app'.
  f_equal. f_equal. cbn. lia.
Qed.

Lemma parse_id_bare name rest : name <> [] -> Forall idb name ->
  (match rest with [] => True | b :: _ => b < 128 /\ is_id_cp b = false end) ->
  parse_id (name ++ rest) [] [] = Some (name, length name).
Proof.
  intros Hne Hn Hr. unfold parse_id. rewrite starts_with_nil. change (length (@nil nat)) with 0. cbn [skipn]. cbv zeta.
  assert (Hrun : id_run (length (name ++ rest)) (name ++ rest) 0 = length name).
  { apply id_run_name; [exact Hn|exact Hr|lia|rewrite app_length; lia]. }
  rewrite Hrun.
  assert (Hres : (if length name <? length (name ++ rest)
                  then if starts_with (skipn (length name) (name ++ rest)) [] then Some (length name) else None
                  else Some (length (name ++ rest))) = Some (length name)).
  { rewrite app_length. destruct (Nat.ltb_spec (length name) (length name + length rest)); [now rewrite starts_with_nil|f_equal; lia]. }
  rewrite Hres.
  destruct name as [|n0 name'] eqn:En; [contradiction|]. rewrite <- En in *.
  assert (Hl : length name = S (length name')) by (subst name; reflexivity). rewrite Hl.
  assert (Hle : (0 + S (length name') <=? length (name ++ rest)) = true) by (apply Nat.leb_le; rewrite app_length; lia).
  rewrite Hle. unfold slice. cbn [skipn]. replace (0 + S (length name') - 0) with (length name) by lia.
  rewrite firstn_len_app'. f_equal. f_equal. lia.
Qed.

Lemma idb_not_brace b : idb b -> (b =? 123) = false.
Proof. intros [Hb Hid]. apply Nat.eqb_neq. intros ->. discriminate. Qed.
Lemma idb_not_dollar b : idb b -> (b =? 36) = false.
Proof. intros [Hb Hid]. apply Nat.eqb_neq. intros ->. discriminate. Qed.

(* one step at the substitution character (default expander), fuel kept abstract *)
Lemma exec_dollar_default f tail :
  exec_steps expander_default (S f) (36 :: tail) =
  if starts_with tail [36] then StChar [36] :: exec_steps expander_default f (skipn 1 tail)
  else match (match parse_id tail [123] [125] with Some r => Some r | None => parse_id tail [] [] end) with
       | Some (id, skip) => StName id :: exec_steps expander_default f (skipn skip tail)
       | None => match parse_decimal0 tail with
                 | Some (skip, num) => StNum num :: exec_steps expander_default f (skipn skip tail)
                 | None => StError :: StChar [36] :: exec_steps expander_default f tail
                 end
       end.
Proof. reflexivity. Qed.

(* ${name} *)
Theorem steps_braced name rest : name <> [] -> Forall idb name ->
  steps expander_default (36 :: 123 :: name ++ 125 :: rest) = StName name :: steps expander_default rest.
Proof.
  intros Hne Hn. unfold steps. cbn [length]. rewrite exec_dollar_default.
  cbn [starts_with]. change (123 =? 36) with false. cbn [andb].
  rewrite (parse_id_braced name rest Hne Hn). f_equal.
  replace (length name + 2) with (S (length name + 1)) by lia. cbn [skipn].
  replace (length name + 1) with (length (name ++ [125])) by (rewrite app_length; cbn; lia).
  replace (name ++ 125 :: rest) with ((name ++ [125]) ++ rest) by (rewrite <- app_assoc; reflexivity).
  rewrite skipn_len_app'. apply (exec_steps_fuel expander_default ltac:(cbn; lia)); [|lia]. rewrite !app_length. cbn [length]. lia.
Qed.

(* $name : the longest run of identifier characters *)
Theorem steps_bare name rest : name <> [] -> Forall idb name ->
  (match rest with [] => True | b :: _ => b < 128 /\ is_id_cp b = false end) ->
  steps expander_default (36 :: name ++ rest) = StName name :: steps expander_default rest.
Proof.
  intros Hne Hn Hr. unfold steps. cbn [length]. rewrite exec_dollar_default.
  destruct name as [|n0 name'] eqn:En; [contradiction|]. rewrite <- En in *.
  assert (Hid0 : idb n0) by (subst name; now inversion Hn).
  assert (Hsw : starts_with (name ++ rest) [36] = false) by (subst name; cbn [app starts_with]; now rewrite (idb_not_dollar n0 Hid0)).
  rewrite Hsw.
  assert (Hpb : parse_id (name ++ rest) [123] [125] = None).
  { unfold parse_id. subst name. cbn [app starts_with]. now rewrite (idb_not_brace n0 Hid0). }
  rewrite Hpb. rewrite (parse_id_bare name rest Hne Hn Hr). f_equal. rewrite skipn_len_app'.
  apply (exec_steps_fuel expander_default ltac:(cbn; lia)); [|lia]. rewrite app_length. lia.
Qed.
