(* ExprLemmas.v — list-level views of the nested fixpoints of Analyze / Sem / Escape, so that
   later proofs can do induction over Concat / Alt children. *)
From FR Require Import Base Utf8 Ast Analyze Sem Escape.
From Coq Require Import Lia NArith.

(* ---------- ngroups ---------- *)
Lemma ngroups_concat es : ngroups (Concat es) = ngroups_list es.
Proof. induction es as [|x r IH]; simpl in *; auto. Qed.
Lemma ngroups_alt es : ngroups (Alt es) = ngroups_list es.
Proof. induction es as [|x r IH]; simpl in *; auto. Qed.
Lemma ngroups_wrap e : ngroups (wrap e) = S (ngroups e).
Proof. unfold wrap. simpl. lia. Qed.

(* ---------- hard ---------- *)
Fixpoint hard_list (bs : N -> bool) (g : nat) (l : list expr) : bool :=
  match l with [] => false | x :: r => hard bs g x || hard_list bs (g + ngroups x) r end.
Lemma hard_concat bs g es : hard bs g (Concat es) = hard_list bs g es.
Proof.
  revert g; induction es as [|x r IH]; intros g; [reflexivity|].
  cbn [hard_list]. rewrite <- IH. reflexivity.
Qed.
Lemma hard_alt bs g es : hard bs g (Alt es) = hard_list bs g es.
Proof.
  revert g; induction es as [|x r IH]; intros g; [reflexivity|].
  cbn [hard_list]. rewrite <- IH. reflexivity.
Qed.

(* ---------- acheck ---------- *)
Fixpoint acheck_list (g : nat) (l : list expr) : option aerr :=
  match l with
  | [] => None
  | x :: r => match acheck g x with Some er => Some er | None => acheck_list (g + ngroups x) r end
  end.
Lemma acheck_concat g es : acheck g (Concat es) = acheck_list g es.
Proof.
  revert g; induction es as [|x r IH]; intros g; [reflexivity|].
  cbn [acheck_list]. rewrite <- IH. reflexivity.
Qed.
Lemma acheck_alt g es : acheck g (Alt es) = match es with [] => Some APanicEmptyAlt | _ => acheck_list g es end.
Proof.
  destruct es as [|y r']; [reflexivity|]. rewrite <- acheck_concat. reflexivity.
Qed.

(* ---------- to_str ---------- *)
Fixpoint to_str_cat (l : list expr) : option (list nat) :=
  match l with
  | [] => Some []
  | x :: r => match to_str x 2, to_str_cat r with Some a, Some b => Some (a ++ b) | _, _ => None end
  end.
Fixpoint to_str_alt (first : bool) (l : list expr) : option (list nat) :=
  match l with
  | [] => Some []
  | x :: r => match to_str x 1, to_str_alt false r with
              | Some a, Some b => Some ((if first then [] else [124]) ++ a ++ b)
              | _, _ => None
              end
  end.
Lemma to_str_concat es prec :
  to_str (Concat es) prec =
  match to_str_cat es with
  | Some body => Some (if 1 <? prec then s_open ++ body ++ [41] else body)
  | None => None
  end.
Proof. reflexivity. Qed.
Lemma to_str_alt_eq es prec :
  to_str (Alt es) prec =
  match to_str_alt true es with
  | Some body => Some (if 0 <? prec then s_open ++ body ++ [41] else body)
  | None => None
  end.
Proof. reflexivity. Qed.

(* C03/C06: an expression the analysis judges easy never reaches to_str's panic arm *)
Theorem to_str_total bs : forall e g0 prec,
  acheck g0 e = None -> hard bs g0 e = false -> to_str e prec <> None.
Proof.
  induction e using expr_ind'; intros g0 prec Ha Hh; try (simpl in *; discriminate).
  - (* Assertion *) destruct a as [| |[|]|[|]| | | |]; simpl in *; discriminate.
  - (* Concat *)
    rewrite to_str_concat. rewrite acheck_concat in Ha. rewrite hard_concat in Hh.
    assert (Hc : to_str_cat es <> None).
    { revert g0 Ha Hh. induction H as [|x r Hx Hr IH]; intros g Ha Hh; simpl in *; [discriminate|].
      apply orb_false_iff in Hh. destruct Hh as [H1 H2].
      destruct (acheck g x) eqn:E; [discriminate|].
      specialize (Hx g 2 E H1). specialize (IH _ Ha H2).
      destruct (to_str x 2); [|contradiction]. destruct (to_str_cat r); [discriminate|contradiction]. }
    destruct (to_str_cat es); [discriminate|contradiction].
  - (* Alt *)
    rewrite to_str_alt_eq. rewrite acheck_alt in Ha. rewrite hard_alt in Hh.
    assert (Hc : forall first, to_str_alt first es <> None).
    { destruct es as [|y r']; [discriminate|]. revert g0 Ha Hh.
      generalize (y :: r') H. clear. intros l H.
      induction H as [|x r Hx Hr IH]; intros g Ha Hh first; simpl in *; [discriminate|].
      apply orb_false_iff in Hh. destruct Hh as [H1 H2].
      destruct (acheck g x) eqn:E; [discriminate|].
      specialize (Hx g 1 E H1). specialize (IH _ Ha H2 false).
      destruct (to_str x 1); [|contradiction]. destruct (to_str_alt false r); [discriminate|contradiction]. }
    specialize (Hc true). destruct (to_str_alt true es); [discriminate|contradiction].
  - (* Group *)
    simpl in *. apply orb_false_iff in Hh. destruct Hh as [H1 _].
    specialize (IHe (S g0) 0 Ha H1). destruct (to_str e 0); [discriminate|contradiction].
  - (* Repeat *)
    simpl in *. apply orb_false_iff in Hh. destruct Hh as [Hh _]. specialize (IHe g0 3 Ha Hh). destruct (to_str e 3); [discriminate|contradiction].
Qed.
