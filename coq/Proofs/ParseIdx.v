(* ParseIdx.v — the parser on a VALID UTF-8 pattern: every index it reaches between tokens is a
   character boundary, so no slice / index / unwrap of parse.rs can panic, and every literal node
   it builds is one well-formed character.  For every pattern string that is valid UTF-8 (what a
   Rust &str is):
     parse_never_panics : parse re <> PPanic
     parse_wfe          : parse re = POk (e, st) -> wfe e                                        *)
From FR Require Import Base Utf8 Utf8Facts Ast Analyze Sem ExprLemmas SemSound Parse ParseInv.
From Coq Require Import Lia NArith.

(* ---------- characters of a valid text ---------- *)
Lemma char_at cs i : valid_chars cs -> bnd cs i -> i < length (concat cs) ->
  exists b r, nth_error (concat cs) i = Some b /\ wf_char (b :: r) /\
              firstn (cp_len b) (skipn i (concat cs)) = b :: r /\ bnd cs (i + cp_len b).
Proof.
  intros W B. revert W. induction B as [cs|c cs i B IH]; intros W Hlt.
  - destruct cs as [|c cs]; simpl in *; [lia|]. inversion W as [|? ? Wc Wcs]; subst.
    destruct c as [|b r]; simpl in Wc; [tauto|]. destruct Wc as (Hb & Hr & Hl).
    exists b, r. split; [reflexivity|]. split; [simpl; auto|]. split.
    + rewrite <- Hl. change (S (length r)) with (length (b :: r)).
      rewrite firstn_app, Nat.sub_diag, firstn_all. cbn [firstn]. now rewrite app_nil_r.
    + rewrite <- Hl. replace (S (length r)) with (length (b :: r) + 0) by (simpl; lia). constructor. constructor.
  - inversion W as [|? ? Wc Wcs]; subst. simpl in Hlt. rewrite app_length in Hlt.
    destruct (IH Wcs ltac:(lia)) as (b & r & Hn & Hw & Hf & Hbnd).
    exists b, r. simpl. rewrite nth_error_app2 by lia. replace (length c + i - length c) with i by lia.
    split; auto. split; auto. split.
    + rewrite skipn_app. rewrite skipn_all2 by lia. replace (length c + i - length c) with i by lia. exact Hf.
    + replace (length c + i + cp_len b) with (length c + (i + cp_len b)) by lia. now constructor.
Qed.

Lemma ascii_bnd cs : valid_chars cs -> forall k b, nth_error (concat cs) k = Some b -> b < 128 ->
  bnd cs k /\ bnd cs (k + 1).
Proof.
  induction cs as [|c cs IH]; intros W k b Hn Hb; [destruct k; discriminate|].
  inversion W as [|? ? Wc Wcs]; subst. simpl in Hn.
  destruct (Nat.lt_ge_cases k (length c)) as [Hlt|Hge].
  - rewrite nth_error_app1 in Hn by auto. destruct c as [|b0 r]; [simpl in Hlt; lia|].
    destruct Wc as (Hb0 & Hr & Hl). destruct k as [|k].
    + simpl in Hn. inversion Hn; subst b0. split; [constructor|].
      assert (cp_len b = 1) by (unfold cp_len; change Consts.CP_LEN_T1 with 128; destruct (Nat.ltb_spec b 128); [reflexivity|lia]).
      replace (0 + 1) with (length (b :: r) + 0) by lia. constructor. constructor.
    + simpl in Hn. apply nth_error_In in Hn. rewrite Forall_forall in Hr. apply Hr in Hn.
      unfold is_cont in Hn. apply andb_true_iff in Hn as [Hn _]. apply Nat.leb_le in Hn. lia.
  - rewrite nth_error_app2 in Hn by auto. destruct (IH Wcs _ _ Hn Hb) as [B1 B2].
    split.
    + replace k with (length c + (k - length c)) by lia. now constructor.
    + replace (k + 1) with (length c + (k - length c + 1)) by lia. now constructor.
Qed.

Section Idx.
Variable rcs : list (list nat).
Hypothesis W : valid_chars rcs.
Let re := concat rcs.
Notation B := (bnd rcs).

Lemma B_le k : B k -> k <= length re. Proof. apply bnd_le. Qed.
Lemma B_end : B (length re). Proof. apply bnd_end. Qed.
Lemma byte_lt k : k < length re -> exists b, byte re k = Some b.
Proof. intros H. unfold byte. destruct (nth_error re k) eqn:E; eauto. apply nth_error_None in E. lia. Qed.
Lemma byte_Some_lt k b : byte re k = Some b -> k < length re.
Proof. unfold byte. intros H. apply nth_error_Some. congruence. Qed.

Lemma asc k b : byte re k = Some b -> b < 128 -> B k /\ B (k + 1).
Proof. intros H Hb. eapply ascii_bnd; eauto. Qed.
Lemma asc1 k b : byte re k = Some b -> b < 128 -> B (k + 1).
Proof. intros H Hb. eapply asc; eauto. Qed.

Lemma step k b : B k -> byte re k = Some b ->
  B (k + cp_len b) /\ k + cp_len b <= length re /\ wf_char (sub re k (k + cp_len b)).
Proof.
  intros Hk Hb. pose proof (byte_Some_lt _ _ Hb) as Hlt.
  destruct (char_at rcs k W Hk Hlt) as (b' & r & Hn & Hw & Hf & Hbn). unfold byte in Hb. fold re in Hn. rewrite Hb in Hn. inversion Hn; subst b'.
  split; auto. split; [now apply B_le|]. unfold sub. replace (k + cp_len b - k) with (cp_len b) by lia. fold re in Hf. now rewrite Hf.
Qed.

(* outcomes: never a panic, and a property of the value *)
Definition good {A} (P : A -> Prop) (r : pres A) : Prop :=
  match r with POk a => P a | PErr p _ => p <= length re | PPanic => False | _ => True end.
Lemma good_bind {A C} (PA : A -> Prop) (PC : C -> Prop) (m : pres A) (f : A -> pres C) :
  good PA m -> (forall a, PA a -> good PC (f a)) -> good PC (pbind m f).
Proof. destruct m; cbn; auto. Qed.
Lemma good_weaken {A} (P P' : A -> Prop) r : (forall a, P a -> P' a) -> good P r -> good P' r.
Proof. destruct r; cbn; auto. Qed.

(* closing an error leaf: the reported position is inside the pattern *)
Ltac ble := repeat match goal with
  | H : B ?k |- _ => lazymatch goal with _ : k <= length re |- _ => fail | _ => pose proof (B_le k H) end
  | H : byte re ?k = Some _ |- _ => lazymatch goal with _ : k < length re |- _ => fail | _ => pose proof (byte_Some_lt k _ H) end
  end.
Ltac perr := cbn [good orb andb negb]; ble; lia.
Ltac triv := first [exact I | perr].


(* ---------- list helpers ---------- *)
Lemma nth_skipn {A} : forall (l : list A) k j, nth_error (skipn k l) j = nth_error l (k + j).
Proof. induction l as [|x l IH]; intros [|k] j; cbn; auto. destruct j; reflexivity. Qed.
Lemma nth_from k j : nth_error (from re k) j = byte re (k + j).
Proof. unfold from, byte. apply nth_skipn. Qed.

Lemma find_nl_nth : forall l x, find_nl l = Some x -> nth_error l x = Some 10.
Proof.
  induction l as [|b r IH]; intros x H; cbn [find_nl] in H; [discriminate|].
  destruct (Nat.eqb_spec b 10) as [->|Hne]; [inversion H; reflexivity|].
  destruct (find_nl r) as [y|]; [|discriminate]. inversion H; subst. cbn. now apply IH.
Qed.

Lemma digit_run_nth : forall l k, k < digit_run l -> exists d, nth_error l k = Some d /\ is_digit d = true.
Proof.
  induction l as [|b r IH]; intros k Hk; cbn [digit_run] in Hk; [lia|].
  destruct (is_digit b) eqn:Ed; [|lia]. destruct k as [|k]; [exists b; auto|]. cbn. apply IH. lia.
Qed.
Lemma is_digit_ascii d : is_digit d = true -> d < 128.
Proof. unfold is_digit. intros H. apply andb_true_iff in H as [_ H]. apply Nat.leb_le in H. lia. Qed.

Lemma sw_nth : forall pre s, starts_with s pre = true -> forall k, k < length pre -> nth_error s k = nth_error pre k.
Proof.
  induction pre as [|p pr IH]; intros s H k Hk; [cbn in Hk; lia|]. destruct s as [|x sr]; cbn [starts_with] in H; [discriminate|].
  apply andb_true_iff in H as [H1 H2]. apply Nat.eqb_eq in H1. subst. destruct k; [reflexivity|]. cbn. apply IH; auto. cbn in Hk. lia.
Qed.

Lemma sw_bnd k pre : starts_with (from re k) pre = true -> pre <> [] -> Forall (fun b => b < 128) pre -> B (k + length pre).
Proof.
  intros H Hne Ha. destruct (exists_last Hne) as (p0 & bl & ->). rewrite app_length. cbn [length].
  pose proof (sw_nth _ _ H (length p0)) as Hn. rewrite app_length in Hn. cbn [length] in Hn. specialize (Hn ltac:(lia)).
  rewrite nth_error_app2, Nat.sub_diag in Hn by lia. cbn in Hn. rewrite nth_from in Hn.
  apply Forall_app in Ha as [_ Ha]. inversion Ha; subst.
  replace (k + (length p0 + 1)) with (k + length p0 + 1) by lia. eapply asc1; eauto.
Qed.

(* ---------- skip_comment, optional_whitespace ---------- *)
Lemma skip_comment_S f ix : skip_comment re (S f) ix =
  if length re <=? ix then PErr (length re) PUnclosedOpenParen else
  match byte re ix with
  | Some b => if b =? 41 then POk (ix + 1) else if b =? 92 then skip_comment re f (ix + 2) else skip_comment re f (ix + 1)
  | None => skip_comment re f (ix + 1)
  end.
Proof.
  cbn [skip_comment]. destruct (length re <=? ix); [reflexivity|]. destruct (byte re ix) as [b|]; [|reflexivity].
  destruct (Nat.eqb_spec b 41) as [->|H1]; [reflexivity|]. destruct (Nat.eqb_spec b 92) as [->|H2]; [reflexivity|].
  do 93 (destruct b as [|b]; [try reflexivity; try lia|]). reflexivity.
Qed.

Lemma skip_comment_good : forall fuel ix, good B (skip_comment re fuel ix).
Proof.
  induction fuel as [|f IH]; intros ix; [triv|]. rewrite skip_comment_S.
  destruct (length re <=? ix); [triv|]. destruct (byte re ix) as [b|] eqn:E; [|apply IH].
  destruct (Nat.eqb_spec b 41) as [->|H1]; [cbn; eapply asc1; [exact E|lia]|]. destruct (b =? 92); apply IH.
Qed.

Lemma ows_good : forall fuel fl ix, B ix -> good B (optional_whitespace re fuel fl ix).
Proof.
  induction fuel as [|f IH]; intros fl ix Hb; [triv|]. cbn [optional_whitespace].
  destruct (Nat.eqb_spec ix (length re)) as [->|Hne]; [exact Hb|].
  pose proof (B_le _ Hb) as Hle. destruct (byte_lt ix ltac:(lia)) as (b & Eb). rewrite Eb.
  destruct ((b =? 35) && f_space fl).
  { destruct (find_nl (from re ix)) as [x|] eqn:En; [|exact B_end].
    apply find_nl_nth in En. rewrite nth_from in En. apply IH. eapply asc1; eauto. lia. }
  destruct (((b =? 32) || (b =? 13) || (b =? 10) || (b =? 9)) && f_space fl) eqn:Ews.
  { apply IH. eapply asc1; eauto. apply andb_true_iff in Ews as [Ews _].
    repeat (apply orb_true_iff in Ews as [Ews|Ews]); apply Nat.eqb_eq in Ews; lia. }
  destruct ((b =? 40) && starts_with (from re ix) [40; 63; 35]); [|exact Hb].
  eapply good_bind; [apply skip_comment_good|]. intros j Hj. now apply IH.
Qed.

(* ---------- numbers and identifiers ---------- *)
Lemma parse_decimal_bnd ix j v : parse_decimal re ix = Some (j, v) -> B j /\ ix < j.
Proof.
  unfold parse_decimal. intros H. destruct (Nat.eqb_spec (digit_run (from re ix)) 0) as [|Hn]; [discriminate|].
  destruct (N.leb _ _); [|discriminate]. inversion H; subst.
  destruct (digit_run_nth (from re ix) (digit_run (from re ix) - 1) ltac:(lia)) as (d & Hd & Hdig).
  rewrite nth_from in Hd. split; [|lia].
  replace (ix + digit_run (from re ix)) with (ix + (digit_run (from re ix) - 1) + 1) by lia.
  eapply asc1; eauto. now apply is_digit_ascii.
Qed.

Lemma id_run_bnd base : forall fuel i d, B (base + i) -> B (base + id_run fuel (from re base) i d) /\ i <= id_run fuel (from re base) i d.
Proof.
  induction fuel as [|f IH]; intros i d Hb; cbn [id_run]; [split; auto|].
  destruct (decode_at (from re base) i) as [[cp l]|] eqn:E; [|split; auto].
  destruct (if d then (48 <=? cp) && (cp <=? 57) else is_id_cp cp); [|split; auto].
  destruct (decode_len _ _ _ _ E) as (b & Hn & ->). rewrite nth_from in Hn.
  destruct (step _ _ Hb Hn) as (Hs & _ & _).
  destruct (IH (i + cp_len b) d ltac:(now rewrite Nat.add_assoc)) as [H1 H2]. split; auto.
  pose proof (cp_len_cases b). lia.
Qed.

Lemma skipn_from a k : skipn a (from re k) = from re (k + a).
Proof.
  unfold from. generalize re. intros l. revert a l. induction k as [|k IH]; intros a l; cbn [skipn Nat.add]; [reflexivity|].
  destruct l as [|x l]; [now rewrite !skipn_nil|]. cbn [skipn]. apply IH.
Qed.
Lemma from_length k : length (from re k) = length re - k.
Proof. unfold from. apply skipn_length. Qed.

Lemma parse_id_bnd ix o c ar id skip : B ix -> Forall (fun b => b < 128) o -> Forall (fun b => b < 128) c ->
  parse_id (from re ix) o c ar = Some (id, skip) -> B (ix + skip) /\ 0 < skip.
Proof.
  intros Hb Ho Hc H. unfold parse_id in H. destruct (starts_with (from re ix) o) eqn:Eo; [|discriminate].
  cbv zeta in H. rewrite skipn_from in H. set (base := ix + length o) in *.
  assert (Bbase : B base).
  { destruct o as [|o1 o']; [unfold base; cbn; now rewrite Nat.add_0_r|]. apply sw_bnd; auto. discriminate. }
  set (rel := ar && match from re base with 45 :: _ => true | _ => false end) in *.
  set (n := if rel then id_run (length (from re base)) (from re base) 1 true else id_run (length (from re base)) (from re base) 0 false) in *.
  assert (Bn : B (base + n)).
  { unfold n. destruct rel eqn:Er.
    - apply id_run_bnd. unfold rel in Er. apply andb_true_iff in Er as [_ Er].
      destruct (from re base) as [|x r] eqn:Ef; [discriminate|].
      assert (Hx : byte re base = Some x) by (rewrite <- (Nat.add_0_r base), <- nth_from, Ef; reflexivity).
      assert (x = 45) by (do 46 (destruct x as [|x]; try discriminate); reflexivity). subst x.
      eapply asc1; eauto. lia.
    - apply id_run_bnd. now rewrite Nat.add_0_r. }
  destruct (n <? length (from re base)) eqn:En.
  - rewrite skipn_from in H. destruct (starts_with (from re (base + n)) c) eqn:Ec; [|discriminate].
    destruct n as [|n']; [discriminate|]. destruct (_ <=? _); [|discriminate]. inversion H; subst. split; [|lia].
    replace (ix + (length o + S n' + length c)) with (base + S n' + length c) by (unfold base; lia).
    destruct c as [|c1 c']; [cbn; now rewrite Nat.add_0_r|]. apply sw_bnd; auto. discriminate.
  - destruct c as [|c1 c']; [|discriminate]. destruct (length (from re ix)) as [|m] eqn:El; [discriminate|].
    destruct (length o + S m <=? S m) eqn:Ele; [|discriminate]. inversion H; subst. apply Nat.leb_le in Ele.
    assert (length o = 0) by lia. split; [|lia]. rewrite from_length in El. pose proof (B_le _ Hb).
    replace (ix + (length o + S m + 0)) with (length re) by lia. apply B_end.
Qed.

(* ---------- back-references, hex escapes, \p{..} ---------- *)
Notation P3ok := (fun r : P3 => B (fst (fst r)) /\ wfe (snd (fst r))).

Lemma named_backref_good st ix o c ar mk : B ix -> Forall (fun b => b < 128) o -> Forall (fun b => b < 128) c ->
  (forall g, wfe (mk g)) -> good P3ok (parse_named_backref re st ix o c ar mk).
Proof.
  intros Hb Ho Hc Hmk. unfold parse_named_backref. pose proof (B_le _ Hb) as Hle.
  destruct (Nat.ltb_spec (length re) ix); [lia|].
  destruct (parse_id (from re ix) o c ar) as [[id skip]|] eqn:E; [|triv].
  destruct (parse_group_ref st id) as [g|]; [|triv]. destruct (N.ltb g _); [|triv].
  destruct (parse_id_bnd _ _ _ _ _ _ Hb Ho Hc E) as [H1 _]. cbn. split; [exact H1|apply Hmk].
Qed.
Lemma numbered_backref_good st ix mk : ix <= length re -> (forall g, wfe (mk g)) -> good P3ok (parse_numbered_backref re st ix mk).
Proof.
  intros Hix Hmk. unfold parse_numbered_backref. destruct (parse_decimal re ix) as [[e g]|] eqn:E; [|triv].
  destruct (N.ltb g _); [|triv]. destruct (parse_decimal_bnd _ _ _ E) as [H1 _]. cbn. split; [exact H1|apply Hmk].
Qed.

Lemma hex_ascii b : is_hex_digit b = true -> b < 128.
Proof.
  unfold is_hex_digit. intros H. apply orb_true_iff in H as [H|H]; [now apply is_digit_ascii|].
  apply andb_true_iff in H as [_ H]. apply Nat.leb_le in H. unfold or32 in H. destruct (Nat.testbit b 5); lia.
Qed.

Lemma hex_braced_good : forall fuel sh eh ep, eh <= length re -> ep <= length re -> good (fun j => B (j + 1)) (hex_braced re fuel sh eh ep).
Proof.
  induction fuel as [|f IH]; intros sh eh ep Hle Hep; [triv|]. cbn [hex_braced].
  destruct (Nat.eqb_spec eh (length re)); [triv|]. destruct (byte_lt eh ltac:(lia)) as (b & Eb). rewrite Eb.
  destruct ((sh <? eh) && (b =? 125)) eqn:E1.
  - cbn. apply andb_true_iff in E1 as [_ E1]. apply Nat.eqb_eq in E1. subst. eapply asc1; [exact Eb|lia].
  - destruct (is_hex_digit b && (eh <? sh + 8)); [|triv]. apply IH; lia.
Qed.

Lemma nth_firstn_lt {A} : forall n (l : list A) k, k < n -> nth_error (firstn n l) k = nth_error l k.
Proof. induction n as [|n IH]; intros l k Hk; [lia|]. destruct l as [|x l]; [destruct k; reflexivity|]. destruct k; [reflexivity|]. cbn. apply IH. lia. Qed.
Lemma nth_sub a b k : k < b - a -> nth_error (sub re a b) k = byte re (a + k).
Proof. intros Hk. unfold sub, byte. rewrite nth_firstn_lt by auto. apply nth_skipn. Qed.

Lemma parse_hex_good fl ix d : ix <= length re -> 0 < d ->
  good (fun r : nat * expr => B (fst r) /\ wfe (snd r)) (parse_hex re fl ix d).
Proof.
  intros Hle Hd. unfold parse_hex. destruct (Nat.leb_spec (length re) ix); [triv|].
  assert (Hfin : forall e ds, B e ->
    good (fun r : nat * expr => B (fst r) /\ wfe (snd r))
      (let cp := hex_value ds 0%N in
       if (N.leb 55296 cp && N.leb cp 57343) || N.ltb 1114111 cp
       then @PErr (nat * expr) ix PInvalidCodepointValue
       else POk (e, Literal (encode_utf8 cp) (f_casei fl)))).
  { intros e ds He. cbv zeta.
    destruct ((N.leb 55296 (hex_value ds 0) && N.leb (hex_value ds 0) 57343) || N.ltb 1114111 (hex_value ds 0)) eqn:Eo; [triv|].
    cbn. split; auto. apply wf_char_encode. apply orb_false_iff in Eo as [_ Eo]. now apply N.ltb_ge in Eo. }
  destruct ((ix + d <=? length re) && forallb is_hex_digit (sub re ix (ix + d))) eqn:E1.
  - apply Hfin. apply andb_true_iff in E1 as [E1 E2]. apply Nat.leb_le in E1.
    assert (Hn : nth_error (sub re ix (ix + d)) (d - 1) = byte re (ix + (d - 1))) by (apply nth_sub; lia).
    destruct (byte_lt (ix + (d - 1)) ltac:(lia)) as (b & Eb). rewrite Eb in Hn.
    rewrite forallb_forall in E2. pose proof (E2 b (nth_error_In _ _ Hn)) as Hh.
    replace (ix + d) with (ix + (d - 1) + 1) by lia. eapply asc1; eauto. now apply hex_ascii.
  - destruct (byte_is re ix 123); [|triv].
    eapply good_bind; [apply hex_braced_good; lia|]. intros eh Heh. now apply Hfin.
Qed.

Lemma uniname_end_good : forall fuel e ep, B e -> ep <= length re -> good B (uniname_end re fuel e ep).
Proof.
  induction fuel as [|f IH]; intros e ep He Hep; [triv|]. cbn [uniname_end]. pose proof (B_le _ He).
  destruct (Nat.eqb_spec e (length re)); [triv|]. destruct (byte_lt e ltac:(lia)) as (b & Eb). rewrite Eb.
  destruct (Nat.eqb_spec b 125) as [->|]; [cbn; eapply asc1; [exact Eb|lia]|]. apply IH; [now apply (step e b He Eb)|exact Hep].
Qed.

(* ---------- escapes ---------- *)
Lemma table_wf b p : find (fun p => fst p =? b) Consts.ESCAPE_TABLE = Some p -> wf_char [snd p].
Proof.
  intros H. apply find_some in H as [H _]. cbn in H.
  repeat (destruct H as [<-|H]; [apply wf_char_ascii; cbn; lia|]). destruct H.
Qed.

Lemma parse_escape_good st ix ic : byte re ix = Some 92 -> good P3ok (parse_escape re st ix ic).
Proof.
  intros H92. destruct (asc ix 92 H92 ltac:(lia)) as [Bix Bix1].
  unfold parse_escape. destruct (byte re (ix + 1)) as [b|] eqn:Eb; [|triv].
  destruct (step (ix + 1) b Bix1 Eb) as (Be & Hele & Hwc).
  set (e := ix + 1 + cp_len b) in *. cbv zeta.
  assert (Hnb : forall mk, (forall g, wfe (mk g)) -> forall k, k <= length re -> good P3ok (parse_numbered_backref re st k mk))
    by (intros; now apply numbered_backref_good).
  assert (Hna : forall mk o c, (forall g, wfe (mk g)) -> Forall (fun b => b < 128) o -> Forall (fun b => b < 128) c ->
            good P3ok (parse_named_backref re st e o c true mk)) by (intros; now apply named_backref_good).
  repeat match goal with
  | |- good _ (parse_numbered_backref _ _ _ _) => apply Hnb; [intros; exact I|ble; lia]
  | |- good _ (parse_named_backref _ _ _ _ _ _ _) => apply Hna; [intros; triv|repeat constructor; lia|repeat constructor; lia]
  | |- good _ (pbind (parse_hex _ _ _ _) _) =>
      eapply good_bind; [apply parse_hex_good; lia|intros [j x] [Hj Hx]; cbn; split; assumption]
  | |- good _ (PErr _ _) => perr
  | |- good _ (if ?c then _ else _) => destruct c eqn:?
  | |- good _ (match find ?f ?t with _ => _ end) => destruct (find f t) eqn:?
  | |- good _ (match byte re e with _ => _ end) => destruct (byte re e) eqn:?
  end.
  all: try (cbn; split; [assumption|first [triv|reflexivity|assumption]]; fail).
  all: try (exfalso; match goal with H : (length re <? _) = true |- _ => apply Nat.ltb_lt in H; lia end).
  (* the three byte-None panics: e < |re| there *)
  all: try (exfalso; match goal with
            | H : _ && negb (?y =? length re) = true, E : byte re ?y = None |- _ =>
                apply andb_true_iff in H as [_ H]; apply negb_true_iff, Nat.eqb_neq in H;
                destruct (byte_lt y ltac:(lia)) as (x & Hx); congruence
            | H : (?y =? length re) = false, E : byte re ?y = None |- _ =>
                apply Nat.eqb_neq in H; destruct (byte_lt y ltac:(lia)) as (x & Hx); congruence
            end).
  - (* \p{..} *)
    match goal with E : byte re ?y = Some ?n, Hy : B ?y |- _ => destruct (step y n Hy E) as (Be2 & Hle2 & _) end.
    eapply (good_bind B).
    + match goal with |- good _ (if ?c then _ else _) => destruct c end; [apply uniname_end_good; [exact Be2|ble; lia]|exact Be2].
    + intros e3 He3. pose proof (B_le _ He3). destruct (Nat.ltb_spec (length re) e3); [lia|]. cbn. split; [exact He3|reflexivity].
  - (* the escape table *) cbn. split; [assumption|]. eapply table_wf; eauto.
Qed.

(* ---------- classes, counted repeats, closing parenthesis ---------- *)
Lemma byte_is_true k c : byte_is re k c = true -> byte re k = Some c.
Proof. unfold byte_is. destruct (byte re k) as [x|]; [|discriminate]. intros H. apply Nat.eqb_eq in H. now subst. Qed.

Lemma class_loop_good : forall fuel st ix nest cls, B ix -> 1 <= nest ->
  good (fun r : nat * list nat * pst => B (fst (fst r) + 1)) (class_loop re fuel st ix nest cls).
Proof.
  induction fuel as [|f IH]; intros st ix nest cls Hb Hn; [triv|]. cbn [class_loop]. pose proof (B_le _ Hb).
  destruct (Nat.eqb_spec ix (length re)); [triv|]. destruct (byte_lt ix ltac:(lia)) as (b & Eb). rewrite Eb.
  destruct (Nat.eqb_spec b 92) as [->|N92].
  { eapply good_bind; [now apply parse_escape_good|]. intros [[e x] st'] [He Hx]. cbn [fst snd] in *.
    destruct x; try triv; apply IH; auto. }
  destruct (Nat.eqb_spec b 91) as [->|N91]; [apply IH; [eapply asc1; [exact Eb|lia]|lia]|].
  destruct (Nat.eqb_spec b 93) as [->|N93].
  { destruct nest as [|[|nn]]; [lia| |apply IH; [eapply asc1; [exact Eb|lia]|lia]]. cbn. eapply asc1; [exact Eb|lia]. }
  destruct (step ix b Hb Eb) as (Hs & Hle & _). destruct (Nat.ltb_spec (length re) (ix + cp_len b)); [lia|]. now apply IH.
Qed.

Lemma parse_class_good st ix : byte re ix = Some 91 -> good P3ok (parse_class re st ix).
Proof.
  intros H91. pose proof (asc1 ix 91 H91 ltac:(lia)) as B1. unfold parse_class.
  assert (B2 : B (if byte_is re (ix + 1) 94 then ix + 1 + 1 else ix + 1)).
  { destruct (byte_is re (ix + 1) 94) eqn:E; [|exact B1]. apply byte_is_true in E. eapply asc1; [exact E|lia]. }
  destruct (byte_is re (ix + 1) 94); cbv zeta beta iota.
  all: match goal with |- context[byte_is re ?k 93] =>
         assert (B3 : B (if byte_is re k 93 then k + 1 else k))
           by (destruct (byte_is re k 93) eqn:E; [apply byte_is_true in E; eapply asc1; [exact E|lia]|exact B2]);
         destruct (byte_is re k 93) end; cbv beta iota.
  all: (eapply good_bind; [apply class_loop_good; [exact B3|lia]|]); intros [[e cls] st'] He; cbn [fst snd] in *; cbn; split; [exact He|reflexivity].
Qed.

Lemma parse_repeat_good fl ix : byte re ix = Some 123 ->
  good (fun r : nat * N * N => B (fst (fst r)) /\ 1 <= fst (fst r)) (parse_repeat re fl ix).
Proof.
  intros H123. pose proof (asc1 ix 123 H123 ltac:(lia)) as B1. unfold parse_repeat. cbv zeta.
  eapply good_bind; [apply ows_good; exact B1|]. intros ix1 Hix1.
  destruct (ix1 =? length re); [triv|].
  eapply (good_bind (fun r : N * nat => B (snd r))).
  { destruct (byte_is re ix1 44); [exact Hix1|]. destruct (parse_decimal re ix1) as [[nx lo]|] eqn:E; [|triv].
    cbn. now apply (parse_decimal_bnd _ _ _ E). }
  intros [lo e1] He1. cbn [snd] in He1.
  eapply good_bind; [apply ows_good; exact He1|]. intros ix2 Hix2.
  destruct (ix2 =? length re); [triv|].
  eapply (good_bind (fun r : N * nat => B (snd r))).
  { destruct (byte_is re ix2 125) eqn:E125; [exact Hix2|]. destruct (byte_is re ix2 44) eqn:E44; [|triv].
    apply byte_is_true in E44. eapply good_bind; [apply ows_good; eapply asc1; [exact E44|lia]|]. intros e2 He2.
    destruct (parse_decimal re e2) as [[nx hi]|] eqn:E; [|exact He2]. cbn. now apply (parse_decimal_bnd _ _ _ E). }
  intros [hi e3] He3. cbn [snd] in He3.
  eapply good_bind; [apply ows_good; exact He3|]. intros ix3 Hix3.
  destruct (ix3 =? length re); [triv|]. cbn [orb]. destruct (byte_is re ix3 125) eqn:E; [|triv]. cbn [negb].
  apply byte_is_true in E. cbn. split; [eapply asc1; [exact E|lia]|lia].
Qed.

Lemma close_paren_good fl ix : B ix -> good B (check_for_close_paren re fl ix).
Proof.
  intros Hb. unfold check_for_close_paren. eapply good_bind; [apply ows_good; exact Hb|]. intros ix1 H1.
  destruct (ix1 =? length re); [triv|]. destruct (byte_is re ix1 41) eqn:E; [|triv]. cbn [negb].
  apply byte_is_true in E. cbn. eapply asc1; [exact E|lia].
Qed.

(* ---------- the seven mutually recursive functions ---------- *)
Lemma sw_pos k pre j : starts_with (from re k) pre = true -> Forall (fun b => b < 128) pre ->
  0 < j <= length pre -> B (k + j).
Proof.
  intros H Ha Hj. pose proof (sw_nth _ _ H (j - 1) ltac:(lia)) as Hn. rewrite nth_from in Hn.
  destruct (nth_error pre (j - 1)) as [x|] eqn:Ex; [|apply nth_error_None in Ex; lia].
  rewrite Forall_forall in Ha. pose proof (Ha x (nth_error_In _ _ Ex)).
  replace (k + j) with (k + (j - 1) + 1) by lia. eapply asc1; eauto.
Qed.

Definition T_re f := forall st ix d, B ix -> good P3ok (parse_re re f st ix d).
Definition T_alt f := forall st ix d ch, B ix -> Forall wfe ch -> good P3ok (alt_loop re f st ix d ch).
Definition T_branch f := forall st ix d ch, B ix -> Forall wfe ch -> good P3ok (parse_branch re f st ix d ch).
Definition T_piece f := forall st ix d, B ix -> good P3ok (parse_piece re f st ix d).
Definition T_atom f := forall st ix d, B ix -> good P3ok (parse_atom re f st ix d).
Definition T_group f := forall st ix d, byte re ix = Some 40 -> good P3ok (parse_group re f st ix d).
Definition T_flags f := forall st ixq d start ix neg old, B ix -> start <= length re -> good P3ok (parse_flags re f st ixq d start ix neg old).
Definition T_cond f := forall st ix d, B ix -> good P3ok (parse_conditional re f st ix d).

Lemma wfe_of_forall l : Forall wfe l -> wfe_list l. Proof. induction 1; cbn; auto. Qed.
Lemma wfe_forall_of l : wfe_list l -> Forall wfe l. Proof. induction l; cbn; intros H; constructor; tauto. Qed.

Section StepT.
Variable f : nat.
Hypothesis I_re : T_re f.
Hypothesis I_alt : T_alt f.
Hypothesis I_branch : T_branch f.
Hypothesis I_piece : T_piece f.
Hypothesis I_atom : T_atom f.
Hypothesis I_group : T_group f.
Hypothesis I_flags : T_flags f.
Hypothesis I_cond : T_cond f.

Ltac bind3 L := eapply (good_bind P3ok); [apply L|intros [[?j ?x] ?s] [?Hj ?Hx]; cbn [fst snd] in *].
Ltac fin := cbn [good fst snd]; split; [auto|first [triv|assumption|auto]].
Ltac bindI L := eapply (good_bind B); [apply L|intros ?j ?Hj].

Lemma stepT_re : T_re (S f).
Proof.
  intros st ix d Hb. simpl parse_re. bind3 I_branch; auto. bindI ows_good; auto.
  destruct (byte_is re j0 124); [apply I_alt; auto|]. destruct (_ && _); [triv|]. fin.
Qed.

Lemma stepT_alt : T_alt (S f).
Proof.
  intros st ix d ch Hb Hch. simpl alt_loop. destruct (byte_is re ix 124) eqn:E.
  - apply byte_is_true in E. bind3 I_branch; [eapply asc1; [exact E|lia]|auto|]. bindI ows_good; auto.
    apply I_alt; auto. apply Forall_app. split; auto.
  - cbn [good fst snd]. split; auto. rewrite wfe_alt. now apply wfe_of_forall.
Qed.

Lemma finish_wfe ch : Forall wfe ch -> wfe (match ch with [] => Empty | [c] => c | _ => Concat ch end).
Proof. intros H. destruct ch as [|c [|c2 r]]; [triv|now inversion H|]. rewrite wfe_concat. now apply wfe_of_forall. Qed.

Lemma stepT_branch : T_branch (S f).
Proof.
  intros st ix d ch Hb Hch. simpl parse_branch. pose proof (finish_wfe ch Hch) as Hfin.
  destruct (ix <? length re).
  - bind3 I_piece; auto. destruct (j =? ix).
    + destruct ch as [|c [|c2 r]]; cbn [good fst snd]; split; auto.
    + apply I_branch; auto. destruct x; auto; apply Forall_app; split; auto.
  - destruct ch as [|c [|c2 r]]; cbn [good fst snd]; split; auto.
Qed.

Lemma stepT_piece : T_piece (S f).
Proof.
  intros st ix d Hb. simpl parse_piece. bind3 I_atom; auto. rename j into ix0, x into child, s into st1.
  bindI ows_good; auto. rename j into ix1.
  assert (Hq : forall ixq lo hi, B (ixq + 1) -> good P3ok
    (if negb (is_repeatable child) then PErr ixq PTargetNotRepeatable else
     let! ix2 := optional_whitespace re (length re + 2) (p_flags st1) (ixq + 1) in
     let '(greedy0, ix3) := if (ix2 <? length re) && byte_is re ix2 63 then (false, ix2 + 1) else (true, ix2) in
     let greedy := xorb greedy0 (f_swap (p_flags st1)) in
     let node := Repeat child lo hi greedy in
     if (ix3 <? length re) && byte_is re ix3 43 then POk (ix3 + 1, AtomicGroup node, st1)
     else POk (ix3, node, st1))).
  { intros ixq lo hi Hbq. destruct (negb (is_repeatable child)); [triv|].
    bindI ows_good; auto. rename j into ix2.
    assert (B3 : B (if (ix2 <? length re) && byte_is re ix2 63 then ix2 + 1 else ix2)).
    { destruct ((ix2 <? length re) && byte_is re ix2 63) eqn:E; [|auto]. apply andb_true_iff in E as [_ E].
      apply byte_is_true in E. eapply asc1; [exact E|lia]. }
    destruct ((ix2 <? length re) && byte_is re ix2 63); cbv beta iota zeta;
      match goal with |- good _ (if ?c then _ else _) => destruct c eqn:E43 end; cbn [good fst snd]; (split; [|assumption]); auto;
      apply andb_true_iff in E43 as [_ E43]; apply byte_is_true in E43; (eapply asc1; [exact E43|lia]). }
  destruct (Nat.ltb_spec ix1 (length re)); [|fin].
  destruct (byte_lt ix1 ltac:(lia)) as (b & Eb). rewrite Eb.
  destruct (Nat.eqb_spec b 63) as [->|]; [apply Hq; eapply asc1; [exact Eb|lia]|].
  destruct (Nat.eqb_spec b 42) as [->|]; [apply Hq; eapply asc1; [exact Eb|lia]|].
  destruct (Nat.eqb_spec b 43) as [->|]; [apply Hq; eapply asc1; [exact Eb|lia]|].
  destruct (Nat.eqb_spec b 123) as [->|]; [|fin].
  pose proof (parse_repeat_good (p_flags st1) ix1 Eb) as Hr.
  destruct (parse_repeat re (p_flags st1) ix1) as [[[nx lo] hi]| | | |]; cbn in Hr; try triv; try (fin; fail); try contradiction.
  destruct Hr as [Hr1 Hr2]. cbn [fst] in *. apply Hq. now replace (nx - 1 + 1) with nx by lia.
Qed.

Lemma stepT_atom : T_atom (S f).
Proof.
  intros st ix d Hb. simpl parse_atom. bindI ows_good; auto. rename j into ix1. pose proof (B_le _ Hj).
  destruct (Nat.eqb_spec ix1 (length re)); [fin|].
  destruct (byte_lt ix1 ltac:(lia)) as (b & Eb). rewrite Eb.
  destruct (Nat.eqb_spec b 46) as [->|]; [cbn [good fst snd]; split; [eapply asc1; [exact Eb|lia]|triv]|].
  destruct (Nat.eqb_spec b 94) as [->|]; [cbn [good fst snd]; split; [eapply asc1; [exact Eb|lia]|triv]|].
  destruct (Nat.eqb_spec b 36) as [->|]; [cbn [good fst snd]; split; [eapply asc1; [exact Eb|lia]|triv]|].
  destruct (Nat.eqb_spec b 40) as [->|]; [now apply I_group|].
  destruct (Nat.eqb_spec b 92) as [->|]; [now apply parse_escape_good|].
  destruct (_ || _); [fin|].
  destruct (Nat.eqb_spec b 91) as [->|]; [now apply parse_class_good|].
  destruct (step ix1 b Hj Eb) as (Hs & Hle & Hw). destruct (Nat.ltb_spec (length re) (ix1 + cp_len b)); [lia|].
  fin.
Qed.

Lemma stepT_group : T_group (S f).
Proof.
  intros st ix d H40. rewrite parse_group_S. cbv zeta.
  destruct (Consts.MAX_RECURSION <=? d + 1); [triv|].
  bindI ows_good; [eapply asc1; [exact H40|lia]|]. rename j into ix1.
  assert (Hbody : forall (node : expr -> expr) pos st0, B pos -> (forall c, wfe c -> wfe (node c)) ->
    good P3ok (let! r1 := parse_re re f st0 pos (d + 1) in
               let '(ix2, child, st1) := r1 in
               let! ix3 := check_for_close_paren re (p_flags st1) ix2 in
               POk (ix3, node child, st1))).
  { intros node pos st0 Hp Hn. bind3 I_re; auto. bindI close_paren_good; auto. fin. }
  assert (Hsw : forall pre j, starts_with (from re ix1) pre = true -> Forall (fun b => b < 128) pre -> 0 < j <= length pre -> B (ix1 + j))
    by (intros; eapply sw_pos; eauto).
  repeat match goal with
  | |- good _ (if starts_with (from re ix1) ?pre then _ else _) => destruct (starts_with (from re ix1) pre) eqn:?
  end.
  all: try (apply Hbody; [eapply Hsw; [eassumption|repeat constructor; lia|simpl; lia]|intros c Hc; cbn [good fst snd]; exact Hc]; fail).
  all: try (apply named_backref_good; [eapply Hsw; [eassumption|repeat constructor; lia|simpl; lia]|repeat constructor; lia|repeat constructor; lia|intros; triv]; fail).
  - (* (?<name> *)
    assert (B1 : B (ix1 + 1)) by (eapply Hsw; [eassumption|repeat constructor; lia|simpl; lia]).
    destruct (parse_id (from re (ix1 + 1)) [60] [62] false) as [[id skip]|] eqn:E; [|triv].
    destruct (parse_id_bnd (ix1 + 1) [60] [62] false id skip B1 ltac:(repeat constructor; lia) ltac:(repeat constructor; lia) E) as [Hs _].
    apply Hbody; [now replace (ix1 + (skip + 1)) with (ix1 + 1 + skip) by lia|]. intros c Hc. destruct (_ =? 2); exact Hc.
  - (* (?P<name> *)
    assert (B2 : B (ix1 + 2)) by (eapply Hsw; [eassumption|repeat constructor; lia|simpl; lia]).
    destruct (parse_id (from re (ix1 + 2)) [60] [62] false) as [[id skip]|] eqn:E; [|triv].
    destruct (parse_id_bnd (ix1 + 2) [60] [62] false id skip B2 ltac:(repeat constructor; lia) ltac:(repeat constructor; lia) E) as [Hs _].
    apply Hbody; [now replace (ix1 + (skip + 2)) with (ix1 + 2 + skip) by lia|]. intros c Hc. destruct (_ =? 2); exact Hc.
  - (* (?( *) apply I_cond. eapply Hsw; [eassumption|repeat constructor; lia|simpl; lia].
  - (* (?flags *)
    assert (B1 : B (ix1 + 1)) by (eapply Hsw; [eassumption|repeat constructor; lia|simpl; lia]).
    apply I_flags; [exact B1|ble; lia].
  - (* plain group *) apply Hbody; [now rewrite Nat.add_0_r|]. intros c Hc; exact Hc.
Qed.

Lemma stepT_flags : T_flags (S f).
Proof.
  intros st ixq d start ix neg old Hb Hstart. simpl parse_flags. bindI ows_good; auto. rename j into ix1. pose proof (B_le _ Hj).
  destruct (Nat.eqb_spec ix1 (length re)); [triv|]. destruct (byte_lt ix1 ltac:(lia)) as (b & Eb). rewrite Eb. cbv zeta.
  destruct (step ix1 b Hj Eb) as (_ & Hle & _).
  assert (Hunk : good P3ok (if length re <? ix1 + cp_len b then PPanic else PErr start PUnknownFlag))
    by (destruct (Nat.ltb_spec (length re) (ix1 + cp_len b)); [lia|triv]).
  destruct ((b =? 105) || (b =? 109) || (b =? 115) || (b =? 85) || (b =? 120)) eqn:Ef.
  { apply I_flags; [|exact Hstart]. eapply asc1; [exact Eb|].
    repeat (apply orb_true_iff in Ef as [Ef|Ef]); apply Nat.eqb_eq in Ef; lia. }
  destruct (Nat.eqb_spec b 117) as [->|]; [destruct neg; [triv|apply I_flags; [eapply asc1; [exact Eb|lia]|exact Hstart]]|].
  destruct (Nat.eqb_spec b 45) as [->|]; [destruct neg; [exact Hunk|apply I_flags; [eapply asc1; [exact Eb|lia]|exact Hstart]]|].
  destruct (Nat.eqb_spec b 41) as [->|].
  { destruct ((ix1 =? start) || neg && (ix1 =? start + 1)); [exact Hunk|]. cbn [good fst snd]. split; [eapply asc1; [exact Eb|lia]|triv]. }
  destruct (Nat.eqb_spec b 58) as [->|]; [|exact Hunk].
  destruct (neg && (ix1 =? start + 1)); [exact Hunk|].
  bind3 I_re; [eapply asc1; [exact Eb|lia]|]. destruct (j =? length re); [triv|].
  destruct (byte_is re j 41) eqn:E; [|triv]. cbn [negb]. apply byte_is_true in E. cbn [good fst snd]. split; [eapply asc1; [exact E|lia]|auto].
Qed.

Lemma stepT_cond : T_cond (S f).
Proof.
  intros st ix d Hb. simpl parse_conditional. pose proof (B_le _ Hb).
  destruct (Nat.leb_spec (length re) ix); [triv|]. destruct (byte_lt ix ltac:(lia)) as (b & Eb). rewrite Eb.
  eapply (good_bind P3ok).
  { destruct (is_digit b); [apply numbered_backref_good; intros; triv|].
    destruct (b =? 39); [apply named_backref_good; auto; try (repeat constructor; lia); intros; triv|].
    destruct (b =? 60); [apply named_backref_good; auto; try (repeat constructor; lia); intros; triv|].
    now apply I_re. }
  intros [[nx0 condition] st1] [H1 H2]. cbn [fst snd] in *.
  bindI close_paren_good; auto. rename j into nx. bind3 I_re; auto. rename j into e, x into child, s into st2.
  destruct (e =? nx).
  - destruct condition; try triv. bindI close_paren_good; auto. fin.
  - set (inner := match condition with Backref g => BackrefExistsCondition g | _ => condition end).
    assert (Hin : wfe inner) by (unfold inner; destruct condition; auto).
    assert (Hpair : forall a b0, wfe a -> wfe b0 -> good P3ok
              (let '(if_true, if_false) := (a, b0) in
               let! after := check_for_close_paren re (p_flags st2) e in
               POk (after, match if_true, if_false with Empty, Empty => inner | _, _ => Conditional inner if_true if_false end, st2))).
    { intros a b0 Ha Hb0. cbv beta iota. bindI close_paren_good; auto. cbn [good fst snd]. split; auto.
      assert (HC : wfe (Conditional inner a b0)) by (fin).
      destruct a; auto; destruct b0; auto. }
    destruct child; try (match goal with Hx : wfe ?c |- _ => apply (Hpair c Empty Hx I) end; fail).
    rewrite wfe_alt in Hx. apply wfe_forall_of in Hx.
    destruct es as [|a [|b2 [|c3 rest]]].
    + apply (Hpair (Alt []) Empty); triv.
    + inversion Hx; subst. apply (Hpair a (Alt [])); [auto|triv].
    + inversion Hx as [|? ? Ga Hr2]; subst. inversion Hr2; subst. apply (Hpair a b2); auto.
    + inversion Hx as [|? ? Ga Hr2]; subst. apply (Hpair a (Alt (b2 :: c3 :: rest))); [auto|]. rewrite wfe_alt. now apply wfe_of_forall.
Qed.
End StepT.

Lemma parse_all_good : forall f, T_re f /\ T_alt f /\ T_branch f /\ T_piece f /\ T_atom f /\ T_group f /\ T_flags f /\ T_cond f.
Proof.
  induction f as [|f (I1 & I2 & I3 & I4 & I5 & I6 & I7 & I8)].
  - unfold T_re, T_alt, T_branch, T_piece, T_atom, T_group, T_flags, T_cond.
    split; [|split; [|split; [|split; [|split; [|split; [|split]]]]]]; intros; triv.
  - split; [now apply stepT_re|]. split; [now apply stepT_alt|]. split; [now apply stepT_branch|].
    split; [now apply stepT_piece|]. split; [now apply stepT_atom|]. split; [now apply stepT_group|].
    split; [now apply stepT_flags|now apply stepT_cond].
Qed.

Theorem parse_good : good (fun r : expr * pst => wfe (fst r)) (parse re).
Proof.
  unfold parse. eapply (good_bind P3ok); [apply (proj1 (parse_all_good _)); constructor|].
  intros [[ix e] st] [H1 H2]. cbn [fst snd] in *. destruct (ix <? length re); [triv|]. exact H2.
Qed.

End Idx.

(* ---------- the statements, for every pattern that is valid UTF-8 ---------- *)
Theorem parse_never_panics re : valid_text re -> parse re <> PPanic.
Proof. intros (cs & W & ->) H. pose proof (parse_good cs W) as G. rewrite H in G. exact G. Qed.

Theorem parse_wfe re e st : valid_text re -> parse re = POk (e, st) -> wfe e.
Proof. intros (cs & W & ->) H. pose proof (parse_good cs W) as G. rewrite H in G. exact G. Qed.

Theorem parse_error_position re p er : valid_text re -> parse re = PErr p er -> p <= length re.
Proof. intros (cs & W & ->) H. pose proof (parse_good cs W) as G. rewrite H in G. exact G. Qed.
