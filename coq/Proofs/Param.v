(* Param.v — the reference semantics is parametric in the capture vector: if two capture vectors
   are related by a relation that is preserved by equal updates and that fixes the slots of the
   groups the expression reads (backreferences, group-exists conditions), then the result lists
   are related element by element: same offsets, related capture vectors, same length and order.
   Used (a) for delegated blocks, which the VM runs from FRESH capture slots and whose groups it
   copies back, and (b) for the soundness of handing blocks to the automata engine: what follows a
   block cannot tell apart two results that differ only in unreferenced groups. *)
From FR Require Import Base Utf8 Ast Analyze Sem ExprLemmas SemSound.
From Coq Require Import Lia NArith.

Section Param.
Variable cx : ctx.
Variable rho : list val -> list val -> Prop.
Variable writable : nat -> Prop.         (* the slots the expression may write *)
Hypothesis rho_upd : forall A B i x, writable i -> rho A B -> rho (upd A i (V x)) (upd B i (V x)).
Variable kout_ok : Prop.                 (* the expression may contain \K, which writes slot 0 *)
Hypothesis kout_writable : kout_ok -> writable 0.
Variable readable : N -> Prop.
Hypothesis rho_read : forall A B grp, readable grp -> rho A B ->
  getcap A (2 * N.to_nat grp) = getcap B (2 * N.to_nat grp) /\
  getcap A (2 * N.to_nat grp + 1) = getcap B (2 * N.to_nat grp + 1).

Definition srel (a b : sst) : Prop := fst a = fst b /\ rho (snd a) (snd b).
Definition lrel : list sst -> list sst -> Prop := Forall2 srel.

(* every group the expression reads is readable *)
Fixpoint refs_ok (e : expr) : Prop :=
  match e with
  | Backref grp | BackrefExistsCondition grp => readable grp
  | KeepOut => kout_ok
  | Concat es | Alt es => (fix go (l : list expr) : Prop := match l with [] => True | x :: r => refs_ok x /\ go r end) es
  | Group c | LookAround c _ | Repeat c _ _ _ | AtomicGroup c => refs_ok c
  | Conditional c y n => refs_ok c /\ refs_ok y /\ refs_ok n
  | _ => True
  end.
(* every slot the expression writes is writable: its own groups' slots, and slot 0 for \K *)
Definition wrl (g n : nat) : Prop :=
  forall h, g <= h < g + n -> writable (2 * h) /\ writable (2 * h + 1).
Definition wr_ok (g : nat) (e : expr) : Prop := wrl g (ngroups e).
Lemma wrl_sub g n g' n' : wrl g n -> g <= g' -> g' + n' <= g + n -> wrl g' n'.
Proof. intros H H1 H2 h Hh. apply H. lia. Qed.
Fixpoint refs_ok_list (l : list expr) : Prop := match l with [] => True | x :: r => refs_ok x /\ refs_ok_list r end.
Lemma refs_ok_concat es : refs_ok (Concat es) = refs_ok_list es. Proof. induction es; simpl in *; congruence. Qed.
Lemma refs_ok_alt es : refs_ok (Alt es) = refs_ok_list es. Proof. induction es; simpl in *; congruence. Qed.

Lemma lrel_app a b c d : lrel a b -> lrel c d -> lrel (a ++ c) (b ++ d).
Proof. apply Forall2_app. Qed.
Lemma lrel_flat_map (f f' : sst -> list sst) l l' : lrel l l' ->
  (forall a b, srel a b -> lrel (f a) (f' b)) -> lrel (flat_map f l) (flat_map f' l').
Proof. induction 1; intros Hf; cbn [flat_map]; [constructor|]. apply lrel_app; auto. Qed.
Lemma lrel_map (f f' : sst -> sst) l l' : lrel l l' -> (forall a b, srel a b -> srel (f a) (f' b)) ->
  lrel (map f l) (map f' l').
Proof. induction 1 as [|a b l l' Hab Hl IH]; intros Hf; cbn [map]; constructor; auto. apply IH; auto. Qed.
Lemma lrel_firstn n l l' : lrel l l' -> lrel (firstn n l) (firstn n l').
Proof. intros H. revert n. induction H as [|a b l l' Hab Hl IH]; intros [|n]; cbn [firstn]; constructor; auto. apply IH. Qed.
Lemma lrel_one a b : srel a b -> lrel [a] [b]. Proof. intros; constructor; [auto|constructor]. Qed.

(* ---------- repetition ---------- *)
Section Rep.
Variables body body' : sst -> list sst.
Hypothesis Hb : forall a b, srel a b -> lrel (body a) (body' b).

Lemma rep_must_rel : forall n a b, srel a b -> lrel (rep_must body n a) (rep_must body' n b).
Proof.
  induction n as [|n IH]; intros a b H; cbn [rep_must]; [now apply lrel_one|].
  apply lrel_flat_map; auto.
Qed.
Lemma rep_opt_b_rel gr : forall m a b, srel a b -> lrel (rep_opt_b body gr m a) (rep_opt_b body' gr m b).
Proof.
  induction m as [|m IH]; intros a b H; cbn [rep_opt_b]; [now apply lrel_one|].
  assert (Hm : lrel (flat_map (rep_opt_b body gr m) (body a)) (flat_map (rep_opt_b body' gr m) (body' b)))
    by (apply lrel_flat_map; auto).
  destruct gr; [apply lrel_app; auto; now apply lrel_one|constructor; auto].
Qed.
Lemma rep_opt_u_rel gr : forall f a b, srel a b -> lrel (rep_opt_u body gr f a) (rep_opt_u body' gr f b).
Proof.
  induction f as [|f IH]; intros a b H; cbn [rep_opt_u]; [constructor|].
  assert (Hm : lrel (flat_map (fun s' => if fst s' =? fst a then [] else rep_opt_u body gr f s') (body a))
                    (flat_map (fun s' => if fst s' =? fst b then [] else rep_opt_u body' gr f s') (body' b))).
  { apply lrel_flat_map; auto. intros x y Hxy. destruct H as [H1 _]. destruct Hxy as [Hx1 Hx2].
    rewrite Hx1, H1. destruct (fst y =? fst b); [constructor|]. apply IH. split; auto. }
  destruct gr; [apply lrel_app; auto; now apply lrel_one|constructor; auto].
Qed.
End Rep.

(* ---------- look-behind helpers ---------- *)
Definition orel (a b : option sst) : Prop :=
  match a, b with Some x, Some y => srel x y | None, None => True | _, _ => False end.

Lemma first_ending_rel l l' ix : lrel l l' -> orel (first_ending l ix) (first_ending l' ix).
Proof.
  unfold first_ending. induction 1 as [|a b l l' Hab Hl IH]; cbn [find]; [exact I|].
  destruct Hab as [H1 H2]. rewrite H1. destruct (fst b =? ix); [split; auto|exact IH].
Qed.

Lemma first_some_rel (f f' : nat -> option sst) l : (forall j, orel (f j) (f' j)) ->
  orel (first_some f l) (first_some f' l).
Proof.
  intros H. induction l as [|j l IH]; cbn [first_some]; [exact I|].
  specialize (H j). destruct (f j), (f' j); cbn in H; try contradiction; auto.
Qed.

Definition PR (e : expr) : Prop := refs_ok e -> forall fuel g a b, wr_ok g e -> srel a b ->
  lrel (sem cx e fuel g a) (sem cx e fuel g b).

Lemma ngl_cons' x r : ngroups_list (x :: r) = ngroups x + ngroups_list r. Proof. reflexivity. Qed.

Lemma try_alt_rel x : PR x -> refs_ok x -> forall fuel gx ix A B, wr_ok gx x -> rho A B ->
  orel (first_some (fun j => first_ending (sem cx x fuel gx (j, A)) ix) (backs cx ix ix))
       (first_some (fun j => first_ending (sem cx x fuel gx (j, B)) ix) (backs cx ix ix)).
Proof.
  intros Hx Hr fuel gx ix A B Hw HAB. apply first_some_rel. intros j. apply first_ending_rel.
  apply Hx; auto. split; auto.
Qed.

Lemma found_rel fuel ix A B : rho A B -> forall es, Forall PR es -> refs_ok_list es -> forall g,
  wrl g (ngroups_list es) ->
  orel ((fix go (g : nat) (l : list expr) : option sst :=
           match l with [] => None
           | x :: r => match first_some (fun j => first_ending (sem cx x fuel g (j, A)) ix) (backs cx ix ix)
                       with Some s => Some s | None => go (g + ngroups x) r end end) g es)
       ((fix go (g : nat) (l : list expr) : option sst :=
           match l with [] => None
           | x :: r => match first_some (fun j => first_ending (sem cx x fuel g (j, B)) ix) (backs cx ix ix)
                       with Some s => Some s | None => go (g + ngroups x) r end end) g es).
Proof.
  intros HAB es HF. induction HF as [|x r Hx Hr IH]; intros Hok g Hw; [exact I|].
  rewrite ngl_cons' in Hw.
  destruct Hok as [Hox Hor]. pose proof (try_alt_rel x Hx Hox fuel g ix A B (wrl_sub g (ngroups x + ngroups_list r) g (ngroups x) Hw (le_n _) ltac:(lia)) HAB) as Ht.
  destruct (first_some _ (backs cx ix ix)) as [s|], (first_some _ (backs cx ix ix)) as [s'|]; cbn in Ht; try contradiction; auto.
  apply IH; auto. eapply wrl_sub; eauto; lia.
Qed.

Lemma split_rel fuel ix A B : rho A B -> forall es, Forall PR es -> refs_ok_list es -> forall g,
  wrl g (ngroups_list es) ->
  lrel ((fix go (g : nat) (l : list expr) : list sst :=
           match l with [] => []
           | x :: r => match first_some (fun j => first_ending (sem cx x fuel g (j, A)) ix) (backs cx ix ix)
                       with Some s => [(ix, snd s)] | None => [] end ++ go (g + ngroups x) r end) g es)
       ((fix go (g : nat) (l : list expr) : list sst :=
           match l with [] => []
           | x :: r => match first_some (fun j => first_ending (sem cx x fuel g (j, B)) ix) (backs cx ix ix)
                       with Some s => [(ix, snd s)] | None => [] end ++ go (g + ngroups x) r end) g es).
Proof.
  intros HAB es HF. induction HF as [|x r Hx Hr IH]; intros Hok g Hw; [constructor|].
  rewrite ngl_cons' in Hw.
  destruct Hok as [Hox Hor]. pose proof (try_alt_rel x Hx Hox fuel g ix A B (wrl_sub g (ngroups x + ngroups_list r) g (ngroups x) Hw (le_n _) ltac:(lia)) HAB) as Ht.
  apply lrel_app; [|apply IH; auto; eapply wrl_sub; eauto; lia].
  destruct (first_some _ (backs cx ix ix)) as [s|], (first_some _ (backs cx ix ix)) as [s'|]; cbn in Ht; try contradiction.
  - apply lrel_one. split; [reflexivity|apply Ht].
  - constructor.
Qed.

Lemma param_aux : forall e, PR e /\ Forall PR (alts_of e).
Proof.
  induction e using expr_ind'.
  all: try match goal with |- PR ?e /\ Forall PR (alts_of ?e) =>
         match e with
         | Alt _ => idtac
         | _ => assert (H1 : PR e); [|split; [exact H1|constructor; [exact H1|constructor]]] end end.
  - intros _ fuel g [ix A] [jx B] _ [H1 H2]; cbn [fst snd] in *; subst. cbn [sem]. apply lrel_one. split; auto.
  - intros _ fuel g [ix A] [jx B] _ [H1 H2]; cbn [fst snd] in *; subst. cbn [sem].
    destruct (nth_error (c_text cx) jx); [|constructor]. destruct (nl || negb (n =? 10)); [|constructor].
    apply lrel_one. split; auto.
  - intros _ fuel g [ix A] [jx B] _ [H1 H2]; cbn [fst snd] in *; subst. cbn [sem].
    destruct (assert_holds cx a jx); [|constructor]. apply lrel_one. split; auto.
  - intros _ fuel g [ix A] [jx B] _ [H1 H2]; cbn [fst snd] in *; subst. cbn [sem]. destruct c.
    + destruct (lit_ci cx _ jx); [|constructor]. apply lrel_one. split; auto.
    + destruct (lit_at _ jx v); [|constructor]. apply lrel_one. split; auto.
  - (* Concat *)
    assert (Hks : Forall PR es) by (eapply Forall_impl; [|exact H]; intros a Ha; apply Ha).
    intros Hr fuel g a b Hw Hab. rewrite !sem_concat_eq. rewrite refs_ok_concat in Hr.
    unfold wr_ok in Hw. rewrite ngroups_concat in Hw. clear H.
    revert g a b Hw Hab. induction Hks as [|x r Hx Hrr IH]; intros g a b Hw Hab; cbn [sem_cat].
    + now apply lrel_one.
    + destruct Hr as [Hrx Hrl]. rewrite ngl_cons' in Hw.
      apply lrel_flat_map; [apply Hx; auto; eapply wrl_sub; eauto; lia|].
      intros; apply IH; auto. eapply wrl_sub; eauto; lia.
  - (* Alt *)
    assert (Hks : Forall PR es) by (eapply Forall_impl; [|exact H]; intros a Ha; apply Ha).
    split; [|exact Hks].
    intros Hr fuel g a b Hw Hab. rewrite !sem_alt_eq. rewrite refs_ok_alt in Hr.
    unfold wr_ok in Hw. rewrite ngroups_alt in Hw. clear H.
    revert g Hw. induction Hks as [|x r Hx Hrr IH]; intros g Hw; cbn [sem_alts]; [constructor|].
    destruct Hr as [Hrx Hrl]. rewrite ngl_cons' in Hw.
    apply lrel_app; [apply Hx; auto; eapply wrl_sub; eauto; lia|apply IH; auto; eapply wrl_sub; eauto; lia].
  - (* Group *) destruct IHe as [IHe _]. intros Hr fuel g [ix A] [jx B] Hw [H1 H2]; cbn [fst snd] in *; subst. cbn [sem].
    unfold wr_ok in Hw. cbn [ngroups] in Hw. destruct (Hw g ltac:(lia)) as [W1 W2].
    apply lrel_map; [apply IHe; auto; [eapply wrl_sub; eauto; lia|split; cbn; auto]|].
    intros x y [Hx1 Hx2]. split; cbn [fst snd]; auto. rewrite Hx1. auto.
  - (* LookAround *) destruct IHe as [IHe IHalts]. intros Hr fuel g [ix A] [jx B] Hw [H1 H2]; cbn [fst snd] in *; subst.
    cbn [refs_ok] in Hr. unfold wr_ok in Hw. cbn [ngroups] in Hw. destruct la.
    + cbn [sem]. apply lrel_map; [apply lrel_firstn, IHe; auto; split; auto|]. intros x y [_ Hx2]. split; auto.
    + cbn [sem]. assert (Hl : lrel (sem cx e fuel g (jx, A)) (sem cx e fuel g (jx, B))) by (apply IHe; auto; split; auto).
      inversion Hl; [apply lrel_one; split; auto|constructor].
    + cbn [sem].
      assert (Hf : orel (match e with
                         | Alt es => (fix go (g : nat) (l : list expr) : option sst :=
                             match l with [] => None
                             | x :: r => match first_some (fun j => first_ending (sem cx x fuel g (j, A)) jx) (backs cx jx jx)
                                         with Some s => Some s | None => go (g + ngroups x) r end end) g es
                         | _ => first_some (fun j => first_ending (sem cx e fuel g (j, A)) jx) (backs cx jx jx) end)
                        (match e with
                         | Alt es => (fix go (g : nat) (l : list expr) : option sst :=
                             match l with [] => None
                             | x :: r => match first_some (fun j => first_ending (sem cx x fuel g (j, B)) jx) (backs cx jx jx)
                                         with Some s => Some s | None => go (g + ngroups x) r end end) g es
                         | _ => first_some (fun j => first_ending (sem cx e fuel g (j, B)) jx) (backs cx jx jx) end)).
      { destruct e; try (apply try_alt_rel; auto). cbn [alts_of] in IHalts. rewrite refs_ok_alt in Hr.
        rewrite ngroups_alt in Hw. apply found_rel; auto. }
      match type of Hf with orel ?f1 ?f2 => destruct f1 as [s1|], f2 as [s2|] end; cbn in Hf; try contradiction; [|constructor].
      destruct (is_alt e && negb (const_size e)).
      * destruct e; try constructor. cbn [alts_of] in IHalts. rewrite refs_ok_alt in Hr.
        rewrite ngroups_alt in Hw. apply split_rel; auto.
      * apply lrel_one. split; [reflexivity|apply Hf].
    + cbn [sem].
      assert (Hf : orel (match e with
                         | Alt es => (fix go (g : nat) (l : list expr) : option sst :=
                             match l with [] => None
                             | x :: r => match first_some (fun j => first_ending (sem cx x fuel g (j, A)) jx) (backs cx jx jx)
                                         with Some s => Some s | None => go (g + ngroups x) r end end) g es
                         | _ => first_some (fun j => first_ending (sem cx e fuel g (j, A)) jx) (backs cx jx jx) end)
                        (match e with
                         | Alt es => (fix go (g : nat) (l : list expr) : option sst :=
                             match l with [] => None
                             | x :: r => match first_some (fun j => first_ending (sem cx x fuel g (j, B)) jx) (backs cx jx jx)
                                         with Some s => Some s | None => go (g + ngroups x) r end end) g es
                         | _ => first_some (fun j => first_ending (sem cx e fuel g (j, B)) jx) (backs cx jx jx) end)).
      { destruct e; try (apply try_alt_rel; auto). cbn [alts_of] in IHalts. rewrite refs_ok_alt in Hr.
        rewrite ngroups_alt in Hw. apply found_rel; auto. }
      match type of Hf with orel ?f1 ?f2 => destruct f1 as [s1|], f2 as [s2|] end; cbn in Hf; try contradiction; [constructor|].
      apply lrel_one. split; auto.
  - (* Repeat *) destruct IHe as [IHe _]. intros Hr fuel g [ix A] [jx B] Hw Hab. cbn [refs_ok] in Hr. cbn [sem].
    unfold wr_ok in Hw. cbn [ngroups] in Hw.
    assert (Hb : forall a b, srel a b -> lrel (sem cx e fuel g a) (sem cx e fuel g b)) by (intros; apply IHe; auto).
    apply lrel_flat_map; [apply rep_must_rel; auto|]. intros a b Hs. destruct (N.eqb hi usize_max).
    + apply rep_opt_u_rel; auto.
    + apply rep_opt_b_rel; auto.
  - intros _ fuel g [ix A] [jx B] _ [H1 H2]; cbn [fst snd] in *; subst. destruct k; cbn [sem].
    + destruct (decode_at (c_text cx) jx) as [[cp len]|]; [|constructor]. destruct (existsb _ cps); [|constructor].
      apply lrel_one. split; auto.
    + destruct ((jx <=? length (c_text cx)) && only_newlines_from cx jx); [|constructor]. apply lrel_one. split; auto.
  - (* Backref *) intros Hr fuel g0 [ix A] [jx B] _ [H1 H2]; cbn [fst snd] in *; subst. cbn [refs_ok] in Hr. cbn [sem].
    destruct (rho_read A B g Hr H2) as [E1 E2]. rewrite E1, E2.
    destruct (getcap B (2 * N.to_nat g)); [|constructor]. destruct (getcap B (2 * N.to_nat g + 1)); [|constructor].
    destruct ((n <=? n0) && lit_at _ jx _); [|constructor]. apply lrel_one. split; auto.
  - (* AtomicGroup *) destruct IHe as [IHe _]. intros Hr fuel g a b Hw Hab. destruct a as [ix A], b as [jx B]. cbn [sem].
    apply lrel_firstn. apply IHe; auto.
  - intros Hr fuel g [ix A] [jx B] Hw [H1 H2]; cbn [fst snd] in *; subst. cbn [sem]. apply lrel_one. split; cbn; auto.
  - intros _ fuel g [ix A] [jx B] _ [H1 H2]; cbn [fst snd] in *; subst. cbn [sem].
    destruct ((jx =? c_pos cx) && negb (c_skipped cx)); [|constructor]. apply lrel_one. split; auto.
  - intros Hr fuel g0 [ix A] [jx B] _ [H1 H2]; cbn [fst snd] in *; subst. cbn [refs_ok] in Hr. cbn [sem].
    destruct (rho_read A B g Hr H2) as [E1 _]. rewrite E1. destruct (getcap B (2 * N.to_nat g)); [|constructor].
    apply lrel_one. split; auto.
  - (* Conditional *) destruct IHe1 as [IH1 _]. destruct IHe2 as [IH2 _]. destruct IHe3 as [IH3 _].
    intros (Hr1 & Hr2 & Hr3) fuel g a b Hw Hab. destruct a as [ix A], b as [jx B]. cbn [sem].
    unfold wr_ok in Hw. cbn [ngroups] in Hw.
    assert (Hl : lrel (sem cx e1 fuel g (ix, A)) (sem cx e1 fuel g (jx, B))) by (apply IH1; auto; eapply wrl_sub; eauto; lia).
    inversion Hl as [|x y l l' Hxy Hll]; [apply IH3; auto|apply IH2; auto]; eapply wrl_sub; eauto; lia.
  - intros _ fuel g0 [ix A] [jx B] _ _. constructor.
Qed.

Theorem param : forall e, refs_ok e -> forall fuel g a b, wr_ok g e -> srel a b ->
  lrel (sem cx e fuel g a) (sem cx e fuel g b).
Proof. intros e. apply (proj1 (param_aux e)). Qed.

End Param.
