(* ScopeProofs.v — the executable scope test of Model/Scope.v implies the hypotheses of the
   end-to-end theorem; hence a pattern for which [in_scope] computes [true] is covered by it. *)
From FR Require Import Base State Utf8 Utf8Facts Chars Ast Analyze Sem ExprLemmas SemSound Scope Vm Compile
                       Machine Param ArrowA CompileCorrect RunCorrect EndToEnd.
From Coq Require Import Lia NArith.

Lemma wf_charb_ok c : wf_charb c = true -> wf_char c.
Proof.
  destruct c as [|b r]; cbn [wf_charb wf_char]; [discriminate|]. intros H.
  apply andb_true_iff in H as [H H3]. apply andb_true_iff in H as [H1 H2].
  split; [now apply negb_true_iff|]. split; [now apply forallb_forall_iff in H2 || (apply Forall_forall; apply forallb_forall; exact H2)|now apply Nat.eqb_eq].
Qed.

Lemma wfeb_ok : forall e, wfeb e = true -> wfe e.
Proof.
  induction e using expr_ind'; intros Hb; cbn [wfeb] in Hb; try exact I; auto.
  - now apply wf_charb_ok.
  - rewrite wfe_concat. induction H as [|x r Hx Hr IH]; [exact I|].
    apply andb_true_iff in Hb as [H1 H2]. split; auto.
  - rewrite wfe_alt. induction H as [|x r Hx Hr IH]; [exact I|].
    apply andb_true_iff in Hb as [H1 H2]. split; auto.
  - destruct k; cbn [wfe]; now apply N.eqb_eq.
  - apply andb_true_iff in Hb as [Hb H3]. apply andb_true_iff in Hb as [H1 H2]. cbn [wfe]. auto.
Qed.

Lemma zokb_ok : forall e, zokb e = true -> zok e.
Proof.
  induction e using expr_ind'; intros Hb; cbn [zokb] in Hb; try exact I; auto.
  - rewrite zok_concat. induction H as [|x r Hx Hr IH]; [exact I|].
    apply andb_true_iff in Hb as [H1 H2]. split; auto.
  - rewrite zok_alt. induction H as [|x r Hx Hr IH]; [exact I|].
    apply andb_true_iff in Hb as [H1 H2]. split; auto.
  - destruct e; try (apply IHe; exact Hb). destruct k; [apply IHe; exact Hb|exact I].
  - destruct k; [exact I|discriminate].
  - apply andb_true_iff in Hb as [Hb H3]. apply andb_true_iff in Hb as [H1 H2]. cbn [zok]. auto.
Qed.

Lemma rokb_ok : forall e b, rokb b e = true -> rok b e.
Proof.
  induction e using expr_ind'; intros b Hb; cbn [rokb] in Hb; try exact I; auto.
  - rewrite rok_concat. induction H as [|x r Hx Hr IH]; [exact I|].
    apply andb_true_iff in Hb as [H1 H2]. split; auto.
  - rewrite rok_alt. induction H as [|x r Hx Hr IH]; [exact I|].
    apply andb_true_iff in Hb as [H1 H2]. split; auto.
  - cbn [rok]. auto.
  - apply andb_true_iff in Hb as [H1 H2]. cbn [rok]. split; auto.
    intros Hbe. destruct la; try discriminate; cbn [is_behindb negb orb] in H2; now apply zokb_ok.
  - cbn [rok]. auto.
  - cbn [rok]. auto.
  - destruct b; [|discriminate]. apply andb_true_iff in Hb as [Hb H3]. apply andb_true_iff in Hb as [H1 H2].
    cbn [rok]. auto.
Qed.

Lemma okeb_ok lk g e : okeb lk g e = true -> oke lk g e.
Proof.
  unfold okeb, oke. intros H. apply andb_true_iff in H as [H H4]. apply andb_true_iff in H as [H H3].
  apply andb_true_iff in H as [H1 H2]. split; [now apply wfeb_ok|]. split; [now apply zokb_ok|].
  split; [destruct (acheck g e); [discriminate|reflexivity]|now apply rokb_ok].
Qed.

Theorem in_scope_sound bs e : in_scope bs e = true ->
  exists p, compile bs (wrap e) = inr p /\ okdeleg (p_body p) /\ oke true 0 (wrap e).
Proof.
  unfold in_scope. destruct (compile bs (wrap e)) as [er|p]; [discriminate|]. intros H.
  apply andb_true_iff in H as [H1 H2]. exists p. split; [reflexivity|]. split; [exact H1|now apply okeb_ok].
Qed.

(* the end-to-end theorem with its hypotheses replaced by the executable test *)
Theorem vm_agrees_in_scope :
  forall cs : list (list nat), valid_chars cs ->
  forall cx : ctx, c_text cx = concat cs -> (N.of_nat (length (concat cs)) < usize_max)%N ->
  bnd cs (c_pos cx) ->
  forall (bs : N -> bool) (e : expr), in_scope bs e = true ->
  exists p, compile bs (wrap e) = inr p /\
  forall fuel, length (concat cs) < fuel -> forall max_st lim fuelv,
  match fst (vm_run cx p max_st lim fuelv) with
  | RMatch sv => search_list cx e fuel = Some (firstn (2 * S (ngroups e)) sv)
  | RNoMatch => search_list cx e fuel = None
  | RPanic => False
  | _ => True
  end.
Proof.
  intros cs W cx Ht Hl Hp bs e Hs. destruct (in_scope_sound bs e Hs) as (p & Hc & Hd & Ho).
  exists p. split; auto. intros fuel Hf max_st lim fuelv.
  exact (vm_agrees_with_reference cs W cx Ht Hl Hp bs e p Hc Hd Ho fuel Hf max_st lim fuelv).
Qed.

(* ---------- stage 3: every compiled program ---------- *)
Lemma refsb_ok bs : forall e, refsb bs e = true -> refs_ok True (refd bs) e.
Proof.
  induction e using expr_ind'; intros Hb; cbn [refsb] in Hb; try exact I; auto.
  - rewrite refs_ok_concat. induction H as [|x r Hx Hr IH]; [exact I|].
    apply andb_true_iff in Hb as [H1 H2]. split; auto.
  - rewrite refs_ok_alt. induction H as [|x r Hx Hr IH]; [exact I|].
    apply andb_true_iff in Hb as [H1 H2]. split; auto.
  - apply andb_true_iff in Hb as [Hb H3]. apply andb_true_iff in Hb as [H1 H2]. cbn [refs_ok]. auto.
Qed.

Theorem in_scope_all_sound bs e : in_scope_all bs e = true ->
  exists p, compile bs (wrap e) = inr p /\ oke true 0 (wrap e) /\ refs_ok True (refd bs) (wrap e).
Proof.
  unfold in_scope_all. destruct (compile bs (wrap e)) as [er|p]; [discriminate|]. intros H.
  apply andb_true_iff in H as [H1 H2]. exists p. split; [reflexivity|]. split; [now apply okeb_ok|now apply refsb_ok].
Qed.

Theorem vm_agrees_in_scope_all :
  forall cs : list (list nat), valid_chars cs ->
  forall cx : ctx, c_text cx = concat cs -> (N.of_nat (length (concat cs)) < usize_max)%N ->
  bnd cs (c_pos cx) ->
  forall (bs : N -> bool) (e : expr), in_scope_all bs e = true ->
  exists p, compile bs (wrap e) = inr p /\
  forall max_st lim fuelv,
  match fst (vm_run cx p max_st lim fuelv) with
  | RMatch sv => search_list cx e (S (length (c_text cx))) = Some (firstn (2 * S (ngroups e)) sv)
  | RNoMatch => search_list cx e (S (length (c_text cx))) = None
  | RPanic => False
  | _ => True
  end.
Proof.
  intros cs W cx Ht Hl Hp bs e Hs. destruct (in_scope_all_sound bs e Hs) as (p & Hc & Ho & Hr).
  exists p. split; auto. intros max_st lim fuelv.
  exact (vm_agrees_with_reference_all cs W cx Ht Hl Hp bs e p Hc Ho Hr max_st lim fuelv).
Qed.
