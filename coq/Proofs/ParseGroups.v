(* ParseGroups.v — the parser's group counter is the number of capturing groups of the tree it
   returns, for every pattern string: [parse re = POk (e, st) -> p_group st = ngroups e].
   The counter is what relative back-references (\k<-n>) and the name -> index table are computed
   from, and 1 + ngroups e is captures_len (C16). *)
From FR Require Import Base Utf8 Ast Analyze Sem ExprLemmas SemSound Parse ParseInv.
From Coq Require Import Lia NArith.

Section PG.
Variable re : list nat.
Ltac inv H := inversion H; subst; clear H.
Ltac pb H E := match type of H with pbind ?m _ = _ => destruct m eqn:E; try discriminate; cbn [pbind] in H end.

(* result r from state st, with accumulated children ch *)
Definition GR (st : pst) (ch : list expr) (r : P3) : Prop :=
  p_group (snd r) + ngroups_list ch = p_group st + ngroups (snd (fst r)).

Lemma named_backref_gr st ix o c ar mk r : (forall g, ngroups (mk g) = 0) ->
  parse_named_backref re st ix o c ar mk = POk r -> GR st [] r.
Proof.
  intros Hmk H. unfold parse_named_backref in H. repeat match type of H with
    | (if ?c then _ else _) = POk _ => destruct c
    | (match ?c with _ => _ end) = POk _ => destruct c
    end; try discriminate. inv H. unfold GR. cbn. rewrite Hmk. unfold ngroups_list. cbn. lia.
Qed.
Lemma numbered_backref_gr st ix mk r : (forall g, ngroups (mk g) = 0) ->
  parse_numbered_backref re st ix mk = POk r -> GR st [] r.
Proof.
  intros Hmk H. unfold parse_numbered_backref in H. repeat match type of H with
    | (if ?c then _ else _) = POk _ => destruct c
    | (match ?c with _ => _ end) = POk _ => destruct c
    end; try discriminate. inv H. unfold GR. cbn. rewrite Hmk. unfold ngroups_list. cbn. lia.
Qed.

Lemma parse_escape_gr st ix ic r : parse_escape re st ix ic = POk r -> GR st [] r.
Proof.
  intros H. unfold parse_escape in H. destruct (byte re (ix + 1)) as [b|] eqn:Eb; [|discriminate].
  cbv zeta in H.
  repeat match type of H with
  | (if ?c then _ else _) = POk _ => destruct c
  | (match ?c with _ => _ end) = POk _ => destruct c eqn:?
  | pbind ?m _ = POk _ => destruct m eqn:?; cbn [pbind] in H
  end; try discriminate;
  try (inv H; unfold GR, ngroups_list; cbn; lia);
  try (eapply named_backref_gr; [|eassumption]; intros; reflexivity);
  try (eapply numbered_backref_gr; [|eassumption]; intros; reflexivity).
  all: inv H; unfold GR, ngroups_list; cbn [fst snd fold_right map]; match goal with E : parse_hex _ _ _ _ = POk ?p |- _ =>
         unfold parse_hex in E; repeat match type of E with
         | (if ?c then _ else _) = POk _ => destruct c
         | pbind ?m _ = POk _ => destruct m eqn:?; cbn [pbind] in E
         | (let _ := _ in _) = POk _ => cbv zeta in E
         end; try discriminate; inv E; cbn; lia end.
Qed.

Lemma class_loop_group : forall fuel st ix nest cls r, class_loop re fuel st ix nest cls = POk r -> p_group (snd r) = p_group st.
Proof.
  induction fuel as [|f IH]; intros st ix nest cls r H; cbn [class_loop] in H; [discriminate|].
  destruct (ix =? length re); [discriminate|]. destruct (byte re ix) as [b|]; [|discriminate].
  destruct (b =? 92).
  - destruct (parse_escape re st ix true) as [[[e x] st']| | | |] eqn:E; try discriminate. cbn [pbind] in H.
    pose proof (parse_escape_gr _ _ _ _ E) as He. unfold GR, ngroups_list in He. cbn in He.
    destruct x; try discriminate; (rewrite (IH _ _ _ _ _ H); cbn in He; lia).
  - destruct (b =? 91); [eapply IH; eauto|]. destruct (b =? 93).
    + destruct nest as [|[|n]]; [discriminate| |eapply IH; eauto]. inv H. reflexivity.
    + destruct (length re <? ix + cp_len b); [discriminate|]. eapply IH; eauto.
Qed.

Lemma parse_class_gr st ix r : parse_class re st ix = POk r -> GR st [] r.
Proof.
  intros H. unfold parse_class in H. destruct (byte_is re (ix + 1) 94); cbv zeta beta iota in H.
  all: match type of H with context[if ?c then _ else _] => destruct c end; cbv beta iota in H.
  all: match type of H with pbind ?m _ = _ => destruct m as [[[e cls] st']| | | |] eqn:E end; try discriminate; cbn [pbind] in H.
  all: pose proof (class_loop_group _ _ _ _ _ _ E) as Hg; cbn [snd] in Hg; inv H; unfold GR, ngroups_list; cbn; lia.
Qed.

(* ---------- the parser never moves backwards (any byte string) ---------- *)
Lemma skip_comment_mono : forall fuel ix j, skip_comment re fuel ix = POk j -> ix < j.
Proof.
  induction fuel as [|f IH]; intros ix j H; cbn [skip_comment] in H; [discriminate|].
  destruct (length re <=? ix); [discriminate|].
  destruct (byte re ix) as [b|].
  - assert (Hc : (b = 41 /\ j = ix + 1) \/ skip_comment re f (ix + 2) = POk j \/ skip_comment re f (ix + 1) = POk j).
    { do 93 (destruct b as [|b]; [try (right; right; exact H); try (left; inv H; split; reflexivity); try (right; left; exact H)|]).
      right; right; exact H. }
    destruct Hc as [[_ ->]|[Hc|Hc]]; [lia|apply IH in Hc; lia|apply IH in Hc; lia].
  - apply IH in H. lia.
Qed.

Lemma ows_mono : forall fuel fl ix j, optional_whitespace re fuel fl ix = POk j -> ix <= j.
Proof.
  induction fuel as [|f IH]; intros fl ix j H; cbn [optional_whitespace] in H; [discriminate|].
  destruct (ix =? length re); [inv H; lia|]. destruct (byte re ix) as [b|] eqn:Eb; [|discriminate].
  assert (Hlt : ix < length re) by (unfold byte in Eb; apply nth_error_Some; congruence).
  destruct ((b =? 35) && f_space fl).
  { destruct (find_nl (from re ix)) as [x|] eqn:En; [apply IH in H; lia|]. inv H. lia. }
  destruct (_ && f_space fl); [apply IH in H; lia|].
  destruct (_ && _); [|inv H; lia].
  destruct (skip_comment re f (ix + 3)) as [k| | | |] eqn:E; try discriminate. cbn [pbind] in H.
  apply skip_comment_mono in E. apply IH in H. lia.
Qed.

Lemma parse_decimal_mono ix j v : parse_decimal re ix = Some (j, v) -> ix < j.
Proof.
  unfold parse_decimal. destruct (Nat.eqb_spec (digit_run (from re ix)) 0); [discriminate|].
  destruct (N.leb _ _); [|discriminate]. intros H. inv H. lia.
Qed.

Lemma named_backref_mono st ix o c ar mk r : parse_named_backref re st ix o c ar mk = POk r -> ix <= fst (fst r).
Proof.
  intros H. unfold parse_named_backref in H. repeat match type of H with
    | (if ?c then _ else _) = POk _ => destruct c
    | (match ?c with _ => _ end) = POk _ => destruct c
    end; try discriminate. inv H. cbn. lia.
Qed.
Lemma numbered_backref_mono st ix mk r : parse_numbered_backref re st ix mk = POk r -> ix < fst (fst r).
Proof.
  intros H. unfold parse_numbered_backref in H. destruct (parse_decimal re ix) as [[e g]|] eqn:E; [|discriminate].
  destruct (N.ltb _ _); [|discriminate]. inv H. cbn. now apply parse_decimal_mono in E.
Qed.

Lemma hex_braced_mono : forall fuel sh eh ep j, hex_braced re fuel sh eh ep = POk j -> eh <= j.
Proof.
  induction fuel as [|f IH]; intros sh eh ep j H; cbn [hex_braced] in H; [discriminate|].
  destruct (eh =? length re); [discriminate|]. destruct (byte re eh) as [b|]; [|discriminate].
  destruct (_ && (b =? 125)); [inv H; lia|]. destruct (_ && _); [|discriminate]. apply IH in H. lia.
Qed.
Lemma parse_hex_mono fl ix d r : parse_hex re fl ix d = POk r -> ix <= fst r.
Proof.
  intros H. unfold parse_hex in H. destruct (length re <=? ix); [discriminate|].
  destruct (_ && forallb is_hex_digit _).
  - cbv zeta in H. destruct (_ || _); [discriminate|]. inv H. cbn. lia.
  - destruct (byte_is re ix 123); [|discriminate]. destruct (hex_braced _ _ _ _ _) as [eh| | | |] eqn:E; try discriminate.
    cbn [pbind] in H. cbv zeta in H. destruct (_ || _); [discriminate|]. inv H. cbn. apply hex_braced_mono in E. lia.
Qed.
Lemma uniname_end_mono : forall fuel e ep j, uniname_end re fuel e ep = POk j -> e <= j.
Proof.
  induction fuel as [|f IH]; intros e ep j H; cbn [uniname_end] in H; [discriminate|].
  destruct (e =? length re); [discriminate|]. destruct (byte re e) as [b|]; [|discriminate].
  destruct (b =? 125); [inv H; lia|]. apply IH in H. lia.
Qed.

Lemma parse_escape_mono st ix ic r : parse_escape re st ix ic = POk r -> ix < fst (fst r).
Proof.
  intros H. unfold parse_escape in H. destruct (byte re (ix + 1)) as [b|] eqn:Eb; [|discriminate].
  cbv zeta in H.
  repeat match type of H with
  | (if ?c then _ else _) = POk _ => destruct c
  | (match ?c with _ => _ end) = POk _ => destruct c eqn:?
  | pbind ?m _ = POk _ => destruct m eqn:?; cbn [pbind] in H
  end; try discriminate;
  try (inv H; cbn [fst]; lia);
  try (apply named_backref_mono in H; lia);
  try (apply numbered_backref_mono in H; lia).
  all: try (inv H; cbn [fst snd]; match goal with E : parse_hex _ _ _ _ = POk _ |- _ => apply parse_hex_mono in E; lia end).
  all: inv H; cbn [fst]; match goal with
       | E : uniname_end _ _ _ _ = POk _ |- _ => apply uniname_end_mono in E; lia
       | E : POk _ = POk _ |- _ => inv E; lia
       | E : (if ?c then _ else _) = POk _ |- _ =>
           destruct c; [apply uniname_end_mono in E; lia|inv E; lia]
       end.
Qed.

Lemma class_loop_mono : forall fuel st ix nest cls r, class_loop re fuel st ix nest cls = POk r -> ix <= fst (fst r).
Proof.
  induction fuel as [|f IH]; intros st ix nest cls r H; cbn [class_loop] in H; [discriminate|].
  destruct (ix =? length re); [discriminate|]. destruct (byte re ix) as [b|]; [|discriminate].
  destruct (b =? 92).
  - destruct (parse_escape re st ix true) as [[[e x] st']| | | |] eqn:E; try discriminate. cbn [pbind] in H.
    apply parse_escape_mono in E. cbn in E. destruct x; try discriminate; apply IH in H; lia.
  - destruct (b =? 91); [apply IH in H; lia|]. destruct (b =? 93).
    + destruct nest as [|[|n]]; [discriminate|inv H; cbn; lia|apply IH in H; lia].
    + destruct (length re <? ix + cp_len b); [discriminate|]. apply IH in H. lia.
Qed.
Lemma parse_class_mono st ix r : parse_class re st ix = POk r -> ix < fst (fst r).
Proof.
  intros H. unfold parse_class in H. destruct (byte_is re (ix + 1) 94); cbv zeta beta iota in H.
  all: match type of H with context[if ?c then _ else _] => destruct c end; cbv beta iota in H.
  all: match type of H with pbind ?m _ = _ => destruct m as [[[e cls] st']| | | |] eqn:E end; try discriminate; cbn [pbind] in H.
  all: apply class_loop_mono in E; inv H; cbn in *; lia.
Qed.

Lemma close_paren_mono fl ix j : check_for_close_paren re fl ix = POk j -> ix < j.
Proof.
  unfold check_for_close_paren. intros H. pb H E. apply ows_mono in E.
  destruct (a =? length re); [discriminate|]. destruct (negb _); [discriminate|]. inv H. lia.
Qed.

Lemma parse_repeat_mono fl ix r : parse_repeat re fl ix = POk r -> ix < fst (fst r).
Proof.
  unfold parse_repeat. cbv zeta. intros H. pb H E1. apply ows_mono in E1.
  destruct (a =? length re); [discriminate|].
  match type of H with pbind ?m _ = _ => destruct m as [[lo e1]| | | |] eqn:E2 end; try discriminate. cbn [pbind] in H.
  assert (L2 : a <= e1).
  { destruct (byte_is re a 44); [inv E2; lia|]. destruct (parse_decimal re a) as [[nx l]|] eqn:Ed; [|discriminate].
    inv E2. apply parse_decimal_mono in Ed. lia. }
  pb H E3. apply ows_mono in E3. destruct (a0 =? length re); [discriminate|].
  match type of H with pbind ?m _ = _ => destruct m as [[hi e3]| | | |] eqn:E4 end; try discriminate. cbn [pbind] in H.
  assert (L4 : a0 <= e3).
  { destruct (byte_is re a0 125); [inv E4; lia|]. destruct (byte_is re a0 44); [|discriminate].
    pb E4 E5. apply ows_mono in E5. destruct (parse_decimal re a1) as [[nx h]|] eqn:Ed; inv E4; [apply parse_decimal_mono in Ed|]; lia. }
  pb H E6. apply ows_mono in E6. destruct (_ || _); [discriminate|]. inv H. cbn. lia.
Qed.

(* ---------- the mutual induction ---------- *)
Lemma ngl_app a b : ngroups_list (a ++ b) = ngroups_list a + ngroups_list b.
Proof. unfold ngroups_list. induction a as [|x a IH]; cbn [app fold_right]; [reflexivity|rewrite IH; lia]. Qed.
Lemma ngl_push ch child :
  ngroups_list (match child with Empty => ch | _ => ch ++ [child] end) = ngroups_list ch + ngroups child.
Proof. destruct child; rewrite ?ngl_app; unfold ngroups_list; cbn [fold_right ngroups]; lia. Qed.
Lemma finish_ng ch : ngroups (match ch with [] => Empty | [c] => c | _ => Concat ch end) = ngroups_list ch.
Proof. destruct ch as [|c [|c2 r]]; [reflexivity|unfold ngroups_list; cbn; lia|apply ngroups_concat]. Qed.
Lemma parse_id_skip s o c ar id skip : parse_id s o c ar = Some (id, skip) -> length o + 1 + length c <= skip.
Proof.
  unfold parse_id. destruct (starts_with s o); [|discriminate]. cbv zeta.
  match goal with |- match ?x with _ => _ end = _ -> _ => destruct x as [[|l]|] end; try discriminate.
  destruct (_ <=? _); [|discriminate]. intros H. inv H. lia.
Qed.

Notation jx r := (fst (fst r)).
Notation ex r := (snd (fst r)).
Definition S_re f := forall st ix d r, parse_re re f st ix d = POk r ->
  GR st [] r /\ ix <= jx r /\ (jx r = ix -> ngroups (ex r) = 0).
Definition S_alt f := forall st ix d ch r, alt_loop re f st ix d ch = POk r ->
  GR st ch r /\ ix <= jx r /\ (byte_is re ix 124 = true -> ix < jx r).
Definition S_branch f := forall st ix d ch r, parse_branch re f st ix d ch = POk r ->
  GR st ch r /\ ix <= jx r /\ (jx r = ix -> ngroups (ex r) = ngroups_list ch).
Definition S_piece f := forall st ix d r, parse_piece re f st ix d = POk r ->
  GR st [] r /\ ix <= jx r /\ (jx r = ix -> ngroups (ex r) = 0).
Definition S_atom f := forall st ix d r, parse_atom re f st ix d = POk r ->
  GR st [] r /\ ix <= jx r /\ (jx r = ix -> ngroups (ex r) = 0).
Definition S_group f := forall st ix d r, parse_group re f st ix d = POk r -> GR st [] r /\ ix < jx r.
Definition S_flags f := forall st ixq d start ix neg old r, parse_flags re f st ixq d start ix neg old = POk r ->
  GR st [] r /\ ix < jx r.
Definition S_cond f := forall st ix d r, parse_conditional re f st ix d = POk r -> GR st [] r /\ ix < jx r.

Section Step.
Variable f : nat.
Hypothesis I_re : S_re f.
Hypothesis I_alt : S_alt f.
Hypothesis I_branch : S_branch f.
Hypothesis I_piece : S_piece f.
Hypothesis I_atom : S_atom f.
Hypothesis I_group : S_group f.
Hypothesis I_flags : S_flags f.
Hypothesis I_cond : S_cond f.

Ltac gr := unfold GR, ngroups_list in *; cbn [fst snd fold_right ngroups p_group set_flags bump_group add_name] in *.

Lemma step_re : S_re (S f).
Proof.
  intros st ix d r H. simpl parse_re in H.
  pb H E. destruct a as [[ix1 child] st1]. destruct (I_branch _ _ _ _ _ E) as (Hg & Hm & Hz).
  pb H E2. apply ows_mono in E2. destruct (byte_is re a 124) eqn:E124.
  - destruct (I_alt _ _ _ _ _ H) as (Hg2 & Hm2 & Hs2). specialize (Hs2 E124). gr. repeat split; lia.
  - destruct (_ && _); [discriminate|]. inv H. gr. repeat split; first [lia|intros ->; apply Hz; lia].
Qed.

Lemma step_alt : S_alt (S f).
Proof.
  intros st ix d ch r H. simpl alt_loop in H. destruct (byte_is re ix 124) eqn:E124.
  - pb H E. destruct a as [[nx child] st1]. destruct (I_branch _ _ _ _ _ E) as (Hg & Hm & _).
    pb H E2. apply ows_mono in E2. destruct (I_alt _ _ _ _ _ H) as (Hg2 & Hm2 & _).
    unfold GR in *. rewrite ngl_app in Hg2. gr. repeat split; lia.
  - inv H. unfold GR. cbn [fst snd]. rewrite ngroups_alt. repeat split; [lia|discriminate].
Qed.

Lemma step_branch : S_branch (S f).
Proof.
  intros st ix d ch r H. simpl parse_branch in H. destruct (ix <? length re).
  - pb H E. destruct a as [[nx child] st1]. destruct (I_piece _ _ _ _ E) as (Hg & Hm & Hz).
    destruct (Nat.eqb_spec nx ix) as [->|Hne].
    + specialize (Hz eq_refl). assert (Hr : r = (ix, match ch with [] => Empty | [c] => c | _ => Concat ch end, st1))
        by (destruct ch as [|c [|c2 r']]; now inv H).
      subst r. unfold GR in *. cbn [fst snd] in *. rewrite finish_ng.
      change (ngroups_list []) with 0 in Hg. repeat split; lia.
    + destruct (I_branch _ _ _ _ _ H) as (Hg2 & Hm2 & _). unfold GR in *. rewrite ngl_push in Hg2.
      change (ngroups_list []) with 0 in Hg. cbn [fst snd] in *. repeat split; lia.
  - assert (Hr : r = (ix, match ch with [] => Empty | [c] => c | _ => Concat ch end, st))
      by (destruct ch as [|c [|c2 r']]; now inv H).
    subst r. unfold GR. cbn [fst snd]. rewrite finish_ng. repeat split; lia.
Qed.

Lemma step_piece : S_piece (S f).
Proof.
  intros st ix d r H. simpl parse_piece in H.
  pb H E. destruct a as [[ix0 child] st1]. destruct (I_atom _ _ _ _ E) as (Hg & Hm & Hz). cbn [fst snd] in *.
  pb H E2. rename a into ix1. apply ows_mono in E2.
  assert (Hq : forall ixq lo hi r0,
    (if negb (is_repeatable child) then PErr ixq PTargetNotRepeatable else
     let! ix2 := optional_whitespace re (length re + 2) (p_flags st1) (ixq + 1) in
     let '(greedy0, ix3) := if (ix2 <? length re) && byte_is re ix2 63 then (false, ix2 + 1) else (true, ix2) in
     let greedy := xorb greedy0 (f_swap (p_flags st1)) in
     let node := Repeat child lo hi greedy in
     if (ix3 <? length re) && byte_is re ix3 43 then POk (ix3 + 1, AtomicGroup node, st1)
     else POk (ix3, node, st1)) = POk r0 -> GR st [] r0 /\ ixq < jx r0).
  { intros ixq lo hi r0 Hr. destruct (negb (is_repeatable child)); [discriminate|].
    pb Hr E3. apply ows_mono in E3. destruct ((a <? length re) && byte_is re a 63); cbv beta iota zeta in Hr;
      match type of Hr with (if ?c then _ else _) = _ => destruct c end; inv Hr; gr; split; lia. }
  assert (Hplain : GR st [] (ix1, child, st1) /\ ix <= ix1 /\ (ix1 = ix -> ngroups child = 0)).
  { gr. repeat split; first [lia|intros ->; apply Hz; lia]. }
  assert (Hfin : forall ixq r0, ix1 <= ixq -> GR st [] r0 /\ ixq < jx r0 ->
                 GR st [] r0 /\ ix <= jx r0 /\ (jx r0 = ix -> ngroups (ex r0) = 0)).
  { intros ixq r0 Hle [A B']. repeat split; [exact A|lia|lia]. }
  destruct (ix1 <? length re); [|inv H; exact Hplain].
  destruct (byte re ix1) as [b|]; [|discriminate].
  destruct (b =? 63); [eapply (Hfin ix1); [lia|eapply Hq; eauto]|].
  destruct (b =? 42); [eapply (Hfin ix1); [lia|eapply Hq; eauto]|].
  destruct (b =? 43); [eapply (Hfin ix1); [lia|eapply Hq; eauto]|].
  destruct (b =? 123); [|inv H; exact Hplain].
  destruct (parse_repeat re (p_flags st1) ix1) as [[[nx lo] hi]| | | |] eqn:Er; try discriminate; try (inv H; exact Hplain).
  apply parse_repeat_mono in Er. cbn in Er. eapply (Hfin (nx - 1)); [lia|eapply Hq; eauto].
Qed.

Lemma step_atom : S_atom (S f).
Proof.
  intros st ix d r H. simpl parse_atom in H.
  pb H E. rename a into ix1. apply ows_mono in E.
  destruct (ix1 =? length re); [inv H; gr; repeat split; lia|].
  destruct (byte re ix1) as [b|] eqn:Eb; [|discriminate].
  destruct (b =? 46); [inv H; gr; repeat split; lia|].
  destruct (b =? 94); [inv H; gr; repeat split; lia|].
  destruct (b =? 36); [inv H; gr; repeat split; lia|].
  destruct (b =? 40); [destruct (I_group _ _ _ _ H); repeat split; [assumption|lia|lia]|].
  destruct (b =? 92); [pose proof (parse_escape_gr _ _ _ _ H); apply parse_escape_mono in H; repeat split; [assumption|lia|lia]|].
  destruct (_ || _); [inv H; gr; repeat split; lia|].
  destruct (b =? 91); [pose proof (parse_class_gr _ _ _ H); apply parse_class_mono in H; repeat split; [assumption|lia|lia]|].
  destruct (length re <? ix1 + cp_len b) eqn:El; [discriminate|]. inv H. gr. repeat split; lia.
Qed.

Lemma step_group : S_group (S f).
Proof.
  intros st ix d r H. rewrite parse_group_S in H. cbv zeta in H.
  destruct (Consts.MAX_RECURSION <=? d + 1); [discriminate|].
  pb H E. rename a into ix1. apply ows_mono in E.
  assert (Hbody : forall (node : expr -> expr) pos st0 k r0, ix1 <= pos ->
    (forall c, ngroups (node c) = k + ngroups c) -> p_group st0 = k + p_group st ->
    (let! r1 := parse_re re f st0 pos (d + 1) in
     let '(ix2, child, st1) := r1 in
     let! ix3 := check_for_close_paren re (p_flags st1) ix2 in
     POk (ix3, node child, st1)) = POk r0 -> GR st [] r0 /\ ix < jx r0).
  { intros node pos st0 k r0 Hpos Hn Hst Hr. pb Hr E1. destruct a as [[ix2 child] st1].
    destruct (I_re _ _ _ _ E1) as (Hg & Hm & _). pb Hr E2. apply close_paren_mono in E2. inv Hr.
    unfold GR in *. cbn [fst snd] in *. rewrite Hn. unfold ngroups_list in *. cbn [fold_right] in *. split; lia. }
  repeat match type of H with
  | (if ?c then _ else _) = POk _ => destruct c
  end;
  try (split; [eapply named_backref_gr; [|exact H]; intros; reflexivity|apply named_backref_mono in H; lia]);
  try (destruct (I_cond _ _ _ _ H); split; [assumption|lia]);
  try (destruct (I_flags _ _ _ _ _ _ _ _ H); split; [assumption|lia]);
  try match type of H with (match ?c with _ => _ end) = POk _ => destruct c as [[id skip]|] eqn:Eid; [apply parse_id_skip in Eid; cbn [length] in Eid|discriminate] end.
  1-4: refine (Hbody _ _ _ 0 r _ _ _ H); [lia|reflexivity|reflexivity].
  1-2: refine (Hbody _ _ _ 1 r _ _ _ H); [lia|intros c; match goal with |- context[?a =? 2] => destruct (Nat.eqb_spec a 2) end; [lia|reflexivity]|reflexivity].
  - refine (Hbody _ _ _ 0 r _ _ _ H); [lia|reflexivity|reflexivity].
  - refine (Hbody _ _ _ 1 r _ _ _ H); [lia|reflexivity|reflexivity].
Qed.

Lemma step_flags : S_flags (S f).
Proof.
  intros st ixq d start ix neg old r H. simpl parse_flags in H.
  pb H E. rename a into ix1. apply ows_mono in E. destruct (ix1 =? length re); [discriminate|].
  destruct (byte re ix1) as [b|]; [|discriminate]. cbv zeta in H.
  destruct (_ || _).
  { destruct (I_flags _ _ _ _ _ _ _ _ H) as [A B']. gr. split; lia. }
  destruct (b =? 117); [destruct neg; [discriminate|destruct (I_flags _ _ _ _ _ _ _ _ H); split; [assumption|lia]]|].
  destruct (b =? 45).
  { destruct neg; [destruct (length re <? ix1 + cp_len b); discriminate|destruct (I_flags _ _ _ _ _ _ _ _ H); split; [assumption|lia]]. }
  destruct (b =? 41).
  { destruct (_ || _); [destruct (length re <? ix1 + cp_len b); discriminate|]. inv H. gr. split; lia. }
  destruct (b =? 58); [|destruct (length re <? ix1 + cp_len b); discriminate].
  destruct (_ && _); [destruct (length re <? ix1 + cp_len b); discriminate|].
  pb H E1. destruct a as [[ix2 child] st1]. destruct (I_re _ _ _ _ E1) as (Hg & Hm & _). cbn [fst snd] in *.
  destruct (ix2 =? length re); [discriminate|]. destruct (negb (byte_is re ix2 41)); [discriminate|]. inv H.
  gr. split; lia.
Qed.

Lemma step_cond : S_cond (S f).
Proof.
  intros st ix d r H. simpl parse_conditional in H.
  destruct (length re <=? ix); [discriminate|]. destruct (byte re ix) as [b|]; [|discriminate].
  pb H E. destruct a as [[nx0 condition] st1].
  assert (Hc : GR st [] (nx0, condition, st1) /\ ix <= nx0).
  { destruct (is_digit b); [split; [exact (numbered_backref_gr st ix Backref _ (fun g => eq_refl) E)|apply numbered_backref_mono in E; cbn in E; lia]|].
    destruct (b =? 39); [split; [exact (named_backref_gr st ix _ _ _ Backref _ (fun g => eq_refl) E)|apply named_backref_mono in E; exact E]|].
    destruct (b =? 60); [split; [exact (named_backref_gr st ix _ _ _ Backref _ (fun g => eq_refl) E)|apply named_backref_mono in E; exact E]|].
    destruct (I_re _ _ _ _ E) as (A & B' & _). split; assumption. }
  destruct Hc as [Hg1 Hm1].
  pb H E2. rename a into nx. apply close_paren_mono in E2. pb H E3. destruct a as [[e child] st2].
  destruct (I_re _ _ _ _ E3) as (Hg2 & Hm2 & Hz2). cbn [fst snd] in *.
  destruct (Nat.eqb_spec e nx) as [->|Hne].
  - destruct condition; try discriminate. pb H E4. apply close_paren_mono in E4. inv H. specialize (Hz2 eq_refl). gr. split; lia.
  - set (inner := match condition with Backref g => BackrefExistsCondition g | _ => condition end) in *.
    assert (Hin : ngroups inner = ngroups condition) by (unfold inner; destruct condition; reflexivity).
    assert (Hpair : forall a b0, (let '(if_true, if_false) := (a, b0) in
              let! after := check_for_close_paren re (p_flags st2) e in
              POk (after, match if_true, if_false with Empty, Empty => inner | _, _ => Conditional inner if_true if_false end, st2)) = POk r ->
              ngroups a + ngroups b0 = ngroups child -> GR st [] r /\ ix < jx r).
    { intros a b0 Hr Hab. cbv beta iota in Hr. pb Hr E5. apply close_paren_mono in E5. inv Hr.
      assert (HN : ngroups (match a, b0 with Empty, Empty => inner | _, _ => Conditional inner a b0 end)
                   = ngroups inner + ngroups a + ngroups b0).
      { destruct a; try reflexivity; destruct b0; try reflexivity; cbn [ngroups]; lia. }
      unfold GR in *. cbn [fst snd] in *. rewrite HN. unfold ngroups_list in *. cbn [fold_right] in *. split; lia. }
    destruct child;
      try (match type of Hg2 with GR _ _ (_, ?c, _) => apply (Hpair c Empty H); cbn [ngroups]; lia end; fail).
    destruct es as [|a [|b2 [|c3 rest]]].
    + apply (Hpair (Alt []) Empty H). reflexivity.
    + apply (Hpair a (Alt []) H). cbn [ngroups]. lia.
    + apply (Hpair a b2 H). cbn [ngroups]. lia.
    + apply (Hpair a (Alt (b2 :: c3 :: rest)) H). cbn [ngroups]. lia.
Qed.
End Step.

Lemma parse_all : forall f, S_re f /\ S_alt f /\ S_branch f /\ S_piece f /\ S_atom f /\ S_group f /\ S_flags f /\ S_cond f.
Proof.
  induction f as [|f (I1 & I2 & I3 & I4 & I5 & I6 & I7 & I8)].
  - unfold S_re, S_alt, S_branch, S_piece, S_atom, S_group, S_flags, S_cond.
    split; [|split; [|split; [|split; [|split; [|split; [|split]]]]]]; intros; discriminate.
  - split; [now apply step_re|]. split; [now apply step_alt|]. split; [now apply step_branch|].
    split; [now apply step_piece|]. split; [now apply step_atom|]. split; [now apply step_group|].
    split; [now apply step_flags|now apply step_cond].
Qed.

(* the counter after a successful parse is the number of capturing groups of the tree *)
Theorem parse_groups e st : parse re = POk (e, st) -> p_group st = ngroups e.
Proof.
  unfold parse. intros H. destruct (parse_re re (parse_fuel re) pst0 0 0) as [[[ix e0] st0]| | | |] eqn:E; try discriminate.
  cbn [pbind] in H. destruct (ix <? length re); [discriminate|]. inv H.
  destruct (proj1 (parse_all _) _ _ _ _ E) as (Hg & _). unfold GR, ngroups_list in Hg. cbn in Hg. lia.
Qed.

(* ---------- a state invariant closed under the parser's four state updates holds of every result ---------- *)
Section SI.
Variable Inv : pst -> Prop.
Hypothesis Inv_flags : forall s fl, Inv s -> Inv (set_flags s fl).
Hypothesis Inv_backref : forall s g n, Inv s -> Inv (add_backref s g n).
Hypothesis Inv_group : forall s, Inv s -> Inv (bump_group s).
Hypothesis Inv_name : forall s id, Inv s -> Inv (add_name (bump_group s) id).

Lemma named_backref_si st ix o c ar mk r : Inv st -> parse_named_backref re st ix o c ar mk = POk r -> Inv (snd r).
Proof.
  intros Hi H. unfold parse_named_backref in H. repeat match type of H with
    | (if ?c then _ else _) = POk _ => destruct c
    | (match ?c with _ => _ end) = POk _ => destruct c
    end; try discriminate. inv H. cbn. now apply Inv_backref.
Qed.
Lemma numbered_backref_si st ix mk r : Inv st -> parse_numbered_backref re st ix mk = POk r -> Inv (snd r).
Proof.
  intros Hi H. unfold parse_numbered_backref in H. repeat match type of H with
    | (if ?c then _ else _) = POk _ => destruct c
    | (match ?c with _ => _ end) = POk _ => destruct c
    end; try discriminate. inv H. cbn. now apply Inv_backref.
Qed.
Lemma parse_escape_si st ix ic r : Inv st -> parse_escape re st ix ic = POk r -> Inv (snd r).
Proof.
  intros Hi H. unfold parse_escape in H. destruct (byte re (ix + 1)) as [b|] eqn:Eb; [|discriminate].
  cbv zeta in H.
  repeat match type of H with
  | (if ?c then _ else _) = POk _ => destruct c
  | (match ?c with _ => _ end) = POk _ => destruct c eqn:?
  | pbind ?m _ = POk _ => destruct m eqn:?; cbn [pbind] in H
  end; try discriminate;
  try (inv H; exact Hi);
  try (eapply named_backref_si; eassumption);
  try (eapply numbered_backref_si; eassumption).
Qed.
Lemma class_loop_si : forall fuel st ix nest cls r, Inv st -> class_loop re fuel st ix nest cls = POk r -> Inv (snd r).
Proof.
  induction fuel as [|f IH]; intros st ix nest cls r Hi H; cbn [class_loop] in H; [discriminate|].
  destruct (ix =? length re); [discriminate|]. destruct (byte re ix) as [b|]; [|discriminate].
  destruct (b =? 92).
  - destruct (parse_escape re st ix true) as [[[e x] st']| | | |] eqn:E; try discriminate. cbn [pbind] in H.
    apply parse_escape_si in E; [|exact Hi]. cbn in E. destruct x; try discriminate; eapply IH; eauto.
  - destruct (b =? 91); [eapply IH; eauto|]. destruct (b =? 93).
    + destruct nest as [|[|n]]; [discriminate|inv H; exact Hi|eapply IH; eauto].
    + destruct (length re <? ix + cp_len b); [discriminate|]. eapply IH; eauto.
Qed.
Lemma parse_class_si st ix r : Inv st -> parse_class re st ix = POk r -> Inv (snd r).
Proof.
  intros Hi H. unfold parse_class in H. destruct (byte_is re (ix + 1) 94); cbv zeta beta iota in H.
  all: match type of H with context[if ?c then _ else _] => destruct c end; cbv beta iota in H.
  all: match type of H with pbind ?m _ = _ => destruct m as [[[e cls] st']| | | |] eqn:E end; try discriminate; cbn [pbind] in H.
  all: apply class_loop_si in E; [|exact Hi]; inv H; exact E.
Qed.

Definition T_re f := forall st ix d r, Inv st -> parse_re re f st ix d = POk r -> Inv (snd r).
Definition T_alt f := forall st ix d ch r, Inv st -> alt_loop re f st ix d ch = POk r -> Inv (snd r).
Definition T_branch f := forall st ix d ch r, Inv st -> parse_branch re f st ix d ch = POk r -> Inv (snd r).
Definition T_piece f := forall st ix d r, Inv st -> parse_piece re f st ix d = POk r -> Inv (snd r).
Definition T_atom f := forall st ix d r, Inv st -> parse_atom re f st ix d = POk r -> Inv (snd r).
Definition T_group f := forall st ix d r, Inv st -> parse_group re f st ix d = POk r -> Inv (snd r).
Definition T_flags f := forall st ixq d start ix neg old r, Inv st -> parse_flags re f st ixq d start ix neg old = POk r -> Inv (snd r).
Definition T_cond f := forall st ix d r, Inv st -> parse_conditional re f st ix d = POk r -> Inv (snd r).

Lemma si_all : forall f, T_re f /\ T_alt f /\ T_branch f /\ T_piece f /\ T_atom f /\ T_group f /\ T_flags f /\ T_cond f.
Proof.
  induction f as [|f (I_re & I_alt & I_branch & I_piece & I_atom & I_group & I_flags & I_cond)].
  - unfold T_re, T_alt, T_branch, T_piece, T_atom, T_group, T_flags, T_cond.
    split; [|split; [|split; [|split; [|split; [|split; [|split]]]]]]; intros; discriminate.
  - split; [|split; [|split; [|split; [|split; [|split; [|split]]]]]].
    + intros st ix d r Hi H. simpl parse_re in H. pb H E. destruct a as [[ix1 child] st1].
      apply I_branch in E; [|exact Hi]. pb H E2. destruct (byte_is re a 124); [eapply I_alt; eauto|].
      destruct (_ && _); [discriminate|]. inv H. exact E.
    + intros st ix d ch r Hi H. simpl alt_loop in H. destruct (byte_is re ix 124); [|inv H; exact Hi].
      pb H E. destruct a as [[nx child] st1]. apply I_branch in E; [|exact Hi]. pb H E2. eapply I_alt; eauto.
    + intros st ix d ch r Hi H. simpl parse_branch in H. destruct (ix <? length re).
      * pb H E. destruct a as [[nx child] st1]. apply I_piece in E; [|exact Hi]. destruct (nx =? ix).
        -- destruct ch as [|c [|c2 r']]; inv H; exact E.
        -- eapply I_branch; eauto.
      * destruct ch as [|c [|c2 r']]; inv H; exact Hi.
    + intros st ix d r Hi H. simpl parse_piece in H. pb H E. destruct a as [[ix0 child] st1].
      apply I_atom in E; [|exact Hi]. cbn [snd] in E. pb H E2. rename a into ix1.
      assert (Hq : forall ixq lo hi r0,
        (if negb (is_repeatable child) then PErr ixq PTargetNotRepeatable else
         let! ix2 := optional_whitespace re (length re + 2) (p_flags st1) (ixq + 1) in
         let '(greedy0, ix3) := if (ix2 <? length re) && byte_is re ix2 63 then (false, ix2 + 1) else (true, ix2) in
         let greedy := xorb greedy0 (f_swap (p_flags st1)) in
         let node := Repeat child lo hi greedy in
         if (ix3 <? length re) && byte_is re ix3 43 then POk (ix3 + 1, AtomicGroup node, st1)
         else POk (ix3, node, st1)) = POk r0 -> Inv (snd r0)).
      { intros ixq lo hi r0 Hr. destruct (negb (is_repeatable child)); [discriminate|].
        pb Hr E3. destruct ((a <? length re) && byte_is re a 63); cbv beta iota zeta in Hr;
          match type of Hr with (if ?c then _ else _) = _ => destruct c end; inv Hr; exact E. }
      destruct (ix1 <? length re); [|inv H; exact E].
      destruct (byte re ix1) as [b|]; [|discriminate].
      destruct (b =? 63); [eapply Hq; eauto|]. destruct (b =? 42); [eapply Hq; eauto|]. destruct (b =? 43); [eapply Hq; eauto|].
      destruct (b =? 123); [|inv H; exact E].
      destruct (parse_repeat re (p_flags st1) ix1) as [[[nx lo] hi]| | | |]; try discriminate; try (inv H; exact E).
      eapply Hq; eauto.
    + intros st ix d r Hi H. simpl parse_atom in H. pb H E. rename a into ix1.
      destruct (ix1 =? length re); [inv H; exact Hi|].
      destruct (byte re ix1) as [b|] eqn:Eb; [|discriminate].
      destruct (b =? 46); [inv H; exact Hi|]. destruct (b =? 94); [inv H; exact Hi|]. destruct (b =? 36); [inv H; exact Hi|].
      destruct (b =? 40); [eapply I_group; eauto|].
      destruct (b =? 92); [eapply parse_escape_si; eauto|].
      destruct (_ || _); [inv H; exact Hi|].
      destruct (b =? 91); [eapply parse_class_si; eauto|].
      destruct (length re <? ix1 + cp_len b); [discriminate|]. inv H. exact Hi.
    + intros st ix d r Hi H. rewrite parse_group_S in H. cbv zeta in H.
      destruct (Consts.MAX_RECURSION <=? d + 1); [discriminate|]. pb H E. rename a into ix1.
      assert (Hbody : forall (node : expr -> expr) pos st0 r0, Inv st0 ->
        (let! r1 := parse_re re f st0 pos (d + 1) in
         let '(ix2, child, st1) := r1 in
         let! ix3 := check_for_close_paren re (p_flags st1) ix2 in
         POk (ix3, node child, st1)) = POk r0 -> Inv (snd r0)).
      { intros node pos st0 r0 Hst Hr. pb Hr E1. destruct a as [[ix2 child] st1].
        apply I_re in E1; [|exact Hst]. pb Hr E2. inv Hr. exact E1. }
      repeat match type of H with
      | (if ?c then _ else _) = POk _ => destruct c
      end;
      try (eapply named_backref_si; eauto; fail);
      try (eapply I_cond; eauto; fail);
      try (eapply I_flags; eauto; fail);
      try match type of H with (match ?c with _ => _ end) = POk _ => destruct c as [[id skip]|]; [|discriminate] end.
      all: refine (Hbody _ _ _ r _ H); auto.
    + intros st ixq d start ix neg old r Hi H. simpl parse_flags in H.
      pb H E. rename a into ix1. destruct (ix1 =? length re); [discriminate|].
      destruct (byte re ix1) as [b|]; [|discriminate]. cbv zeta in H.
      destruct (_ || _); [eapply I_flags; [|exact H]; now apply Inv_flags|].
      destruct (b =? 117); [destruct neg; [discriminate|eapply I_flags; eauto]|].
      destruct (b =? 45).
      { destruct neg; [destruct (length re <? ix1 + cp_len b); discriminate|eapply I_flags; eauto]. }
      destruct (b =? 41).
      { destruct (_ || _); [destruct (length re <? ix1 + cp_len b); discriminate|]. inv H. exact Hi. }
      destruct (b =? 58); [|destruct (length re <? ix1 + cp_len b); discriminate].
      destruct (_ && _); [destruct (length re <? ix1 + cp_len b); discriminate|].
      pb H E1. destruct a as [[ix2 child] st1]. apply I_re in E1; [|exact Hi].
      destruct (ix2 =? length re); [discriminate|]. destruct (negb (byte_is re ix2 41)); [discriminate|]. inv H.
      cbn. now apply Inv_flags.
    + intros st ix d r Hi H. simpl parse_conditional in H.
      destruct (length re <=? ix); [discriminate|]. destruct (byte re ix) as [b|]; [|discriminate].
      pb H E. destruct a as [[nx0 condition] st1].
      assert (Hc : Inv st1).
      { destruct (is_digit b); [exact (numbered_backref_si _ _ _ _ Hi E)|].
        destruct (b =? 39); [exact (named_backref_si _ _ _ _ _ _ _ Hi E)|].
        destruct (b =? 60); [exact (named_backref_si _ _ _ _ _ _ _ Hi E)|].
        exact (I_re _ _ _ _ Hi E). }
      pb H E2. rename a into nx. pb H E3. destruct a as [[e child] st2]. apply I_re in E3; [|exact Hc]. cbn [snd] in E3.
      destruct (e =? nx).
      * destruct condition; try discriminate. pb H E4. inv H. exact E3.
      * match type of H with (let '(_, _) := ?p in _) = _ => destruct p as [a b0] end.
        pb H E5. inv H. exact E3.
Qed.

Lemma parse_si e st : Inv pst0 -> parse re = POk (e, st) -> Inv st.
Proof.
  unfold parse. intros Hi H. destruct (parse_re re (parse_fuel re) pst0 0 0) as [[[ix e0] st0]| | | |] eqn:E; try discriminate.
  cbn [pbind] in H. destruct (ix <? length re); [discriminate|]. inv H.
  exact (proj1 (si_all _) _ _ _ _ Hi E).
Qed.
End SI.

(* every recorded name points at a capture index of the final tree: 1 <= k <= ngroups e *)
Definition names_ok (st : pst) : Prop := Forall (fun nk => 1 <= snd nk <= p_group st) (p_named st).
Theorem parse_names_in_range e st : parse re = POk (e, st) ->
  Forall (fun nk => 1 <= snd nk <= ngroups e) (p_named st).
Proof.
  intros H. rewrite <- (parse_groups e st H). revert H. apply (parse_si names_ok); unfold names_ok.
  - intros s fl Hs. exact Hs.
  - intros s g n Hs. exact Hs.
  - intros s Hs. cbn. eapply Forall_impl; [|exact Hs]. cbn. intros; lia.
  - intros s id Hs. cbn. constructor; [cbn; lia|]. eapply Forall_impl; [|exact Hs]. cbn. intros; lia.
  - constructor.
Qed.

End PG.
