(* Terminates.v — the VM loop halts.  The small-step machine of Machine.v reaches Halt in
   finitely many steps for every compiled program of a pattern in scope (that is what
   EndToEnd.machine_agreesD establishes: [steps] is an inductive, hence finite, derivation).
   Here that is carried down to the Rust-shaped loop: there is a step budget beyond which
   [vm_run] never reports "out of fuel" - whatever the stack bound and the backtrack limit, it
   returns a match, no match, StackOverflow or BacktrackLimitExceeded.  The model's fuel is the
   only thing that bounds the real loop's iterations, so this is termination of vm::run. *)
From FR Require Import Base State Utf8 Utf8Facts Chars Ast Analyze Sem ExprLemmas SemSound GoBack
                       Vm Compile StateRefine VmRefine Machine Param Atomize CompileCorrect RunCorrect ArrowA EndToEnd.
From Coq Require Import Lia NArith.

Section Halts.
Variable cx : ctx.
Variable p : prog.
Variable M : nat.
Notation P := (p_body p).
Notation steps := (steps cx P M).
Notation mstep := (mstep cx P M).

Definition halts (lim : option N) (n : nat) (c : cfg) : Prop :=
  match c with
  | Run pc ix sl aux K => forall fuel bt st, n <= fuel ->
      fst (grun_loop cx rstate iface1 p lim fuel pc ix (mkr M sl aux K) bt st) <> ROutOfFuel
  | Fail K => forall fuel r bt st, r_alts r = K -> r_max r = M -> n <= fuel ->
      fst (after_fail cx p lim fuel r bt st) <> ROutOfFuel
  | Halt _ => True
  end.

Lemma run_halts lim o : forall c, steps c (Halt o) -> exists n, halts lim n c.
Proof.
  intros c H. remember (Halt o) as h eqn:Eh. induction H as [c|c c' Hs IH]; subst.
  - exists 0. exact I.
  - destruct (IH eq_refl) as [n Hn]. clear IH. exists (S n).
    destruct c as [pc ix sl aux K|K|o0]; cbn [halts]; [| |exact I].
    + intros fuel bt st Hf. destruct fuel as [|f]; [lia|]. assert (Hf' : n <= f) by lia.
      cbn [grun_loop]. cbn [Machine.mstep] in Hn.
      destruct (nth_error P pc) as [i|]; [|cbn; discriminate].
      pose proof (exec1u_max cx i pc ix (mkr M sl aux K)) as Hm.
      destruct (exec1_vs_1u cx i pc ix (mkr M sl aux K)) as [E|E]; rewrite E; [cbn; discriminate|].
      destruct (gexec_insn cx rstate iface1u i pc ix (mkr M sl aux K)) as [pc' ix' r'|r'|sv| |];
        cbn [res_max mkr r_max] in Hm; cbn [halts] in Hn; try (cbn; discriminate).
      * rewrite <- (mkr_eta M r' Hm) at 1. now apply Hn.
      * cbn [iface1 i_count i_pop]. exact (Hn f r' bt _ eq_refl Hm Hf').
    + intros fuel r bt st HK HM Hf. unfold after_fail, r_count. rewrite HK. destruct K as [|a rest]; cbn [length Nat.eqb].
      * cbn. discriminate.
      * destruct (match lim with Some l => N.ltb l (N.succ bt) | None => false end); [cbn; discriminate|].
        unfold r_pop. cbn [rexec]. rewrite HK. cbn [Machine.mstep halts] in Hn.
        specialize (Hn fuel (N.succ bt) (bump_back st) ltac:(lia)). unfold mkr in Hn. rewrite HM. exact Hn.
Qed.
End Halts.

Section VmTerminates.
Variable cs : list (list nat).
Hypothesis W : valid_chars cs.
Variable cx : ctx.
Hypothesis Htext : c_text cx = concat cs.
Hypothesis Hlen : (N.of_nat (length (concat cs)) < usize_max)%N.
Hypothesis Hpos : bnd cs (c_pos cx).
Variable bs : N -> bool.
Variable e : expr.
Variable p : prog.
Hypothesis Hcomp : compile bs (wrap e) = inr p.
Hypothesis Hok : oke true 0 (wrap e).

(* for every stack bound and backtrack limit there is a step budget from which on the loop
   has always returned: a match, no match, StackOverflow or BacktrackLimitExceeded *)
Theorem vm_terminates max_st lim : exists n, forall fuelv, n <= fuelv ->
  match fst (vm_run cx p max_st lim fuelv) with
  | RMatch _ | RNoMatch | RErrStack | RErrLimit => True
  | _ => False
  end.
Proof.
  destruct (machine_agreesD cs W cx Htext Hlen Hpos bs e p Hcomp Hok max_st) as (HnN & o & Hs & Ho).
  assert (Hn2 : 2 <= p_nsaves p) by lia.
  destruct (run_halts cx p max_st lim o _ Hs) as [n Hn]. exists n. intros fuelv Hf.
  cbn [halts] in Hn. specialize (Hn fuelv 0%N stats0 Hf).
  pose proof (loop_follows_machine cx p max_st lim fuelv (p_nsaves p) o Hs) as H1.
  assert (HR : Rel (st_new (p_nsaves p) max_st) (r_new (p_nsaves p) max_st)).
  { split; [split; [apply WF_new|cbn [st_new esp]; exact Hn2]|apply abs_new]. }
  pose proof (run_sim cx p lim fuelv 0 (c_pos cx) _ _ 0%N stats0 HR) as H2.
  unfold vm_run, run_loop.
  change (mkr max_st (repeat MAXV (p_nsaves p)) [] []) with (r_new (p_nsaves p) max_st) in Hn.
  destruct (grun_loop cx rstate iface1 p lim fuelv 0 (c_pos cx) (r_new (p_nsaves p) max_st) 0%N stats0) as [o1 st1].
  destruct (grun_loop cx state iface0 p lim fuelv 0 (c_pos cx) (st_new (p_nsaves p) max_st) 0%N stats0) as [o0 st0].
  cbn [fst] in *. destruct H2 as [H2 _]. destruct H1 as [H1|H1].
  - subst o1. destruct o as [sv| | | | |]; try contradiction; cbn [out_rel] in H2.
    + destruct H2 as (sv0 & k & E0 & _). subst o0. exact I.
    + subst o0. exact I.
  - destruct H1 as [E1|[E1|E1]]; subst o1; cbn [out_rel] in H2; subst o0; try exact I. now apply Hn.
Qed.
End VmTerminates.
