(* StateRefine.v — arrow (C): the copy-on-write state of vm.rs refines the
   whole-state-copy reference machine, operation by operation. *)
From FR Require Import Base State.

(* ---------- undo facts ---------- *)

Lemma undo_length seg : forall sv, length (undo seg sv) = length sv.
Proof. induction seg as [|[s v] r IH]; simpl; intros; auto. rewrite IH, upd_length; auto. Qed.

Lemma undo_app a b sv : undo (a ++ b) sv = undo b (undo a sv).
Proof. revert sv; induction a as [|[s v] a IH]; simpl; auto. Qed.

(* value a slot gets after undo: the LAST (= oldest) entry for it wins *)
Fixpoint oldest (k : nat) (seg : list (nat * val)) : option val :=
  match seg with
  | [] => None
  | (s, v) :: r =>
      match oldest k r with
      | Some w => Some w
      | None => if s =? k then Some v else None
      end
  end.

Lemma nth_undo seg : forall sv k, k < length sv ->
  nth_error (undo seg sv) k =
  match oldest k seg with Some w => Some w | None => nth_error sv k end.
Proof.
  induction seg as [|[s v] r IH]; simpl; intros sv k Hk; auto.
  rewrite IH by (rewrite upd_length; auto). destruct (oldest k r); auto.
  rewrite nth_error_upd. destruct (Nat.eqb_spec s k); simpl; auto. subst.
  destruct (Nat.ltb_spec k (length sv)); auto; lia.
Qed.

Lemma nth_undo_oob seg sv k : length sv <= k -> nth_error (undo seg sv) k = None.
Proof. intros. apply nth_error_None. rewrite undo_length; auto. Qed.

Lemma undo_same_oldest a b sv :
  (forall k, k < length sv -> oldest k a = oldest k b) -> undo a sv = undo b sv.
Proof.
  intros H. apply list_ext. intros j. destruct (Nat.lt_ge_cases j (length sv)).
  - rewrite !nth_undo by auto. now rewrite H.
  - now rewrite !nth_undo_oob.
Qed.

Lemma oldest_in k seg : existsb (fun e => fst e =? k) seg = true -> oldest k seg <> None.
Proof.
  induction seg as [|[s v] r IH]; simpl; [discriminate|]. destruct (Nat.eqb_spec s k); simpl.
  - intros _. destruct (oldest k r); discriminate.
  - intros H. specialize (IH H). destruct (oldest k r); auto.
Qed.

Lemma undo_upd_in seg sv k v :
  existsb (fun e => fst e =? k) seg = true -> undo seg (upd sv k v) = undo seg sv.
Proof.
  intros H. apply list_ext. intros j. destruct (Nat.lt_ge_cases j (length sv)).
  - rewrite !nth_undo by (rewrite ?upd_length; auto).
    destruct (oldest j seg) eqn:E; auto. rewrite nth_error_upd.
    destruct (Nat.eqb_spec k j); simpl; auto. subst.
    apply oldest_in in H. congruence.
  - rewrite !nth_undo_oob; rewrite ?upd_length; auto.
Qed.

Lemma undo_snoc seg : forall sv x,
  Forall (fun e => fst e < length sv) seg -> undo seg (sv ++ [x]) = undo seg sv ++ [x].
Proof.
  induction seg as [|[s v] r IH]; simpl; intros sv x H; auto.
  inversion H as [|? ? H1 H2]; subst; simpl in *.
  rewrite upd_app_l by auto. apply IH. now rewrite upd_length.
Qed.

(* ---------- the snapshot vectors ---------- *)

Definition VS (s : state) := vsnaps (saves s) (old s) (ns s) (stack s).

Lemma vsnaps_length st : forall sv o n, length (vsnaps sv o n st) = length st.
Proof. induction st; simpl; auto. Qed.

Lemma vsnaps_veclen st : forall sv o n,
  Forall (fun x => length (snd x) = length sv) (vsnaps sv o n st).
Proof.
  induction st as [|b r IH]; simpl; intros; constructor.
  - simpl. apply undo_length.
  - specialize (IH (undo (firstn n o) sv) (skipn n o) (b_ns b)).
    rewrite undo_length in IH. exact IH.
Qed.

Lemma Forall_firstn {A} (P : A -> Prop) l n : Forall P l -> Forall P (firstn n l).
Proof. revert n; induction l; intros [|n] H; simpl; auto. inversion H; auto. Qed.
Lemma Forall_skipn {A} (P : A -> Prop) l n : Forall P l -> Forall P (skipn n l).
Proof. revert n; induction l; intros [|n] H; simpl; auto. inversion H; auto. Qed.

Definition snocv (x : val) (e : nat * nat * list val) : nat * nat * list val :=
  let '(pc, ix, sv) := e in (pc, ix, sv ++ [x]).

Lemma vsnaps_snoc st : forall sv o n x,
  Forall (fun e => fst e < length sv) o ->
  vsnaps (sv ++ [x]) o n st = map (snocv x) (vsnaps sv o n st).
Proof.
  induction st as [|b r IH]; simpl; intros sv o n x H; auto.
  rewrite undo_snoc by (apply Forall_firstn; auto). simpl. f_equal.
  apply IH. rewrite undo_length. apply Forall_skipn; auto.
Qed.

Lemma vsnaps_skip d : forall sv o n b0 r,
  let t := seg_total n d in
  skipn (length d) (vsnaps sv o n (d ++ b0 :: r)) =
  (b_pc b0, b_ix b0, undo (firstn t o) sv)
    :: vsnaps (undo (firstn t o) sv) (skipn t o) (b_ns b0) r.
Proof.
  induction d as [|b d IH]; intros sv o n b0 r; cbn [seg_total fold_right app length skipn vsnaps].
  - unfold seg_total; cbn [fold_right]. rewrite Nat.add_0_r. reflexivity.
  - rewrite IH. unfold seg_total. cbn [fold_right].
    set (t' := b_ns b + fold_right (fun b a => b_ns b + a) 0 d).
    rewrite (firstn_add o n t'), undo_app, skipn_add. reflexivity.
Qed.

(* ---------- cut: the merged segment undoes like the whole region ---------- *)

Fixpoint first_of (k : nat) (l : list (nat * val)) : option val :=
  match l with [] => None | (s, v) :: r => if s =? k then Some v else first_of k r end.

Lemma first_of_app k a b :
  first_of k (a ++ b) = match first_of k a with Some v => Some v | None => first_of k b end.
Proof. induction a as [|[s v] a IH]; simpl; auto. destruct (s =? k); auto. Qed.

Lemma oldest_app k a b :
  oldest k (a ++ b) = match oldest k b with Some v => Some v | None => oldest k a end.
Proof.
  induction a as [|[s v] a IH]; simpl. { destruct (oldest k b); auto. }
  rewrite IH. destruct (oldest k b); auto.
Qed.

Lemma oldest_rev k l : oldest k (rev l) = first_of k l.
Proof.
  induction l as [|[s v] l IH]; simpl; auto. rewrite oldest_app; simpl.
  destruct (s =? k); auto.
Qed.

Lemma first_of_none_iff k l : first_of k l = None <-> existsb (Nat.eqb k) (map fst l) = false.
Proof.
  induction l as [|[s v] l IH]; simpl; [tauto|]. rewrite (Nat.eqb_sym k s).
  destruct (s =? k); simpl; [split; discriminate|auto].
Qed.

Lemma first_of_keep_new k : forall l seen,
  first_of k (keep_new seen l) = if existsb (Nat.eqb k) seen then None else first_of k l.
Proof.
  induction l as [|[s v] l IH]; intros seen; simpl. { destruct (existsb _ seen); auto. }
  destruct (existsb (Nat.eqb s) seen) eqn:Es.
  - rewrite IH. destruct (existsb (Nat.eqb k) seen) eqn:Ek; auto.
    destruct (Nat.eqb_spec s k); auto. subst. congruence.
  - simpl. destruct (Nat.eqb_spec s k).
    + subst. rewrite Es. reflexivity.
    + rewrite IH. simpl. destruct (Nat.eqb_spec k s); [congruence|]. simpl. reflexivity.
Qed.

Lemma merged_first k base rest :
  first_of k (base ++ keep_new (map fst base) rest) = first_of k (base ++ rest).
Proof.
  rewrite !first_of_app. destruct (first_of k base) eqn:E; auto.
  rewrite first_of_keep_new. apply first_of_none_iff in E. now rewrite E.
Qed.

Lemma keep_new_incl seen l : incl (keep_new seen l) l.
Proof.
  revert seen; induction l as [|[s v] l IH]; intros seen x; simpl; auto.
  destruct (existsb _ seen); simpl; intros H.
  - right. eapply IH; eauto.
  - destruct H; auto. right. eapply IH; eauto.
Qed.

(* ---------- vector-level refinement of every operation ---------- *)

Lemma VS_push s pc ix s' : st_push s pc ix = Some s' ->
  saves s' = saves s /\ VS s' = (pc, ix, saves s) :: VS s /\ esp s' = esp s /\
  max_stack s' = max_stack s /\ length (stack s) < max_stack s.
Proof.
  unfold st_push. destruct (Nat.ltb_spec (length (stack s)) (max_stack s)); [|discriminate].
  intros H'; inversion H'; subst; unfold VS; simpl. auto.
Qed.

Lemma VS_pop s s' pc ix : st_pop s = Some (s', pc, ix) ->
  VS s = (pc, ix, saves s') :: VS s' /\ esp s' = esp s /\ max_stack s' = max_stack s.
Proof.
  unfold st_pop, VS. destruct (ns s <=? length (old s)); [|discriminate].
  destruct (slots_in _ _); [|discriminate].
  destruct (stack s) as [|b r] eqn:E; [discriminate|].
  intros H; inversion H; subst; simpl. auto.
Qed.

Lemma VS_save s slot v s' : st_save s slot v = Some s' ->
  saves s' = upd (saves s) slot v /\ slot < length (saves s) /\ VS s' = VS s /\
  esp s' = esp s /\ max_stack s' = max_stack s /\ stack s' = stack s.
Proof.
  unfold st_save, VS. destruct (Nat.leb_spec (ns s) (length (old s))) as [Hn|]; [|discriminate].
  destruct (nth_error (saves s) slot) as [cur|] eqn:Ec; [|discriminate].
  assert (Hs : slot < length (saves s)) by (apply nth_error_Some; congruence).
  destruct (existsb _ _) eqn:E; intros H; inversion H; subst; simpl; repeat split; auto.
  - destruct (stack s) as [|b r]; simpl; auto. now rewrite undo_upd_in.
  - destruct (stack s) as [|b r]; simpl; auto.
    rewrite upd_upd, (upd_same _ _ _ Ec). reflexivity.
Qed.

Lemma VS_cut s count s' : st_cut s count = Some s' ->
  saves s' = saves s /\ count <= length (stack s) /\
  VS s' = skipn (length (stack s) - count) (VS s) /\
  esp s' = esp s /\ max_stack s' = max_stack s /\
  stack s' = skipn (length (stack s) - count) (stack s).
Proof.
  unfold st_cut. destruct (Nat.eqb_spec (length (stack s)) count) as [He|Hne].
  { intros H; inversion H; subst. rewrite Nat.sub_diag. simpl. repeat split; auto. }
  destruct (Nat.ltb_spec (length (stack s)) count) as [|Hc]; [discriminate|].
  destruct (Nat.ltb_spec (length (old s)) (seg_total (ns s) (firstn (length (stack s) - count) (stack s))))
    as [|Ht]; [discriminate|].
  intros H; inversion H; subst; clear H. unfold VS; cbn [saves stack old ns esp max_stack].
  repeat split; auto.
  destruct s as [sv st o n e mx]. cbn [saves stack old ns] in *.
  remember (length st - count) as j eqn:Ej.
  remember (firstn j st) as d eqn:Ed.
  remember (seg_total n d) as t eqn:Et.
  assert (Hd : length d = j). { subst d. rewrite firstn_length. apply Nat.min_l. lia. }
  destruct (skipn j st) as [|b0 r] eqn:Er.
  { cbn [vsnaps]. symmetry. apply length_zero_iff_nil. rewrite skipn_length, vsnaps_length.
    assert (H0 : length (skipn j st) = 0) by now rewrite Er. rewrite skipn_length in H0. lia. }
  assert (Hs : st = d ++ b0 :: r) by (rewrite <- Er; subst d; now rewrite firstn_skipn).
  rewrite Hs at 1. rewrite <- Hd, vsnaps_skip, <- Et.
  remember (rev (firstn t o)) as region eqn:Eg.
  remember (firstn (b_ns (last d dummy_branch)) region) as base eqn:Eb.
  remember (skipn (length base) region) as rest eqn:Ers.
  cbn [vsnaps].
  assert (Hu : undo (rev (base ++ keep_new (map fst base) rest)) sv = undo (firstn t o) sv).
  { apply undo_same_oldest. intros k _. rewrite oldest_rev, merged_first.
    subst rest base. rewrite firstn_skipn_len. subst region.
    now rewrite <- oldest_rev, rev_involutive. }
  rewrite <- (rev_length (base ++ _)).
  rewrite firstn_app, firstn_all, Nat.sub_diag, firstn_O, app_nil_r.
  rewrite Hu. f_equal.
  rewrite skipn_app, skipn_all, Nat.sub_diag. reflexivity.
Qed.

(* ---------- well-formedness ---------- *)

Definition ptr_ok (n : nat) (sv : list val) : Prop :=
  length sv = n \/ exists sp, nth_error sv n = Some (V sp) /\ n + 1 <= sp <= length sv.

Record WF (s : state) : Prop := {
  wf_total : seg_total (ns s) (stack s) <= length (old s);
  wf_log : Forall (fun e => fst e < length (saves s)) (old s);
  wf_ptr : ptr_ok (esp s) (saves s);
  wf_snap : Forall (fun x => ptr_ok (esp s) (snd x)) (VS s);
  wf_stack : length (stack s) <= max_stack s
}.

Lemma ptr_ok_len n sv : ptr_ok n sv -> n <= length sv.
Proof. intros [H|(sp & _ & H)]; lia. Qed.

(* ---------- cells and views ---------- *)

Definition cells (l : list val) (m k : nat) : list val := firstn k (skipn m l).

Lemma nth_error_skipn {A} (l : list A) : forall m j, nth_error (skipn m l) j = nth_error l (m + j).
Proof. induction l; intros [|m] j; simpl; auto. destruct j; auto. Qed.

Lemma nth_error_firstn {A} (l : list A) : forall k j,
  nth_error (firstn k l) j = if j <? k then nth_error l j else None.
Proof.
  induction l as [|x l IH]; intros [|k] [|j]; simpl; auto.
  - destruct (S j <? S k); auto.
  - rewrite IH. reflexivity.
Qed.

Lemma nth_cells l m k j :
  nth_error (cells l m k) j = if j <? k then nth_error l (m + j) else None.
Proof. unfold cells. rewrite nth_error_firstn, nth_error_skipn. reflexivity. Qed.

Lemma cells_ext l l' m k :
  (forall j, j < k -> nth_error l (m + j) = nth_error l' (m + j)) -> cells l m k = cells l' m k.
Proof.
  intros H. apply list_ext. intros j. rewrite !nth_cells.
  destruct (Nat.ltb_spec j k); auto.
Qed.

Lemma cells_snoc l m k x : nth_error l (m + k) = Some x -> cells l m (S k) = cells l m k ++ [x].
Proof.
  intros H. apply list_ext. intros j.
  assert (Hlen : length (cells l m k) = k).
  { unfold cells. rewrite firstn_length, skipn_length.
    assert (m + k < length l) by (apply nth_error_Some; congruence). lia. }
  rewrite nth_cells. destruct (Nat.lt_trichotomy j k) as [Hj|[Hj|Hj]].
  - rewrite nth_error_app1 by lia. rewrite nth_cells.
    destruct (Nat.ltb_spec j (S k)); [|lia]. destruct (Nat.ltb_spec j k); [|lia]. reflexivity.
  - subst j. rewrite nth_error_app2 by lia. rewrite Hlen, Nat.sub_diag. simpl.
    destruct (Nat.ltb_spec k (S k)); [|lia]. exact H.
  - rewrite nth_error_app2 by lia. destruct (Nat.ltb_spec j (S k)); [lia|].
    rewrite Hlen. destruct (j - k) as [|[|q]] eqn:E; try lia; reflexivity.
Qed.

Lemma aux_of_cells n sv :
  aux_of n sv = match nth_error sv n with Some (V sp) => cells sv (n + 1) (sp - (n + 1)) | _ => [] end.
Proof. reflexivity. Qed.

Lemma firstn_ext_lt {A} (l l' : list A) n :
  (forall j, j < n -> nth_error l j = nth_error l' j) -> firstn n l = firstn n l'.
Proof.
  intros H. apply list_ext. intros j. rewrite !nth_error_firstn.
  destruct (Nat.ltb_spec j n); auto.
Qed.

(* appending a cell above every pointer is invisible *)
Lemma view_snoc n sv x : ptr_ok n sv -> (length sv = n -> x = V (n + 1)) ->
  firstn n (sv ++ [x]) = firstn n sv /\ aux_of n (sv ++ [x]) = aux_of n sv /\ ptr_ok n (sv ++ [x]).
Proof.
  intros Hp Hx. destruct Hp as [Hl|(sp & Hn & Hs)].
  - specialize (Hx Hl). subst x. split; [|split].
    + rewrite firstn_app. rewrite Hl, Nat.sub_diag. simpl. now rewrite app_nil_r.
    + rewrite !aux_of_cells. rewrite nth_error_app2 by lia. rewrite Hl, Nat.sub_diag. simpl.
      replace (n + 1 - (n + 1)) with 0 by lia.
      assert (nth_error sv n = None) by (apply nth_error_None; lia). rewrite H. reflexivity.
    + right. exists (n + 1). rewrite nth_error_app2 by lia. rewrite Hl, Nat.sub_diag. simpl.
      rewrite app_length; simpl. split; auto. lia.
  - assert (n < length sv) by lia. split; [|split].
    + rewrite firstn_app. replace (n - length sv) with 0 by lia. simpl. now rewrite app_nil_r.
    + rewrite !aux_of_cells. rewrite nth_error_app1 by lia. rewrite Hn.
      apply cells_ext. intros j Hj. rewrite nth_error_app1 by lia. reflexivity.
    + right. exists sp. rewrite nth_error_app1 by lia. rewrite app_length; simpl. split; auto. lia.
Qed.

(* writing a slot below the pointer cell *)
Lemma view_upd_slot n sv k v : k < n -> ptr_ok n sv ->
  firstn n (upd sv k v) = upd (firstn n sv) k v /\ aux_of n (upd sv k v) = aux_of n sv /\
  ptr_ok n (upd sv k v).
Proof.
  intros Hk Hp. split; [apply firstn_upd_lt; auto|]. split.
  - rewrite !aux_of_cells. rewrite nth_error_upd.
    destruct (Nat.eqb_spec k n); [lia|]. simpl.
    destruct (nth_error sv n) as [[sp|]|]; auto.
    apply cells_ext. intros j _. rewrite nth_error_upd.
    destruct (Nat.eqb_spec k (n + 1 + j)); [lia|]. reflexivity.
  - destruct Hp as [Hl|(sp & Hn & Hs)]; [left; now rewrite upd_length|].
    right. exists sp. rewrite nth_error_upd, upd_length.
    destruct (Nat.eqb_spec k n); [lia|]. simpl. auto.
Qed.

(* ---------- WF preservation helpers ---------- *)

Lemma seg_total_app n a b :
  seg_total n (a ++ b) = seg_total n a + fold_right (fun b a => b_ns b + a) 0 b.
Proof. unfold seg_total. induction a; simpl; lia. Qed.

Lemma Forall_impl_len {A} (f : A -> nat) l a b :
  a <= b -> Forall (fun e => f e < a) l -> Forall (fun e => f e < b) l.
Proof. intros H. apply Forall_impl. intros; lia. Qed.

Lemma slots_in_true seg len : Forall (fun e => fst e < len) seg -> slots_in seg len = true.
Proof.
  unfold slots_in. intros H. apply forallb_forall. intros x Hx.
  rewrite Forall_forall in H. apply Nat.ltb_lt. auto.
Qed.

Lemma WF_save s slot v s' : WF s -> st_save s slot v = Some s' ->
  ptr_ok (esp s) (upd (saves s) slot v) -> WF s'.
Proof.
  intros [Ht Hl Hp Hsn Hst] H Hp'.
  destruct (VS_save _ _ _ _ H) as (Hsv & Hsl & Hvs & He & Hm & Hstk).
  assert (Hlog : seg_total (ns s') (stack s') <= length (old s') /\
                 Forall (fun e => fst e < length (saves s)) (old s')).
  { unfold st_save in H. destruct (ns s <=? length (old s)); [|discriminate].
    destruct (nth_error (saves s) slot) as [cur|]; [|discriminate].
    destruct (existsb _ _); inversion H; subst; clear H;
      cbn [saves stack old ns esp max_stack set_saves] in *; split; auto.
    all: try (unfold seg_total in *; simpl; lia).
    all: try (constructor; auto). }
  destruct Hlog as [H1 H2].
  constructor; [exact H1|..]; rewrite ?Hsv, ?He, ?Hm, ?Hstk, ?Hvs, ?upd_length; auto.
Qed.

Lemma WF_snoc s x : WF s -> (length (saves s) = esp s -> x = V (esp s + 1)) ->
  WF (set_saves s (saves s ++ [x])) /\
  VS (set_saves s (saves s ++ [x])) = map (snocv x) (VS s).
Proof.
  intros [Ht Hl Hp Hsn Hst] Hx.
  assert (Hvs : VS (set_saves s (saves s ++ [x])) = map (snocv x) (VS s)).
  { unfold VS; simpl. apply vsnaps_snoc; auto. }
  split; auto. constructor; cbn [saves stack old ns esp max_stack set_saves]; auto.
  - rewrite app_length; simpl. eapply Forall_impl_len; [|exact Hl]. lia.
  - apply view_snoc; auto.
  - rewrite Hvs. apply Forall_forall. intros e He. apply in_map_iff in He.
    destruct He as ([[pc ix] sv] & <- & Hin). simpl.
    rewrite Forall_forall in Hsn. specialize (Hsn _ Hin). simpl in Hsn.
    apply view_snoc; auto. intros Hlen. apply Hx.
    pose proof (vsnaps_veclen (stack s) (saves s) (old s) (ns s)) as Hv.
    rewrite Forall_forall in Hv. specialize (Hv _ Hin). simpl in Hv. unfold VS in *. lia.
Qed.

Lemma mk_alt_snocv n x e : ptr_ok n (snd e) -> (length (snd e) = n -> x = V (n + 1)) ->
  mk_alt n (snocv x e) = mk_alt n e.
Proof.
  destruct e as [[pc ix] sv]. simpl. intros Hp Hx.
  destruct (view_snoc n sv x Hp Hx) as (H1 & H2 & _). now rewrite H1, H2.
Qed.

Lemma alts_snoc s x : WF s -> (length (saves s) = esp s -> x = V (esp s + 1)) ->
  map (mk_alt (esp s)) (map (snocv x) (VS s)) = map (mk_alt (esp s)) (VS s).
Proof.
  intros HW Hx. rewrite map_map. apply map_ext_in. intros e Hin.
  pose proof (wf_snap _ HW) as Hsn. rewrite Forall_forall in Hsn.
  apply mk_alt_snocv; auto. intros Hlen. apply Hx.
  pose proof (vsnaps_veclen (stack s) (saves s) (old s) (ns s)) as Hv.
  rewrite Forall_forall in Hv. specialize (Hv _ Hin). unfold VS in *. lia.
Qed.

(* ---------- simulation: the reference step determines the concrete one ---------- *)

Lemma abs_alts_length s : length (r_alts (abs s)) = length (stack s).
Proof. unfold abs; simpl. now rewrite map_length, vsnaps_length. Qed.

Lemma wf_ns_le s : WF s -> ns s <= length (old s).
Proof. intros H. pose proof (wf_total _ H). unfold seg_total in *. lia. Qed.

Lemma skipn_map' {A B} (f : A -> B) l : forall n, skipn n (map f l) = map f (skipn n l).
Proof. induction l; intros [|n]; simpl; auto. Qed.

Lemma sim_push s pc ix r' x : WF s -> rexec (abs s) (OPush pc ix) = Some (r', x) ->
  exists s', exec s (OPush pc ix) = Some (s', x) /\ abs s' = r' /\ WF s'.
Proof.
  intros HW. cbn [rexec exec]. rewrite abs_alts_length. cbn [r_max abs].
  unfold st_push. destruct (Nat.ltb_spec (length (stack s)) (max_stack s)) as [Hlt|Hge];
    intros H; inversion H; subst; clear H.
  - eexists; split; [reflexivity|]. split.
    + unfold abs; simpl. reflexivity.
    + destruct HW as [Ht Hl Hp Hsn Hst].
      constructor; cbn [saves stack old ns esp max_stack]; auto.
      all: try (unfold seg_total in *; simpl; lia).
      all: try (unfold VS; simpl; constructor; auto).
      all: try (simpl; lia).
  - exists s. auto.
Qed.

Lemma sim_pop s r' x : WF s -> rexec (abs s) OPop = Some (r', x) ->
  exists s', exec s OPop = Some (s', x) /\ abs s' = r' /\ WF s'.
Proof.
  intros HW. cbn [rexec exec]. destruct (r_alts (abs s)) as [|a rest] eqn:Ea; [discriminate|].
  intros H; inversion H; subst; clear H.
  pose proof (wf_ns_le _ HW) as Hns. destruct HW as [Ht Hl Hp Hsn Hst].
  unfold st_pop. destruct (Nat.leb_spec (ns s) (length (old s))); [|lia].
  rewrite slots_in_true by (apply Forall_firstn; auto).
  unfold abs in Ea; cbn [r_alts] in Ea. unfold VS in Hsn.
  destruct (stack s) as [|b r] eqn:Es; [discriminate|].
  cbn [vsnaps map] in Ea. inversion Ea; subst; clear Ea.
  eexists; split; [reflexivity|]. cbn [vsnaps] in Hsn. inversion Hsn as [|? ? Hp1 Hsn']; subst.
  split; [reflexivity|]. constructor; cbn [saves stack old ns esp max_stack]; auto.
  - unfold seg_total in *. simpl in Ht. rewrite skipn_length. lia.
  - rewrite undo_length. apply Forall_skipn; auto.
  - simpl in Hst. lia.
Qed.

Lemma sim_save s sl v r' x : WF s -> rexec (abs s) (OSave sl v) = Some (r', x) ->
  exists s', exec s (OSave sl v) = Some (s', x) /\ abs s' = r' /\ WF s'.
Proof.
  intros HW. cbn [rexec exec]. cbn [abs r_slots].
  destruct (Nat.ltb_spec sl (length (firstn (esp s) (saves s)))) as [Hsl|]; [|discriminate].
  intros H; inversion H; subst; clear H.
  rewrite firstn_length in Hsl.
  destruct (st_save s sl v) as [s'|] eqn:E.
  - destruct (VS_save _ _ _ _ E) as (Hsv & _ & Hvs & He & Hm & _).
    destruct (view_upd_slot (esp s) (saves s) sl v) as (H1 & H2 & H3); [lia|apply HW|].
    exists s'. split; auto. split; [|eapply WF_save; eauto].
    unfold abs. unfold VS in Hvs. rewrite Hvs, Hsv, He, Hm, H1, H2. reflexivity.
  - exfalso. unfold st_save in E. pose proof (wf_ns_le _ HW).
    destruct (Nat.leb_spec (ns s) (length (old s))); [|lia].
    destruct (nth_error (saves s) sl) eqn:En.
    + destruct (existsb _ _); discriminate.
    + apply nth_error_None in En. lia.
Qed.

Lemma sim_get s sl r' x : WF s -> rexec (abs s) (OGet sl) = Some (r', x) ->
  exists s', exec s (OGet sl) = Some (s', x) /\ abs s' = r' /\ WF s'.
Proof.
  intros HW. cbn [rexec exec abs r_slots]. rewrite nth_error_firstn. unfold st_get.
  destruct (sl <? esp s); [|discriminate].
  destruct (nth_error (saves s) sl); [|discriminate].
  intros H; inversion H; subst. exists s. auto.
Qed.

Lemma sim_count s r' x : WF s -> rexec (abs s) OCount = Some (r', x) ->
  exists s', exec s OCount = Some (s', x) /\ abs s' = r' /\ WF s'.
Proof.
  intros HW. cbn [rexec exec]. rewrite abs_alts_length. intros H; inversion H; subst.
  exists s. auto.
Qed.

Lemma WF_cut s c s' : WF s -> st_cut s c = Some s' -> WF s'.
Proof.
  intros HW H. destruct (VS_cut _ _ _ H) as (Hsv & Hc & Hvs & He & Hm & Hstk).
  destruct HW as [Ht Hl Hp Hsn Hst].
  unfold st_cut in H. destruct (Nat.eqb_spec (length (stack s)) c).
  { inversion H; subst. constructor; auto. }
  destruct (length (stack s) <? c); [discriminate|].
  set (m := length (stack s)) in *. set (d := firstn (m - c) (stack s)) in *.
  set (t := seg_total (ns s) d) in *.
  destruct (Nat.ltb_spec (length (old s)) t); [discriminate|].
  set (region := rev (firstn t (old s))) in *.
  set (base := firstn (b_ns (last d dummy_branch)) region) in *.
  set (rest := skipn (length base) region) in *.
  set (merged := base ++ keep_new (map fst base) rest) in *.
  inversion H; subst s'; clear H. cbn [saves stack old ns esp max_stack] in *.
  assert (Hreg : incl region (old s)).
  { intros e Hin. unfold region in Hin. apply in_rev in Hin.
    rewrite <- (firstn_skipn t (old s)).
    apply in_or_app; auto. }
  constructor; cbn [saves stack old ns esp max_stack]; auto.
  - rewrite app_length, rev_length, skipn_length.
    pose proof (seg_total_app (ns s) d (skipn (m - c) (stack s))) as Hsa.
    unfold d in Hsa at 1. rewrite firstn_skipn in Hsa. fold t in Hsa.
    unfold seg_total at 1. lia.
  - apply Forall_forall. intros e Hin. rewrite Forall_forall in Hl. apply Hl.
    apply in_app_or in Hin. destruct Hin as [Hin|Hin].
    + apply in_rev in Hin. unfold merged in Hin. apply in_app_or in Hin.
      apply Hreg. destruct Hin as [Hin|Hin].
      * unfold base in Hin. rewrite <- (firstn_skipn (b_ns (last d dummy_branch)) region).
        apply in_or_app; auto.
      * apply keep_new_incl in Hin. unfold rest in Hin.
        rewrite <- (firstn_skipn (length base) region). apply in_or_app; auto.
    + rewrite <- (firstn_skipn t (old s)). apply in_or_app; auto.
  - rewrite Hvs. apply Forall_skipn; auto.
  - rewrite skipn_length. lia.
Qed.

Lemma sim_cut s c r' x : WF s -> rexec (abs s) (OCut c) = Some (r', x) ->
  exists s', exec s (OCut c) = Some (s', x) /\ abs s' = r' /\ WF s'.
Proof.
  intros HW. cbn [rexec exec]. rewrite abs_alts_length.
  destruct (Nat.ltb_spec (length (stack s)) c) as [|Hc]; [discriminate|].
  intros H; inversion H; subst; clear H.
  destruct (st_cut s c) as [s'|] eqn:E.
  - destruct (VS_cut _ _ _ E) as (Hsv & _ & Hvs & He & Hm & _).
    exists s'. split; auto. split; [|eapply WF_cut; eauto].
    unfold abs. unfold VS in Hvs. rewrite Hvs, Hsv, He, Hm. cbn [r_slots r_aux r_alts r_max].
    rewrite skipn_map'. reflexivity.
  - exfalso. unfold st_cut in E. destruct (length (stack s) =? c); [discriminate|].
    destruct (Nat.ltb_spec (length (stack s)) c); [lia|].
    pose proof (wf_total _ HW) as Ht.
    pose proof (seg_total_app (ns s) (firstn (length (stack s) - c) (stack s))
                  (skipn (length (stack s) - c) (stack s))) as Hsa.
    rewrite firstn_skipn in Hsa.
    destruct (Nat.ltb_spec (length (old s))
               (seg_total (ns s) (firstn (length (stack s) - c) (stack s)))); [lia|discriminate].
Qed.

(* ---------- the auxiliary stack ---------- *)

Lemma st_save_some s sl v : WF s -> sl < length (saves s) -> exists s', st_save s sl v = Some s'.
Proof.
  intros HW Hsl. unfold st_save. pose proof (wf_ns_le _ HW).
  destruct (Nat.leb_spec (ns s) (length (old s))); [|lia].
  destruct (nth_error (saves s) sl) eqn:En.
  - destruct (existsb _ _); eauto.
  - apply nth_error_None in En. lia.
Qed.

Lemma abs_alts_eq s s' : esp s' = esp s -> VS s' = VS s -> r_alts (abs s') = r_alts (abs s).
Proof. intros He Hv. unfold abs; cbn [r_alts]. unfold VS in Hv. now rewrite He, Hv. Qed.

Lemma sim_stack_push s v r' x : WF s -> rexec (abs s) (OStackPush v) = Some (r', x) ->
  exists s', exec s (OStackPush v) = Some (s', x) /\ abs s' = r' /\ WF s'.
Proof.
  intros HW. cbn [rexec exec]. intros H; inversion H; subst; clear H.
  set (n := esp s).
  (* step A: make sure the pointer cell exists *)
  set (s1 := if length (saves s) =? esp s
             then set_saves s (saves s ++ [V (esp s + 1)]) else s).
  assert (HA : WF s1 /\ esp s1 = n /\ max_stack s1 = max_stack s /\
               firstn n (saves s1) = firstn n (saves s) /\
               aux_of n (saves s1) = aux_of n (saves s) /\
               r_alts (abs s1) = r_alts (abs s) /\
               exists sp, nth_error (saves s1) n = Some (V sp) /\ n + 1 <= sp <= length (saves s1)).
  { unfold s1. destruct (Nat.eqb_spec (length (saves s)) (esp s)) as [El|Nl].
    - destruct (WF_snoc s (V (esp s + 1)) HW) as [HW1 Hvs1]; [auto|].
      destruct (view_snoc (esp s) (saves s) (V (esp s + 1)) (wf_ptr _ HW)) as (F1 & F2 & F3); [auto|].
      split; auto. cbn [esp saves set_saves max_stack]. repeat split; auto.
      + unfold abs; cbn [r_alts esp saves set_saves old ns stack]. unfold VS in Hvs1.
        cbn [saves set_saves old ns stack] in Hvs1. rewrite Hvs1. apply alts_snoc; auto.
      + destruct F3 as [F3|F3]; [rewrite app_length in F3; simpl in F3; lia|exact F3].
    - split; [exact HW|]. repeat split; auto. destruct (wf_ptr _ HW) as [F|F]; [contradiction|exact F]. }
  destruct HA as (HW1 & He1 & Hm1 & Hf1 & Ha1 & Hal1 & sp & Hsp & Hr).
  (* step B: write the value into cell sp *)
  assert (HB : exists s2,
      (if length (saves s1) =? sp then Some (set_saves s1 (saves s1 ++ [v])) else st_save s1 sp v)
        = Some s2 /\
      WF s2 /\ esp s2 = n /\ max_stack s2 = max_stack s /\
      r_alts (abs s2) = r_alts (abs s) /\
      nth_error (saves s2) sp = Some v /\ sp < length (saves s2) /\
      (forall j, j < sp -> nth_error (saves s2) j = nth_error (saves s1) j)).
  { destruct (Nat.eqb_spec (length (saves s1)) sp) as [El|Nl].
    - eexists; split; [reflexivity|].
      destruct (WF_snoc s1 v HW1) as [HW2 Hvs2]; [lia|].
      split; auto. cbn [esp saves set_saves max_stack]. repeat split; auto.
      + rewrite <- Hal1. unfold abs; cbn [r_alts esp saves set_saves old ns stack].
        unfold VS in Hvs2. cbn [saves set_saves old ns stack] in Hvs2. rewrite Hvs2.
        apply alts_snoc; auto. lia.
      + rewrite nth_error_app2 by lia. rewrite El, Nat.sub_diag. reflexivity.
      + rewrite app_length; simpl. lia.
      + intros j Hj. rewrite nth_error_app1 by lia. reflexivity.
    - destruct (st_save_some s1 sp v HW1) as [s2 E2]; [lia|].
      exists s2. split; auto.
      destruct (VS_save _ _ _ _ E2) as (Hsv & Hsl & Hvs & He & Hm & _).
      assert (Hp2 : ptr_ok (esp s1) (upd (saves s1) sp v)).
      { right. exists sp. rewrite nth_error_upd, upd_length.
        destruct (Nat.eqb_spec sp (esp s1)); [lia|]. simpl. rewrite He1. auto. }
      split; [eapply WF_save; eauto|]. repeat split; try congruence.
      + rewrite <- Hal1. apply abs_alts_eq; auto.
      + rewrite Hsv, nth_error_upd. rewrite Nat.eqb_refl.
        destruct (Nat.ltb_spec sp (length (saves s1))); [reflexivity|lia].
      + rewrite Hsv, upd_length. lia.
      + intros j Hj. rewrite Hsv, nth_error_upd.
        destruct (Nat.eqb_spec sp j); [lia|]. reflexivity. }
  destruct HB as (s2 & E2 & HW2 & He2 & Hm2 & Hal2 & Hv2 & Hl2 & Hlow2).
  (* step C: bump the pointer *)
  destruct (st_save_some s2 n (V (sp + 1)) HW2) as [s3 E3]; [lia|].
  destruct (VS_save _ _ _ _ E3) as (Hsv & Hsl & Hvs & He & Hm & _).
  exists s3. split.
  { unfold st_stack_push. fold s1. fold n. rewrite Hsp, E2, E3. reflexivity. }
  assert (Hp3 : ptr_ok (esp s2) (upd (saves s2) n (V (sp + 1)))).
  { right. exists (sp + 1). rewrite nth_error_upd, upd_length, He2, Nat.eqb_refl.
    destruct (Nat.ltb_spec n (length (saves s2))); [|lia]. simpl. split; auto. lia. }
  split; [|eapply WF_save; eauto].
  assert (Hal3 : r_alts (abs s3) = r_alts (abs s)).
  { rewrite (abs_alts_eq s2 s3) by congruence. exact Hal2. }
  assert (He3 : esp s3 = n) by congruence.
  unfold abs in Hal3 |- *. cbn [r_alts] in Hal3. rewrite Hal3, He3. fold n. f_equal; [| |congruence].
  - rewrite Hsv, firstn_upd_ge by lia. rewrite <- Hf1.
    apply firstn_ext_lt. intros j Hj. apply Hlow2. lia.
  - rewrite <- Ha1. rewrite !aux_of_cells. rewrite Hsp, Hsv, nth_error_upd, Nat.eqb_refl.
    destruct (Nat.ltb_spec n (length (saves s2))); [|lia]. simpl.
    replace (sp + 1 - (n + 1)) with (S (sp - (n + 1))) by lia.
    rewrite (cells_snoc _ _ _ v).
    + f_equal. apply cells_ext. intros j Hj. rewrite nth_error_upd.
      destruct (Nat.eqb_spec n (n + 1 + j)); [lia|]. simpl. apply Hlow2. lia.
    + rewrite nth_error_upd. destruct (Nat.eqb_spec n (n + 1 + (sp - (n + 1)))); [lia|]. simpl.
      replace (n + 1 + (sp - (n + 1))) with sp by lia. exact Hv2.
Qed.

Lemma cells_length l m k : m + k <= length l -> length (cells l m k) = k.
Proof. intros H. unfold cells. rewrite firstn_length, skipn_length. lia. Qed.

Lemma sim_stack_pop s r' x : WF s -> rexec (abs s) OStackPop = Some (r', x) ->
  exists s', exec s OStackPop = Some (s', x) /\ abs s' = r' /\ WF s'.
Proof.
  intros HW. cbn [rexec exec]. cbn [abs r_aux].
  destruct (rev (aux_of (esp s) (saves s))) as [|v rest] eqn:Er; [discriminate|].
  intros H; inversion H; subst; clear H.
  set (n := esp s) in *.
  assert (Haux : aux_of n (saves s) = rev rest ++ [v]).
  { rewrite <- (rev_involutive (aux_of n (saves s))), Er. reflexivity. }
  rewrite aux_of_cells in Haux.
  destruct (wf_ptr _ HW) as [Hlen|(sp & Hsp & Hr)].
  { assert (nth_error (saves s) n = None) by (apply nth_error_None; fold n in Hlen; lia).
    rewrite H in Haux. destruct (rev rest); discriminate. }
  fold n in Hsp, Hr. rewrite Hsp in Haux.
  assert (Hk : sp - (n + 1) = S (length rest)).
  { apply (f_equal (@length val)) in Haux. rewrite cells_length in Haux by lia.
    rewrite app_length, rev_length in Haux. simpl in Haux. lia. }
  destruct sp as [|sp']; [lia|].
  assert (Hcell : exists r, nth_error (saves s) sp' = Some r).
  { destruct (nth_error (saves s) sp') eqn:E; eauto. apply nth_error_None in E. lia. }
  destruct Hcell as [r Hr'].
  assert (Hsplit : cells (saves s) (n + 1) (S sp' - (n + 1)) =
                   cells (saves s) (n + 1) (sp' - (n + 1)) ++ [r]).
  { replace (S sp' - (n + 1)) with (S (sp' - (n + 1))) by lia. apply cells_snoc.
    replace (n + 1 + (sp' - (n + 1))) with sp' by lia. exact Hr'. }
  rewrite Hsplit in Haux. apply app_inj_tail in Haux. destruct Haux as [Hc Hv]. subst r.
  destruct (st_save_some s n (V sp') HW) as [s' E]; [lia|].
  destruct (VS_save _ _ _ _ E) as (Hsv & Hsl & Hvs & He & Hm & _).
  exists s'. split.
  { unfold st_stack_pop. fold n. rewrite Hsp, Hr', E. reflexivity. }
  assert (Hp' : ptr_ok (esp s) (upd (saves s) n (V sp'))).
  { right. exists sp'. fold n. rewrite nth_error_upd, upd_length, Nat.eqb_refl.
    destruct (Nat.ltb_spec n (length (saves s))); [|lia]. simpl. split; auto. lia. }
  split; [|eapply WF_save; eauto].
  assert (Hal : r_alts (abs s') = r_alts (abs s)) by (apply abs_alts_eq; auto).
  assert (He' : esp s' = n) by exact He.
  unfold abs in Hal |- *. cbn [r_alts] in Hal. rewrite Hal, He', Hm. fold n. f_equal.
  - rewrite Hsv, firstn_upd_ge by lia. reflexivity.
  - rewrite aux_of_cells, Hsv, nth_error_upd, Nat.eqb_refl.
    destruct (Nat.ltb_spec n (length (saves s))); [|lia]. simpl.
    rewrite <- Hc. apply cells_ext. intros j Hj. rewrite nth_error_upd.
    destruct (Nat.eqb_spec n (n + 1 + j)); [lia|]. reflexivity.
Qed.

(* ---------- the per-operation theorem and its lift to every history ---------- *)

Theorem sim_step s o r' x : WF s -> rexec (abs s) o = Some (r', x) ->
  exists s', exec s o = Some (s', x) /\ abs s' = r' /\ WF s'.
Proof.
  destruct o.
  - apply sim_push.
  - apply sim_pop.
  - apply sim_save.
  - apply sim_get.
  - apply sim_stack_push.
  - apply sim_stack_pop.
  - apply sim_count.
  - apply sim_cut.
Qed.

Theorem sim_all ops : forall s r' xs, WF s -> rexec_all (abs s) ops = Some (r', xs) ->
  exists s', exec_all s ops = Some (s', xs) /\ abs s' = r' /\ WF s'.
Proof.
  induction ops as [|o ops IH]; intros s r' xs HW H; cbn [rexec_all exec_all] in *.
  - inversion H; subst. exists s. auto.
  - destruct (rexec (abs s) o) as [[r1 x]|] eqn:E; [|discriminate].
    destruct (sim_step _ _ _ _ HW E) as (s1 & E1 & Ha & HW1). rewrite E1. subst r1.
    destruct (rexec_all (abs s1) ops) as [[r2 xs']|] eqn:E2; [|discriminate].
    inversion H; subst; clear H.
    destruct (IH _ _ _ HW1 E2) as (s2 & E3 & Ha2 & HW2). rewrite E3. exists s2. auto.
Qed.

Lemma WF_new n m : WF (st_new n m).
Proof.
  constructor; cbn [st_new saves stack old ns esp max_stack].
  - unfold seg_total; simpl. lia.
  - constructor.
  - left. apply repeat_length.
  - unfold VS; simpl. constructor.
  - simpl. lia.
Qed.

Lemma abs_new n m : abs (st_new n m) = r_new n m.
Proof.
  unfold abs, st_new, r_new; simpl. f_equal.
  - rewrite firstn_all2; auto. rewrite repeat_length; auto.
  - rewrite aux_of_cells.
    assert (nth_error (repeat MAXV n) n = None) by (apply nth_error_None; rewrite repeat_length; lia).
    now rewrite H.
Qed.
