(* ApiVm.v — the API layer over the COMPILED search.  ApiProofs.v proves the iterator / split /
   replacement theorems over any search function satisfying SearchOK; here the search function is
   the VM run on a compiled program ([regex_search] on [RFancy]), and SearchOK is discharged from
   the end-to-end theorem (EndToEnd.v) and the match-start theorem (KeepOut.v):
     - the iterators only ever search from character boundaries ([bst]), where the compiled
       search satisfies the SearchOK clauses, so every API function computes exactly what it
       computes over the boundary-guarded search, to which the ApiProofs theorems apply;
     - find_iter over the compiled search yields the spans of the reference iteration. *)
From FR Require Import Base State Utf8 Utf8Facts Chars Ast Analyze Sem ExprLemmas SemSound Vm Compile
                       Machine Param ArrowA CompileCorrect RunCorrect EndToEnd KeepOut Api ApiProofs.
From Coq Require Import Lia NArith.

(* ---------- two searches that agree on character boundaries ---------- *)
Section Agree.
Variable cs : list (list nat).
Hypothesis W : valid_chars cs.
Let tx := concat cs.
Variables s1 s2 : nat -> bool -> sres.
Hypothesis Heq : forall p f, bnd cs p -> s1 p f = s2 p f.
Hypothesis HOK2 : SearchOK tx s2.

(* the iterator's position is a boundary, or past the end (exhausted) *)
Definition bst (st : mstate) : Prop := bnd cs (last_end st) \/ length tx < last_end st.

Lemma bst_init : bst m_init. Proof. left. constructor. Qed.

Lemma bst_next b : bnd cs b -> b <= length tx -> bnd cs (next_utf8 tx b) \/ length tx < next_utf8 tx b.
Proof.
  intros Hb Hle. destruct (Nat.eq_dec b (length tx)) as [->|Hne].
  - right. apply next_utf8_gt.
  - left. apply next_utf8_bnd; auto. unfold tx in *. lia.
Qed.

Lemma mn_agree : forall fuel st, bst st ->
  matches_next tx s1 fuel st = matches_next tx s2 fuel st /\ bst (snd (matches_next tx s2 fuel st)).
Proof.
  induction fuel as [|f IH]; intros st Hst; cbn [matches_next].
  all: destruct (Nat.ltb_spec (length tx) (last_end st)) as [Hgt|Hle]; [split; [reflexivity|exact Hst]|].
  all: assert (Hb : bnd cs (last_end st)) by (destruct Hst as [Hb|Hb]; [exact Hb|lia]).
  all: rewrite (Heq _ _ Hb).
  all: destruct (s2 (last_end st) _) as [e| |sv] eqn:E; cbn [snd];
    [split; [reflexivity|right; cbn [last_end]; lia]|split; [reflexivity|exact Hst]|].
  all: destruct (HOK2 _ _ _ Hle E) as (a & b & Hs & H1 & H2 & H3 & Hb1 & Hb2); rewrite Hs.
  all: assert (Bb : bnd cs b) by (apply is_boundary_bnd; auto).
  all: pose proof (bst_next b Bb H3) as Hn.
  all: destruct (a =? b); [|split; [reflexivity|left; exact Bb]].
  all: destruct (match last_match st with Some lm => lm =? b | None => false end);
    [|split; [reflexivity|exact Hn]].
  - split; [reflexivity|exact Hst].
  - apply IH. exact Hn.
Qed.

Lemma mnext_agree st : bst st -> mnext tx s1 st = mnext tx s2 st /\ bst (snd (mnext tx s2 st)).
Proof. intros H. unfold mnext. apply mn_agree; auto. Qed.

Lemma collect_agree : forall n st, bst st -> collect tx s1 n st = collect tx s2 n st.
Proof.
  induction n as [|n IH]; intros st Hst; [reflexivity|]. cbn [collect].
  destruct (mnext_agree st Hst) as [E Hb]. rewrite E. destruct (mnext tx s2 st) as [[it|] st']; auto.
  f_equal. apply IH. exact Hb.
Qed.

Lemma ccollect_agree n st : bst st -> ccollect tx s1 n st = ccollect tx s2 n st.
Proof. intros. rewrite !ccollect_eq. now apply collect_agree. Qed.

Lemma split_next_agree st : bst (sp_m st) ->
  split_next tx s1 st = split_next tx s2 st /\ bst (sp_m (snd (split_next tx s2 st))).
Proof.
  intros Hst. unfold split_next. destruct (mnext_agree _ Hst) as [E Hb]. rewrite E.
  destruct (mnext tx s2 (sp_m st)) as [[[e|a b sv]|] m']; cbn [snd] in *.
  - split; auto.
  - split; auto.
  - destruct (length tx <? sp_next st); split; auto.
Qed.

Lemma split_collect_agree : forall n st, bst (sp_m st) -> split_collect tx s1 n st = split_collect tx s2 n st.
Proof.
  induction n as [|n IH]; intros st Hst; [reflexivity|]. cbn [split_collect].
  destruct (split_next_agree st Hst) as [E Hb]. rewrite E. destruct (split_next tx s2 st) as [[pc|] st']; auto.
  f_equal. apply IH. exact Hb.
Qed.

Lemma splitn_next_agree st : bst (sp_m (sn_s st)) ->
  splitn_next tx s1 st = splitn_next tx s2 st /\ bst (sp_m (sn_s (snd (splitn_next tx s2 st)))).
Proof.
  intros Hst. unfold splitn_next. destruct (sn_limit st) as [|l]; [split; auto|].
  destruct (0 <? l).
  - destruct (split_next_agree _ Hst) as [E Hb]. rewrite E. destruct (split_next tx s2 (sn_s st)) as [pc s']. split; auto.
  - destruct (length tx <? sp_next (sn_s st)); split; auto.
Qed.

Lemma splitn_collect_agree : forall n st, bst (sp_m (sn_s st)) -> splitn_collect tx s1 n st = splitn_collect tx s2 n st.
Proof.
  induction n as [|n IH]; intros st Hst; [reflexivity|]. cbn [splitn_collect].
  destruct (splitn_next_agree st Hst) as [E Hb]. rewrite E. destruct (splitn_next tx s2 st) as [[pc|] st']; auto.
  f_equal. apply IH. exact Hb.
Qed.

Lemma replace_loop_agree rep limit : forall fuel i cur st last acc, bst st ->
  replace_loop tx rep (mnext tx s1) fuel limit i cur st last acc =
  replace_loop tx rep (mnext tx s2) fuel limit i cur st last acc.
Proof.
  induction fuel as [|f IH]; intros i cur st last acc Hst; cbn [replace_loop]; [reflexivity|].
  destruct cur as [[e|a b sv]|]; auto. destruct ((0 <? limit) && (limit <=? i)); auto.
  destruct (seg tx last a); auto. destruct (mnext_agree st Hst) as [E Hb]. rewrite E.
  destruct (mnext tx s2 st) as [it st']. apply IH. exact Hb.
Qed.

Lemma try_replacen_agree rep limit :
  try_replacen tx rep (mnext tx s1) limit = try_replacen tx rep (mnext tx s2) limit.
Proof.
  unfold try_replacen. destruct (mnext_agree m_init bst_init) as [E Hb]. rewrite E.
  destruct (mnext tx s2 m_init) as [[it|] st]; auto. apply replace_loop_agree. exact Hb.
Qed.

End Agree.

(* ---------- the compiled search ---------- *)
Lemma in_firstn {A} (x : A) : forall n l, In x (firstn n l) -> In x l.
Proof. induction n as [|n IH]; intros [|y l] H; cbn in *; try tauto. destruct H; auto. Qed.

Lemma firstn_two {A} n (l : list A) x y r : firstn n l = x :: y :: r -> exists r', l = x :: y :: r'.
Proof.
  destruct n as [|[|n]], l as [|a [|b l]]; cbn; intros H; try discriminate; inversion H; subst; eauto.
Qed.

Section VmSearch.
Variable cs : list (list nat).
Hypothesis W : valid_chars cs.
Let tx := concat cs.
Hypothesis Hlen : (N.of_nat (length tx) < usize_max)%N.
Variable bs : N -> bool.
Variable e : expr.
Variable p : prog.
Hypothesis Hcomp : compile bs (wrap e) = inr p.
Hypothesis Hok : oke true 0 (wrap e).
Hypothesis Hrefs : refs_ok True (refd bs) (wrap e).
Hypothesis Hk : kok true e.            (* no \K under a look-behind: F-keepout-lb *)
Variable ng : nat.
Variables (max_st : nat) (limit : option N) (fuelv : nat).

(* Regex::find_from_pos_with_option_flags on a VM-compiled regex *)
Definition vsearch : nat -> bool -> sres := regex_search (RFancy p ng) max_st limit fuelv tx.
(* the model's step budget is an artefact of the model (vm.rs has none): large enough for the
   searches that start at a character boundary - the only ones the iterators perform
   (Proofs/ApiTotal.v shows that such a budget exists) *)
Hypothesis Hnf : forall pos f, is_boundary tx pos = true -> vsearch pos f <> SErr EFuel.

Lemma wfe_of_wrap : wfe e.
Proof. destruct Hok as (Hw & _). cbn in Hw. tauto. Qed.

(* the SearchOK clauses, at every character boundary *)
Theorem vsearch_ok : forall pos f sv, bnd cs pos -> vsearch pos f = SSome sv ->
  exists a b, span_of sv = Some (a, b) /\ pos <= a /\ a <= b /\ b <= length tx /\
              is_boundary tx a = true /\ is_boundary tx b = true.
Proof.
  intros pos f sv Hpos Hs. unfold vsearch, regex_search in Hs.
  set (cx := {| c_text := tx; c_pos := pos; c_skipped := f |}) in *.
  pose proof (vm_agrees_with_reference_all cs W cx eq_refl Hlen Hpos bs e p Hcomp Hok Hrefs max_st limit fuelv) as H.
  destruct (fst (vm_run cx p max_st limit fuelv)) as [sv0| | | | |]; try discriminate. inversion Hs; subst sv0.
  destruct (search_span_ok cs W cx eq_refl Hlen Hpos e _ _ Hk wfe_of_wrap H) as (a & b & rest & E & H1 & H2 & H3 & B1 & B2).
  apply firstn_two in E. destruct E as (r' & ->). exists a, b. cbn [span_of c_pos cx] in *.
  repeat split; auto; apply bnd_is_boundary; auto.
Qed.

(* a compiled search never reports the panic outcome (C05) *)
Theorem vsearch_no_panic : forall pos f, bnd cs pos -> vsearch pos f <> SErr EPanicked.
Proof.
  intros pos f Hpos Hs. unfold vsearch, regex_search in Hs.
  set (cx := {| c_text := tx; c_pos := pos; c_skipped := f |}) in *.
  pose proof (vm_agrees_with_reference_all cs W cx eq_refl Hlen Hpos bs e p Hcomp Hok Hrefs max_st limit fuelv) as H.
  destruct (fst (vm_run cx p max_st limit fuelv)); try discriminate. exact H.
Qed.

(* the same function, cut off outside character boundaries (where the iterators never call it) *)
Definition gsearch (pos : nat) (f : bool) : sres :=
  if is_boundary tx pos then vsearch pos f else SNone.

Lemma gsearch_eq pos f : bnd cs pos -> vsearch pos f = gsearch pos f.
Proof. intros H. unfold gsearch. pose proof (bnd_is_boundary cs pos W H) as Hb. fold tx in Hb. now rewrite Hb. Qed.

Lemma gsearch_ok : SearchOK tx gsearch.
Proof.
  intros pos f sv Hle Hs. unfold gsearch in Hs. destruct (is_boundary tx pos) eqn:Eb; [|discriminate].
  apply (vsearch_ok pos f sv); auto. apply is_boundary_bnd; auto.
Qed.
Lemma gsearch_nf : forall pos f, gsearch pos f <> SErr EFuel.
Proof. intros pos f. unfold gsearch. destruct (is_boundary tx pos) eqn:E; [now apply Hnf|discriminate]. Qed.

Lemma tx_b0 : is_boundary tx 0 = true.
Proof. apply bnd_is_boundary; auto. constructor. Qed.

Ltac rw L := let E := fresh "E" in pose proof L as E; fold tx in E; rewrite E; clear E.

(* ---- find_iter / captures_iter over the compiled search (C08, C09, C05) ---- *)
Theorem vm_find_iter_chain n : chain tx 0 (collect tx vsearch n m_init).
Proof.
  rw (collect_agree cs W vsearch gsearch gsearch_eq gsearch_ok n m_init (bst_init cs)).
  apply (collect_chain tx gsearch gsearch_ok gsearch_nf n m_init).
Qed.
Theorem vm_find_iter_length n : length (collect tx vsearch n m_init) <= length tx + 2.
Proof.
  rw (collect_agree cs W vsearch gsearch gsearch_eq gsearch_ok n m_init (bst_init cs)).
  apply collect_length; [apply gsearch_ok|apply gsearch_nf].
Qed.
Theorem vm_captures_iter_is_find_iter n : ccollect tx vsearch n m_init = collect tx vsearch n m_init.
Proof. apply ccollect_eq. Qed.

(* the whole match sequence *)
Definition vm_matches : list item := collect tx vsearch (length tx + 3) m_init.

Lemma vm_yields : yields tx gsearch m_init vm_matches.
Proof.
  destruct (yields_exists tx gsearch gsearch_ok gsearch_nf) as (l & Hy & El). unfold vm_matches.
  rw (collect_agree cs W vsearch gsearch gsearch_eq gsearch_ok (length tx + 3) m_init (bst_init cs)). rewrite <- El. exact Hy.
Qed.

(* ---- split / splitn (C10, C05) ---- *)
Theorem vm_split_pieces n : split_collect tx vsearch n sp_init = firstn n (pieces tx 0 vm_matches).
Proof.
  rw (split_collect_agree cs W vsearch gsearch gsearch_eq gsearch_ok n sp_init (bst_init cs)).
  apply (split_pieces tx gsearch gsearch_ok gsearch_nf _ m_init 0 vm_yields). apply Nat.le_0_l.
Qed.
Theorem vm_split_no_panic n : Forall (fun pc => pc <> PcPanic) (split_collect tx vsearch n sp_init).
Proof.
  rewrite vm_split_pieces. apply Forall_forall. intros x Hx. apply in_firstn in Hx. revert x Hx. apply Forall_forall.
  apply pieces_safe; [|apply Nat.le_0_l|apply tx_b0].
  pose proof (yields_det tx gsearch _ _ vm_yields (length vm_matches)) as Hd. rewrite firstn_all in Hd. rewrite <- Hd.
  apply (collect_chain tx gsearch gsearch_ok gsearch_nf _ m_init).
Qed.
Theorem vm_split_rebuild : no_err vm_matches -> rebuild tx 0 vm_matches = tx.
Proof.
  intros Hn. rewrite (rebuild_text tx _ 0); auto; [|apply Nat.le_0_l].
  pose proof (yields_det tx gsearch _ _ vm_yields (length vm_matches)) as Hd. rewrite firstn_all in Hd. rewrite <- Hd.
  apply (collect_chain tx gsearch gsearch_ok gsearch_nf _ m_init).
Qed.
Theorem vm_splitn k n : no_err vm_matches ->
  splitn_collect tx vsearch n {| sn_s := sp_init; sn_limit := k |} =
  firstn n (match k with
            | 0 => []
            | S k' => firstn k' (pieces tx 0 vm_matches) ++
                      (if k' <=? length vm_matches
                       then [pc_slice tx (start_after tx 0 vm_matches k') (length tx)] else [])
            end).
Proof.
  intros Hn.
  rw (splitn_collect_agree cs W vsearch gsearch gsearch_eq gsearch_ok n {| sn_s := sp_init; sn_limit := k |} (bst_init cs)).
  apply (splitn_spec tx gsearch gsearch_ok k _ m_init 0 vm_yields Hn). apply Nat.le_0_l.
Qed.

(* ---- try_replacen (C11, C05) ---- *)
Theorem vm_replacen rep lim :
  try_replacen tx rep (mnext tx vsearch) lim =
  match vm_matches with [] => RBorrowed | _ => rspec tx rep lim 0 0 vm_matches [] end.
Proof.
  rw (try_replacen_agree cs W vsearch gsearch gsearch_eq gsearch_ok rep lim).
  apply (try_replacen_spec tx gsearch gsearch_ok gsearch_nf rep _ lim vm_yields).
Qed.
Theorem vm_replacen_paths_agree rep lim :
  try_replacen tx rep (cnext tx vsearch) lim = try_replacen tx rep (mnext tx vsearch) lim.
Proof. apply try_replacen_paths_agree. Qed.
Theorem vm_replace_no_panic rep lim : try_replacen tx rep (mnext tx vsearch) lim <> RPanicR.
Proof.
  rewrite vm_replacen. destruct vm_matches eqn:E; [discriminate|]. rewrite <- E.
  apply rspec_safe; [|apply Nat.le_0_l|apply tx_b0].
  pose proof (yields_det tx gsearch _ _ vm_yields (length vm_matches)) as Hd. rewrite firstn_all in Hd. rewrite <- Hd.
  apply (collect_chain tx gsearch gsearch_ok gsearch_nf _ m_init).
Qed.

(* ---- find_iter over the compiled search = the reference iteration (C08) ---- *)
(* the reference search as a search function: the first result of the reference semantics *)
Definition rsearch (pos : nat) (f : bool) : sres :=
  match search_list {| c_text := tx; c_pos := pos; c_skipped := f |} e (S (length tx)) with
  | Some caps => SSome caps
  | None => SNone
  end.

Lemma vsearch_rsearch pos f : bnd cs pos ->
  match vsearch pos f with
  | SSome sv => exists caps, rsearch pos f = SSome caps /\ span_of caps = span_of sv
  | SNone => rsearch pos f = SNone
  | SErr _ => True
  end.
Proof.
  intros Hpos. destruct (vsearch pos f) as [er| |sv] eqn:Ev; auto.
  - unfold vsearch, regex_search in Ev. unfold rsearch.
    set (cx := {| c_text := tx; c_pos := pos; c_skipped := f |}) in *.
    pose proof (vm_agrees_with_reference_all cs W cx eq_refl Hlen Hpos bs e p Hcomp Hok Hrefs max_st limit fuelv) as H.
    destruct (fst (vm_run cx p max_st limit fuelv)); try discriminate. cbn [c_text cx] in H. rewrite H. reflexivity.
  - destruct (vsearch_ok pos f sv Hpos Ev) as (a & b & Hs & _).
    unfold vsearch, regex_search in Ev. unfold rsearch.
    set (cx := {| c_text := tx; c_pos := pos; c_skipped := f |}) in *.
    pose proof (vm_agrees_with_reference_all cs W cx eq_refl Hlen Hpos bs e p Hcomp Hok Hrefs max_st limit fuelv) as H.
    destruct (fst (vm_run cx p max_st limit fuelv)) as [sv0| | | | |]; try discriminate. inversion Ev; subst sv0.
    cbn [c_text cx] in H. rewrite H. eexists; split; [reflexivity|].
    destruct sv as [|[x|] [|[y|] r]]; cbn [span_of] in Hs; try discriminate.
    change (2 * S (ngroups e)) with (S (S (2 * ngroups e + 0))) || replace (2 * S (ngroups e)) with (S (S (2 * ngroups e))) by lia. reflexivity.
Qed.

Definition same_span (o1 o2 : option item) : Prop :=
  match o1, o2 with
  | None, None => True
  | Some (ItOk a b _), Some (ItOk a' b' _) => a = a' /\ b = b'
  | _, _ => False
  end.
Definition is_err (o : option item) : Prop := match o with Some (ItErr _) => True | _ => False end.

Lemma mn_reference : forall fuel st, bst cs st ->
  is_err (fst (matches_next tx vsearch fuel st)) \/
  (same_span (fst (matches_next tx vsearch fuel st)) (fst (matches_next tx rsearch fuel st)) /\
   snd (matches_next tx vsearch fuel st) = snd (matches_next tx rsearch fuel st) /\
   bst cs (snd (matches_next tx vsearch fuel st))).
Proof.
  induction fuel as [|f IH]; intros st Hst; cbn [matches_next].
  all: destruct (Nat.ltb_spec (length tx) (last_end st)) as [Hgt|Hle]; [right; cbn; auto|].
  all: assert (Hb : bnd cs (last_end st)) by (destruct Hst as [Hb|Hb]; [exact Hb|unfold tx in *; lia]).
  all: pose proof (vsearch_rsearch (last_end st)
         (match last_match st with Some lm => lm <? last_end st | None => false end) Hb) as Hr.
  all: destruct (vsearch (last_end st) _) as [er| |sv] eqn:E; [left; exact I|rewrite Hr; right; cbn; auto|].
  all: destruct Hr as (caps & -> & Hsp); rewrite Hsp.
  all: destruct (vsearch_ok _ _ _ Hb E) as (a & b & Hs & H1 & H2 & H3 & Hb1 & Hb2); rewrite Hs.
  all: assert (Bb : bnd cs b) by (apply is_boundary_bnd; auto).
  all: pose proof (bst_next cs W b Bb H3) as Hn; fold tx in Hn.
  all: destruct (a =? b); [|right; cbn; split; [auto|split; [auto|left; exact Bb]]].
  all: destruct (match last_match st with Some lm => lm =? b | None => false end);
    [|right; cbn; split; [auto|split; [auto|exact Hn]]].
  - left. exact I.
  - apply IH. exact Hn.
Qed.

Definition spans (l : list item) : list (option (nat * nat)) :=
  map (fun it => match it with ItOk a b _ => Some (a, b) | ItErr _ => None end) l.

(* as long as the compiled search does not give up (stack bound, backtrack limit), find_iter yields
   exactly the spans of the iteration over the reference search *)
Theorem vm_find_iter_is_reference : forall n st, bst cs st ->
  no_err (collect tx vsearch n st) -> spans (collect tx vsearch n st) = spans (collect tx rsearch n st).
Proof.
  induction n as [|n IH]; intros st Hst Hne; [reflexivity|]. cbn [collect] in *. unfold mnext in *.
  destruct (mn_reference (next_fuel tx st) st Hst) as [He|(Hs & Est & Hb)].
  - destruct (matches_next tx vsearch (next_fuel tx st) st) as [[[er|a b sv]|] st']; cbn in He, Hne; contradiction.
  - destruct (matches_next tx vsearch (next_fuel tx st) st) as [o1 st1].
    destruct (matches_next tx rsearch (next_fuel tx st) st) as [o2 st2]. cbn [fst snd] in *. subst st2.
    destruct o1 as [[er|a b sv]|], o2 as [[er'|a' b' sv']|]; cbn in Hs; try contradiction; auto.
    destruct Hs as [-> ->]. cbn [spans map]. f_equal. cbn [no_err] in Hne. apply IH; auto.
Qed.

End VmSearch.

(* ---------- the hypotheses in one place ---------- *)
(* a VM-compiled pattern inside the end-to-end theorem, with no \K under a look-behind, searched
   over a valid UTF-8 text *)
Definition VmScope (cs : list (list nat)) (bs : N -> bool) (e : expr) (p : prog) : Prop :=
  valid_chars cs /\ (N.of_nat (length (concat cs)) < usize_max)%N /\
  compile bs (wrap e) = inr p /\ oke true 0 (wrap e) /\ refs_ok True (refd bs) (wrap e) /\ kok true e.

(* executable form: Scope.vm_scope_b *)
