(* EscapeWs.v — escape and free-spacing: every unit that push_quoted emits starts with a backslash
   or with a byte that is not special; unless that byte is whitespace (which escape does not
   protect), the token-boundary skipper stops in front of it whatever the (?x) flag says: an
   escaped string is never read as a comment.  Depends on '#' and '(' being in the special set
   that the translator re-reads from the source. *)
From FR Require Import Base Ast Escape Parse WsProofs.

Lemma special_hash : is_special 35 = true. Proof. vm_compute. reflexivity. Qed.
Lemma special_paren : is_special 40 = true. Proof. vm_compute. reflexivity. Qed.

Theorem skipper_stops_at_quoted : forall re fl ix fuel b,
  nth_error re ix = Some b -> (b = 92 \/ is_special b = false) -> is_ws b = false ->
  optional_whitespace re (S fuel) fl ix = POk ix.
Proof.
  intros re fl ix fuel b Hb Hq Hw. cbn [optional_whitespace].
  assert (Hlt : ix < length re) by (apply nth_error_Some; congruence).
  destruct (Nat.eqb_spec ix (length re)); [lia|]. unfold byte. rewrite Hb.
  assert (H35 : (b =? 35) = false).
  { apply Nat.eqb_neq. intros ->. destruct Hq as [Hq|Hq]; [discriminate|]. rewrite special_hash in Hq. discriminate. }
  assert (H40 : (b =? 40) = false).
  { apply Nat.eqb_neq. intros ->. destruct Hq as [Hq|Hq]; [discriminate|]. rewrite special_paren in Hq. discriminate. }
  rewrite H35, H40. cbn [andb]. unfold is_ws in Hw. rewrite Hw. reflexivity.
Qed.

(* the first byte of a non-empty quoted string is such a byte *)
Theorem push_quoted_head : forall s, s <> [] ->
  exists b r, push_quoted s = b :: r /\ (b = 92 \/ is_special b = false).
Proof.
  intros [|c s] Hne; [contradiction|]. cbn [push_quoted].
  destruct (is_special c) eqn:E.
  - eexists _, _. split; [reflexivity|]. left. reflexivity.
  - eexists _, _. split; [reflexivity|]. right. exact E.
Qed.

Lemma push_quoted_app a b : push_quoted (a ++ b) = push_quoted a ++ push_quoted b.
Proof.
  induction a as [|x a IH]; [reflexivity|]. cbn [app push_quoted]. rewrite IH.
  destruct (is_special x); reflexivity.
Qed.

(* at the boundary in front of ANY character c of the escaped string that is not whitespace,
   inside any host pattern, the skipper does not move - with or without (?x) *)
Theorem escape_opaque_to_free_spacing : forall pre s1 c s2 post fl fuel, is_ws c = false ->
  let re := pre ++ push_quoted (s1 ++ c :: s2) ++ post in
  let ix := length pre + length (push_quoted s1) in
  optional_whitespace re (S fuel) fl ix = POk ix.
Proof.
  intros pre s1 c s2 post fl fuel Hw re ix.
  assert (Hnth : exists b, nth_error re ix = Some b /\ (b = 92 \/ is_special b = false) /\ is_ws b = false).
  { unfold re, ix. rewrite push_quoted_app. rewrite nth_error_app2 by lia.
    replace (length pre + length (push_quoted s1) - length pre) with (length (push_quoted s1)) by lia.
    rewrite <- app_assoc. rewrite nth_error_app2 by lia. rewrite Nat.sub_diag.
    cbn [push_quoted]. destruct (is_special c) eqn:E; cbn [app nth_error].
    - exists 92. split; [reflexivity|]. split; [now left|reflexivity].
    - exists c. split; [reflexivity|]. split; [now right|exact Hw]. }
  destruct Hnth as (b & Hb & Hq & Hwb). exact (skipper_stops_at_quoted re fl ix fuel b Hb Hq Hwb).
Qed.
