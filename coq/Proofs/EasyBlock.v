(* EasyBlock.v — what an easy (automata-delegable) expression does to the capture vector: it only
   touches the slot pairs of its own groups, and each such pair is afterwards either set as a pair
   or exactly as before.  This is why copying "the groups that participated" (vm.rs Delegate) from
   a run on fresh slots reproduces the run on the current slots. *)
From FR Require Import Base Utf8 Ast Analyze Sem ExprLemmas SemSound.
From Coq Require Import Lia NArith.

(* structurally easy: no look-around, backreference, atomic group, \K, \G, condition *)
Fixpoint easyx (e : expr) : bool :=
  match e with
  | Empty | Any _ | Assertion _ | Literal _ _ | Delegate _ _ _ _ | SubroutineCall _ => true
  | Concat es | Alt es => (fix go (l : list expr) : bool := match l with [] => true | x :: r => easyx x && go r end) es
  | Group c | Repeat c _ _ _ => easyx c
  | _ => false
  end.
Lemma easyx_concat es : easyx (Concat es) = forallb easyx es.
Proof. induction es as [|x r IH]; [reflexivity|]. cbn [forallb]. rewrite <- IH. reflexivity. Qed.
Lemma easyx_alt es : easyx (Alt es) = forallb easyx es.
Proof. induction es as [|x r IH]; [reflexivity|]. cbn [forallb]. rewrite <- IH. reflexivity. Qed.

(* what the analysis calls "not hard" is structurally easy *)
Lemma hard_easyx bs : forall e g, hard bs g e = false -> easyx e = true.
Proof.
  induction e using expr_ind'; intros g0 Hh; try reflexivity; try discriminate.
  - rewrite easyx_concat. rewrite hard_concat in Hh. revert g0 Hh. induction H as [|x r Hx Hr IH]; intros g0 Hh; [reflexivity|].
    cbn [hard_list] in Hh. apply orb_false_iff in Hh as [H1 H2]. cbn [forallb]. rewrite (Hx g0 H1), (IH _ H2). reflexivity.
  - rewrite easyx_alt. rewrite hard_alt in Hh. revert g0 Hh. induction H as [|x r Hx Hr IH]; intros g0 Hh; [reflexivity|].
    cbn [hard_list] in Hh. apply orb_false_iff in Hh as [H1 H2]. cbn [forallb]. rewrite (Hx g0 H1), (IH _ H2). reflexivity.
  - cbn [hard] in Hh. apply orb_false_iff in Hh as [H1 _]. cbn [easyx]. eauto.
  - cbn [hard] in Hh. apply orb_false_iff in Hh as [H1 _]. cbn [easyx]. eauto.
Qed.

Definition bothV (A : list val) (h : nat) : Prop :=
  exists a b, nth_error A (2 * h) = Some (V a) /\ nth_error A (2 * h + 1) = Some (V b).
Definition samep (A A' : list val) (h : nat) : Prop :=
  nth_error A' (2 * h) = nth_error A (2 * h) /\ nth_error A' (2 * h + 1) = nth_error A (2 * h + 1).

(* the capture vector A became A' while running something whose groups are [g, g+n) *)
Definition tr (g n : nat) (A A' : list val) : Prop :=
  length A' = length A /\
  (forall i, i < 2 * g \/ 2 * (g + n) <= i -> nth_error A' i = nth_error A i) /\
  (forall h, g <= h < g + n -> bothV A' h \/ samep A A' h).

Lemma tr_refl g n A : tr g n A A.
Proof. split; [reflexivity|]. split; [reflexivity|]. intros h _. right. split; reflexivity. Qed.

Lemma tr_widen g n g' n' A A' : g' <= g -> g + n <= g' + n' -> tr g n A A' -> tr g' n' A A'.
Proof.
  intros H1 H2 (L & F & Pp). split; [exact L|]. split.
  - intros i Hi. apply F. lia.
  - intros h Hh. destruct (Nat.lt_ge_cases h g) as [Hlt|Hge]; [|destruct (Nat.lt_ge_cases h (g + n)) as [Hlt2|Hge2]].
    + right. split; apply F; lia.
    + apply Pp. lia.
    + right. split; apply F; lia.
Qed.

Lemma tr_trans g n A B C : tr g n A B -> tr g n B C -> tr g n A C.
Proof.
  intros (L1 & F1 & P1) (L2 & F2 & P2). split; [congruence|]. split.
  - intros i Hi. rewrite F2, F1; auto.
  - intros h Hh. destruct (P2 h Hh) as [Hb|[S1 S2]]; [left; exact Hb|].
    destruct (P1 h Hh) as [(a & b & E1 & E2)|[T1 T2]].
    + left. exists a, b. split; congruence.
    + right. split; congruence.
Qed.

Section Easy.
Variable cx : ctx.

(* repetition keeps a reflexive-transitive relation on states *)
Section Rep.
Variable body : sst -> list sst.
Variable T : sst -> sst -> Prop.
Hypothesis Trefl : forall s, T s s.
Hypothesis Ttrans : forall a b c, T a b -> T b c -> T a c.
Hypothesis Hb : forall s s', In s' (body s) -> T s s'.

Lemma rep_must_T : forall n s s', In s' (rep_must body n s) -> T s s'.
Proof.
  induction n as [|n IH]; intros s s' H; cbn [rep_must] in H.
  - destruct H as [<-|[]]. apply Trefl.
  - apply in_flat_map in H as (s1 & H1 & H2). eapply Ttrans; [apply Hb; eauto|apply IH; auto].
Qed.
Lemma rep_opt_b_T gr : forall m s s', In s' (rep_opt_b body gr m s) -> T s s'.
Proof.
  induction m as [|m IH]; intros s s' H; cbn [rep_opt_b] in H.
  - destruct H as [<-|[]]. apply Trefl.
  - assert (Hm : In s' (flat_map (rep_opt_b body gr m) (body s)) -> T s s').
    { intros Hi. apply in_flat_map in Hi as (s1 & H1 & H2). eapply Ttrans; [apply Hb; eauto|apply IH; auto]. }
    destruct gr.
    + apply in_app_or in H as [H|[<-|[]]]; auto.
    + destruct H as [<-|H]; auto.
Qed.
Lemma rep_opt_u_T gr : forall f s s', In s' (rep_opt_u body gr f s) -> T s s'.
Proof.
  induction f as [|f IH]; intros s s' H; cbn [rep_opt_u] in H; [destruct H|].
  assert (Hm : In s' (flat_map (fun s1 => if fst s1 =? fst s then [] else rep_opt_u body gr f s1) (body s)) -> T s s').
  { intros Hi. apply in_flat_map in Hi as (s1 & H1 & H2). destruct (fst s1 =? fst s); [destruct H2|].
    eapply Ttrans; [apply Hb; eauto|apply IH; auto]. }
  destruct gr.
  - apply in_app_or in H as [H|[<-|[]]]; auto.
  - destruct H as [<-|H]; auto.
Qed.
End Rep.

Definition ET (e : expr) : Prop := easyx e = true -> forall fuel g ix A st',
  2 * (g + ngroups e) <= length A -> In st' (sem cx e fuel g (ix, A)) -> tr g (ngroups e) A (snd st').

Lemma easy_tr : forall e, ET e.
Proof.
  induction e using expr_ind'; intros He fuel g0 ix A st' HL Hin; try discriminate.
  - cbn [sem] in Hin. destruct Hin as [<-|[]]. apply tr_refl.
  - cbn [sem] in Hin. destruct (nth_error (c_text cx) ix); [|destruct Hin]. destruct (nl || negb (n =? 10)); [|destruct Hin].
    destruct Hin as [<-|[]]. apply tr_refl.
  - cbn [sem] in Hin. destruct (assert_holds cx a ix); [|destruct Hin]. destruct Hin as [<-|[]]. apply tr_refl.
  - cbn [sem] in Hin. destruct c.
    + destruct (lit_ci cx _ ix); [|destruct Hin]. destruct Hin as [<-|[]]. apply tr_refl.
    + destruct (lit_at _ ix v); [|destruct Hin]. destruct Hin as [<-|[]]. apply tr_refl.
  - (* Concat *)
    rewrite easyx_concat in He. rewrite sem_concat_eq in Hin. rewrite ngroups_concat in *.
    revert g0 ix A st' HL Hin. induction H as [|x r Hx Hr IH]; intros g0 ix A st' HL Hin; cbn [sem_cat] in Hin.
    + destruct Hin as [<-|[]]. apply tr_refl.
    + cbn [forallb] in He. apply andb_true_iff in He as [He1 He2].
      change (ngroups_list (x :: r)) with (ngroups x + ngroups_list r) in *.
      apply in_flat_map in Hin as ([ix1 A1] & H1 & H2).
      pose proof (Hx He1 fuel g0 ix A _ ltac:(lia) H1) as T1. cbn [snd] in T1.
      assert (L1 : length A1 = length A) by apply T1.
      pose proof (IH He2 (g0 + ngroups x) ix1 A1 st' ltac:(lia) H2) as T2.
      eapply tr_trans; [eapply tr_widen; [| |exact T1]; lia|eapply tr_widen; [| |exact T2]; lia].
  - (* Alt *)
    rewrite easyx_alt in He. rewrite sem_alt_eq in Hin. rewrite ngroups_alt in *.
    revert g0 HL Hin. induction H as [|x r Hx Hr IH]; intros g0 HL Hin; cbn [sem_alts] in Hin; [destruct Hin|].
    cbn [forallb] in He. apply andb_true_iff in He as [He1 He2].
    change (ngroups_list (x :: r)) with (ngroups x + ngroups_list r) in *.
    apply in_app_or in Hin as [Hin|Hin].
    + eapply tr_widen; [| |exact (Hx He1 fuel g0 ix A st' ltac:(lia) Hin)]; lia.
    + eapply tr_widen; [| |exact (IH He2 (g0 + ngroups x) ltac:(lia) Hin)]; lia.
  - (* Group *)
    cbn [easyx] in He. cbn [sem] in Hin. cbn [ngroups] in *. apply in_map_iff in Hin as ([ix2 A2] & <- & H2).
    pose proof (IHe He fuel (S g0) ix (upd A (2 * g0) (V ix)) _ ltac:(rewrite upd_length; lia) H2) as (L & F & Pp).
    cbn [fst snd] in *. rewrite upd_length in L.
    split; [rewrite upd_length; exact L|]. split.
    + intros i Hi. rewrite nth_error_upd. destruct (Nat.eqb_spec (2 * g0 + 1) i); [lia|]. cbn [andb].
      rewrite F by lia. rewrite nth_error_upd. destruct (Nat.eqb_spec (2 * g0) i); [lia|]. reflexivity.
    + intros h Hh. destruct (Nat.eq_dec h g0) as [->|Hne].
      * left. exists ix, ix2. split.
        -- rewrite nth_error_upd. destruct (Nat.eqb_spec (2 * g0 + 1) (2 * g0)); [lia|]. cbn [andb].
           rewrite F by lia. rewrite nth_error_upd, Nat.eqb_refl. destruct (Nat.ltb_spec (2 * g0) (length A)); [reflexivity|lia].
        -- rewrite nth_error_upd, Nat.eqb_refl. destruct (Nat.ltb_spec (2 * g0 + 1) (length A2)); [reflexivity|lia].
      * assert (Hu : forall i, i <> 2 * g0 + 1 -> nth_error (upd A2 (2 * g0 + 1) (V ix2)) i = nth_error A2 i).
        { intros i Hi. rewrite nth_error_upd. destruct (Nat.eqb_spec (2 * g0 + 1) i); [lia|]. reflexivity. }
        assert (Hu0 : forall i, i <> 2 * g0 -> nth_error (upd A (2 * g0) (V ix)) i = nth_error A i).
        { intros i Hi. rewrite nth_error_upd. destruct (Nat.eqb_spec (2 * g0) i); [lia|]. reflexivity. }
        destruct (Pp h ltac:(lia)) as [(a & b & E1 & E2)|[S1 S2]].
        -- left. exists a, b. rewrite !Hu by lia. auto.
        -- right. unfold samep. rewrite !Hu by lia. rewrite S1, S2, !Hu0 by lia. auto.
  - (* Repeat *)
    cbn [easyx] in He. cbn [sem] in Hin. cbn [ngroups] in *.
    set (T := fun a b : sst => 2 * (g0 + ngroups e) <= length (snd a) -> tr g0 (ngroups e) (snd a) (snd b)).
    assert (Tr : forall s, T s s) by (intros s _; apply tr_refl).
    assert (Tt : forall a b c, T a b -> T b c -> T a c).
    { intros a b c H1 H2 HLa. pose proof (H1 HLa) as T1. eapply tr_trans; [exact T1|]. apply H2.
      destruct T1 as (L & _). lia. }
    assert (Hb : forall s s', In s' (sem cx e fuel g0 s) -> T s s').
    { intros [i1 A1] s' Hi HLa. exact (IHe He fuel g0 i1 A1 s' HLa Hi). }
    apply in_flat_map in Hin as (s1 & H1 & H2).
    pose proof (rep_must_T _ T Tr Tt Hb _ _ _ H1) as T1.
    assert (T2 : T s1 st').
    { destruct (N.eqb hi usize_max); [eapply rep_opt_u_T|eapply rep_opt_b_T]; eauto. }
    exact (Tt _ _ _ T1 T2 HL).
  - destruct k; cbn [sem] in Hin.
    + destruct (decode_at (c_text cx) ix) as [[cp len]|]; [|destruct Hin]. destruct (existsb _ cps); [|destruct Hin].
      destruct Hin as [<-|[]]. apply tr_refl.
    + destruct ((ix <=? length (c_text cx)) && only_newlines_from cx ix); [|destruct Hin]. destruct Hin as [<-|[]]. apply tr_refl.
  - cbn [sem] in Hin. destruct Hin.
Qed.

End Easy.
