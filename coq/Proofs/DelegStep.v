(* DelegStep.v — the Delegate instruction, in general: for ANY easy block (alternations, repetitions,
   capture groups included) one VM step does exactly what the first result of the reference
   semantics of the block does from the current state: same end offset, and "run the block on
   fresh capture slots, then copy the groups that participated" (vm.rs Delegate) yields the
   capture vector the reference computes from the current slots. *)
From FR Require Import Base State Utf8 Ast Analyze Sem ExprLemmas SemSound SemK Param EasyBlock
                       Vm StateRefine VmRefine Machine.
From Coq Require Import Lia NArith.

Section DS.
Variable cx : ctx.
Variable P : list insn.
Variable M : nat.
Notation mstep := (mstep cx P M).
Notation at_ := (at_ P).

Lemma save_groups_mkr capsF aux K : forall n sg sl, 2 * (sg + n) <= length sl ->
  exists sl', save_groups rstate iface1u (mkr M sl aux K) capsF sg n = Some (mkr M sl' aux K) /\
    length sl' = length sl /\
    (forall i, i < 2 * sg \/ 2 * (sg + n) <= i -> nth_error sl' i = nth_error sl i) /\
    (forall h, sg <= h < sg + n ->
       match getcap capsF (2 * h), getcap capsF (2 * h + 1) with
       | V a, V b => nth_error sl' (2 * h) = Some (V a) /\ nth_error sl' (2 * h + 1) = Some (V b)
       | _, _ => nth_error sl' (2 * h) = nth_error sl (2 * h) /\ nth_error sl' (2 * h + 1) = nth_error sl (2 * h + 1)
       end).
Proof.
  induction n as [|n IH]; intros sg sl HL; cbn [save_groups].
  - exists sl. split; [reflexivity|]. split; [reflexivity|]. split; [reflexivity|]. intros h Hh. lia.
  - cbn [iface1u i_save].
    assert (Hskip : forall sl0, length sl0 = length sl ->
              (forall i, i < 2 * sg \/ 2 * (sg + 1) <= i -> nth_error sl0 i = nth_error sl i) ->
              (match getcap capsF (2 * sg), getcap capsF (2 * sg + 1) with
               | V a, V b => nth_error sl0 (2 * sg) = Some (V a) /\ nth_error sl0 (2 * sg + 1) = Some (V b)
               | _, _ => nth_error sl0 (2 * sg) = nth_error sl (2 * sg) /\ nth_error sl0 (2 * sg + 1) = nth_error sl (2 * sg + 1)
               end) ->
              exists sl', save_groups rstate iface1u (mkr M sl0 aux K) capsF (S sg) n = Some (mkr M sl' aux K) /\
                length sl' = length sl /\
                (forall i, i < 2 * sg \/ 2 * (sg + S n) <= i -> nth_error sl' i = nth_error sl i) /\
                (forall h, sg <= h < sg + S n ->
                   match getcap capsF (2 * h), getcap capsF (2 * h + 1) with
                   | V a, V b => nth_error sl' (2 * h) = Some (V a) /\ nth_error sl' (2 * h + 1) = Some (V b)
                   | _, _ => nth_error sl' (2 * h) = nth_error sl (2 * h) /\ nth_error sl' (2 * h + 1) = nth_error sl (2 * h + 1)
                   end)).
    { intros sl0 L0 F0 P0. destruct (IH (S sg) sl0 ltac:(lia)) as (sl' & E & L & F & Pp).
      exists sl'. split; [exact E|]. split; [congruence|]. split.
      - intros i Hi. rewrite F by lia. apply F0. lia.
      - intros h Hh. destruct (Nat.eq_dec h sg) as [->|Hne].
        + rewrite !(F (2 * sg)), !(F (2 * sg + 1)) by lia.
          destruct (getcap capsF (2 * sg)), (getcap capsF (2 * sg + 1)); exact P0.
        + specialize (Pp h ltac:(lia)). rewrite !(F0 (2 * h)), !(F0 (2 * h + 1)) in Pp by lia. exact Pp. }
    destruct (getcap capsF (2 * sg)) as [a|] eqn:E1; [destruct (getcap capsF (2 * sg + 1)) as [b|] eqn:E2|].
    + rewrite (r_save_ok M sl aux K (2 * sg) (V a)) by lia.
      rewrite (r_save_ok M (upd sl (2 * sg) (V a)) aux K (2 * sg + 1) (V b)) by (rewrite upd_length; lia).
      apply Hskip.
      * now rewrite !upd_length.
      * intros i Hi. rewrite !nth_error_upd. destruct (Nat.eqb_spec (2 * sg + 1) i); [lia|].
        destruct (Nat.eqb_spec (2 * sg) i); [lia|]. reflexivity.
      * split.
        -- rewrite nth_error_upd. destruct (Nat.eqb_spec (2 * sg + 1) (2 * sg)); [lia|]. cbn [andb].
           rewrite nth_error_upd, Nat.eqb_refl. destruct (Nat.ltb_spec (2 * sg) (length sl)); [reflexivity|lia].
        -- rewrite nth_error_upd, Nat.eqb_refl, upd_length. destruct (Nat.ltb_spec (2 * sg + 1) (length sl)); [reflexivity|lia].
    + apply Hskip; auto.
    + apply Hskip; auto; try (destruct (getcap capsF (2 * sg + 1)); auto).
Qed.

(* ---------- fresh slots versus current slots ---------- *)
Section Rho.
Variable C0 : list val.
Variable eg : nat.
Hypothesis Heg : 2 * eg <= length C0.

Definition rhoF (A B : list val) : Prop :=
  length A = 2 * eg /\ length B = length C0 /\
  forall i, match nth_error A i with
            | Some (V x) => nth_error B i = Some (V x)
            | _ => nth_error B i = nth_error C0 i
            end.

Lemma rhoF_upd A B i x : i < 2 * eg -> rhoF A B -> rhoF (upd A i (V x)) (upd B i (V x)).
Proof.
  intros Hi (LA & LB & H). split; [now rewrite upd_length|]. split; [now rewrite upd_length|].
  intros j. rewrite !nth_error_upd. destruct (Nat.eqb_spec i j) as [->|Hne]; cbn [andb].
  - destruct (Nat.ltb_spec j (length A)); [|lia]. destruct (Nat.ltb_spec j (length B)); [reflexivity|lia].
  - apply H.
Qed.

Lemma rhoF_init : rhoF (repeat MAXV (2 * eg)) C0.
Proof.
  split; [apply repeat_length|]. split; [reflexivity|]. intros i.
  destruct (nth_error (repeat MAXV (2 * eg)) i) as [v|] eqn:E; [|reflexivity].
  apply nth_error_In, repeat_spec in E. subst. reflexivity.
Qed.
End Rho.

Lemma easyx_refs : forall e, easyx e = true -> refs_ok False (fun _ => False) e.
Proof.
  induction e using expr_ind'; intros He; try discriminate; try exact I; auto.
  - rewrite easyx_concat in He. rewrite refs_ok_concat. induction H as [|x r Hx Hr IH]; [exact I|].
    cbn [forallb] in He. apply andb_true_iff in He as [H1 H2]. split; auto.
  - rewrite easyx_alt in He. rewrite refs_ok_alt. induction H as [|x r Hx Hr IH]; [exact I|].
    cbn [forallb] in He. apply andb_true_iff in He as [H1 H2]. split; auto.
Qed.

Lemma even_or_odd i : exists h, i = 2 * h \/ i = 2 * h + 1.
Proof. destruct (Nat.Even_or_Odd i) as [[h ->]|[h ->]]; exists h; lia. Qed.

Lemma step_delegate pc ix sl aux K es sg eg NC :
  at_ pc (IDelegate es sg eg) -> forallb easyx es = true -> eg = sg + ngroups_list es ->
  2 * eg <= NC -> NC <= length sl ->
  match hd_error (sem cx (Concat es) (S (length (c_text cx))) sg (ix, firstn NC sl)) with
  | None => mstep (Run pc ix sl aux K) = Fail K
  | Some x => exists sl', mstep (Run pc ix sl aux K) = Run (S pc) (fst x) sl' aux K /\
                firstn NC sl' = snd x /\ length sl' = length sl /\
                forall j, NC <= j -> nth_error sl' j = nth_error sl j
  end.
Proof.
  intros Hat He Heg HNC HL.
  set (C0 := firstn NC sl). set (F := repeat MAXV (2 * eg)). set (fu := S (length (c_text cx))).
  assert (LC0 : length C0 = NC) by (unfold C0; apply firstn_length_le; lia).
  assert (Heasy : easyx (Concat es) = true) by now rewrite easyx_concat.
  assert (Hng : ngroups (Concat es) = ngroups_list es) by apply ngroups_concat.
  assert (HegC : 2 * eg <= length C0) by lia.
  pose proof (param cx (rhoF C0 eg) (fun i => i < 2 * eg) (rhoF_upd C0 eg HegC) False (fun f => match f with end)
                (fun _ => False) (fun A B grp (f : False) => match f with end)
                (Concat es) (easyx_refs _ Heasy) fu sg (ix, F) (ix, C0)) as Hpar.
  assert (Hw : wr_ok (fun i => i < 2 * eg) sg (Concat es)).
  { intros h Hh. rewrite Hng in Hh. lia. }
  specialize (Hpar Hw (conj eq_refl (rhoF_init C0 eg))).
  unfold Machine.mstep. rewrite Hat. cbn [gexec_insn]. unfold oracle. rewrite semk_sem, fs_hd. fold fu F.
  pose proof (easy_tr cx (Concat es) Heasy fu sg ix F) as TF.
  pose proof (easy_tr cx (Concat es) Heasy fu sg ix C0) as TC.
  change (firstn NC sl) with C0.
  destruct Hpar as [|xF b lF l' Hab Hl]; cbn [hd_error].
  - reflexivity.
  - destruct xF as [ixF cF]. destruct b as [ixC cC]. destruct Hab as [Hix (LF & LC & Hrho)]. cbn [fst snd] in Hix, LF, LC, Hrho |- *. rewrite <- Hix.
    specialize (TF (ixF, cF) ltac:(unfold F; rewrite repeat_length, Hng; lia) (or_introl eq_refl)).
    specialize (TC (ixC, cC) ltac:(rewrite Hng; lia) (or_introl eq_refl)). cbn [snd] in TF, TC. rewrite Hng in TF, TC.
    destruct (Nat.eqb_spec sg eg) as [Eeq|Ene].
    + (* no groups in the block *)
      exists sl. split; [reflexivity|]. split; [|split; auto].
      fold C0. destruct TC as (L & Fr & _). apply list_ext. intros i. symmetry. apply Fr. lia.
    + destruct (save_groups_mkr cF aux K (eg - sg) sg sl ltac:(lia)) as (sl' & Es & Ls & Fs & Ps).
      rewrite Es. exists sl'. split; [reflexivity|]. split; [|split; [exact Ls|intros j Hj; apply Fs; lia]].
      apply list_ext. intros i. destruct (Nat.lt_ge_cases i NC) as [Hi|Hi].
      2:{ assert (E1 : nth_error (firstn NC sl') i = None) by (apply nth_error_None; rewrite firstn_length; lia).
          assert (E2 : nth_error cC i = None) by (apply nth_error_None; lia). congruence. }
      rewrite nth_error_firstn' by lia.
      assert (HC0 : nth_error C0 i = nth_error sl i) by (unfold C0; apply nth_error_firstn'; lia).
      destruct TF as (LTF & FrF & PF).
      assert (HFi : forall j, nth_error F j = Some MAXV \/ nth_error F j = None).
      { intros j. destruct (nth_error F j) as [v|] eqn:E; auto. apply nth_error_In, repeat_spec in E. rewrite E. auto. }
      destruct (Nat.lt_ge_cases i (2 * sg)) as [Hlo|Hlo]; [|destruct (Nat.lt_ge_cases i (2 * eg)) as [Hhi|Hhi]].
      * rewrite Fs by lia. specialize (Hrho i). rewrite (FrF i) in Hrho by lia.
        destruct (HFi i) as [E|E]; rewrite E in Hrho; congruence.
      * destruct (even_or_odd i) as (h & [->| ->]).
        -- specialize (Ps h ltac:(lia)). specialize (Hrho (2 * h)).
           destruct (PF h ltac:(lia)) as [(a & b & A1 & A2)|[S1 S2]].
           ++ unfold getcap in Ps. rewrite A1, A2 in Ps. rewrite A1 in Hrho. destruct Ps as [Q1 _]. congruence.
           ++ unfold getcap in Ps. rewrite S1 in Ps, Hrho.
              destruct (HFi (2 * h)) as [E|E]; rewrite E in Ps, Hrho; destruct Ps as [Q1 _]; congruence.
        -- specialize (Ps h ltac:(lia)). specialize (Hrho (2 * h + 1)).
           destruct (PF h ltac:(lia)) as [(a & b & A1 & A2)|[S1 S2]].
           ++ unfold getcap in Ps. rewrite A1, A2 in Ps. rewrite A2 in Hrho. destruct Ps as [_ Q2]. congruence.
           ++ unfold getcap in Ps. rewrite S1, S2 in Ps. rewrite S2 in Hrho.
              destruct (HFi (2 * h)) as [E|E]; rewrite E in Ps; destruct Ps as [_ Q2];
                destruct (HFi (2 * h + 1)) as [E'|E']; rewrite E' in Hrho; congruence.
      * rewrite Fs by lia. specialize (Hrho i). rewrite (FrF i) in Hrho by lia.
        destruct (HFi i) as [E|E]; rewrite E in Hrho; congruence.
Qed.

End DS.
