(* VmRefine.v — arrow (C) at program level: the interpreter over the copy-on-write State (the
   code as written) refines the same interpreter over the whole-state-copy reference machine.
   Whatever the reference-machine run does without getting stuck, the real run does too, with
   the same result, the same statistics, and related final states. *)
From FR Require Import Base State Utf8 Ast Analyze Sem Vm StateRefine.
From Coq Require Import Lia NArith.

(* the reference machine as a state interface *)
Definition r_op (r : rstate) (o : op) : option rstate :=
  match rexec r o with Some (r', _) => Some r' | None => None end.

Definition r_push (r : rstate) (pc ix : nat) : option rstate :=
  match rexec r (OPush pc ix) with Some (r', OOk true) => Some r' | _ => None end.
Definition r_pop (r : rstate) : option (rstate * nat * nat) :=
  match rexec r OPop with Some (r', OPcIx pc ix) => Some (r', pc, ix) | _ => None end.
Definition r_save (r : rstate) (sl : nat) (v : val) : option rstate := r_op r (OSave sl v).
Definition r_get (r : rstate) (sl : nat) : option val := nth_error (r_slots r) sl.
Definition r_spush (r : rstate) (v : val) : option rstate := r_op r (OStackPush v).
Definition r_spop (r : rstate) : option (rstate * val) :=
  match rexec r OStackPop with Some (r', OVal v) => Some (r', v) | _ => None end.
Definition r_count (r : rstate) : nat := length (r_alts r).
Definition r_cut (r : rstate) (c : nat) : option rstate := r_op r (OCut c).

Definition iface1 : iface rstate :=
  {| i_push := r_push; i_pop := r_pop; i_save := r_save; i_get := r_get;
     i_spush := r_spush; i_spop := r_spop; i_count := r_count; i_cut := r_cut;
     i_result := r_slots |}.

(* the simulation relation; compiled programs have at least the two slots of group 0 *)
Definition Rel (s : state) (r : rstate) : Prop := (WF s /\ 2 <= esp s) /\ abs s = r.

Lemma esp_save s sl v s' : st_save s sl v = Some s' -> esp s' = esp s.
Proof.
  unfold st_save. destruct (ns s <=? length (old s)); [|discriminate].
  destruct (nth_error (saves s) sl); [|discriminate].
  destruct (existsb _ _); intros H; inversion H; subst; reflexivity.
Qed.
Lemma esp_exec s o s' x : exec s o = Some (s', x) -> esp s' = esp s.
Proof.
  destruct o; cbn [exec].
  - unfold st_push. destruct (length (stack s) <? max_stack s); intros H; inversion H; subst; reflexivity.
  - unfold st_pop. destruct (ns s <=? length (old s)); [|discriminate].
    destruct (slots_in _ _); [|discriminate]. destruct (stack s); [discriminate|].
    intros H; inversion H; subst; reflexivity.
  - destruct (st_save s slot v) eqn:E; [|discriminate]. intros H; inversion H; subst. eapply esp_save; eauto.
  - destruct (st_get s slot); intros H; inversion H; subst; reflexivity.
  - unfold st_stack_push.
    set (s1 := if length (saves s) =? esp s then set_saves s (saves s ++ [V (esp s + 1)]) else s).
    assert (E1 : esp s1 = esp s) by (unfold s1; destruct (length (saves s) =? esp s); reflexivity).
    destruct (nth_error (saves s1) (esp s)) as [[sp|]|]; try discriminate.
    destruct (length (saves s1) =? sp).
    + destruct (st_save _ _ _) eqn:E; [|discriminate]. intros H; inversion H; subst.
      apply esp_save in E. cbn [set_saves esp] in E. congruence.
    + destruct (st_save s1 sp v) eqn:E2; [|discriminate]. destruct (st_save s0 _ _) eqn:E; [|discriminate].
      intros H; inversion H; subst. apply esp_save in E. apply esp_save in E2. congruence.
  - unfold st_stack_pop. destruct (nth_error (saves s) (esp s)) as [[[|sp]|]|]; try discriminate.
    destruct (nth_error (saves s) sp); [|discriminate].
    destruct (st_save s (esp s) (V sp)) eqn:E; [|discriminate]. intros H; inversion H; subst.
    eapply esp_save; eauto.
  - intros H; inversion H; subst; reflexivity.
  - unfold st_cut. destruct (length (stack s) =? count); [intros H; inversion H; subst; reflexivity|].
    destruct (length (stack s) <? count); [discriminate|]. destruct (length (old s) <? _); [discriminate|].
    intros H; inversion H; subst; reflexivity.
Qed.

Lemma rel_count s r : Rel s r -> st_count s = r_count r.
Proof. intros [_ <-]. unfold r_count, st_count. now rewrite abs_alts_length. Qed.

Lemma rel_slots_len s r : Rel s r -> length (r_slots r) = esp s.
Proof.
  intros [[HW He] <-]. cbn [abs r_slots]. rewrite firstn_length.
  pose proof (ptr_ok_len _ _ (wf_ptr _ HW)). lia.
Qed.

Lemma rel_op s r o r' x : Rel s r -> rexec r o = Some (r', x) ->
  exists s', exec s o = Some (s', x) /\ Rel s' r'.
Proof.
  intros [[HW He] <-] H. destruct (sim_step s o r' x HW H) as (s' & E & Ha & HW'). exists s'. split; auto.
  split; auto. split; auto. rewrite (esp_exec _ _ _ _ E). exact He.
Qed.

Lemma rel_push s r pc ix : Rel s r ->
  match r_push r pc ix with
  | Some r' => exists s', st_push s pc ix = Some s' /\ Rel s' r'
  | None => st_push s pc ix = None
  end.
Proof.
  intros HR. unfold r_push. destruct (rexec r (OPush pc ix)) as [[r' x]|] eqn:E.
  - destruct (rel_op _ _ _ _ _ HR E) as (s' & Ex & HR'). cbn [exec] in Ex.
    destruct (st_push s pc ix) as [s2|] eqn:Ep; inversion Ex; subst; eauto.
  - cbn [rexec] in E. destruct (length (r_alts r) <? r_max r); discriminate.
Qed.

Lemma rel_pop s r r' pc ix : Rel s r -> r_pop r = Some (r', pc, ix) ->
  exists s', st_pop s = Some (s', pc, ix) /\ Rel s' r'.
Proof.
  intros HR H. unfold r_pop in H. destruct (rexec r OPop) as [[r2 x]|] eqn:E; [|discriminate].
  destruct x; try discriminate. inversion H; subst.
  destruct (rel_op _ _ _ _ _ HR E) as (s' & Ex & HR'). cbn [exec] in Ex.
  destruct (st_pop s) as [[[s2 p2] i2]|]; inversion Ex; subst; eauto.
Qed.

Lemma rel_save s r sl v r' : Rel s r -> r_save r sl v = Some r' ->
  exists s', st_save s sl v = Some s' /\ Rel s' r'.
Proof.
  intros HR H. unfold r_save, r_op in H. destruct (rexec r (OSave sl v)) as [[r2 x]|] eqn:E; [|discriminate].
  inversion H; subst. destruct (rel_op _ _ _ _ _ HR E) as (s' & Ex & HR'). cbn [exec] in Ex.
  destruct (st_save s sl v); inversion Ex; subst; eauto.
Qed.

Lemma rel_get s r sl v : Rel s r -> r_get r sl = Some v -> st_get s sl = Some v.
Proof.
  intros [[HW He] <-]. unfold r_get, st_get. cbn [abs r_slots]. rewrite nth_error_firstn.
  destruct (sl <? esp s); [auto|discriminate].
Qed.

Lemma rel_spush s r v r' : Rel s r -> r_spush r v = Some r' ->
  exists s', st_stack_push s v = Some s' /\ Rel s' r'.
Proof.
  intros HR H. unfold r_spush, r_op in H. destruct (rexec r (OStackPush v)) as [[r2 x]|] eqn:E; [|discriminate].
  inversion H; subst. destruct (rel_op _ _ _ _ _ HR E) as (s' & Ex & HR'). cbn [exec] in Ex.
  destruct (st_stack_push s v); inversion Ex; subst; eauto.
Qed.

Lemma rel_spop s r r' v : Rel s r -> r_spop r = Some (r', v) ->
  exists s', st_stack_pop s = Some (s', v) /\ Rel s' r'.
Proof.
  intros HR H. unfold r_spop in H. destruct (rexec r OStackPop) as [[r2 x]|] eqn:E; [|discriminate].
  destruct x; try discriminate. inversion H; subst.
  destruct (rel_op _ _ _ _ _ HR E) as (s' & Ex & HR'). cbn [exec] in Ex.
  destruct (st_stack_pop s) as [[s2 v2]|]; inversion Ex; subst; eauto.
Qed.

Lemma rel_cut s r c r' : Rel s r -> r_cut r c = Some r' ->
  exists s', st_cut s c = Some s' /\ Rel s' r'.
Proof.
  intros HR H. unfold r_cut, r_op in H. destruct (rexec r (OCut c)) as [[r2 x]|] eqn:E; [|discriminate].
  inversion H; subst. destruct (rel_op _ _ _ _ _ HR E) as (s' & Ex & HR'). cbn [exec] in Ex.
  destruct (st_cut s c); inversion Ex; subst; eauto.
Qed.

(* results of one instruction, related *)
Definition ires_rel (a : gires state) (b : gires rstate) : Prop :=
  match b with
  | INext pc ix r' => exists s', a = INext pc ix s' /\ Rel s' r'
  | IFailed r' => exists s', a = IFailed s' /\ Rel s' r'
  | IDone sv1 => exists sv0 n, a = IDone sv0 /\ firstn n sv0 = sv1
  | IStackOverflow => a = IStackOverflow
  | IPanicked => True
  end.

Section Sim.
Variable cx : ctx.
Notation ex0 := (gexec_insn cx state iface0).
Notation ex1 := (gexec_insn cx rstate iface1).

Ltac red01 := cbn [iface0 iface1 i_push i_pop i_save i_get i_spush i_spop i_count i_cut i_result] in *.

Lemma fnla_sim : forall fuel s r tgt r', Rel s r ->
  fnla rstate iface1 fuel r tgt = Some r' ->
  exists s', fnla state iface0 fuel s tgt = Some s' /\ Rel s' r'.
Proof.
  induction fuel as [|f IH]; intros s r tgt r' HR H; cbn [fnla] in *; red01; [discriminate|].
  destruct (r_pop r) as [[[r1 ppc] pix]|] eqn:E; [|discriminate].
  destruct (rel_pop _ _ _ _ _ HR E) as (s1 & E1 & HR1). rewrite E1.
  destruct (ppc =? tgt); [inversion H; subst; eauto|eauto].
Qed.

Lemma save_groups_sim : forall n s r caps sg r', Rel s r ->
  save_groups rstate iface1 r caps sg n = Some r' ->
  exists s', save_groups state iface0 s caps sg n = Some s' /\ Rel s' r'.
Proof.
  induction n as [|n IH]; intros s r caps sg r' HR H; cbn [save_groups] in *; red01.
  - inversion H; subst; eauto.
  - destruct (getcap caps (2 * sg)) as [a|]; [|eauto].
    destruct (getcap caps (2 * sg + 1)) as [b|]; [|eauto].
    destruct (r_save r (2 * sg) (V a)) as [r1|] eqn:E1; [|discriminate].
    destruct (rel_save _ _ _ _ _ HR E1) as (s1 & Es1 & HR1). rewrite Es1.
    destruct (r_save r1 (2 * sg + 1) (V b)) as [r2|] eqn:E2; [|discriminate].
    destruct (rel_save _ _ _ _ _ HR1 E2) as (s2 & Es2 & HR2). rewrite Es2. eauto.
Qed.

Ltac use_save HR :=
  match goal with
  | |- context [r_save ?r ?sl ?v] =>
      let E := fresh "E" in destruct (r_save r sl v) as [?r1|] eqn:E; [|exact I];
      let s1 := fresh "s1" in let Es := fresh "Es" in let HR1 := fresh "HR1" in
      destruct (rel_save _ _ _ _ _ HR E) as (s1 & Es & HR1); rewrite Es
  end.
Ltac use_push HR :=
  match goal with
  | |- context [r_push ?r ?pc ?ix] =>
      let Hp := fresh "Hp" in pose proof (rel_push _ _ pc ix HR) as Hp;
      destruct (r_push r pc ix) as [?r2|];
      [let s2 := fresh "s2" in let Ep := fresh "Ep" in let HR2 := fresh "HR2" in
       destruct Hp as (s2 & Ep & HR2); rewrite Ep | rewrite Hp]
  end.
Ltac use_get HR :=
  match goal with
  | |- context [r_get ?r ?sl] =>
      let E := fresh "Eg" in destruct (r_get r sl) as [?v|] eqn:E;
      [rewrite (rel_get _ _ _ _ HR E) | ]
  end.

Theorem exec_sim i pc ix s r : Rel s r -> ires_rel (ex0 i pc ix s) (ex1 i pc ix r).
Proof.
  intros HR. destruct i; cbn [gexec_insn]; unfold push_or, save_or_panic; red01.
  - (* End *)
    destruct (r_get r 1) as [slot1|] eqn:E1.
    + rewrite (rel_get _ _ _ _ HR E1). destruct (r_get r 0) as [s0|] eqn:E0; [|exact I].
      rewrite (rel_get _ _ _ _ HR E0).
      destruct (match s0 with V a => match slot1 with V b => b <? a | MAXV => false end
                | MAXV => match slot1 with V _ => true | MAXV => false end end).
      * destruct (r_save r 0 slot1) as [r1|] eqn:E; [|exact I].
        destruct (rel_save _ _ _ _ _ HR E) as (s1 & Es & [HW1 <-]). rewrite Es.
        exists (saves s1), (esp s1). split; reflexivity.
      * destruct HR as [HW <-]. exists (saves s), (esp s). split; reflexivity.
    + exfalso. pose proof (rel_slots_len _ _ HR) as Hl. destruct HR as [[HW He] <-].
      unfold r_get in E1. apply nth_error_None in E1. lia.
  - (* Any *) destruct (nth_error (c_text cx) ix); eexists; eauto.
  - (* AnyNoNL *) destruct (nth_error (c_text cx) ix) as [b|]; [destruct (b =? 10)|]; eexists; eauto.
  - destruct (assert_holds cx a ix); eexists; eauto.
  - destruct (lit_at (c_text cx) ix v); eexists; eauto.
  - (* Split *) use_push HR; cbn [ires_rel]; eauto.
  - eexists; eauto.
  - (* Save *) use_save HR. cbn [ires_rel]. eauto.
  - use_save HR. cbn [ires_rel]. eauto.
  - (* Restore *) use_get HR; [|exact I]. destruct v; cbn [ires_rel]; eauto.
  - (* RepeatGr *) use_get HR; [|exact I]. destruct v as [c|]; [|exact I].
    destruct (N.eqb (N.of_nat c) hi); [cbn [ires_rel]; eauto|].
    use_save HR. destruct (N.leb lo (N.of_nat c)); [|cbn [ires_rel]; eauto].
    use_push HR1; cbn [ires_rel]; eauto.
  - (* RepeatNg *) use_get HR; [|exact I]. destruct v as [c|]; [|exact I].
    destruct (N.eqb (N.of_nat c) hi); [cbn [ires_rel]; eauto|].
    use_save HR. destruct (N.leb lo (N.of_nat c)); [|cbn [ires_rel]; eauto].
    use_push HR1; cbn [ires_rel]; eauto.
  - (* RepeatEpsilonGr *) use_get HR; [|exact I]. destruct v as [c|]; [|exact I].
    use_get HR; [|exact I].
    destruct (N.ltb lo (N.of_nat c) && val_eqb v (V ix)); [cbn [ires_rel]; eauto|].
    use_save HR. destruct (N.leb lo (N.of_nat c)); [|cbn [ires_rel]; eauto].
    use_save HR1. use_push HR0; cbn [ires_rel]; eauto.
  - (* RepeatEpsilonNg *) use_get HR; [|exact I]. destruct v as [c|]; [|exact I].
    use_get HR; [|exact I].
    destruct (N.ltb lo (N.of_nat c) && val_eqb v (V ix)); [cbn [ires_rel]; eauto|].
    use_save HR. destruct (N.leb lo (N.of_nat c)); [|cbn [ires_rel]; eauto].
    use_save HR1. use_push HR0; cbn [ires_rel]; eauto.
  - (* FailNegativeLookAround *)
    rewrite (rel_count _ _ HR).
    destruct (fnla rstate iface1 (S (r_count r)) r (S pc)) as [r'|] eqn:E; [|exact I].
    destruct (fnla_sim _ _ _ _ _ HR E) as (s' & Es & HR'). rewrite Es. cbn [ires_rel]. eauto.
  - (* GoBack *) destruct (goback cx ix count ix); cbn [ires_rel]; eauto.
  - (* Backref *)
    use_get HR; [|exact I]. destruct v as [lo|].
    + destruct (r_get r (S slot)) as [v2|] eqn:E2; [|exact I].
      rewrite (rel_get _ _ _ _ HR E2). destruct v2 as [hi|]; [|cbn [ires_rel]; eauto].
      destruct (hi <? lo); [cbn [ires_rel]; eauto|].
      destruct ((hi <=? length (c_text cx)) && is_boundary (c_text cx) lo && is_boundary (c_text cx) hi); [|exact I].
      destruct (lit_at _ _ _); cbn [ires_rel]; eauto.
    + destruct (st_get s (S slot)); cbn [ires_rel]; eauto.
  - (* BeginAtomic *)
    rewrite (rel_count _ _ HR).
    destruct (r_spush r (V (r_count r))) as [r'|] eqn:E; [|exact I].
    destruct (rel_spush _ _ _ _ HR E) as (s' & Es & HR'). rewrite Es. cbn [ires_rel]. eauto.
  - (* EndAtomic *)
    destruct (r_spop r) as [[r1 v]|] eqn:E; [|exact I].
    destruct (rel_spop _ _ _ _ HR E) as (s1 & Es & HR1). rewrite Es.
    destruct v as [c|]; [|exact I].
    destruct (r_cut r1 c) as [r2|] eqn:E2; [|exact I].
    destruct (rel_cut _ _ _ _ HR1 E2) as (s2 & Es2 & HR2). rewrite Es2. cbn [ires_rel]. eauto.
  - (* Delegate *)
    destruct (oracle cx es start_group end_group ix) as [[ix' caps]|]; [|cbn [ires_rel]; eauto].
    destruct (start_group =? end_group); [cbn [ires_rel]; eauto|].
    destruct (save_groups rstate iface1 r caps start_group (end_group - start_group)) as [r'|] eqn:E; [|exact I].
    destruct (save_groups_sim _ _ _ _ _ _ HR E) as (s' & Es & HR'). rewrite Es. cbn [ires_rel]. eauto.
  - destruct (negb (ix =? c_pos cx) || c_skipped cx); cbn [ires_rel]; eauto.
  - (* BackrefExistsCondition *) use_get HR; [|exact I]. destruct v; cbn [ires_rel]; eauto.
Qed.

(* ---------- the run loop ---------- *)

Definition out_rel (a b : outcome) : Prop :=
  match b with
  | RMatch sv1 => exists sv0 n, a = RMatch sv0 /\ firstn n sv0 = sv1
  | RPanic => True
  | _ => a = b
  end.

Theorem run_sim p lim : forall fuel pc ix s r bt st, Rel s r ->
  let '(o1, st1) := grun_loop cx rstate iface1 p lim fuel pc ix r bt st in
  let '(o0, st0) := grun_loop cx state iface0 p lim fuel pc ix s bt st in
  out_rel o0 o1 /\ (o1 <> RPanic -> st0 = st1).
Proof.
  induction fuel as [|f IH]; intros pc ix s r bt st HR; cbn [grun_loop].
  - split; [reflexivity|auto].
  - red01. rewrite (rel_count _ _ HR).
    destruct (nth_error (p_body p) pc) as [i|]; [|split; [exact I|intros H; congruence]].
    pose proof (exec_sim i pc ix s r HR) as Hs.
    destruct (gexec_insn cx rstate iface1 i pc ix r) as [pc' ix' r'|r'|sv1| |]; cbn [ires_rel] in Hs.
    + destruct Hs as (s' & -> & HR'). apply IH; auto.
    + destruct Hs as (s' & -> & HR'). rewrite (rel_count _ _ HR').
      destruct (r_count r' =? 0); [split; [reflexivity|auto]|].
      destruct (match lim with Some l => N.ltb l (N.succ bt) | None => false end); [split; [reflexivity|auto]|].
      destruct (r_pop r') as [[[r'' pc'] ix']|] eqn:E;
        [|match goal with |- context [match ?m with (o0, st0) => _ end] => destruct m end; split; [exact I|intros H; congruence]].
      destruct (rel_pop _ _ _ _ _ HR' E) as (s'' & -> & HR''). apply IH; auto.
    + destruct Hs as (sv0 & n & -> & Hn). split; [exists sv0, n; auto|auto].
    + rewrite Hs. split; [reflexivity|auto].
    + match goal with |- context [match ?m with (o0, st0) => _ end] => destruct m end.
      split; [exact I|intros H; congruence].
Qed.

End Sim.
