(* CompileCorrect.v — arrow (B): the code the compiler emits for an expression, run on the
   reference machine, arrives at its exit exactly as often, in the same order and with the
   same states as the reference semantics lists results; then it fails back to the untouched
   stack beneath it.  Stage 1: every construct except Conditional, on programs that contain no
   Delegate instruction (all easy leaves next to hard constructs are literals). *)
From FR Require Import Base State Utf8 Utf8Facts Chars Ast Analyze Sem ExprLemmas SemSound GoBack
                       Vm Compile StateRefine VmRefine SemK Scope Det Param EasyBlock Machine DelegStep Atomize.
From Coq Require Import Lia NArith.

Section CC.
Variable cs : list (list nat).
Hypothesis W : valid_chars cs.
Variable cx : ctx.
Hypothesis Htext : c_text cx = concat cs.
Let t := concat cs.
Hypothesis Hlen : (N.of_nat (length t) < usize_max)%N.
Variable bs : N -> bool.
Variable P : list insn.
Variable MS : nat.
Variable NC : nat.                  (* number of capture slots = 2 * number of groups *)
Hypothesis HNC : 2 <= NC.           (* group 0 always exists *)
Variable fuel : nat.
Hypothesis Hfuel : length t < fuel.   (* the unbounded-repeat fuel never runs out *)

Notation Gen := (Gen cx P MS).
Notation steps := (steps cx P MS).
Notation mstep := (mstep cx P MS).
Notation at_ := (at_ P).

Definition At (pc : nat) (code : list insn) : Prop :=
  forall k i, nth_error code k = Some i -> nth_error P (pc + k) = Some i.

Lemma At_app pc c1 c2 : At pc (c1 ++ c2) -> At pc c1 /\ At (pc + length c1) c2.
Proof.
  intros H; split; intros k x Hk.
  - apply H. rewrite nth_error_app1; auto. apply nth_error_Some; congruence.
  - replace (pc + length c1 + k) with (pc + (length c1 + k)) by lia. apply H.
    rewrite nth_error_app2 by lia. replace (length c1 + k - length c1) with k by lia. auto.
Qed.
Lemma At_cons pc x c : At pc (x :: c) -> at_ pc x /\ At (S pc) c.
Proof.
  intros H; split.
  - specialize (H 0 x eq_refl). now rewrite Nat.add_0_r in H.
  - intros k y Hk. specialize (H (S k) y Hk). now replace (S pc + k) with (pc + S k) by lia.
Qed.
Lemma At_nil pc : At pc []. Proof. intros k i H. destruct k; discriminate. Qed.

(* the Delegate instructions the theorem covers: deterministic, capture-free blocks (Proofs/Det.v) *)
Definition okdeleg (code : list insn) : Prop := forallb okinsn code = true.
(* the stage-1 class: no Delegate instruction at all *)
Definition is_deleg (i : insn) : bool := match i with IDelegate _ _ _ => true | _ => false end.
Definition nodeleg (code : list insn) : Prop := forallb (fun i => negb (is_deleg i)) code = true.
Lemma nodeleg_okdeleg code : nodeleg code -> okdeleg code.
Proof.
  unfold nodeleg, okdeleg. induction code as [|i c IH]; cbn [forallb]; auto. intros H.
  apply andb_true_iff in H as [H1 H2]. rewrite IH by auto. destruct i; try reflexivity. discriminate.
Qed.
Lemma okdeleg_app a b : okdeleg (a ++ b) <-> okdeleg a /\ okdeleg b.
Proof. unfold okdeleg. rewrite forallb_app, andb_true_iff. tauto. Qed.
Lemma okdeleg_cons i c : okdeleg (i :: c) <-> okinsn i = true /\ okdeleg c.
Proof. unfold okdeleg. cbn [forallb]. rewrite andb_true_iff. tauto. Qed.

Definition caps (sl : list val) : list val := firstn NC sl.
Definition frame (k k' : nat) (sl0 sl1 : list val) : Prop :=
  length sl1 = length sl0 /\
  forall j, NC <= j -> j < k \/ k' <= j -> nth_error sl1 j = nth_error sl0 j.
Definition sof (v : vst) : sst := (v_ix v, caps (v_sl v)).

(* the auxiliary stack after a block: exactly as before, or — where conditionals may have taken
   their false path (known finding F-condleak) — as before plus leaked entries on top *)
Definition auxrel (lk : bool) (a0 a : list val) : Prop := if lk then exists L, a = a0 ++ L else a = a0.
Lemma auxrel_refl lk a : auxrel lk a a.
Proof. destruct lk; cbn; auto. exists []. now rewrite app_nil_r. Qed.
Lemma auxrel_trans lk a b c : auxrel lk a b -> auxrel lk b c -> auxrel lk a c.
Proof. destruct lk; cbn; [|congruence]. intros [L1 ->] [L2 ->]. exists (L1 ++ L2). now rewrite app_assoc. Qed.
Lemma auxrel_eq lk a b : b = a -> auxrel lk a b.
Proof. intros ->. apply auxrel_refl. Qed.
Lemma auxrel_false a b : auxrel false a b -> b = a. Proof. auto. Qed.
Lemma auxrel_weaken lk a b : auxrel false a b -> auxrel lk a b.
Proof. intros H. apply auxrel_eq. exact H. Qed.
Local Hint Resolve auxrel_refl : core.

Section LK.
Variable lk : bool.

Definition R (v0 : vst) (k k' : nat) (x : sst) : vst -> Prop := fun v =>
  v_ix v = fst x /\ caps (v_sl v) = snd x /\ auxrel lk (v_aux v0) (v_aux v) /\ frame k k' (v_sl v0) (v_sl v).

Lemma frame_refl k k' sl : frame k k' sl sl. Proof. split; auto. Qed.
Lemma frame_trans k k1 k' a b c : k <= k1 <= k' -> frame k k1 a b -> frame k1 k' b c -> frame k k' a c.
Proof. intros H [L1 F1] [L2 F2]. split; [congruence|]. intros j Hj Ho. rewrite F2, F1; auto; lia. Qed.
Lemma frame_widen k k' l l' a b : l <= k -> k' <= l' -> frame k k' a b -> frame l l' a b.
Proof. intros ? ? [L F]. split; auto. intros j Hj Ho. apply F; auto; lia. Qed.

Lemma sof_eq v x : v_ix v = fst x -> caps (v_sl v) = snd x -> sof v = x.
Proof. destruct x; unfold sof; simpl; intros; congruence. Qed.

Lemma caps_upd_lt sl k v : k < NC -> caps (upd sl k v) = upd (caps sl) k v.
Proof. intros. unfold caps. now apply firstn_upd_lt. Qed.
Lemma caps_upd_ge sl k v : NC <= k -> caps (upd sl k v) = caps sl.
Proof. intros. unfold caps. now apply firstn_upd_ge. Qed.

Lemma frame_upd k k' sl j v : k <= j < k' -> frame k k' sl (upd sl j v).
Proof.
  intros H. split; [apply upd_length|]. intros i Hi Ho. rewrite nth_error_upd.
  destruct (Nat.eqb_spec j i); [lia|]. reflexivity.
Qed.
Lemma frame_upd_cap k k' sl j v : j < NC -> frame k k' sl (upd sl j v).
Proof.
  intros H. split; [apply upd_length|]. intros i Hi Ho. rewrite nth_error_upd.
  destruct (Nat.eqb_spec j i); [lia|]. reflexivity.
Qed.

(* a run of literals is one literal *)
Lemma lit_at_app : forall a b ix, lit_at t ix (a ++ b) = lit_at t ix a && lit_at t (ix + length a) b.
Proof.
  induction a as [|c a IH]; intros b ix; cbn [app lit_at length].
  - rewrite Nat.add_0_r. destruct (Nat.leb_spec ix (length t)) as [Hle|Hgt]; [reflexivity|].
    cbn [andb]. destruct b; cbn [lit_at].
    + apply Nat.leb_gt. lia.
    + assert (Hn : nth_error t ix = None) by (apply nth_error_None; lia). now rewrite Hn.
  - destruct (nth_error t ix) as [x|]; auto. rewrite IH.
    replace (S ix + length a) with (ix + S (length a)) by lia. now rewrite andb_assoc.
Qed.

Definition lit_res (st : sst) (v : list nat) : list sst :=
  if lit_at t (fst st) v then [(fst st + length v, snd st)] else [].

Lemma lit_res_nil st : fst st <= length t -> lit_res st [] = [st].
Proof.
  intros H. unfold lit_res. cbn [lit_at length]. destruct (Nat.leb_spec (fst st) (length t)); [|lia].
  rewrite Nat.add_0_r. destruct st; reflexivity.
Qed.

Fixpoint push_literals (l : list expr) : list nat :=
  match l with [] => [] | x :: r => push_literal x ++ push_literals r end.
Lemma push_literal_concat es : push_literal (Concat es) = push_literals es.
Proof. induction es as [|x r IH]; [reflexivity|]. cbn [push_literals]. rewrite <- IH. reflexivity. Qed.
Lemma is_literal_concat es : is_literal (Concat es) = forallb is_literal es.
Proof. induction es as [|x r IH]; [reflexivity|]. cbn [forallb]. rewrite <- IH. reflexivity. Qed.
Lemma flat_map_push_literal es : flat_map push_literal es = push_literals es.
Proof. induction es as [|x r IH]; [reflexivity|]. cbn [flat_map push_literals]. now rewrite IH. Qed.

Lemma lit_res_app st a b : fst st <= length t ->
  flat_map (fun s => lit_res s b) (lit_res st a) = lit_res st (a ++ b).
Proof.
  intros H. unfold lit_res at 2 3. rewrite lit_at_app. destruct (lit_at t (fst st) a); cbn [flat_map andb]; auto.
  unfold lit_res. cbn [fst snd]. destruct (lit_at t (fst st + length a) b); cbn [app]; auto.
  rewrite app_length. now rewrite Nat.add_assoc.
Qed.

Lemma lit_res_le st v s' : In s' (lit_res st v) -> fst s' <= length t.
Proof.
  unfold lit_res. destruct (lit_at t (fst st) v) eqn:E; [|intros []]. intros [<-|[]]. cbn [fst].
  apply lit_at_spec in E. lia.
Qed.

Lemma flat_map_ext_in' {A B} (f h : A -> list B) l : (forall a, In a l -> f a = h a) -> flat_map f l = flat_map h l.
Proof. induction l as [|a l IH]; intros H; simpl; auto. rewrite H, IH; auto. - intros; apply H; right; auto. - left; auto. Qed.

Lemma sem_is_literal : forall e, is_literal e = true -> forall fu g st, fst st <= length t ->
  sem cx e fu g st = lit_res st (push_literal e).
Proof.
  induction e using expr_ind'; intros Hl fu g0 st Hix; try discriminate.
  - destruct st as [ix cp]. cbn [is_literal] in Hl. apply negb_true_iff in Hl. subst c.
    cbn [sem push_literal]. rewrite Htext. reflexivity.
  - rewrite sem_concat_eq, push_literal_concat. rewrite is_literal_concat in Hl. revert g0 st Hix.
    induction H as [|x r Hx Hr IH]; intros g0 st Hix; cbn [sem_cat push_literals].
    + now rewrite lit_res_nil.
    + cbn [forallb] in Hl. apply andb_true_iff in Hl. destruct Hl as [H1 H2].
      rewrite Hx by auto. rewrite <- lit_res_app by auto.
      apply flat_map_ext_in'. intros a Ha. apply IH; auto. eapply lit_res_le; eauto.
Qed.

Lemma sem_cat_literals : forall es, forallb is_literal es = true -> forall fu g st, fst st <= length t ->
  sem_cat cx fu g es st = lit_res st (push_literals es).
Proof.
  intros es Hl fu g st Hix. rewrite <- push_literal_concat, <- sem_concat_eq.
  apply sem_is_literal; auto.
Qed.

(* ---------- the statement ---------- *)

Definition segP (pc : nat) (code : list insn) (ns ns' : nat) (f : sst -> list sst) : Prop :=
  ns <= ns' /\
  forall v K, ns' <= length (v_sl v) -> st_ok cs (sof v) ->
  Gen pc (pc + length code) K (RunV pc v K) (map (R v ns ns') (f (sof v))).

Definition is_behind (la : lookkind) : bool := match la with LookBehind | LookBehindNeg => true | _ => false end.
Definition lb_alt_const (c : expr) (la : lookkind) : Prop :=
  match la, c with
  | (LookBehind | LookBehindNeg), Alt _ => const_size c = true
  | _, _ => True
  end.

(* ([lo <= hi] for counted repeats is no hypothesis: the compiler rejects the others.)
   [lk = false]: no conditional at all;
   [lk = true]: conditionals may occur, except inside the body of an atomic group, of a look-around
   or in the condition position of a conditional (where a leaked auxiliary-stack entry would be
   popped by the enclosing EndAtomic: F-condleak) *)
Fixpoint rok (b : bool) (e : expr) : Prop :=
  match e with
  | Repeat c _ _ _ => rok b c
  | Concat es | Alt es => (fix go (l : list expr) : Prop := match l with [] => True | x :: r => rok b x /\ go r end) es
  | Group c => rok b c
  | LookAround c la => rok false c /\ (is_behind la = true -> zok c)   (* the \Z helper only under a look-ahead *)
  | AtomicGroup c => rok false c
  | Conditional c y n => if b then rok false c /\ rok b y /\ rok b n else False
  | _ => True
  end.
Fixpoint rok_list (b : bool) (l : list expr) : Prop := match l with [] => True | x :: r => rok b x /\ rok_list b r end.
Lemma rok_concat b es : rok b (Concat es) = rok_list b es. Proof. induction es; simpl in *; congruence. Qed.
Lemma rok_alt b es : rok b (Alt es) = rok_list b es. Proof. induction es; simpl in *; congruence. Qed.

Definition oke (g : nat) (e : expr) : Prop := wfe e /\ zok e /\ acheck g e = None /\ rok lk e.

Definition seg_stmt (e : expr) : Prop := forall g hc pc ns code ns',
  visit bs e g hc pc ns = inr (code, ns') -> okdeleg code -> At pc code ->
  oke g e -> NC <= ns -> 2 * (g + ngroups e) <= NC ->
  segP pc code ns ns' (sem cx e fuel g).

Lemma st_ok_ix v : st_ok cs (sof v) -> v_ix v <= length t.
Proof. intros [Hb _]. apply bnd_le in Hb. exact Hb. Qed.

Lemma Gen_one pc q K v v' (Q : vst -> Prop) :
  steps (RunV pc v K) (RunV q v' K) -> Q v' -> Gen pc q K (RunV pc v K) [Q].
Proof.
  intros Hs HQ. eapply Gen_cons with (F := []); simpl; eauto.
  - constructor.
  - apply Gen_nil, steps_refl.
Qed.

Lemma Gen_one' p q K c v' (Q : vst -> Prop) :
  steps c (RunV q v' K) -> Q v' -> Gen p q K c [Q].
Proof.
  intros Hs HQ. eapply Gen_cons with (F := []); simpl; eauto.
  - constructor.
  - apply Gen_nil, steps_refl.
Qed.

Lemma Gen_none pc q K v : steps (RunV pc v K) (Fail K) -> Gen pc q K (RunV pc v K) [].
Proof. intros. now apply Gen_nil. Qed.

Lemma R_same v k x : sof v = x -> R v k k x v.
Proof. intros <-. unfold R, sof; cbn [fst snd]. repeat split; auto. Qed.

(* whole easy sub-expression handed over: on delegate-free programs it is a literal *)
Lemma seg_deleg e g pc ns v K : okdeleg (delegate1 e g) -> At pc (delegate1 e g) ->
  v_ix v <= length t ->
  Gen pc (pc + length (delegate1 e g)) K (RunV pc v K) (map (R v ns ns) (sem cx e fuel g (sof v))).
Proof.
  unfold delegate1. destruct (is_literal e) eqn:El; intros Hn Ha Hix.
  - apply At_cons in Ha as [Ha _]. rewrite sem_is_literal by auto. unfold lit_res. cbn [fst snd sof length].
    replace (pc + 1) with (S pc) by lia.
    pose proof (step_lit cx P MS pc (v_ix v) (v_sl v) (v_aux v) K _ Ha) as Hs. rewrite Htext in Hs. fold t in Hs.
    destruct (lit_at t (v_ix v) (push_literal e)); cbn [map].
    + eapply (Gen_one pc (S pc) K v {| v_ix := v_ix v + length (push_literal e); v_sl := v_sl v; v_aux := v_aux v |}).
      * apply steps_step. exact Hs.
      * unfold R; cbn [v_ix v_sl v_aux fst snd]. repeat split; auto.
    + apply Gen_none. apply steps_step. exact Hs.
  - (* a deterministic block handed to the automata engine *)
    apply At_cons in Ha as [Ha _]. apply okdeleg_cons in Hn as [Hn _]. cbn [okinsn] in Hn.
    apply andb_true_iff in Hn as [Hd Heq]. apply Nat.eqb_eq in Heq.
    destruct (step_delegate_det cx P MS pc (v_ix v) (v_sl v) (v_aux v) K [e] g _ Ha Heq Hd) as (r & Hr & Hs).
    cbn [length]. replace (pc + 1) with (S pc) by lia.
    assert (Er : sem cx e fuel g (sof v) = one r (caps (v_sl v))).
    { specialize (Hr fuel g (caps (v_sl v))). rewrite sem_concat_eq in Hr. cbn [sem_cat] in Hr.
      rewrite <- Hr. unfold sof. generalize (sem cx e fuel g (v_ix v, caps (v_sl v))). intros l.
      induction l as [|a l IHl]; [reflexivity|]. cbn [flat_map app]. now rewrite <- IHl. }
    rewrite Er. destruct r as [j|]; cbn [one map].
    + eapply (Gen_one pc (S pc) K v {| v_ix := j; v_sl := v_sl v; v_aux := v_aux v |}).
      * apply steps_step. exact Hs.
      * unfold R; cbn [v_ix v_sl v_aux fst snd]. repeat split; auto.
    + apply Gen_none. apply steps_step. exact Hs.
Qed.

Ltac start e :=
  intros g hc pc ns code ns' Hv Hnd HAt (Hw & Hz & Hac & Hrk) Hns Hng; cbn [visit] in Hv;
  destruct (negb hc && negb (hard bs g e)) eqn:Edel;
  [inversion Hv; subst code ns'; split; [lia|]; intros v K Hsl Hok;
   apply seg_deleg; auto using st_ok_ix | ].

Lemma seg_empty : seg_stmt Empty.
Proof.
  start Empty. inversion Hv; subst. split; [lia|]. intros v K Hsl Hok.
  cbn [length sem sof]. rewrite Nat.add_0_r. destruct v as [ix sl aux]. cbn [map].
  eapply Gen_one; [apply steps_refl|]. apply R_same. reflexivity.
Qed.

Lemma seg_any nl : seg_stmt (Any nl).
Proof.
  start (Any nl). destruct nl; inversion Hv; subst; (split; [lia|]); intros v K Hsl Hok;
    apply At_cons in HAt as [Ha _]; destruct v as [ix sl aux]; cbn [sem sof v_ix v_sl length];
    rewrite Htext; fold t; replace (pc + 1) with (S pc) by lia.
  - destruct (nth_error t ix) as [b|] eqn:E; cbn [orb map].
    + eapply Gen_one with (v' := {| v_ix := ix + cp_len b; v_sl := sl; v_aux := aux |}).
      * apply steps_step. eapply step_any; eauto. now rewrite Htext.
      * unfold R; cbn; repeat split; auto.
    + apply Gen_none. apply steps_step. eapply step_any_no; eauto. now rewrite Htext.
  - destruct (nth_error t ix) as [b|] eqn:E; cbn [orb map].
    + destruct (b =? 10) eqn:Eb; cbn [negb map].
      * apply Gen_none. apply steps_step. eapply step_anynl_no; [exact Ha|]. rewrite Htext. change (concat cs) with t. cbn [v_ix]. rewrite E. auto.
      * eapply Gen_one with (v' := {| v_ix := ix + cp_len b; v_sl := sl; v_aux := aux |}).
        -- apply steps_step. eapply step_anynl; eauto. now rewrite Htext.
        -- unfold R; cbn; repeat split; auto.
    + apply Gen_none. apply steps_step. eapply step_anynl_no; [exact Ha|]. rewrite Htext. change (concat cs) with t. cbn [v_ix]. rewrite E. auto.
Qed.

Lemma seg_assertion a : seg_stmt (Assertion a).
Proof.
  start (Assertion a). inversion Hv; subst. split; [lia|]. intros v K Hsl Hok.
  apply At_cons in HAt as [Ha _]. destruct v as [ix sl aux]. cbn [sem sof v_ix v_sl length].
  replace (pc + 1) with (S pc) by lia.
  pose proof (step_assert cx P MS pc ix sl aux K a Ha) as Hs.
  destruct (assert_holds cx a ix); cbn [map].
  - eapply Gen_one with (v' := {| v_ix := ix; v_sl := sl; v_aux := aux |}); [apply steps_step; exact Hs|].
    apply R_same. reflexivity.
  - apply Gen_none. apply steps_step. exact Hs.
Qed.

Lemma seg_literal val c : seg_stmt (Literal val c).
Proof.
  start (Literal val c). destruct c.
  - inversion Hv; subst. split; [lia|]. intros v K Hsl Hok. apply seg_deleg; auto using st_ok_ix.
  - inversion Hv; subst. split; [lia|]. intros v K Hsl Hok.
    apply At_cons in HAt as [Ha _]. destruct v as [ix sl aux]. cbn [sem sof v_ix v_sl length].
    replace (pc + 1) with (S pc) by lia. rewrite Htext. fold t.
    pose proof (step_lit cx P MS pc ix sl aux K val Ha) as Hs. rewrite Htext in Hs. fold t in Hs.
    destruct (lit_at t ix val); cbn [map].
    + eapply Gen_one with (v' := {| v_ix := ix + length val; v_sl := sl; v_aux := aux |}); [apply steps_step; exact Hs|].
      unfold R; cbn; repeat split; auto.
    + apply Gen_none. apply steps_step. exact Hs.
Qed.

Lemma seg_keepout : seg_stmt KeepOut.
Proof.
  start KeepOut. inversion Hv; subst. split; [lia|]. intros v K Hsl Hok.
  apply At_cons in HAt as [Ha _]. destruct v as [ix sl aux]. cbn [sem sof v_ix v_sl length map] in *.
  replace (pc + 1) with (S pc) by lia. cbn [ngroups] in Hng.
  eapply Gen_one with (v' := {| v_ix := ix; v_sl := upd sl 0 (V ix); v_aux := aux |}).
  - apply steps_step. apply step_save; auto. lia.
  - unfold R; cbn [v_ix v_sl v_aux fst snd]. rewrite caps_upd_lt by lia. split; [|split; [|split]]; auto.
    apply frame_upd_cap. lia.
Qed.

Lemma seg_contg : seg_stmt ContinueFromPreviousMatchEnd.
Proof.
  start ContinueFromPreviousMatchEnd. inversion Hv; subst. split; [lia|]. intros v K Hsl Hok.
  apply At_cons in HAt as [Ha _]. destruct v as [ix sl aux]. cbn [sem sof v_ix v_sl length].
  replace (pc + 1) with (S pc) by lia.
  pose proof (step_contg cx P MS pc ix sl aux K Ha) as Hs.
  destruct (ix =? c_pos cx); destruct (c_skipped cx); cbn [negb orb andb map] in *;
    try (apply Gen_none; apply steps_step; exact Hs).
  eapply Gen_one with (v' := {| v_ix := ix; v_sl := sl; v_aux := aux |}); [apply steps_step; exact Hs|].
  apply R_same. reflexivity.
Qed.

Lemma bindc_inr {A} (m : cerr + A) f r : bindc m f = inr r -> exists x, m = inr x /\ f x = inr r.
Proof. destruct m; simpl; [discriminate|]. eauto. Qed.

Lemma getcap_caps sl i : i < NC -> NC <= length sl ->
  exists x, nth_error sl i = Some x /\ getcap (caps sl) i = x.
Proof.
  intros Hi Hl. destruct (nth_error sl i) as [x|] eqn:E.
  - exists x. split; auto. unfold getcap, caps. rewrite nth_error_firstn' by auto. now rewrite E.
  - apply nth_error_None in E. lia.
Qed.

Lemma st_ok_caps v i p : st_ok cs (sof v) -> i < NC -> nth_error (v_sl v) i = Some (V p) -> bnd cs p.
Proof.
  intros [_ Hc] Hi E. cbn [sof snd] in Hc. rewrite Forall_forall in Hc.
  apply (Hc (V p)). unfold caps. apply nth_error_In with (n := i). rewrite nth_error_firstn' by auto. exact E.
Qed.

Lemma seg_backref grp : seg_stmt (Backref grp).
Proof.
  start (Backref grp). inversion Hv; subst. split; [lia|]. intros v K Hsl Hok.
  apply At_cons in HAt as [Ha _]. cbn [acheck] in Hac. destruct (N.ltb_spec grp (N.of_nat g)); [|discriminate].
  cbn [ngroups] in Hng.
  destruct (getcap_caps (v_sl v) (2 * N.to_nat grp)) as (x1 & E1 & G1); [lia|lia|].
  destruct (getcap_caps (v_sl v) (2 * N.to_nat grp + 1)) as (x2 & E2 & G2); [lia|lia|].
  destruct v as [ix sl aux]. cbn [sem sof v_ix v_sl length] in *. rewrite G1, G2.
  replace (pc + 1) with (S pc) by lia. replace (N.to_nat grp * 2) with (2 * N.to_nat grp) in Ha by lia.
  replace (2 * N.to_nat grp + 1) with (S (2 * N.to_nat grp)) in E2 by lia.
  destruct x1 as [lo|]; [destruct x2 as [hi|]|]; cbn [map];
    try (apply Gen_none; apply steps_step; eapply step_backref_unset; eauto; fail).
  destruct (Nat.leb_spec lo hi) as [Hle|Hgt]; cbn [andb].
  - assert (Blo : bnd cs lo) by (eapply (st_ok_caps {| v_ix := ix; v_sl := sl; v_aux := aux |}); [exact Hok| |exact E1]; lia).
    assert (Bhi : bnd cs hi) by (eapply (st_ok_caps {| v_ix := ix; v_sl := sl; v_aux := aux |}); [exact Hok| |exact E2]; lia).
    pose proof (step_backref cx P MS pc ix sl aux K _ lo hi Ha E1 E2 Hle) as Hs. rewrite Htext in Hs. fold t in Hs.
    rewrite Htext. fold t.
    assert (Hb : (hi <=? length t) && is_boundary t lo && is_boundary t hi = true).
    { unfold t. rewrite !bnd_is_boundary by auto. apply bnd_le in Bhi. destruct (Nat.leb_spec hi (length (concat cs))); [reflexivity|lia]. }
    specialize (Hs Hb). destruct (lit_at t ix (slice t lo hi)); cbn [map].
    + eapply Gen_one with (v' := {| v_ix := ix + (hi - lo); v_sl := sl; v_aux := aux |}); [apply steps_step; exact Hs|].
      unfold R; cbn; repeat split; auto.
    + apply Gen_none. apply steps_step. exact Hs.
  - apply Gen_none. apply steps_step. eapply step_backref_unset; eauto. right; right. exists lo, hi. repeat split; auto.
Qed.

Lemma seg_bec grp : seg_stmt (BackrefExistsCondition grp).
Proof.
  start (BackrefExistsCondition grp). inversion Hv; subst. split; [lia|]. intros v K Hsl Hok.
  apply At_cons in HAt as [Ha _]. cbn [acheck] in Hac. destruct (N.ltb_spec grp (N.of_nat g)); [|discriminate].
  cbn [ngroups] in Hng.
  destruct (getcap_caps (v_sl v) (2 * N.to_nat grp)) as (x1 & E1 & G1); [lia|lia|].
  destruct v as [ix sl aux]. cbn [sem sof v_ix v_sl length] in *. rewrite G1.
  replace (pc + 1) with (S pc) by lia.
  pose proof (step_bec cx P MS pc ix sl aux K grp x1 Ha E1) as Hs.
  destruct x1; cbn [map].
  - eapply Gen_one with (v' := {| v_ix := ix; v_sl := sl; v_aux := aux |}); [apply steps_step; exact Hs|].
    apply R_same. reflexivity.
  - apply Gen_none. apply steps_step. exact Hs.
Qed.

Lemma st_ok_upd ix sl aux k : st_ok cs (sof {| v_ix := ix; v_sl := sl; v_aux := aux |}) -> k < NC ->
  st_ok cs (sof {| v_ix := ix; v_sl := upd sl k (V ix); v_aux := aux |}).
Proof.
  intros [Hb Hc] Hk. split; cbn [sof fst snd v_ix v_sl] in *; auto.
  rewrite caps_upd_lt by auto. apply val_ok_upd; auto.
Qed.

Lemma map_map' {A B C} (f : A -> B) (h : B -> C) l : map h (map f l) = map (fun x => h (f x)) l.
Proof. apply map_map. Qed.

Lemma seg_group c : seg_stmt c -> seg_stmt (Group c).
Proof.
  intros IH. start (Group c).
  apply bindc_inr in Hv as ([cc ns1] & Hc & Hr). inversion Hr; subst code ns'. clear Hr.
  apply At_cons in HAt as [Ha1 HAt]. apply At_app in HAt as [HAc HA2]. apply At_cons in HA2 as [Ha2 _].
  apply okdeleg_cons in Hnd as [_ Hnd]. apply okdeleg_app in Hnd as [Hndc _].
  cbn [ngroups] in Hng. cbn [wfe] in Hw. cbn [zok] in Hz. cbn [acheck] in Hac. cbn [rok] in Hrk.
  replace (pc + 1) with (S pc) in Hc by lia.
  destruct (IH (S g) hc (S pc) ns cc ns1 Hc Hndc HAc (conj Hw (conj Hz (conj Hac Hrk))) Hns ltac:(lia)) as [Hmono IHc].
  split; [exact Hmono|]. intros v K Hsl Hok.
  destruct v as [ix sl aux]. cbn [sem sof v_ix v_sl] in *.
  set (v1 := {| v_ix := ix; v_sl := upd sl (g * 2) (V ix); v_aux := aux |}).
  apply Gen_step. unfold RunV at 1; cbn [v_ix v_sl v_aux]. rewrite (step_save cx P MS pc ix sl aux K _ Ha1) by lia.
  change (Run (S pc) ix (upd sl (g * 2) (V ix)) aux K) with (RunV (S pc) v1 K).
  apply Gen_weaken with (p := S pc); [lia|].
  assert (Hok1 : st_ok cs (sof v1)) by (apply st_ok_upd; auto; lia).
  specialize (IHc v1 K ltac:(unfold v1; cbn [v_sl]; rewrite upd_length; lia) Hok1).
  replace (sof v1) with (ix, upd (caps sl) (2 * g) (V ix)) in IHc
    by (unfold sof, v1; cbn [v_ix v_sl]; rewrite caps_upd_lt by lia; f_equal; f_equal; lia).
  eapply Gen_map; [| |exact IHc]; [cbn [length]; rewrite app_length; cbn [length]; lia|].
  rewrite map_map'. apply Forall2_same_map. intros a Hin v' K1 (Hi & Hcp & Hax & Hfr).
  destruct v' as [ix' sl' aux']. cbn [v_ix v_sl v_aux] in *.
  exists {| v_ix := ix'; v_sl := upd sl' (g * 2 + 1) (V ix'); v_aux := aux' |}. split.
  - replace (pc + length (ISave (g * 2) :: cc ++ [ISave (g * 2 + 1)])) with (S (S pc + length cc))
      by (cbn [length]; rewrite app_length; cbn [length]; lia).
    apply steps_step. apply step_save; auto. destruct Hfr as [Hl _]. unfold v1 in Hl; cbn [v_sl] in Hl.
    rewrite upd_length in Hl. lia.
  - unfold R; cbn [v_ix v_sl v_aux fst snd]. rewrite caps_upd_lt by lia. rewrite Hcp, <- Hi.
    split; [auto|]. split; [f_equal; lia|]. split; [auto|].
    destruct Hfr as [Hl Hf]. unfold v1 in *; cbn [v_sl] in *. split.
    + rewrite !upd_length in *. auto.
    + intros j Hj Ho. rewrite nth_error_upd. destruct (Nat.eqb_spec (g * 2 + 1) j); [lia|].
      rewrite Hf by auto. rewrite nth_error_upd. destruct (Nat.eqb_spec (g * 2) j); [lia|]. reflexivity.
Qed.

Lemma skipn_app_len {A} (F K : list A) : skipn (length (F ++ K) - length K) (F ++ K) = K.
Proof.
  rewrite app_length. replace (length F + length K - length K) with (length F) by lia.
  rewrite skipn_app, skipn_all, Nat.sub_diag. reflexivity.
Qed.


(* ---------- sequencing ---------- *)

Lemma segP_app pc c1 c2 ns ns1 ns2 f1 f2 :
  segP pc c1 ns ns1 f1 -> segP (pc + length c1) c2 ns1 ns2 f2 ->
  (forall st st', st_ok cs st -> In st' (f1 st) -> st_ok cs st') ->
  segP pc (c1 ++ c2) ns ns2 (fun st => flat_map f2 (f1 st)).
Proof.
  intros [M1 G1] [M2 G2] Hpres. split; [lia|]. intros v K Hsl Hok.
  rewrite app_length, Nat.add_assoc. rewrite <- concat_map_map.
  eapply Gen_bind with (r := pc + length c1); [lia| |].
  - eapply Gen_weaken with (p := pc); [lia|]. apply G1; auto. lia.
  - apply Forall2_same_map. intros a Ha v1 K' (Hi & Hcp & Hax & Hfr).
    assert (Es : sof v1 = a) by (apply sof_eq; auto).
    eapply Gen_weaken with (p := pc + length c1); [lia|].
    eapply Gen_impl; [|apply G2].
    + rewrite Es. apply Forall2_same_map. intros b Hb v2 (Hi2 & Hcp2 & Hax2 & Hfr2).
      unfold R. split; [auto|]. split; [auto|]. split; [eapply auxrel_trans; eauto|]. split.
      * destruct Hfr as [L1 _], Hfr2 as [L2 _]. congruence.
      * intros j Hj Ho. destruct Hfr as [_ F1], Hfr2 as [_ F2]. rewrite F2, F1; auto; lia.
    + destruct Hfr as [L1 _]. lia.
    + rewrite Es. eapply Hpres; eauto.
Qed.

Lemma segP_ext pc c ns ns' f f' : (forall st, st_ok cs st -> f st = f' st) -> segP pc c ns ns' f -> segP pc c ns ns' f'.
Proof. intros He [M G]. split; auto. intros v K Hsl Hok. rewrite <- He by auto. auto. Qed.

Lemma segP_nil pc ns : segP pc [] ns ns (fun st => [st]).
Proof.
  split; auto. intros v K Hsl Hok. cbn [length map]. rewrite Nat.add_0_r.
  eapply Gen_one; [apply steps_refl|]. apply R_same. reflexivity.
Qed.

Definition okl (g : nat) (l : list expr) : Prop := oke g (Concat l).

Lemma okl_cons g x r : okl g (x :: r) <-> oke g x /\ okl (g + ngroups x) r.
Proof.
  unfold okl, oke. rewrite !wfe_concat, !zok_concat, !acheck_concat, !rok_concat. cbn [wfe_list zok_list acheck_list rok_list].
  destruct (acheck g x); intuition discriminate.
Qed.
Lemma ngl_cons x a : ngroups_list (x :: a) = ngroups x + ngroups_list a. Proof. reflexivity. Qed.
Lemma ngl_nil : ngroups_list [] = 0. Proof. reflexivity. Qed.
Lemma okl_app g a b : okl g (a ++ b) <-> okl g a /\ okl (g + ngroups_list a) b.
Proof.
  revert g. induction a as [|x a IH]; intros g; cbn [app]; rewrite ?ngl_cons, ?ngl_nil.
  - rewrite Nat.add_0_r. unfold okl at 2, oke. cbn. tauto.
  - rewrite !okl_cons, IH, Nat.add_assoc. tauto.
Qed.

Lemma sem_cat_ok l fu g st st' : wfe_list l -> st_ok cs st -> In st' (sem_cat cx fu g l st) -> st_ok cs st'.
Proof.
  intros Hw Hs Hin. rewrite <- sem_concat_eq in Hin.
  destruct (sem_sound cs W cx Htext Hlen (Concat l) ltac:(now rewrite wfe_concat) fu g st st' Hs Hin) as (n & [Hok _] & _).
  exact Hok.
Qed.

Lemma sem_ok e fu g st st' : wfe e -> st_ok cs st -> In st' (sem cx e fu g st) -> st_ok cs st'.
Proof.
  intros Hw Hs Hin. destruct (sem_sound cs W cx Htext Hlen e Hw fu g st st' Hs Hin) as (n & [Hok _] & _).
  exact Hok.
Qed.

Lemma flat_map_flat_map' {A B C} (f : A -> list B) (h : B -> list C) l :
  flat_map h (flat_map f l) = flat_map (fun x => flat_map h (f x)) l.
Proof. induction l as [|a l IH]; simpl; auto. now rewrite flat_map_app, IH. Qed.

Lemma sem_cat_app fu a : forall g b st,
  sem_cat cx fu g (a ++ b) st = flat_map (sem_cat cx fu (g + ngroups_list a) b) (sem_cat cx fu g a st).
Proof.
  induction a as [|x a IH]; intros g b st; cbn [app sem_cat]; rewrite ?ngl_cons, ?ngl_nil.
  - rewrite Nat.add_0_r. cbn [flat_map]. now rewrite app_nil_r.
  - rewrite flat_map_flat_map'. apply flat_map_ext. intros s. rewrite IH. now rewrite Nat.add_assoc.
Qed.

Fixpoint visit_list (g pc ns : nat) (l : list expr) : cerr + cres :=
  match l with
  | [] => inr ([], ns)
  | x :: r =>
      bindc (visit bs x g true pc ns) (fun '(c, ns1) =>
      bindc (visit_list (g + ngroups x) (pc + length c) ns1 r) (fun '(c2, ns2) =>
      inr (c ++ c2, ns2)))
  end.

Lemma seg_list : forall B, Forall seg_stmt B -> forall g pc ns code ns',
  visit_list g pc ns B = inr (code, ns') -> okdeleg code -> At pc code ->
  okl g B -> NC <= ns -> 2 * (g + ngroups_list B) <= NC ->
  segP pc code ns ns' (sem_cat cx fuel g B).
Proof.
  induction 1 as [|x r Hx Hr IH]; intros g pc ns code ns' Hv Hnd HAt Hokl Hns Hng; cbn [visit_list] in Hv.
  - inversion Hv; subst. apply segP_nil.
  - apply bindc_inr in Hv as ([c1 ns1] & H1 & Hv). apply bindc_inr in Hv as ([c2 ns2] & H2 & Hv).
    inversion Hv; subst code ns'. clear Hv.
    apply okdeleg_app in Hnd as [Hn1 Hn2]. apply At_app in HAt as [HA1 HA2].
    apply okl_cons in Hokl as [Ho1 Ho2]. rewrite ngl_cons in Hng.
    pose proof (Hx g true pc ns c1 ns1 H1 Hn1 HA1 Ho1 Hns ltac:(lia)) as S1.
    assert (M1 : ns <= ns1) by apply S1.
    pose proof (IH _ _ _ _ _ H2 Hn2 HA2 Ho2 ltac:(lia) ltac:(lia)) as S2.
    cbn [sem_cat]. apply segP_app with (ns1 := ns1); auto.
    intros st st' Hs Hin. eapply sem_ok; eauto. apply Ho1.
Qed.

Lemma seg_delegates l g pc ns : okdeleg (delegates l g) -> At pc (delegates l g) ->
  segP pc (delegates l g) ns ns (sem_cat cx fuel g l).
Proof.
  intros Hn Ha. destruct l as [|x r]; [apply segP_nil|].
  unfold delegates in *. destruct (forallb is_literal (x :: r)) eqn:El.
  - apply At_cons in Ha as [Ha _]. split; auto. intros v K Hsl Hok.
    rewrite sem_cat_literals; [|exact El|exact (st_ok_ix v Hok)]. rewrite flat_map_push_literal in *.
    unfold lit_res. cbn [fst snd sof length]. replace (pc + 1) with (S pc) by lia.
    pose proof (step_lit cx P MS pc (v_ix v) (v_sl v) (v_aux v) K _ Ha) as Hs. rewrite Htext in Hs. fold t in Hs.
    destruct (lit_at t (v_ix v) (push_literals (x :: r))); cbn [map].
    + eapply (Gen_one pc (S pc) K v {| v_ix := v_ix v + length (push_literals (x :: r)); v_sl := v_sl v; v_aux := v_aux v |}).
      * apply steps_step. exact Hs.
      * unfold R; cbn [v_ix v_sl v_aux fst snd]. repeat split; auto.
    + apply Gen_none. apply steps_step. exact Hs.
  - apply At_cons in Ha as [Ha _]. apply okdeleg_cons in Hn as [Hn _]. cbn [okinsn] in Hn.
    apply andb_true_iff in Hn as [Hd Heq]. apply Nat.eqb_eq in Heq. split; auto. intros v K Hsl Hok.
    destruct (step_delegate_det cx P MS pc (v_ix v) (v_sl v) (v_aux v) K (x :: r) g _ Ha Heq Hd) as (rr & Hr & Hs).
    cbn [length]. replace (pc + 1) with (S pc) by lia.
    specialize (Hr fuel g (caps (v_sl v))). rewrite sem_concat_eq in Hr. unfold sof. rewrite Hr.
    destruct rr as [j|]; cbn [one map].
    + eapply (Gen_one pc (S pc) K v {| v_ix := j; v_sl := v_sl v; v_aux := v_aux v |}).
      * apply steps_step. exact Hs.
      * unfold R; cbn [v_ix v_sl v_aux fst snd]. repeat split; auto.
    + apply Gen_none. apply steps_step. exact Hs.
Qed.

(* ---------- Concat ---------- *)

Definition mid_go (pe sb : nat) := fix go (i g pc ns : nat) (l : list expr) : cerr + cres :=
  match l with
  | [] => inr ([], ns)
  | x :: r =>
      if (pe <=? i) && (i <? sb) then
        bindc (visit bs x g true pc ns) (fun '(c, ns1) =>
        bindc (go (S i) (g + ngroups x) (pc + length c) ns1 r) (fun '(c2, ns2) =>
        inr (c ++ c2, ns2)))
      else go (S i) (g + ngroups x) pc ns r
  end.

Lemma visit_concat es g hc pc ns :
  visit bs (Concat es) g hc pc ns =
  if negb hc && negb (hard bs g (Concat es)) then inr (delegate1 (Concat es) g, ns) else
  let kids := with_groups g es in
  let pe := prefix_count bs g es in
  let rest := skipn pe kids in
  let sl := if hc then take_while_count (fun p => const_size (fst p) && negb (hard bs (snd p) (fst p))) (rev rest)
            else take_while_count (fun p => negb (hard bs (snd p) (fst p))) (rev rest) in
  let sb := length es - sl in
  let pre := delegates (firstn pe es) g in
  bindc (mid_go pe sb 0 g (pc + length pre) ns es) (fun '(cm, ns1) =>
     let suf := skipn sb kids in
     let sufg := match suf with (_, g') :: _ => g' | [] => g end in
     inr (pre ++ cm ++ delegates (map fst suf) sufg, ns1)).
Proof. reflexivity. Qed.

Lemma mid_after pe sb : forall l i g pc ns, sb <= i -> mid_go pe sb i g pc ns l = inr ([], ns).
Proof.
  induction l as [|x r IH]; intros i g pc ns H; cbn [mid_go]; auto.
  destruct (Nat.ltb_spec i sb); [lia|]. rewrite andb_false_r. apply IH. lia.
Qed.

Lemma mid_before pe sb l' pc ns : forall a i g, i + length a <= pe ->
  mid_go pe sb i g pc ns (a ++ l') = mid_go pe sb (i + length a) (g + ngroups_list a) pc ns l'.
Proof.
  induction a as [|x a IH]; intros i g H; cbn [app length]; rewrite ?ngl_cons, ?ngl_nil.
  - now rewrite !Nat.add_0_r.
  - cbn [length] in H. cbn [mid_go]. destruct (Nat.leb_spec pe i); [lia|]. cbn [andb].
    rewrite IH by lia. f_equal; lia.
Qed.

Lemma mid_mid pe sb C : forall B i g pc ns, pe <= i -> i + length B = sb ->
  mid_go pe sb i g pc ns (B ++ C) = visit_list g pc ns B.
Proof.
  induction B as [|x B IH]; intros i g pc ns H1 H2; cbn [app length visit_list] in *.
  - apply mid_after. lia.
  - cbn [mid_go]. destruct (Nat.leb_spec pe i); [|lia]. destruct (Nat.ltb_spec i sb); [|lia]. cbn [andb].
    destruct (visit bs x g true pc ns) as [er|[c ns1]]; cbn [bindc]; auto.
    rewrite IH by lia. reflexivity.
Qed.

Lemma take_while_count_le {A} (f : A -> bool) l : take_while_count f l <= length l.
Proof. induction l; simpl; auto. destruct (f a); lia. Qed.
Lemma with_groups_length : forall es g, length (with_groups g es) = length es.
Proof. induction es; intros; simpl; auto. Qed.
Lemma prefix_count_le : forall es g, prefix_count bs g es <= length es.
Proof.
  unfold prefix_count. induction es as [|x r IH]; intros g; auto.
  destruct (const_size x && negb (hard bs g x)); cbn [length]; [|lia]. specialize (IH (g + ngroups x)). lia.
Qed.
Lemma skipn_with_groups : forall a g c, skipn (length a) (with_groups g (a ++ c)) = with_groups (g + ngroups_list a) c.
Proof.
  induction a as [|x a IH]; intros g c; cbn [app length skipn with_groups]; rewrite ?ngl_cons, ?ngl_nil.
  - now rewrite Nat.add_0_r.
  - rewrite IH. f_equal. lia.
Qed.
Lemma map_fst_with_groups : forall c g, map fst (with_groups g c) = c.
Proof. induction c; intros; simpl; auto. now rewrite IHc. Qed.
Lemma ngl_app a b : ngroups_list (a ++ b) = ngroups_list a + ngroups_list b.
Proof. induction a as [|x a IH]; cbn [app]; rewrite ?ngl_cons, ?ngl_nil; lia. Qed.

Lemma split3 {X} (l : list X) p s : p <= s <= length l ->
  exists A B C, l = A ++ B ++ C /\ length A = p /\ length B = s - p /\ A = firstn p l.
Proof.
  intros H. exists (firstn p l), (firstn (s - p) (skipn p l)), (skipn (s - p) (skipn p l)).
  split; [now rewrite !firstn_skipn|]. split; [apply firstn_length_le; lia|]. split; auto.
  apply firstn_length_le. rewrite skipn_length. lia.
Qed.

Lemma seg_concat es : Forall seg_stmt es -> seg_stmt (Concat es).
Proof.
  intros IH g hc pc ns code ns' Hv Hnd HAt Hok Hns Hng. rewrite visit_concat in Hv.
  destruct (negb hc && negb (hard bs g (Concat es))) eqn:Edel.
  { inversion Hv; subst code ns'. split; [lia|]. intros v K Hsl Hokv. apply seg_deleg; auto using st_ok_ix. }
  cbv zeta in Hv.
  set (pe := prefix_count bs g es) in *.
  set (sl := if hc then _ else _) in Hv.
  assert (Hpe : pe <= length es) by apply prefix_count_le.
  assert (Hsl : sl <= length es - pe).
  { unfold sl. destruct hc; (etransitivity; [apply take_while_count_le|]);
      rewrite rev_length, skipn_length, with_groups_length; lia. }
  set (sb := length es - sl) in *.
  destruct (split3 es pe sb ltac:(lia)) as (A & B & C & Hes & HlA & HlB & HA).
  rewrite <- HA in Hv. clear HA.
  apply bindc_inr in Hv as ([cm ns1] & Hm & Hv). inversion Hv; subst code ns'. clear Hv.
  rewrite Hes in Hm. rewrite (mid_before pe sb (B ++ C) _ ns A 0 g) in Hm by lia.
  rewrite (mid_mid pe sb C B) in Hm by lia. cbn [Nat.add] in Hm.
  assert (Esuf : skipn sb (with_groups g es) = with_groups (g + ngroups_list (A ++ B)) C).
  { rewrite Hes, app_assoc. replace sb with (length (A ++ B)) by (rewrite app_length; lia). apply skipn_with_groups. }
  rewrite Esuf in *.
  assert (Edl : delegates (map fst (with_groups (g + ngroups_list (A ++ B)) C))
                  match with_groups (g + ngroups_list (A ++ B)) C with (_, g') :: _ => g' | [] => g end
                = delegates C (g + ngroups_list (A ++ B))).
  { rewrite map_fst_with_groups. destruct C; reflexivity. }
  rewrite Edl in *. clear Edl Esuf.
  rewrite Hes in IH. apply Forall_app in IH as [_ IH]. apply Forall_app in IH as [IHB _].
  rewrite ngroups_concat, Hes, !ngl_app in Hng. unfold okl in *.
  change (okl g es) in Hok. rewrite Hes in Hok. apply okl_app in Hok as [HoA Hok]. apply okl_app in Hok as [HoB HoC].
  apply okdeleg_app in Hnd as [HnA Hnd]. apply okdeleg_app in Hnd as [HnB HnC].
  apply At_app in HAt as [HAA HAt]. apply At_app in HAt as [HAB HAC].
  pose proof (seg_delegates A g pc ns HnA HAA) as SA.
  pose proof (seg_list B IHB _ _ _ _ _ Hm HnB HAB HoB Hns ltac:(lia)) as SB.
  rewrite ngl_app, Nat.add_assoc in *.
  pose proof (seg_delegates C _ _ ns1 HnC HAC) as SC.
  assert (PB : forall st st', st_ok cs st -> In st' (sem_cat cx fuel (g + ngroups_list A) B st) -> st_ok cs st').
  { intros st st' Hs Hin. eapply sem_cat_ok; eauto. destruct HoB as [HwB _]. now rewrite wfe_concat in HwB. }
  assert (PA : forall st st', st_ok cs st -> In st' (sem_cat cx fuel g A st) -> st_ok cs st').
  { intros st st' Hs Hin. eapply sem_cat_ok; eauto. destruct HoA as [HwA _]. now rewrite wfe_concat in HwA. }
  eapply segP_ext; [|apply (segP_app _ _ _ _ _ _ _ _ SA (segP_app _ _ _ _ _ _ _ _ SB SC PB) PA)].
  intros st Hst. rewrite sem_concat_eq, Hes, sem_cat_app. apply flat_map_ext. intros s. now rewrite sem_cat_app.
Qed.

(* ---------- Alt ---------- *)

Fixpoint alt_codes (hc : bool) (g pc ns : nat) (l : list expr) : cerr + (list (list insn) * nat) :=
  match l with
  | [] => inr ([], ns)
  | [x] => match visit bs x g hc pc ns with inl er => inl er | inr (c, ns1) => inr ([c], ns1) end
  | x :: ((_ :: _) as r) =>
      match visit bs x g hc (pc + 1) ns with
      | inl er => inl er
      | inr (c, ns1) =>
          match alt_codes hc (g + ngroups x) (pc + 1 + length c + 1) ns1 r with
          | inl er => inl er
          | inr (cs, ns2) => inr (c :: cs, ns2)
          end
      end
  end.

Lemma visit_alt es g hc pc ns :
  visit bs (Alt es) g hc pc ns =
  if negb hc && negb (hard bs g (Alt es)) then inr (delegate1 (Alt es) g, ns) else
  match alt_codes hc g pc ns es with
  | inl er => inl er
  | inr (cs, ns1) => inr (alt_layout pc (pc + alt_size cs) cs, ns1)
  end.
Proof.
  cbn [visit]. destruct (negb hc && negb (hard bs g (Alt es))); auto.
  match goal with |- match ?f0 g pc ns es with _ => _ end = _ => set (f := f0) end.
  assert (E : forall l g pc ns, f g pc ns l = alt_codes hc g pc ns l).
  { induction l as [|x r IH]; intros g0 pc0 ns0; [reflexivity|].
    destruct r as [|y r]; [reflexivity|].
    change (f g0 pc0 ns0 (x :: y :: r)) with
      (match visit bs x g0 hc (pc0 + 1) ns0 with
       | inl er => inl er
       | inr (c, ns1) => match f (g0 + ngroups x) (pc0 + 1 + length c + 1) ns1 (y :: r) with
                         | inl er => inl er | inr (cs0, ns2) => inr (c :: cs0, ns2) end
       end).
    change (alt_codes hc g0 pc0 ns0 (x :: y :: r)) with
      (match visit bs x g0 hc (pc0 + 1) ns0 with
       | inl er => inl er
       | inr (c, ns1) => match alt_codes hc (g0 + ngroups x) (pc0 + 1 + length c + 1) ns1 (y :: r) with
                         | inl er => inl er | inr (cs0, ns2) => inr (c :: cs0, ns2) end
       end).
    destruct (visit bs x g0 hc (pc0 + 1) ns0) as [|[c ns1]]; auto. now rewrite IH. }
  rewrite E. reflexivity.
Qed.

Lemma alt_layout_length : forall cds pc e, length (alt_layout pc e cds) = alt_size cds.
Proof.
  induction cds as [|c r IH]; intros pc e; [reflexivity|]. destruct r as [|c' r']; [reflexivity|].
  change (alt_layout pc e (c :: c' :: r')) with
    (ISplit (pc + 1) (pc + 1 + length c + 1) :: c ++ IJmp e :: alt_layout (pc + 1 + length c + 1) e (c' :: r')).
  change (alt_size (c :: c' :: r')) with (1 + length c + 1 + alt_size (c' :: r')).
  cbn [length]. rewrite app_length. cbn [length]. rewrite IH. lia.
Qed.

Lemma alt_codes_cons2 hc g pc ns x y r : alt_codes hc g pc ns (x :: y :: r) =
  match visit bs x g hc (pc + 1) ns with
  | inl er => inl er
  | inr (c, ns1) => match alt_codes hc (g + ngroups x) (pc + 1 + length c + 1) ns1 (y :: r) with
                    | inl er => inl er | inr (cs0, ns2) => inr (c :: cs0, ns2) end
  end.
Proof. reflexivity. Qed.
Lemma alt_layout_cons2 pc e c c' r' : alt_layout pc e (c :: c' :: r') =
  ISplit (pc + 1) (pc + 1 + length c + 1) :: c ++ IJmp e :: alt_layout (pc + 1 + length c + 1) e (c' :: r').
Proof. reflexivity. Qed.
Lemma alt_size_cons2 c c' r' : alt_size (c :: c' :: r') = 1 + length c + 1 + alt_size (c' :: r').
Proof. reflexivity. Qed.
Lemma alt_codes_ne hc g pc ns y r cds ns' : alt_codes hc g pc ns (y :: r) = inr (cds, ns') -> exists c' r', cds = c' :: r'.
Proof.
  destruct r as [|z r].
  - cbn [alt_codes]. destruct (visit bs y g hc pc ns) as [|[? ?]]; [discriminate|]. inversion 1. eauto.
  - rewrite alt_codes_cons2. destruct (visit bs y g hc (pc + 1) ns) as [|[? ?]]; [discriminate|].
    destruct (alt_codes hc _ _ _ (z :: r)) as [|[? ?]]; [discriminate|]. inversion 1. eauto.
Qed.

Lemma R_widen v k k' l l' x v' : l <= k -> k' <= l' -> R v k k' x v' -> R v l l' x v'.
Proof. intros ? ? (H1 & H2 & H3 & H4). unfold R. repeat split; try tauto; destruct H4 as [L F]; auto. intros j Hj Ho. apply F; auto. lia. Qed.

Lemma Gen_R_widen pc q K c v k k' l l' xs : l <= k -> k' <= l' ->
  Gen pc q K c (map (R v k k') xs) -> Gen pc q K c (map (R v l l') xs).
Proof.
  intros H1 H2. apply Gen_impl. apply Forall2_same_map. intros a _ v'. now apply R_widen.
Qed.

Lemma seg_alts hc : forall r x, Forall seg_stmt (x :: r) -> forall g pc ns cds ns',
  alt_codes hc g pc ns (x :: r) = inr (cds, ns') ->
  okdeleg (alt_layout pc (pc + alt_size cds) cds) -> At pc (alt_layout pc (pc + alt_size cds) cds) ->
  okl g (x :: r) -> NC <= ns -> 2 * (g + ngroups_list (x :: r)) <= NC ->
  ns <= ns' /\
  forall v K, ns' <= length (v_sl v) -> st_ok cs (sof v) ->
  Gen pc (pc + alt_size cds) K (RunV pc v K) (map (R v ns ns') (sem_alts cx fuel g (x :: r) (sof v))).
Proof.
  induction r as [|y r IH]; intros x HF g pc ns cds ns' Hc Hnd HAt Hok Hns Hng.
  - cbn [alt_codes] in Hc. destruct (visit bs x g hc pc ns) as [er|[c ns1]] eqn:Hx; [discriminate|].
    inversion Hc; subst cds ns'. cbn [alt_layout alt_size] in *.
    inversion HF; subst. apply okl_cons in Hok as [Hox _]. rewrite ngl_cons, ngl_nil in Hng.
    destruct (H1 g hc pc ns c ns1 Hx Hnd HAt Hox Hns ltac:(lia)) as [M G]. split; auto.
    intros v K Hsl Hokv. cbn [sem_alts]. rewrite app_nil_r. apply G; auto.
  - rewrite alt_codes_cons2 in Hc. destruct (visit bs x g hc (pc + 1) ns) as [er|[c ns1]] eqn:Hx; [discriminate|].
    destruct (alt_codes hc (g + ngroups x) (pc + 1 + length c + 1) ns1 (y :: r)) as [er|[cds' ns2]] eqn:Hr; [discriminate|].
    inversion Hc; subst cds ns'. clear Hc.
    destruct (alt_codes_ne _ _ _ _ _ _ _ _ Hr) as (c' & r' & ->).
    set (endpc := pc + alt_size (c :: c' :: r')) in *.
    assert (Eend : endpc = (pc + 1 + length c + 1) + alt_size (c' :: r')) by (unfold endpc; rewrite alt_size_cons2; lia).
    rewrite alt_layout_cons2 in Hnd, HAt.
    apply okdeleg_cons in Hnd as [_ Hnd]. apply okdeleg_app in Hnd as [Hnc Hnd]. apply okdeleg_cons in Hnd as [_ Hnr].
    apply At_cons in HAt as [Ha1 HAt]. apply At_app in HAt as [HAc HAt]. apply At_cons in HAt as [Ha2 HAr].
    replace (S pc) with (pc + 1) in * by lia.
    replace (S (pc + 1 + length c)) with (pc + 1 + length c + 1) in HAr by lia.
    inversion HF as [|? ? Hsx HFr]; subst. apply okl_cons in Hok as [Hox Hor]. rewrite ngl_cons in Hng.
    destruct (Hsx g hc (pc + 1) ns c ns1 Hx Hnc HAc Hox Hns ltac:(lia)) as [M1 G1].
    rewrite Eend in Hnr, HAr.
    destruct (IH y HFr _ _ _ _ _ Hr Hnr HAr Hor ltac:(lia) ltac:(lia)) as [M2 G2].
    split; [lia|]. intros v K Hsl Hokv. cbn [sem_alts]. rewrite map_app.
    apply Gen_step. unfold RunV at 1. rewrite (step_split cx P MS pc _ _ _ K _ _ Ha1).
    fold (alt_of (pc + 1 + length c + 1) v).
    change (Run (pc + 1) (v_ix v) (v_sl v) (v_aux v) (alt_of (pc + 1 + length c + 1) v :: K))
      with (RunV (pc + 1) v ([alt_of (pc + 1 + length c + 1) v] ++ K)).
    apply Gen_app with (F := [alt_of (pc + 1 + length c + 1) v]).
    + constructor; [|constructor]. cbn [alt_of a_pc]. lia.
    + apply Gen_weaken with (p := pc + 1); [lia|].
      eapply Gen_map with (q := pc + 1 + length c); [lia| |apply (Gen_R_widen _ _ _ _ v ns ns1 ns ns2); [lia|lia|apply G1; auto; lia]].
      apply Forall2_same_map. intros a _ v' K1 HR. exists v'. split; auto.
      apply steps_step. unfold RunV. apply step_jmp. exact Ha2.
    + apply Gen_step. cbn [app mstep alt_of a_pc a_ix a_slots a_aux].
      change (Run (pc + 1 + length c + 1) (v_ix v) (v_sl v) (v_aux v) K) with (RunV (pc + 1 + length c + 1) v K).
      apply Gen_weaken with (p := pc + 1 + length c + 1); [lia|]. rewrite Eend.
      apply (Gen_R_widen _ _ _ _ v ns1 ns2 ns ns2); [lia|lia|]. apply G2; auto.
Qed.

Lemma seg_alt es : Forall seg_stmt es -> seg_stmt (Alt es).
Proof.
  intros IH g hc pc ns code ns' Hv Hnd HAt Hok Hns Hng. rewrite visit_alt in Hv.
  destruct (negb hc && negb (hard bs g (Alt es))) eqn:Edel.
  { inversion Hv; subst code ns'. split; [lia|]. intros v K Hsl Hokv. apply seg_deleg; auto using st_ok_ix. }
  destruct (alt_codes hc g pc ns es) as [er|[cds ns1]] eqn:Hc; [discriminate|]. inversion Hv; subst code ns'. clear Hv.
  destruct Hok as (Hw & Hz & Hac & Hr). rewrite acheck_alt in Hac. destruct es as [|x r]; [discriminate|].
  rewrite ngroups_alt in Hng. rewrite wfe_alt in Hw. rewrite zok_alt in Hz. rewrite rok_alt in Hr.
  assert (Hokl : okl g (x :: r)) by (unfold okl, oke; rewrite wfe_concat, zok_concat, acheck_concat, rok_concat; auto).
  destruct (seg_alts hc r x IH g pc ns cds ns1 Hc Hnd HAt Hokl Hns Hng) as [M G]. split; auto.
  intros v K Hsl Hokv. rewrite alt_layout_length, sem_alt_eq. apply G; auto.
Qed.

(* ---------- loops ---------- *)

Lemma step_splitV pc v K x y : at_ pc (ISplit x y) -> mstep (RunV pc v K) = RunV x v (alt_of y v :: K).
Proof. intros H. unfold RunV. now rewrite (step_split cx P MS pc _ _ _ K x y H). Qed.
Lemma step_jmpV pc v K x : at_ pc (IJmp x) -> mstep (RunV pc v K) = RunV x v K.
Proof. intros H. unfold RunV. now rewrite (step_jmp cx P MS pc _ _ _ K x H). Qed.
Lemma fail_alt y v K : mstep (Fail (alt_of y v :: K)) = RunV y v K.
Proof. reflexivity. Qed.

Lemma nth_upd_same {A} (l : list A) i v : i < length l -> nth_error (upd l i v) i = Some v.
Proof. intros H. rewrite nth_error_upd, Nat.eqb_refl. destruct (Nat.ltb_spec i (length l)); [reflexivity|lia]. Qed.
Lemma nth_upd_other {A} (l : list A) i j v : i <> j -> nth_error (upd l i v) j = nth_error l j.
Proof. intros H. rewrite nth_error_upd. destruct (Nat.eqb_spec i j); [contradiction|reflexivity]. Qed.

Section Loop.
Variables (p q bst bend k0 nsb ns1 : nat) (body : sst -> list sst).
Hypothesis Hpb : p <= bst.
Hypothesis Hbq : bend <= q.
Hypothesis Hbstq : bst <= q.
Hypothesis Hk0 : NC <= k0 <= nsb.
Hypothesis Hn1 : nsb <= ns1.
Hypothesis Hbody : forall v K, ns1 <= length (v_sl v) -> st_ok cs (sof v) ->
   Gen p bend K (RunV bst v K) (map (R v nsb ns1) (body (sof v))).
Hypothesis Hpres : forall st st', st_ok cs st -> In st' (body st) -> st_ok cs st' /\ fst st <= fst st'.

Definition ext (v0 v : vst) : Prop := auxrel lk (v_aux v0) (v_aux v) /\ frame k0 ns1 (v_sl v0) (v_sl v).

Lemma ext_refl v : ext v v. Proof. split; auto. apply frame_refl. Qed.

Lemma R_ext v0 v x v' : ext v0 v -> R v nsb ns1 x v' -> R v0 k0 ns1 x v'.
Proof.
  intros [Ha [L1 F1]] (Hi & Hc & Hax & [L2 F2]). unfold R. split; [auto|]. split; [auto|].
  split; [eapply auxrel_trans; eauto|]. split; [congruence|].
  intros j Hj Ho. rewrite F2, F1; auto; lia.
Qed.

Lemma ext_R v0 v x v' : ext v0 v -> R v nsb ns1 x v' ->
  ext v0 v' /\ sof v' = x /\ length (v_sl v') = length (v_sl v).
Proof.
  intros He HR. pose proof (R_ext _ _ _ _ He HR) as (Hi & Hc & Hax & Hf).
  split; [split; auto|]. split; [apply sof_eq; auto|]. destruct HR as (_ & _ & _ & [L _]). exact L.
Qed.

Lemma ext_self_R v0 v : ext v0 v -> R v0 k0 ns1 (sof v) v.
Proof. intros [Ha Hf]. unfold R, sof; cbn [fst snd]. auto. Qed.

Lemma body_then (g : sst -> list sst) v0 v K :
  ns1 <= length (v_sl v) -> st_ok cs (sof v) ->
  (forall a v2 K2, In a (body (sof v)) -> R v nsb ns1 a v2 ->
     Gen p q K2 (RunV bend v2 K2) (map (R v0 k0 ns1) (g a))) ->
  Gen p q K (RunV bst v K) (map (R v0 k0 ns1) (flat_map g (body (sof v)))).
Proof.
  intros Hl Hok Hc. rewrite <- concat_map_map. eapply Gen_bind with (r := bend); [lia|apply Hbody; auto|].
  apply Forall2_same_map. intros a Ha v2 K2 HR. apply Hc; auto.
Qed.

(* assembling a greedy / lazy choice between "more" and "stop here" *)
Lemma choice_gen (gr : bool) c0 v0 v K (more : list sst) :
  steps c0 (if gr then RunV bst v (alt_of q v :: K) else RunV q v (alt_of bst v :: K)) -> ext v0 v ->
  (forall K', Gen p q K' (RunV bst v K') (map (R v0 k0 ns1) more)) ->
  Gen p q K c0 (map (R v0 k0 ns1) (if gr then more ++ [sof v] else sof v :: more)).
Proof.
  intros HH He Hmore. eapply Gen_steps; [exact HH|]. destruct gr.
  - rewrite map_app. apply (Gen_app cx P MS p q [alt_of q v]).
    + constructor; [|constructor]. cbn [alt_of a_pc]. lia.
    + apply Hmore.
    + apply Gen_step. cbn [app]. rewrite fail_alt. cbn [map]. eapply Gen_one'; [apply steps_refl|].
      now apply ext_self_R.
  - cbn [map].
    eapply Gen_cons with (F := [alt_of bst v]) (v := v); [apply steps_refl| |now apply ext_self_R|].
    + constructor; [|constructor]. cbn [alt_of a_pc]. lia.
    + apply Gen_step. cbn [app]. rewrite fail_alt. apply Hmore.
Qed.

Lemma star_loop H (gr : bool) :
  at_ H (if gr then ISplit bst q else ISplit q bst) ->
  (forall v K, steps (RunV bend v K) (RunV H v K)) ->
  (forall st st', st_ok cs st -> In st' (body st) -> fst st < fst st') ->
  forall f v0 v K, ext v0 v -> length t - v_ix v < f -> ns1 <= length (v_sl v) -> st_ok cs (sof v) ->
  Gen p q K (RunV H v K) (map (R v0 k0 ns1) (rep_opt_u body gr f (sof v))).
Proof.
  intros HH Hback Hadv. induction f as [|f IH]; intros v0 v K He Hf Hl Hok; [lia|].
  cbn [rep_opt_u]. apply choice_gen; auto.
  { apply steps_step. destruct gr; apply step_splitV; exact HH. }
  intros K'. apply body_then; auto.
  intros a v2 K2 Hin HR. destruct (ext_R _ _ _ _ He HR) as (He2 & Es & Hl2).
  pose proof (Hadv _ _ Hok Hin) as Hlt. destruct (Nat.eqb_spec (fst a) (fst (sof v))); [lia|].
  eapply Gen_steps; [apply Hback|]. rewrite <- Es. rewrite <- Es in Hlt. cbn [sof fst] in Hlt.
  assert (Hok2 : st_ok cs (sof v2)) by (rewrite Es; apply (Hpres _ _ Hok Hin)).
  pose proof (st_ok_ix _ Hok2). apply IH; auto; lia.
Qed.

(* ----- RepeatEpsilon: rep = k0, check = k0 + 1, body slots from k0 + 2 ----- *)

Definition setsl (v : vst) (sl : list val) : vst := {| v_ix := v_ix v; v_sl := sl; v_aux := v_aux v |}.

Lemma eps_head H (gr : bool) lo v K c ck :
  at_ H (if gr then IRepeatEpsilonGr lo q k0 (k0 + 1) else IRepeatEpsilonNg lo q k0 (k0 + 1)) -> S H = bst ->
  nth_error (v_sl v) k0 = Some (V c) -> nth_error (v_sl v) (k0 + 1) = Some ck ->
  mstep (RunV H v K) =
  if N.ltb lo (N.of_nat c) && val_eqb ck (V (v_ix v)) then Fail K else
  if N.leb lo (N.of_nat c) then
    let v1 := setsl v (upd (upd (v_sl v) k0 (V (c + 1))) (k0 + 1) (V (v_ix v))) in
    if gr then RunV bst v1 (alt_of q v1 :: K) else RunV q v1 (alt_of bst v1 :: K)
  else RunV bst (setsl v (upd (v_sl v) k0 (V (c + 1)))) K.
Proof.
  intros HH Hb E1 E2. unfold RunV. destruct gr.
  - rewrite (step_repeat_eps_gr cx P MS H _ _ _ K lo q k0 (k0 + 1) c ck HH E1 E2).
    destruct (_ && _); [reflexivity|]. cbv zeta. destruct (N.leb lo (N.of_nat c)); rewrite Hb; reflexivity.
  - rewrite (step_repeat_eps_ng cx P MS H _ _ _ K lo q k0 (k0 + 1) c ck HH E1 E2).
    destruct (_ && _); [reflexivity|]. cbv zeta. destruct (N.leb lo (N.of_nat c)); rewrite ?Hb; reflexivity.
Qed.

Lemma ext_upd v0 v j x : ext v0 v -> k0 <= j < ns1 -> ext v0 (setsl v (upd (v_sl v) j x)).
Proof.
  intros [Ha [L F]] Hj. split; [exact Ha|]. cbn [setsl v_sl]. split; [now rewrite upd_length|].
  intros i Hi Ho. rewrite nth_upd_other by lia. auto.
Qed.

Lemma sof_upd v j x : NC <= j -> sof (setsl v (upd (v_sl v) j x)) = sof v.
Proof. intros H. unfold sof, setsl; cbn [v_ix v_sl]. now rewrite caps_upd_ge. Qed.

Lemma R_slot v x v' j : R v nsb ns1 x v' -> NC <= j < nsb -> nth_error (v_sl v') j = nth_error (v_sl v) j.
Proof. intros (_ & _ & _ & [_ F]) Hj. apply F; lia. Qed.

Lemma eps_opt H (gr : bool) lo :
  at_ H (if gr then IRepeatEpsilonGr lo q k0 (k0 + 1) else IRepeatEpsilonNg lo q k0 (k0 + 1)) -> S H = bst ->
  nsb = k0 + 2 ->
  (forall v K, steps (RunV bend v K) (RunV H v K)) ->
  forall f v0 v K c ck, ext v0 v -> length t - v_ix v < f -> ns1 <= length (v_sl v) -> st_ok cs (sof v) ->
  nth_error (v_sl v) k0 = Some (V c) -> nth_error (v_sl v) (k0 + 1) = Some ck ->
  (lo <= N.of_nat c)%N -> (N.of_nat c = lo \/ ck <> V (v_ix v)) ->
  Gen p q K (RunV H v K) (map (R v0 k0 ns1) (rep_opt_u body gr f (sof v))).
Proof.
  intros HH Hb Hnsb Hback. induction f as [|f IH]; intros v0 v K c ck He Hf Hl Hok E1 E2 Hlo Hchk; [lia|].
  cbn [rep_opt_u].
  set (v1 := setsl v (upd (upd (v_sl v) k0 (V (c + 1))) (k0 + 1) (V (v_ix v)))).
  assert (Hs1 : sof v1 = sof v).
  { unfold v1, sof, setsl; cbn [v_ix v_sl]. now rewrite !caps_upd_ge by lia. }
  assert (He1 : ext v0 v1).
  { pose proof (ext_upd v0 (setsl v (upd (v_sl v) k0 (V (c + 1)))) (k0 + 1) (V (v_ix v))) as Hx.
    apply Hx; [|lia]. apply ext_upd; auto. lia. }
  assert (Hl1 : length (v_sl v1) = length (v_sl v)) by (unfold v1; cbn [setsl v_sl]; now rewrite !upd_length).
  rewrite <- Hs1. apply choice_gen; auto.
  { apply steps_step. rewrite (eps_head H gr lo v K c ck HH Hb E1 E2).
    replace (N.ltb lo (N.of_nat c) && val_eqb ck (V (v_ix v))) with false.
    2:{ symmetry. destruct Hchk as [Hc|Hc].
        - destruct (N.ltb_spec lo (N.of_nat c)); [lia|reflexivity].
        - destruct (val_eqb_spec ck (V (v_ix v))); [contradiction|]. apply andb_false_r. }
    destruct (N.leb_spec lo (N.of_nat c)); [|lia]. reflexivity. }
  intros K'. rewrite Hs1. rewrite <- Hs1 at 1. apply body_then; [lia|now rewrite Hs1|].
  rewrite Hs1. intros a v2 K2 Hin HR. destruct (ext_R _ _ _ _ He1 HR) as (He2 & Es & Hl2).
  destruct (Hpres _ _ Hok Hin) as [Hoka Hle].
  assert (Hok2 : st_ok cs (sof v2)) by now rewrite Es.
  assert (G1 : nth_error (v_sl v2) k0 = Some (V (c + 1))).
  { rewrite (R_slot _ _ _ k0 HR) by lia. unfold v1; cbn [setsl v_sl]. rewrite nth_upd_other by lia.
    apply nth_upd_same. eapply nth_error_lt; eauto. }
  assert (G2 : nth_error (v_sl v2) (k0 + 1) = Some (V (v_ix v))).
  { rewrite (R_slot _ _ _ (k0 + 1) HR) by lia. unfold v1; cbn [setsl v_sl].
    apply nth_upd_same. rewrite upd_length. eapply nth_error_lt; eauto. }
  eapply Gen_steps; [apply Hback|]. cbn [sof fst] in *.
  destruct (Nat.eqb_spec (fst a) (v_ix v)) as [Heq|Hne].
  - cbn [map]. apply Gen_nil. apply steps_step. rewrite (eps_head H gr lo v2 K2 _ _ HH Hb G1 G2).
    replace (v_ix v2) with (v_ix v) by (rewrite <- Heq, <- Es; reflexivity).
    destruct (N.ltb_spec lo (N.of_nat (c + 1))); [|lia]. destruct (val_eqb_spec (V (v_ix v)) (V (v_ix v))); [reflexivity|congruence].
  - rewrite <- Es. pose proof (st_ok_ix _ Hok2). rewrite <- Es in Hle, Hne. cbn [sof fst] in Hle, Hne.
    eapply IH; eauto; try lia. right. intros Heq. inversion Heq. lia.
Qed.

Lemma eps_must H (gr : bool) lo :
  at_ H (if gr then IRepeatEpsilonGr lo q k0 (k0 + 1) else IRepeatEpsilonNg lo q k0 (k0 + 1)) -> S H = bst ->
  nsb = k0 + 2 ->
  (forall v K, steps (RunV bend v K) (RunV H v K)) ->
  forall k v0 v K c ck, ext v0 v -> ns1 <= length (v_sl v) -> st_ok cs (sof v) ->
  nth_error (v_sl v) k0 = Some (V c) -> nth_error (v_sl v) (k0 + 1) = Some ck ->
  c + k = N.to_nat lo ->
  Gen p q K (RunV H v K)
    (map (R v0 k0 ns1) (flat_map (rep_opt_u body gr fuel) (rep_must body k (sof v)))).
Proof.
  intros HH Hb Hnsb Hback. induction k as [|k IH]; intros v0 v K c ck He Hl Hok E1 E2 Hc; cbn [rep_must].
  - cbn [flat_map]. rewrite app_nil_r. pose proof (st_ok_ix _ Hok).
    eapply eps_opt; eauto; try lia.
  - rewrite flat_map_flat_map'.
    set (v1 := setsl v (upd (v_sl v) k0 (V (c + 1)))).
    assert (Hs1 : sof v1 = sof v) by (apply sof_upd; lia).
    assert (He1 : ext v0 v1) by (apply ext_upd; auto; lia).
    apply Gen_step. rewrite (eps_head H gr lo v K c ck HH Hb E1 E2).
    destruct (N.ltb_spec lo (N.of_nat c)); [lia|]. cbn [andb]. destruct (N.leb_spec lo (N.of_nat c)); [lia|].
    fold v1. rewrite <- Hs1. apply body_then; [unfold v1; cbn [setsl v_sl]; rewrite upd_length; lia|now rewrite Hs1|].
    rewrite Hs1. intros a v2 K2 Hin HR. destruct (ext_R _ _ _ _ He1 HR) as (He2 & Es & Hl2).
    destruct (Hpres _ _ Hok Hin) as [Hoka Hle].
    eapply Gen_steps; [apply Hback|]. rewrite <- Es.
    eapply (IH v0 v2 K2 (c + 1)); auto.
    + unfold v1 in Hl2; cbn [setsl v_sl] in Hl2. rewrite upd_length in Hl2. lia.
    + now rewrite Es.
    + rewrite (R_slot _ _ _ k0 HR) by lia. unfold v1; cbn [setsl v_sl]. apply nth_upd_same. eapply nth_error_lt; eauto.
    + rewrite (R_slot _ _ _ (k0 + 1) HR) by lia. unfold v1; cbn [setsl v_sl]. rewrite nth_upd_other by lia. exact E2.
    + lia.
Qed.

(* ----- RepeatGr / RepeatNg: rep = k0, body slots from k0 + 1 ----- *)
Lemma cnt_head H (gr : bool) lo hi v K c :
  at_ H (if gr then IRepeatGr lo hi q k0 else IRepeatNg lo hi q k0) -> S H = bst ->
  nth_error (v_sl v) k0 = Some (V c) ->
  mstep (RunV H v K) =
  if N.eqb (N.of_nat c) hi then RunV q v K else
  let v1 := setsl v (upd (v_sl v) k0 (V (c + 1))) in
  if N.leb lo (N.of_nat c) then
    if gr then RunV bst v1 (alt_of q v1 :: K) else RunV q v1 (alt_of bst v1 :: K)
  else RunV bst v1 K.
Proof.
  intros HH Hb E1. unfold RunV. destruct gr.
  - rewrite (step_repeat_gr cx P MS H _ _ _ K lo hi q k0 c HH E1).
    destruct (N.eqb _ _); [reflexivity|]. cbv zeta. destruct (N.leb lo (N.of_nat c)); rewrite Hb; reflexivity.
  - rewrite (step_repeat_ng cx P MS H _ _ _ K lo hi q k0 c HH E1).
    destruct (N.eqb _ _); [reflexivity|]. cbv zeta. destruct (N.leb lo (N.of_nat c)); rewrite ?Hb; reflexivity.
Qed.

Section Counted.
Variables (H : nat) (gr : bool) (lo hi : N).
Hypothesis HH : at_ H (if gr then IRepeatGr lo hi q k0 else IRepeatNg lo hi q k0).
Hypothesis Hb : S H = bst.
Hypothesis Hnsb : nsb = k0 + 1.
Hypothesis Hback : forall v K, steps (RunV bend v K) (RunV H v K).

Lemma cnt_next v0 v1 v x v2 c : ext v0 v1 -> v1 = setsl v (upd (v_sl v) k0 (V (c + 1))) ->
  nth_error (v_sl v) k0 = Some (V c) -> ns1 <= length (v_sl v) -> R v1 nsb ns1 x v2 ->
  ext v0 v2 /\ sof v2 = x /\ ns1 <= length (v_sl v2) /\ nth_error (v_sl v2) k0 = Some (V (c + 1)).
Proof.
  intros He1 -> E1 Hl HR. destruct (ext_R _ _ _ _ He1 HR) as (He2 & Es & Hl2).
  cbn [setsl v_sl] in Hl2. rewrite upd_length in Hl2. repeat split; auto; try lia.
  - apply He2.
  - apply He2.
  - apply He2.
  - rewrite (R_slot _ _ _ k0 HR) by lia. cbn [setsl v_sl]. apply nth_upd_same. eapply nth_error_lt; eauto.
Qed.

Lemma cnt_opt_b : forall m v0 v K c, ext v0 v -> ns1 <= length (v_sl v) -> st_ok cs (sof v) ->
  nth_error (v_sl v) k0 = Some (V c) -> (lo <= N.of_nat c)%N -> c + m = N.to_nat hi ->
  Gen p q K (RunV H v K) (map (R v0 k0 ns1) (rep_opt_b body gr m (sof v))).
Proof.
  induction m as [|m IH]; intros v0 v K c He Hl Hok E1 Hlo Hc; cbn [rep_opt_b].
  - cbn [map]. eapply Gen_one'; [|apply ext_self_R; eauto]. apply steps_step.
    rewrite (cnt_head H gr lo hi v K c HH Hb E1). destruct (N.eqb_spec (N.of_nat c) hi); [reflexivity|lia].
  - set (v1 := setsl v (upd (v_sl v) k0 (V (c + 1)))).
    assert (Hs1 : sof v1 = sof v) by (apply sof_upd; lia).
    assert (He1 : ext v0 v1) by (apply ext_upd; auto; lia).
    rewrite <- Hs1. apply choice_gen; auto.
    { apply steps_step. rewrite (cnt_head H gr lo hi v K c HH Hb E1).
      destruct (N.eqb_spec (N.of_nat c) hi); [lia|]. destruct (N.leb_spec lo (N.of_nat c)); [|lia]. reflexivity. }
    intros K'. rewrite Hs1. rewrite <- Hs1 at 1.
    apply body_then; [unfold v1; cbn [setsl v_sl]; rewrite upd_length; lia|now rewrite Hs1|].
    rewrite Hs1. intros a v2 K2 Hin HR.
    destruct (cnt_next v0 v1 v a v2 c He1 eq_refl E1 Hl HR) as (He2 & Es & Hl2 & G1).
    destruct (Hpres _ _ Hok Hin) as [Hoka Hle].
    eapply Gen_steps; [apply Hback|]. rewrite <- Es. eapply (IH v0 v2 K2 (c + 1)); auto; try lia. now rewrite Es.
Qed.

Lemma cnt_opt_u : hi = usize_max ->
  (forall st st', st_ok cs st -> In st' (body st) -> fst st < fst st') ->
  forall f v0 v K c, ext v0 v -> length t - v_ix v < f -> ns1 <= length (v_sl v) -> st_ok cs (sof v) ->
  nth_error (v_sl v) k0 = Some (V c) -> (lo <= N.of_nat c)%N -> c <= v_ix v ->
  Gen p q K (RunV H v K) (map (R v0 k0 ns1) (rep_opt_u body gr f (sof v))).
Proof.
  intros Hhi Hadv. induction f as [|f IH]; intros v0 v K c He Hf Hl Hok E1 Hlo Hcx; [lia|]. cbn [rep_opt_u].
  pose proof (st_ok_ix _ Hok) as Hix.
  set (v1 := setsl v (upd (v_sl v) k0 (V (c + 1)))).
  assert (Hs1 : sof v1 = sof v) by (apply sof_upd; lia).
  assert (He1 : ext v0 v1) by (apply ext_upd; auto; lia).
  rewrite <- Hs1. apply choice_gen; auto.
  { apply steps_step. rewrite (cnt_head H gr lo hi v K c HH Hb E1).
    destruct (N.eqb_spec (N.of_nat c) hi); [unfold t in *; lia|]. destruct (N.leb_spec lo (N.of_nat c)); [|lia]. reflexivity. }
  intros K'. rewrite Hs1. rewrite <- Hs1 at 1.
  apply body_then; [unfold v1; cbn [setsl v_sl]; rewrite upd_length; lia|now rewrite Hs1|].
  rewrite Hs1. intros a v2 K2 Hin HR.
  destruct (cnt_next v0 v1 v a v2 c He1 eq_refl E1 Hl HR) as (He2 & Es & Hl2 & G1).
  destruct (Hpres _ _ Hok Hin) as [Hoka Hle]. pose proof (Hadv _ _ Hok Hin) as Hlt.
  assert (Hok2 : st_ok cs (sof v2)) by now rewrite Es.
  pose proof (st_ok_ix _ Hok2). rewrite <- Es in Hlt. cbn [sof fst] in *.
  destruct (Nat.eqb_spec (fst a) (v_ix v)) as [Heq|Hne]; [rewrite <- Es in Heq; cbn [sof fst] in Heq; lia|].
  eapply Gen_steps; [apply Hback|]. rewrite <- Es. eapply (IH v0 v2 K2 (c + 1)); auto; lia.
Qed.

Lemma cnt_must : (lo <= hi)%N ->
  (hi = usize_max -> forall st st', st_ok cs st -> In st' (body st) -> fst st < fst st') ->
  forall k v0 v K c, ext v0 v -> ns1 <= length (v_sl v) -> st_ok cs (sof v) ->
  nth_error (v_sl v) k0 = Some (V c) -> c + k = N.to_nat lo -> (hi = usize_max -> c <= v_ix v) ->
  Gen p q K (RunV H v K)
    (map (R v0 k0 ns1)
       (flat_map (fun s1 => if N.eqb hi usize_max then rep_opt_u body gr fuel s1
                            else rep_opt_b body gr (N.to_nat hi - N.to_nat lo) s1)
                 (rep_must body k (sof v)))).
Proof.
  intros Hlh Hadv. induction k as [|k IH]; intros v0 v K c He Hl Hok E1 Hc Hcx; cbn [rep_must].
  - cbn [flat_map]. rewrite app_nil_r. pose proof (st_ok_ix _ Hok). destruct (N.eqb_spec hi usize_max) as [Hm|Hm].
    + eapply cnt_opt_u; eauto; lia.
    + eapply cnt_opt_b; eauto; lia.
  - rewrite flat_map_flat_map'.
    set (v1 := setsl v (upd (v_sl v) k0 (V (c + 1)))).
    assert (Hs1 : sof v1 = sof v) by (apply sof_upd; lia).
    assert (He1 : ext v0 v1) by (apply ext_upd; auto; lia).
    apply Gen_step. rewrite (cnt_head H gr lo hi v K c HH Hb E1).
    destruct (N.eqb_spec (N.of_nat c) hi); [lia|]. destruct (N.leb_spec lo (N.of_nat c)); [lia|].
    cbv zeta. fold v1. rewrite <- Hs1. apply body_then; [unfold v1; cbn [setsl v_sl]; rewrite upd_length; lia|now rewrite Hs1|].
    rewrite Hs1. intros a v2 K2 Hin HR.
    destruct (cnt_next v0 v1 v a v2 c He1 eq_refl E1 Hl HR) as (He2 & Es & Hl2 & G1).
    destruct (Hpres _ _ Hok Hin) as [Hoka Hle].
    eapply Gen_steps; [apply Hback|]. rewrite <- Es.
    eapply (IH v0 v2 K2 (c + 1)); auto; try lia; [now rewrite Es|].
    intros Hm. specialize (Hadv Hm _ _ Hok Hin). specialize (Hcx Hm). rewrite <- Es in Hadv. cbn [sof fst] in Hadv. lia.
Qed.

End Counted.

End Loop.

(* ---------- Repeat ---------- *)

Lemma body_pres c g : wfe c -> forall st st', st_ok cs st -> In st' (sem cx c fuel g st) ->
  st_ok cs st' /\ fst st <= fst st'.
Proof.
  intros Hw st st' Hs Hin. destruct (sem_sound cs W cx Htext Hlen c Hw fuel g st st' Hs Hin) as (n & [Hok Hd] & _).
  split; auto. apply (dist_bnd cs W) in Hd. tauto.
Qed.

Lemma body_adv c g : wfe c -> min_size c <> 0%N -> forall st st', st_ok cs st -> In st' (sem cx c fuel g st) ->
  fst st < fst st'.
Proof.
  intros Hw Hm st st' Hs Hin. destruct (sem_sound cs W cx Htext Hlen c Hw fuel g st st' Hs Hin) as (n & [Hok Hd] & Hmin & _).
  apply dist_ge in Hd. lia.
Qed.

Lemma flat_map_single {A B} (f : A -> list B) a : flat_map f [a] = f a.
Proof. cbn. apply app_nil_r. Qed.
Lemma flat_map_id {A} (l : list A) : flat_map (fun s => [s]) l = l.
Proof. induction l; simpl; congruence. Qed.

Lemma one_ne_max : N.eqb 1 usize_max = false. Proof. reflexivity. Qed.

Lemma sem_repeat_eq c lo hi gr fu g st :
  sem cx (Repeat c lo hi gr) fu g st =
  flat_map (fun s1 => if N.eqb hi usize_max then rep_opt_u (sem cx c fu g) gr fu s1
                      else rep_opt_b (sem cx c fu g) gr (N.to_nat hi - N.to_nat lo) s1)
           (rep_must (sem cx c fu g) (N.to_nat lo) st).
Proof. destruct st. reflexivity. Qed.

Lemma seg_repeat c lo hi gr : seg_stmt c -> seg_stmt (Repeat c lo hi gr).
Proof.
  intros IH. start (Repeat c lo hi gr).
  cbn [wfe] in Hw. cbn [zok] in Hz. cbn [acheck] in Hac. cbn [rok] in Hrk. cbn [ngroups] in Hng. destruct (N.ltb_spec hi lo) as [|Hlh]; [discriminate|].
  pose proof (body_pres c g Hw) as Hpres.
  assert (Hoc : oke g c) by (repeat split; auto).
  destruct (N.eqb lo 0 && N.eqb hi 1) eqn:EA.
  { (* e? *)
    apply andb_true_iff in EA as [E1 E2]. apply N.eqb_eq in E1, E2. subst lo hi.
    apply bindc_inr in Hv as ([cc ns1] & Hc & Hr). inversion Hr; subst code ns'. clear Hr.
    apply At_cons in HAt as [Ha1 HAc]. apply okdeleg_cons in Hnd as [_ Hndc].
    replace (pc + 1) with (S pc) in * by lia.
    destruct (IH g hc (S pc) ns cc ns1 Hc Hndc HAc Hoc Hns Hng) as [Hmono IHc].
    split; auto. intros v K Hsl Hok. rewrite sem_repeat_eq. rewrite one_ne_max. change (N.to_nat 1 - N.to_nat 0) with 1.
    change (N.to_nat 0) with 0. cbn [rep_must].
    rewrite flat_map_single. cbn [rep_opt_b]. rewrite flat_map_id. cbn [length].
    assert (Hbody : forall v K, ns1 <= length (v_sl v) -> st_ok cs (sof v) ->
              Gen pc (S pc + length cc) K (RunV (S pc) v K) (map (R v ns ns1) (sem cx c fuel g (sof v)))).
    { intros v' K' H1 H2. apply Gen_weaken with (p := S pc); [lia|]. now apply IHc. }
    replace (pc + S (length cc)) with (S pc + length cc) by lia.
    apply (choice_gen pc (S pc + length cc) (S pc) (S pc + length cc) ns ns ns1 ltac:(lia) ltac:(lia) ltac:(lia) ltac:(lia) ltac:(lia) gr _ v v K).
    - apply steps_step. destruct gr; apply step_splitV; exact Ha1.
    - apply ext_refl.
    - intros K'. now apply Hbody. }
  destruct (N.eqb hi usize_max && N.eqb (min_size c) 0) eqn:EB.
  { (* RepeatEpsilon *)
    apply andb_true_iff in EB as [E1 E2]. apply N.eqb_eq in E1, E2.
    apply bindc_inr in Hv as ([cc ns1] & Hc & Hr). inversion Hr; subst code ns'. clear Hr.
    apply At_cons in HAt as [Ha1 HAt]. apply At_cons in HAt as [Ha2 HAt]. apply At_app in HAt as [HAc HAj]. apply At_cons in HAj as [Ha3 _].
    apply okdeleg_cons in Hnd as [_ Hnd]. apply okdeleg_cons in Hnd as [_ Hnd]. apply okdeleg_app in Hnd as [Hndc _].
    replace (pc + 2) with (S (S pc)) in * by lia.
    destruct (IH g _ (S (S pc)) (ns + 2) cc ns1 Hc Hndc HAc Hoc ltac:(lia) Hng) as [Hmono IHc].
    split; [lia|]. intros v K Hsl Hok. rewrite sem_repeat_eq. rewrite E1, N.eqb_refl.
    set (q := pc + length (ISave0 ns :: (if gr then IRepeatEpsilonGr lo (S (S pc) + length cc + 1) ns (ns + 1)
                                          else IRepeatEpsilonNg lo (S (S pc) + length cc + 1) ns (ns + 1)) :: cc ++ [IJmp (pc + 1)])).
    assert (Eq : q = S (S pc) + length cc + 1) by (unfold q; cbn [length]; rewrite app_length; cbn [length]; lia).
    rewrite <- Eq in Ha2.
    assert (Hbody : forall v K, ns1 <= length (v_sl v) -> st_ok cs (sof v) ->
              Gen pc (S (S pc) + length cc) K (RunV (S (S pc)) v K) (map (R v (ns + 2) ns1) (sem cx c fuel g (sof v)))).
    { intros v' K' H1 H2. apply Gen_weaken with (p := S (S pc)); [lia|]. now apply IHc. }
    apply Gen_step. unfold RunV at 1. rewrite (step_save0 cx P MS pc _ _ _ K ns Ha1) by lia.
    set (v1 := setsl v (upd (v_sl v) ns (V 0))).
    change (Run (S pc) (v_ix v) (upd (v_sl v) ns (V 0)) (v_aux v) K) with (RunV (S pc) v1 K).
    assert (Hs1 : sof v1 = sof v) by (apply sof_upd; lia).
    assert (He1 : ext ns ns1 v v1).
    { apply (ext_upd pc q (S (S pc)) (S (S pc) + length cc) ns (ns + 2) ns1 ltac:(lia) ltac:(lia) ltac:(lia) ltac:(lia) ltac:(lia)); [apply ext_refl|lia]. }
    destruct (nth_error (v_sl v1) (ns + 1)) as [ck|] eqn:Eck.
    2:{ apply nth_error_None in Eck. unfold v1 in Eck; cbn [setsl v_sl] in Eck. rewrite upd_length in Eck. lia. }
    rewrite <- Hs1.
    apply (eps_must pc q (S (S pc)) (S (S pc) + length cc) ns (ns + 2) ns1 (sem cx c fuel g)
             ltac:(lia) ltac:(lia) ltac:(lia) ltac:(lia) ltac:(lia) Hbody Hpres (S pc) gr lo) with (c := 0) (ck := ck); auto.
    - intros v' K'. apply steps_step. apply step_jmpV. replace (pc + 1) with (S pc) in Ha3 by lia. exact Ha3.
    - unfold v1; cbn [setsl v_sl]. rewrite upd_length. lia.
    - now rewrite Hs1.
    - unfold v1; cbn [setsl v_sl]. apply nth_upd_same. lia. }
  assert (Hadv : hi = usize_max -> forall st st', st_ok cs st -> In st' (sem cx c fuel g st) -> fst st < fst st').
  { intros Hm. apply body_adv; auto. intros Hz0. rewrite Hm, Hz0 in EB. discriminate. }
  destruct (N.eqb lo 0 && N.eqb hi usize_max) eqn:EC.
  { (* star *)
    apply andb_true_iff in EC as [E1 E2]. apply N.eqb_eq in E1, E2. subst lo.
    apply bindc_inr in Hv as ([cc ns1] & Hc & Hr). inversion Hr; subst code ns'. clear Hr.
    apply At_cons in HAt as [Ha1 HAt]. apply At_app in HAt as [HAc HAj]. apply At_cons in HAj as [Ha3 _].
    apply okdeleg_cons in Hnd as [_ Hnd]. apply okdeleg_app in Hnd as [Hndc _].
    replace (pc + 1) with (S pc) in * by lia.
    destruct (IH g _ (S pc) ns cc ns1 Hc Hndc HAc Hoc Hns Hng) as [Hmono IHc].
    split; auto. intros v K Hsl Hok. rewrite sem_repeat_eq. rewrite E2, N.eqb_refl.
    change (N.to_nat 0) with 0. cbn [rep_must].
    rewrite flat_map_single.
    set (q := pc + length ((if gr then ISplit (S pc) (S pc + length cc + 1) else ISplit (S pc + length cc + 1) (S pc)) :: cc ++ [IJmp pc])).
    assert (Eq : q = S pc + length cc + 1) by (unfold q; cbn [length]; rewrite app_length; cbn [length]; lia).
    rewrite <- Eq in Ha1.
    assert (Hbody : forall v K, ns1 <= length (v_sl v) -> st_ok cs (sof v) ->
              Gen pc (S pc + length cc) K (RunV (S pc) v K) (map (R v ns ns1) (sem cx c fuel g (sof v)))).
    { intros v' K' H1 H2. apply Gen_weaken with (p := S pc); [lia|]. now apply IHc. }
    pose proof (st_ok_ix _ Hok).
    apply (star_loop pc q (S pc) (S pc + length cc) ns ns ns1 (sem cx c fuel g)
             ltac:(lia) ltac:(lia) ltac:(lia) ltac:(lia) ltac:(lia) Hbody Hpres pc gr); auto.
    - intros v' K'. apply steps_step. apply step_jmpV. exact Ha3.
    - apply ext_refl.
    - lia. }
  destruct (N.eqb lo 1 && N.eqb hi usize_max) eqn:ED.
  { (* plus *)
    apply andb_true_iff in ED as [E1 E2]. apply N.eqb_eq in E1, E2. subst lo.
    apply bindc_inr in Hv as ([cc ns1] & Hc & Hr). inversion Hr; subst code ns'. clear Hr.
    apply At_app in HAt as [HAc HAj]. apply At_cons in HAj as [Ha3 _].
    apply okdeleg_app in Hnd as [Hndc _].
    destruct (IH g _ pc ns cc ns1 Hc Hndc HAc Hoc Hns Hng) as [Hmono IHc].
    split; auto. intros v K Hsl Hok. rewrite sem_repeat_eq. rewrite E2, N.eqb_refl.
    change (N.to_nat 1) with 1. cbn [rep_must]. rewrite flat_map_id.
    set (q := pc + length (cc ++ [if gr then ISplit pc (pc + length cc + 1) else ISplit (pc + length cc + 1) pc])).
    assert (Eq : q = pc + length cc + 1) by (unfold q; rewrite app_length; cbn [length]; lia).
    rewrite <- Eq in Ha3.
    apply (body_then pc q pc (pc + length cc) ns ns ns1 (sem cx c fuel g) ltac:(lia) ltac:(lia) ltac:(lia) ltac:(lia) ltac:(lia) IHc); auto.
    intros a v2 K2 Hin HR.
    destruct (ext_R pc q pc (pc + length cc) ns ns ns1 ltac:(lia) ltac:(lia) ltac:(lia) ltac:(lia) ltac:(lia) v v a v2 (ext_refl ns ns1 v) HR) as (He2 & Es & Hl2).
    destruct (Hpres _ _ Hok Hin) as [Hoka _]. rewrite <- Es in Hoka.
    pose proof (st_ok_ix _ Hoka). rewrite <- Es.
    apply (star_loop pc q pc (pc + length cc) ns ns ns1 (sem cx c fuel g)
             ltac:(lia) ltac:(lia) ltac:(lia) ltac:(lia) ltac:(lia) IHc Hpres (pc + length cc) gr); auto; try lia.
    intros v' K'. apply steps_refl. }
  (* counted *)
  apply bindc_inr in Hv as ([cc ns1] & Hc & Hr). inversion Hr; subst code ns'. clear Hr.
  apply At_cons in HAt as [Ha1 HAt]. apply At_cons in HAt as [Ha2 HAt]. apply At_app in HAt as [HAc HAj]. apply At_cons in HAj as [Ha3 _].
  apply okdeleg_cons in Hnd as [_ Hnd]. apply okdeleg_cons in Hnd as [_ Hnd]. apply okdeleg_app in Hnd as [Hndc _].
  replace (pc + 2) with (S (S pc)) in * by lia.
  destruct (IH g _ (S (S pc)) (ns + 1) cc ns1 Hc Hndc HAc Hoc ltac:(lia) Hng) as [Hmono IHc].
  split; [lia|]. intros v K Hsl Hok. rewrite sem_repeat_eq.
  set (q := pc + length (ISave0 ns :: (if gr then IRepeatGr lo hi (S (S pc) + length cc + 1) ns
                                        else IRepeatNg lo hi (S (S pc) + length cc + 1) ns) :: cc ++ [IJmp (pc + 1)])).
  assert (Eq : q = S (S pc) + length cc + 1) by (unfold q; cbn [length]; rewrite app_length; cbn [length]; lia).
  rewrite <- Eq in Ha2.
  assert (Hbody : forall v K, ns1 <= length (v_sl v) -> st_ok cs (sof v) ->
            Gen pc (S (S pc) + length cc) K (RunV (S (S pc)) v K) (map (R v (ns + 1) ns1) (sem cx c fuel g (sof v)))).
  { intros v' K' H1 H2. apply Gen_weaken with (p := S (S pc)); [lia|]. now apply IHc. }
  apply Gen_step. unfold RunV at 1. rewrite (step_save0 cx P MS pc _ _ _ K ns Ha1) by lia.
  set (v1 := setsl v (upd (v_sl v) ns (V 0))).
  change (Run (S pc) (v_ix v) (upd (v_sl v) ns (V 0)) (v_aux v) K) with (RunV (S pc) v1 K).
  assert (Hs1 : sof v1 = sof v) by (apply sof_upd; lia).
  assert (He1 : ext ns ns1 v v1).
  { apply (ext_upd pc q (S (S pc)) (S (S pc) + length cc) ns (ns + 1) ns1 ltac:(lia) ltac:(lia) ltac:(lia) ltac:(lia) ltac:(lia)); [apply ext_refl|lia]. }
  rewrite <- Hs1.
  apply (cnt_must pc q (S (S pc)) (S (S pc) + length cc) ns (ns + 1) ns1 (sem cx c fuel g)
           ltac:(lia) ltac:(lia) ltac:(lia) ltac:(lia) ltac:(lia) Hbody Hpres (S pc) gr lo hi) with (c := 0); auto.
  - intros v' K'. apply steps_step. apply step_jmpV. replace (pc + 1) with (S pc) in Ha3 by lia. exact Ha3.
  - unfold v1; cbn [setsl v_sl]. rewrite upd_length. lia.
  - now rewrite Hs1.
  - unfold v1; cbn [setsl v_sl]. apply nth_upd_same. lia.
  - intros; lia.
Qed.

(* ---------- look-around: semantics side ---------- *)

Lemma goback_in_backs : forall f cnt ix j, goback cx f cnt ix = GBOk j -> In j (backs cx f ix).
Proof.
  induction f as [|f IH]; intros cnt ix j; cbn [goback backs].
  - destruct (N.eqb cnt 0); [intros H; inversion H; left; auto|discriminate].
  - destruct (N.eqb cnt 0); [intros H; inversion H; left; auto|].
    destruct ix as [|ix']; [discriminate|]. cbn [Nat.eqb].
    destruct (prev_cp (c_text cx) (S ix')); [|discriminate]. intros H. right. eapply IH; eauto.
Qed.

Lemma dist_inj_l i j k n : dist cs i k n -> dist cs j k n -> i = j.
Proof.
  assert (Hx : forall a b, a < b -> dist cs a k n -> dist cs b k n -> False).
  { intros a b Hlt Da Db. destruct (dist_bnd cs W _ _ _ Da) as (Ba & _ & _). destruct (dist_bnd cs W _ _ _ Db) as (Bb & _ & _).
    destruct (bnd_dist cs W (b - a) a b ltac:(lia) Ba Bb ltac:(lia)) as (d & Dd).
    pose proof (dist_trans cs _ _ _ _ _ Dd Db) as Dt. pose proof (dist_count cs W _ _ _ Da _ Dt).
    assert (d = 0) by lia. subst. inversion Dd; subst. lia. }
  intros Di Dj. destruct (Nat.lt_trichotomy i j) as [Hl|[He|Hg]]; auto; exfalso; eauto.
Qed.

Lemma first_some_none {A B} (f : A -> option B) l : (forall j, In j l -> f j = None) -> first_some f l = None.
Proof. induction l as [|x r IH]; intros H; cbn [first_some]; auto. rewrite H by (left; auto). apply IH. intros; apply H; right; auto. Qed.

Lemma first_some_unique {B} (f : nat -> option B) l j0 : In j0 l ->
  (forall j, In j l -> j <> j0 -> f j = None) -> first_some f l = f j0.
Proof.
  induction l as [|x r IH]; intros Hin Hn; [destruct Hin|]. cbn [first_some].
  destruct (Nat.eq_dec x j0) as [->|Hne].
  - destruct (f j0) eqn:E; auto. apply first_some_none. intros j Hj.
    destruct (Nat.eq_dec j j0) as [->|Hj0]; auto. apply Hn; auto. right; auto.
  - rewrite (Hn x) by (auto; left; auto). apply IH.
    + destruct Hin; [contradiction|auto].
    + intros j Hj Hj0. apply Hn; auto. right; auto.
Qed.

Lemma find_all_true {A} (p : A -> bool) l : (forall x, In x l -> p x = true) -> find p l = hd_error l.
Proof. destruct l as [|a l]; intros H; cbn; auto. now rewrite H by (left; auto). Qed.

Lemma try_alt_const x gx ix caps0 : wfe x -> zok x -> const_size x = true -> st_ok cs (ix, caps0) ->
  first_some (fun j => first_ending (sem cx x fuel gx (j, caps0)) ix) (backs cx ix ix) =
  match goback cx ix (min_size x) ix with
  | GBOk j => hd_error (sem cx x fuel gx (j, caps0))
  | _ => None
  end.
Proof.
  intros Hw Hz Hc [Bix Hcaps]. cbn [fst snd] in *.
  pose proof (goback_sound cs W cx Htext ix (min_size x) ix Bix (le_n _)) as G.
  pose proof (backs_ok cs W cx Htext Hlen ix ix Bix) as Hbk. rewrite Forall_forall in Hbk.
  assert (Key : forall j s', bnd cs j -> In s' (sem cx x fuel gx (j, caps0)) ->
                 exists m, N.of_nat m = min_size x /\ dist cs j (fst s') m).
  { intros j s' Bj Hin.
    destruct (sem_sound cs W cx Htext Hlen x Hw fuel gx (j, caps0) s' (conj Bj Hcaps) Hin) as (m & [_ Hd] & _ & Hex).
    exists m. split; auto. }
  destruct (goback cx ix (min_size x) ix) as [j0| |] eqn:Eg.
  - destruct G as (n0 & Hn0 & D0).
    rewrite (first_some_unique _ _ j0).
    + unfold first_ending. apply find_all_true. intros s' Hin.
      destruct (dist_bnd cs W _ _ _ D0) as (Bj0 & _ & _).
      destruct (Key _ _ Bj0 Hin) as (m & Hm & Dm). assert (m = n0) by lia. subst m.
      apply Nat.eqb_eq. eapply dist_fun; eauto.
    + eapply goback_in_backs; eauto.
    + intros j Hj Hne. unfold first_ending. destruct (find _ _) as [s'|] eqn:Ef; auto. exfalso.
      apply find_some in Ef as [Hin He]. apply Nat.eqb_eq in He.
      destruct (Key _ _ (Hbk _ Hj) Hin) as (m & Hm & Dm). assert (m = n0) by lia. subst m. rewrite He in Dm.
      apply Hne. eapply dist_inj_l; eauto.
  - apply first_some_none. intros j Hj. unfold first_ending. destruct (find _ _) as [s'|] eqn:Ef; auto. exfalso.
    apply find_some in Ef as [Hin He]. apply Nat.eqb_eq in He.
    destruct (Key _ _ (Hbk _ Hj) Hin) as (m & Hm & Dm). rewrite He in Dm. specialize (G _ _ Dm). lia.
  - destruct G.
Qed.

Definition lb_found (c : expr) (g ix : nat) (caps0 : list val) : option sst :=
  let try_alt (a : expr) (ga : nat) : option sst :=
    first_some (fun j => first_ending (sem cx a fuel ga (j, caps0)) ix) (backs cx ix ix) in
  match c with
  | Alt es =>
      (fix go (g : nat) (l : list expr) : option sst :=
         match l with
         | [] => None
         | x :: r => match try_alt x g with Some s => Some s | None => go (g + ngroups x) r end
         end) g es
  | _ => try_alt c g
  end.

Definition lb_split (c : expr) (g ix : nat) (caps0 : list val) : list sst :=
  let try_alt (a : expr) (ga : nat) : option sst :=
    first_some (fun j => first_ending (sem cx a fuel ga (j, caps0)) ix) (backs cx ix ix) in
  match c with
  | Alt es =>
      (fix go (g : nat) (l : list expr) : list sst :=
         match l with
         | [] => []
         | x :: r => match try_alt x g with Some s => [(ix, snd s)] | None => [] end ++ go (g + ngroups x) r
         end) g es
  | _ => []
  end.

Lemma sem_lb c g ix caps0 : sem cx (LookAround c LookBehind) fuel g (ix, caps0) =
  match lb_found c g ix caps0 with
  | Some s' => if is_alt c && negb (const_size c) then lb_split c g ix caps0 else [(ix, snd s')]
  | None => []
  end.
Proof. reflexivity. Qed.
Lemma sem_lbn c g ix caps0 : sem cx (LookAround c LookBehindNeg) fuel g (ix, caps0) =
  match lb_found c g ix caps0 with Some _ => [] | None => [(ix, caps0)] end.
Proof. reflexivity. Qed.

Lemma lb_found_const c g ix caps0 : wfe c -> zok c -> const_size c = true -> st_ok cs (ix, caps0) ->
  lb_found c g ix caps0 =
  match goback cx ix (min_size c) ix with
  | GBOk j => hd_error (sem cx c fuel g (j, caps0))
  | _ => None
  end.
Proof.
  intros Hw Hz Hc Hok.
  assert (Hgen : forall c', (forall es, c' <> Alt es) -> wfe c' -> zok c' -> const_size c' = true ->
            lb_found c' g ix caps0 = match goback cx ix (min_size c') ix with
                                     | GBOk j => hd_error (sem cx c' fuel g (j, caps0)) | _ => None end).
  { intros c' Hna Hw' Hz' Hc'. rewrite <- try_alt_const by auto. destruct c'; try reflexivity. exfalso. eapply Hna; eauto. }
  destruct c; try (apply Hgen; auto; intros es' He; discriminate).
  rename es into es0. unfold lb_found. destruct es0 as [|x r].
  - cbn [min_size]. destruct (goback cx ix _ ix); reflexivity.
  - rewrite const_alt_eq in Hc. apply const_alts_true in Hc as (Hcx & Hmin & Hall).
    rewrite min_alt_eq, Hmin. rewrite wfe_alt in Hw. rewrite zok_alt in Hz.
    assert (Hall' : forall y, In y (x :: r) -> const_size y = true /\ min_size y = min_size x).
    { intros y [<-|Hy]; auto. }
    clear Hall Hmin Hcx. set (n := min_size x) in *. clearbody n.
    assert (Hfail : forall l g0, wfe_list l -> zok_list l -> (forall y, In y l -> const_size y = true /\ min_size y = n) ->
              (fix go (g1 : nat) (l0 : list expr) : option sst :=
                 match l0 with
                 | [] => None
                 | x0 :: r0 =>
                     match first_some (fun j => first_ending (sem cx x0 fuel g1 (j, caps0)) ix) (backs cx ix ix) with
                     | Some s => Some s
                     | None => go (g1 + ngroups x0) r0
                     end
                 end) g0 l =
              match goback cx ix n ix with
              | GBOk j => hd_error (sem_alts cx fuel g0 l (j, caps0))
              | _ => None
              end).
    { induction l as [|y l IH]; intros g0 Hwl Hzl Hal.
      - destruct (goback cx ix n ix); reflexivity.
      - destruct Hwl as [Hwy Hwl]. destruct Hzl as [Hzy Hzl]. destruct (Hal y (or_introl eq_refl)) as [Hcy Hmy].
        rewrite try_alt_const by auto. rewrite Hmy. rewrite IH by (auto; intros; apply Hal; right; auto).
        cbn [sem_alts]. destruct (goback cx ix n ix); auto.
        destruct (sem cx y fuel g0 (ix0, caps0)); reflexivity. }
    rewrite (Hfail (x :: r) g Hw Hz Hall'). destruct (goback cx ix n ix); auto. now rewrite sem_alt_eq.
Qed.

(* what the body of a look-around contributes, as a function of the state at the look-around *)
Definition la_f (la : lookkind) (x : expr) (gx : nat) (st : sst) : list sst :=
  match la with
  | LookBehind | LookBehindNeg =>
      match goback cx (fst st) (min_size x) (fst st) with
      | GBOk j => sem cx x fuel gx (j, snd st)
      | _ => []
      end
  | _ => sem cx x fuel gx st
  end.

Lemma sem_la_eq c la g st : wfe c -> (is_behind la = true -> zok c) -> st_ok cs st ->
  (match la with LookBehind | LookBehindNeg => const_size c = true | _ => True end) ->
  sem cx (LookAround c la) fuel g st =
  match la with
  | LookAhead | LookBehind => map (fun s' => (fst st, snd s')) (firstn 1 (la_f la c g st))
  | _ => match la_f la c g st with [] => [st] | _ => [] end
  end.
Proof.
  intros Hw Hz Hok Hc. destruct st as [ix caps0]. destruct la; cbn [la_f fst snd]; try specialize (Hz eq_refl).
  - reflexivity.
  - reflexivity.
  - rewrite sem_lb, lb_found_const by auto. rewrite Hc, andb_false_r. destruct (goback cx ix (min_size c) ix); auto.
    destruct (sem cx c fuel g (ix0, caps0)); reflexivity.
  - rewrite sem_lbn, lb_found_const by auto. destruct (goback cx ix (min_size c) ix); auto.
    destruct (sem cx c fuel g (ix0, caps0)); reflexivity.
Qed.

End LK.

(* ---------- look-around: machine side ---------- *)

Definition la_inner (la : lookkind) (x : expr) (gx pc ns : nat) : cerr + cres :=
  match la with
  | LookBehind | LookBehindNeg =>
      if const_size x then
        bindc (visit bs x gx false (pc + 1) ns) (fun '(code, ns1) => inr (IGoBack (min_size x) :: code, ns1))
      else inl CLookBehindNotConst
  | _ => visit bs x gx false pc ns
  end.
Definition la_pos (la : lookkind) (x : expr) (gx pc ns : nat) : cerr + cres :=
  let h := hard bs gx x in
  bindc (la_inner la x gx (pc + 1 + (if h then 1 else 0)) (ns + 1)) (fun '(code, ns1) =>
  inr (ISave ns :: (if h then [IBeginAtomic] else []) ++ code ++ (if h then [IEndAtomic] else []) ++ [IRestore ns], ns1)).
Definition la_neg (la : lookkind) (x : expr) (gx pc ns : nat) : cerr + cres :=
  bindc (la_inner la x gx (pc + 1) ns) (fun '(code, ns1) =>
  inr (ISplit (pc + 1) (pc + 1 + length code + 1) :: code ++ [IFailNegativeLookAround], ns1)).

Lemma visit_la c la g hc pc ns : lb_alt_const c la ->
  visit bs (LookAround c la) g hc pc ns =
  if negb hc && negb (hard bs g (LookAround c la)) then inr (delegate1 (LookAround c la) g, ns) else
  match la with
  | LookAhead | LookBehind => la_pos la c g pc ns
  | _ => la_neg la c g pc ns
  end.
Proof.
  intros Hc. cbn [visit]. destruct (negb hc && negb (hard bs g (LookAround c la))); auto.
  destruct la; try reflexivity; destruct c; try reflexivity; cbn [lb_alt_const] in Hc;
    unfold la_pos, la_neg, la_inner; rewrite !Hc; reflexivity.
Qed.

Definition setix (v : vst) (j : nat) : vst := {| v_ix := j; v_sl := v_sl v; v_aux := v_aux v |}.

(* the body of a look-around, after the GoBack of a look-behind *)
Lemma visit_easy x g pc ns : hard bs g x = false -> visit bs x g false pc ns = inr (delegate1 x g, ns).
Proof. intros H. destruct x; cbn [visit]; rewrite H; reflexivity. Qed.

(* the body of a look-around is either easy (then it is one instruction: a literal or a delegated
   deterministic block) or covered by the induction hypothesis *)
Definition body_ok (x : expr) (gx : nat) : Prop :=
  hard bs gx x = false \/ (seg_stmt false x /\ oke false gx x).

Lemma seg_body x gx pc ns code ns1 : body_ok x gx -> NC <= ns -> 2 * (gx + ngroups x) <= NC ->
  visit bs x gx false pc ns = inr (code, ns1) -> okdeleg code -> At pc code ->
  ns <= ns1 /\
  forall v K, ns1 <= length (v_sl v) -> st_ok cs (sof v) ->
  Gen pc (pc + length code) K (RunV pc v K) (map (R false v ns ns1) (sem cx x fuel gx (sof v))).
Proof.
  intros [Hh|[IH Hok]] Hns Hng Hv Hnd HAt.
  - rewrite (visit_easy x gx pc ns Hh) in Hv. inversion Hv; subst code ns1. split; auto.
    intros v K Hsl Hokv. apply seg_deleg; auto using st_ok_ix.
  - exact (IH gx false pc ns code ns1 Hv Hnd HAt Hok Hns Hng).
Qed.

Lemma seg_la_inner la x gx pc ns code ns1 : body_ok x gx ->
  la_inner la x gx pc ns = inr (code, ns1) -> okdeleg code -> At pc code ->
  NC <= ns -> 2 * (gx + ngroups x) <= NC ->
  ns <= ns1 /\
  forall v K, ns1 <= length (v_sl v) -> st_ok cs (sof v) ->
  Gen pc (pc + length code) K (RunV pc v K) (map (R false v ns ns1) (la_f la x gx (sof v))).
Proof.
  intros IH Hi Hnd HAt Hns Hng.
  assert (Hahead : visit bs x gx false pc ns = inr (code, ns1) -> ns <= ns1 /\
            forall v K, ns1 <= length (v_sl v) -> st_ok cs (sof v) ->
            Gen pc (pc + length code) K (RunV pc v K) (map (R false v ns ns1) (sem cx x fuel gx (sof v)))).
  { intros Hv. exact (seg_body x gx pc ns code ns1 IH Hns Hng Hv Hnd HAt). }
  assert (Hbehind : (if const_size x then
             bindc (visit bs x gx false (pc + 1) ns) (fun '(code, ns1) => inr (IGoBack (min_size x) :: code, ns1))
           else inl CLookBehindNotConst) = inr (code, ns1) -> ns <= ns1 /\
            forall v K, ns1 <= length (v_sl v) -> st_ok cs (sof v) ->
            Gen pc (pc + length code) K (RunV pc v K)
              (map (R false v ns ns1) (match goback cx (fst (sof v)) (min_size x) (fst (sof v)) with
                                 | GBOk j => sem cx x fuel gx (j, snd (sof v)) | _ => [] end))).
  { destruct (const_size x); [|discriminate]. intros Hv.
    apply bindc_inr in Hv as ([cc n1] & Hc & Hr). inversion Hr; subst code ns1. clear Hr.
    apply At_cons in HAt as [Ha HAc]. apply okdeleg_cons in Hnd as [_ Hndc].
    replace (pc + 1) with (S pc) in Hc by lia.
    destruct (seg_body x gx (S pc) ns cc n1 IH Hns Hng Hc Hndc HAc) as [M G]. split; auto.
    intros v K Hsl Hokv. cbn [sof fst snd]. apply Gen_step. unfold RunV at 1.
    rewrite (step_goback cx P MS pc _ _ _ K _ Ha).
    destruct Hokv as [Bix Hcaps]. cbn [sof fst snd] in Bix, Hcaps.
    pose proof (goback_sound cs W cx Htext (v_ix v) (min_size x) (v_ix v) Bix (le_n _)) as Gs.
    destruct (goback cx (v_ix v) (min_size x) (v_ix v)) as [j| |].
    - destruct Gs as (n0 & _ & D0). destruct (dist_bnd cs W _ _ _ D0) as (Bj & _ & _).
      change (Run (S pc) j (v_sl v) (v_aux v) K) with (RunV (S pc) (setix v j) K).
      apply Gen_weaken with (p := S pc); [lia|].
      replace (pc + length (IGoBack (min_size x) :: cc)) with (S pc + length cc) by (cbn [length]; lia).
      apply (G (setix v j) K); auto. split; auto.
    - apply Gen_nil. apply steps_refl.
    - destruct Gs. }
  destruct la; cbn [la_inner la_f] in *; auto.
Qed.

Lemma la_f_short la x gx code pc ns ns1 : hard bs gx x = false ->
  la_inner la x gx pc ns = inr (code, ns1) -> okdeleg code ->
  forall st, st_ok cs st -> length (la_f la x gx st) <= 1.
Proof.
  intros Hh Hi Hnd st Hst.
  assert (Hl : is_literal x = true \/ det x = true).
  { destruct la; cbn [la_inner] in Hi; try (destruct (const_size x); [|discriminate]);
      rewrite (visit_easy x gx _ ns Hh) in Hi; cbn [bindc] in Hi; inversion Hi; subst code;
      try (apply okdeleg_cons in Hnd as [_ Hnd]);
      unfold delegate1 in Hnd; destruct (is_literal x); auto; right;
      apply okdeleg_cons in Hnd as [Hnd _]; cbn [okinsn forallb] in Hnd;
      apply andb_true_iff in Hnd as [Hnd _]; apply andb_true_iff in Hnd as [Hnd _]; exact Hnd. }
  assert (Hs : forall s, fst s <= length t -> length (sem cx x fuel gx s) <= 1).
  { intros s Hsl. destruct Hl as [Hl|Hl].
    - rewrite sem_is_literal by auto. unfold lit_res. destruct (lit_at _ _ _); cbn; lia.
    - destruct s as [j cp]. destruct (det_sem cx x Hl j) as [r Hr]. rewrite Hr. destruct r; cbn; lia. }
  assert (Hb : match goback cx (fst st) (min_size x) (fst st) with GBOk j => j <= length t | _ => True end).
  { pose proof (goback_sound cs W cx Htext (fst st) (min_size x) (fst st) (proj1 Hst) (le_n _)) as Gs.
    destruct (goback cx (fst st) (min_size x) (fst st)); auto. destruct Gs as (n0 & _ & D0).
    destruct (dist_bnd cs W _ _ _ D0) as (Bj & _ & _). apply bnd_le in Bj. exact Bj. }
  pose proof (bnd_le _ _ (proj1 Hst)) as Hle.
  destruct la; cbn [la_f]; auto;
    destruct (goback cx (fst st) (min_size x) (fst st)) as [j| |]; cbn [length]; try lia; apply Hs; auto.
Qed.

Lemma pos_wrap lk pc ns ns1 (h : bool) codeI (f : sst -> list sst) :
  At pc (ISave ns :: (if h then [IBeginAtomic] else []) ++ codeI ++ (if h then [IEndAtomic] else []) ++ [IRestore ns]) ->
  NC <= ns -> ns + 1 <= ns1 ->
  (forall v K, ns1 <= length (v_sl v) -> st_ok cs (sof v) ->
     Gen (pc + 1 + (if h then 1 else 0)) (pc + 1 + (if h then 1 else 0) + length codeI) K
         (RunV (pc + 1 + (if h then 1 else 0)) v K) (map (R false v (ns + 1) ns1) (f (sof v)))) ->
  (h = false -> forall st, st_ok cs st -> length (f st) <= 1) ->
  segP lk pc (ISave ns :: (if h then [IBeginAtomic] else []) ++ codeI ++ (if h then [IEndAtomic] else []) ++ [IRestore ns])
       ns ns1 (fun st => map (fun s' => (fst st, snd s')) (firstn 1 (f st))).
Proof.
  intros HAt Hns Hn1 Hin Hshort. split; [lia|]. intros v K Hsl Hok.
  apply At_cons in HAt as [Ha1 HAt].
  set (v1 := setsl v (upd (v_sl v) ns (V (v_ix v)))).
  assert (Hs1 : sof v1 = sof v) by (apply sof_upd; lia).
  assert (Hl1 : length (v_sl v1) = length (v_sl v)) by (unfold v1; cbn [setsl v_sl]; apply upd_length).
  assert (Hslot : nth_error (v_sl v1) ns = Some (V (v_ix v))) by (unfold v1; cbn [setsl v_sl]; apply nth_upd_same; lia).
  assert (HR : forall (x : sst) v', caps (v_sl v') = snd x -> frame (ns + 1) ns1 (v_sl v1) (v_sl v') ->
            nth_error (v_sl v') ns = Some (V (v_ix v)) /\
            R lk v ns ns1 (fst (sof v), snd x) {| v_ix := v_ix v; v_sl := v_sl v'; v_aux := v_aux v |}).
  { intros x v' Hc [L F]. split; [rewrite F by lia; exact Hslot|].
    unfold R; cbn [v_ix v_sl v_aux fst snd sof].
    split; [auto|]. split; [auto|]. split; [auto|]. split; [congruence|].
    intros j Hj Ho. rewrite F by lia. unfold v1; cbn [setsl v_sl]. apply nth_upd_other. lia. }
  apply Gen_step. unfold RunV at 1. rewrite (step_save cx P MS pc _ _ _ K ns Ha1) by lia.
  change (Run (S pc) (v_ix v) (upd (v_sl v) ns (V (v_ix v))) (v_aux v) K) with (RunV (S pc) v1 K).
  destruct h.
  - cbn [app] in HAt. apply At_cons in HAt as [Ha2 HAt]. apply At_app in HAt as [_ HAt].
    apply At_cons in HAt as [Ha3 HAt]. apply At_cons in HAt as [Ha4 _].
    apply Gen_step. unfold RunV at 1. rewrite (step_begin cx P MS (S pc) _ _ _ K Ha2).
    set (v2 := {| v_ix := v_ix v1; v_sl := v_sl v1; v_aux := v_aux v1 ++ [V (length K)] |}).
    change (Run (S (S pc)) (v_ix v1) (v_sl v1) (v_aux v1 ++ [V (length K)]) K) with (RunV (S (S pc)) v2 K).
    specialize (Hin v2 K ltac:(unfold v2; cbn [v_sl]; lia) ltac:(change (sof v2) with (sof v1); now rewrite Hs1)).
    change (sof v2) with (sof v1) in Hin. rewrite Hs1 in Hin.
    replace (pc + 1 + 1) with (S (S pc)) in Hin by lia.
    destruct (f (sof v)) as [|x rest]; cbn [firstn map] in *.
    + inversion Hin; subst. apply Gen_nil. auto.
    + inversion Hin as [|c0 v' F Q Ps Hs HF HQ Hrest]; subst.
      destruct HQ as (Hi & Hcp & Hax & Hfr). apply auxrel_false in Hax. destruct (HR x v' Hcp Hfr) as [Hsl' HRx].
      destruct v' as [ix' sl' aux']. cbn [v_ix v_sl v_aux] in *. subst aux'.
      eapply Gen_one' with (v' := {| v_ix := v_ix v; v_sl := sl'; v_aux := v_aux v |}).
      * eapply steps_trans; [exact Hs|]. unfold RunV; cbn [v_ix v_sl v_aux v2 v1 setsl].
        apply steps_cons. rewrite (step_end cx P MS _ ix' sl' (v_aux v) (F ++ K) (length K) Ha3) by (rewrite app_length; lia).
        rewrite skipn_app_len. apply steps_step.
        rewrite (step_restore cx P MS _ ix' sl' (v_aux v) K ns (v_ix v) Ha4 Hsl'). f_equal.
        cbn [length]. rewrite !app_length. cbn [length]. lia.
      * exact HRx.
  - cbn [app] in HAt. apply At_app in HAt as [_ HAt]. apply At_cons in HAt as [Ha4 _].
    replace (pc + 1 + 0) with (S pc) in * by lia.
    specialize (Hin v1 K ltac:(lia) ltac:(now rewrite Hs1)). rewrite Hs1 in Hin.
    specialize (Hshort eq_refl (sof v) Hok).
    destruct (f (sof v)) as [|x [|y rest]]; cbn [firstn map length] in *; [| |lia].
    + inversion Hin; subst. apply Gen_nil. auto.
    + inversion Hin as [|c0 v' F Q Ps Hs HF HQ Hrest]; subst. inversion Hrest as [c1 Hst|]; subst.
      destruct HQ as (Hi & Hcp & Hax & Hfr). apply auxrel_false in Hax. destruct (HR x v' Hcp Hfr) as [Hsl' HRx].
      change (v_aux v1) with (v_aux v) in Hax.
      eapply Gen_cons with (F := F) (v := {| v_ix := v_ix v; v_sl := v_sl v'; v_aux := v_aux v |}).
      * eapply steps_trans; [exact Hs|]. apply steps_step. unfold RunV; cbn [v_ix v_sl v_aux].
        rewrite (step_restore cx P MS _ _ _ _ (F ++ K) ns (v_ix v) Ha4 Hsl'). rewrite Hax. f_equal.
        cbn [length]. rewrite !app_length. cbn [length]. lia.
      * eapply inblk_weaken; [| |exact HF]; [lia|]. cbn [length]. rewrite !app_length. cbn [length]. lia.
      * exact HRx.
      * apply Gen_nil. exact Hst.
Qed.

Lemma neg_wrap lk pc ns ns1 codeI (f : sst -> list sst) :
  At pc (ISplit (pc + 1) (pc + 1 + length codeI + 1) :: codeI ++ [IFailNegativeLookAround]) ->
  ns <= ns1 ->
  (forall v K, ns1 <= length (v_sl v) -> st_ok cs (sof v) ->
     Gen (pc + 1) (pc + 1 + length codeI) K (RunV (pc + 1) v K) (map (R false v ns ns1) (f (sof v)))) ->
  segP lk pc (ISplit (pc + 1) (pc + 1 + length codeI + 1) :: codeI ++ [IFailNegativeLookAround])
       ns ns1 (fun st => match f st with [] => [st] | _ => [] end).
Proof.
  intros HAt Hn Hin. split; auto. intros v K Hsl Hok.
  apply At_cons in HAt as [Ha1 HAt]. apply At_app in HAt as [_ HAt]. apply At_cons in HAt as [Ha2 _].
  apply Gen_step. rewrite (step_splitV pc v K _ _ Ha1).
  specialize (Hin v (alt_of (pc + 1 + length codeI + 1) v :: K) Hsl Hok).
  assert (Eq : pc + length (ISplit (pc + 1) (pc + 1 + length codeI + 1) :: codeI ++ [IFailNegativeLookAround])
               = pc + 1 + length codeI + 1) by (cbn [length]; rewrite app_length; cbn [length]; lia).
  rewrite Eq.
  destruct (f (sof v)) as [|x rest]; cbn [map] in *.
  - inversion Hin as [c0 Hs|]; subst. eapply Gen_one' with (v' := v).
    + eapply steps_trans; [exact Hs|]. apply steps_step. apply fail_alt.
    + unfold R, sof; cbn [fst snd]. repeat split; auto.
  - inversion Hin as [|c0 v' F Q Ps Hs HF HQ Hrest]; subst. apply Gen_nil.
    eapply steps_trans; [exact Hs|]. apply steps_step. unfold RunV.
    replace (S pc + length codeI) with (pc + 1 + length codeI) in Ha2 by lia.
    apply (step_fnla cx P MS (pc + 1 + length codeI) _ _ _ F (alt_of (pc + 1 + length codeI + 1) v) K Ha2).
    + eapply Forall_impl; [|exact HF]. intros a Ha. cbn beta in Ha. lia.
    + cbn [alt_of a_pc]. lia.
Qed.

Lemma seg_la_pos lk la c g pc ns code ns' : body_ok c g ->
  la_pos la c g pc ns = inr (code, ns') -> okdeleg code -> At pc code ->
  NC <= ns -> 2 * (g + ngroups c) <= NC ->
  segP lk pc code ns ns' (fun st => map (fun s' => (fst st, snd s')) (firstn 1 (la_f la c g st))).
Proof.
  intros IH Hv Hnd HAt Hns Hng. unfold la_pos in Hv. cbv zeta in Hv.
  apply bindc_inr in Hv as ([cc n1] & Hi & Hr). inversion Hr; subst code ns'. clear Hr.
  assert (Hsub : okdeleg cc /\ At (pc + 1 + (if hard bs g c then 1 else 0)) cc).
  { pose proof HAt as HAt'. apply At_cons in HAt' as [_ HAt']. apply okdeleg_cons in Hnd as [_ Hnd].
    destruct (hard bs g c); cbn [app] in *.
    - apply At_cons in HAt' as [_ HAt']. apply At_app in HAt' as [HA _]. apply okdeleg_cons in Hnd as [_ Hnd].
      apply okdeleg_app in Hnd as [Hn _]. split; auto. replace (pc + 1 + 1) with (S (S pc)) by lia. exact HA.
    - apply At_app in HAt' as [HA _]. apply okdeleg_app in Hnd as [Hn _]. split; auto.
      replace (pc + 1 + 0) with (S pc) by lia. exact HA. }
  destruct Hsub as [Hndc HAc].
  destruct (seg_la_inner la c g _ (ns + 1) cc n1 IH Hi Hndc HAc ltac:(lia) Hng) as [M G].
  apply pos_wrap; auto; try lia. intros Hh st Hst. eapply la_f_short; eauto.
Qed.

Lemma seg_la_neg lk la c g pc ns code ns' : body_ok c g ->
  la_neg la c g pc ns = inr (code, ns') -> okdeleg code -> At pc code ->
  NC <= ns -> 2 * (g + ngroups c) <= NC ->
  segP lk pc code ns ns' (fun st => match la_f la c g st with [] => [st] | _ => [] end).
Proof.
  intros IH Hv Hnd HAt Hns Hng. unfold la_neg in Hv.
  apply bindc_inr in Hv as ([cc n1] & Hi & Hr). inversion Hr; subst code ns'. clear Hr.
  pose proof HAt as HAt'. apply At_cons in HAt' as [_ HAt']. apply At_app in HAt' as [HAc _].
  apply okdeleg_cons in Hnd as [_ Hnd]. apply okdeleg_app in Hnd as [Hndc _].
  replace (S pc) with (pc + 1) in HAc by lia.
  destruct (seg_la_inner la c g _ ns cc n1 IH Hi Hndc HAc Hns Hng) as [M G].
  apply neg_wrap; auto.
Qed.

(* ---------- alternation / sequence layouts over any per-child compiler (look-behind split) ---------- *)
Section GenLayout.
Variables lk0 lk : bool.                 (* children are required to be [oke lk0], results relate by [R lk] *)
Variable cf : expr -> nat -> nat -> nat -> cerr + cres.     (* child, first group, pc, next slot *)
Variable sf : expr -> nat -> sst -> list sst.

Definition cf_ok (x : expr) : Prop := forall g pc ns code ns',
  cf x g pc ns = inr (code, ns') -> okdeleg code -> At pc code -> oke lk0 g x -> NC <= ns ->
  2 * (g + ngroups x) <= NC -> segP lk pc code ns ns' (sf x g).

Fixpoint galt_codes (g pc ns : nat) (l : list expr) : cerr + (list (list insn) * nat) :=
  match l with
  | [] => inr ([], ns)
  | [x] => match cf x g pc ns with inl er => inl er | inr (c, ns1) => inr ([c], ns1) end
  | x :: ((_ :: _) as r) =>
      match cf x g (pc + 1) ns with
      | inl er => inl er
      | inr (c, ns1) =>
          match galt_codes (g + ngroups x) (pc + 1 + length c + 1) ns1 r with
          | inl er => inl er
          | inr (cs, ns2) => inr (c :: cs, ns2)
          end
      end
  end.
Fixpoint gsem_alts (g : nat) (l : list expr) (st : sst) : list sst :=
  match l with [] => [] | x :: r => sf x g st ++ gsem_alts (g + ngroups x) r st end.

Lemma galt_codes_cons2 g pc ns x y r : galt_codes g pc ns (x :: y :: r) =
  match cf x g (pc + 1) ns with
  | inl er => inl er
  | inr (c, ns1) => match galt_codes (g + ngroups x) (pc + 1 + length c + 1) ns1 (y :: r) with
                    | inl er => inl er | inr (cs0, ns2) => inr (c :: cs0, ns2) end
  end.
Proof. reflexivity. Qed.
Lemma galt_codes_ne g pc ns y r cds ns' : galt_codes g pc ns (y :: r) = inr (cds, ns') -> exists c' r', cds = c' :: r'.
Proof.
  destruct r as [|z r].
  - cbn [galt_codes]. destruct (cf y g pc ns) as [|[? ?]]; [discriminate|]. inversion 1. eauto.
  - rewrite galt_codes_cons2. destruct (cf y g (pc + 1) ns) as [|[? ?]]; [discriminate|].
    destruct (galt_codes _ _ _ (z :: r)) as [|[? ?]]; [discriminate|]. inversion 1. eauto.
Qed.

Lemma gseg_alts : forall r x, Forall cf_ok (x :: r) -> forall g pc ns cds ns',
  galt_codes g pc ns (x :: r) = inr (cds, ns') ->
  okdeleg (alt_layout pc (pc + alt_size cds) cds) -> At pc (alt_layout pc (pc + alt_size cds) cds) ->
  okl lk0 g (x :: r) -> NC <= ns -> 2 * (g + ngroups_list (x :: r)) <= NC ->
  ns <= ns' /\
  forall v K, ns' <= length (v_sl v) -> st_ok cs (sof v) ->
  Gen pc (pc + alt_size cds) K (RunV pc v K) (map (R lk v ns ns') (gsem_alts g (x :: r) (sof v))).
Proof.
  induction r as [|y r IH]; intros x HF g pc ns cds ns' Hc Hnd HAt Hok Hns Hng.
  - cbn [galt_codes] in Hc. destruct (cf x g pc ns) as [er|[c ns1]] eqn:Hx; [discriminate|].
    inversion Hc; subst cds ns'. cbn [alt_layout alt_size] in *.
    inversion HF; subst. apply okl_cons in Hok as [Hox _]. rewrite ngl_cons, ngl_nil in Hng.
    destruct (H1 g pc ns c ns1 Hx Hnd HAt Hox Hns ltac:(lia)) as [M G]. split; auto.
    intros v K Hsl Hokv. cbn [gsem_alts]. rewrite app_nil_r. apply G; auto.
  - rewrite galt_codes_cons2 in Hc. destruct (cf x g (pc + 1) ns) as [er|[c ns1]] eqn:Hx; [discriminate|].
    destruct (galt_codes (g + ngroups x) (pc + 1 + length c + 1) ns1 (y :: r)) as [er|[cds' ns2]] eqn:Hr; [discriminate|].
    inversion Hc; subst cds ns'. clear Hc.
    destruct (galt_codes_ne _ _ _ _ _ _ _ Hr) as (c' & r' & ->).
    set (endpc := pc + alt_size (c :: c' :: r')) in *.
    assert (Eend : endpc = (pc + 1 + length c + 1) + alt_size (c' :: r')) by (unfold endpc; rewrite alt_size_cons2; lia).
    rewrite alt_layout_cons2 in Hnd, HAt.
    apply okdeleg_cons in Hnd as [_ Hnd]. apply okdeleg_app in Hnd as [Hnc Hnd]. apply okdeleg_cons in Hnd as [_ Hnr].
    apply At_cons in HAt as [Ha1 HAt]. apply At_app in HAt as [HAc HAt]. apply At_cons in HAt as [Ha2 HAr].
    replace (S pc) with (pc + 1) in * by lia.
    replace (S (pc + 1 + length c)) with (pc + 1 + length c + 1) in HAr by lia.
    inversion HF as [|? ? Hsx HFr]; subst. apply okl_cons in Hok as [Hox Hor]. rewrite ngl_cons in Hng.
    destruct (Hsx g (pc + 1) ns c ns1 Hx Hnc HAc Hox Hns ltac:(lia)) as [M1 G1].
    rewrite Eend in Hnr, HAr.
    destruct (IH y HFr _ _ _ _ _ Hr Hnr HAr Hor ltac:(lia) ltac:(lia)) as [M2 G2].
    split; [lia|]. intros v K Hsl Hokv. cbn [gsem_alts]. rewrite map_app.
    apply Gen_step. unfold RunV at 1. rewrite (step_split cx P MS pc _ _ _ K _ _ Ha1).
    fold (alt_of (pc + 1 + length c + 1) v).
    change (Run (pc + 1) (v_ix v) (v_sl v) (v_aux v) (alt_of (pc + 1 + length c + 1) v :: K))
      with (RunV (pc + 1) v ([alt_of (pc + 1 + length c + 1) v] ++ K)).
    apply Gen_app with (F := [alt_of (pc + 1 + length c + 1) v]).
    + constructor; [|constructor]. cbn [alt_of a_pc]. lia.
    + apply Gen_weaken with (p := pc + 1); [lia|].
      eapply Gen_map with (q := pc + 1 + length c); [lia| |apply (Gen_R_widen lk _ _ _ _ v ns ns1 ns ns2); [lia|lia|apply G1; auto; lia]].
      apply Forall2_same_map. intros a _ v' K1 HR. exists v'. split; auto.
      apply steps_step. unfold RunV. apply step_jmp. exact Ha2.
    + apply Gen_step. cbn [app Machine.mstep alt_of a_pc a_ix a_slots a_aux].
      change (Run (pc + 1 + length c + 1) (v_ix v) (v_sl v) (v_aux v) K) with (RunV (pc + 1 + length c + 1) v K).
      apply Gen_weaken with (p := pc + 1 + length c + 1); [lia|]. rewrite Eend.
      apply (Gen_R_widen lk _ _ _ _ v ns1 ns2 ns ns2); [lia|lia|]. apply G2; auto.
Qed.

Fixpoint gseq_codes (g pc ns : nat) (l : list expr) : cerr + cres :=
  match l with
  | [] => inr ([], ns)
  | x :: r =>
      bindc (cf x g pc ns) (fun '(c, ns1) =>
      bindc (gseq_codes (g + ngroups x) (pc + length c) ns1 r) (fun '(c2, ns2) =>
      inr (c ++ c2, ns2)))
  end.
Fixpoint gsem_seq (g : nat) (l : list expr) (st : sst) : list sst :=
  match l with [] => [st] | x :: r => flat_map (gsem_seq (g + ngroups x) r) (sf x g st) end.

Hypothesis sf_ok : forall x g st st', oke lk0 g x -> st_ok cs st -> In st' (sf x g st) -> st_ok cs st'.

Lemma gseg_seq : forall B, Forall cf_ok B -> forall g pc ns code ns',
  gseq_codes g pc ns B = inr (code, ns') -> okdeleg code -> At pc code ->
  okl lk0 g B -> NC <= ns -> 2 * (g + ngroups_list B) <= NC ->
  segP lk pc code ns ns' (gsem_seq g B).
Proof.
  induction 1 as [|x r Hx Hr IH]; intros g pc ns code ns' Hv Hnd HAt Hokl Hns Hng; cbn [gseq_codes] in Hv.
  - inversion Hv; subst. apply segP_nil.
  - apply bindc_inr in Hv as ([c1 ns1] & H1 & Hv). apply bindc_inr in Hv as ([c2 ns2] & H2 & Hv).
    inversion Hv; subst code ns'. clear Hv.
    apply okdeleg_app in Hnd as [Hn1 Hn2]. apply At_app in HAt as [HA1 HA2].
    apply okl_cons in Hokl as [Ho1 Ho2]. rewrite ngl_cons in Hng.
    pose proof (Hx g pc ns c1 ns1 H1 Hn1 HA1 Ho1 Hns ltac:(lia)) as S1.
    assert (M1 : ns <= ns1) by apply S1.
    pose proof (IH _ _ _ _ _ H2 Hn2 HA2 Ho2 ltac:(lia) ltac:(lia)) as S2.
    cbn [gsem_seq]. apply segP_app with (ns1 := ns1); auto.
    intros st st' Hs Hin. exact (sf_ok x g st st' Ho1 Hs Hin).
Qed.

End GenLayout.

(* the compiler's split of a look-behind over an alternation of different lengths *)
Lemma visit_lb_split es g hc pc ns : const_size (Alt es) = false ->
  visit bs (LookAround (Alt es) LookBehind) g hc pc ns =
  match galt_codes (la_pos LookBehind) g pc ns es with
  | inl er => inl er
  | inr (cds, ns1) => inr (alt_layout pc (pc + alt_size cds) cds, ns1)
  end.
Proof.
  intros Hc. cbn [visit]. change (hard bs g (LookAround (Alt es) LookBehind)) with true. rewrite andb_false_r.
  rewrite Hc.
  match goal with |- match ?f0 g pc ns es with _ => _ end = _ => set (f := f0) end.
  assert (E : forall l g pc ns, f g pc ns l = galt_codes (la_pos LookBehind) g pc ns l).
  { induction l as [|x r IH]; intros g0 pc0 ns0; [reflexivity|].
    destruct r as [|y r]; [reflexivity|].
    change (f g0 pc0 ns0 (x :: y :: r)) with
      (match la_pos LookBehind x g0 (pc0 + 1) ns0 with
       | inl er => inl er
       | inr (c, ns1) => match f (g0 + ngroups x) (pc0 + 1 + length c + 1) ns1 (y :: r) with
                         | inl er => inl er | inr (cs0, ns2) => inr (c :: cs0, ns2) end
       end).
    rewrite galt_codes_cons2.
    destruct (la_pos LookBehind x g0 (pc0 + 1) ns0) as [|[c ns1]]; auto; try now rewrite IH. }
  rewrite E. reflexivity.
Qed.

Lemma visit_lbn_split es g hc pc ns : const_size (Alt es) = false ->
  visit bs (LookAround (Alt es) LookBehindNeg) g hc pc ns = gseq_codes (la_neg LookBehindNeg) g pc ns es.
Proof.
  intros Hc. cbn [visit]. change (hard bs g (LookAround (Alt es) LookBehindNeg)) with true. rewrite andb_false_r.
  rewrite Hc.
  match goal with |- ?f0 g pc ns es = _ => set (f := f0) end.
  assert (E : forall l g pc ns, f g pc ns l = gseq_codes (la_neg LookBehindNeg) g pc ns l).
  { induction l as [|x r IH]; intros g0 pc0 ns0; [reflexivity|].
    change (f g0 pc0 ns0 (x :: r)) with
      (bindc (la_neg LookBehindNeg x g0 pc0 ns0) (fun '(cd, ns1) =>
       bindc (f (g0 + ngroups x) (pc0 + length cd) ns1 r) (fun '(c2, ns2) => inr (cd ++ c2, ns2)))).
    cbn [gseq_codes]. destruct (la_neg LookBehindNeg x g0 pc0 ns0) as [|[cd ns1]]; cbn [bindc]; auto;
    try now rewrite IH. }
  apply E.
Qed.

Lemma lb_split_none es : forall g ix caps0, lb_found (Alt es) g ix caps0 = None -> lb_split (Alt es) g ix caps0 = [].
Proof.
  unfold lb_found, lb_split. induction es as [|x r IH]; intros g ix caps0 H; auto.
  destruct (first_some _ (backs cx ix ix)) as [s|]; [discriminate|]. cbn [app]. apply IH. exact H.
Qed.

Lemma sem_lb_one x gx ix caps0 : wfe x -> zok x -> const_size x = true -> st_ok cs (ix, caps0) ->
  sem cx (LookAround x LookBehind) fuel gx (ix, caps0) =
  match first_some (fun j => first_ending (sem cx x fuel gx (j, caps0)) ix) (backs cx ix ix) with
  | Some s => [(ix, snd s)] | None => [] end.
Proof.
  intros Hw Hz Hc Hok. rewrite sem_lb, lb_found_const, try_alt_const by auto. rewrite Hc, andb_false_r.
  destruct (goback cx ix (min_size x) ix); auto; try (destruct (hd_error _); reflexivity).
Qed.
Lemma sem_lbn_one x gx ix caps0 : wfe x -> zok x -> const_size x = true -> st_ok cs (ix, caps0) ->
  sem cx (LookAround x LookBehindNeg) fuel gx (ix, caps0) =
  match first_some (fun j => first_ending (sem cx x fuel gx (j, caps0)) ix) (backs cx ix ix) with
  | Some _ => [] | None => [(ix, caps0)] end.
Proof.
  intros Hw Hz Hc Hok. rewrite sem_lbn, lb_found_const, try_alt_const by auto.
  destruct (goback cx ix (min_size x) ix); auto; try (destruct (hd_error _); reflexivity).
Qed.

Lemma sem_lb_split es g st : wfe_list es -> zok_list es -> const_size (Alt es) = false ->
  (forall x, In x es -> const_size x = true) -> st_ok cs st ->
  sem cx (LookAround (Alt es) LookBehind) fuel g st =
  gsem_alts (fun x gx s => sem cx (LookAround x LookBehind) fuel gx s) g es st.
Proof.
  intros Hw Hz Hc Hall Hok. destruct st as [ix caps0]. rewrite sem_lb. cbn [is_alt]. rewrite Hc. cbn [negb andb].
  assert (E : lb_split (Alt es) g ix caps0 =
              gsem_alts (fun x gx s => sem cx (LookAround x LookBehind) fuel gx s) g es (ix, caps0)).
  { unfold lb_split. clear Hc. revert g. induction es as [|x r IH]; intros g; [reflexivity|].
    cbn [gsem_alts]. destruct Hw as [Hwx Hwr]. destruct Hz as [Hzx Hzr].
    rewrite (sem_lb_one x g ix caps0 Hwx Hzx (Hall x (or_introl eq_refl)) Hok).
    rewrite IH; auto. intros y Hy. apply Hall. right; auto. }
  destruct (lb_found (Alt es) g ix caps0) eqn:Ef; [exact E|]. rewrite <- E. symmetry. now apply lb_split_none.
Qed.

Lemma sem_lbn_split es g st : wfe_list es -> zok_list es ->
  (forall x, In x es -> const_size x = true) -> st_ok cs st ->
  sem cx (LookAround (Alt es) LookBehindNeg) fuel g st =
  gsem_seq (fun x gx s => sem cx (LookAround x LookBehindNeg) fuel gx s) g es st.
Proof.
  intros Hw Hz Hall Hok. destruct st as [ix caps0]. rewrite sem_lbn. unfold lb_found.
  revert g. induction es as [|x r IH]; intros g; [reflexivity|].
  cbn [gsem_seq]. destruct Hw as [Hwx Hwr]. destruct Hz as [Hzx Hzr].
  rewrite (sem_lbn_one x g ix caps0 Hwx Hzx (Hall x (or_introl eq_refl)) Hok).
  destruct (first_some _ (backs cx ix ix)) as [s|]; [reflexivity|].
  cbn [flat_map]. rewrite app_nil_r. apply IH; auto. intros y Hy. apply Hall. right; auto.
Qed.

Lemma la_const la x gx pc ns code ns' : is_behind la = true ->
  (la_pos la x gx pc ns = inr (code, ns') \/ la_neg la x gx pc ns = inr (code, ns')) -> const_size x = true.
Proof.
  intros Hb [H|H]; destruct la; try discriminate; unfold la_pos, la_neg, la_inner in H;
    destruct (const_size x); auto; discriminate.
Qed.

Lemma la_pos_ok lk la x : (la = LookAhead \/ la = LookBehind) -> seg_stmt false x ->
  cf_ok false lk (la_pos la) (fun x g => sem cx (LookAround x la) fuel g) x.
Proof.
  intros Hla IH g pc ns code ns' Hv Hnd HAt Hok Hns Hng.
  eapply segP_ext; [|eapply seg_la_pos; eauto; right; split; auto]. intros st Hst. cbv beta.
  destruct Hok as (Hw & Hz & _). rewrite sem_la_eq; auto.
  - destruct Hla as [->| ->]; reflexivity.
  - destruct Hla as [->| ->]; auto. eapply (la_const LookBehind); eauto.
Qed.
Lemma la_neg_ok lk la x : (la = LookAheadNeg \/ la = LookBehindNeg) -> seg_stmt false x ->
  cf_ok false lk (la_neg la) (fun x g => sem cx (LookAround x la) fuel g) x.
Proof.
  intros Hla IH g pc ns code ns' Hv Hnd HAt Hok Hns Hng.
  eapply segP_ext; [|eapply seg_la_neg; eauto; right; split; auto]. intros st Hst. cbv beta.
  destruct Hok as (Hw & Hz & _). rewrite sem_la_eq; auto.
  - destruct Hla as [->| ->]; reflexivity.
  - destruct Hla as [->| ->]; auto. eapply (la_const LookBehindNeg); eauto.
Qed.

(* every alternative is constant-size, or its compilation would have failed *)
Lemma galt_const : forall l g pc ns cds ns1, galt_codes (la_pos LookBehind) g pc ns l = inr (cds, ns1) ->
  forall a, In a l -> const_size a = true.
Proof.
  induction l as [|x l IH]; intros g pc ns cds ns1 Hc a Ha; [destruct Ha|].
  destruct l as [|y l].
  - destruct Ha as [Ha|[]]. subst a. cbn [galt_codes] in Hc.
    destruct (la_pos LookBehind x g pc ns) as [|[c n1]] eqn:E; [discriminate|].
    eapply (la_const LookBehind); eauto.
  - rewrite galt_codes_cons2 in Hc. destruct (la_pos LookBehind x g (pc + 1) ns) as [|[c n1]] eqn:E; [discriminate|].
    destruct (galt_codes _ _ _ _ (y :: l)) as [|[cds' n2]] eqn:E2; [discriminate|].
    destruct Ha as [Ha|Ha]; [subst a; eapply (la_const LookBehind); eauto|eapply IH; eauto].
Qed.

Lemma okl_of_alt lk g x r : oke lk g (Alt (x :: r)) -> okl lk g (x :: r).
Proof.
  intros (Hw & Hz & Hac & Hr). rewrite acheck_alt in Hac. rewrite wfe_alt in Hw. rewrite zok_alt in Hz. rewrite rok_alt in Hr.
  unfold okl, oke. rewrite wfe_concat, zok_concat, acheck_concat, rok_concat. auto.
Qed.

Lemma seg_lookaround lk c la : seg_stmt false c -> (forall es, c = Alt es -> Forall (seg_stmt false) es) ->
  seg_stmt lk (LookAround c la).
Proof.
  intros IH IHalts g hc pc ns code ns' Hv Hnd HAt (Hw & Hz & Hac & Hrk) Hns Hng.
  cbn [wfe] in Hw. cbn [acheck] in Hac. cbn [rok] in Hrk. destruct Hrk as [Hrk Hzb]. cbn [ngroups] in Hng.
  destruct (match la, c with (LookBehind | LookBehindNeg), Alt _ => negb (const_size c) | _, _ => false end) eqn:Esplit.
  { (* an alternation of different lengths under a look-behind: split *)
    destruct c as [| | | | |es| | | | | | | | | | |]; try (destruct la; discriminate).
    assert (Hcs : const_size (Alt es) = false) by (destruct la; try discriminate; now apply negb_true_iff in Esplit).
    specialize (IHalts es eq_refl).
    assert (Hzc : zok (Alt es)) by exact Hz.
    assert (Hoc : oke false g (Alt es)) by (repeat split; auto).
    destruct es as [|x r]; [destruct Hoc as (_ & _ & Ha & _); discriminate|].
    pose proof (okl_of_alt false g x r Hoc) as Hokl. rewrite ngroups_alt in Hng.
    rewrite wfe_alt in Hw. rewrite zok_alt in Hzc.
    destruct la; try discriminate.
    - (* LookBehind: an alternation of look-behinds *)
      rewrite (visit_lb_split (x :: r) g hc pc ns Hcs) in Hv.
      destruct (galt_codes (la_pos LookBehind) g pc ns (x :: r)) as [er|[cds ns1]] eqn:Hc; [discriminate|].
      inversion Hv; subst code ns'. clear Hv.
      assert (Hcf : Forall (cf_ok false lk (la_pos LookBehind) (fun x g => sem cx (LookAround x LookBehind) fuel g)) (x :: r)).
      { eapply Forall_impl; [|exact IHalts]. intros a Ha. apply la_pos_ok; auto. }
      destruct (gseg_alts false lk _ _ r x Hcf g pc ns cds ns1 Hc Hnd HAt Hokl Hns Hng) as [M G]. split; auto.
      intros v K Hsl Hokv. rewrite alt_layout_length. rewrite sem_lb_split; auto.
      eapply galt_const; eauto.
    - (* LookBehindNeg: a sequence of negative look-behinds *)
      rewrite (visit_lbn_split (x :: r) g hc pc ns Hcs) in Hv.
      assert (Hcf : Forall (cf_ok false lk (la_neg LookBehindNeg) (fun x g => sem cx (LookAround x LookBehindNeg) fuel g)) (x :: r)).
      { eapply Forall_impl; [|exact IHalts]. intros a Ha. apply la_neg_ok; auto. }
      assert (Hsf : forall x g st st', oke false g x -> st_ok cs st ->
                In st' (sem cx (LookAround x LookBehindNeg) fuel g st) -> st_ok cs st').
      { intros a ga st st' (Hwa & _) Hs Hin. eapply (sem_ok (LookAround a LookBehindNeg)); eauto. }
      eapply segP_ext; [|eapply (gseg_seq false lk _ _ Hsf (x :: r) Hcf); eauto].
      intros st Hst. symmetry. apply sem_lbn_split; auto.
      clear - Hv. revert g pc ns code ns' Hv. generalize (x :: r) as l.
      induction l as [|y l IHl]; intros g pc ns code ns' Hv a Ha; [destruct Ha|].
      cbn [gseq_codes] in Hv. apply bindc_inr in Hv as ([c1 n1] & H1 & Hv). apply bindc_inr in Hv as ([c2 n2] & H2 & _).
      destruct Ha as [<-|Ha]; [eapply (la_const LookBehindNeg); eauto|eapply IHl; eauto]. }
  assert (Hlb : lb_alt_const c la).
  { destruct la; try exact I; destruct c; try exact I; cbn [lb_alt_const]; now apply negb_false_iff in Esplit. }
  rewrite (visit_la c la g hc pc ns Hlb) in Hv. change (hard bs g (LookAround c la)) with true in Hv.
  rewrite andb_false_r in Hv.
  assert (Hbody : body_ok c g).
  { destruct (hard bs g c) eqn:Hh; [right|left; exact Hh]. split; auto.
    assert (Hzc : zok c) by (destruct c; try exact Hz; discriminate).
    repeat split; auto. }
  assert (Hcs : match la with LookBehind | LookBehindNeg => const_size c = true | _ => True end).
  { destruct la; auto; unfold la_pos, la_neg, la_inner in Hv; destruct (const_size c); auto; discriminate. }
  destruct la.
  - eapply segP_ext; [|eapply seg_la_pos; eauto]. intros st Hst. cbv beta. now rewrite sem_la_eq.
  - eapply segP_ext; [|eapply seg_la_neg; eauto]. intros st Hst. cbv beta. now rewrite sem_la_eq.
  - eapply segP_ext; [|eapply seg_la_pos; eauto]. intros st Hst. cbv beta. now rewrite sem_la_eq.
  - eapply segP_ext; [|eapply seg_la_neg; eauto]. intros st Hst. cbv beta. now rewrite sem_la_eq.
Qed.

Lemma C15_sem_cond c y n g st : sem cx (Conditional c y n) fuel g st =
  match sem cx c fuel g st with
  | s1 :: _ => sem cx y fuel (g + ngroups c) s1
  | [] => sem cx n fuel (g + ngroups c + ngroups y) st
  end.
Proof. destruct st. reflexivity. Qed.

Lemma seg_atomic lk c : seg_stmt false c -> seg_stmt lk (AtomicGroup c).
Proof.
  intros IH g hc pc ns code ns' Hv Hnd HAt (Hw & Hz & Hac & Hrk) Hns Hng; cbn [visit] in Hv.
  destruct (negb hc && negb (hard bs g (AtomicGroup c))) eqn:Edel;
    [inversion Hv; subst code ns'; split; [lia|]; intros v K Hsl Hok; apply seg_deleg; auto using st_ok_ix|].
  apply bindc_inr in Hv as ([cc ns1] & Hc & Hr). inversion Hr; subst code ns'. clear Hr.
  apply At_cons in HAt as [Ha1 HAt]. apply At_app in HAt as [HAc HA2]. apply At_cons in HA2 as [Ha2 _].
  apply okdeleg_cons in Hnd as [_ Hnd]. apply okdeleg_app in Hnd as [Hndc _].
  cbn [ngroups] in Hng. cbn [wfe] in Hw. cbn [zok] in Hz. cbn [acheck] in Hac. cbn [rok] in Hrk.
  replace (pc + 1) with (S pc) in Hc by lia.
  destruct (IH g false (S pc) ns cc ns1 Hc Hndc HAc (conj Hw (conj Hz (conj Hac Hrk))) Hns ltac:(lia)) as [Hmono IHc].
  split; [exact Hmono|]. intros v K Hsl Hok.
  destruct v as [ix sl aux]. cbn [sem].
  set (v1 := {| v_ix := ix; v_sl := sl; v_aux := aux ++ [V (length K)] |}).
  apply Gen_step. unfold RunV at 1; cbn [v_ix v_sl v_aux]. rewrite (step_begin cx P MS pc ix sl aux K Ha1).
  change (Run (S pc) ix sl (aux ++ [V (length K)]) K) with (RunV (S pc) v1 K).
  specialize (IHc v1 K Hsl Hok). change (sof v1) with (sof {| v_ix := ix; v_sl := sl; v_aux := aux |}) in IHc.
  change (let '(ix0, caps0) := sof {| v_ix := ix; v_sl := sl; v_aux := aux |} in
          firstn 1 (sem cx c fuel g (sof {| v_ix := ix; v_sl := sl; v_aux := aux |})))
    with (firstn 1 (sem cx c fuel g (sof {| v_ix := ix; v_sl := sl; v_aux := aux |}))).
  destruct (sem cx c fuel g (sof {| v_ix := ix; v_sl := sl; v_aux := aux |})) as [|x rest]; cbn [firstn map] in *.
  - inversion IHc; subst. apply Gen_nil. auto.
  - inversion IHc as [|c0 v' F Q Ps Hs HF HQ Hrest]; subst.
    destruct HQ as (Hi & Hcp & Hax & Hfr). apply auxrel_false in Hax.
    destruct v' as [ix' sl' aux']. cbn [v_ix v_sl v_aux] in *. subst aux'.
    eapply Gen_cons with (F := []) (v := {| v_ix := ix'; v_sl := sl'; v_aux := aux |}).
    + eapply steps_trans; [exact Hs|]. apply steps_step. unfold RunV, v1; cbn [v_ix v_sl v_aux app].
      rewrite (step_end cx P MS _ ix' sl' aux (F ++ K) (length K) Ha2) by (rewrite app_length; lia).
      rewrite skipn_app_len. f_equal. cbn [length]. rewrite app_length. cbn [length]. lia.
    + constructor.
    + unfold R; cbn [v_ix v_sl v_aux]. auto.
    + apply Gen_nil. apply steps_refl.
Qed.

(* a conditional, where a leaked auxiliary-stack entry on the false path is tolerated *)
Lemma seg_cond c y n : seg_stmt false c -> seg_stmt true y -> seg_stmt true n ->
  seg_stmt true (Conditional c y n).
Proof.
  intros IHc IHy IHn g hc pc ns code ns' Hv Hnd HAt (Hw & Hz & Hac & Hrk) Hns Hng; cbn [visit] in Hv.
  destruct (negb hc && negb (hard bs g (Conditional c y n))) eqn:Edel;
    [inversion Hv; subst code ns'; split; [lia|]; intros v K Hsl Hok; apply seg_deleg; auto using st_ok_ix|].
  apply bindc_inr in Hv as ([cc ns1] & Hc & Hv). apply bindc_inr in Hv as ([cy ns2] & Hy & Hv).
  apply bindc_inr in Hv as ([cn ns3] & Hn & Hr). inversion Hr; subst code ns'. clear Hr.
  cbn [wfe] in Hw. destruct Hw as (Hwc & Hwy & Hwn). cbn [zok] in Hz. destruct Hz as (Hzc & Hzy & Hzn).
  cbn [rok] in Hrk. destruct Hrk as (Hrc & Hry & Hrn). cbn [ngroups] in Hng.
  cbn [acheck] in Hac. destruct (acheck g c) eqn:Eac; [discriminate|].
  destruct (acheck (g + ngroups c) y) eqn:Eay; [discriminate|].
  set (pc_y := pc + 2 + length cc + 1) in *. set (pc_n := pc_y + length cy + 1) in *.
  apply At_cons in HAt as [Ha1 HAt]. apply At_cons in HAt as [Ha2 HAt]. apply At_app in HAt as [HAc HAt].
  apply At_cons in HAt as [Ha3 HAt]. apply At_app in HAt as [HAy HAt]. apply At_cons in HAt as [Ha4 HAn].
  apply okdeleg_cons in Hnd as [_ Hnd]. apply okdeleg_cons in Hnd as [_ Hnd]. apply okdeleg_app in Hnd as [Hndc Hnd].
  apply okdeleg_cons in Hnd as [_ Hnd]. apply okdeleg_app in Hnd as [Hndy Hnd]. apply okdeleg_cons in Hnd as [_ Hndn].
  replace (S (S pc)) with (pc + 2) in * by lia.
  replace (S (pc + 2 + length cc)) with pc_y in * by (unfold pc_y; lia).
  replace (S (pc_y + length cy)) with pc_n in * by (unfold pc_n; lia).
  destruct (IHc g hc (pc + 2) ns cc ns1 Hc Hndc HAc (conj Hwc (conj Hzc (conj Eac Hrc))) Hns ltac:(lia)) as [M1 G1].
  destruct (IHy (g + ngroups c) hc pc_y ns1 cy ns2 Hy Hndy HAy (conj Hwy (conj Hzy (conj Eay Hry))) ltac:(lia) ltac:(lia)) as [M2 G2].
  destruct (IHn (g + ngroups c + ngroups y) hc pc_n ns2 cn ns3 Hn Hndn HAn (conj Hwn (conj Hzn (conj Hac Hrn))) ltac:(lia) ltac:(lia)) as [M3 G3].
  split; [lia|]. intros v K Hsl Hok.
  set (q := pc + length (IBeginAtomic :: ISplit (pc + 2) pc_n :: cc ++ IEndAtomic :: cy ++ IJmp (pc_n + length cn) :: cn)).
  assert (Eq : q = pc_n + length cn).
  { unfold q, pc_n, pc_y. cbn [length]. rewrite !app_length. cbn [length]. rewrite app_length. cbn [length]. lia. }
  rewrite C15_sem_cond.
  destruct v as [ix sl aux].
  set (v1 := {| v_ix := ix; v_sl := sl; v_aux := aux ++ [V (length K)] |}).
  apply Gen_step. unfold RunV at 1; cbn [v_ix v_sl v_aux]. rewrite (step_begin cx P MS pc ix sl aux K Ha1).
  change (Run (S pc) ix sl (aux ++ [V (length K)]) K) with (RunV (S pc) v1 K).
  apply Gen_step. rewrite (step_splitV (S pc) v1 K _ _ Ha2).
  specialize (G1 v1 (alt_of pc_n v1 :: K) ltac:(unfold v1; cbn [v_sl] in *; lia) Hok).
  change (sof v1) with (sof {| v_ix := ix; v_sl := sl; v_aux := aux |}) in G1.
  destruct (sem cx c fuel g (sof {| v_ix := ix; v_sl := sl; v_aux := aux |})) as [|x rest] eqn:Esem; cbn [map] in G1.
  - (* condition fails: the false branch runs with the leaked entry *)
    inversion G1 as [c0 Hs|]; subst.
    eapply Gen_steps; [eapply steps_trans; [exact Hs|apply steps_step; apply fail_alt]|].
    apply Gen_weaken with (p := pc_n); [unfold pc_n, pc_y; lia|]. rewrite Eq.
    specialize (G3 v1 K ltac:(unfold v1; cbn [v_sl] in *; lia) Hok).
    change (sof v1) with (sof {| v_ix := ix; v_sl := sl; v_aux := aux |}) in G3.
    eapply Gen_impl; [|exact G3]. apply Forall2_same_map. intros a _ v' (Hi & Hcp & Hax & Hfr).
    unfold R. split; [auto|]. split; [auto|]. split.
    + cbn [v_aux] in *. eapply auxrel_trans; [|exact Hax]. unfold v1; cbn [v_aux auxrel]. eexists; reflexivity.
    + eapply frame_widen; [| |exact Hfr]; lia.
  - (* condition has a result: cut, then the true branch from the first result *)
    inversion G1 as [|c0 v' F Q Ps Hs HF HQ Hrest]; subst.
    destruct HQ as (Hi & Hcp & Hax & Hfr). apply auxrel_false in Hax.
    destruct v' as [ix' sl' aux']. cbn [v_ix v_sl v_aux] in *. subst aux'.
    set (v2 := {| v_ix := ix'; v_sl := sl'; v_aux := aux |}).
    eapply Gen_steps.
    { eapply steps_trans; [exact Hs|]. apply steps_step. unfold RunV, v1; cbn [v_ix v_sl v_aux].
      replace (F ++ alt_of pc_n {| v_ix := ix; v_sl := sl; v_aux := aux ++ [V (length K)] |} :: K)
        with ((F ++ [alt_of pc_n {| v_ix := ix; v_sl := sl; v_aux := aux ++ [V (length K)] |}]) ++ K)
        by (rewrite <- app_assoc; reflexivity).
      rewrite (step_end cx P MS _ ix' sl' aux _ (length K) Ha3) by (rewrite app_length; lia).
      rewrite skipn_app_len. reflexivity. }
    change (Run (S (pc + 2 + length cc)) ix' sl' aux K) with (RunV (S (pc + 2 + length cc)) v2 K).
    replace (S (pc + 2 + length cc)) with pc_y by (unfold pc_y; lia).
    assert (Hsx : sof v2 = x) by (apply sof_eq; auto).
    assert (Hokx : st_ok cs x).
    { eapply (sem_ok c); [exact Hwc|exact Hok|]. rewrite Esem. left; reflexivity. }
    assert (Hl2 : ns2 <= length (v_sl v2)) by (destruct Hfr as [L _]; unfold v2, v1 in *; cbn [v_sl] in *; lia).
    specialize (G2 v2 K Hl2 ltac:(now rewrite Hsx)).
    rewrite Hsx in G2.
    apply Gen_weaken with (p := pc_y); [unfold pc_y; lia|].
    eapply Gen_map with (q := pc_y + length cy); [unfold pc_n in Eq; lia| |exact G2].
    apply Forall2_same_map. intros a _ v' K1 (Hi2 & Hcp2 & Hax2 & Hfr2). exists v'. split.
    + apply steps_step. rewrite Eq. apply step_jmpV. exact Ha4.
    + unfold R. split; [auto|]. split; [auto|]. split; [exact Hax2|].
      destruct Hfr as [L1 F1], Hfr2 as [L2 F2]. unfold v2, v1 in *. cbn [v_sl] in *. split; [congruence|].
      intros j Hj Ho. rewrite F2, F1; auto; lia.
Qed.

(* ---------- arrow (B), stage 1 ---------- *)
Lemma seg_all_aux : forall e lk, seg_stmt lk e /\ (forall es, e = Alt es -> Forall (seg_stmt lk) es).
Proof.
  induction e using expr_ind'; intros lk; (split; [|try (intros es0 E0; discriminate)]).
  - apply seg_empty.
  - apply seg_any.
  - apply seg_assertion.
  - apply seg_literal.
  - apply seg_concat. eapply Forall_impl; [|exact H]. intros a Ha; apply Ha.
  - apply seg_alt. eapply Forall_impl; [|exact H]. intros a Ha; apply Ha.
  - intros es0 E0. inversion E0; subst. eapply Forall_impl; [|exact H]. intros a Ha; apply Ha.
  - apply seg_group, IHe.
  - apply seg_lookaround; apply IHe.
  - apply seg_repeat, IHe.
  - (* a class node: always one Delegate instruction over a deterministic block *)
    intros g hc pc ns code ns' Hv Hnd HAt _ _ _. cbn [visit] in Hv.
    assert (Hv' : code = delegate1 (Delegate i s c k) g /\ ns' = ns).
    { destruct (negb hc && negb (hard bs g (Delegate i s c k))); inversion Hv; auto. }
    destruct Hv' as [-> ->]. split; [lia|]. intros v K Hsl Hokv. apply seg_deleg; auto using st_ok_ix.
  - apply seg_backref.
  - apply seg_atomic, IHe.
  - apply seg_keepout.
  - apply seg_contg.
  - apply seg_bec.
  - destruct lk.
    + apply seg_cond; [apply IHe1|apply IHe2|apply IHe3].
    + intros g hc pc ns code ns' _ _ _ (_ & _ & _ & Hrk). destruct Hrk.
  - intros g1 hc pc ns code ns' Hv Hnd. exfalso. cbn [visit] in Hv.
    destruct (negb hc && negb (hard bs g1 (SubroutineCall g))); [|discriminate]. inversion Hv; subst code; cbn in Hnd; discriminate.
Qed.

Theorem seg_all : forall lk e, seg_stmt lk e.
Proof. intros lk e. apply seg_all_aux. Qed.


(* ====================================================================================== *)
(* Stage 2: ALL Delegate instructions.  The compiled program implements the ATOMIZED tree
   (Proofs/Atomize.v): every delegated block yields its first result only.                 *)
(* ====================================================================================== *)
Section D.
(* the fuel the Delegate oracle runs with (behind a definition so that [subst] leaves it alone) *)
Definition FuelS : Prop := fuel = S (length (c_text cx)).
Hypothesis HfuelS : FuelS.

Definition okinsn2 (i : insn) : bool :=
  match i with IDelegate es sg eg => forallb easyx es && (eg =? sg + ngroups_list es) | _ => true end.
Definition okdeleg2 (code : list insn) : Prop := forallb okinsn2 code = true.
Lemma okdeleg2_app a b : okdeleg2 (a ++ b) <-> okdeleg2 a /\ okdeleg2 b.
Proof. unfold okdeleg2. rewrite forallb_app, andb_true_iff. tauto. Qed.
Lemma okdeleg2_cons i c : okdeleg2 (i :: c) <-> okinsn2 i = true /\ okdeleg2 c.
Proof. unfold okdeleg2. cbn [forallb]. rewrite andb_true_iff. tauto. Qed.

Notation asem e g hc := (sem cx (atomize bs e g hc) fuel g).

Definition seg_stmtD (lk : bool) (e : expr) : Prop := forall g hc pc ns code ns',
  visit bs e g hc pc ns = inr (code, ns') -> okdeleg2 code -> At pc code ->
  oke lk g e -> NC <= ns -> 2 * (g + ngroups e) <= NC ->
  segP lk pc code ns ns' (asem e g hc).

Lemma firstn1_short {A} (l : list A) : length l <= 1 -> firstn 1 l = l.
Proof. destruct l as [|a [|b l]]; cbn; intros; auto; lia. Qed.

(* a whole easy sub-expression outside a hard context *)
Lemma asem_easy e g hc st : negb hc && negb (hard bs g e) = true ->
  asem e g hc st = firstn 1 (sem cx e fuel g st).
Proof.
  intros Hs. rewrite (atomize_easy bs e g hc Hs). destruct (det e) eqn:Ed; [|destruct st; reflexivity].
  destruct st as [ix cp]. destruct (det_sem cx e Ed ix) as [r Hr]. rewrite Hr. destruct r; reflexivity.
Qed.

(* one Delegate instruction = the first result of the block *)
Lemma block_step lk es sg eg pc ns v K : at_ pc (IDelegate es sg eg) ->
  forallb easyx es = true -> eg = sg + ngroups_list es -> 2 * eg <= NC -> NC <= ns ->
  ns <= length (v_sl v) ->
  Gen pc (S pc) K (RunV pc v K) (map (R lk v ns ns) (firstn 1 (sem_cat cx fuel sg es (sof v)))).
Proof.
  intros Ha He Heg H2 Hns Hsl.
  pose proof (step_delegate cx P MS pc (v_ix v) (v_sl v) (v_aux v) K es sg eg NC Ha He Heg H2 ltac:(lia)) as Hs.
  pose proof HfuelS as HfS. unfold FuelS in HfS. rewrite <- HfS in Hs. clear HfS. rewrite sem_concat_eq in Hs. fold (caps (v_sl v)) in Hs.
  change (v_ix v, caps (v_sl v)) with (sof v) in Hs.
  destruct (sem_cat cx fuel sg es (sof v)) as [|x rest]; cbn [hd_error firstn map] in *.
  - apply Gen_none. apply steps_step. exact Hs.
  - destruct Hs as (sl' & Hst & Hcp & Hl & Hfr).
    eapply (Gen_one pc (S pc) K v {| v_ix := fst x; v_sl := sl'; v_aux := v_aux v |}).
    + apply steps_step. exact Hst.
    + unfold R; cbn [v_ix v_sl v_aux]. split; [auto|]. split; [exact Hcp|]. split; [auto|].
      split; [exact Hl|]. intros j Hj _. apply Hfr. exact Hj.
Qed.

Lemma lit_step lk val pc ns v K : at_ pc (ILit val) -> v_ix v <= length t ->
  Gen pc (S pc) K (RunV pc v K) (map (R lk v ns ns) (lit_res (sof v) val)).
Proof.
  intros Ha Hix. unfold lit_res. cbn [fst snd sof].
  pose proof (step_lit cx P MS pc (v_ix v) (v_sl v) (v_aux v) K _ Ha) as Hs. rewrite Htext in Hs. fold t in Hs.
  destruct (lit_at t (v_ix v) val); cbn [map].
  - eapply (Gen_one pc (S pc) K v {| v_ix := v_ix v + length val; v_sl := v_sl v; v_aux := v_aux v |}).
    + apply steps_step. exact Hs.
    + unfold R; cbn [v_ix v_sl v_aux fst snd]. repeat split; auto.
  - apply Gen_none. apply steps_step. exact Hs.
Qed.

Lemma lit_res_short st val : length (lit_res st val) <= 1.
Proof. unfold lit_res. destruct (lit_at _ _ _); cbn; lia. Qed.

Lemma seg_delegD lk e g pc ns v K : okdeleg2 (delegate1 e g) -> At pc (delegate1 e g) ->
  2 * (g + ngroups e) <= NC -> NC <= ns -> ns <= length (v_sl v) -> v_ix v <= length t ->
  Gen pc (pc + length (delegate1 e g)) K (RunV pc v K) (map (R lk v ns ns) (firstn 1 (sem cx e fuel g (sof v)))).
Proof.
  unfold delegate1. destruct (is_literal e) eqn:El; intros Hn Ha Hng Hns Hsl Hix.
  - apply At_cons in Ha as [Ha _]. cbn [length]. replace (pc + 1) with (S pc) by lia.
    rewrite sem_is_literal by auto. rewrite firstn1_short by apply lit_res_short. now apply lit_step.
  - apply At_cons in Ha as [Ha _]. apply okdeleg2_cons in Hn as [Hn _]. cbn [okinsn2] in Hn.
    apply andb_true_iff in Hn as [Hd Heq]. apply Nat.eqb_eq in Heq.
    cbn [length]. replace (pc + 1) with (S pc) by lia.
    pose proof (block_step lk [e] g _ pc ns v K Ha Hd Heq ltac:(lia) Hns Hsl) as Hb.
    cbn [sem_cat] in Hb.
    replace (flat_map (fun s => [s]) (sem cx e fuel g (sof v))) with (sem cx e fuel g (sof v)) in Hb; [exact Hb|].
    generalize (sem cx e fuel g (sof v)). intros l. induction l as [|a l IHl]; [reflexivity|]. cbn [flat_map app]. now rewrite <- IHl.
Qed.

(* a run of easy siblings handed over as one block *)
Definition blockf (g : nat) (l : list expr) (st : sst) : list sst :=
  match l with [] => [st] | _ => firstn 1 (sem_cat cx fuel g l st) end.

Lemma seg_delegatesD lk l g pc ns : okdeleg2 (delegates l g) -> At pc (delegates l g) ->
  2 * (g + ngroups_list l) <= NC -> NC <= ns ->
  segP lk pc (delegates l g) ns ns (blockf g l).
Proof.
  intros Hn Ha Hng Hns. destruct l as [|x r]; [apply segP_nil|].
  unfold delegates in *. cbn [blockf]. destruct (forallb is_literal (x :: r)) eqn:El.
  - apply At_cons in Ha as [Ha _]. split; auto. intros v K Hsl Hok. unfold blockf.
    rewrite sem_cat_literals; [|exact El|exact (st_ok_ix v Hok)]. rewrite flat_map_push_literal in *.
    rewrite firstn1_short by apply lit_res_short. cbn [length]. replace (pc + 1) with (S pc) by lia.
    apply lit_step; auto using st_ok_ix.
  - apply At_cons in Ha as [Ha _]. apply okdeleg2_cons in Hn as [Hn _]. cbn [okinsn2] in Hn.
    apply andb_true_iff in Hn as [Hd Heq]. apply Nat.eqb_eq in Heq. split; auto. intros v K Hsl Hok. unfold blockf.
    cbn [length]. replace (pc + 1) with (S pc) by lia.
    apply (block_step lk (x :: r) g _ pc ns v K Ha Hd Heq); auto; lia.
Qed.

Lemma visit_short e g hc pc ns : negb hc && negb (hard bs g e) = true ->
  visit bs e g hc pc ns = inr (delegate1 e g, ns).
Proof. intros H. destruct e; cbn [visit]; rewrite H; reflexivity. Qed.

(* shared opening: the whole expression handed over *)
Ltac startD e :=
  intros g hc pc ns code ns' Hv Hnd HAt (Hw & Hz & Hac & Hrk) Hns Hng;
  destruct (negb hc && negb (hard bs g e)) eqn:Edel;
  [rewrite (visit_short e g hc pc ns Edel) in Hv; inversion Hv; subst code ns'; split; [lia|]; intros v K Hsl Hok;
   rewrite (asem_easy e g hc (sof v) Edel); apply seg_delegD; auto using st_ok_ix; lia | ].

(* leaves: the tree is not changed and the code has no Delegate (or a deterministic one): the
   stage-1 lemmas apply *)
Lemma seg_oldD lk e : seg_stmt lk e ->
  (forall g hc, negb hc && negb (hard bs g e) = false -> atomize bs e g hc = e) ->
  (forall g hc pc ns code ns', negb hc && negb (hard bs g e) = false ->
     visit bs e g hc pc ns = inr (code, ns') -> okdeleg code) ->
  seg_stmtD lk e.
Proof.
  intros Hold Hat Hokd. startD e. rewrite (Hat g hc Edel). apply (Hold g hc pc ns code ns'); auto.
  - eapply Hokd; eauto.
  - repeat split; auto.
Qed.

Ltac leaf_at := intros g hc Hs; cbn [atomize]; rewrite Hs; reflexivity.
Ltac leaf_ok := intros g hc pc ns code ns' Hs Hv; cbn [visit] in Hv; rewrite Hs in Hv;
  repeat match type of Hv with context [match ?b with _ => _ end] => destruct b end;
  inversion Hv; subst; unfold okdeleg, delegate1; cbn; rewrite ?Nat.add_0_r, ?Nat.eqb_refl; reflexivity.

Lemma seg_emptyD lk : seg_stmtD lk Empty.
Proof. apply seg_oldD; [apply seg_empty|leaf_at|leaf_ok]. Qed.
Lemma seg_anyD lk nl : seg_stmtD lk (Any nl).
Proof. apply seg_oldD; [apply seg_any|leaf_at|leaf_ok]. Qed.
Lemma seg_assertionD lk a : seg_stmtD lk (Assertion a).
Proof. apply seg_oldD; [apply seg_assertion|leaf_at|leaf_ok]. Qed.
Lemma seg_literalD lk v c : seg_stmtD lk (Literal v c).
Proof. apply seg_oldD; [apply seg_literal|leaf_at|leaf_ok]. Qed.
Lemma seg_keepoutD lk : seg_stmtD lk KeepOut.
Proof. apply seg_oldD; [apply seg_keepout|leaf_at|leaf_ok]. Qed.
Lemma seg_contgD lk : seg_stmtD lk ContinueFromPreviousMatchEnd.
Proof. apply seg_oldD; [apply seg_contg|leaf_at|leaf_ok]. Qed.
Lemma seg_backrefD lk grp : seg_stmtD lk (Backref grp).
Proof. apply seg_oldD; [apply seg_backref|leaf_at|leaf_ok]. Qed.
Lemma seg_becD lk grp : seg_stmtD lk (BackrefExistsCondition grp).
Proof. apply seg_oldD; [apply seg_bec|leaf_at|leaf_ok]. Qed.
Lemma seg_classD lk i s c k : seg_stmtD lk (Delegate i s c k).
Proof. apply seg_oldD; [apply seg_all|leaf_at|leaf_ok]. Qed.


Lemma seg_groupD lk c : seg_stmtD lk c -> seg_stmtD lk (Group c).
Proof.
  intros IH. startD (Group c). cbn [visit] in Hv. rewrite Edel in Hv. rewrite (atomize_group bs c g hc Edel).
  apply bindc_inr in Hv as ([cc ns1] & Hc & Hr). inversion Hr; subst code ns'. clear Hr.
  apply At_cons in HAt as [Ha1 HAt]. apply At_app in HAt as [HAc HA2]. apply At_cons in HA2 as [Ha2 _].
  apply okdeleg2_cons in Hnd as [_ Hnd]. apply okdeleg2_app in Hnd as [Hndc _].
  cbn [ngroups] in Hng. cbn [wfe] in Hw. cbn [zok] in Hz. cbn [acheck] in Hac. cbn [rok] in Hrk.
  replace (pc + 1) with (S pc) in Hc by lia.
  destruct (IH (S g) hc (S pc) ns cc ns1 Hc Hndc HAc (conj Hw (conj Hz (conj Hac Hrk))) Hns ltac:(lia)) as [Hmono IHc].
  split; [exact Hmono|]. intros v K Hsl Hok.
  destruct v as [ix sl aux]. cbn [sem sof v_ix v_sl] in *.
  set (v1 := {| v_ix := ix; v_sl := upd sl (g * 2) (V ix); v_aux := aux |}).
  apply Gen_step. unfold RunV at 1; cbn [v_ix v_sl v_aux]. rewrite (step_save cx P MS pc ix sl aux K _ Ha1) by lia.
  change (Run (S pc) ix (upd sl (g * 2) (V ix)) aux K) with (RunV (S pc) v1 K).
  apply Gen_weaken with (p := S pc); [lia|].
  assert (Hok1 : st_ok cs (sof v1)) by (apply st_ok_upd; auto; lia).
  specialize (IHc v1 K ltac:(unfold v1; cbn [v_sl]; rewrite upd_length; lia) Hok1).
  replace (sof v1) with (ix, upd (caps sl) (2 * g) (V ix)) in IHc
    by (unfold sof, v1; cbn [v_ix v_sl]; rewrite caps_upd_lt by lia; f_equal; f_equal; lia).
  eapply Gen_map; [| |exact IHc]; [cbn [length]; rewrite app_length; cbn [length]; lia|].
  rewrite map_map'. apply Forall2_same_map. intros a Hin v' K1 (Hi & Hcp & Hax & Hfr).
  destruct v' as [ix' sl' aux']. cbn [v_ix v_sl v_aux] in *.
  exists {| v_ix := ix'; v_sl := upd sl' (g * 2 + 1) (V ix'); v_aux := aux' |}. split.
  - replace (pc + length (ISave (g * 2) :: cc ++ [ISave (g * 2 + 1)])) with (S (S pc + length cc))
      by (cbn [length]; rewrite app_length; cbn [length]; lia).
    apply steps_step. apply step_save; auto. destruct Hfr as [Hl _]. unfold v1 in Hl; cbn [v_sl] in Hl.
    rewrite upd_length in Hl. lia.
  - unfold R; cbn [v_ix v_sl v_aux fst snd]. rewrite caps_upd_lt by lia. rewrite Hcp, <- Hi.
    split; [auto|]. split; [f_equal; lia|]. split; [auto|].
    destruct Hfr as [Hl Hf]. unfold v1 in *; cbn [v_sl] in *. split.
    + rewrite !upd_length in *. auto.
    + intros j Hj Ho. rewrite nth_error_upd. destruct (Nat.eqb_spec (g * 2 + 1) j); [lia|].
      rewrite Hf by auto. rewrite nth_error_upd. destruct (Nat.eqb_spec (g * 2) j); [lia|]. reflexivity.
Qed.

(* facts about the atomized tree that the stage-1 proofs used about the tree itself *)
Lemma at_ngroups e g hc : ngroups (atomize bs e g hc) = ngroups e.
Proof. apply (atomize_keeps bs e g hc). Qed.
Lemma at_wfe e g hc : wfe e -> wfe (atomize bs e g hc).
Proof. apply (atomize_keeps bs e g hc). Qed.
Lemma at_zok e g hc : zok e -> zok (atomize bs e g hc).
Proof. apply (atomize_keeps bs e g hc). Qed.
Lemma at_min e g hc : min_size (atomize bs e g hc) = min_size e.
Proof. apply (atomize_keeps bs e g hc). Qed.
Lemma at_const e g hc : const_size (atomize bs e g hc) = const_size e.
Proof. apply (atomize_keeps bs e g hc). Qed.

Lemma sem_cat_atom_list fu hc : forall l g st,
  sem_cat cx fu g (atom_list bs hc g l) st =
  (fix go (g : nat) (l : list expr) (st : sst) : list sst :=
     match l with [] => [st] | x :: r => flat_map (go (g + ngroups x) r) (sem cx (atomize bs x g hc) fu g st) end) g l st.
Proof.
  induction l as [|x r IH]; intros g st; [reflexivity|]. cbn [atom_list sem_cat]. rewrite at_ngroups.
  apply flat_map_ext. intros a. apply IH.
Qed.

(* the hard middle children of a concatenation *)
Fixpoint asem_cat (hc : bool) (g : nat) (l : list expr) (st : sst) : list sst :=
  match l with [] => [st] | x :: r => flat_map (asem_cat hc (g + ngroups x) r) (asem x g hc st) end.
Lemma asem_cat_eq hc : forall l g st, sem_cat cx fuel g (atom_list bs hc g l) st = asem_cat hc g l st.
Proof.
  induction l as [|x r IH]; intros g st; [reflexivity|]. cbn [atom_list sem_cat asem_cat]. rewrite at_ngroups.
  apply flat_map_ext. intros a. apply IH.
Qed.

Lemma wfe_atom_list hc : forall l g, wfe_list l -> wfe_list (atom_list bs hc g l).
Proof. induction l as [|x r IH]; intros g H; [exact I|]. destruct H. split; [now apply at_wfe|now apply IH]. Qed.

Lemma asem_ok e g hc st st' : wfe e -> st_ok cs st -> In st' (asem e g hc st) -> st_ok cs st'.
Proof. intros Hw. apply sem_ok. now apply at_wfe. Qed.

Lemma seg_listD lk : forall B, Forall (seg_stmtD lk) B -> forall g pc ns code ns',
  visit_list g pc ns B = inr (code, ns') -> okdeleg2 code -> At pc code ->
  okl lk g B -> NC <= ns -> 2 * (g + ngroups_list B) <= NC ->
  segP lk pc code ns ns' (asem_cat true g B).
Proof.
  induction 1 as [|x r Hx Hr IH]; intros g pc ns code ns' Hv Hnd HAt Hokl Hns Hng; cbn [visit_list] in Hv.
  - inversion Hv; subst. apply segP_nil.
  - apply bindc_inr in Hv as ([c1 ns1] & H1 & Hv). apply bindc_inr in Hv as ([c2 ns2] & H2 & Hv).
    inversion Hv; subst code ns'. clear Hv.
    apply okdeleg2_app in Hnd as [Hn1 Hn2]. apply At_app in HAt as [HA1 HA2].
    apply okl_cons in Hokl as [Ho1 Ho2]. rewrite ngl_cons in Hng.
    pose proof (Hx g true pc ns c1 ns1 H1 Hn1 HA1 Ho1 Hns ltac:(lia)) as S1.
    assert (M1 : ns <= ns1) by apply S1.
    pose proof (IH _ _ _ _ _ H2 Hn2 HA2 Ho2 ltac:(lia) ltac:(lia)) as S2.
    cbn [asem_cat]. apply segP_app with (ns1 := ns1); auto.
    intros st st' Hs Hin. eapply asem_ok; eauto. apply Ho1.
Qed.


Lemma in_firstn {A} (x : A) n l : In x (firstn n l) -> In x l.
Proof. revert l. induction n as [|n IH]; intros [|a l] H; cbn in *; auto; try tauto. destruct H as [H|H]; auto. Qed.

Lemma sem_cat_wrapA fu g A st : sem_cat cx fu g (wrapA A) st =
  match A with [] => [st] | _ => firstn 1 (sem_cat cx fu g A st) end.
Proof.
  destruct A as [|x r]; [reflexivity|]. unfold wrapA.
  assert (E : sem cx (AtomicGroup (Concat (x :: r))) fu g st = firstn 1 (sem cx (Concat (x :: r)) fu g st))
    by (destruct st; reflexivity).
  change (sem_cat cx fu g [AtomicGroup (Concat (x :: r))] st)
    with (flat_map (fun s : sst => [s]) (sem cx (AtomicGroup (Concat (x :: r))) fu g st)).
  rewrite flat_map_id, E, sem_concat_eq. reflexivity.
Qed.

Lemma ngl_wrapA A : ngroups_list (wrapA A) = ngroups_list A.
Proof. apply (lkeeps_wrapA A). Qed.
Lemma ngl_atom_list hc : forall l g, ngroups_list (atom_list bs hc g l) = ngroups_list l.
Proof. induction l as [|x r IH]; intros g; [reflexivity|]. cbn [atom_list]. rewrite !ngl_cons, at_ngroups, IH. reflexivity. Qed.

Lemma seg_concatD lk es : Forall (seg_stmtD lk) es -> seg_stmtD lk (Concat es).
Proof.
  intros IH. startD (Concat es). rewrite visit_concat in Hv. rewrite Edel in Hv. cbv zeta in Hv.
  destruct (atomize_concat bs es g hc Edel) as [Hes Hat]. rewrite Hat. clear Hat.
  pose proof (cat_bounds bs hc g es) as Hb. unfold cat_pe, cat_sb in Hes, Hb |- *. cbv zeta in Hes, Hb |- *.
  set (pe := prefix_count bs g es) in *.
  set (sb := length es - _) in *.
  set (A := firstn pe es) in *. set (B := firstn (sb - pe) (skipn pe es)) in *. set (C := skipn sb es) in *.
  assert (HlA : length A = pe) by (unfold A; apply firstn_length_le; lia).
  assert (HlB : length B = sb - pe) by (unfold B; apply firstn_length_le; rewrite skipn_length; lia).
  apply bindc_inr in Hv as ([cm ns1] & Hm & Hv). inversion Hv; subst code ns'. clear Hv.
  rewrite Hes in Hm. rewrite (mid_before pe sb (B ++ C) _ ns A 0 g) in Hm by lia.
  rewrite (mid_mid pe sb C B) in Hm by lia. cbn [Nat.add] in Hm.
  assert (Esuf : skipn sb (with_groups g es) = with_groups (g + ngroups_list (A ++ B)) C).
  { rewrite Hes at 1. rewrite app_assoc. replace sb with (length (A ++ B)) at 1 by (rewrite app_length; lia). apply skipn_with_groups. }
  rewrite Esuf in *.
  assert (Edl : delegates (map fst (with_groups (g + ngroups_list (A ++ B)) C))
                  match with_groups (g + ngroups_list (A ++ B)) C with (_, g') :: _ => g' | [] => g end
                = delegates C (g + ngroups_list (A ++ B))).
  { rewrite map_fst_with_groups. destruct C; reflexivity. }
  rewrite Edl in *. clear Edl Esuf.
  rewrite Hes in IH. apply Forall_app in IH as [_ IH]. apply Forall_app in IH as [IHB _].
  rewrite ngroups_concat in Hng. rewrite Hes in Hng. rewrite !ngl_app in Hng.
  assert (Hokl : okl lk g es) by (repeat split; auto).
  rewrite Hes in Hokl. apply okl_app in Hokl as [HoA Hokl]. apply okl_app in Hokl as [HoB HoC].
  apply okdeleg2_app in Hnd as [HnA Hnd]. apply okdeleg2_app in Hnd as [HnB HnC].
  apply At_app in HAt as [HAA HAt]. apply At_app in HAt as [HAB HAC].
  pose proof (seg_delegatesD lk A g pc ns HnA HAA ltac:(lia) Hns) as SA.
  pose proof (seg_listD lk B IHB _ _ _ _ _ Hm HnB HAB HoB Hns ltac:(lia)) as SB.
  assert (Mb : ns <= ns1) by apply SB.
  rewrite ngl_app, Nat.add_assoc in *.
  pose proof (seg_delegatesD lk C _ _ ns1 HnC HAC ltac:(lia) ltac:(lia)) as SC.
  assert (PB : forall st st', st_ok cs st -> In st' (asem_cat true (g + ngroups_list A) B st) -> st_ok cs st').
  { intros st st' Hs Hin. rewrite <- asem_cat_eq in Hin.
    apply (sem_cat_ok (atom_list bs true (g + ngroups_list A) B) fuel (g + ngroups_list A) st st'); auto.
    apply wfe_atom_list. destruct HoB as [HwB _]. now rewrite wfe_concat in HwB. }
  assert (PA : forall st st', st_ok cs st -> In st' (blockf g A st) -> st_ok cs st').
  { intros st st' Hs Hin. unfold blockf in Hin. destruct HoA as [HwA _]. rewrite wfe_concat in HwA.
    destruct A as [|a0 A0]; [destruct Hin as [<-|[]]; auto|]. apply in_firstn in Hin. eapply sem_cat_ok; eauto. }
  eapply segP_ext; [|apply (segP_app lk _ _ _ _ _ _ _ _ SA (segP_app lk _ _ _ _ _ _ _ _ SB SC PB) PA)].
  intros st Hst. cbv beta. rewrite sem_concat_eq, sem_cat_app, sem_cat_wrapA, ngl_wrapA.
  assert (EA : blockf g A st = match A with [] => [st] | _ :: _ => firstn 1 (sem_cat cx fuel g A st) end) by reflexivity.
  rewrite <- EA. apply flat_map_ext. intros s.
  rewrite sem_cat_app, asem_cat_eq, ngl_atom_list. apply flat_map_ext. intros s2. rewrite sem_cat_wrapA. reflexivity.
Qed.


(* the alternation / sequence layouts once more, for programs with any Delegate instruction *)
Section GenLayoutD.
Variables lk0 lk : bool.
Variable cf : expr -> nat -> nat -> nat -> cerr + cres.
Variable sf : expr -> nat -> sst -> list sst.

Definition cf_okD (x : expr) : Prop := forall g pc ns code ns',
  cf x g pc ns = inr (code, ns') -> okdeleg2 code -> At pc code -> oke lk0 g x -> NC <= ns ->
  2 * (g + ngroups x) <= NC -> segP lk pc code ns ns' (sf x g).

Lemma gseg_altsD : forall r x, Forall cf_okD (x :: r) -> forall g pc ns cds ns',
  (galt_codes cf) g pc ns (x :: r) = inr (cds, ns') ->
  okdeleg2 (alt_layout pc (pc + alt_size cds) cds) -> At pc (alt_layout pc (pc + alt_size cds) cds) ->
  okl lk0 g (x :: r) -> NC <= ns -> 2 * (g + ngroups_list (x :: r)) <= NC ->
  ns <= ns' /\
  forall v K, ns' <= length (v_sl v) -> st_ok cs (sof v) ->
  Gen pc (pc + alt_size cds) K (RunV pc v K) (map (R lk v ns ns') ((gsem_alts sf) g (x :: r) (sof v))).
Proof.
  induction r as [|y r IH]; intros x HF g pc ns cds ns' Hc Hnd HAt Hok Hns Hng.
  - cbn [galt_codes] in Hc. destruct (cf x g pc ns) as [er|[c ns1]] eqn:Hx; [discriminate|].
    inversion Hc; subst cds ns'. cbn [alt_layout alt_size] in *.
    inversion HF; subst. apply okl_cons in Hok as [Hox _]. rewrite ngl_cons, ngl_nil in Hng.
    destruct (H1 g pc ns c ns1 Hx Hnd HAt Hox Hns ltac:(lia)) as [M G]. split; auto.
    intros v K Hsl Hokv. cbn [gsem_alts]. rewrite app_nil_r. apply G; auto.
  - rewrite (galt_codes_cons2 cf) in Hc. destruct (cf x g (pc + 1) ns) as [er|[c ns1]] eqn:Hx; [discriminate|].
    destruct ((galt_codes cf) (g + ngroups x) (pc + 1 + length c + 1) ns1 (y :: r)) as [er|[cds' ns2]] eqn:Hr; [discriminate|].
    inversion Hc; subst cds ns'. clear Hc.
    destruct ((galt_codes_ne cf) _ _ _ _ _ _ _ Hr) as (c' & r' & ->).
    set (endpc := pc + alt_size (c :: c' :: r')) in *.
    assert (Eend : endpc = (pc + 1 + length c + 1) + alt_size (c' :: r')) by (unfold endpc; rewrite alt_size_cons2; lia).
    rewrite alt_layout_cons2 in Hnd, HAt.
    apply okdeleg2_cons in Hnd as [_ Hnd]. apply okdeleg2_app in Hnd as [Hnc Hnd]. apply okdeleg2_cons in Hnd as [_ Hnr].
    apply At_cons in HAt as [Ha1 HAt]. apply At_app in HAt as [HAc HAt]. apply At_cons in HAt as [Ha2 HAr].
    replace (S pc) with (pc + 1) in * by lia.
    replace (S (pc + 1 + length c)) with (pc + 1 + length c + 1) in HAr by lia.
    inversion HF as [|? ? Hsx HFr]; subst. apply okl_cons in Hok as [Hox Hor]. rewrite ngl_cons in Hng.
    destruct (Hsx g (pc + 1) ns c ns1 Hx Hnc HAc Hox Hns ltac:(lia)) as [M1 G1].
    rewrite Eend in Hnr, HAr.
    destruct (IH y HFr _ _ _ _ _ Hr Hnr HAr Hor ltac:(lia) ltac:(lia)) as [M2 G2].
    split; [lia|]. intros v K Hsl Hokv. cbn [gsem_alts]. rewrite map_app.
    apply Gen_step. unfold RunV at 1. rewrite (step_split cx P MS pc _ _ _ K _ _ Ha1).
    fold (alt_of (pc + 1 + length c + 1) v).
    change (Run (pc + 1) (v_ix v) (v_sl v) (v_aux v) (alt_of (pc + 1 + length c + 1) v :: K))
      with (RunV (pc + 1) v ([alt_of (pc + 1 + length c + 1) v] ++ K)).
    apply Gen_app with (F := [alt_of (pc + 1 + length c + 1) v]).
    + constructor; [|constructor]. cbn [alt_of a_pc]. lia.
    + apply Gen_weaken with (p := pc + 1); [lia|].
      eapply Gen_map with (q := pc + 1 + length c); [lia| |apply (Gen_R_widen lk _ _ _ _ v ns ns1 ns ns2); [lia|lia|apply G1; auto; lia]].
      apply Forall2_same_map. intros a _ v' K1 HR. exists v'. split; auto.
      apply steps_step. unfold RunV. apply step_jmp. exact Ha2.
    + apply Gen_step. cbn [app Machine.mstep alt_of a_pc a_ix a_slots a_aux].
      change (Run (pc + 1 + length c + 1) (v_ix v) (v_sl v) (v_aux v) K) with (RunV (pc + 1 + length c + 1) v K).
      apply Gen_weaken with (p := pc + 1 + length c + 1); [lia|]. rewrite Eend.
      apply (Gen_R_widen lk _ _ _ _ v ns1 ns2 ns ns2); [lia|lia|]. apply G2; auto.
Qed.

Hypothesis sf_ok : forall x g st st', oke lk0 g x -> st_ok cs st -> In st' (sf x g st) -> st_ok cs st'.

Lemma gseg_seqD : forall B, Forall cf_okD B -> forall g pc ns code ns',
  (gseq_codes cf) g pc ns B = inr (code, ns') -> okdeleg2 code -> At pc code ->
  okl lk0 g B -> NC <= ns -> 2 * (g + ngroups_list B) <= NC ->
  segP lk pc code ns ns' ((gsem_seq sf) g B).
Proof.
  induction 1 as [|x r Hx Hr IH]; intros g pc ns code ns' Hv Hnd HAt Hokl Hns Hng; cbn [gseq_codes] in Hv.
  - inversion Hv; subst. apply segP_nil.
  - apply bindc_inr in Hv as ([c1 ns1] & H1 & Hv). apply bindc_inr in Hv as ([c2 ns2] & H2 & Hv).
    inversion Hv; subst code ns'. clear Hv.
    apply okdeleg2_app in Hnd as [Hn1 Hn2]. apply At_app in HAt as [HA1 HA2].
    apply okl_cons in Hokl as [Ho1 Ho2]. rewrite ngl_cons in Hng.
    pose proof (Hx g pc ns c1 ns1 H1 Hn1 HA1 Ho1 Hns ltac:(lia)) as S1.
    assert (M1 : ns <= ns1) by apply S1.
    pose proof (IH _ _ _ _ _ H2 Hn2 HA2 Ho2 ltac:(lia) ltac:(lia)) as S2.
    cbn [gsem_seq]. apply segP_app with (ns1 := ns1); auto.
    intros st st' Hs Hin. exact (sf_ok x g st st' Ho1 Hs Hin).
Qed.

End GenLayoutD.


Lemma alt_codes_galt hc : forall l g pc ns,
  alt_codes hc g pc ns l = galt_codes (fun x g pc ns => visit bs x g hc pc ns) g pc ns l.
Proof.
  induction l as [|x r IH]; intros g pc ns; [reflexivity|]. destruct r as [|y r]; [reflexivity|].
  rewrite alt_codes_cons2, galt_codes_cons2. destruct (visit bs x g hc (pc + 1) ns) as [|[c n1]]; auto. now rewrite IH.
Qed.

Lemma sem_alts_atom_list hc : forall l g st,
  sem_alts cx fuel g (atom_list bs hc g l) st = gsem_alts (fun x g => asem x g hc) g l st.
Proof.
  induction l as [|x r IH]; intros g st; [reflexivity|]. cbn [atom_list sem_alts gsem_alts].
  now rewrite at_ngroups, IH.
Qed.

Lemma seg_altD lk es : Forall (seg_stmtD lk) es -> seg_stmtD lk (Alt es).
Proof.
  intros IH. startD (Alt es). rewrite visit_alt in Hv. rewrite Edel in Hv. rewrite (atomize_alt bs es g hc Edel).
  destruct (alt_codes hc g pc ns es) as [er|[cds ns1]] eqn:Hc; [discriminate|]. inversion Hv; subst code ns'. clear Hv.
  rewrite alt_codes_galt in Hc.
  assert (Hoke : oke lk g (Alt es)) by (repeat split; auto).
  rewrite acheck_alt in Hac. destruct es as [|x r]; [discriminate|].
  pose proof (okl_of_alt lk g x r Hoke) as Hokl. rewrite ngroups_alt in Hng.
  assert (Hcf : Forall (cf_okD lk lk (fun x g pc ns => visit bs x g hc pc ns) (fun x g => asem x g hc)) (x :: r)).
  { eapply Forall_impl; [|exact IH]. intros a Ha g0 pc0 ns0 code0 ns0' H1 H2 H3 H4 H5 H6. exact (Ha g0 hc pc0 ns0 code0 ns0' H1 H2 H3 H4 H5 H6). }
  destruct (gseg_altsD lk lk _ _ r x Hcf g pc ns cds ns1 Hc Hnd HAt Hokl Hns Hng) as [M G]. split; auto.
  intros v K Hsl Hokv. rewrite alt_layout_length, sem_alt_eq, sem_alts_atom_list. apply G; auto.
Qed.


Lemma seg_repeatD lk c lo hi gr : seg_stmtD lk c -> seg_stmtD lk (Repeat c lo hi gr).
Proof.
  intros IH. startD (Repeat c lo hi gr). cbn [visit] in Hv. rewrite Edel in Hv. rewrite (atomize_repeat bs c lo hi gr g hc Edel).
  cbn [wfe] in Hw. cbn [zok] in Hz. cbn [acheck] in Hac. cbn [rok] in Hrk. cbn [ngroups] in Hng. destruct (N.ltb_spec hi lo) as [|Hlh]; [discriminate|].
  assert (Hpres : forall hcx st st', st_ok cs st -> In st' (asem c g hcx st) -> st_ok cs st' /\ fst st <= fst st')
    by (intros hcx; apply body_pres; now apply at_wfe).
  assert (Hoc : oke lk g c) by (repeat split; auto).
  destruct (N.eqb lo 0 && N.eqb hi 1) eqn:EA.
  { (* e? *)
    pose (hcx := hc).
    apply andb_true_iff in EA as [E1 E2]. apply N.eqb_eq in E1, E2. subst lo hi.
    apply bindc_inr in Hv as ([cc ns1] & Hc & Hr). inversion Hr; subst code ns'. clear Hr.
    apply At_cons in HAt as [Ha1 HAc]. apply okdeleg2_cons in Hnd as [_ Hndc].
    replace (pc + 1) with (S pc) in * by lia.
    destruct (IH g hc (S pc) ns cc ns1 Hc Hndc HAc Hoc Hns Hng) as [Hmono IHc].
    split; auto. intros v K Hsl Hok. rewrite sem_repeat_eq. rewrite one_ne_max. change (N.to_nat 1 - N.to_nat 0) with 1.
    change (N.to_nat 0) with 0. cbn [rep_must].
    rewrite flat_map_single. cbn [rep_opt_b]. rewrite flat_map_id. cbn [length].
    assert (Hbody : forall v K, ns1 <= length (v_sl v) -> st_ok cs (sof v) ->
              Gen pc (S pc + length cc) K (RunV (S pc) v K) (map (R lk v ns ns1) (asem c g hcx (sof v)))).
    { intros v' K' H1 H2. apply Gen_weaken with (p := S pc); [lia|]. now apply IHc. }
    replace (pc + S (length cc)) with (S pc + length cc) by lia.
    apply (choice_gen lk pc (S pc + length cc) (S pc) (S pc + length cc) ns ns ns1 ltac:(lia) ltac:(lia) ltac:(lia) ltac:(lia) ltac:(lia) gr _ v v K).
    - apply steps_step. destruct gr; apply step_splitV; exact Ha1.
    - apply ext_refl.
    - intros K'. now apply Hbody. }
  pose (hcx := hc || hard bs g (Repeat c lo hi gr)).
  destruct (N.eqb hi usize_max && N.eqb (min_size c) 0) eqn:EB.
  { (* RepeatEpsilon *)
    apply andb_true_iff in EB as [E1 E2]. apply N.eqb_eq in E1, E2. subst hi.
    apply bindc_inr in Hv as ([cc ns1] & Hc & Hr). inversion Hr; subst code ns'. clear Hr.
    apply At_cons in HAt as [Ha1 HAt]. apply At_cons in HAt as [Ha2 HAt]. apply At_app in HAt as [HAc HAj]. apply At_cons in HAj as [Ha3 _].
    apply okdeleg2_cons in Hnd as [_ Hnd]. apply okdeleg2_cons in Hnd as [_ Hnd]. apply okdeleg2_app in Hnd as [Hndc _].
    replace (pc + 2) with (S (S pc)) in * by lia.
    destruct (IH g _ (S (S pc)) (ns + 2) cc ns1 Hc Hndc HAc Hoc ltac:(lia) Hng) as [Hmono IHc].
    split; [lia|]. intros v K Hsl Hok. rewrite sem_repeat_eq. rewrite N.eqb_refl.
    set (q := pc + length (ISave0 ns :: (if gr then IRepeatEpsilonGr lo (S (S pc) + length cc + 1) ns (ns + 1)
                                          else IRepeatEpsilonNg lo (S (S pc) + length cc + 1) ns (ns + 1)) :: cc ++ [IJmp (pc + 1)])).
    assert (Eq : q = S (S pc) + length cc + 1) by (unfold q; cbn [length]; rewrite app_length; cbn [length]; lia).
    rewrite <- Eq in Ha2.
    assert (Hbody : forall v K, ns1 <= length (v_sl v) -> st_ok cs (sof v) ->
              Gen pc (S (S pc) + length cc) K (RunV (S (S pc)) v K) (map (R lk v (ns + 2) ns1) (asem c g hcx (sof v)))).
    { intros v' K' H1 H2. apply Gen_weaken with (p := S (S pc)); [lia|]. now apply IHc. }
    apply Gen_step. unfold RunV at 1. rewrite (step_save0 cx P MS pc _ _ _ K ns Ha1) by lia.
    set (v1 := setsl v (upd (v_sl v) ns (V 0))).
    change (Run (S pc) (v_ix v) (upd (v_sl v) ns (V 0)) (v_aux v) K) with (RunV (S pc) v1 K).
    assert (Hs1 : sof v1 = sof v) by (apply sof_upd; lia).
    assert (He1 : ext lk ns ns1 v v1).
    { apply (ext_upd lk pc q (S (S pc)) (S (S pc) + length cc) ns (ns + 2) ns1 ltac:(lia) ltac:(lia) ltac:(lia) ltac:(lia) ltac:(lia)); [apply ext_refl|lia]. }
    destruct (nth_error (v_sl v1) (ns + 1)) as [ck|] eqn:Eck.
    2:{ apply nth_error_None in Eck. unfold v1 in Eck; cbn [setsl v_sl] in Eck. rewrite upd_length in Eck. lia. }
    rewrite <- Hs1.
    apply (eps_must lk pc q (S (S pc)) (S (S pc) + length cc) ns (ns + 2) ns1 (asem c g hcx)
             ltac:(lia) ltac:(lia) ltac:(lia) ltac:(lia) ltac:(lia) Hbody (Hpres hcx) (S pc) gr lo) with (c := 0) (ck := ck); auto.
    - intros v' K'. apply steps_step. apply step_jmpV. replace (pc + 1) with (S pc) in Ha3 by lia. exact Ha3.
    - unfold v1; cbn [setsl v_sl]. rewrite upd_length. lia.
    - now rewrite Hs1.
    - unfold v1; cbn [setsl v_sl]. apply nth_upd_same. lia. }
  assert (Hadv : hi = usize_max -> forall st st', st_ok cs st -> In st' (asem c g hcx st) -> fst st < fst st').
  { intros Hm. apply body_adv; [now apply at_wfe|]. rewrite at_min. intros Hz0. rewrite Hm, Hz0 in EB. discriminate. }
  destruct (N.eqb lo 0 && N.eqb hi usize_max) eqn:EC.
  { (* star *)
    apply andb_true_iff in EC as [E1 E2]. apply N.eqb_eq in E1, E2. subst lo. subst hi.
    apply bindc_inr in Hv as ([cc ns1] & Hc & Hr). inversion Hr; subst code ns'. clear Hr.
    apply At_cons in HAt as [Ha1 HAt]. apply At_app in HAt as [HAc HAj]. apply At_cons in HAj as [Ha3 _].
    apply okdeleg2_cons in Hnd as [_ Hnd]. apply okdeleg2_app in Hnd as [Hndc _].
    replace (pc + 1) with (S pc) in * by lia.
    destruct (IH g _ (S pc) ns cc ns1 Hc Hndc HAc Hoc Hns Hng) as [Hmono IHc].
    split; auto. intros v K Hsl Hok. rewrite sem_repeat_eq. rewrite N.eqb_refl.
    change (N.to_nat 0) with 0. cbn [rep_must].
    rewrite flat_map_single.
    set (q := pc + length ((if gr then ISplit (S pc) (S pc + length cc + 1) else ISplit (S pc + length cc + 1) (S pc)) :: cc ++ [IJmp pc])).
    assert (Eq : q = S pc + length cc + 1) by (unfold q; cbn [length]; rewrite app_length; cbn [length]; lia).
    rewrite <- Eq in Ha1.
    assert (Hbody : forall v K, ns1 <= length (v_sl v) -> st_ok cs (sof v) ->
              Gen pc (S pc + length cc) K (RunV (S pc) v K) (map (R lk v ns ns1) (asem c g hcx (sof v)))).
    { intros v' K' H1 H2. apply Gen_weaken with (p := S pc); [lia|]. now apply IHc. }
    pose proof (st_ok_ix _ Hok).
    apply (star_loop lk pc q (S pc) (S pc + length cc) ns ns ns1 (asem c g hcx)
             ltac:(lia) ltac:(lia) ltac:(lia) ltac:(lia) ltac:(lia) Hbody (Hpres hcx) pc gr); auto.
    - intros v' K'. apply steps_step. apply step_jmpV. exact Ha3.
    - apply ext_refl.
    - lia. }
  destruct (N.eqb lo 1 && N.eqb hi usize_max) eqn:ED.
  { (* plus *)
    apply andb_true_iff in ED as [E1 E2]. apply N.eqb_eq in E1, E2. subst lo. subst hi.
    apply bindc_inr in Hv as ([cc ns1] & Hc & Hr). inversion Hr; subst code ns'. clear Hr.
    apply At_app in HAt as [HAc HAj]. apply At_cons in HAj as [Ha3 _].
    apply okdeleg2_app in Hnd as [Hndc _].
    destruct (IH g _ pc ns cc ns1 Hc Hndc HAc Hoc Hns Hng) as [Hmono IHc].
    split; auto. intros v K Hsl Hok. rewrite sem_repeat_eq. rewrite N.eqb_refl.
    change (N.to_nat 1) with 1. cbn [rep_must]. rewrite flat_map_id.
    set (q := pc + length (cc ++ [if gr then ISplit pc (pc + length cc + 1) else ISplit (pc + length cc + 1) pc])).
    assert (Eq : q = pc + length cc + 1) by (unfold q; rewrite app_length; cbn [length]; lia).
    rewrite <- Eq in Ha3.
    apply (body_then lk pc q pc (pc + length cc) ns ns ns1 (asem c g hcx) ltac:(lia) ltac:(lia) ltac:(lia) ltac:(lia) ltac:(lia) IHc); auto.
    intros a v2 K2 Hin HR.
    destruct (ext_R lk pc q pc (pc + length cc) ns ns ns1 ltac:(lia) ltac:(lia) ltac:(lia) ltac:(lia) ltac:(lia) v v a v2 (ext_refl lk ns ns1 v) HR) as (He2 & Es & Hl2).
    destruct (Hpres hcx _ _ Hok Hin) as [Hoka _]. rewrite <- Es in Hoka.
    pose proof (st_ok_ix _ Hoka). rewrite <- Es.
    apply (star_loop lk pc q pc (pc + length cc) ns ns ns1 (asem c g hcx)
             ltac:(lia) ltac:(lia) ltac:(lia) ltac:(lia) ltac:(lia) IHc (Hpres hcx) (pc + length cc) gr); auto; try lia.
    intros v' K'. apply steps_refl. }
  (* counted *)
  apply bindc_inr in Hv as ([cc ns1] & Hc & Hr). inversion Hr; subst code ns'. clear Hr.
  apply At_cons in HAt as [Ha1 HAt]. apply At_cons in HAt as [Ha2 HAt]. apply At_app in HAt as [HAc HAj]. apply At_cons in HAj as [Ha3 _].
  apply okdeleg2_cons in Hnd as [_ Hnd]. apply okdeleg2_cons in Hnd as [_ Hnd]. apply okdeleg2_app in Hnd as [Hndc _].
  replace (pc + 2) with (S (S pc)) in * by lia.
  destruct (IH g _ (S (S pc)) (ns + 1) cc ns1 Hc Hndc HAc Hoc ltac:(lia) Hng) as [Hmono IHc].
  split; [lia|]. intros v K Hsl Hok. rewrite sem_repeat_eq.
  set (q := pc + length (ISave0 ns :: (if gr then IRepeatGr lo hi (S (S pc) + length cc + 1) ns
                                        else IRepeatNg lo hi (S (S pc) + length cc + 1) ns) :: cc ++ [IJmp (pc + 1)])).
  assert (Eq : q = S (S pc) + length cc + 1) by (unfold q; cbn [length]; rewrite app_length; cbn [length]; lia).
  rewrite <- Eq in Ha2.
  assert (Hbody : forall v K, ns1 <= length (v_sl v) -> st_ok cs (sof v) ->
            Gen pc (S (S pc) + length cc) K (RunV (S (S pc)) v K) (map (R lk v (ns + 1) ns1) (asem c g hcx (sof v)))).
  { intros v' K' H1 H2. apply Gen_weaken with (p := S (S pc)); [lia|]. now apply IHc. }
  apply Gen_step. unfold RunV at 1. rewrite (step_save0 cx P MS pc _ _ _ K ns Ha1) by lia.
  set (v1 := setsl v (upd (v_sl v) ns (V 0))).
  change (Run (S pc) (v_ix v) (upd (v_sl v) ns (V 0)) (v_aux v) K) with (RunV (S pc) v1 K).
  assert (Hs1 : sof v1 = sof v) by (apply sof_upd; lia).
  assert (He1 : ext lk ns ns1 v v1).
  { apply (ext_upd lk pc q (S (S pc)) (S (S pc) + length cc) ns (ns + 1) ns1 ltac:(lia) ltac:(lia) ltac:(lia) ltac:(lia) ltac:(lia)); [apply ext_refl|lia]. }
  rewrite <- Hs1.
  apply (cnt_must lk pc q (S (S pc)) (S (S pc) + length cc) ns (ns + 1) ns1 (asem c g hcx)
           ltac:(lia) ltac:(lia) ltac:(lia) ltac:(lia) ltac:(lia) Hbody (Hpres hcx) (S pc) gr lo hi) with (c := 0); auto.
  - intros v' K'. apply steps_step. apply step_jmpV. replace (pc + 1) with (S pc) in Ha3 by lia. exact Ha3.
  - unfold v1; cbn [setsl v_sl]. rewrite upd_length. lia.
  - now rewrite Hs1.
  - unfold v1; cbn [setsl v_sl]. apply nth_upd_same. lia.
  - intros; lia.
Qed.


(* ---------- look-arounds, stage 2 ---------- *)
Definition body_okD (x : expr) (gx : nat) : Prop :=
  hard bs gx x = false \/ (seg_stmtD false x /\ oke false gx x).

Lemma seg_bodyD x gx pc ns code ns1 : body_okD x gx -> NC <= ns -> 2 * (gx + ngroups x) <= NC ->
  visit bs x gx false pc ns = inr (code, ns1) -> okdeleg2 code -> At pc code ->
  ns <= ns1 /\
  forall v K, ns1 <= length (v_sl v) -> st_ok cs (sof v) ->
  Gen pc (pc + length code) K (RunV pc v K) (map (R false v ns ns1) (asem x gx false (sof v))).
Proof.
  intros [Hh|[IH Hok]] Hns Hng Hv Hnd HAt.
  - rewrite (visit_easy x gx pc ns Hh) in Hv. inversion Hv; subst code ns1. split; auto.
    intros v K Hsl Hokv. rewrite asem_easy by (now rewrite Hh). apply seg_delegD; auto using st_ok_ix; lia.
  - exact (IH gx false pc ns code ns1 Hv Hnd HAt Hok Hns Hng).
Qed.

Lemma seg_la_innerD la x gx pc ns code ns1 : body_okD x gx ->
  la_inner la x gx pc ns = inr (code, ns1) -> okdeleg2 code -> At pc code ->
  NC <= ns -> 2 * (gx + ngroups x) <= NC ->
  ns <= ns1 /\
  forall v K, ns1 <= length (v_sl v) -> st_ok cs (sof v) ->
  Gen pc (pc + length code) K (RunV pc v K) (map (R false v ns ns1) (la_f la (atomize bs x gx false) gx (sof v))).
Proof.
  intros IH Hi Hnd HAt Hns Hng.
  assert (Hahead : visit bs x gx false pc ns = inr (code, ns1) -> ns <= ns1 /\
            forall v K, ns1 <= length (v_sl v) -> st_ok cs (sof v) ->
            Gen pc (pc + length code) K (RunV pc v K) (map (R false v ns ns1) (asem x gx false (sof v)))).
  { intros Hv. exact (seg_bodyD x gx pc ns code ns1 IH Hns Hng Hv Hnd HAt). }
  assert (Hbehind : (if const_size x then
             bindc (visit bs x gx false (pc + 1) ns) (fun '(code, ns1) => inr (IGoBack (min_size x) :: code, ns1))
           else inl CLookBehindNotConst) = inr (code, ns1) -> ns <= ns1 /\
            forall v K, ns1 <= length (v_sl v) -> st_ok cs (sof v) ->
            Gen pc (pc + length code) K (RunV pc v K)
              (map (R false v ns ns1) (match goback cx (fst (sof v)) (min_size x) (fst (sof v)) with
                                 | GBOk j => asem x gx false (j, snd (sof v)) | _ => [] end))).
  { destruct (const_size x); [|discriminate]. intros Hv.
    apply bindc_inr in Hv as ([cc n1] & Hc & Hr). inversion Hr; subst code ns1. clear Hr.
    apply At_cons in HAt as [Ha HAc]. apply okdeleg2_cons in Hnd as [_ Hndc].
    replace (pc + 1) with (S pc) in Hc by lia.
    destruct (seg_bodyD x gx (S pc) ns cc n1 IH Hns Hng Hc Hndc HAc) as [M G]. split; auto.
    intros v K Hsl Hokv. cbn [sof fst snd]. apply Gen_step. unfold RunV at 1.
    rewrite (step_goback cx P MS pc _ _ _ K _ Ha).
    destruct Hokv as [Bix Hcaps]. cbn [sof fst snd] in Bix, Hcaps.
    pose proof (goback_sound cs W cx Htext (v_ix v) (min_size x) (v_ix v) Bix (le_n _)) as Gs.
    destruct (goback cx (v_ix v) (min_size x) (v_ix v)) as [j| |].
    - destruct Gs as (n0 & _ & D0). destruct (dist_bnd cs W _ _ _ D0) as (Bj & _ & _).
      change (Run (S pc) j (v_sl v) (v_aux v) K) with (RunV (S pc) (setix v j) K).
      apply Gen_weaken with (p := S pc); [lia|].
      replace (pc + length (IGoBack (min_size x) :: cc)) with (S pc + length cc) by (cbn [length]; lia).
      apply (G (setix v j) K); auto. split; auto.
    - apply Gen_nil. apply steps_refl.
    - destruct Gs. }
  destruct la; cbn [la_inner la_f] in *; rewrite ?at_min; auto.
Qed.

Lemma la_f_shortD la x gx : hard bs gx x = false ->
  forall st, length (la_f la (atomize bs x gx false) gx st) <= 1.
Proof.
  intros Hh st.
  assert (Hs : forall s, length (asem x gx false s) <= 1).
  { intros s. rewrite asem_easy by (now rewrite Hh). destruct (sem cx x fuel gx s) as [|a [|b l]]; cbn; lia. }
  destruct la; cbn [la_f]; auto; destruct (goback cx (fst st) _ (fst st)); cbn [length]; auto; lia.
Qed.

Lemma seg_la_posD lk la c g pc ns code ns' : body_okD c g ->
  la_pos la c g pc ns = inr (code, ns') -> okdeleg2 code -> At pc code ->
  NC <= ns -> 2 * (g + ngroups c) <= NC ->
  segP lk pc code ns ns' (fun st => map (fun s' => (fst st, snd s')) (firstn 1 (la_f la (atomize bs c g false) g st))).
Proof.
  intros IH Hv Hnd HAt Hns Hng. unfold la_pos in Hv. cbv zeta in Hv.
  apply bindc_inr in Hv as ([cc n1] & Hi & Hr). inversion Hr; subst code ns'. clear Hr.
  assert (Hsub : okdeleg2 cc /\ At (pc + 1 + (if hard bs g c then 1 else 0)) cc).
  { pose proof HAt as HAt'. apply At_cons in HAt' as [_ HAt']. apply okdeleg2_cons in Hnd as [_ Hnd].
    destruct (hard bs g c); cbn [app] in *.
    - apply At_cons in HAt' as [_ HAt']. apply At_app in HAt' as [HA _]. apply okdeleg2_cons in Hnd as [_ Hnd].
      apply okdeleg2_app in Hnd as [Hn _]. split; auto. replace (pc + 1 + 1) with (S (S pc)) by lia. exact HA.
    - apply At_app in HAt' as [HA _]. apply okdeleg2_app in Hnd as [Hn _]. split; auto.
      replace (pc + 1 + 0) with (S pc) by lia. exact HA. }
  destruct Hsub as [Hndc HAc].
  destruct (seg_la_innerD la c g _ (ns + 1) cc n1 IH Hi Hndc HAc ltac:(lia) Hng) as [M G].
  apply pos_wrap; auto; try lia. intros Hh st Hst. now apply la_f_shortD.
Qed.

Lemma seg_la_negD lk la c g pc ns code ns' : body_okD c g ->
  la_neg la c g pc ns = inr (code, ns') -> okdeleg2 code -> At pc code ->
  NC <= ns -> 2 * (g + ngroups c) <= NC ->
  segP lk pc code ns ns' (fun st => match la_f la (atomize bs c g false) g st with [] => [st] | _ => [] end).
Proof.
  intros IH Hv Hnd HAt Hns Hng. unfold la_neg in Hv.
  apply bindc_inr in Hv as ([cc n1] & Hi & Hr). inversion Hr; subst code ns'. clear Hr.
  pose proof HAt as HAt'. apply At_cons in HAt' as [_ HAt']. apply At_app in HAt' as [HAc _].
  apply okdeleg2_cons in Hnd as [_ Hnd]. apply okdeleg2_app in Hnd as [Hndc _].
  replace (S pc) with (pc + 1) in HAc by lia.
  destruct (seg_la_innerD la c g _ ns cc n1 IH Hi Hndc HAc Hns Hng) as [M G].
  apply neg_wrap; auto.
Qed.

(* the semantics of a look-around over the atomized body, in the la_f form *)
Lemma sem_la_eqD c la g st : wfe c -> (is_behind la = true -> zok c) -> st_ok cs st ->
  (match la with LookBehind | LookBehindNeg => const_size c = true | _ => True end) ->
  sem cx (LookAround (atomize bs c g false) la) fuel g st =
  match la with
  | LookAhead | LookBehind => map (fun s' => (fst st, snd s')) (firstn 1 (la_f la (atomize bs c g false) g st))
  | _ => match la_f la (atomize bs c g false) g st with [] => [st] | _ => [] end
  end.
Proof.
  intros Hw Hz Hok Hc. apply sem_la_eq; auto.
  - now apply at_wfe.
  - intros Hb. apply at_zok. auto.
  - destruct la; auto; now rewrite at_const.
Qed.

Lemma la_pos_okD lk la x : (la = LookAhead \/ la = LookBehind) -> seg_stmtD false x ->
  cf_okD false lk (la_pos la) (fun x g => sem cx (LookAround (atomize bs x g false) la) fuel g) x.
Proof.
  intros Hla IH g pc ns code ns' Hv Hnd HAt Hok Hns Hng.
  eapply segP_ext; [|eapply seg_la_posD; eauto; right; split; auto]. intros st Hst. cbv beta.
  destruct Hok as (Hw & Hz & _). rewrite sem_la_eqD; auto.
  - destruct Hla as [->| ->]; reflexivity.
  - destruct Hla as [->| ->]; auto. eapply (la_const LookBehind); eauto.
Qed.
Lemma la_neg_okD lk la x : (la = LookAheadNeg \/ la = LookBehindNeg) -> seg_stmtD false x ->
  cf_okD false lk (la_neg la) (fun x g => sem cx (LookAround (atomize bs x g false) la) fuel g) x.
Proof.
  intros Hla IH g pc ns code ns' Hv Hnd HAt Hok Hns Hng.
  eapply segP_ext; [|eapply seg_la_negD; eauto; right; split; auto]. intros st Hst. cbv beta.
  destruct Hok as (Hw & Hz & _). rewrite sem_la_eqD; auto.
  - destruct Hla as [->| ->]; reflexivity.
  - destruct Hla as [->| ->]; auto. eapply (la_const LookBehindNeg); eauto.
Qed.


Lemma zok_atom_list hc : forall l g, zok_list l -> zok_list (atom_list bs hc g l).
Proof. induction l as [|x r IH]; intros g H; [exact I|]. destruct H. split; [now apply at_zok|now apply IH]. Qed.
Lemma in_atom_list hc : forall l g x', In x' (atom_list bs hc g l) -> exists x gx, In x l /\ x' = atomize bs x gx hc.
Proof.
  induction l as [|x r IH]; intros g x' H; [destruct H|]. cbn [atom_list] in H. destruct H as [<-|H].
  - exists x, g. split; [left; auto|auto].
  - destruct (IH _ _ H) as (y & gy & Hy & E). exists y, gy. split; [right; auto|auto].
Qed.
Lemma at_alt_const hc es g : const_size (Alt (atom_list bs hc g es)) = const_size (Alt es).
Proof.
  apply (keeps_alt es (atom_list bs hc g es)). apply atom_list_keeps. apply Forall_forall. intros x _ g0 hc0. apply atomize_keeps.
Qed.
Lemma gsem_alts_atom_list la : forall l g st,
  gsem_alts (fun x' gx s => sem cx (LookAround x' la) fuel gx s) g (atom_list bs false g l) st =
  gsem_alts (fun x gx => sem cx (LookAround (atomize bs x gx false) la) fuel gx) g l st.
Proof. induction l as [|x r IH]; intros g st; [reflexivity|]. cbn [atom_list gsem_alts]. now rewrite at_ngroups, IH. Qed.
Lemma gsem_seq_atom_list la : forall l g st,
  gsem_seq (fun x' gx s => sem cx (LookAround x' la) fuel gx s) g (atom_list bs false g l) st =
  gsem_seq (fun x gx => sem cx (LookAround (atomize bs x gx false) la) fuel gx) g l st.
Proof.
  induction l as [|x r IH]; intros g st; [reflexivity|]. cbn [atom_list gsem_seq]. rewrite at_ngroups.
  apply flat_map_ext. intros a. apply IH.
Qed.

Lemma seg_lookaroundD lk c la : seg_stmtD false c -> (forall es, c = Alt es -> Forall (seg_stmtD false) es) ->
  seg_stmtD lk (LookAround c la).
Proof.
  intros IH IHalts. startD (LookAround c la).
  cbn [wfe] in Hw. cbn [acheck] in Hac. cbn [rok] in Hrk. destruct Hrk as [Hrk Hzb]. cbn [ngroups] in Hng.
  destruct (match la, c with (LookBehind | LookBehindNeg), Alt _ => negb (const_size c) | _, _ => false end) eqn:Esplit.
  { destruct c as [| | | | |es| | | | | | | | | | |]; try (destruct la; discriminate).
    assert (Hla : la = LookBehind \/ la = LookBehindNeg) by (destruct la; auto; discriminate).
    assert (Hcs : const_size (Alt es) = false) by (destruct la; try discriminate; now apply negb_true_iff in Esplit).
    rewrite (atomize_lb_split bs es g hc la Edel Hla Hcs).
    specialize (IHalts es eq_refl).
    assert (Hzc : zok (Alt es)) by exact Hz.
    assert (Hoc : oke false g (Alt es)) by (repeat split; auto).
    destruct es as [|x r]; [destruct Hoc as (_ & _ & Ha & _); discriminate|].
    pose proof (okl_of_alt false g x r Hoc) as Hokl. rewrite ngroups_alt in Hng.
    rewrite wfe_alt in Hw. rewrite zok_alt in Hzc.
    assert (Hcs' : const_size (Alt (atom_list bs false g (x :: r))) = false) by now rewrite at_alt_const.
    destruct la; try (destruct Hla; discriminate).
    - rewrite (visit_lb_split (x :: r) g hc pc ns Hcs) in Hv.
      destruct (galt_codes (la_pos LookBehind) g pc ns (x :: r)) as [er|[cds ns1]] eqn:Hc; [discriminate|].
      inversion Hv; subst code ns'. clear Hv.
      assert (Hcf : Forall (cf_okD false lk (la_pos LookBehind) (fun x g => sem cx (LookAround (atomize bs x g false) LookBehind) fuel g)) (x :: r)).
      { eapply Forall_impl; [|exact IHalts]. intros a Ha. apply la_pos_okD; auto. }
      destruct (gseg_altsD false lk _ _ r x Hcf g pc ns cds ns1 Hc Hnd HAt Hokl Hns Hng) as [M G]. split; auto.
      intros v K Hsl Hokv. rewrite alt_layout_length.
      rewrite sem_lb_split; auto using wfe_atom_list, zok_atom_list.
      + rewrite gsem_alts_atom_list. apply G; auto.
      + intros x' Hx'. destruct (in_atom_list _ _ _ _ Hx') as (y & gy & Hy & ->). rewrite at_const. eapply galt_const; eauto.
    - rewrite (visit_lbn_split (x :: r) g hc pc ns Hcs) in Hv.
      assert (Hcf : Forall (cf_okD false lk (la_neg LookBehindNeg) (fun x g => sem cx (LookAround (atomize bs x g false) LookBehindNeg) fuel g)) (x :: r)).
      { eapply Forall_impl; [|exact IHalts]. intros a Ha. apply la_neg_okD; auto. }
      assert (Hsf : forall x g st st', oke false g x -> st_ok cs st ->
                In st' (sem cx (LookAround (atomize bs x g false) LookBehindNeg) fuel g st) -> st_ok cs st').
      { intros a ga st st' (Hwa & _) Hs Hin. eapply (sem_ok (LookAround (atomize bs a ga false) LookBehindNeg)); eauto.
        cbn [wfe]. now apply at_wfe. }
      eapply segP_ext; [|eapply (gseg_seqD false lk _ _ Hsf (x :: r) Hcf); eauto].
      intros st Hst. cbv beta. symmetry. rewrite sem_lbn_split; auto using wfe_atom_list, zok_atom_list.
      + apply gsem_seq_atom_list.
      + intros x' Hx'. destruct (in_atom_list _ _ _ _ Hx') as (y & gy & Hy & ->). rewrite at_const.
        clear - Hv Hy. revert g pc ns code ns' Hv. revert Hy. generalize (x :: r) as l.
        intros l Hy. induction l as [|z l IHl]; intros g pc ns code ns' Hv; [destruct Hy|].
        cbn [gseq_codes] in Hv. apply bindc_inr in Hv as ([c1 n1] & H1 & Hv). apply bindc_inr in Hv as ([c2 n2] & H2 & _).
        destruct Hy as [<-|Hy]; [eapply (la_const LookBehindNeg); eauto|eapply IHl; eauto]. }
  assert (Hlb : lb_alt_const c la).
  { destruct la; try exact I; destruct c; try exact I; cbn [lb_alt_const]; now apply negb_false_iff in Esplit. }
  rewrite (atomize_la bs c la g hc Edel Esplit).
  rewrite (visit_la c la g hc pc ns Hlb) in Hv. rewrite Edel in Hv.
  assert (Hbody : body_okD c g).
  { destruct (hard bs g c) eqn:Hh; [right|left; exact Hh]. split; auto.
    assert (Hzc : zok c) by (destruct c; try exact Hz; discriminate).
    repeat split; auto. }
  assert (Hcs : match la with LookBehind | LookBehindNeg => const_size c = true | _ => True end).
  { destruct la; auto; unfold la_pos, la_neg, la_inner in Hv; destruct (const_size c); auto; discriminate. }
  destruct la.
  - eapply segP_ext; [|eapply seg_la_posD; eauto]. intros st Hst. cbv beta. now rewrite sem_la_eqD.
  - eapply segP_ext; [|eapply seg_la_negD; eauto]. intros st Hst. cbv beta. now rewrite sem_la_eqD.
  - eapply segP_ext; [|eapply seg_la_posD; eauto]. intros st Hst. cbv beta. now rewrite sem_la_eqD.
  - eapply segP_ext; [|eapply seg_la_negD; eauto]. intros st Hst. cbv beta. now rewrite sem_la_eqD.
Qed.


Lemma sem_atomic_eq c fu g st : sem cx (AtomicGroup c) fu g st = firstn 1 (sem cx c fu g st).
Proof. destruct st; reflexivity. Qed.

Lemma seg_atomicD lk c : seg_stmtD false c -> seg_stmtD lk (AtomicGroup c).
Proof.
  intros IH. startD (AtomicGroup c). cbn [visit] in Hv. rewrite Edel in Hv. rewrite (atomize_atomic bs c g hc Edel).
  apply bindc_inr in Hv as ([cc ns1] & Hc & Hr). inversion Hr; subst code ns'. clear Hr.
  apply At_cons in HAt as [Ha1 HAt]. apply At_app in HAt as [HAc HA2]. apply At_cons in HA2 as [Ha2 _].
  apply okdeleg2_cons in Hnd as [_ Hnd]. apply okdeleg2_app in Hnd as [Hndc _].
  cbn [ngroups] in Hng. cbn [wfe] in Hw. cbn [zok] in Hz. cbn [acheck] in Hac. cbn [rok] in Hrk.
  replace (pc + 1) with (S pc) in Hc by lia.
  destruct (IH g false (S pc) ns cc ns1 Hc Hndc HAc (conj Hw (conj Hz (conj Hac Hrk))) Hns ltac:(lia)) as [Hmono IHc].
  split; [exact Hmono|]. intros v K Hsl Hok.
  destruct v as [ix sl aux]. rewrite sem_atomic_eq.
  set (v1 := {| v_ix := ix; v_sl := sl; v_aux := aux ++ [V (length K)] |}).
  apply Gen_step. unfold RunV at 1; cbn [v_ix v_sl v_aux]. rewrite (step_begin cx P MS pc ix sl aux K Ha1).
  change (Run (S pc) ix sl (aux ++ [V (length K)]) K) with (RunV (S pc) v1 K).
  specialize (IHc v1 K Hsl Hok). change (sof v1) with (sof {| v_ix := ix; v_sl := sl; v_aux := aux |}) in IHc.
  destruct (asem c g false (sof {| v_ix := ix; v_sl := sl; v_aux := aux |})) as [|x rest]; cbn [firstn map] in *.
  - inversion IHc; subst. apply Gen_nil. auto.
  - inversion IHc as [|c0 v' F Q Ps Hs HF HQ Hrest]; subst.
    destruct HQ as (Hi & Hcp & Hax & Hfr). apply auxrel_false in Hax.
    destruct v' as [ix' sl' aux']. cbn [v_ix v_sl v_aux] in *. subst aux'.
    eapply Gen_cons with (F := []) (v := {| v_ix := ix'; v_sl := sl'; v_aux := aux |}).
    + eapply steps_trans; [exact Hs|]. apply steps_step. unfold RunV, v1; cbn [v_ix v_sl v_aux app].
      rewrite (step_end cx P MS _ ix' sl' aux (F ++ K) (length K) Ha2) by (rewrite app_length; lia).
      rewrite skipn_app_len. f_equal. cbn [length]. rewrite app_length. cbn [length]. lia.
    + constructor.
    + unfold R; cbn [v_ix v_sl v_aux]. auto.
    + apply Gen_nil. apply steps_refl.
Qed.

Lemma seg_condD c y n : seg_stmtD false c -> seg_stmtD true y -> seg_stmtD true n ->
  seg_stmtD true (Conditional c y n).
Proof.
  intros IHc IHy IHn. startD (Conditional c y n). cbn [visit] in Hv. rewrite Edel in Hv. rewrite (atomize_cond bs c y n g hc Edel).
  apply bindc_inr in Hv as ([cc ns1] & Hc & Hv). apply bindc_inr in Hv as ([cy ns2] & Hy & Hv).
  apply bindc_inr in Hv as ([cn ns3] & Hn & Hr). inversion Hr; subst code ns'. clear Hr.
  cbn [wfe] in Hw. destruct Hw as (Hwc & Hwy & Hwn). cbn [zok] in Hz. destruct Hz as (Hzc & Hzy & Hzn).
  cbn [rok] in Hrk. destruct Hrk as (Hrc & Hry & Hrn). cbn [ngroups] in Hng.
  cbn [acheck] in Hac. destruct (acheck g c) eqn:Eac; [discriminate|].
  destruct (acheck (g + ngroups c) y) eqn:Eay; [discriminate|].
  set (pc_y := pc + 2 + length cc + 1) in *. set (pc_n := pc_y + length cy + 1) in *.
  apply At_cons in HAt as [Ha1 HAt]. apply At_cons in HAt as [Ha2 HAt]. apply At_app in HAt as [HAc HAt].
  apply At_cons in HAt as [Ha3 HAt]. apply At_app in HAt as [HAy HAt]. apply At_cons in HAt as [Ha4 HAn].
  apply okdeleg2_cons in Hnd as [_ Hnd]. apply okdeleg2_cons in Hnd as [_ Hnd]. apply okdeleg2_app in Hnd as [Hndc Hnd].
  apply okdeleg2_cons in Hnd as [_ Hnd]. apply okdeleg2_app in Hnd as [Hndy Hnd]. apply okdeleg2_cons in Hnd as [_ Hndn].
  replace (S (S pc)) with (pc + 2) in * by lia.
  replace (S (pc + 2 + length cc)) with pc_y in * by (unfold pc_y; lia).
  replace (S (pc_y + length cy)) with pc_n in * by (unfold pc_n; lia).
  destruct (IHc g hc (pc + 2) ns cc ns1 Hc Hndc HAc (conj Hwc (conj Hzc (conj Eac Hrc))) Hns ltac:(lia)) as [M1 G1].
  destruct (IHy (g + ngroups c) hc pc_y ns1 cy ns2 Hy Hndy HAy (conj Hwy (conj Hzy (conj Eay Hry))) ltac:(lia) ltac:(lia)) as [M2 G2].
  destruct (IHn (g + ngroups c + ngroups y) hc pc_n ns2 cn ns3 Hn Hndn HAn (conj Hwn (conj Hzn (conj Hac Hrn))) ltac:(lia) ltac:(lia)) as [M3 G3].
  split; [lia|]. intros v K Hsl Hok.
  set (q := pc + length (IBeginAtomic :: ISplit (pc + 2) pc_n :: cc ++ IEndAtomic :: cy ++ IJmp (pc_n + length cn) :: cn)).
  assert (Eq : q = pc_n + length cn).
  { unfold q, pc_n, pc_y. cbn [length]. rewrite !app_length. cbn [length]. rewrite app_length. cbn [length]. lia. }
  rewrite C15_sem_cond, !at_ngroups.
  destruct v as [ix sl aux].
  set (v1 := {| v_ix := ix; v_sl := sl; v_aux := aux ++ [V (length K)] |}).
  apply Gen_step. unfold RunV at 1; cbn [v_ix v_sl v_aux]. rewrite (step_begin cx P MS pc ix sl aux K Ha1).
  change (Run (S pc) ix sl (aux ++ [V (length K)]) K) with (RunV (S pc) v1 K).
  apply Gen_step. rewrite (step_splitV (S pc) v1 K _ _ Ha2).
  specialize (G1 v1 (alt_of pc_n v1 :: K) ltac:(unfold v1; cbn [v_sl] in *; lia) Hok).
  change (sof v1) with (sof {| v_ix := ix; v_sl := sl; v_aux := aux |}) in G1.
  destruct (asem c g hc (sof {| v_ix := ix; v_sl := sl; v_aux := aux |})) as [|x rest] eqn:Esem; cbn [map] in G1.
  - (* condition fails: the false branch runs with the leaked entry *)
    inversion G1 as [c0 Hs|]; subst.
    eapply Gen_steps; [eapply steps_trans; [exact Hs|apply steps_step; apply fail_alt]|].
    apply Gen_weaken with (p := pc_n); [unfold pc_n, pc_y; lia|]. rewrite Eq.
    specialize (G3 v1 K ltac:(unfold v1; cbn [v_sl] in *; lia) Hok).
    change (sof v1) with (sof {| v_ix := ix; v_sl := sl; v_aux := aux |}) in G3.
    eapply Gen_impl; [|exact G3]. apply Forall2_same_map. intros a _ v' (Hi & Hcp & Hax & Hfr).
    unfold R. split; [auto|]. split; [auto|]. split.
    + cbn [v_aux] in *. eapply auxrel_trans; [|exact Hax]. unfold v1; cbn [v_aux auxrel]. eexists; reflexivity.
    + eapply frame_widen; [| |exact Hfr]; lia.
  - (* condition has a result: cut, then the true branch from the first result *)
    inversion G1 as [|c0 v' F Q Ps Hs HF HQ Hrest]; subst.
    destruct HQ as (Hi & Hcp & Hax & Hfr). apply auxrel_false in Hax.
    destruct v' as [ix' sl' aux']. cbn [v_ix v_sl v_aux] in *. subst aux'.
    set (v2 := {| v_ix := ix'; v_sl := sl'; v_aux := aux |}).
    eapply Gen_steps.
    { eapply steps_trans; [exact Hs|]. apply steps_step. unfold RunV, v1; cbn [v_ix v_sl v_aux].
      replace (F ++ alt_of pc_n {| v_ix := ix; v_sl := sl; v_aux := aux ++ [V (length K)] |} :: K)
        with ((F ++ [alt_of pc_n {| v_ix := ix; v_sl := sl; v_aux := aux ++ [V (length K)] |}]) ++ K)
        by (rewrite <- app_assoc; reflexivity).
      rewrite (step_end cx P MS _ ix' sl' aux _ (length K) Ha3) by (rewrite app_length; lia).
      rewrite skipn_app_len. reflexivity. }
    change (Run (S (pc + 2 + length cc)) ix' sl' aux K) with (RunV (S (pc + 2 + length cc)) v2 K).
    replace (S (pc + 2 + length cc)) with pc_y by (unfold pc_y; lia).
    assert (Hsx : sof v2 = x) by (apply sof_eq; auto).
    assert (Hokx : st_ok cs x).
    { eapply (sem_ok (atomize bs c g hc)); [apply at_wfe; exact Hwc|exact Hok|]. rewrite Esem. left; reflexivity. }
    assert (Hl2 : ns2 <= length (v_sl v2)) by (destruct Hfr as [L _]; unfold v2, v1 in *; cbn [v_sl] in *; lia).
    specialize (G2 v2 K Hl2 ltac:(now rewrite Hsx)).
    rewrite Hsx in G2.
    apply Gen_weaken with (p := pc_y); [unfold pc_y; lia|].
    eapply Gen_map with (q := pc_y + length cy); [unfold pc_n in Eq; lia| |exact G2].
    apply Forall2_same_map. intros a _ v' K1 (Hi2 & Hcp2 & Hax2 & Hfr2). exists v'. split.
    + apply steps_step. rewrite Eq. apply step_jmpV. exact Ha4.
    + unfold R. split; [auto|]. split; [auto|]. split; [exact Hax2|].
      destruct Hfr as [L1 F1], Hfr2 as [L2 F2]. unfold v2, v1 in *. cbn [v_sl] in *. split; [congruence|].
      intros j Hj Ho. rewrite F2, F1; auto; lia.
Qed.

Lemma seg_allD_aux : forall e lk, seg_stmtD lk e /\ (forall es, e = Alt es -> Forall (seg_stmtD lk) es).
Proof.
  induction e using expr_ind'; intros lk; (split; [|try (intros es0 E0; discriminate)]).
  - apply seg_emptyD.
  - apply seg_anyD.
  - apply seg_assertionD.
  - apply seg_literalD.
  - apply seg_concatD. eapply Forall_impl; [|exact H]. intros a Ha; apply Ha.
  - apply seg_altD. eapply Forall_impl; [|exact H]. intros a Ha; apply Ha.
  - intros es0 E0. inversion E0; subst. eapply Forall_impl; [|exact H]. intros a Ha; apply Ha.
  - apply seg_groupD, IHe.
  - apply seg_lookaroundD; apply IHe.
  - apply seg_repeatD, IHe.
  - apply seg_classD.
  - apply seg_backrefD.
  - apply seg_atomicD, IHe.
  - apply seg_keepoutD.
  - apply seg_contgD.
  - apply seg_becD.
  - destruct lk.
    + apply seg_condD; [apply IHe1|apply IHe2|apply IHe3].
    + intros g hc pc ns code ns' _ _ _ (_ & _ & _ & Hrk). destruct Hrk.
  - intros g1 hc pc ns code ns' Hv Hnd HAt (Hw & Hz & Hac & Hrk) Hns Hng. cbn [acheck] in Hac. discriminate.
Qed.

Theorem seg_allD : forall lk e, seg_stmtD lk e.
Proof. intros lk e. apply seg_allD_aux. Qed.


(* ---------- every compiled program only delegates easy blocks with the right group range ---------- *)
Lemma okdeleg2_delegate1 e g : hard bs g e = false -> okdeleg2 (delegate1 e g).
Proof.
  intros Hh. unfold delegate1. destruct (is_literal e); [reflexivity|]. apply okdeleg2_cons. split; [|reflexivity].
  unfold okinsn2. cbn [forallb]. rewrite (hard_easyx bs e g Hh). cbn [andb].
  rewrite ngl_cons, ngl_nil, Nat.add_0_r, Nat.eqb_refl. reflexivity.
Qed.

Lemma okdeleg2_delegates l g : forallb easyx l = true -> okdeleg2 (delegates l g).
Proof.
  intros He. unfold delegates. destruct l as [|x r]; [reflexivity|]. destruct (forallb is_literal (x :: r)); [reflexivity|].
  apply okdeleg2_cons. split; [|reflexivity]. unfold okinsn2. rewrite He, Nat.eqb_refl. reflexivity.
Qed.

Lemma prefix_easy : forall es g, forallb easyx (firstn (prefix_count bs g es) es) = true.
Proof.
  unfold prefix_count. induction es as [|x r IH]; intros g; [reflexivity|].
  destruct (const_size x && negb (hard bs g x)) eqn:E; [|reflexivity].
  apply andb_true_iff in E as [_ E]. apply negb_true_iff in E. cbn [firstn forallb].
  rewrite (hard_easyx bs x g E). apply IH.
Qed.

Lemma take_while_rev' {A} (f : A -> bool) : forall m,
  forallb f (skipn (length m - take_while_count f m) (rev m)) = true.
Proof.
  induction m as [|a m IH]; [reflexivity|]. cbn [take_while_count rev length]. destruct (f a) eqn:Ea.
  - replace (S (length m) - S (take_while_count f m)) with (length m - take_while_count f m) by lia.
    rewrite skipn_app. rewrite forallb_app, IH. cbn [andb].
    rewrite rev_length. pose proof (take_while_count_le f m).
    replace (length m - take_while_count f m - length m) with 0 by lia. cbn. now rewrite Ea.
  - rewrite Nat.sub_0_r. replace (S (length m)) with (length (rev m ++ [a])) by (rewrite app_length, rev_length; cbn; lia).
    now rewrite skipn_all.
Qed.
Lemma take_while_rev {A} (f : A -> bool) l :
  forallb f (skipn (length l - take_while_count f (rev l)) l) = true.
Proof. pose proof (take_while_rev' f (rev l)) as H. now rewrite rev_involutive, rev_length in H. Qed.

Lemma suffix_easy hc es g :
  forallb easyx (skipn (cat_sb bs hc g es) es) = true.
Proof.
  unfold cat_sb. cbv zeta. set (pe := prefix_count bs g es). set (kids := with_groups g es).
  set (f1 := fun p : expr * nat => const_size (fst p) && negb (hard bs (snd p) (fst p))).
  set (f2 := fun p : expr * nat => negb (hard bs (snd p) (fst p))).
  assert (Hgen : forall f : expr * nat -> bool, (forall p, f p = true -> hard bs (snd p) (fst p) = false) ->
            forallb easyx (skipn (length es - take_while_count f (rev (skipn pe kids))) es) = true).
  { intros f Hf. pose proof (take_while_rev f (skipn pe kids)) as Ht.
    rewrite skipn_add in Ht. rewrite skipn_length in Ht. unfold kids in Ht at 1. rewrite with_groups_length in Ht.
    pose proof (take_while_count_le f (rev (skipn pe kids))) as Hle. rewrite rev_length, skipn_length in Hle.
    unfold kids in Hle at 2. rewrite with_groups_length in Hle.
    pose proof (prefix_count_le es g) as Hpe. fold pe in Hpe.
    replace (pe + (length es - pe - take_while_count f (rev (skipn pe kids)))) with
      (length es - take_while_count f (rev (skipn pe kids))) in Ht by lia.
    set (n := length es - take_while_count f (rev (skipn pe kids))) in *. clearbody n.
    rewrite forallb_forall in Ht. apply forallb_forall. intros x Hx.
    assert (Hk : forall l g0 m y, In y (skipn m l) -> exists gy, In (y, gy) (skipn m (with_groups g0 l))).
    { induction l as [|z l IHl]; intros g0 m y Hy; [destruct m; destruct Hy|].
      destruct m as [|m]; cbn [skipn with_groups] in *.
      - destruct Hy as [<-|Hy]; [exists g0; left; auto|]. destruct (IHl (g0 + ngroups z) 0 y Hy) as [gy Hgy].
        exists gy. right. exact Hgy.
      - apply IHl. exact Hy. }
    destruct (Hk es g n x Hx) as [gx Hgx]. fold kids in Hgx.
    apply (hard_easyx bs x gx). apply (Hf (x, gx)). apply Ht. exact Hgx. }
  destruct hc; apply Hgen; intros p Hp; unfold f1, f2 in Hp.
  - apply andb_true_iff in Hp as [_ Hp]. now apply negb_true_iff in Hp.
  - now apply negb_true_iff in Hp.
Qed.

Definition VO (e : expr) : Prop := forall g hc pc ns code ns', visit bs e g hc pc ns = inr (code, ns') -> okdeleg2 code.

Ltac vo_start x :=
  intros g0 hc pc ns code ns' Hv;
  destruct (negb hc && negb (hard bs g0 x)) eqn:Edel;
  [rewrite (visit_short x g0 hc pc ns Edel) in Hv; inversion Hv; subst; apply okdeleg2_delegate1;
   apply andb_true_iff in Edel as [_ Edel]; now apply negb_true_iff in Edel|].

Lemma okdeleg2_one i : okinsn2 i = true -> okdeleg2 [i].
Proof. intros H. apply okdeleg2_cons. split; auto. reflexivity. Qed.

Definition cfvo (cf : expr -> nat -> nat -> nat -> cerr + cres) (x : expr) : Prop :=
  forall g pc ns code ns', cf x g pc ns = inr (code, ns') -> okdeleg2 code.

Lemma galt_vo cf : forall l, Forall (cfvo cf) l ->
  forall g pc ns cds ns', galt_codes cf g pc ns l = inr (cds, ns') -> forall e, okdeleg2 (alt_layout pc e cds).
Proof.
  induction 1 as [|x r Hcf Hr IH]; intros g pc ns cds ns' Hc e.
  - inversion Hc; reflexivity.
  - destruct r as [|y r].
    + cbn [galt_codes] in Hc. destruct (cf x g pc ns) as [|[c n1]] eqn:E; [discriminate|]. inversion Hc; subst.
      cbn [alt_layout]. eapply Hcf; eauto.
    + rewrite galt_codes_cons2 in Hc. destruct (cf x g (pc + 1) ns) as [|[c n1]] eqn:E; [discriminate|].
      destruct (galt_codes cf _ _ _ (y :: r)) as [|[cds' n2]] eqn:E2; [discriminate|]. inversion Hc; subst.
      destruct (galt_codes_ne cf _ _ _ _ _ _ _ E2) as (c' & r' & ->). rewrite alt_layout_cons2.
      apply okdeleg2_cons. split; [reflexivity|]. apply okdeleg2_app. split; [eapply Hcf; eauto|].
      apply okdeleg2_cons. split; [reflexivity|]. eapply IH; eauto.
Qed.

Lemma gseq_vo cf : forall l, Forall (cfvo cf) l ->
  forall g pc ns code ns', gseq_codes cf g pc ns l = inr (code, ns') -> okdeleg2 code.
Proof.
  induction 1 as [|x r Hcf Hr IH]; intros g pc ns code ns' Hc; cbn [gseq_codes] in Hc.
  - inversion Hc; reflexivity.
  - apply bindc_inr in Hc as ([c1 n1] & H1 & Hc). apply bindc_inr in Hc as ([c2 n2] & H2 & Hc). inversion Hc; subst.
    apply okdeleg2_app. split; [eapply Hcf; eauto|eapply IH; eauto].
Qed.

Lemma la_inner_vo la x : VO x -> forall g pc ns code ns', la_inner la x g pc ns = inr (code, ns') -> okdeleg2 code.
Proof.
  intros Hx g pc ns code ns' Hi. destruct la; cbn [la_inner] in Hi; try (eapply Hx; eauto; fail);
    (destruct (const_size x); [|discriminate]); apply bindc_inr in Hi as ([c n1] & H1 & Hi); inversion Hi; subst;
    apply okdeleg2_cons; (split; [reflexivity|eapply Hx; eauto]).
Qed.
Lemma la_pos_vo la x : VO x -> forall g pc ns code ns', la_pos la x g pc ns = inr (code, ns') -> okdeleg2 code.
Proof.
  intros Hx g pc ns code ns' Hv. unfold la_pos in Hv. cbv zeta in Hv.
  apply bindc_inr in Hv as ([c n1] & H1 & Hv). inversion Hv; subst.
  pose proof (la_inner_vo la x Hx _ _ _ _ _ H1) as Hc.
  apply okdeleg2_cons. split; [reflexivity|]. destruct (hard bs g x); cbn [app].
  - apply okdeleg2_cons. split; [reflexivity|]. apply okdeleg2_app. split; auto. reflexivity.
  - apply okdeleg2_app. split; auto. reflexivity.
Qed.
Lemma la_neg_vo la x : VO x -> forall g pc ns code ns', la_neg la x g pc ns = inr (code, ns') -> okdeleg2 code.
Proof.
  intros Hx g pc ns code ns' Hv. unfold la_neg in Hv.
  apply bindc_inr in Hv as ([c n1] & H1 & Hv). inversion Hv; subst.
  pose proof (la_inner_vo la x Hx _ _ _ _ _ H1) as Hc.
  apply okdeleg2_cons. split; [reflexivity|]. apply okdeleg2_app. split; auto. reflexivity.
Qed.

Lemma visit_list_vo : forall l, Forall VO l -> forall g pc ns code ns', visit_list g pc ns l = inr (code, ns') -> okdeleg2 code.
Proof.
  induction 1 as [|x r Hx Hr IH]; intros g pc ns code ns' Hv; cbn [visit_list] in Hv.
  - inversion Hv; reflexivity.
  - apply bindc_inr in Hv as ([c1 n1] & H1 & Hv). apply bindc_inr in Hv as ([c2 n2] & H2 & Hv). inversion Hv; subst.
    apply okdeleg2_app. split; [eapply Hx; eauto|eapply IH; eauto].
Qed.

Lemma visit_okdeleg2_aux : forall e, VO e /\ Forall VO (alts_of e).
Proof.
  induction e using expr_ind'.
  all: try match goal with |- VO ?e /\ Forall VO (alts_of ?e) =>
         match e with
         | Alt _ => idtac
         | _ => assert (H1 : VO e); [|split; [exact H1|constructor; [exact H1|constructor]]] end end.
  - vo_start Empty. cbn [visit] in Hv. rewrite Edel in Hv. inversion Hv; reflexivity.
  - vo_start (Any nl). cbn [visit] in Hv. rewrite Edel in Hv. destruct nl; inversion Hv; reflexivity.
  - vo_start (Assertion a). cbn [visit] in Hv. rewrite Edel in Hv. inversion Hv; reflexivity.
  - vo_start (Literal v c). cbn [visit] in Hv. rewrite Edel in Hv. destruct c; inversion Hv; subst; [|reflexivity].
    apply okdeleg2_delegate1. reflexivity.
  - (* Concat *)
    assert (Hk : Forall VO es) by (eapply Forall_impl; [|exact H]; intros a Ha; apply Ha).
    vo_start (Concat es). rewrite visit_concat in Hv. rewrite Edel in Hv. cbv zeta in Hv.
    pose proof (cat_bounds bs hc g0 es) as Hb. pose proof (suffix_easy hc es g0) as Hsuf.
    unfold cat_pe, cat_sb in Hb, Hsuf. cbv zeta in Hb, Hsuf.
    set (pe := prefix_count bs g0 es) in *. set (sb := length es - _) in *.
    set (A := firstn pe es) in *. set (B := firstn (sb - pe) (skipn pe es)). set (C := skipn sb es) in *.
    assert (Hes : es = A ++ B ++ C).
    { unfold A, B, C. rewrite <- (firstn_skipn pe es) at 1. f_equal.
      rewrite <- (firstn_skipn (sb - pe) (skipn pe es)) at 1. f_equal. rewrite skipn_add. f_equal. lia. }
    assert (HlA : length A = pe) by (unfold A; apply firstn_length_le; lia).
    assert (HlB : length B = sb - pe) by (unfold B; apply firstn_length_le; rewrite skipn_length; lia).
    apply bindc_inr in Hv as ([cm ns1] & Hm & Hv). inversion Hv; subst code ns'. clear Hv.
    rewrite Hes in Hm. rewrite (mid_before pe sb (B ++ C) _ ns A 0 g0) in Hm by lia.
    rewrite (mid_mid pe sb C B) in Hm by lia.
    assert (Esuf : skipn sb (with_groups g0 es) = with_groups (g0 + ngroups_list (A ++ B)) C).
    { rewrite Hes at 1. rewrite app_assoc. replace sb with (length (A ++ B)) at 1 by (rewrite app_length; lia). apply skipn_with_groups. }
    rewrite Esuf. rewrite map_fst_with_groups.
    apply okdeleg2_app. split; [apply okdeleg2_delegates; apply prefix_easy|].
    apply okdeleg2_app. split; [|apply okdeleg2_delegates; exact Hsuf].
    rewrite Hes in Hk. apply Forall_app in Hk as [_ Hk]. apply Forall_app in Hk as [HkB _].
    eapply visit_list_vo; eauto.
  - (* Alt *)
    assert (Hk : Forall VO es) by (eapply Forall_impl; [|exact H]; intros a Ha; apply Ha).
    split; [|exact Hk]. vo_start (Alt es). rewrite visit_alt in Hv. rewrite Edel in Hv.
    destruct (alt_codes hc g0 pc ns es) as [|[cds n1]] eqn:Hc; [discriminate|]. inversion Hv; subst.
    rewrite alt_codes_galt in Hc. eapply (galt_vo (fun x g pc ns => visit bs x g hc pc ns) es); [|exact Hc].
    eapply Forall_impl; [|exact Hk]. intros x Hx g pc0 ns0 code ns0' Hv0. eapply Hx; eauto.
  - (* Group *) destruct IHe as [IHe _]. vo_start (Group e). cbn [visit] in Hv. rewrite Edel in Hv.
    apply bindc_inr in Hv as ([c n1] & H1 & Hv). inversion Hv; subst.
    apply okdeleg2_cons. split; [reflexivity|]. apply okdeleg2_app. split; [eapply IHe; eauto|reflexivity].
  - (* LookAround *) destruct IHe as [IHe IHalts]. vo_start (LookAround e la).
    destruct (match la, e with (LookBehind | LookBehindNeg), Alt _ => negb (const_size e) | _, _ => false end) eqn:Esp.
    + destruct e as [| | | | |es| | | | | | | | | | |]; try (destruct la; discriminate).
      assert (Hcs : const_size (Alt es) = false) by (destruct la; try discriminate; now apply negb_true_iff in Esp).
      cbn [alts_of] in IHalts.
      destruct la; try discriminate.
      * rewrite (visit_lb_split es g0 hc pc ns Hcs) in Hv.
        destruct (galt_codes (la_pos LookBehind) g0 pc ns es) as [|[cds n1]] eqn:Hc; [discriminate|]. inversion Hv; subst.
        eapply (galt_vo (la_pos LookBehind) es); [|exact Hc].
        eapply Forall_impl; [|exact IHalts]. intros x Hx. unfold cfvo. apply la_pos_vo. exact Hx.
      * rewrite (visit_lbn_split es g0 hc pc ns Hcs) in Hv. eapply (gseq_vo (la_neg LookBehindNeg) es); [|exact Hv].
        eapply Forall_impl; [|exact IHalts]. intros x Hx. unfold cfvo. apply la_neg_vo. exact Hx.
    + assert (Hlb : lb_alt_const e la).
      { destruct la; try exact I; destruct e; try exact I; cbn [lb_alt_const]; now apply negb_false_iff in Esp. }
      rewrite (visit_la e la g0 hc pc ns Hlb) in Hv. rewrite Edel in Hv.
      destruct la; [eapply la_pos_vo|eapply la_neg_vo|eapply la_pos_vo|eapply la_neg_vo]; eauto.
  - (* Repeat *) destruct IHe as [IHe _]. vo_start (Repeat e lo hi gr). cbn [visit] in Hv. rewrite Edel in Hv.
    repeat match type of Hv with (if ?b then _ else _) = _ => destruct b end; try discriminate;
      apply bindc_inr in Hv as ([c n1] & H1 & Hv); inversion Hv; subst; apply IHe in H1;
      repeat (first [apply okdeleg2_cons; split; [destruct gr; reflexivity|] | apply okdeleg2_app; split; [exact H1|]]);
      try exact H1; try (destruct gr; reflexivity).
  - vo_start (Delegate i s c k). cbn [visit] in Hv. rewrite Edel in Hv. inversion Hv; subst. apply okdeleg2_delegate1. reflexivity.
  - vo_start (Backref g). cbn [visit] in Hv. rewrite Edel in Hv. inversion Hv; reflexivity.
  - (* AtomicGroup *) destruct IHe as [IHe _]. vo_start (AtomicGroup e). cbn [visit] in Hv. rewrite Edel in Hv.
    apply bindc_inr in Hv as ([c n1] & H1 & Hv). inversion Hv; subst.
    apply okdeleg2_cons. split; [reflexivity|]. apply okdeleg2_app. split; [eapply IHe; eauto|reflexivity].
  - vo_start KeepOut. cbn [visit] in Hv. rewrite Edel in Hv. inversion Hv; reflexivity.
  - vo_start ContinueFromPreviousMatchEnd. cbn [visit] in Hv. rewrite Edel in Hv. inversion Hv; reflexivity.
  - vo_start (BackrefExistsCondition g). cbn [visit] in Hv. rewrite Edel in Hv. inversion Hv; reflexivity.
  - (* Conditional *) destruct IHe1 as [IH1 _]. destruct IHe2 as [IH2 _]. destruct IHe3 as [IH3 _].
    vo_start (Conditional e1 e2 e3). cbn [visit] in Hv. rewrite Edel in Hv.
    apply bindc_inr in Hv as ([cc n1] & H1 & Hv). apply bindc_inr in Hv as ([cy n2] & H2 & Hv).
    apply bindc_inr in Hv as ([cn n3] & H3 & Hv). inversion Hv; subst.
    apply okdeleg2_cons. split; [reflexivity|]. apply okdeleg2_cons. split; [reflexivity|].
    apply okdeleg2_app. split; [eapply IH1; eauto|]. apply okdeleg2_cons. split; [reflexivity|].
    apply okdeleg2_app. split; [eapply IH2; eauto|]. apply okdeleg2_cons. split; [reflexivity|eapply IH3; eauto].
  - vo_start (SubroutineCall g). cbn [visit] in Hv. rewrite Edel in Hv. discriminate.
Qed.

Theorem visit_okdeleg2 : forall e g hc pc ns code ns', visit bs e g hc pc ns = inr (code, ns') -> okdeleg2 code.
Proof. intros e. apply (proj1 (visit_okdeleg2_aux e)). Qed.

(* ---------- what a successful compilation says about look-behind bodies ---------- *)
Fixpoint lbk (e : expr) : Prop :=
  match e with
  | LookAround c la =>
      lbk c /\ (is_behind la = true ->
                const_size c = true \/ exists es, c = Alt es /\ Forall (fun x => const_size x = true) es)
  | Concat es | Alt es => (fix go (l : list expr) : Prop := match l with [] => True | x :: r => lbk x /\ go r end) es
  | Group c | Repeat c _ _ _ | AtomicGroup c => lbk c
  | Conditional c y n => lbk c /\ lbk y /\ lbk n
  | _ => True
  end.
Fixpoint lbk_list (l : list expr) : Prop := match l with [] => True | x :: r => lbk x /\ lbk_list r end.
Lemma lbk_concat es : lbk (Concat es) = lbk_list es. Proof. induction es; simpl in *; congruence. Qed.
Lemma lbk_alt es : lbk (Alt es) = lbk_list es. Proof. induction es; simpl in *; congruence. Qed.
Lemma lbk_list_app a b : lbk_list (a ++ b) <-> lbk_list a /\ lbk_list b.
Proof. induction a as [|x a IH]; cbn [app lbk_list]; tauto. Qed.
Lemma lbk_list_Forall l : lbk_list l <-> Forall lbk l.
Proof. induction l as [|x r IH]; cbn [lbk_list]; split; intros H; auto; [destruct H; constructor; tauto|inversion H; tauto]. Qed.

Lemma easyx_lbk : forall e, easyx e = true -> lbk e.
Proof.
  induction e using expr_ind'; intros He; try exact I; try discriminate.
  - rewrite easyx_concat in He. rewrite lbk_concat. induction H as [|x r Hx Hr IH]; [exact I|].
    cbn [forallb] in He. apply andb_true_iff in He as [H1 H2]. split; auto.
  - rewrite easyx_alt in He. rewrite lbk_alt. induction H as [|x r Hx Hr IH]; [exact I|].
    cbn [forallb] in He. apply andb_true_iff in He as [H1 H2]. split; auto.
  - cbn [lbk]. apply IHe. exact He.
  - cbn [lbk]. apply IHe. exact He.
Qed.
Lemma easyx_lbk_list l : forallb easyx l = true -> lbk_list l.
Proof.
  induction l as [|x r IH]; intros H; [exact I|]. cbn [forallb] in H. apply andb_true_iff in H as [H1 H2].
  split; [now apply easyx_lbk|auto].
Qed.

Definition VL (e : expr) : Prop := forall g hc pc ns r, visit bs e g hc pc ns = inr r -> lbk e.

Ltac vl_start x :=
  intros g0 hc pc ns r0 Hv;
  destruct (negb hc && negb (hard bs g0 x)) eqn:Edel;
  [apply easyx_lbk; apply andb_true_iff in Edel as [_ Edel]; apply negb_true_iff in Edel; now apply (hard_easyx bs x g0)|].

Definition cfok (cf : expr -> nat -> nat -> nat -> cerr + cres) (x : expr) : Prop :=
  exists g pc ns r, cf x g pc ns = inr r.
Lemma galt_all cf : forall l g pc ns r, galt_codes cf g pc ns l = inr r -> Forall (cfok cf) l.
Proof.
  induction l as [|x l IH]; intros g pc ns r Hc; [constructor|].
  destruct l as [|y l].
  - cbn [galt_codes] in Hc. destruct (cf x g pc ns) as [|rr] eqn:E; [discriminate|]. constructor; [|constructor].
    now exists g, pc, ns, rr.
  - rewrite galt_codes_cons2 in Hc. destruct (cf x g (pc + 1) ns) as [|[c n1]] eqn:E; [discriminate|].
    destruct (galt_codes cf _ _ _ (y :: l)) as [|rr] eqn:E2; [discriminate|]. constructor; [|eapply IH; eauto].
    now exists g, (pc + 1), ns, (c, n1).
Qed.
Lemma gseq_all cf : forall l g pc ns r, gseq_codes cf g pc ns l = inr r -> Forall (cfok cf) l.
Proof.
  induction l as [|x l IH]; intros g pc ns r Hc; [constructor|]. cbn [gseq_codes] in Hc.
  apply bindc_inr in Hc as ([c1 n1] & H1 & Hc). apply bindc_inr in Hc as (r2 & H2 & _).
  constructor; [|eapply IH; eauto]. now exists g, pc, ns, (c1, n1).
Qed.

Lemma la_inner_vl la x : VL x -> forall g pc ns r, la_inner la x g pc ns = inr r ->
  lbk x /\ (is_behind la = true -> const_size x = true).
Proof.
  intros Hx g pc ns r Hi. destruct la; cbn [la_inner is_behind] in *; try (split; [eapply Hx; eauto|discriminate]);
    (destruct (const_size x); [|discriminate]); apply bindc_inr in Hi as (r1 & H1 & _); (split; [eapply Hx; eauto|auto]).
Qed.
Lemma la_pos_vl la x : VL x -> cfok (la_pos la) x -> lbk x /\ (is_behind la = true -> const_size x = true).
Proof.
  intros Hx (g & pc & ns & r & Hv). unfold la_pos in Hv. cbv zeta in Hv.
  apply bindc_inr in Hv as (r1 & H1 & _). eapply la_inner_vl; eauto.
Qed.
Lemma la_neg_vl la x : VL x -> cfok (la_neg la) x -> lbk x /\ (is_behind la = true -> const_size x = true).
Proof.
  intros Hx (g & pc & ns & r & Hv). unfold la_neg in Hv.
  apply bindc_inr in Hv as (r1 & H1 & _). eapply la_inner_vl; eauto.
Qed.

Lemma visit_list_vl : forall l, Forall VL l -> forall g pc ns r, visit_list g pc ns l = inr r -> lbk_list l.
Proof.
  induction 1 as [|x l Hx Hr IH]; intros g pc ns r Hv; cbn [visit_list] in Hv; [exact I|].
  apply bindc_inr in Hv as ([c1 n1] & H1 & Hv). apply bindc_inr in Hv as (r2 & H2 & _).
  split; [eapply Hx; eauto|eapply IH; eauto].
Qed.

Lemma visit_lbk_aux : forall e, VL e /\ Forall VL (alts_of e).
Proof.
  induction e using expr_ind'.
  all: try match goal with |- VL ?e /\ Forall VL (alts_of ?e) =>
         match e with
         | Alt _ => idtac
         | _ => assert (H1 : VL e); [|split; [exact H1|constructor; [exact H1|constructor]]] end end.
  all: try (intros g0 hc pc ns r0 Hv; exact I).
  - (* Concat *)
    assert (Hk : Forall VL es) by (eapply Forall_impl; [|exact H]; intros a Ha; apply Ha).
    vl_start (Concat es). rewrite visit_concat in Hv. rewrite Edel in Hv. cbv zeta in Hv.
    pose proof (cat_bounds bs hc g0 es) as Hb. pose proof (suffix_easy hc es g0) as Hsuf.
    pose proof (prefix_easy es g0) as Hpre.
    unfold cat_pe, cat_sb in Hb, Hsuf. cbv zeta in Hb, Hsuf.
    set (pe := prefix_count bs g0 es) in *. set (sb := length es - _) in *.
    set (A := firstn pe es) in *. set (B := firstn (sb - pe) (skipn pe es)). set (C := skipn sb es) in *.
    assert (Hes : es = A ++ B ++ C).
    { unfold A, B, C. rewrite <- (firstn_skipn pe es) at 1. f_equal.
      rewrite <- (firstn_skipn (sb - pe) (skipn pe es)) at 1. f_equal. rewrite skipn_add. f_equal. lia. }
    assert (HlA : length A = pe) by (unfold A; apply firstn_length_le; lia).
    assert (HlB : length B = sb - pe) by (unfold B; apply firstn_length_le; rewrite skipn_length; lia).
    apply bindc_inr in Hv as ([cm ns1] & Hm & Hv). clear Hv.
    rewrite Hes in Hm. rewrite (mid_before pe sb (B ++ C) _ ns A 0 g0) in Hm by lia.
    rewrite (mid_mid pe sb C B) in Hm by lia.
    rewrite lbk_concat, Hes. apply lbk_list_app. split; [now apply easyx_lbk_list|].
    apply lbk_list_app. split; [|now apply easyx_lbk_list].
    rewrite Hes in Hk. apply Forall_app in Hk as [_ Hk]. apply Forall_app in Hk as [HkB _].
    eapply visit_list_vl; eauto.
  - (* Alt *)
    assert (Hk : Forall VL es) by (eapply Forall_impl; [|exact H]; intros a Ha; apply Ha).
    split; [|exact Hk]. vl_start (Alt es). rewrite visit_alt in Hv. rewrite Edel in Hv.
    destruct (alt_codes hc g0 pc ns es) as [|[cds n1]] eqn:Hc; [discriminate|].
    rewrite alt_codes_galt in Hc. apply galt_all in Hc. rewrite lbk_alt. apply lbk_list_Forall.
    apply Forall_forall. intros x Hx. rewrite Forall_forall in Hk, Hc.
    destruct (Hc x Hx) as (g & pc' & ns' & r' & Hr). eapply Hk; eauto.
  - (* Group *) destruct IHe as [IHe _]. vl_start (Group e). cbn [visit] in Hv. rewrite Edel in Hv.
    apply bindc_inr in Hv as ([c n1] & H1 & Hv). cbn [lbk]. eapply IHe; eauto.
  - (* LookAround *) destruct IHe as [IHe IHalts]. vl_start (LookAround e la).
    destruct (match la, e with (LookBehind | LookBehindNeg), Alt _ => negb (const_size e) | _, _ => false end) eqn:Esp.
    + destruct e as [| | | | |es| | | | | | | | | | |]; try (destruct la; discriminate).
      assert (Hcs : const_size (Alt es) = false) by (destruct la; try discriminate; now apply negb_true_iff in Esp).
      cbn [alts_of] in IHalts.
      assert (Hall : Forall (fun x => lbk x /\ const_size x = true) es).
      { destruct la; try discriminate.
        - rewrite (visit_lb_split es g0 hc pc ns Hcs) in Hv.
          destruct (galt_codes (la_pos LookBehind) g0 pc ns es) as [|[cds n1]] eqn:Hc; [discriminate|].
          apply galt_all in Hc. apply Forall_forall. intros x Hx. rewrite Forall_forall in IHalts, Hc.
          destruct (la_pos_vl LookBehind x (IHalts x Hx) (Hc x Hx)) as [L1 L2]. split; auto.
        - rewrite (visit_lbn_split es g0 hc pc ns Hcs) in Hv. apply gseq_all in Hv.
          apply Forall_forall. intros x Hx. rewrite Forall_forall in IHalts, Hv.
          destruct (la_neg_vl LookBehindNeg x (IHalts x Hx) (Hv x Hx)) as [L1 L2]. split; auto. }
      assert (HAl : lbk (Alt es)).
      { rewrite lbk_alt. apply lbk_list_Forall. eapply Forall_impl; [|exact Hall]. intros a Ha; apply Ha. }
      split; [exact HAl|]. intros _. right. exists es. split; auto. eapply Forall_impl; [|exact Hall]. intros a Ha; apply Ha.
    + assert (Hlb : lb_alt_const e la).
      { destruct la; try exact I; destruct e; try exact I; cbn [lb_alt_const]; now apply negb_false_iff in Esp. }
      rewrite (visit_la e la g0 hc pc ns Hlb) in Hv. rewrite Edel in Hv.
      assert (HH : lbk e /\ (is_behind la = true -> const_size e = true)).
      { destruct la; [eapply la_pos_vl|eapply la_neg_vl|eapply la_pos_vl|eapply la_neg_vl]; eauto;
          now exists g0, pc, ns, r0. }
      destruct HH as [L1 L2]. cbn [lbk]. split; auto.
  - (* Repeat *) destruct IHe as [IHe _]. vl_start (Repeat e lo hi gr). cbn [visit] in Hv. rewrite Edel in Hv. cbn [lbk].
    repeat match type of Hv with (if ?b then _ else _) = _ => destruct b end; try discriminate;
      apply bindc_inr in Hv as ([c n1] & H1 & Hv); eapply IHe; eauto.
  - (* AtomicGroup *) destruct IHe as [IHe _]. vl_start (AtomicGroup e). cbn [visit] in Hv. rewrite Edel in Hv.
    apply bindc_inr in Hv as ([c n1] & H1 & Hv). cbn [lbk]. eapply IHe; eauto.
  - (* Conditional *) destruct IHe1 as [IH1 _]. destruct IHe2 as [IH2 _]. destruct IHe3 as [IH3 _].
    vl_start (Conditional e1 e2 e3). cbn [visit] in Hv. rewrite Edel in Hv.
    apply bindc_inr in Hv as ([cc n1] & H1 & Hv). apply bindc_inr in Hv as ([cy n2] & H2 & Hv).
    apply bindc_inr in Hv as ([cn n3] & H3 & Hv). cbn [lbk]. repeat split; [eapply IH1|eapply IH2|eapply IH3]; eauto.
Qed.

Theorem visit_lbk : forall e g hc pc ns r, visit bs e g hc pc ns = inr r -> lbk e.
Proof. intros e. apply (proj1 (visit_lbk_aux e)). Qed.

(* ... and conversely: if every look-behind body has that shape the compiler never reports
   LookBehindNotConst *)
Lemma bindc_inl {A} (m : cerr + A) f er : bindc m f = inl er -> m = inl er \/ exists x, m = inr x /\ f x = inl er.
Proof. destruct m; simpl; intros H; [left; congruence|right; eauto]. Qed.

Definition NL (e : expr) : Prop := forall g hc pc ns, lbk e -> visit bs e g hc pc ns <> inl CLookBehindNotConst.

Ltac nl_start x :=
  intros g0 hc pc ns Hk Hv;
  destruct (negb hc && negb (hard bs g0 x)) eqn:Edel;
  [rewrite (visit_short x g0 hc pc ns Edel) in Hv; discriminate|].

Definition cfnl (cf : expr -> nat -> nat -> nat -> cerr + cres) (x : expr) : Prop :=
  forall g pc ns, cf x g pc ns <> inl CLookBehindNotConst.
Lemma galt_nl cf : forall l, Forall (cfnl cf) l -> forall g pc ns, galt_codes cf g pc ns l <> inl CLookBehindNotConst.
Proof.
  induction 1 as [|x r Hx Hr IH]; intros g pc ns Hc; [discriminate|].
  destruct r as [|y r].
  - cbn [galt_codes] in Hc. destruct (cf x g pc ns) as [er|[c n1]] eqn:E; [|discriminate]. inversion Hc; subst. eapply Hx; eauto.
  - rewrite galt_codes_cons2 in Hc. destruct (cf x g (pc + 1) ns) as [er|[c n1]] eqn:E.
    + inversion Hc; subst. eapply Hx; eauto.
    + destruct (galt_codes cf _ _ _ (y :: r)) as [er|[cds n2]] eqn:E2; [|discriminate]. inversion Hc; subst. eapply IH; eauto.
Qed.
Lemma gseq_nl cf : forall l, Forall (cfnl cf) l -> forall g pc ns, gseq_codes cf g pc ns l <> inl CLookBehindNotConst.
Proof.
  induction 1 as [|x r Hx Hr IH]; intros g pc ns Hc; cbn [gseq_codes] in Hc; [discriminate|].
  apply bindc_inl in Hc as [Hc|([c1 n1] & H1 & Hc)]; [eapply Hx; eauto|].
  apply bindc_inl in Hc as [Hc|([c2 n2] & H2 & Hc)]; [eapply IH; eauto|discriminate].
Qed.

Lemma la_inner_nl la x : NL x -> lbk x -> (is_behind la = true -> const_size x = true) ->
  forall g pc ns, la_inner la x g pc ns <> inl CLookBehindNotConst.
Proof.
  intros Hx Hk Hc g pc ns Hi. destruct la; cbn [la_inner is_behind] in *; try (eapply Hx; eauto; fail);
    rewrite (Hc eq_refl) in Hi; apply bindc_inl in Hi as [Hi|([c n1] & H1 & Hi)]; try discriminate; eapply Hx; eauto.
Qed.
Lemma la_pos_nl la x : NL x -> lbk x -> (is_behind la = true -> const_size x = true) -> cfnl (la_pos la) x.
Proof.
  intros Hx Hk Hc g pc ns Hv. unfold la_pos in Hv. cbv zeta in Hv.
  apply bindc_inl in Hv as [Hv|([c n1] & H1 & Hv)]; [|discriminate]. eapply la_inner_nl; eauto.
Qed.
Lemma la_neg_nl la x : NL x -> lbk x -> (is_behind la = true -> const_size x = true) -> cfnl (la_neg la) x.
Proof.
  intros Hx Hk Hc g pc ns Hv. unfold la_neg in Hv.
  apply bindc_inl in Hv as [Hv|([c n1] & H1 & Hv)]; [|discriminate]. eapply la_inner_nl; eauto.
Qed.

Lemma visit_list_nl : forall l, Forall NL l -> lbk_list l -> forall g pc ns, visit_list g pc ns l <> inl CLookBehindNotConst.
Proof.
  induction 1 as [|x l Hx Hr IH]; intros Hk g pc ns Hv; cbn [visit_list] in Hv; [discriminate|]. destruct Hk as [K1 K2].
  apply bindc_inl in Hv as [Hv|([c1 n1] & H1 & Hv)]; [eapply Hx; eauto|].
  apply bindc_inl in Hv as [Hv|([c2 n2] & H2 & Hv)]; [eapply IH; eauto|discriminate].
Qed.

Lemma lbk_list_in l x : lbk_list l -> In x l -> lbk x.
Proof. induction l as [|y r IH]; intros H Hx; [destruct Hx|]. destruct H. destruct Hx as [<-|Hx]; auto. Qed.

Lemma visit_nl_aux : forall e, NL e /\ Forall NL (alts_of e).
Proof.
  induction e using expr_ind'.
  all: try match goal with |- NL ?e /\ Forall NL (alts_of ?e) =>
         match e with
         | Alt _ => idtac
         | _ => assert (H1 : NL e); [|split; [exact H1|constructor; [exact H1|constructor]]] end end.
  all: try (intros g0 hc pc ns Hk Hv; cbn [visit] in Hv;
            repeat match type of Hv with (if ?b then _ else _) = _ => destruct b end; discriminate).
  - (* Concat *)
    assert (Hkk : Forall NL es) by (eapply Forall_impl; [|exact H]; intros a Ha; apply Ha).
    nl_start (Concat es). rewrite visit_concat in Hv. rewrite Edel in Hv. cbv zeta in Hv.
    pose proof (cat_bounds bs hc g0 es) as Hb.
    unfold cat_pe, cat_sb in Hb. cbv zeta in Hb.
    set (pe := prefix_count bs g0 es) in *. set (sb := length es - _) in *.
    set (A := firstn pe es) in *. set (B := firstn (sb - pe) (skipn pe es)). set (C := skipn sb es) in *.
    assert (Hes : es = A ++ B ++ C).
    { unfold A, B, C. rewrite <- (firstn_skipn pe es) at 1. f_equal.
      rewrite <- (firstn_skipn (sb - pe) (skipn pe es)) at 1. f_equal. rewrite skipn_add. f_equal. lia. }
    assert (HlA : length A = pe) by (unfold A; apply firstn_length_le; lia).
    assert (HlB : length B = sb - pe) by (unfold B; apply firstn_length_le; rewrite skipn_length; lia).
    apply bindc_inl in Hv as [Hm|([cm ns1] & Hm & Hv)]; [|discriminate].
    rewrite Hes in Hm. rewrite (mid_before pe sb (B ++ C) _ ns A 0 g0) in Hm by lia.
    rewrite (mid_mid pe sb C B) in Hm by lia.
    rewrite lbk_concat, Hes in Hk. apply lbk_list_app in Hk as [_ Hk]. apply lbk_list_app in Hk as [HkB _].
    rewrite Hes in Hkk. apply Forall_app in Hkk as [_ Hkk]. apply Forall_app in Hkk as [HB _].
    eapply visit_list_nl; eauto.
  - (* Alt *)
    assert (Hkk : Forall NL es) by (eapply Forall_impl; [|exact H]; intros a Ha; apply Ha).
    split; [|exact Hkk]. nl_start (Alt es). rewrite visit_alt in Hv. rewrite Edel in Hv.
    destruct (alt_codes hc g0 pc ns es) as [er|[cds n1]] eqn:Hc; [|discriminate]. inversion Hv; subst.
    rewrite alt_codes_galt in Hc. rewrite lbk_alt in Hk.
    eapply (galt_nl (fun x g pc ns => visit bs x g hc pc ns) es); [|exact Hc].
    apply Forall_forall. intros x Hx g pc0 ns0 Hv0. rewrite Forall_forall in Hkk.
    eapply (Hkk x Hx); eauto. eapply lbk_list_in; eauto.
  - (* Group *) destruct IHe as [IHe _]. nl_start (Group e). cbn [visit] in Hv. rewrite Edel in Hv. cbn [lbk] in Hk.
    apply bindc_inl in Hv as [Hv|([c n1] & H1 & Hv)]; [eapply IHe; eauto|discriminate].
  - (* LookAround *) destruct IHe as [IHe IHalts]. nl_start (LookAround e la). cbn [lbk] in Hk. destruct Hk as [Hk Hshape].
    destruct (match la, e with (LookBehind | LookBehindNeg), Alt _ => negb (const_size e) | _, _ => false end) eqn:Esp.
    + destruct e as [| | | | |es| | | | | | | | | | |]; try (destruct la; discriminate).
      assert (Hcs : const_size (Alt es) = false) by (destruct la; try discriminate; now apply negb_true_iff in Esp).
      assert (Hbeh : is_behind la = true) by (destruct la; try discriminate; reflexivity).
      destruct (Hshape Hbeh) as [Hc|(es' & E' & Hall)]; [congruence|]. inversion E'; subst es'.
      cbn [alts_of] in IHalts. rewrite lbk_alt in Hk.
      destruct la; try discriminate.
      * rewrite (visit_lb_split es g0 hc pc ns Hcs) in Hv.
        destruct (galt_codes (la_pos LookBehind) g0 pc ns es) as [er|[cds n1]] eqn:Hc; [|discriminate]. inversion Hv; subst.
        eapply (galt_nl (la_pos LookBehind) es); [|exact Hc].
        apply Forall_forall. intros x Hx. rewrite Forall_forall in IHalts, Hall.
        apply la_pos_nl; [apply IHalts; auto|eapply lbk_list_in; eauto|intros _; apply Hall; auto].
      * rewrite (visit_lbn_split es g0 hc pc ns Hcs) in Hv. eapply (gseq_nl (la_neg LookBehindNeg) es); [|exact Hv].
        apply Forall_forall. intros x Hx. rewrite Forall_forall in IHalts, Hall.
        apply la_neg_nl; [apply IHalts; auto|eapply lbk_list_in; eauto|intros _; apply Hall; auto].
    + assert (Hlb : lb_alt_const e la).
      { destruct la; try exact I; destruct e; try exact I; cbn [lb_alt_const]; now apply negb_false_iff in Esp. }
      rewrite (visit_la e la g0 hc pc ns Hlb) in Hv. rewrite Edel in Hv.
      assert (Hcst : is_behind la = true -> const_size e = true).
      { intros Hb. destruct (Hshape Hb) as [Hc|(es' & -> & Hall)]; [exact Hc|]. destruct la; try discriminate; exact Hlb. }
      destruct la; [eapply la_pos_nl|eapply la_neg_nl|eapply la_pos_nl|eapply la_neg_nl]; eauto.
  - (* Repeat *) destruct IHe as [IHe _]. nl_start (Repeat e lo hi gr). cbn [visit] in Hv. rewrite Edel in Hv. cbn [lbk] in Hk.
    repeat match type of Hv with (if ?b then _ else _) = _ => destruct b end; try discriminate;
      (apply bindc_inl in Hv as [Hv|([c n1] & H1 & Hv)]; [eapply IHe; eauto|discriminate]).
  - (* AtomicGroup *) destruct IHe as [IHe _]. nl_start (AtomicGroup e). cbn [visit] in Hv. rewrite Edel in Hv. cbn [lbk] in Hk.
    apply bindc_inl in Hv as [Hv|([c n1] & H1 & Hv)]; [eapply IHe; eauto|discriminate].
  - (* Conditional *) destruct IHe1 as [IH1 _]. destruct IHe2 as [IH2 _]. destruct IHe3 as [IH3 _].
    nl_start (Conditional e1 e2 e3). cbn [visit] in Hv. rewrite Edel in Hv. cbn [lbk] in Hk. destruct Hk as (K1 & K2 & K3).
    apply bindc_inl in Hv as [Hv|([cc n1] & H1 & Hv)]; [eapply IH1; eauto|].
    apply bindc_inl in Hv as [Hv|([cy n2] & H2 & Hv)]; [eapply IH2; eauto|].
    apply bindc_inl in Hv as [Hv|([cn n3] & H3 & Hv)]; [eapply IH3; eauto|discriminate].
Qed.

Theorem visit_not_lbnc : forall e g hc pc ns, lbk e -> visit bs e g hc pc ns <> inl CLookBehindNotConst.
Proof. intros e. apply (proj1 (visit_nl_aux e)). Qed.

End D.

End CC.
