(* WsProofs.v — free-spacing: under (?x) a run of whitespace of ANY length is skipped at a token
   boundary; without (?x) nothing but a (?#...) comment is. *)
From FR Require Import Base Ast Parse.

Definition is_ws (b : nat) : bool := (b =? 32) || (b =? 13) || (b =? 10) || (b =? 9).

Lemma is_ws_not_hash b : is_ws b = true -> (b =? 35) = false.
Proof.
  unfold is_ws. intros H. apply Nat.eqb_neq. intros ->. discriminate.
Qed.

Theorem whitespace_skipped : forall re fl, f_space fl = true -> forall n ix fuel,
  (forall k, k < n -> exists b, nth_error re (ix + k) = Some b /\ is_ws b = true) ->
  (ix + n = length re \/
   exists b, nth_error re (ix + n) = Some b /\ is_ws b = false /\ b <> 35 /\ b <> 40) ->
  n < fuel ->
  optional_whitespace re fuel fl (ix) = POk (ix + n).
Proof.
  intros re fl Hx. induction n as [|n IH]; intros ix fuel Hbody Hstop Hf.
  - rewrite Nat.add_0_r in *. destruct fuel as [|f]; [lia|]. cbn [optional_whitespace].
    destruct Hstop as [He|(b & Hb & Hw & H35 & H40)].
    + rewrite He, Nat.eqb_refl. reflexivity.
    + assert (Hlt : ix < length re) by (apply nth_error_Some; congruence).
      destruct (Nat.eqb_spec ix (length re)); [lia|]. unfold byte. rewrite Hb.
      apply Nat.eqb_neq in H35. apply Nat.eqb_neq in H40. rewrite H35, H40. cbn [andb].
      unfold is_ws in Hw. rewrite Hw. reflexivity.
  - destruct fuel as [|f]; [lia|]. cbn [optional_whitespace].
    destruct (Hbody 0 ltac:(lia)) as (b & Hb & Hw). rewrite Nat.add_0_r in Hb.
    assert (Hlt : ix < length re) by (apply nth_error_Some; congruence).
    destruct (Nat.eqb_spec ix (length re)); [lia|]. unfold byte. rewrite Hb.
    rewrite (is_ws_not_hash b Hw). cbn [andb]. unfold is_ws in Hw. rewrite Hw, Hx. cbn [andb].
    replace (ix + S n) with (ix + 1 + n) by lia. apply IH; [| |lia].
    + intros k Hk. destruct (Hbody (S k) ltac:(lia)) as (b' & Hb' & Hw'). exists b'.
      replace (ix + 1 + k) with (ix + S k) by lia. auto.
    + replace (ix + 1 + n) with (ix + S n) by lia. exact Hstop.
Qed.

(* without (?x): whitespace and '#' are ordinary characters, the position does not move *)
Theorem whitespace_kept : forall re fl, f_space fl = false -> forall ix fuel b,
  nth_error re ix = Some b -> b <> 40 -> optional_whitespace re (S fuel) fl ix = POk ix.
Proof.
  intros re fl Hx ix fuel b Hb H40. cbn [optional_whitespace].
  assert (Hlt : ix < length re) by (apply nth_error_Some; congruence).
  destruct (Nat.eqb_spec ix (length re)); [lia|]. unfold byte. rewrite Hb, Hx.
  rewrite !Bool.andb_false_r. apply Nat.eqb_neq in H40. rewrite H40. reflexivity.
Qed.

(* a '#' comment under (?x) runs to the FIRST newline (or to the end of the pattern) *)
Lemma find_nl_spec : forall l x, find_nl l = Some x ->
  nth_error l x = Some 10 /\ forall k, k < x -> nth_error l k <> Some 10.
Proof.
  induction l as [|b r IH]; intros x H; [discriminate|]. cbn [find_nl] in H.
  destruct (Nat.eqb_spec b 10) as [->|Hne].
  - inversion H; subst. split; [reflexivity|]. intros k Hk. lia.
  - destruct (find_nl r) as [y|] eqn:E; [|discriminate]. cbn in H. inversion H; subst.
    destruct (IH y eq_refl) as [H1 H2]. split; [exact H1|].
    intros [|k] Hk; cbn [nth_error]; [congruence|]. apply H2. lia.
Qed.
Lemma find_nl_none : forall l, find_nl l = None -> ~ In 10 l.
Proof.
  induction l as [|b r IH]; intros H; [tauto|]. cbn [find_nl] in H.
  destruct (Nat.eqb_spec b 10) as [->|Hne]; [discriminate|].
  destruct (find_nl r) eqn:E; [discriminate|]. intros [Hi|Hi]; [congruence|]. now apply IH.
Qed.

Theorem line_comment_skipped : forall re fl, f_space fl = true -> forall ix fuel x,
  nth_error re ix = Some 35 -> find_nl (skipn ix re) = Some x ->
  optional_whitespace re (S fuel) fl ix = optional_whitespace re fuel fl (ix + x + 1).
Proof.
  intros re fl Hx ix fuel x Hb Hnl. cbn [optional_whitespace].
  assert (Hlt : ix < length re) by (apply nth_error_Some; congruence).
  destruct (Nat.eqb_spec ix (length re)); [lia|]. unfold byte. rewrite Hb, Hx.
  change ((35 =? 35) && true) with true. cbv iota. unfold from. rewrite Hnl. reflexivity.
Qed.
Theorem line_comment_to_end : forall re fl, f_space fl = true -> forall ix fuel,
  nth_error re ix = Some 35 -> find_nl (skipn ix re) = None ->
  optional_whitespace re (S fuel) fl ix = POk (length re).
Proof.
  intros re fl Hx ix fuel Hb Hnl. cbn [optional_whitespace].
  assert (Hlt : ix < length re) by (apply nth_error_Some; congruence).
  destruct (Nat.eqb_spec ix (length re)); [lia|]. unfold byte. rewrite Hb, Hx.
  change ((35 =? 35) && true) with true. cbv iota. unfold from. rewrite Hnl. reflexivity.
Qed.
