(* Det.v — "deterministic" blocks: expressions built from leaves (any character, assertions,
   literals incl. case-insensitive ones, character classes, the \Z helper) by concatenation.
   From a given offset they have at most one result, and neither that result's offset nor its
   existence depends on the capture vector, the fuel or the group offset; they capture nothing. *)
From FR Require Import Base Utf8 Ast Analyze Sem ExprLemmas SemSound Scope.
From Coq Require Import Lia NArith.

Lemma det_concat es : det (Concat es) = forallb det es.
Proof. induction es as [|x r IH]; [reflexivity|]. cbn [forallb]. rewrite <- IH. reflexivity. Qed.

Section Det.
Variable cx : ctx.

Definition one (r : option nat) (caps : list val) : list sst :=
  match r with Some j => [(j, caps)] | None => [] end.

Lemma det_sem : forall e, det e = true -> forall ix, exists r, forall fu g caps,
  sem cx e fu g (ix, caps) = one r caps.
Proof.
  induction e using expr_ind'; intros Hd ix; try discriminate.
  - exists (Some ix). reflexivity.
  - exists (match nth_error (c_text cx) ix with
            | Some b => if nl || negb (b =? 10) then Some (ix + cp_len b) else None | None => None end).
    intros fu g caps. cbn [sem]. destruct (nth_error (c_text cx) ix); [destruct (nl || negb (n =? 10))|]; reflexivity.
  - exists (if assert_holds cx a ix then Some ix else None). intros fu g caps. cbn [sem].
    destruct (assert_holds cx a ix); reflexivity.
  - exists (if c then lit_ci cx (cps_of (length v) v 0) ix
            else if lit_at (c_text cx) ix v then Some (ix + length v) else None).
    intros fu g caps. cbn [sem]. destruct c; [destruct (lit_ci cx _ ix)|destruct (lit_at _ ix v)]; reflexivity.
  - rewrite det_concat in Hd.
    assert (Hl : forall ix, exists r, forall fu g caps, sem_cat cx fu g es (ix, caps) = one r caps).
    { clear ix. induction H as [|x r Hx Hr IH]; intros ix.
      - exists (Some ix). reflexivity.
      - cbn [forallb] in Hd. apply andb_true_iff in Hd as [Hdx Hdr].
        destruct (Hx Hdx ix) as [rx Ex]. destruct rx as [j|].
        + destruct (IH Hdr j) as [r' Er]. exists r'. intros fu g caps. cbn [sem_cat]. rewrite Ex. cbn [one flat_map].
          rewrite Er. apply app_nil_r.
        + exists None. intros fu g caps. cbn [sem_cat]. rewrite Ex. reflexivity. }
    destruct (Hl ix) as [r Er]. exists r. intros fu g caps. rewrite sem_concat_eq. apply Er.
  - destruct k.
    + exists (match decode_at (c_text cx) ix with
              | Some (cp, len) => if existsb (Nat.eqb cp) cps then Some (ix + len) else None | None => None end).
      intros fu g caps. cbn [sem]. destruct (decode_at (c_text cx) ix) as [[cp len]|]; [destruct (existsb _ cps)|]; reflexivity.
    + exists (if (ix <=? length (c_text cx)) && only_newlines_from cx ix then Some (length (c_text cx)) else None).
      intros fu g caps. cbn [sem]. destruct ((ix <=? length (c_text cx)) && only_newlines_from cx ix); reflexivity.
Qed.

Lemma det_ngroups : forall e, det e = true -> ngroups e = 0.
Proof.
  induction e using expr_ind'; intros Hd; try discriminate; try reflexivity.
  rewrite det_concat in Hd. rewrite ngroups_concat. induction H as [|x r Hx Hr IH]; [reflexivity|].
  cbn [forallb] in Hd. apply andb_true_iff in Hd as [Hdx Hdr].
  change (ngroups_list (x :: r)) with (ngroups x + ngroups_list r). rewrite Hx, IH; auto.
Qed.

End Det.
