(* ApiTotal.v — the step budget of the API-layer theorems exists.  The theorems of ApiVm.v about
   find_iter / split / splitn / replacen over a VM-compiled regex assume that the model's step
   budget is large enough for the searches that start at a character boundary.  Termination of
   the VM loop (Terminates.v) gives such a budget for each start offset and flag; there are
   finitely many of them, so one budget serves the whole iteration.  The corollaries at the end
   therefore speak about the iterators with NO assumption on the budget: from some budget on. *)
From FR Require Import Base State Utf8 Utf8Facts Chars Ast Analyze Sem ExprLemmas SemSound Vm Compile
                       CompileCorrect EndToEnd Terminates KeepOut Api ApiProofs ApiVm.
From Coq Require Import Lia NArith.

(* finitely many eventually-true families are eventually true together *)
Lemma eventually_all {A} (P : A -> nat -> Prop) (l : list A) :
  (forall x, In x l -> exists n, forall m, n <= m -> P x m) ->
  exists n, forall m, n <= m -> forall x, In x l -> P x m.
Proof.
  induction l as [|a l IH]; intros H.
  - exists 0. intros m _ x [].
  - destruct (H a (or_introl eq_refl)) as [na Ha].
    destruct (IH (fun x Hx => H x (or_intror Hx))) as [nl Hl].
    exists (Nat.max na nl). intros m Hm x [<-|Hx]; [apply Ha; lia|apply Hl; [lia|exact Hx]].
Qed.

Section Budget.
Variable cs : list (list nat).
Variable bs : N -> bool.
Variable e : expr.
Variable p : prog.
Hypothesis HS : VmScope cs bs e p.
Variable ng : nat.
Variables (max_st : nat) (limit : option N).
Notation tx := (concat cs).

Theorem vm_budget : exists n0, forall fuelv, n0 <= fuelv ->
  forall pos f, is_boundary tx pos = true -> vsearch cs p ng max_st limit fuelv pos f <> SErr EFuel.
Proof.
  destruct HS as (W & Hl & Hc & Ho & Hr & Hk).
  set (starts := list_prod (seq 0 (S (length tx))) [true; false]).
  destruct (eventually_all (fun (x : nat * bool) fuelv =>
              is_boundary tx (fst x) = true -> vsearch cs p ng max_st limit fuelv (fst x) (snd x) <> SErr EFuel) starts) as [n0 Hn0].
  { intros [pos f] _. cbn [fst snd]. destruct (is_boundary tx pos) eqn:Eb; [|exists 0; intros; discriminate].
    pose proof (is_boundary_bnd cs W pos Eb) as Hb.
    destruct (vm_terminates cs W {| c_text := tx; c_pos := pos; c_skipped := f |} eq_refl Hl Hb bs e p Hc Ho max_st limit) as [n Hn].
    exists n. intros m Hm _. specialize (Hn m Hm). unfold vsearch, regex_search.
    destruct (fst (vm_run _ p max_st limit m)); try contradiction; discriminate. }
  exists n0. intros fuelv Hf pos f Hb. apply (Hn0 fuelv Hf (pos, f)); [|exact Hb].
  apply in_prod_iff. split; [|destruct f; cbn; auto].
  apply in_seq. unfold is_boundary in Hb. destruct (Nat.eqb_spec pos (length tx)); [lia|].
  destruct (nth_error tx pos) eqn:E; [|discriminate]. assert (pos < length tx) by (apply nth_error_Some; congruence). lia.
Qed.
End Budget.

(* ---------- the API-layer theorems without a budget assumption ---------- *)
Section Total.
Variable cs : list (list nat).
Variable bs : N -> bool.
Variable e : expr.
Variable p : prog.
Hypothesis HS : VmScope cs bs e p.
Variable ng : nat.
Variables (max_st : nat) (limit : option N).
Notation tx := (concat cs).

Definition find_iter_ok (fuelv : nat) : Prop :=
  forall n, chain tx 0 (collect tx (vsearch cs p ng max_st limit fuelv) n m_init) /\
            (length (collect tx (vsearch cs p ng max_st limit fuelv) n m_init) <= length tx + 2) /\
            (no_err (collect tx (vsearch cs p ng max_st limit fuelv) n m_init) ->
             spans (collect tx (vsearch cs p ng max_st limit fuelv) n m_init) = spans (collect tx (rsearch cs e) n m_init)).
Definition split_ok (fuelv : nat) : Prop :=
  forall n, split_collect tx (vsearch cs p ng max_st limit fuelv) n sp_init =
            firstn n (pieces tx 0 (vm_matches cs p ng max_st limit fuelv)) /\
            Forall (fun pc => pc <> PcPanic) (split_collect tx (vsearch cs p ng max_st limit fuelv) n sp_init).
Definition replacen_ok (fuelv : nat) : Prop :=
  forall rep lim,
     try_replacen tx rep (mnext tx (vsearch cs p ng max_st limit fuelv)) lim =
       match vm_matches cs p ng max_st limit fuelv with
       | [] => RBorrowed
       | _ => rspec tx rep lim 0 0 (vm_matches cs p ng max_st limit fuelv) []
       end /\
     try_replacen tx rep (mnext tx (vsearch cs p ng max_st limit fuelv)) lim <> RPanicR.

(* find_iter: valid, sorted, non-overlapping spans, the reference iteration unless an error is
   reported; split: the pieces between the matches, never a panic; try_replacen: the specification
   over the match sequence, never a panic - from some step budget on *)
Theorem vm_api_total : exists n0, forall fuelv, n0 <= fuelv ->
  find_iter_ok fuelv /\ split_ok fuelv /\ replacen_ok fuelv.
Proof.
  destruct (vm_budget cs bs e p HS ng max_st limit) as [n0 Hn0]. exists n0. intros fuelv Hf.
  specialize (Hn0 fuelv Hf). destruct HS as (W & Hl & Hc & Ho & Hr & Hk).
  split; [|split].
  - intros n. split; [eapply vm_find_iter_chain; eauto|]. split; [eapply vm_find_iter_length; eauto|].
    intros Hne. eapply vm_find_iter_is_reference; eauto. apply bst_init.
  - intros n. split; [eapply vm_split_pieces; eauto|eapply vm_split_no_panic; eauto].
  - intros rep lim. split; [eapply vm_replacen; eauto|eapply vm_replace_no_panic; eauto].
Qed.
End Total.
