(* Machine.v — the reference machine as a small-step system over explicit configurations, driven
   by the SAME generic interpreter (gexec_insn) instantiated with an unbounded branch stack, and
   the generator judgement [Gen] used by the compiler-correctness induction. *)
From FR Require Import Base State Utf8 Ast Analyze Sem Vm StateRefine VmRefine SemK Scope Det.
From Coq Require Import Lia NArith.

(* the reference machine without the stack bound *)
Definition r_push_u (r : rstate) (pc ix : nat) : option rstate :=
  Some {| r_slots := r_slots r; r_aux := r_aux r;
          r_alts := {| a_pc := pc; a_ix := ix; a_slots := r_slots r; a_aux := r_aux r |} :: r_alts r;
          r_max := r_max r |}.

Definition iface1u : iface rstate :=
  {| i_push := r_push_u; i_pop := r_pop; i_save := r_save; i_get := r_get;
     i_spush := r_spush; i_spop := r_spop; i_count := r_count; i_cut := r_cut;
     i_result := r_slots |}.

Inductive cfg :=
| Run (pc ix : nat) (sl aux : list val) (K : list alt)
| Fail (K : list alt)
| Halt (o : outcome).

Section Machine.
Variable cx : ctx.
Variable P : list insn.
Variable M : nat.                       (* the stack bound: carried, never read by this machine *)
Let t := c_text cx.

Definition mkr (sl aux : list val) (K : list alt) : rstate :=
  {| r_slots := sl; r_aux := aux; r_alts := K; r_max := M |}.

Definition mstep (c : cfg) : cfg :=
  match c with
  | Run pc ix sl aux K =>
      match nth_error P pc with
      | None => Halt RPanic
      | Some i =>
          match gexec_insn cx rstate iface1u i pc ix (mkr sl aux K) with
          | INext pc' ix' r' => Run pc' ix' (r_slots r') (r_aux r') (r_alts r')
          | IFailed r' => Fail (r_alts r')
          | IDone sv => Halt (RMatch sv)
          | IStackOverflow => Halt RErrStack
          | IPanicked => Halt RPanic
          end
      end
  | Fail K =>
      match K with
      | [] => Halt RNoMatch
      | a :: rest => Run (a_pc a) (a_ix a) (a_slots a) (a_aux a) rest
      end
  | Halt o => Halt o
  end.

Inductive steps : cfg -> cfg -> Prop :=
| steps_refl c : steps c c
| steps_cons c c' : steps (mstep c) c' -> steps c c'.

Lemma steps_trans a b c : steps a b -> steps b c -> steps a c.
Proof. induction 1; auto. intros. apply steps_cons. auto. Qed.
Lemma steps_one c : steps c (mstep c).
Proof. apply steps_cons, steps_refl. Qed.
Lemma steps_step c c' : mstep c = c' -> steps c c'.
Proof. intros <-. apply steps_one. Qed.

Definition at_ (pc : nat) (i : insn) : Prop := nth_error P pc = Some i.

Ltac red1u := cbn [iface1u i_push i_pop i_save i_get i_spush i_spop i_count i_cut i_result
                   mkr r_slots r_aux r_alts r_max] in *.

(* ---------- one lemma per instruction behaviour ---------- *)

Lemma r_save_ok sl aux K k v : k < length sl -> r_save (mkr sl aux K) k v = Some (mkr (upd sl k v) aux K).
Proof.
  intros H. unfold r_save, r_op. cbn [rexec mkr r_slots]. destruct (Nat.ltb_spec k (length sl)); [reflexivity|lia].
Qed.

Lemma st_pop_fail K : mstep (Fail K) = match K with [] => Halt RNoMatch
                                       | a :: rest => Run (a_pc a) (a_ix a) (a_slots a) (a_aux a) rest end.
Proof. reflexivity. Qed.

Lemma step_any pc ix sl aux K b : at_ pc IAny -> nth_error t ix = Some b ->
  mstep (Run pc ix sl aux K) = Run (S pc) (ix + cp_len b) sl aux K.
Proof. intros H E. unfold mstep. rewrite H. cbn [gexec_insn]. fold t. rewrite E. reflexivity. Qed.
Lemma step_any_no pc ix sl aux K : at_ pc IAny -> nth_error t ix = None ->
  mstep (Run pc ix sl aux K) = Fail K.
Proof. intros H E. unfold mstep. rewrite H. cbn [gexec_insn]. fold t. rewrite E. reflexivity. Qed.
Lemma step_anynl pc ix sl aux K b : at_ pc IAnyNoNL -> nth_error t ix = Some b -> (b =? 10) = false ->
  mstep (Run pc ix sl aux K) = Run (S pc) (ix + cp_len b) sl aux K.
Proof. intros H E Hb. unfold mstep. rewrite H. cbn [gexec_insn]. fold t. rewrite E, Hb. reflexivity. Qed.
Lemma step_anynl_no pc ix sl aux K : at_ pc IAnyNoNL ->
  match nth_error t ix with Some b => (b =? 10) = true | None => True end ->
  mstep (Run pc ix sl aux K) = Fail K.
Proof.
  intros H E. unfold mstep. rewrite H. cbn [gexec_insn]. fold t.
  destruct (nth_error t ix); [rewrite E|]; reflexivity.
Qed.
Lemma step_assert pc ix sl aux K a : at_ pc (IAssertion a) ->
  mstep (Run pc ix sl aux K) = if assert_holds cx a ix then Run (S pc) ix sl aux K else Fail K.
Proof. intros H. unfold mstep. rewrite H. cbn [gexec_insn]. destruct (assert_holds cx a ix); reflexivity. Qed.
Lemma step_lit pc ix sl aux K v : at_ pc (ILit v) ->
  mstep (Run pc ix sl aux K) = if lit_at t ix v then Run (S pc) (ix + length v) sl aux K else Fail K.
Proof. intros H. unfold mstep. rewrite H. cbn [gexec_insn]. fold t. destruct (lit_at t ix v); reflexivity. Qed.
Lemma step_split pc ix sl aux K x y : at_ pc (ISplit x y) ->
  mstep (Run pc ix sl aux K) = Run x ix sl aux ({| a_pc := y; a_ix := ix; a_slots := sl; a_aux := aux |} :: K).
Proof. intros H. unfold mstep. rewrite H. reflexivity. Qed.
Lemma step_jmp pc ix sl aux K tg : at_ pc (IJmp tg) -> mstep (Run pc ix sl aux K) = Run tg ix sl aux K.
Proof. intros H. unfold mstep. rewrite H. reflexivity. Qed.
Lemma step_save pc ix sl aux K k : at_ pc (ISave k) -> k < length sl ->
  mstep (Run pc ix sl aux K) = Run (S pc) ix (upd sl k (V ix)) aux K.
Proof.
  intros H Hk. unfold mstep. rewrite H. cbn [gexec_insn]. unfold save_or_panic. red1u.
  fold (mkr sl aux K). rewrite r_save_ok by auto. reflexivity.
Qed.
Lemma step_save0 pc ix sl aux K k : at_ pc (ISave0 k) -> k < length sl ->
  mstep (Run pc ix sl aux K) = Run (S pc) ix (upd sl k (V 0)) aux K.
Proof.
  intros H Hk. unfold mstep. rewrite H. cbn [gexec_insn]. unfold save_or_panic. red1u.
  fold (mkr sl aux K). rewrite r_save_ok by auto. reflexivity.
Qed.
Lemma step_restore pc ix sl aux K k v : at_ pc (IRestore k) -> nth_error sl k = Some (V v) ->
  mstep (Run pc ix sl aux K) = Run (S pc) v sl aux K.
Proof. intros H E. unfold mstep. rewrite H. cbn [gexec_insn]. red1u. unfold r_get, mkr. cbn [r_slots]. rewrite E. reflexivity. Qed.

Lemma step_begin pc ix sl aux K : at_ pc IBeginAtomic ->
  mstep (Run pc ix sl aux K) = Run (S pc) ix sl (aux ++ [V (length K)]) K.
Proof. intros H. unfold mstep. rewrite H. reflexivity. Qed.

Lemma step_end pc ix sl aux K c : at_ pc IEndAtomic -> c <= length K ->
  mstep (Run pc ix sl (aux ++ [V c]) K) = Run (S pc) ix sl aux (skipn (length K - c) K).
Proof.
  intros H Hc. unfold mstep. rewrite H. cbn [gexec_insn]. red1u.
  unfold r_spop, mkr. cbn [rexec r_aux]. rewrite rev_app_distr. cbn [rev app]. rewrite rev_involutive.
  cbn [r_slots r_alts r_max]. unfold r_cut, r_op. cbn [rexec r_alts r_slots r_aux r_max].
  destruct (Nat.ltb_spec (length K) c); [lia|]. reflexivity.
Qed.

Lemma step_contg pc ix sl aux K : at_ pc IContinueFromPreviousMatchEnd ->
  mstep (Run pc ix sl aux K) =
  if negb (ix =? c_pos cx) || c_skipped cx then Fail K else Run (S pc) ix sl aux K.
Proof. intros H. unfold mstep. rewrite H. cbn [gexec_insn]. destruct (negb (ix =? c_pos cx) || c_skipped cx); reflexivity. Qed.

Lemma step_bec pc ix sl aux K g v : at_ pc (IBackrefExistsCondition g) ->
  nth_error sl (2 * N.to_nat g) = Some v ->
  mstep (Run pc ix sl aux K) = match v with MAXV => Fail K | V _ => Run (S pc) ix sl aux K end.
Proof.
  intros H E. unfold mstep. rewrite H. cbn [gexec_insn]. red1u. unfold r_get, mkr. cbn [r_slots].
  rewrite E. destruct v; reflexivity.
Qed.

Lemma step_goback pc ix sl aux K cnt : at_ pc (IGoBack cnt) ->
  mstep (Run pc ix sl aux K) =
  match goback cx ix cnt ix with
  | GBOk j => Run (S pc) j sl aux K
  | GBFail => Fail K
  | GBPanic => Halt RPanic
  end.
Proof. intros H. unfold mstep. rewrite H. cbn [gexec_insn]. destruct (goback cx ix cnt ix); reflexivity. Qed.

Lemma step_backref pc ix sl aux K slot lo hi : at_ pc (IBackref slot) ->
  nth_error sl slot = Some (V lo) -> nth_error sl (S slot) = Some (V hi) -> lo <= hi ->
  (hi <=? length t) && is_boundary t lo && is_boundary t hi = true ->
  mstep (Run pc ix sl aux K) =
  if lit_at t ix (slice t lo hi) then Run (S pc) (ix + (hi - lo)) sl aux K else Fail K.
Proof.
  intros H E1 E2 Hle Hb. unfold mstep. rewrite H. cbn [gexec_insn]. red1u. unfold r_get, mkr. cbn [r_slots].
  rewrite E1, E2. destruct (Nat.ltb_spec hi lo); [lia|]. fold t. rewrite Hb.
  destruct (lit_at t ix (slice t lo hi)); reflexivity.
Qed.
Lemma step_backref_unset pc ix sl aux K slot v1 v2 : at_ pc (IBackref slot) ->
  nth_error sl slot = Some v1 -> nth_error sl (S slot) = Some v2 ->
  (v1 = MAXV \/ v2 = MAXV \/ exists lo hi, v1 = V lo /\ v2 = V hi /\ hi < lo) ->
  mstep (Run pc ix sl aux K) = Fail K.
Proof.
  intros H E1 E2 Hc. unfold mstep. rewrite H. cbn [gexec_insn]. red1u. unfold r_get, mkr. cbn [r_slots].
  rewrite E1, E2. destruct Hc as [->|[->|(lo & hi & -> & -> & Hlt)]].
  - reflexivity.
  - destruct v1; reflexivity.
  - destruct (Nat.ltb_spec hi lo); [reflexivity|lia].
Qed.

Lemma step_endinsn pc ix sl aux K : at_ pc IEnd -> 2 <= length sl ->
  exists sv, mstep (Run pc ix sl aux K) = Halt (RMatch sv) /\ length sv = length sl /\
             forall n, 2 <= n -> firstn n sv = end_fix (firstn n sl).
Proof.
  intros H Hl. unfold mstep. rewrite H. cbn [gexec_insn]. red1u. unfold r_get, mkr at 1 2. cbn [r_slots].
  destruct sl as [|s0 [|s1 rest]]; cbn [length] in Hl; try lia. cbn [nth_error].
  assert (Hf : forall (x y : val) n, 2 <= n -> firstn n (x :: y :: rest) = x :: y :: firstn (n - 2) rest).
  { intros x y n Hn. destruct n as [|[|n]]; try lia. cbn [firstn]. repeat f_equal. lia. }
  destruct s0 as [a|], s1 as [b|].
  - destruct (b <? a) eqn:Eb.
    + rewrite r_save_ok by (cbn [length]; lia). cbn [upd mkr r_slots]. eexists; split; [reflexivity|]. split; [reflexivity|].
      intros n Hn. rewrite !Hf by auto. unfold end_fix, getcap. cbn [nth_error]. rewrite Eb. reflexivity.
    + eexists; split; [reflexivity|]. split; [reflexivity|].
      intros n Hn. rewrite !Hf by auto. unfold end_fix, getcap. cbn [nth_error]. rewrite Eb. reflexivity.
  - eexists; split; [reflexivity|]. split; [reflexivity|].
    intros n Hn. rewrite !Hf by auto. reflexivity.
  - rewrite r_save_ok by (cbn [length]; lia). cbn [upd mkr r_slots]. eexists; split; [reflexivity|]. split; [reflexivity|].
    intros n Hn. rewrite !Hf by auto. reflexivity.
  - eexists; split; [reflexivity|]. split; [reflexivity|].
    intros n Hn. rewrite !Hf by auto. reflexivity.
Qed.

(* a Delegate instruction over a deterministic, capture-free block: one step, the block's result *)
Lemma step_delegate_det pc ix sl aux K es sg eg : at_ pc (IDelegate es sg eg) -> eg = sg ->
  forallb det es = true ->
  exists r, (forall fu g caps, sem cx (Concat es) fu g (ix, caps) = one r caps) /\
            mstep (Run pc ix sl aux K) = match r with Some j => Run (S pc) j sl aux K | None => Fail K end.
Proof.
  intros H -> Hd. rewrite <- det_concat in Hd. destruct (det_sem cx (Concat es) Hd ix) as [r Hr].
  exists r. split; [exact Hr|]. unfold mstep. rewrite H. cbn [gexec_insn]. unfold oracle.
  rewrite semk_sem, Hr, Nat.eqb_refl. destruct r; reflexivity.
Qed.

Definition mk_alt_ (pc ix : nat) (sl aux : list val) : alt := {| a_pc := pc; a_ix := ix; a_slots := sl; a_aux := aux |}.

Lemma nth_error_lt {A} (l : list A) k x : nth_error l k = Some x -> k < length l.
Proof. intros H. apply nth_error_Some. congruence. Qed.

Lemma step_repeat_gr pc ix sl aux K lo hi next rep c : at_ pc (IRepeatGr lo hi next rep) ->
  nth_error sl rep = Some (V c) ->
  mstep (Run pc ix sl aux K) =
  if N.eqb (N.of_nat c) hi then Run next ix sl aux K else
  let sl1 := upd sl rep (V (c + 1)) in
  if N.leb lo (N.of_nat c) then Run (S pc) ix sl1 aux (mk_alt_ next ix sl1 aux :: K)
  else Run (S pc) ix sl1 aux K.
Proof.
  intros H E. unfold mstep. rewrite H. cbn [gexec_insn]. red1u. unfold r_get, mkr at 1. cbn [r_slots]. rewrite E.
  destruct (N.eqb (N.of_nat c) hi); [reflexivity|]. unfold save_or_panic. red1u.
  rewrite r_save_ok by (eapply nth_error_lt; eauto).
  destruct (N.leb lo (N.of_nat c)); reflexivity.
Qed.

Lemma step_repeat_ng pc ix sl aux K lo hi next rep c : at_ pc (IRepeatNg lo hi next rep) ->
  nth_error sl rep = Some (V c) ->
  mstep (Run pc ix sl aux K) =
  if N.eqb (N.of_nat c) hi then Run next ix sl aux K else
  let sl1 := upd sl rep (V (c + 1)) in
  if N.leb lo (N.of_nat c) then Run next ix sl1 aux (mk_alt_ (S pc) ix sl1 aux :: K)
  else Run (S pc) ix sl1 aux K.
Proof.
  intros H E. unfold mstep. rewrite H. cbn [gexec_insn]. red1u. unfold r_get, mkr at 1. cbn [r_slots]. rewrite E.
  destruct (N.eqb (N.of_nat c) hi); [reflexivity|]. unfold save_or_panic. red1u.
  rewrite r_save_ok by (eapply nth_error_lt; eauto).
  destruct (N.leb lo (N.of_nat c)); reflexivity.
Qed.

Lemma step_repeat_eps_gr pc ix sl aux K lo next rep chk c ck : at_ pc (IRepeatEpsilonGr lo next rep chk) ->
  nth_error sl rep = Some (V c) -> nth_error sl chk = Some ck ->
  mstep (Run pc ix sl aux K) =
  if N.ltb lo (N.of_nat c) && val_eqb ck (V ix) then Fail K else
  let sl1 := upd sl rep (V (c + 1)) in
  if N.leb lo (N.of_nat c) then
    let sl2 := upd sl1 chk (V ix) in Run (S pc) ix sl2 aux (mk_alt_ next ix sl2 aux :: K)
  else Run (S pc) ix sl1 aux K.
Proof.
  intros H E E2. unfold mstep. rewrite H. cbn [gexec_insn]. red1u. unfold r_get, mkr at 1 2. cbn [r_slots]. rewrite E, E2.
  destruct (N.ltb lo (N.of_nat c) && val_eqb ck (V ix)); [reflexivity|]. unfold save_or_panic. red1u.
  rewrite r_save_ok by (eapply nth_error_lt; eauto).
  destruct (N.leb lo (N.of_nat c)); [|reflexivity].
  rewrite r_save_ok by (rewrite upd_length; eapply nth_error_lt; eauto). reflexivity.
Qed.

Lemma step_repeat_eps_ng pc ix sl aux K lo next rep chk c ck : at_ pc (IRepeatEpsilonNg lo next rep chk) ->
  nth_error sl rep = Some (V c) -> nth_error sl chk = Some ck ->
  mstep (Run pc ix sl aux K) =
  if N.ltb lo (N.of_nat c) && val_eqb ck (V ix) then Fail K else
  let sl1 := upd sl rep (V (c + 1)) in
  if N.leb lo (N.of_nat c) then
    let sl2 := upd sl1 chk (V ix) in Run next ix sl2 aux (mk_alt_ (S pc) ix sl2 aux :: K)
  else Run (S pc) ix sl1 aux K.
Proof.
  intros H E E2. unfold mstep. rewrite H. cbn [gexec_insn]. red1u. unfold r_get, mkr at 1 2. cbn [r_slots]. rewrite E, E2.
  destruct (N.ltb lo (N.of_nat c) && val_eqb ck (V ix)); [reflexivity|]. unfold save_or_panic. red1u.
  rewrite r_save_ok by (eapply nth_error_lt; eauto).
  destruct (N.leb lo (N.of_nat c)); [|reflexivity].
  rewrite r_save_ok by (rewrite upd_length; eapply nth_error_lt; eauto). reflexivity.
Qed.

(* FailNegativeLookAround pops down to and including the frame whose pc is pc + 1 *)
Lemma fnla_pops target : forall F fuel sl aux a K, length F < fuel ->
  Forall (fun b => a_pc b <> target) F -> a_pc a = target ->
  fnla rstate iface1u fuel (mkr sl aux (F ++ a :: K)) target = Some (mkr (a_slots a) (a_aux a) K).
Proof.
  induction F as [|b F IH]; intros fuel sl aux a K Hf HF Ha; (destruct fuel as [|fuel]; [cbn [length] in Hf; lia|]).
  - cbn [fnla app]. red1u. unfold r_pop, mkr. cbn [rexec r_alts r_max]. rewrite Ha, Nat.eqb_refl. reflexivity.
  - cbn [fnla app]. red1u. unfold r_pop, mkr at 1. cbn [rexec r_alts r_max].
    apply Forall_cons_iff in HF as [Hb HF]. destruct (Nat.eqb_spec (a_pc b) target); [contradiction|].
    apply (IH fuel (a_slots b) (a_aux b)); auto. cbn [length] in Hf. lia.
Qed.

Lemma step_fnla pc ix sl aux F a K : at_ pc IFailNegativeLookAround ->
  Forall (fun b => a_pc b <> S pc) F -> a_pc a = S pc ->
  mstep (Run pc ix sl aux (F ++ a :: K)) = Fail K.
Proof.
  intros H HF Ha. unfold mstep. rewrite H. cbn [gexec_insn]. red1u. unfold r_count. cbn [mkr r_alts].
  rewrite (fnla_pops (S pc) F _ sl aux a K); auto. rewrite app_length. cbn [length]. lia.
Qed.

(* ---------- the generator judgement ---------- *)

Record vst := { v_ix : nat; v_sl : list val; v_aux : list val }.
Definition RunV (pc : nat) (v : vst) (K : list alt) : cfg := Run pc (v_ix v) (v_sl v) (v_aux v) K.
Definition alt_of (pc : nat) (v : vst) : alt :=
  {| a_pc := pc; a_ix := v_ix v; a_slots := v_sl v; a_aux := v_aux v |}.

(* frames pushed by a block [p,q] carry a pc inside the block *)
Definition inblk (p q : nat) (F : list alt) : Prop := Forall (fun a => p <= a_pc a <= q) F.

(* Gen p q K c Ps: c arrives at q exactly |Ps| times, the i-th arrival satisfying Ps_i, each
   time with only frames of the block above K; after the last one it fails back to K *)
Inductive Gen (p q : nat) (K : list alt) : cfg -> list (vst -> Prop) -> Prop :=
| Gen_nil c : steps c (Fail K) -> Gen p q K c []
| Gen_cons c v F (Q : vst -> Prop) Ps :
    steps c (RunV q v (F ++ K)) -> inblk p q F -> Q v ->
    Gen p q K (Fail (F ++ K)) Ps -> Gen p q K c (Q :: Ps).

Lemma Gen_steps p q K c c' l : steps c c' -> Gen p q K c' l -> Gen p q K c l.
Proof. intros H G. inversion G; subst; [apply Gen_nil|eapply Gen_cons]; eauto using steps_trans. Qed.

Lemma Gen_step p q K c l : Gen p q K (mstep c) l -> Gen p q K c l.
Proof. apply Gen_steps, steps_one. Qed.

Lemma inblk_app p q F G : inblk p q F -> inblk p q G -> inblk p q (F ++ G).
Proof. intros; apply Forall_app; auto. Qed.
Lemma inblk_weaken p q p' q' F : p' <= p -> q <= q' -> inblk p q F -> inblk p' q' F.
Proof. intros ? ?. apply Forall_impl. intros a Ha; lia. Qed.

Lemma Gen_weaken p q p' K c l : p' <= p -> Gen p q K c l -> Gen p' q K c l.
Proof. intros Hp G. induction G; [apply Gen_nil; auto|eapply Gen_cons; eauto using inblk_weaken]. Qed.

Lemma Gen_app p q F K c l1 l2 : inblk p q F ->
  Gen p q (F ++ K) c l1 -> Gen p q K (Fail (F ++ K)) l2 -> Gen p q K c (l1 ++ l2).
Proof.
  intros HF G. induction G as [c H|c v F' Q Ps H HF' HQ G IH]; intros G2; simpl.
  - eapply Gen_steps; eauto.
  - rewrite app_assoc in H. eapply Gen_cons; eauto using inblk_app. rewrite <- app_assoc. apply IH. exact G2.
Qed.

(* sequencing: every arrival at r is continued by a generator towards q *)
Lemma Gen_bind p r q K c Ps (Qs : list (list (vst -> Prop))) :
  r <= q ->
  Gen p r K c Ps ->
  Forall2 (fun (Pi : vst -> Prop) Qi => forall v K', Pi v -> Gen p q K' (RunV r v K') Qi) Ps Qs ->
  Gen p q K c (concat Qs).
Proof.
  intros Hrq G. revert Qs. induction G as [c H|c v F Q Ps H HF HQ G IH]; intros Qs HQs; inversion HQs; subst; simpl.
  - apply Gen_nil; auto.
  - eapply Gen_steps; [exact H|].
    eapply Gen_app; [eapply inblk_weaken; [| |exact HF]; lia| |apply IH; auto]. auto.
Qed.

(* change of target pc / state transformer at the end of a block *)
Lemma Gen_map p q q' K c Ps Ps' :
  q <= q' ->
  Forall2 (fun (Pi Pi' : vst -> Prop) => forall v S, Pi v ->
             exists v', steps (RunV q v S) (RunV q' v' S) /\ Pi' v') Ps Ps' ->
  Gen p q K c Ps -> Gen p q' K c Ps'.
Proof.
  intros Hq HF G. revert Ps' HF. induction G as [c H|c v F Q Ps H HF' HQ G IH]; intros Ps' HPs; inversion HPs; subst.
  - apply Gen_nil; auto.
  - destruct (H2 v (F ++ K) HQ) as (v' & Hs & HP').
    eapply Gen_cons; [eapply steps_trans; eauto| eapply inblk_weaken; [| |exact HF']; lia | exact HP' | apply IH; auto].
Qed.

Lemma Gen_impl p q K c Ps Ps' :
  Forall2 (fun (Pi Pi' : vst -> Prop) => forall v, Pi v -> Pi' v) Ps Ps' ->
  Gen p q K c Ps -> Gen p q K c Ps'.
Proof.
  intros HF G. revert Ps' HF. induction G as [c H|c v F Q Ps H HF' HQ G IH]; intros Ps' HPs; inversion HPs; subst.
  - apply Gen_nil; auto.
  - eapply Gen_cons; eauto.
Qed.

Lemma Forall2_same_map {A B C} (f : A -> B) (g : A -> C) (Rr : B -> C -> Prop) l :
  (forall a, In a l -> Rr (f a) (g a)) -> Forall2 Rr (map f l) (map g l).
Proof. induction l; simpl; constructor; auto. Qed.

Lemma concat_map_map {A B C} (f : B -> C) (g : A -> list B) l :
  concat (map (fun a => map f (g a)) l) = map f (flat_map g l).
Proof. induction l; simpl; auto. rewrite map_app. f_equal; auto. Qed.

End Machine.
